/-
C19 (peers) — block synchronisation with several connected peers of which some fail.

`blockSyncer.Sync` asks EVERY connected peer for its last block, builds the `NodeInfo` list from the
answers and selects the best.  The earlier statements start after the selection (`blockSync` takes the
selected tip and peer).  A seeded change (C19-9) kept one pre-allocated slot per connected peer: the
slots of peers whose request failed stayed nil and reached `getBestNodeInfo`.  `Model.blockSyncPeers`
is the whole round; this file states what the failed peers may do to it: nothing.

* `C19_peers_none_answer` — nobody answers: a clean "no peer" error, chain untouched, nobody banned;
* `C19_peers_selected_answered` — the peer the round runs with ANSWERED the request, its answer is
  one of the best (`possibleBest` of the answers) and the outcome is that of `blockSync` with it:
  a failed peer is never selected and never changes who is;
* `C19_peers_converge` — if every best answer comes from an honest peer on the better chain (geometry
  of `C19_block_sync_geometry_at_tip`), the requester ends on exactly that chain whatever the other
  peers do (error, time-out, undecodable answer, a worse chain) and whichever of the best is drawn.
-/
import LiskVerif.Props.C19_Method

open LiskVerif LiskVerif.Sync

set_option linter.unusedSectionVars false

section Peers
variable {ι : Type} [DecidableEq ι]

/-- an entry of the `NodeInfo` list comes from a peer that answered, with exactly that answer -/
private theorem mem_answeringFrom (i : Nat) (peers : List (Option (Nat × Nat × ι) × Peer ι)) (t : Tip ι)
    (ht : t ∈ answeringFrom i peers) :
    i ≤ t.peer ∧ ∃ p, peers[t.peer - i]? = some p ∧ p.1 = some (t.height, t.mhp, t.id) := by
  induction peers generalizing i with
  | nil => cases ht
  | cons a r ih =>
    obtain ⟨ans, pr⟩ := a
    cases ans with
    | none =>
      simp only [answeringFrom] at ht
      obtain ⟨h1, p, hp, hpa⟩ := ih (i + 1) ht
      refine ⟨by omega, p, ?_, hpa⟩
      have : t.peer - i = (t.peer - (i + 1)) + 1 := by omega
      rw [this, List.getElem?_cons_succ]; exact hp
    | some v =>
      obtain ⟨h, m, id⟩ := v
      simp only [answeringFrom, List.mem_cons] at ht
      rcases ht with h0 | h0
      · subst h0
        exact ⟨Nat.le_refl _, (some (h, m, id), pr), by simp, rfl⟩
      · obtain ⟨h1, p, hp, hpa⟩ := ih (i + 1) h0
        refine ⟨by omega, p, ?_, hpa⟩
        have : t.peer - i = (t.peer - (i + 1)) + 1 := by omega
        rw [this, List.getElem?_cons_succ]; exact hp

private theorem answeringFrom_eq_nil (i : Nat) (peers : List (Option (Nat × Nat × ι) × Peer ι))
    (h : ∀ p ∈ peers, p.1 = none) : answeringFrom i peers = [] := by
  induction peers generalizing i with
  | nil => rfl
  | cons a r ih =>
    obtain ⟨ans, pr⟩ := a
    have ha : ans = none := h (ans, pr) List.mem_cons_self
    subst ha
    simp only [answeringFrom]
    exact ih (i + 1) (fun p hp => h p (List.mem_cons_of_mem _ hp))

/-- **Nobody answers.**  Every `getLastBlock` request of the peer selection fails (there may be no
connected peer at all): the round ends with the "no peer" error, the chain and the temp table are
untouched, nobody is banned — for every map order and random value. -/
theorem C19_peers_none_answer (applies : List (Blk ι) → Blk ι → Bool) (n fin myMhp : Nat) (q : List (Blk ι))
    (peers : List (Option (Nat × Nat × ι) × Peer ι)) (order : List ι) (rnd : Nat)
    (h : ∀ p ∈ peers, p.1 = none) :
    blockSyncPeers applies n fin myMhp q peers order rnd = ⟨q, [], false, some .noPeer⟩ := by
  unfold blockSyncPeers
  rw [answeringFrom_eq_nil 0 peers h]
  have hnone : bestWith order rnd ([] : List (Tip ι)) = none := by
    simp only [bestWith, mostFrequentWith, topGroup, largestBy]
    cases pickLoop (countId ([] : List (Tip ι))) order 0 none <;> simp
  simp only [hnone]

/-- **The selected peer answered, and its answer is one of the best.**  When at least one peer
answered, the round is `blockSync` with a peer `p` of the list that answered the request, whose
answer is the selected tip, and the selected tip is in `possibleBest` of the answers.  Peers whose
request failed are never selected and do not influence the choice (they are not in the list
`possibleBest` is computed from). -/
theorem C19_peers_selected_answered (applies : List (Blk ι) → Blk ι → Bool) (n fin myMhp : Nat) (q : List (Blk ι))
    (peers : List (Option (Nat × Nat × ι) × Peer ι)) (order : List ι) (rnd : Nat)
    (hord : ∀ u ∈ answeringFrom 0 peers, u.id ∈ order) (hne : answeringFrom 0 peers ≠ []) :
    ∃ best p, best ∈ possibleBest (answeringFrom 0 peers) ∧ peers[best.peer]? = some p ∧
      p.1 = some (best.height, best.mhp, best.id) ∧
      blockSyncPeers applies n fin myMhp q peers order rnd = blockSync applies n fin myMhp q best p.2 := by
  obtain ⟨best, hb⟩ := C19_best_peer_total (answeringFrom 0 peers) order rnd hne hord
  obtain ⟨hmem, _, _, _, hposs⟩ := C19_best_peer (answeringFrom 0 peers) order rnd best hord hb
  obtain ⟨_, p, hp, hpa⟩ := mem_answeringFrom 0 peers best hmem
  rw [Nat.sub_zero] at hp
  refine ⟨best, p, hposs, hp, hpa, ?_⟩
  unfold blockSyncPeers
  simp only [hb, hp]

/-- **Convergence with failing peers around.**  Requester on `com ++ qOwn`.  Among the connected peers
at least one answered, and every peer whose answer is one of the best is an honest peer on
`com ++ s' ++ [e]` that announced its tip `e` (prevoted height `mhp`) — the other peers may have
failed the request in any way, or be honest peers on worse chains.  With the geometry of
`C19_block_sync_geometry_at_tip` (fork point not below the finalized block, finalized block at most 18
rounds below the start of the search, sync condition for `e`) the requester ends on exactly
`com ++ s' ++ [e]`: no error, nobody banned, no temp block — whichever best peer is drawn. -/
theorem C19_peers_converge (applies : List (Blk ι) → Blk ι → Bool) (n fin myMhp mhp : Nat)
    (com qOwn s' : List (Blk ι)) (e : Blk ι)
    (peers : List (Option (Nat × Nat × ι) × Peer ι)) (order : List ι) (rnd : Nat)
    (hord : ∀ u ∈ answeringFrom 0 peers, u.id ∈ order) (hne : answeringFrom 0 peers ≠ [])
    (hbest : ∀ best ∈ possibleBest (answeringFrom 0 peers), ∀ p, peers[best.peer]? = some p →
      p.2 = honest (com ++ (s' ++ [e])) mhp ∧ best.height = e.height ∧ best.mhp = mhp)
    (hf : Fork com qOwn (s' ++ [e]))
    (hchain : ChainOK (com ++ (s' ++ [e])))
    (hvalid : ValidChain applies (com ++ (s' ++ [e])))
    (hok : ∀ b ∈ com ++ (s' ++ [e]), b.ok = true)
    (hn : 0 < n) (hov : fin + 10 * n < two32) (hlen : (com ++ qOwn).length ≤ two32)
    (hd : isDifferentChain myMhp mhp ((com ++ qOwn).length - 1) e.height = true)
    (hfork : fin < com.length)
    (hreach : getCommonBlockStartSearchHeight ((com ++ qOwn).length - 1) n ≤ fin + 18 * n) :
    blockSyncPeers applies n fin myMhp (com ++ qOwn) peers order rnd
      = ⟨com ++ (s' ++ [e]), [], false, none⟩ := by
  obtain ⟨best, p, hposs, hp, _, heq⟩ :=
    C19_peers_selected_answered applies n fin myMhp (com ++ qOwn) peers order rnd hord hne
  obtain ⟨hpeer, hbh, hbm⟩ := hbest best hposs p hp
  rw [heq, hpeer]
  exact C19_block_sync_geometry_at_tip applies n fin myMhp mhp com qOwn s' e best hf hchain hvalid hok hn hov hlen
    (by rw [hbm, hbh]; exact hd) hd hfork hreach

end Peers

/-- non-vacuity: three connected peers — the first fails the request, the second is honest on
`g b1 b2 b3`, the third is honest on the worse chain `g b1` — the requester `g b1 q2` ends on the
second peer's chain; with only failing peers: the clean error -/
example : C19outcome (blockSyncPeers C19applies 2 0 0 [C19g, C19b1, C19q2]
      [(none, honest [C19g] 0),
       (some (3, 1, 3), honest [C19g, C19b1, C19b2, C19b3] 1),
       (some (1, 0, 1), honest [C19g, C19b1] 0)] [1, 3] 0)
    = ([C19g, C19b1, C19b2, C19b3], [], false, none) := by decide
example : C19outcome (blockSyncPeers C19applies 2 0 0 [C19g, C19b1, C19q2]
      [(none, honest [C19g] 0), (none, honest [C19g] 0)] [] 0)
    = ([C19g, C19b1, C19q2], [], false, some .noPeer) := by decide
