/-
C07 (gap closing) — fork-choice classification as a function of the raw predicates, the LIP-0014
order as a strict weak order (no switching back), tie-break without ping-pong, and the
contradiction predicate without side conditions.

Everything is stated about the definitions REGENERATED from the Go source (`LiskVerif.Gen.*`,
referred to by name only) and about `Node.forkChoice` (Model/Node.lean), the `if`-chain of
`Executer.process` over those predicates that the C04/C05/C07 correspondence runs drive.

* `C07_forkChoice_eq_classify`   : `Node.forkChoice` is `C07classify` of Props/C07.lean.
* `C07_verdict_characterisation` : each of the six verdicts ⇔ a MINIMAL condition on the two headers
  and the two receive flags (negations of earlier tests that are implied are dropped);
  `C07_raw_exclusions` says which raw predicates exclude each other, `C07_raw_overlaps` exhibits the
  overlaps that remain (identical ∧ doubleForging, valid ∧ differentChain, doubleForging ∧ tieBreak),
  so the ORDER of the tests matters: `C07_order_df_tb_matters` characterises exactly the inputs on
  which swapping the double-forging and the tie-break test changes the class.
* `C07_better_strict_weak_order` : `IsDifferentChain` is irreflexive, asymmetric, transitive,
  negatively transitive and total up to equal (maxHeightPrevoted, height).
  `C07_switch_increases` / `C07_no_switch_back`: every tip change that `process` can cause strictly
  increases (maxHeightPrevoted, height, slot) lexicographically; along ANY sequence of such
  changes no header is ever tip twice and no earlier tip can make the node switch back.
* tie break: `C07_tiebreak_asymmetric` (the replaced block can never win a tie break back, whatever
  the receive times), `C07_tiebreak_winner_stable` (with the receive-time bookkeeping "the new
  tip's receive time is that of the block that replaced it" the winner can never lose a tie break
  to ANY block), their receive-time form `C07_tiebreak_no_pingpong_times`, and the same for two
  consecutive `Node.process` steps (`C07_process_tiebreak_final`).
* contradiction: `C07_contradicting_iff` (no hypothesis), `C07_lip0014_exact` (the LIP-0014 text:
  order the pair, then three causes), `C07_contradiction_order_invariant` (only comparisons, hence
  no wrap-around behaviour at all), `C07_double_prevote_is_contradicting` (two headers of one
  generator that imply a prevote for the same height — on any two chains — are contradicting:
  the cross-chain form of `C01_vote_once`).
-/
import LiskVerif.Props.C07
import LiskVerif.Lemmas.NodeRef
import LiskVerif.Lemmas.BFTSafety

open LiskVerif LiskVerif.Gen

/-! ### `Node.forkChoice` and `C07classify` -/

/-- the `forkChoice` record `process` builds for tip, incoming header and the two receive flags -/
def C07fc (slot : Slot) (tip cur : Hdr) (f : Node.RecvFlags) : FC :=
  { lastHeader := tip, currentHeader := cur, slot := slot,
    receivedBlockWithinForgingSlot := f.receivedBlockWithinForgingSlot,
    receivedLastBlockWithinForgingSlot := f.receivedLastBlockWithinForgingSlot }

def C07toVerdict : C07Class → Node.Verdict
  | .identical => .identical | .extendsTip => .valid | .doubleForging => .doubleForging
  | .tieBreak => .tieBreak | .betterChain => .differentChain | .discard => .discard

/-- The fork-choice glue of the node model is the classification of Props/C07.lean. -/
theorem C07_forkChoice_eq_classify (slot : Slot) (tip cur : Hdr) (f : Node.RecvFlags) :
    Node.forkChoice slot tip cur f = C07toVerdict (C07classify (C07fc slot tip cur f)) := by
  unfold Node.forkChoice C07classify C07fc
  simp only
  cases fcIsIdenticalBlock _ <;> cases fcIsValidBlock _ <;> cases fcIsDoubleForging _ <;>
    cases fcIsTieBreak _ <;> cases fcIsDifferentChain _ <;> rfl

/-! ### the raw predicates as propositions about the two headers -/

/-- same height, same maxHeightPrevoted, same parent (`isDuplicateBlock`) -/
def C07Dup (tip cur : Hdr) : Prop :=
  tip.height = cur.height ∧ tip.maxHeightPrevoted = cur.maxHeightPrevoted ∧
  tip.previousBlockID = cur.previousBlockID

/-- `IsValidBlock`: next height (`uint32` addition) on top of the tip -/
def C07Ext (tip cur : Hdr) : Prop :=
  (tip.height + 1) % 4294967296 = cur.height ∧ tip.id = cur.previousBlockID

/-- the part of `IsTieBreak` besides `isDuplicateBlock`: later slot, the tip was received outside
its slot, the incoming block inside its own -/
def C07TieCond (slot : Slot) (tip cur : Hdr) (f : Node.RecvFlags) : Prop :=
  slot.getSlotNumber tip.timestamp < slot.getSlotNumber cur.timestamp ∧
  f.receivedLastBlockWithinForgingSlot = false ∧ f.receivedBlockWithinForgingSlot = true

/-- `cur` is larger than `tip` in the LIP-0014 order -/
def C07BetterHdr (tip cur : Hdr) : Prop :=
  C07Better tip.maxHeightPrevoted tip.height cur.maxHeightPrevoted cur.height

instance (tip cur : Hdr) : Decidable (C07Dup tip cur) := by unfold C07Dup; infer_instance
instance (tip cur : Hdr) : Decidable (C07Ext tip cur) := by unfold C07Ext; infer_instance
instance (slot : Slot) (tip cur : Hdr) (f : Node.RecvFlags) : Decidable (C07TieCond slot tip cur f) := by
  unfold C07TieCond; infer_instance
instance (a b c d : Nat) : Decidable (C07Better a b c d) := by unfold C07Better; infer_instance
instance (tip cur : Hdr) : Decidable (C07BetterHdr tip cur) := by unfold C07BetterHdr; infer_instance

private theorem raw_identical (slot : Slot) (tip cur : Hdr) (f : Node.RecvFlags) :
    fcIsIdenticalBlock (C07fc slot tip cur f) = true ↔ tip.id = cur.id := by
  unfold fcIsIdenticalBlock C07fc; simp

private theorem raw_valid (slot : Slot) (tip cur : Hdr) (f : Node.RecvFlags) :
    fcIsValidBlock (C07fc slot tip cur f) = true ↔ C07Ext tip cur := by
  unfold fcIsValidBlock C07fc C07Ext; simp

private theorem raw_dup (slot : Slot) (tip cur : Hdr) (f : Node.RecvFlags) :
    fcIsDuplicateBlock (C07fc slot tip cur f) = true ↔ C07Dup tip cur := by
  unfold fcIsDuplicateBlock C07fc C07Dup; simp [and_assoc]

private theorem raw_df (slot : Slot) (tip cur : Hdr) (f : Node.RecvFlags) :
    fcIsDoubleForging (C07fc slot tip cur f) = true ↔
      (C07Dup tip cur ∧ tip.generatorAddress = cur.generatorAddress) := by
  rw [← raw_dup slot tip cur f]
  unfold fcIsDoubleForging C07fc; simp

private theorem raw_tb (slot : Slot) (tip cur : Hdr) (f : Node.RecvFlags) :
    fcIsTieBreak (C07fc slot tip cur f) = true ↔ (C07Dup tip cur ∧ C07TieCond slot tip cur f) := by
  rw [← raw_dup slot tip cur f]
  unfold fcIsTieBreak C07fc C07TieCond; simp [and_assoc]

private theorem raw_dc (slot : Slot) (tip cur : Hdr) (f : Node.RecvFlags) :
    fcIsDifferentChain (C07fc slot tip cur f) = true ↔ C07BetterHdr tip cur := by
  unfold fcIsDifferentChain C07BetterHdr C07fc
  exact C07_different_chain_iff _ _ _ _

/-- `process`'s `if`-chain, written over the propositions above -/
private theorem fc_cases (slot : Slot) (tip cur : Hdr) (f : Node.RecvFlags) :
    Node.forkChoice slot tip cur f =
      if tip.id = cur.id then .identical
      else if C07Ext tip cur then .valid
      else if C07Dup tip cur ∧ tip.generatorAddress = cur.generatorAddress then .doubleForging
      else if C07Dup tip cur ∧ C07TieCond slot tip cur f then .tieBreak
      else if C07BetterHdr tip cur then .differentChain
      else .discard := by
  have e : Node.forkChoice slot tip cur f =
      (if fcIsIdenticalBlock (C07fc slot tip cur f) = true then Node.Verdict.identical
       else if fcIsValidBlock (C07fc slot tip cur f) = true then .valid
       else if fcIsDoubleForging (C07fc slot tip cur f) = true then .doubleForging
       else if fcIsTieBreak (C07fc slot tip cur f) = true then .tieBreak
       else if fcIsDifferentChain (C07fc slot tip cur f) = true then .differentChain
       else .discard) := rfl
  rw [e]
  simp only [raw_identical, raw_valid, raw_df, raw_tb, raw_dc]

private theorem ext_not_dup (tip cur : Hdr) (h : C07Ext tip cur) : ¬ C07Dup tip cur := by
  unfold C07Ext at h; unfold C07Dup; omega

private theorem dup_not_better (tip cur : Hdr) (h : C07Dup tip cur) : ¬ C07BetterHdr tip cur := by
  unfold C07Dup at h; unfold C07BetterHdr C07Better; omega

/-- Which raw predicates exclude each other, for every pair of headers and all receive flags:
a block extending the tip is never a duplicate-height case (so neither `IsDoubleForging` nor
`IsTieBreak` holds for it — also at the `uint32` wrap of `Height+1`), and a duplicate-height case is
never a better chain. Consequently the only overlaps among the five tests of `process` are
identical ∧ anything, valid ∧ differentChain, doubleForging ∧ tieBreak (`C07_raw_overlaps`). -/
theorem C07_raw_exclusions (c : FC) :
    (fcIsValidBlock c = true → fcIsDoubleForging c = false ∧ fcIsTieBreak c = false) ∧
    (fcIsDoubleForging c = true → fcIsDifferentChain c = false) ∧
    (fcIsTieBreak c = true → fcIsDifferentChain c = false) := by
  have hc : c = C07fc c.slot c.lastHeader c.currentHeader
      { receivedBlockWithinForgingSlot := c.receivedBlockWithinForgingSlot,
        receivedLastBlockWithinForgingSlot := c.receivedLastBlockWithinForgingSlot } := rfl
  rw [hc]
  simp only [← Bool.not_eq_true, raw_valid, raw_df, raw_tb, raw_dc]
  refine ⟨fun h => ⟨fun h' => ext_not_dup _ _ h h'.1, fun h' => ext_not_dup _ _ h h'.1⟩,
    fun h => dup_not_better _ _ h.1, fun h => dup_not_better _ _ h.1⟩

/-! ### the classification as a function of the two headers and the receive flags -/

/-- **Each verdict of `process` ⇔ a minimal condition.** The classification is a function (one
verdict per input); the conditions below are pairwise exclusive and exhaustive, and only contain
the negations of earlier tests that are NOT implied:
* identical: same id;
* valid (extends the tip): different id, next height on the tip;
* double forging: different id, duplicate-height case, same generator (`¬ valid` is implied);
* tie break: different id, duplicate-height case, DIFFERENT generator, later slot, the tip was
  received outside its slot and the incoming block inside its own;
* different chain: different id, does not extend the tip, larger in the LIP-0014 order
  (`¬ doubleForging`, `¬ tieBreak` are implied);
* discard: everything else. -/
theorem C07_verdict_characterisation (slot : Slot) (tip cur : Hdr) (f : Node.RecvFlags) :
    (Node.forkChoice slot tip cur f = .identical ↔ tip.id = cur.id) ∧
    (Node.forkChoice slot tip cur f = .valid ↔ tip.id ≠ cur.id ∧ C07Ext tip cur) ∧
    (Node.forkChoice slot tip cur f = .doubleForging ↔
      tip.id ≠ cur.id ∧ C07Dup tip cur ∧ tip.generatorAddress = cur.generatorAddress) ∧
    (Node.forkChoice slot tip cur f = .tieBreak ↔
      tip.id ≠ cur.id ∧ C07Dup tip cur ∧ tip.generatorAddress ≠ cur.generatorAddress ∧
      C07TieCond slot tip cur f) ∧
    (Node.forkChoice slot tip cur f = .differentChain ↔
      tip.id ≠ cur.id ∧ ¬ C07Ext tip cur ∧ C07BetterHdr tip cur) ∧
    (Node.forkChoice slot tip cur f = .discard ↔
      tip.id ≠ cur.id ∧ ¬ C07Ext tip cur ∧ ¬ C07BetterHdr tip cur ∧
      (C07Dup tip cur → tip.generatorAddress ≠ cur.generatorAddress ∧ ¬ C07TieCond slot tip cur f)) := by
  have hx1 := ext_not_dup tip cur
  have hx2 := dup_not_better tip cur
  rw [fc_cases]
  by_cases h1 : tip.id = cur.id
  · simp [h1]
  by_cases h2 : C07Ext tip cur
  · simp [h1, h2, hx1 h2]
  by_cases h3 : C07Dup tip cur
  · by_cases h4 : tip.generatorAddress = cur.generatorAddress
    · simp [h1, h2, h3, h4, hx2 h3]
    · by_cases h5 : C07TieCond slot tip cur f
      · simp [h1, h2, h3, h4, h5, hx2 h3]
      · simp [h1, h2, h3, h4, h5, hx2 h3]
  · by_cases h6 : C07BetterHdr tip cur
    · simp [h1, h2, h3, h6]
    · simp [h1, h2, h3, h6]

/-- a double forger's second block in a later slot, arriving in its slot after a late tip -/
def C07exDfTb : FC :=
  { lastHeader :=
      { height := 7, generatorAddress := [1], maxHeightGenerated := 0, maxHeightPrevoted := 3,
        id := [1], previousBlockID := [9], timestamp := 10 },
    currentHeader :=
      { height := 7, generatorAddress := [1], maxHeightGenerated := 0, maxHeightPrevoted := 3,
        id := [2], previousBlockID := [9], timestamp := 20 },
    slot := ⟨fun t => ((t / 10 : Nat) : Int)⟩,
    receivedBlockWithinForgingSlot := true,
    receivedLastBlockWithinForgingSlot := false }

/-- The overlaps that remain, by example — hence the order of the tests in `process` matters:
(1) a block identical to the tip satisfies the raw `IsDoubleForging` (only the earlier
`IsIdenticalBlock` keeps a re-broadcast tip from being reported as double forging);
(2) the ordinary successor with unchanged maxHeightPrevoted satisfies `IsDifferentChain` as well
(only the earlier `IsValidBlock` keeps the node from starting a sync for it);
(3) a block can satisfy `IsDoubleForging` and `IsTieBreak` together (same generator, two slots). -/
theorem C07_raw_overlaps :
    (∀ (c : FC), c.currentHeader = c.lastHeader →
      fcIsIdenticalBlock c = true ∧ fcIsDoubleForging c = true) ∧
    (∀ (c : FC), fcIsValidBlock c = true → c.lastHeader.height + 1 < 4294967296 →
      c.lastHeader.maxHeightPrevoted ≤ c.currentHeader.maxHeightPrevoted →
      fcIsDifferentChain c = true) ∧
    (∃ c : FC, fcIsIdenticalBlock c = false ∧ fcIsValidBlock c = false ∧
      fcIsDoubleForging c = true ∧ fcIsTieBreak c = true) := by
  refine ⟨?_, ?_, ?_⟩
  · intro c hc
    have e : c = C07fc c.slot c.lastHeader c.currentHeader
        { receivedBlockWithinForgingSlot := c.receivedBlockWithinForgingSlot,
          receivedLastBlockWithinForgingSlot := c.receivedLastBlockWithinForgingSlot } := rfl
    rw [e, raw_identical, raw_df, hc]
    exact ⟨rfl, ⟨rfl, rfl, rfl⟩, rfl⟩
  · intro c hv hb hm
    have e : c = C07fc c.slot c.lastHeader c.currentHeader
        { receivedBlockWithinForgingSlot := c.receivedBlockWithinForgingSlot,
          receivedLastBlockWithinForgingSlot := c.receivedLastBlockWithinForgingSlot } := rfl
    rw [e, raw_valid] at hv
    rw [e, raw_dc]
    unfold C07Ext at hv
    unfold C07BetterHdr C07Better
    omega
  · exact ⟨C07exDfTb, by decide, by decide, by decide, by decide⟩

/-- `process` with the double-forging and the tie-break test swapped -/
def C07classifySwapped (c : FC) : C07Class :=
  if fcIsIdenticalBlock c then .identical
  else if fcIsValidBlock c then .extendsTip
  else if fcIsTieBreak c then .tieBreak
  else if fcIsDoubleForging c then .doubleForging
  else if fcIsDifferentChain c then .betterChain
  else .discard

/-- Swapping the double-forging and the tie-break test changes the class exactly for the blocks
that satisfy both (not identical, not extending): the code discards them as double forging, the
swapped order would replace the tip with the second block of the double forger. -/
theorem C07_order_df_tb_matters (c : FC) :
    C07classify c ≠ C07classifySwapped c ↔
      (fcIsIdenticalBlock c = false ∧ fcIsValidBlock c = false ∧
       fcIsDoubleForging c = true ∧ fcIsTieBreak c = true) := by
  unfold C07classify C07classifySwapped
  cases fcIsIdenticalBlock c <;> cases fcIsValidBlock c <;> cases fcIsDoubleForging c <;>
    cases fcIsTieBreak c <;> cases fcIsDifferentChain c <;> simp

/-- … and on those blocks the two orders give `doubleForging` resp. `tieBreak`. -/
theorem C07_order_df_tb_values (c : FC) (h : C07classify c ≠ C07classifySwapped c) :
    C07classify c = .doubleForging ∧ C07classifySwapped c = .tieBreak := by
  obtain ⟨h1, h2, h3, h4⟩ := (C07_order_df_tb_matters c).mp h
  unfold C07classify C07classifySwapped
  simp [h1, h2, h3, h4]

/-! ### the LIP-0014 order is a strict weak order; no switching back -/

/-- `IsDifferentChain`, as a relation "`(m₂,h₂)` is better than `(m₁,h₁)`" on
(maxHeightPrevoted, height), is irreflexive, asymmetric, transitive, negatively transitive and
total up to equality of the pair — a strict total order on the pairs, i.e. a strict weak order on
headers whose indifference classes are the headers with equal (maxHeightPrevoted, height). -/
theorem C07_better_strict_weak_order :
    (∀ m h, isDifferentChain m m h h = false) ∧
    (∀ m₁ h₁ m₂ h₂, isDifferentChain m₁ m₂ h₁ h₂ = true → isDifferentChain m₂ m₁ h₂ h₁ = false) ∧
    (∀ m₁ h₁ m₂ h₂ m₃ h₃, isDifferentChain m₁ m₂ h₁ h₂ = true → isDifferentChain m₂ m₃ h₂ h₃ = true →
      isDifferentChain m₁ m₃ h₁ h₃ = true) ∧
    (∀ m₁ h₁ m₂ h₂ m₃ h₃, isDifferentChain m₁ m₂ h₁ h₂ = false → isDifferentChain m₂ m₃ h₂ h₃ = false →
      isDifferentChain m₁ m₃ h₁ h₃ = false) ∧
    (∀ m₁ h₁ m₂ h₂, isDifferentChain m₁ m₂ h₁ h₂ = true ∨ (m₁ = m₂ ∧ h₁ = h₂) ∨
      isDifferentChain m₂ m₁ h₂ h₁ = true) := by
  simp only [← Bool.not_eq_true, C07_different_chain_iff]
  unfold C07Better
  refine ⟨?_, ?_, ?_, ?_, ?_⟩ <;> intros <;> omega

/-- the key that every tip change increases: (maxHeightPrevoted, height, slot of the timestamp),
lexicographically -/
def C07KeyLt (slot : Slot) (a b : Hdr) : Prop :=
  a.maxHeightPrevoted < b.maxHeightPrevoted ∨
  (a.maxHeightPrevoted = b.maxHeightPrevoted ∧ a.height < b.height) ∨
  (a.maxHeightPrevoted = b.maxHeightPrevoted ∧ a.height = b.height ∧
    slot.getSlotNumber a.timestamp < slot.getSlotNumber b.timestamp)

/-- Header `b` makes a node whose tip is `a` leave `a`: `process` classifies it as tie break
(tip replaced by `b`), as a different chain (sync towards `b`), or as a valid successor — for the
last case with what `verifyBlock` guarantees about an applied block (its maxHeightPrevoted is the
node's own value, which never decreases along a chain) and away from the `uint32` wrap. -/
def C07Switch (slot : Slot) (a b : Hdr) : Prop :=
  ∃ f : Node.RecvFlags,
    Node.forkChoice slot a b f = .tieBreak ∨ Node.forkChoice slot a b f = .differentChain ∨
    (Node.forkChoice slot a b f = .valid ∧ a.maxHeightPrevoted ≤ b.maxHeightPrevoted ∧
      a.height + 1 < 4294967296)

/-- Every tip change strictly increases the key. -/
theorem C07_switch_increases (slot : Slot) (a b : Hdr) (h : C07Switch slot a b) : C07KeyLt slot a b := by
  obtain ⟨f, h⟩ := h
  obtain ⟨_, hv, _, ht, hd, _⟩ := C07_verdict_characterisation slot a b f
  unfold C07KeyLt
  rcases h with h | h | ⟨h, hm, hb⟩
  · obtain ⟨_, hdup, _, hs, _⟩ := ht.mp h
    unfold C07Dup at hdup
    exact Or.inr (Or.inr ⟨hdup.2.1, hdup.1, hs⟩)
  · obtain ⟨_, _, hb⟩ := hd.mp h
    unfold C07BetterHdr C07Better at hb
    omega
  · obtain ⟨_, he⟩ := hv.mp h
    unfold C07Ext at he
    omega

theorem C07_keyLt_irrefl (slot : Slot) (a : Hdr) : ¬ C07KeyLt slot a a := by
  unfold C07KeyLt; omega

theorem C07_keyLt_trans (slot : Slot) (a b c : Hdr) (h1 : C07KeyLt slot a b) (h2 : C07KeyLt slot b c) :
    C07KeyLt slot a c := by
  unfold C07KeyLt at *; omega

/-- consecutive elements of a list are related -/
def C07Consecutive (R : Hdr → Hdr → Prop) : List Hdr → Prop
  | [] => True
  | [_] => True
  | a :: b :: r => R a b ∧ C07Consecutive R (b :: r)

/-- **A node never switches back.** Let `tips` be the successive tips of a node, each one having
made the node leave the previous one (by extension, tie break or better chain — in any mixture,
for any receive times). Then the key strictly increases between ANY earlier and later tip, so
no header is tip twice (no cycle of "better chain"/tie-break switches), and an earlier tip can
never make the node switch back from a later one. -/
theorem C07_no_switch_back (slot : Slot) (tips : List Hdr) (h : C07Consecutive (C07Switch slot) tips) :
    tips.Pairwise (fun a b => C07KeyLt slot a b ∧ a ≠ b ∧ ¬ C07Switch slot b a) := by
  have key : tips.Pairwise (C07KeyLt slot) := by
    induction tips with
    | nil => exact List.Pairwise.nil
    | cons a r ih =>
      cases r with
      | nil => exact List.pairwise_singleton _ _
      | cons b r' =>
        obtain ⟨hab, hr⟩ := h
        have ihr := ih hr
        have hk := C07_switch_increases slot a b hab
        refine List.pairwise_cons.mpr ⟨?_, ihr⟩
        intro x hx
        rcases List.mem_cons.mp hx with rfl | hx
        · exact hk
        · exact C07_keyLt_trans slot a b x hk ((List.pairwise_cons.mp ihr).1 x hx)
  refine key.imp ?_
  intro a b hab
  refine ⟨hab, ?_, ?_⟩
  · rintro rfl; exact C07_keyLt_irrefl slot a hab
  · intro hba
    exact C07_keyLt_irrefl slot a (C07_keyLt_trans slot a b a hab (C07_switch_increases slot b a hba))

/-! ### tie break: when it fires, and no ping-pong -/

/-- The replaced block can never win a tie break back: if `b` replaces the tip `a` by tie break,
then — whatever the receive times later are — `a` arriving again on tip `b` is not a tie break
(the slot of `a` is strictly smaller). -/
theorem C07_tiebreak_asymmetric (slot : Slot) (a b : Hdr) (f g : Node.RecvFlags)
    (h : Node.forkChoice slot a b f = .tieBreak) : Node.forkChoice slot b a g ≠ .tieBreak := by
  intro h'
  have h1 := (C07_verdict_characterisation slot a b f).2.2.2.1.mp h
  have h2 := (C07_verdict_characterisation slot b a g).2.2.2.1.mp h'
  have := h1.2.2.2.1
  have := h2.2.2.2.1
  omega

/-- The winner of a tie break is final as far as tie breaks go: a tie break only fires for an
incoming block received INSIDE its own slot; `process` records that receive time as the new tip's
(`g.receivedLastBlockWithinForgingSlot = f.receivedBlockWithinForgingSlot` is this bookkeeping,
the flags themselves are inputs of the node model), and a tip received inside its slot never
loses a tie break — to any block `c`, at any later time. So per (height, parent) there is at most
one tie-break replacement: no ping-pong. -/
theorem C07_tiebreak_winner_stable (slot : Slot) (a b c : Hdr) (f g : Node.RecvFlags)
    (h : Node.forkChoice slot a b f = .tieBreak)
    (hbook : g.receivedLastBlockWithinForgingSlot = f.receivedBlockWithinForgingSlot) :
    Node.forkChoice slot b c g ≠ .tieBreak := by
  intro h'
  have h1 := ((C07_verdict_characterisation slot a b f).2.2.2.1.mp h).2.2.2
  have h2 := ((C07_verdict_characterisation slot b c g).2.2.2.1.mp h').2.2.2
  unfold C07TieCond at h1 h2
  rw [hbook, h1.2.2] at h2
  exact absurd h2.2.1 (by simp)

/-- `receivedBlockWithinForgingSlot` / `receivedLastBlockWithinForgingSlot` (fork_choice.go:63-73)
written out over receive times; `recvTip = none` is a tip that came from syncing. NOTE: this is a
hand transcription (fngen treats the two helpers as opaque inputs, and so does the node model); the
two theorems above do not depend on it. -/
def C07recvFlags (slot : Slot) (tip cur : Hdr) (recvTip : Option Nat) (now : Nat) : Node.RecvFlags :=
  { receivedBlockWithinForgingSlot :=
      decide (slot.getSlotNumber now = slot.getSlotNumber cur.timestamp),
    receivedLastBlockWithinForgingSlot :=
      match recvTip with
      | none => true
      | some r => decide (slot.getSlotNumber r = slot.getSlotNumber tip.timestamp) }

/-- The same over receive times. If `b`, received at `tb`, replaces the tip `a` (received at `ra`)
by tie break, then `a` had a recorded receive time outside its slot, `tb` lies in the slot of `b`,
which is later than the slot of `a`; and once `tb` is recorded as the receive time of the new tip,
NO block received at any time wins a tie break against `b`; `a` itself does not whatever receive
time is recorded for `b`; and if the replacement is reverted (`a` applied again, receive time
`tb` kept), `a` still counts as received outside its slot. A tip that came from syncing
(no receive time) never loses a tie break. -/
theorem C07_tiebreak_no_pingpong_times (slot : Slot) (a b : Hdr) (ra : Option Nat) (tb : Nat)
    (h : Node.forkChoice slot a b (C07recvFlags slot a b ra tb) = .tieBreak) :
    (∃ r, ra = some r ∧ slot.getSlotNumber r ≠ slot.getSlotNumber a.timestamp) ∧
    slot.getSlotNumber tb = slot.getSlotNumber b.timestamp ∧
    slot.getSlotNumber a.timestamp < slot.getSlotNumber b.timestamp ∧
    (∀ c tc, Node.forkChoice slot b c (C07recvFlags slot b c (some tb) tc) ≠ .tieBreak) ∧
    (∀ rb tc, Node.forkChoice slot b a (C07recvFlags slot b a rb tc) ≠ .tieBreak) ∧
    (C07recvFlags slot a b (some tb) tb).receivedLastBlockWithinForgingSlot = false := by
  have h1 := ((C07_verdict_characterisation slot a b _).2.2.2.1.mp h).2.2.2
  unfold C07TieCond C07recvFlags at h1
  simp only [decide_eq_true_eq] at h1
  obtain ⟨hs, hl, hc⟩ := h1
  refine ⟨?_, hc, hs, ?_, ?_, ?_⟩
  · cases ra with
    | none => simp at hl
    | some r => exact ⟨r, rfl, by simpa using hl⟩
  · intro c tc
    exact C07_tiebreak_winner_stable slot a b c _ _ h (by simp [C07recvFlags, hc])
  · intro rb tc
    exact C07_tiebreak_asymmetric slot a b _ _ h
  · simp only [C07recvFlags, decide_eq_false_iff_not]
    omega

theorem C07_synced_tip_never_loses_tiebreak (slot : Slot) (a b : Hdr) (tb : Nat) :
    Node.forkChoice slot a b (C07recvFlags slot a b none tb) ≠ .tieBreak := by
  intro h
  obtain ⟨⟨r, hr, _⟩, _⟩ := C07_tiebreak_no_pingpong_times slot a b none tb h
  cases hr

/-- a tie-break result of `Node.process` comes from a tie-break verdict against the cached tip -/
private theorem process_tb_verdict {cd : Node.Codecs} {cfg : Node.Cfg} {slot : Slot} {s : Node.St}
    {j : Node.Incoming}
    (h : (Node.process cd cfg slot s j).2 = .tieBreakApplied ∨
         (Node.process cd cfg slot s j).2 = .tieBreakReverted ∨
         (Node.process cd cfg slot s j).2 = .tieBreakLost) :
    ∃ tip rest, s.cache = tip :: rest ∧
      Node.forkChoice slot tip.hdr j.block.hdr j.flags = .tieBreak := by
  unfold Node.process at h
  cases hc : s.cache with
  | nil => rw [hc] at h; simp at h
  | cons tip rest =>
    rw [hc] at h
    simp only at h
    cases hv : Node.forkChoice slot tip.hdr j.block.hdr j.flags with
    | tieBreak => exact ⟨tip, rest, rfl, hv⟩
    | identical => rw [hv] at h; simp at h
    | doubleForging => rw [hv] at h; simp at h
    | differentChain => rw [hv] at h; simp at h
    | discard => rw [hv] at h; simp at h
    | valid =>
      rw [hv] at h
      simp only at h
      split at h
      · simp at h
      · split at h <;> simp at h

/-- **No ping-pong, for two consecutive `Executer.process` steps of the node model.** If `process`
replaced the tip `tip` by the incoming block `i.block` (result `tieBreakApplied`), then the new
tip is `i.block`, and for EVERY next incoming block `j` whose "tip received within its slot" flag
is the recorded one (the receive time of `i.block`), `j` is not classified as a tie break and
`process` takes none of the tie-break paths; the old tip arriving again is not a tie break for
any flags at all. -/
theorem C07_process_tiebreak_final (cd : Node.Codecs) (cfg : Node.Cfg) (slot : Slot) (s s' : Node.St)
    (i : Node.Incoming) (h : Node.process cd cfg slot s i = (s', .tieBreakApplied)) :
    ∃ tip rest rest', s.cache = tip :: rest ∧ s'.cache = i.block :: rest' ∧
      Node.forkChoice slot tip.hdr i.block.hdr i.flags = .tieBreak ∧
      (∀ j : Node.Incoming,
        j.flags.receivedLastBlockWithinForgingSlot = i.flags.receivedBlockWithinForgingSlot →
        Node.forkChoice slot i.block.hdr j.block.hdr j.flags ≠ .tieBreak ∧
        (Node.process cd cfg slot s' j).2 ≠ .tieBreakApplied ∧
        (Node.process cd cfg slot s' j).2 ≠ .tieBreakReverted ∧
        (Node.process cd cfg slot s' j).2 ≠ .tieBreakLost) ∧
      (∀ j : Node.Incoming, j.block.hdr = tip.hdr →
        Node.forkChoice slot i.block.hdr j.block.hdr j.flags ≠ .tieBreak) := by
  obtain ⟨tip, rest, hc, hv⟩ := process_tb_verdict (Or.inl (by rw [h]))
  -- the new cache
  have hcache : ∃ rest', s'.cache = i.block :: rest' := by
    unfold Node.process at h
    rw [hc] at h
    simp only [hv] at h
    split at h
    · simp at h
    · split at h
      · split at h
        · rename_i s2 hap
          simp only [Prod.mk.injEq, and_true] at h
          subst h
          obtain ⟨_, _, _, _, _, _, _, _, hs2⟩ := Node.apply_ok_inv hap
          exact ⟨_, by rw [hs2]; rfl⟩
        · split at h <;> simp at h
      · simp at h
      · simp at h
  obtain ⟨rest', hc'⟩ := hcache
  refine ⟨tip, rest, rest', hc, hc', hv, ?_, ?_⟩
  · intro j hj
    have hn := C07_tiebreak_winner_stable slot tip.hdr i.block.hdr j.block.hdr i.flags j.flags hv hj
    have hno : ¬ ((Node.process cd cfg slot s' j).2 = .tieBreakApplied ∨
         (Node.process cd cfg slot s' j).2 = .tieBreakReverted ∨
         (Node.process cd cfg slot s' j).2 = .tieBreakLost) := by
      intro hh
      obtain ⟨t2, r2, hc2, hv2⟩ := process_tb_verdict hh
      rw [hc'] at hc2
      injection hc2 with e1 _
      subst e1
      exact hn hv2
    exact ⟨hn, fun x => hno (Or.inl x), fun x => hno (Or.inr (Or.inl x)), fun x => hno (Or.inr (Or.inr x))⟩
  · intro j hj
    rw [hj]
    exact C07_tiebreak_asymmetric slot tip.hdr i.block.hdr i.flags j.flags hv

/-! ### contradiction: exact LIP-0014 reading, no wrap-around, vote once -/

/-- Without any side condition, for all header pairs: contradicting ⇔ same generator and neither
header is a legitimate successor of the other. -/
theorem C07_contradicting_iff (a b : Hdr) :
    areDistinctHeadersContradicting a b = true ↔
      (a.generatorAddress = b.generatorAddress ∧ ¬ C07LegitSucc a b ∧ ¬ C07LegitSucc b a) := by
  by_cases hg : a.generatorAddress = b.generatorAddress
  · have := C07_spec a b hg
    cases hc : areDistinctHeadersContradicting a b with
    | true =>
      rw [hc] at this
      simp only [true_iff]
      refine ⟨hg, fun h => ?_, fun h => ?_⟩
      · exact absurd (this.mpr (Or.inl h)) (by simp)
      · exact absurd (this.mpr (Or.inr h)) (by simp)
    | false =>
      rw [hc] at this
      have := this.mp rfl
      constructor
      · intro h; cases h
      · rintro ⟨_, h1, h2⟩; rcases this with h | h <;> contradiction
  · rw [C07_diff_generator_never a b hg]
    constructor
    · intro h; cases h
    · rintro ⟨h, _⟩; exact absurd h hg

/-- LIP-0014 orders the pair by (maxHeightGenerated, maxHeightPrevoted, height) … -/
def C07LipLe (a b : Hdr) : Prop :=
  a.maxHeightGenerated < b.maxHeightGenerated ∨
  (a.maxHeightGenerated = b.maxHeightGenerated ∧ a.maxHeightPrevoted < b.maxHeightPrevoted) ∨
  (a.maxHeightGenerated = b.maxHeightGenerated ∧ a.maxHeightPrevoted = b.maxHeightPrevoted ∧
    a.height ≤ b.height)

/-- … and then names three causes for the ordered pair (`e` earlier, `l` later) -/
def C07LipCauses (e l : Hdr) : Prop :=
  (e.maxHeightPrevoted = l.maxHeightPrevoted ∧ l.height ≤ e.height) ∨
  l.maxHeightGenerated < e.height ∨ l.maxHeightPrevoted < e.maxHeightPrevoted

instance (a b : Hdr) : Decidable (C07LipLe a b) := by unfold C07LipLe; infer_instance
instance (a b : Hdr) : Decidable (C07LipCauses a b) := by unfold C07LipCauses; infer_instance

/-- **The LIP-0014 definition, literally, for all pairs**: two headers are contradicting iff they
have the same generator and, for an ordering of the pair by (maxHeightGenerated,
maxHeightPrevoted, height) (either one when all three are equal), one of the three causes holds.
No hypothesis on the order in which the code is given the headers, nor on the field values. -/
theorem C07_lip0014_exact (a b : Hdr) :
    areDistinctHeadersContradicting a b = true ↔
      (a.generatorAddress = b.generatorAddress ∧
        ((C07LipLe a b ∧ C07LipCauses a b) ∨ (C07LipLe b a ∧ C07LipCauses b a))) := by
  rw [C07_contradicting_iff]
  unfold C07LegitSucc C07LipLe C07LipCauses
  constructor
  · rintro ⟨hg, h1, h2⟩
    refine ⟨hg, ?_⟩
    omega
  · rintro ⟨hg, h⟩
    refine ⟨hg, ?_⟩
    omega

/-- relabel the three height fields -/
def C07mapHdr (φ : Nat → Nat) (a : Hdr) : Hdr :=
  { a with height := φ a.height, maxHeightGenerated := φ a.maxHeightGenerated,
           maxHeightPrevoted := φ a.maxHeightPrevoted }

/-- The verdict depends only on the relative ORDER of the six numbers: it is invariant under every
strictly increasing relabelling of heights. In particular there is no arithmetic on heights in
`AreDistinctHeadersContradicting`, hence no special behaviour at the `uint32` boundary (unlike
`IsValidBlock`, whose `Height+1` wraps). -/
theorem C07_contradiction_order_invariant (φ : Nat → Nat) (hφ : ∀ x y, x < y → φ x < φ y)
    (a b : Hdr) :
    areDistinctHeadersContradicting (C07mapHdr φ a) (C07mapHdr φ b) =
      areDistinctHeadersContradicting a b := by
  have hlt : ∀ x y, φ x < φ y ↔ x < y := by
    intro x y
    constructor
    · intro h
      rcases Nat.lt_trichotomy x y with h1 | h1 | h1
      · exact h1
      · subst h1; omega
      · have := hφ y x h1; omega
    · exact hφ x y
  have heq : ∀ x y, φ x = φ y ↔ x = y := by
    intro x y
    constructor
    · intro h
      rcases Nat.lt_trichotomy x y with h1 | h1 | h1
      · have := hφ x y h1; omega
      · exact h1
      · have := hφ y x h1; omega
    · intro h; rw [h]
  have hle : ∀ x y, φ x ≤ φ y ↔ x ≤ y := by
    intro x y
    rw [Nat.le_iff_lt_or_eq, Nat.le_iff_lt_or_eq, hlt, heq]
  have key : areDistinctHeadersContradicting (C07mapHdr φ a) (C07mapHdr φ b) = true ↔
      areDistinctHeadersContradicting a b = true := by
    rw [C07_contradicting_iff, C07_contradicting_iff]
    unfold C07LegitSucc C07mapHdr
    simp only [hlt, heq, hle]
  cases h1 : areDistinctHeadersContradicting a b with
  | true => exact key.mpr h1
  | false =>
    cases h2 : areDistinctHeadersContradicting (C07mapHdr φ a) (C07mapHdr φ b) with
    | false => rfl
    | true => rw [key.mp h2] at h1; cases h1

/-- header `x` implies a prevote for height `h` (LIP-0014: the heights above the generator's
maxHeightGenerated up to the header's own height) -/
def C07Prevotes (x : Hdr) (h : Nat) : Prop := x.maxHeightGenerated < h ∧ h ≤ x.height

/-- **Voting twice is always flagged.** Two headers of one generator that both imply a prevote for
the same height are contradicting — for ANY two headers (on one chain or on two different
chains). `C01_vote_once` is the instance "two blocks of one valid chain"; this is the form the
safety proof needs across branches, and it is what makes a double vote punishable. -/
theorem C07_double_prevote_is_contradicting (a b : Hdr)
    (hg : a.generatorAddress = b.generatorAddress) (h : Nat)
    (ha : C07Prevotes a h) (hb : C07Prevotes b h) : areDistinctHeadersContradicting a b = true := by
  rw [C07_contradicting_iff]
  unfold C07Prevotes at ha hb
  unfold C07LegitSucc
  refine ⟨hg, ?_, ?_⟩ <;> omega

/-- The same for the prevote relation of the BFT specification used by C01 (`BFTSpec.prevotes`):
any two blocks of one generator whose headers prevote for the same height carry contradicting
headers. -/
theorem C07_spec_double_prevote_is_contradicting (cfg : BFTSpec.Cfg) (x y : BFT.Header) (h : Nat)
    (hg : x.gen = y.gen) (hx : BFTSpec.prevotes cfg x h = true) (hy : BFTSpec.prevotes cfg y h = true) :
    areDistinctHeadersContradicting (BFTSpec.toHdr x) (BFTSpec.toHdr y) = true := by
  have h1 := (BFTSpec.prevotes_iff cfg x h).mp hx
  have h2 := (BFTSpec.prevotes_iff cfg y h).mp hy
  apply C07_double_prevote_is_contradicting _ _ hg h
  · exact ⟨h1.2.1, h1.2.2.2⟩
  · exact ⟨h2.2.1, h2.2.2.2⟩

/-- Hence a validator that is honest in the sense of the C01 safety proof (no two distinct blocks
of a block tree generated by it carry contradicting headers, `BFTSpec.HonestR`) prevotes at most
once for every height in the WHOLE tree, not only along one chain. -/
theorem C07_honest_prevotes_once_in_tree (cfg : BFTSpec.Cfg) (Tr : List (List BFT.Header)) (a : Bytes)
    (hon : BFTSpec.HonestR Tr a) (x : BFT.Header) (p : List BFT.Header) (y : BFT.Header)
    (q : List BFT.Header) (hx : BFTSpec.InTree Tr (x :: p)) (hy : BFTSpec.InTree Tr (y :: q))
    (hxg : x.gen = a) (hyg : y.gen = a) (hne : x :: p ≠ y :: q) (h : Nat) :
    ¬ (BFTSpec.prevotes cfg x h = true ∧ BFTSpec.prevotes cfg y h = true) := by
  rintro ⟨h1, h2⟩
  have := C07_spec_double_prevote_is_contradicting cfg x y h (by rw [hxg, hyg]) h1 h2
  rw [hon x p y q hx hy hxg hyg hne] at this
  cases this

/-! ### non-vacuity -/

section
private def hT : Hdr :=
  { height := 7, generatorAddress := [1], maxHeightGenerated := 0, maxHeightPrevoted := 3,
    id := [1], previousBlockID := [9], timestamp := 10 }
private def hU : Hdr :=
  { height := 7, generatorAddress := [2], maxHeightGenerated := 0, maxHeightPrevoted := 3,
    id := [2], previousBlockID := [9], timestamp := 20 }
private def hV : Hdr :=
  { height := 8, generatorAddress := [3], maxHeightGenerated := 0, maxHeightPrevoted := 3,
    id := [3], previousBlockID := [2], timestamp := 30 }
private def hW : Hdr :=
  { height := 6, generatorAddress := [3], maxHeightGenerated := 0, maxHeightPrevoted := 5,
    id := [4], previousBlockID := [8], timestamp := 40 }
private def sl : Slot := ⟨fun t => ((t / 10 : Nat) : Int)⟩
private def late : Node.RecvFlags := ⟨true, false⟩
private def inTime : Node.RecvFlags := ⟨true, true⟩

-- all six verdicts occur
example : Node.forkChoice sl hT hT late = .identical := by decide
example : Node.forkChoice sl hU hV late = .valid := by decide
example : Node.forkChoice sl hT { hT with id := [5], timestamp := 20 } late = .doubleForging := by decide
example : Node.forkChoice sl hT hU late = .tieBreak := by decide
example : Node.forkChoice sl hT hW late = .differentChain := by decide
example : Node.forkChoice sl hW hT late = .discard := by decide
-- the same competitor is discarded when the tip was received inside its slot
example : Node.forkChoice sl hT hU inTime = .discard := by decide
-- `C07_order_df_tb_matters`: the orders disagree on the example
example : C07classify C07exDfTb = .doubleForging ∧ C07classifySwapped C07exDfTb = .tieBreak := by decide
-- `C07_no_switch_back`: a sequence tie break → extension → better chain; hypotheses hold
example : C07Consecutive (C07Switch sl) [hT, hU, hV, hW] :=
  ⟨⟨late, Or.inl (by decide)⟩, ⟨late, Or.inr (Or.inr ⟨by decide, by decide, by decide⟩)⟩,
   ⟨late, Or.inr (Or.inl (by decide))⟩, trivial⟩
-- `C07_tiebreak_no_pingpong_times`: tip received one slot late (t = 25), competitor in its slot
example : Node.forkChoice sl hT hU (C07recvFlags sl hT hU (some 25) 27) = .tieBreak := by decide
example : Node.forkChoice sl hU hT (C07recvFlags sl hU hT (some 27) 28) = .discard := by decide
-- contradiction at the `uint32` boundary: only the order matters
example : areDistinctHeadersContradicting
    { height := 4294967295, generatorAddress := [1], maxHeightGenerated := 4294967294, maxHeightPrevoted := 4294967295 }
    { height := 0, generatorAddress := [1], maxHeightGenerated := 4294967295, maxHeightPrevoted := 4294967295 } = true := by
  decide
example : areDistinctHeadersContradicting
    { height := 4294967294, generatorAddress := [1], maxHeightGenerated := 0, maxHeightPrevoted := 0 }
    { height := 4294967295, generatorAddress := [1], maxHeightGenerated := 4294967294, maxHeightPrevoted := 0 } = false := by
  decide
-- `C07_double_prevote_is_contradicting`: both headers prevote for height 7
example : C07Prevotes hT 7 ∧ C07Prevotes { hU with generatorAddress := [1] } 7 := by
  unfold C07Prevotes; decide
example : (fun x => 2 * x + 5) 3 < (fun x => 2 * x + 5) 4 := by decide
end
