/-
C02 — "a function of the header sequence alone" under fork switches, dropped candidate blocks and
restarts of the module object.

A node does not only extend its chain: consensus deletes tip blocks (`Executer.deleteBlock` reverts
the state diff of the block, i.e. the BFT vote update of that block and the BFT parameters /
generator keys set while it was executed), drops candidate blocks whose staged store is discarded,
and is restarted (a new liskbft module object over the same database). The property says that none
of this may leave a trace: the BFT state is determined by the chain which is left.

`C02Hist` is such a history; `C02hstep` is what the model driver (`Driver/BFT.lean`, ops `revert`,
`restart`, `tryblock`) executes: the BFT state plus one saved state per block on the chain, next to
the bookkeeping of the chain which is left (`kept`, the same computation as `c02.Winning` in the Go
harness, which feeds exactly these events to a fresh real node: oracle `c02-history-dependent`).
The theorems show that in the model the state after ANY history equals the state of a fresh node
that processed only the chain which is left — so every disagreement of the real module with the
model on such a history, and every disagreement with the fresh real node, is hidden state of the
implementation (e.g. a parameter cache kept in the module object across blocks).
-/
import LiskVerif.Props.C02

open LiskVerif LiskVerif.BFT

/-- one step of a node's history -/
inductive C02Hist where
  /-- an event of the chain: block, parameter change, generator-key change -/
  | ev (e : C02Ev)
  /-- the tip block is deleted (fork switch): its state diff is reverted -/
  | revert
  /-- the module object is replaced by a new one over the same store -/
  | restart
  /-- a candidate block is processed on a staged store which is dropped -/
  | tryBlock (h : Header)

/-- the event is a block which the node accepts (it becomes the new tip) -/
def C02accepts (s : State) : C02Ev → Bool
  | .block h => match process s h with | .ok _ => true | .error _ => false
  | _ => false

/-- node with history: current state, the state saved before each block on the chain (newest
first), the events of the chain which is left, and for each block on the chain the number of events
before it -/
structure C02Node where
  st : State
  stack : List State := []
  kept : List C02Ev := []
  marks : List Nat := []

def C02hstep (w : C02Node) : C02Hist → C02Node
  | .ev e =>
    if C02accepts w.st e then
      { st := C02step w.st e, stack := w.st :: w.stack, kept := w.kept ++ [e], marks := w.kept.length :: w.marks }
    else
      { w with st := C02step w.st e, kept := w.kept ++ [e] }
  | .revert =>
    match w.stack, w.marks with
    | p :: r, m :: ms => { st := p, stack := r, kept := w.kept.take m, marks := ms }
    | _, _ => w
  | .restart => w
  | .tryBlock _ => w

def C02hrun (w : C02Node) (hs : List C02Hist) : C02Node := hs.foldl C02hstep w

/-- a node which starts at genesis -/
def C02hinit (batchSize genesisHeight : Nat) : C02Node := { st := initGenesis batchSize genesisHeight }

/-- the saved states are the states of a fresh node after the corresponding prefixes of the chain -/
private def StackOk (s0 : State) : List C02Ev → List State → List Nat → Prop
  | _, [], [] => True
  | kept, p :: r, m :: ms => m ≤ kept.length ∧ p = C02run s0 (kept.take m) ∧ StackOk s0 (kept.take m) r ms
  | _, _, _ => False

private theorem stackOk_append (s0 : State) (kept x : List C02Ev) (st : List State) (ms : List Nat)
    (h : StackOk s0 kept st ms) : StackOk s0 (kept ++ x) st ms := by
  cases st with
  | nil => cases ms with
    | nil => trivial
    | cons _ _ => exact h
  | cons p r => cases ms with
    | nil => exact h
    | cons m ms =>
      obtain ⟨h1, h2, h3⟩ := h
      have ht : (kept ++ x).take m = kept.take m := List.take_append_of_le_length h1
      refine ⟨?_, ?_, ?_⟩
      · rw [List.length_append]; omega
      · rw [ht]; exact h2
      · rw [ht]; exact h3

private def NodeOk (s0 : State) (w : C02Node) : Prop :=
  w.st = C02run s0 w.kept ∧ StackOk s0 w.kept w.stack w.marks

private theorem run_snoc (s0 : State) (l : List C02Ev) (e : C02Ev) :
    C02run s0 (l ++ [e]) = C02step (C02run s0 l) e := by
  unfold C02run; rw [List.foldl_append]; rfl

private theorem nodeOk_step (s0 : State) (w : C02Node) (h : C02Hist) (hw : NodeOk s0 w) :
    NodeOk s0 (C02hstep w h) := by
  obtain ⟨hst, hstack⟩ := hw
  cases h with
  | ev e =>
    by_cases hacc : C02accepts w.st e = true
    · have hs : C02hstep w (.ev e) =
          { st := C02step w.st e, stack := w.st :: w.stack, kept := w.kept ++ [e], marks := w.kept.length :: w.marks } := by
        simp [C02hstep, hacc]
      rw [hs]
      refine ⟨?_, ?_, ?_, ?_⟩
      · show C02step w.st e = C02run s0 (w.kept ++ [e]); rw [run_snoc, hst]
      · show w.kept.length ≤ (w.kept ++ [e]).length; rw [List.length_append]; omega
      · show w.st = C02run s0 ((w.kept ++ [e]).take w.kept.length)
        rw [List.take_left' rfl]; exact hst
      · show StackOk s0 ((w.kept ++ [e]).take w.kept.length) w.stack w.marks
        rw [List.take_left' rfl]; exact hstack
    · have hs : C02hstep w (.ev e) = { w with st := C02step w.st e, kept := w.kept ++ [e] } := by
        simp [C02hstep, hacc]
      rw [hs]
      refine ⟨?_, ?_⟩
      · show C02step w.st e = C02run s0 (w.kept ++ [e]); rw [run_snoc, hst]
      · exact stackOk_append s0 w.kept [e] w.stack w.marks hstack
  | revert =>
    cases hs : w.stack with
    | nil =>
      have : C02hstep w .revert = w := by simp [C02hstep, hs]
      rw [this]; exact ⟨hst, hstack⟩
    | cons p r =>
      cases hm : w.marks with
      | nil =>
        have : C02hstep w .revert = w := by simp [C02hstep, hs, hm]
        rw [this]; exact ⟨hst, hstack⟩
      | cons m ms =>
        have hstep : C02hstep w .revert = { st := p, stack := r, kept := w.kept.take m, marks := ms } := by
          simp [C02hstep, hs, hm]
        rw [hstep]
        rw [hs, hm] at hstack
        obtain ⟨_, h2, h3⟩ := hstack
        exact ⟨h2, h3⟩
  | restart => exact ⟨hst, hstack⟩
  | tryBlock _ => exact ⟨hst, hstack⟩

private theorem nodeOk_run (s0 : State) (hs : List C02Hist) (w : C02Node) (hw : NodeOk s0 w) :
    NodeOk s0 (C02hrun w hs) := by
  induction hs generalizing w with
  | nil => exact hw
  | cons h t ih => exact ih (C02hstep w h) (nodeOk_step s0 w h hw)

/-- **History independence.** After any history of blocks, parameter changes, deleted tip blocks
(fork switches of any depth, repeated), dropped candidates and restarts, the BFT state of the node
is exactly the state of a fresh node which processed only the chain that is left. -/
theorem C02_history_independent (batchSize genesisHeight : Nat) (hs : List C02Hist) :
    (C02hrun (C02hinit batchSize genesisHeight) hs).st =
      C02run (initGenesis batchSize genesisHeight) (C02hrun (C02hinit batchSize genesisHeight) hs).kept :=
  (nodeOk_run _ hs (C02hinit batchSize genesisHeight) ⟨rfl, trivial⟩).1

/-- Two nodes with the same genesis whose histories leave the same chain agree on the whole BFT
state (heights, weights, vote info, parameters), whatever forks each of them has seen. -/
theorem C02_same_chain_same_state (batchSize genesisHeight : Nat) (hs₁ hs₂ : List C02Hist)
    (h : (C02hrun (C02hinit batchSize genesisHeight) hs₁).kept = (C02hrun (C02hinit batchSize genesisHeight) hs₂).kept) :
    (C02hrun (C02hinit batchSize genesisHeight) hs₁).st = (C02hrun (C02hinit batchSize genesisHeight) hs₂).st := by
  rw [C02_history_independent, C02_history_independent, h]

/-- Deleting the tip block restores exactly the state before that block was processed, including
the parameters and keys set while it was the tip. -/
theorem C02_revert_restores (w : C02Node) (h : Header) (evs : List C02Ev)
    (hacc : C02accepts w.st (.block h) = true) (hno : ∀ s e, e ∈ evs → C02accepts s e = false) :
    (C02hstep (C02hrun (C02hstep w (.ev (.block h))) (evs.map .ev)) .revert).st = w.st ∧
    (C02hstep (C02hrun (C02hstep w (.ev (.block h))) (evs.map .ev)) .revert).kept = w.kept := by
  have key : ∀ (evs : List C02Ev) (v : C02Node), (∀ s e, e ∈ evs → C02accepts s e = false) →
      (C02hrun v (evs.map .ev)).stack = v.stack ∧ (C02hrun v (evs.map .ev)).marks = v.marks ∧
      ∃ x, (C02hrun v (evs.map .ev)).kept = v.kept ++ x := by
    intro evs
    induction evs with
    | nil => intro v _; exact ⟨rfl, rfl, [], (List.append_nil _).symm⟩
    | cons e t ih =>
      intro v hv
      have he : C02accepts v.st e = false := hv v.st e (List.mem_cons_self ..)
      have hstep : C02hstep v (.ev e) = ({ v with st := C02step v.st e, kept := v.kept ++ [e] } : C02Node) := by
        simp [C02hstep, he]
      obtain ⟨a, b, x, c⟩ := ih ({ v with st := C02step v.st e, kept := v.kept ++ [e] } : C02Node)
        (fun s e' h' => hv s e' (List.mem_cons_of_mem _ h'))
      have hr : C02hrun v ((e :: t).map .ev) =
          C02hrun ({ v with st := C02step v.st e, kept := v.kept ++ [e] } : C02Node) (t.map .ev) := by
        simp only [List.map_cons, C02hrun, List.foldl_cons, hstep]
      rw [hr]
      exact ⟨a, b, [e] ++ x, by rw [c, List.append_assoc]⟩
  have h1 : C02hstep w (.ev (.block h)) =
      { st := C02step w.st (.block h), stack := w.st :: w.stack, kept := w.kept ++ [.block h], marks := w.kept.length :: w.marks } := by
    simp [C02hstep, hacc]
  obtain ⟨a, b, x, c⟩ := key evs (C02hstep w (.ev (.block h))) hno
  rw [h1] at a b c
  simp only at a b c
  rw [h1]
  unfold C02hstep
  rw [a, b]
  simp only [c]
  constructor
  · trivial
  · rw [List.append_assoc, List.take_left']; rfl

/-- Restarting the module object and processing a dropped candidate change nothing. -/
theorem C02_restart_tryblock_noop (w : C02Node) (h : Header) :
    C02hstep w .restart = w ∧ C02hstep w (.tryBlock h) = w := ⟨rfl, rfl⟩

/-- Without deletions the chain which is left is the whole event sequence (the statement above is
not vacuous: `kept` really is the node's chain). -/
theorem C02_kept_linear (w : C02Node) (evs : List C02Ev) :
    (C02hrun w (evs.map .ev)).kept = w.kept ++ evs := by
  induction evs generalizing w with
  | nil => simp [C02hrun]
  | cons e t ih =>
    simp only [List.map_cons, C02hrun, List.foldl_cons]
    have := ih (C02hstep w (.ev e))
    simp only [C02hrun] at this
    rw [this]
    have hk : (C02hstep w (.ev e)).kept = w.kept ++ [e] := by
      by_cases h : C02accepts w.st e = true <;> simp [C02hstep, h]
    rw [hk, List.append_assoc]; rfl

/-- non-vacuity: a block is accepted, parameters change while it is the tip, the block is deleted:
the chain which is left is the two events before the block -/
example :
    (C02hrun (C02hinit 2 0)
      [.ev (.setParams 1 1 [{ address := [1], weight := 1 }]), .ev (.setKeys [[1]]),
       .ev (.block { height := 1, gen := [1], mhg := 0, mhp := 0 }),
       .ev (.setParams 2 2 [{ address := [1], weight := 2 }]), .restart, .revert]).kept.length = 2 := by
  decide
