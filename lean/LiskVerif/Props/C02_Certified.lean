/-
C02 — `maxHeightCertified` is a function of the header chain too.

C02 reads "BFT heights are a function of the header chain": besides `maxHeightPrevoted` /
`maxHeightPrecommitted` (vote counting, `Props/C02_Inv.lean`) the third height the module keeps,
`maxHeightCertified`, is determined by the aggregate-commit fields of the headers alone — also by those of
headers that imply no votes (generators without BFT weight, `maxHeightGenerated ≥ height`).  The theorems
are those of `Props/C06_Certified.lean` (where they are combined with the certificate model), restated here
as obligations of C02, whose chain families (`bftsim.GenNonVoting`, oracle `c02-certified-height-not-of-chain`)
exercise them on the real module.
-/
import LiskVerif.Props.C06_Certified

open LiskVerif

/-- after every chain of events accepted by the model, `maxHeightCertified` is the height of the newest
non-empty aggregate commit of the chain (the initial value when there is none), whatever generators
produced the headers -/
theorem C02_certified_of_chain (s : BFT.State) (evs : List C02Ev) (hacc : C06accepted s evs) :
    (C02run s evs).mhc = C06certified s.mhc evs :=
  C06_certified_of_chain s evs hacc

/-- two accepted chains with the same aggregate-commit fields end with the same `maxHeightCertified`,
whether the carrying headers imply votes or not -/
theorem C02_certified_independent_of_votes (s₁ s₂ : BFT.State) (evs₁ evs₂ : List C02Ev)
    (h0 : s₁.mhc = s₂.mhc) (hc : evs₁.map C06commitOf = evs₂.map C06commitOf)
    (a₁ : C06accepted s₁ evs₁) (a₂ : C06accepted s₂ evs₂) :
    (C02run s₁ evs₁).mhc = (C02run s₂ evs₂).mhc :=
  C06_certified_independent_of_votes s₁ s₂ evs₁ evs₂ h0 hc a₁ a₂

/-- one header of ANY kind: the certified height after it is its aggregate-commit height, or the old value
for the empty commit; the parameters and generator keys are pruned with the NEW value in the same step -/
theorem C02_certified_step (s s' : BFT.State) (h : BFT.Header) (hp : BFT.process s h = .ok s') :
    s'.mhc = h.commitHeight.getD s.mhc ∧
    s'.params = BFT.prune s.params (min ((s'.infos.getLast?.map (·.height)).getD 0) (s'.mhc + 1)) ∧
    s'.keys = BFT.prune s.keys (min ((s'.infos.getLast?.map (·.height)).getD 0) (s'.mhc + 1)) := by
  have hf := (BFT.process_facts hp).choose_spec
  exact ⟨hf.2.2.2.2.2.1, hf.2.2.2.2.2.2.1, hf.2.2.2.2.2.2.2⟩

/-- non-vacuity: the standby header of the example of `Props/C06_Certified.lean` -/
example : ∃ s', BFT.process (C02run C06cxBFT C06cxChain) C06cxStandbyHdr = .ok s' ∧ s'.mhc = 5 := by
  obtain ⟨s', hstep, hm⟩ := C06_certified_example.2.2.2.2.2.2.2 C06cxStandbyHdr (by simp)
  exact ⟨s', hstep.2.2.2, hm⟩
