/-
C10 — Sparse Merkle trie: the root commits to exactly the map; proofs are sound and complete.

Specification: `LiskVerif.SMT` (Model/SMTSpec.lean) — the LIP-0039 root as pkg/trie/smt computes it
(prefixes 0x00 / 0x01, `emptyHash = H ""`, keys read MSB first).  `trie.Update` is tied to `SMT.mapRoot`,
`Prove` / `Verify` to Model/SMTVerify.lean by the correspondence harness (harness/c10).  The hash function is
a parameter; soundness assumes it injective with outputs of one fixed length.
-/
import LiskVerif.Lemmas.SMT

open LiskVerif LiskVerif.SMT

/-! ### the root is a function of the map -/

/-- the empty map has the empty hash as root (`H ""`, i.e. SHA-256 of the empty string in the engine) -/
theorem C10_empty_root (H : HashFn) (keyLen : Nat) : mapRoot H keyLen (finalMap []) = H [] := by
  simp [mapRoot, finalMap, entriesOf, emptyHash]

/-- what a history of update batches leaves in the map: a batch sets each of its keys to the value of the
key's FIRST occurrence in the batch (`trie.Update` drops later duplicates), an empty value deletes. -/
theorem C10_batch_lookup (m : List KV) (b : List KV) (k : Bytes) :
    mget (applyBatch m b) k =
      match b.find? (fun kv => decide (kv.1 = k)) with
      | none => mget m k
      | some kv => if kv.2 = [] then none else some kv.2 :=
  mget_applyBatch m b k

/-- **History independence of the specification**: two histories of update batches (any order, any batching,
overwrites, deletions, delete-then-reinsert, duplicate keys inside a batch) that leave the same key→value
map have the same root. -/
theorem C10_root_function_of_map (H : HashFn) (keyLen : Nat) (h₁ h₂ : List (List KV))
    (hsame : ∀ k, mget (finalMap h₁) k = mget (finalMap h₂) k) :
    mapRoot H keyLen (finalMap h₁) = mapRoot H keyLen (finalMap h₂) :=
  mapRoot_perm H keyLen (perm_of_mget_eq (nodupKeys_finalMap h₁) (nodupKeys_finalMap h₂) hsame)

/-- the same for any two listings of one map: only the set of pairs matters -/
theorem C10_root_order_independent (H : HashFn) (keyLen : Nat) (m₁ m₂ : List KV) (h : m₁.Perm m₂) :
    mapRoot H keyLen m₁ = mapRoot H keyLen m₂ := mapRoot_perm H keyLen h

/-! ### the incremental algorithm computes the declarative root -/

/-- **LIP-0039 one-key-at-a-time update = declarative root**: starting from the empty tree, inserting /
overwriting / deleting one key at a time (a leaf in the way is pushed down, a lone leaf is lifted after a
deletion) yields, for EVERY operation sequence, the canonical tree of the resulting map — hence its hash
is `mapRoot` of the resulting map. -/
theorem C10_incremental_tree (keyLen : Nat) (ops : List Op) (hlen : ∀ op ∈ ops, op.key.length = keyLen) :
    ops.foldl applyOpTree .empty = build (8 * keyLen) (entriesOf (ops.foldl applyOp [])) := by
  have := foldl_applyOpTree_build ops hlen [] (by simp [NoDupKeys]) (by simp [KeysLen])
  simpa [entriesOf] using this

theorem C10_incremental_eq_declarative (H : HashFn) (keyLen : Nat) (ops : List Op)
    (hlen : ∀ op ∈ ops, op.key.length = keyLen) :
    (ops.foldl applyOpTree .empty).hash H = mapRoot H keyLen (ops.foldl applyOp []) := by
  rw [C10_incremental_tree keyLen ops hlen, hash_build]; rfl

/-- a history of update batches, replayed one key at a time, gives the root of `finalMap` -/
theorem C10_incremental_history (H : HashFn) (keyLen : Nat) (bs : List (List KV))
    (hlen : ∀ b ∈ bs, ∀ kv ∈ b, kv.1.length = keyLen) :
    ((bs.flatMap batchOps).foldl applyOpTree .empty).hash H = mapRoot H keyLen (finalMap bs) := by
  have hops : ∀ op ∈ bs.flatMap batchOps, op.key.length = keyLen := by
    intro op hop
    simp only [List.mem_flatMap, batchOps, List.mem_map] at hop
    obtain ⟨b, hb, kv, hkv, rfl⟩ := hop
    have hmem : kv ∈ b := by
      clear hlen hb
      induction b with
      | nil => simp [dedupFirst] at hkv
      | cons x r ih =>
        simp only [dedupFirst, List.mem_cons, List.mem_filter] at hkv
        rcases hkv with h | h
        · simp [h]
        · exact List.mem_cons_of_mem _ (ih h.1)
    have := hlen b hb kv hmem
    unfold opOfKV
    split <;> simpa [Op.key] using this
  rw [C10_incremental_eq_declarative H keyLen _ hops]
  congr 1
  have hfold : ∀ (l : List (List KV)) (m : List KV),
      (l.flatMap batchOps).foldl applyOp m = l.foldl applyBatch m := by
    intro l
    induction l with
    | nil => intro m; rfl
    | cons b r ih =>
      intro m
      simp only [List.flatMap_cons, List.foldl_append, List.foldl_cons]
      exact ih _
  exact hfold bs []

/-! ### single-key proofs -/

/-- a stored map: no duplicate keys, keys of `keyLen` bytes, no empty values (an empty value is a deletion) -/
structure C10Map (keyLen : Nat) (m : List KV) : Prop where
  nodup : NoDupKeys m
  keys : KeysLen keyLen m
  values : ValuesNonempty m

/-- every map reached by a history of update batches with keys of the right length is a stored map -/
theorem C10_finalMap_wellformed (keyLen : Nat) (bs : List (List KV))
    (hlen : ∀ b ∈ bs, ∀ kv ∈ b, kv.1.length = keyLen) : C10Map keyLen (finalMap bs) :=
  ⟨nodupKeys_finalMap bs, (finalMap_inv bs hlen).1, (finalMap_inv bs hlen).2⟩

/-- the entry of the queried key (if stored) lies below the node reached by any prefix of its bits -/
private theorem mem_descend_of_mem {m : List KV} {qk v : Bytes} (hm : (qk, v) ∈ m) (h : Nat) :
    (⟨(keyBits qk).drop h, qk, v⟩ : Entry) ∈ descend (entriesOf m) ((keyBits qk).take h) := by
  rw [mem_descend]
  refine ⟨⟨keyBits qk, qk, v⟩, ?_, by simp, rfl, rfl⟩
  simp only [entriesOf, List.mem_map]
  exact ⟨(qk, v), hm, rfl⟩

private theorem key_of_mem_descend {m : List KV} {dirs : Bits} {e : Entry}
    (he : e ∈ descend (entriesOf m) dirs) : (e.key, e.value) ∈ m ∧ keyBits e.key = dirs ++ e.path := by
  obtain ⟨e0, he0, hp, hk, hv⟩ := (mem_descend dirs).mp he
  simp only [entriesOf, List.mem_map] at he0
  obtain ⟨kv, hkv, rfl⟩ := he0
  simp only at hp hk hv
  rw [hk, hv]
  exact ⟨hkv, hp⟩

/-- **Completeness**: the proof generated for any key of the right length verifies against the root of the
map and shows exactly what the map holds for that key (its value, or absence). -/
theorem C10_prove_complete (H : HashFn) (keyLen : Nat) (m : List KV) (hm : C10Map keyLen m)
    (qk : Bytes) (hq : qk.length = keyLen) :
    let p := prove1 H qk (8 * keyLen) (entriesOf m) (keyBits qk)
    verify1 H keyLen qk p (mapRoot H keyLen m) = true ∧ claim1 qk p = mget m qk := by
  intro p
  have hw := wfe_entriesOf hm.nodup hm.keys
  have hql : (keyBits qk).length = 8 * keyLen := by rw [keyBits_length, hq]
  have hv : ∀ e ∈ entriesOf m, e.value ≠ [] := by
    intro e he
    simp only [entriesOf, List.mem_map] at he
    obtain ⟨kv, hkv, rfl⟩ := he
    exact hm.values kv hkv
  obtain ⟨h1, h2, h3⟩ := prove1_spec H qk (8 * keyLen) (entriesOf m) (keyBits qk) hw hql hv
  change p.bitmap.length ≤ 8 * keyLen at h1
  change recon H ((keyBits qk).take p.bitmap.length) p.bitmap p.siblings (p.nodeHash H) = _ at h2
  change (p.value = [] ∧ p.key = qk ∧ descend (entriesOf m) ((keyBits qk).take p.bitmap.length) = []) ∨
    (∃ e, descend (entriesOf m) ((keyBits qk).take p.bitmap.length) = [e] ∧ p.key = e.key ∧ p.value = e.value) at h3
  rcases h3 with ⟨hval, hkey, hnil⟩ | ⟨e, hdesc, hkey, hval⟩
  · -- the path ends in an empty node: exclusion proof carrying the queried key itself
    constructor
    · simp only [verify1, hq, hkey, decide_true, h1, Bool.true_or, Bool.and_true, Bool.true_and,
        decide_eq_true_eq]
      exact h2
    · simp only [claim1, hval, ne_eq, not_true_eq_false, and_false, ↓reduceIte]
      symm
      rw [mget_eq_none_iff]
      intro hmem
      obtain ⟨kv, hkv, hk⟩ := List.mem_map.mp hmem
      have : (qk, kv.2) ∈ m := by rw [← hk]; exact hkv
      have := mem_descend_of_mem this p.bitmap.length
      rw [hnil] at this
      simp at this
  · -- the path ends in a leaf
    have he : e ∈ descend (entriesOf m) ((keyBits qk).take p.bitmap.length) := by rw [hdesc]; simp
    obtain ⟨hmem, hbits⟩ := key_of_mem_descend he
    have htl : ((keyBits qk).take p.bitmap.length).length = p.bitmap.length := by
      rw [List.length_take, hql]; omega
    have hklen : e.key.length = keyLen := hm.keys _ hmem
    have htake : (keyBits e.key).take p.bitmap.length = (keyBits qk).take p.bitmap.length := by
      rw [hbits, List.take_append_of_le_length (by omega)]
      exact List.take_of_length_le (by omega)
    constructor
    · simp only [verify1, hq, hkey, hklen, decide_true, h1, Bool.true_and, Bool.and_eq_true,
        Bool.or_eq_true, decide_eq_true_eq]
      refine ⟨?_, ?_⟩
      · right
        have := commonPrefixLen_append ((keyBits qk).take p.bitmap.length) ((keyBits qk).drop p.bitmap.length) e.path
        rw [List.take_append_drop, ← hbits, htl] at this
        exact this
      · rw [htake]; exact h2
    · by_cases hkq : e.key = qk
      · have hne : e.value ≠ [] := hm.values _ hmem
        simp only [claim1, hkey, hkq, hval, ne_eq, hne, not_false_eq_true, and_self, ↓reduceIte]
        rw [hkq] at hmem
        exact (mget_eq_some_of_mem hm.nodup hmem).symm
      · simp only [claim1, hkey, hkq, false_and, ↓reduceIte]
        symm
        rw [mget_eq_none_iff]
        intro hmem'
        obtain ⟨kv, hkv, hk⟩ := List.mem_map.mp hmem'
        have : (qk, kv.2) ∈ m := by rw [← hk]; exact hkv
        have := mem_descend_of_mem this p.bitmap.length
        rw [hdesc, List.mem_singleton] at this
        apply hkq
        rw [← this]

/-- the input whose hash is the proven node -/
def C10NodeInput (p : Proof1) : Bytes := if p.value = [] then [] else 0 :: (p.key ++ p.value)

/-- every input the verifier hashes while checking the single-key proof `p` -/
def C10VerifyInputs (H : HashFn) (p : Proof1) : List Bytes :=
  C10NodeInput p :: reconInputs H ((keyBits p.key).take p.bitmap.length) p.bitmap p.siblings (p.nodeHash H)

/-- **Soundness**: let `H` have outputs of one length and NO COLLISION between the (finitely many) inputs the
verifier hashes for this proof and the inputs hashed to compute the root of the map.  Then a single-key proof
that verifies against the root of the map shows what the map holds for the queried key — the stored value if
present, absence if absent.  Equivalently: a verifying proof with a wrong claim exhibits a hash collision. -/
theorem C10_verify_sound (H : HashFn) (n : Nat) (hlen : ∀ x, (H x).length = n) (keyLen : Nat) (m : List KV)
    (hm : C10Map keyLen m) (qk : Bytes) (p : Proof1)
    (hnc : NoColl H (C10VerifyInputs H p) (treeInputs H (8 * keyLen) (entriesOf m)))
    (hv : verify1 H keyLen qk p (mapRoot H keyLen m) = true) : claim1 qk p = mget m qk := by
  simp only [verify1, Bool.and_eq_true, decide_eq_true_eq, Bool.or_eq_true] at hv
  obtain ⟨⟨⟨⟨hq, hpk⟩, hh⟩, hpre⟩, hrec⟩ := hv
  have hw := wfe_entriesOf hm.nodup hm.keys
  have hnode_pre : p.nodeHash H = H (C10NodeInput p) := by
    unfold Proof1.nodeHash C10NodeInput; split <;> rfl
  have hx : (p.nodeHash H).length = n := by rw [hnode_pre]; exact hlen _
  have hdl : ((keyBits p.key).take p.bitmap.length).length = p.bitmap.length := by
    rw [List.length_take, keyBits_length, hpk]; omega
  obtain ⟨_, hnode, hsubset⟩ := recon_sound hlen _ _ _ _ hx _ _ hw
    (hnc.mono (fun a ha => List.mem_cons_of_mem _ ha) (fun _ hb => hb)) hrec
  rw [hdl] at hnode hsubset
  have hwd := wfe_descend ((keyBits p.key).take p.bitmap.length) hw (by rw [hdl]; exact hh)
  rw [hdl] at hwd
  have hnc' : NoColl H [C10NodeInput p]
      (treeInputs H (8 * keyLen - p.bitmap.length)
        (descend (entriesOf m) ((keyBits p.key).take p.bitmap.length))) :=
    hnc.mono (fun a ha => by rw [List.mem_singleton.mp ha]; simp [C10VerifyInputs]) hsubset
  -- the queried key runs through the proven node
  have htake : (keyBits qk).take p.bitmap.length = (keyBits p.key).take p.bitmap.length := by
    rcases hpre with h | h
    · rw [h]
    · exact take_eq_of_le_commonPrefixLen _ _ _ h
  by_cases hval : p.value = []
  · -- empty node: nothing below it, in particular not the queried key
    have hni : C10NodeInput p = [] := by simp [C10NodeInput, hval]
    rw [hni] at hnc'
    have hnil := root_eq_empty hwd hnc' (by rw [← hnode, hnode_pre, hni])
    simp only [claim1, hval, ne_eq, not_true_eq_false, and_false, ↓reduceIte]
    symm
    rw [mget_eq_none_iff]
    intro hmem
    obtain ⟨kv, hkv, hk⟩ := List.mem_map.mp hmem
    have : (qk, kv.2) ∈ m := by rw [← hk]; exact hkv
    have := mem_descend_of_mem this p.bitmap.length
    rw [htake, hnil] at this
    simp at this
  · -- leaf: it is the only entry below the node
    have hni : C10NodeInput p = 0 :: (p.key ++ p.value) := by simp [C10NodeInput, hval]
    rw [hni] at hnc'
    have hkl : ∀ e ∈ descend (entriesOf m) ((keyBits p.key).take p.bitmap.length), e.key.length = p.key.length := by
      intro e he
      rw [hpk]
      exact hm.keys _ (key_of_mem_descend he).1
    obtain ⟨e, hdesc, hek, hev⟩ := root_eq_leaf hwd hnc' hkl (by rw [← hnode, hnode_pre, hni])
    have he : e ∈ descend (entriesOf m) ((keyBits p.key).take p.bitmap.length) := by rw [hdesc]; simp
    have hmem := (key_of_mem_descend he).1
    rw [hek, hev] at hmem
    by_cases hkq : p.key = qk
    · simp only [claim1, hkq, ne_eq, hval, not_false_eq_true, and_self, ↓reduceIte]
      rw [hkq] at hmem
      exact (mget_eq_some_of_mem hm.nodup hmem).symm
    · simp only [claim1, hkq, false_and, ↓reduceIte]
      symm
      rw [mget_eq_none_iff]
      intro hmem'
      obtain ⟨kv, hkv, hk⟩ := List.mem_map.mp hmem'
      have : (qk, kv.2) ∈ m := by rw [← hk]; exact hkv
      have := mem_descend_of_mem this p.bitmap.length
      rw [htake, hdesc, List.mem_singleton] at this
      apply hkq
      rw [← hek, ← this]

/-- the idealised form: for an injective `H` (no collisions at all) every verifying proof is right -/
theorem C10_verify_sound_injective (H : HashFn) (n : Nat) (hlen : ∀ x, (H x).length = n)
    (hinj : ∀ a b, H a = H b → a = b) (keyLen : Nat) (m : List KV) (hm : C10Map keyLen m) (qk : Bytes)
    (p : Proof1) (hv : verify1 H keyLen qk p (mapRoot H keyLen m) = true) : claim1 qk p = mget m qk :=
  C10_verify_sound H n hlen keyLen m hm qk p (noColl_of_injective hinj _ _) hv

/-- a proof determines the root it verifies against: it cannot verify against two different roots -/
theorem C10_verify_root_unique (H : HashFn) (keyLen : Nat) (qk : Bytes) (p : Proof1) (r₁ r₂ : Bytes)
    (h₁ : verify1 H keyLen qk p r₁ = true) (h₂ : verify1 H keyLen qk p r₂ = true) : r₁ = r₂ := by
  simp only [verify1, Bool.and_eq_true, decide_eq_true_eq] at h₁ h₂
  have := h₁.2.symm.trans h₂.2
  simpa using this

/-- corollary: a proof whose claim disagrees with the map does not verify against the root of the map
(unless it exhibits a collision of `H`) -/
theorem C10_no_false_claim (H : HashFn) (n : Nat) (hlen : ∀ x, (H x).length = n) (keyLen : Nat) (m : List KV)
    (hm : C10Map keyLen m) (qk : Bytes) (p : Proof1)
    (hnc : NoColl H (C10VerifyInputs H p) (treeInputs H (8 * keyLen) (entriesOf m)))
    (hne : claim1 qk p ≠ mget m qk) :
    verify1 H keyLen qk p (mapRoot H keyLen m) = false := by
  cases hv : verify1 H keyLen qk p (mapRoot H keyLen m)
  · rfl
  · exact absurd (C10_verify_sound H n hlen keyLen m hm qk p hnc hv) hne

/-! ### non-vacuity: the hypotheses of the theorems are satisfiable

`toyH` is a 2-byte polynomial checksum: outputs of one length, and collision free on the handful of inputs of
the examples (checked by kernel evaluation). -/

def C10toyH (x : Bytes) : Bytes :=
  let acc := x.foldl (fun a b => (a * 257 + b.toNat + 1) % 65521) 7
  [UInt8.ofNat (acc / 256), UInt8.ofNat (acc % 256)]

theorem C10toyH_length (x : Bytes) : (C10toyH x).length = 2 := rfl

/-- a map with keys parting at bit 0 and at bit 7 -/
def C10exMap : List KV := [([0x40], [1]), ([0xC0], [2]), ([0x41], [3])]

theorem C10exMap_ok : C10Map 1 C10exMap :=
  ⟨by show (C10exMap.map Prod.fst).Nodup; decide, by show ∀ kv ∈ C10exMap, kv.1.length = 1; decide,
   by show ∀ kv ∈ C10exMap, kv.2 ≠ []; decide⟩

example : mapRoot C10toyH 1 (finalMap []) = C10toyH [] := C10_empty_root C10toyH 1

-- two different histories (different order and batching, an overwrite, a delete-then-reinsert, a deletion of
-- an absent key) with the same final map
example : mapRoot C10toyH 1 (finalMap [[([0x40], [9]), ([0xC0], [2])], [([0x40], []), ([7], [])], [([0x40], [1])]]) =
    mapRoot C10toyH 1 (finalMap [[([0xC0], [2]), ([0x40], [1]), ([0x40], [5])]]) := by
  apply C10_root_function_of_map
  intro k
  have h1 : finalMap [[([0x40], [9]), ([0xC0], [2])], [([0x40], []), ([7], [])], [([0x40], [1])]] =
      [([0x40], [1]), ([0xC0], [2])] := by decide
  have h2 : finalMap [[([0xC0], [2]), ([0x40], [1]), ([0x40], [5])]] = [([0x40], [1]), ([0xC0], [2])] := by decide
  rw [h1, h2]

example : ([Op.set [0x40] [1], .set [0x41] [7], .set [0xC0] [2], .del [0x41], .set [0x41] [3]].foldl applyOpTree .empty).hash C10toyH =
    mapRoot C10toyH 1 ([Op.set [0x40] [1], .set [0x41] [7], .set [0xC0] [2], .del [0x41], .set [0x41] [3]].foldl applyOp []) :=
  C10_incremental_eq_declarative C10toyH 1 _ (by decide)

-- inclusion proof of a stored key, exclusion proofs ending in another leaf and in an empty node
example : verify1 C10toyH 1 [0x41] (prove1 C10toyH [0x41] 8 (entriesOf C10exMap) (keyBits [0x41])) (mapRoot C10toyH 1 C10exMap) = true ∧
    claim1 [0x41] (prove1 C10toyH [0x41] 8 (entriesOf C10exMap) (keyBits [0x41])) = some [3] :=
  C10_prove_complete C10toyH 1 C10exMap C10exMap_ok [0x41] rfl

example : claim1 [0xC1] (prove1 C10toyH [0xC1] 8 (entriesOf C10exMap) (keyBits [0xC1])) = none :=
  (C10_prove_complete C10toyH 1 C10exMap C10exMap_ok [0xC1] rfl).2

-- soundness: all hypotheses (fixed output length, no collision between verifier and tree inputs, accepted)
-- hold for the honest inclusion proof of 0x41 and for the honest exclusion proof of 0x43
example : claim1 [0x41] (prove1 C10toyH [0x41] 8 (entriesOf C10exMap) (keyBits [0x41])) = mget C10exMap [0x41] :=
  C10_verify_sound C10toyH 2 C10toyH_length 1 C10exMap C10exMap_ok [0x41] _
    (by unfold NoColl; decide +kernel) (by decide +kernel)

example : claim1 [0x43] (prove1 C10toyH [0x43] 8 (entriesOf C10exMap) (keyBits [0x43])) = mget C10exMap [0x43] :=
  C10_verify_sound C10toyH 2 C10toyH_length 1 C10exMap C10exMap_ok [0x43] _
    (by unfold NoColl; decide +kernel) (by decide +kernel)

-- and a forged inclusion claim (value 9 for key 0x41, honest bitmap and siblings) is rejected
example : verify1 C10toyH 1 [0x41]
    { prove1 C10toyH [0x41] 8 (entriesOf C10exMap) (keyBits [0x41]) with value := [9] } (mapRoot C10toyH 1 C10exMap) = false :=
  C10_no_false_claim C10toyH 2 C10toyH_length 1 C10exMap C10exMap_ok [0x41] _
    (by unfold NoColl; decide +kernel) (by decide +kernel)

/-! ### state tree keys (pkg/framework/state_batch.go `getTreeKey`)

A state store key is `dbPrefix(1) ‖ storePrefix(6) ‖ key`; its tree key is `storePrefix ‖ H(key)` (38 bytes).
Two different store keys (of one database prefix) never share a tree key unless `H` collides on their key parts. -/

def C10getTreeKey (H : HashFn) (k : Bytes) : Bytes := (k.drop 1).take 6 ++ H (k.drop 7)

theorem C10_state_key_mapping (H : HashFn) (k₁ k₂ : Bytes) (h₁ : 7 ≤ k₁.length) (h₂ : 7 ≤ k₂.length)
    (hdb : k₁.take 1 = k₂.take 1) (hnc : H (k₁.drop 7) = H (k₂.drop 7) → k₁.drop 7 = k₂.drop 7)
    (h : C10getTreeKey H k₁ = C10getTreeKey H k₂) : k₁ = k₂ := by
  unfold C10getTreeKey at h
  have hl : ((k₁.drop 1).take 6).length = ((k₂.drop 1).take 6).length := by
    simp only [List.length_take, List.length_drop]; omega
  obtain ⟨hp, hh⟩ := List.append_inj h hl
  have hrest := hnc hh
  have e₁ : k₁ = k₁.take 1 ++ ((k₁.drop 1).take 6 ++ k₁.drop 7) := by
    have : (k₁.drop 1).drop 6 = k₁.drop 7 := by simp
    rw [← this, List.take_append_drop, List.take_append_drop]
  have e₂ : k₂ = k₂.take 1 ++ ((k₂.drop 1).take 6 ++ k₂.drop 7) := by
    have : (k₂.drop 1).drop 6 = k₂.drop 7 := by simp
    rw [← this, List.take_append_drop, List.take_append_drop]
  rw [e₁, e₂, hdb, hp, hrest]

example : C10getTreeKey C10toyH [0, 1, 2, 3, 4, 5, 6, 7, 8] ≠ C10getTreeKey C10toyH [0, 1, 2, 3, 4, 5, 6, 7, 9] := by
  decide +kernel
