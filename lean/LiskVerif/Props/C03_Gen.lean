/-
C03 — tie A of `Model/Verify.lean` to the Go source.  `LiskVerif/Gen/VerifySkeleton.lean` is
REGENERATED from /repo on every run by tools/vskelgen (go/ast): for `Executer.process`,
`processValidated`, `verifyBlock`, `verifyAggregateCommit`, `newBlockExecuteABI`,
`stateExecuter.Verify/Execute/Commit`, `getABIConsensus`, `Block.Validate`, `BlockHeader.Validate`,
`Transaction.Validate`, `BlockAssets.Valid` it lists, in program order, every error exit
(`if cond { return err }`: operator, both operands as canonical expressions with locals inlined, what
is returned), every call of another function of that set, every staging / write / publish site, and
emits each integer comparison also as a Lean function `VS.g_<function>_<field>`.

This file states that the regenerated skeleton IS the model:
* `clsOf` maps each generated error exit to the rule (`Verify.Err`) it implements; an exit the
  classification does not know (`C03_gen_*_known`) or a rule that no exit implements
  (`C03_gen_rule_*`, one theorem per rule) breaks a named obligation;
* the rules occur in the generated code in exactly the order of the model's rule lists
  `validateChecks`, `verifyChecks`, `acChecks`, `execChecks`, for every node, block and loop count
  (`C03_gen_*_order`, `C03_gen_checkList_order`); `C03_first_failure_order` (Props/C03.lean) then says
  that the model returns the first failing rule of that list;
* the generated arithmetic guards are the negations of the model's predicates for all values
  (`C03_gen_rule_height`, `_future`, `_pastSlot`, `_mhp`, `_payloadSize`, `_vPrevLen`, …);
* no error exit of `processValidated` lies behind the database write, nothing on the verification
  path writes, stages or publishes, the application commit precedes the chain write
  (`C03_gen_no_write_before_error_exit`, `C03_gen_checks_are_pure`, `C03_gen_processValidated_call_order`);
* `process` asks the fork-choice predicates in the model's order and runs `block.Validate()` before
  `processValidated` on the valid-successor and tie-break branches (`C03_gen_process_*`).

NOT covered (stays with the correspondence harness): what the called functions compute — signature
and BLS verification, Merkle roots, `GetSlotNumber`, the liskbft store API and which result of
`GetBFTHeights` is which height, the application behind the ABI, `AddBlock` itself (C13), the
fork-choice predicates (C07); integer widths (guards are compared over `Nat`).
-/
import LiskVerif.Model.Verify
import LiskVerif.Gen.VerifySkeleton

open LiskVerif LiskVerif.Verify LiskVerif.Gen

set_option linter.unusedSimpArgs false

namespace C03Gen

abbrev Item := VS.Item

/-- what a generated exit stands for in the model -/
inductive Cls where
  /-- a rule of the model's rule list -/
  | rule (e : Err)
  /-- the error of a store / database read that cannot fail in the model (the key exists by
  construction, I/O errors are not modelled) -/
  | infallible
  /-- `return nil` before the end: the shortcut of `verifyAggregateCommit` for the empty commit -/
  | accept
  /-- the error of another function of the table is passed on: its exits are spliced in -/
  | splice (f : String)
  /-- as `splice`, but the callee's rules are a separate family (`acChecks`, `verifyChecks`) -/
  | marker (f : String)
  | unknown
deriving DecidableEq, Repr

def body (f : String) : List Item := (VS.fns.lookup f).getD []

/-- error exits (and accepting shortcuts) of a skeleton, in program order -/
def isExit (i : Item) : Bool := i.kind == "check" || (i.kind == "ret" && i.ret != "nil")
def exits (l : List Item) : List Item := l.filter isExit

def thresholdsChanged : String :=
  "((afterTxs.PreCommitThreshold != 0 || afterTxs.CertificateThreshold != 0) || len(afterTxs.NextValidators) != 0)"

/-- the rule implemented by an exit of function `f` -/
def clsOf (f : String) (i : Item) : Cls :=
  match f, i.op, i.lhs, i.rhs, i.ret with
  -- Block.Validate
  | "Block.Validate", "callerr", "self.Header.Validate()", "", "err" => .splice "BlockHeader.Validate"
  | "Block.Validate", "callerr", "self.Transactions[*].Validate()", "", "err" => .rule .txStatic
  | "Block.Validate", "bytes.ne", "self.Header.TransactionRoot", "rmt.CalculateRoot(mut(make([][]byte, len(self.Transactions))))", "new" => .rule .txRoot
  | "Block.Validate", "callerr", "BlockAssets(self.Assets).Valid()", "", "err" => .splice "BlockAssets.Valid"
  | "Block.Validate", "bytes.ne", "self.Header.AssetRoot", "BlockAssets(self.Assets).GetRoot()", "new" => .rule .assetRoot
  | "BlockHeader.Validate", "!=", "len(self.PreviousBlockID)", "crypto.HashLengh", "errorf" => .rule .vPrevLen
  | "BlockHeader.Validate", "!=", "len(self.GeneratorAddress)", "AddressLength", "errorf" => .rule .vGenLen
  | "BlockHeader.Validate", "!=", "len(self.Signature)", "crypto.EdSignatureLength", "new" => .rule .vSigLen
  | "BlockHeader.Validate", "!=", "len(self.StateRoot)", "crypto.HashLengh", "errorf" => .rule .vStateRootLen
  | "BlockAssets.Valid", "!=", "make(BlockAssets, len(self))[*].Module", "self[*].Module", "new" => .rule .assetsOrder
  | "BlockAssets.Valid", "is", "map[string]bool{}[self[*].Module]#1", "", "new" => .rule .assetsDup
  -- verifyBlock
  | "Executer.verifyBlock", "!=", "block.Header.Version", "2", "errorf" => .rule .version
  | "Executer.verifyBlock", "!=", "block.Header.Height", "self.chain.LastBlock().Header.Height + 1", "errorf" => .rule .height
  | "Executer.verifyBlock", "bytes.ne", "self.chain.LastBlock().Header.ID", "block.Header.PreviousBlockID", "errorf" => .rule .prevID
  | "Executer.verifyBlock", ">", "fold(block.Transactions, 0, ($acc + block.Transactions[*].Size()))", "int(self.chain.MaxTransactionsLength())", "errorf" => .rule .payloadSize
  | "Executer.verifyBlock", ">", "self.blockSlot.GetSlotNumber(block.Header.Timestamp)", "self.blockSlot.GetSlotNumber(uint32(time.Now().Unix()))", "errorf" => .rule .future
  | "Executer.verifyBlock", "<=", "self.blockSlot.GetSlotNumber(block.Header.Timestamp)", "self.blockSlot.GetSlotNumber(self.chain.LastBlock().Header.Timestamp)", "errorf" => .rule .pastSlot
  | "Executer.verifyBlock", "callerr", "generators", "", "err" => .rule .generatorKeys
  | "Executer.verifyBlock", "callerr", "generator", "", "err" => .infallible   -- AtTimestamp never returns an error
  | "Executer.verifyBlock", "bytes.ne", "generator.Address()", "block.Header.GeneratorAddress", "errorf" => .rule .generator
  | "Executer.verifyBlock", "callerr", "bftHeights", "", "err" => .infallible
  | "Executer.verifyBlock", "!=", "block.Header.MaxHeightPrevoted", "bftHeights#0", "errorf" => .rule .mhp
  | "Executer.verifyBlock", "callerr", "self.liskBFT.API().IsHeaderContradictingChain(consensusStore, block.Header.Readonly())", "", "err" => .infallible
  | "Executer.verifyBlock", "is", "self.liskBFT.API().IsHeaderContradictingChain(consensusStore, block.Header.Readonly())#0", "", "errorf" => .rule .contradicting
  | "Executer.verifyBlock", "callerr", "self.verifyAggregateCommit(consensusStore, block.Header.AggregateCommit)", "", "err" => .marker "Executer.verifyAggregateCommit"
  | "Executer.verifyBlock", "not", "block.Header.VerifySignature(self.chain.ChainID(), generator.GeneratorKey())", "", "errorf" => .rule .signature
  -- verifyAggregateCommit
  | "Executer.verifyAggregateCommit", "callerr", "bftHeights", "", "err" => .infallible
  | "Executer.verifyAggregateCommit", "&&", "aggregteCommit.Empty()", "aggregteCommit.Height == bftHeights#2", "nil" => .accept
  | "Executer.verifyAggregateCommit", "||", "len(aggregteCommit.AggregationBits) == 0", "len(aggregteCommit.CertificateSignature) == 0", "errorf" => .rule .acEmpty
  | "Executer.verifyAggregateCommit", "<=", "aggregteCommit.Height", "bftHeights#2", "errorf" => .rule .acLow
  | "Executer.verifyAggregateCommit", ">", "aggregteCommit.Height", "bftHeights#1", "errorf" => .rule .acHigh
  | "Executer.verifyAggregateCommit", "&&", "err(self.liskBFT.API().NextHeightBFTParameters(diffStore, bftHeights#2 + 1)) != nil", "!errors.Is(self.liskBFT.API().NextHeightBFTParameters(diffStore, bftHeights#2 + 1)#1, statemachine.ErrNotFound)", "err" => .infallible
  | "Executer.verifyAggregateCommit", "&&", "err(self.liskBFT.API().NextHeightBFTParameters(diffStore, bftHeights#2 + 1)) == nil", "aggregteCommit.Height > self.liskBFT.API().NextHeightBFTParameters(diffStore, bftHeights#2 + 1)#0 - 1", "errorf" => .rule .acNextParams
  | "Executer.verifyAggregateCommit", "callerr", "acHeader", "", "err" => .rule .acHeader
  | "Executer.verifyAggregateCommit", "callerr", "bftParams", "", "err" => .rule .acParams
  | "Executer.verifyAggregateCommit", "not", "mut(cert).VerifyAggregateCertificateSignature(mut(make([][]byte, len(mut(make(ValidatorsWithBLSKey, len(bftParams.Validators())))))), mut(make([]uint64, len(mut(make(ValidatorsWithBLSKey, len(bftParams.Validators())))))), bftParams.CertificateThreshold(), self.chain.ChainID())", "", "new" => .rule .acSignature
  -- processValidated and the ABI caller
  | "Executer.processValidated", "callerr", "self.verifyBlock(store, block)", "", "err" => .marker "Executer.verifyBlock"
  | "Executer.processValidated", "callerr", "abi", "", "err" => .splice "newBlockExecuteABI"
  | "Executer.processValidated", "callerr", "abi.Verify(block)", "", "err" => .splice "stateExecuter.Verify"
  | "Executer.processValidated", "callerr", "abi.Execute(store, block)", "", "err" => .splice "stateExecuter.Execute"
  | "Executer.processValidated", "callerr", "bftParams", "", "err" => .rule .bft
  | "Executer.processValidated", "bytes.ne", "bftParams.ValidatorsHash()", "block.Header.ValidatorsHash", "errorf" => .rule .validatorsHash
  | "Executer.processValidated", ">", "len(abi.Events())", "int(blockchain.MaxEventsPerBlock)", "errorf" => .rule .eventCount
  | "Executer.processValidated", "callerr", "blockchain.CalculateEventRoot(abi.Events())", "", "err" => .infallible
  | "Executer.processValidated", "bytes.ne", "blockchain.CalculateEventRoot(abi.Events())#0", "block.Header.EventRoot", "errorf" => .rule .eventRoot
  | "Executer.processValidated", "callerr", "finalized", "", "err" => .infallible
  | "Executer.processValidated", "callerr", "bftHeights", "", "err" => .infallible
  | "Executer.processValidated", "callerr", "abi.Commit(self.chain.LastBlock().Header.StateRoot, block.Header.StateRoot)", "", "err" => .splice "stateExecuter.Commit"
  | "Executer.processValidated", "callerr", "self.chain.AddBlock(batch, block, abi.Events(), ite(bftHeights#1 > finalized, bftHeights#1, finalized), removeTemp)", "", "err" => .infallible
  | "newBlockExecuteABI", "callerr", "client.InitStateMachine(&labi.InitStateMachineRequest{Header: header})", "", "err" => .rule .abiInit
  | "stateExecuter.Verify", "callerr", "self.client.VerifyAssets(&labi.VerifyAssetsRequest{ContextID: self.contextID, Assets: block.Assets})", "", "err" => .rule .abiVerifyAssets
  | "stateExecuter.Execute", "callerr", "self.bft.BeforeTransactionsExecute(block.Header.Readonly(), diffStore)", "", "err" => .rule .bft
  | "stateExecuter.Execute", "callerr", "getABIConsensus(self.bft, diffStore, block.Header.Readonly())", "", "err" => .rule .bft
  | "stateExecuter.Execute", "callerr", "beforeTxs", "", "err" => .rule .abiBefore
  | "stateExecuter.Execute", "callerr", "txVerify", "", "err" => .rule .abiVerifyTx
  | "stateExecuter.Execute", "!=", "txVerify.Result", "labi.TxExecuteResultSuccess", "errorf" => .rule .txVerify
  | "stateExecuter.Execute", "callerr", "txExec", "", "err" => .rule .abiExecuteTx
  | "stateExecuter.Execute", "==", "txExec.Result", "labi.TxExecuteResultInvalid", "errorf" => .rule .txExecute
  | "stateExecuter.Execute", "callerr", "afterTxs", "", "err" => .rule .abiAfter
  | "stateExecuter.Execute", "callerr", "self.bft.API().SetBFTParameters(diffStore, afterTxs.PreCommitThreshold, afterTxs.CertificateThreshold, liskbft.GetBFTValidatorAndGenerators(afterTxs.NextValidators)#0)", "", "err" => .rule .params
  | "stateExecuter.Execute", "callerr", "self.bft.API().SetGeneratorKeys(diffStore, liskbft.GetBFTValidatorAndGenerators(afterTxs.NextValidators)#1)", "", "err" => .infallible
  | "stateExecuter.Commit", "", "self.client.Commit(&labi.CommitRequest{ContextID: self.contextID, StateRoot: currentStateRoot, ExpectedStateRoot: expectedStateRoot, DryRun: false})", "", "err" => .rule .commit
  | _, _, _, _, _ => .unknown

/-- the exits of `f` with their context (enclosing loops / conditions) and classification; exits that
pass on the error of a spliced function are replaced by that function's exits -/
def flat : Nat → List String → String → List (List String × Cls)
  | 0, outer, _ => [(outer, .unknown)]
  | k + 1, outer, f => (exits (body f)).flatMap fun i =>
      match clsOf f i with
      | .splice g => flat k (outer ++ i.ctx) g
      | c => [(outer ++ i.ctx, c)]

/-- the range loop an exit sits in / the conditions it sits under -/
def loopOf (ctx : List String) : Option String := ctx.find? (fun c => VS.ranges.contains c)
def condOf (ctx : List String) : List String := ctx.filter (fun c => !VS.ranges.contains c)

def rulesOf (l : List (List String × Cls)) : List (Option String × Err) :=
  l.filterMap fun p => match p.2 with
    | .rule e => some (loopOf p.1, e)
    | _ => none

/-- maximal runs of rules in the same loop -/
def runs : List (Option String × Err) → List (Option String × List Err)
  | [] => []
  | (t, e) :: rest =>
    match runs rest with
    | (t', es) :: more => if t = t' then (t, e :: es) :: more else (t, [e]) :: (t', es) :: more
    | [] => [(t, [e])]

/-- the rule sequence when the loop over `r` runs `cnt r` times -/
def inst (cnt : String → Nat) (l : List (Option String × Err)) : List Err :=
  (runs l).flatMap fun p => match p.1 with
    | none => p.2
    | some r => (List.replicate (cnt r) p.2).flatten

def notMarker (p : List String × Cls) : Bool := match p.2 with | .marker _ => false | _ => true

/-- (guard function, atoms) of the exits of `f` that implement rule `e` -/
def guardOf (f : String) (e : Err) : List (String × List String) :=
  ((exits (body f)).filter (fun i => clsOf f i = .rule e)).map (fun i => (i.guard, i.atoms))

def flatValidate := flat 3 [] "Block.Validate"
def flatVerify := flat 1 [] "Executer.verifyBlock"
def flatAC := flat 1 [] "Executer.verifyAggregateCommit"
def flatPV := flat 3 [] "Executer.processValidated"

/-- loop counts of a candidate block -/
def cnt (b : Cand) (r : String) : Nat :=
  if r = "range(self.Transactions)" then b.txStatic.length      -- Block.Validate: one static check per transaction
  else if r = "range(block.Transactions)" then b.txs.length     -- Execute: one verify/execute round per transaction
  else if r = "range(self)" then 1                              -- BlockAssets.Valid: the model holds the loop's verdict
  else 0

theorem replicate_singleton_flatten {α} (n : Nat) (a : α) : (List.replicate n [a]).flatten = List.replicate n a := by
  induction n with
  | zero => rfl
  | succ k ih => simp [List.replicate_succ, ih]

theorem map_const_replicate {α β} (l : List α) (c : β) : l.map (fun _ => c) = List.replicate l.length c := by
  induction l with
  | nil => rfl
  | cons _ t ih => simp [List.replicate_succ, ih]

theorem txChecks_fst (l : List (TxV × TxV)) :
    (txChecks l).map (·.1) = (List.replicate l.length [Err.abiVerifyTx, .txVerify, .abiExecuteTx, .txExecute]).flatten := by
  induction l with
  | nil => rfl
  | cons p t ih => obtain ⟨v, e⟩ := p; simp [txChecks, List.replicate_succ, ih]

theorem bnot_le (x y : Nat) : (!decide (x ≤ y)) = decide (y < x) := by
  by_cases h : x ≤ y <;> simp [h] <;> omega

theorem bnot_lt (x y : Nat) : (!decide (x < y)) = decide (y ≤ x) := by
  by_cases h : x < y <;> simp [h] <;> omega

/-- kinds that change something outside the function's own memory -/
def effectKinds : List String := ["write", "stage", "appwrite", "publish"]

/-- position of the chain write of `processValidated` -/
def writeIdx : Nat := (body "Executer.processValidated").findIdx (fun i => i.kind == "write")

/-- the calls of a skeleton (functions of the table and others), in program order -/
def calls (f : String) : List (List String × String × String) :=
  ((body f).filter (fun i => i.kind == "sub" || i.kind == "call")).map (fun i => (i.ctx, i.kind, i.lhs))

end C03Gen

open C03Gen

/-! ### every generated exit is known to the classification -/

/-- every error exit of `Block.Validate`, `BlockHeader.Validate`, `BlockAssets.Valid` is a rule of the model -/
theorem C03_gen_validate_known : flatValidate.all (fun p => p.2 != .unknown && p.2 != .accept) = true := by decide +kernel

/-- every error exit of `verifyBlock` is a rule of the model or a read that cannot fail in it; none is conditional -/
theorem C03_gen_verifyBlock_known :
    flatVerify.all (fun p => p.2 != .unknown && p.2 != .accept && p.1 == []) = true := by decide +kernel

/-- every exit of `verifyAggregateCommit` is known; none is conditional or in a loop -/
theorem C03_gen_aggregateCommit_known : flatAC.all (fun p => p.2 != .unknown && p.1 == []) = true := by decide +kernel

/-- every error exit of `processValidated`, `newBlockExecuteABI`, `stateExecuter.Verify/Execute/Commit` is known -/
theorem C03_gen_processValidated_known : flatPV.all (fun p => p.2 != .unknown && p.2 != .accept) = true := by decide +kernel

/-- the only exits that sit under a condition are the two of the parameter update, which `Execute`
performs when the application answered with new thresholds or validators (`Cand.change`) -/
theorem C03_gen_conditional_exits :
    ((flatValidate ++ flatPV).filter (fun p => condOf p.1 != [])).map (fun p => (condOf p.1, p.2))
      = [([thresholdsChanged], .rule .params), ([thresholdsChanged], .infallible)] := by decide +kernel

/-! ### `Block.Validate` -/

/-- **Rule order of `Block.Validate` = `validateChecks`**, for every block (one static check per
transaction, in payload order, between the header lengths and the transaction root). -/
theorem C03_gen_validate_order (b : Cand) :
    (validateChecks b).map (·.1) = inst (cnt b) (rulesOf flatValidate) := by
  have h : runs (rulesOf flatValidate) =
      [(none, [.vPrevLen, .vGenLen, .vSigLen, .vStateRootLen]), (some "range(self.Transactions)", [.txStatic]), (none, [.txRoot]),
       (some "range(self)", [.assetsOrder, .assetsDup]), (none, [.assetRoot])] := by decide +kernel
  simp [inst, h, cnt, validateChecks, List.map_append, List.map_map, Function.comp_def, map_const_replicate,
    replicate_singleton_flatten]

theorem C03_gen_validate_calls :
    calls "Block.Validate" =
      [([], "sub", "self.Header.Validate()"),
       (["range(self.Transactions)"], "sub", "self.Transactions[*].Validate()"),
       ([], "call", "rmt.CalculateRoot(mut(make([][]byte, len(self.Transactions))))"),
       ([], "sub", "BlockAssets(self.Assets).Valid()"),
       ([], "call", "BlockAssets(self.Assets).GetRoot()")] ∧
    calls "BlockHeader.Validate" = [] ∧ calls "Transaction.Validate" = [] ∧
    calls "BlockAssets.Valid" = [([], "call", "make(BlockAssets, len(self)).Sort()")] := by
  decide +kernel

theorem C03_gen_rule_vPrevLen (b : Cand) :
    guardOf "BlockHeader.Validate" .vPrevLen = [("g_BlockHeader_Validate_PreviousBlockID", ["len(self.PreviousBlockID)"])] ∧
    (Err.vPrevLen, !VS.g_BlockHeader_Validate_PreviousBlockID b.prevID.length) ∈ validateChecks b := by
  refine ⟨by decide +kernel, ?_⟩
  simp [validateChecks, VS.g_BlockHeader_Validate_PreviousBlockID]

/-- `AddressLength` is a package *variable* of pkg/blockchain initialised to 20 (`VS.varInits`) -/
theorem C03_gen_rule_vGenLen (b : Cand) :
    guardOf "BlockHeader.Validate" .vGenLen = [("g_BlockHeader_Validate_GeneratorAddress", ["len(self.GeneratorAddress)", "AddressLength"])] ∧
    VS.varInits.lookup "blockchain.AddressLength" = some 20 ∧
    (Err.vGenLen, !VS.g_BlockHeader_Validate_GeneratorAddress b.gen.length 20) ∈ validateChecks b := by
  refine ⟨by decide +kernel, by decide +kernel, ?_⟩
  simp [validateChecks, VS.g_BlockHeader_Validate_GeneratorAddress]

theorem C03_gen_rule_vSigLen (b : Cand) :
    guardOf "BlockHeader.Validate" .vSigLen = [("g_BlockHeader_Validate_Signature", ["len(self.Signature)"])] ∧
    (Err.vSigLen, !VS.g_BlockHeader_Validate_Signature b.sigLen) ∈ validateChecks b := by
  refine ⟨by decide +kernel, ?_⟩
  simp [validateChecks, VS.g_BlockHeader_Validate_Signature]

/-- fix 4d58fae: an empty (or otherwise non-32-byte) `stateRoot` is refused statically — the application's `Commit`
skips the comparison for an empty expected root -/
theorem C03_gen_rule_vStateRootLen (b : Cand) :
    guardOf "BlockHeader.Validate" .vStateRootLen = [("g_BlockHeader_Validate_StateRoot", ["len(self.StateRoot)"])] ∧
    (Err.vStateRootLen, !VS.g_BlockHeader_Validate_StateRoot b.stateRootLen) ∈ validateChecks b := by
  refine ⟨by decide +kernel, ?_⟩
  simp [validateChecks, VS.g_BlockHeader_Validate_StateRoot]

theorem C03_gen_rule_txStatic : (none, Cls.rule .txStatic) ∈ flatValidate.map (fun p => (p.1.find? (· != "range(self.Transactions)"), p.2)) := by decide +kernel
theorem C03_gen_rule_txRoot : ([], Cls.rule .txRoot) ∈ flatValidate := by decide +kernel
theorem C03_gen_rule_assets :
    (["range(self)"], Cls.rule .assetsOrder) ∈ flatValidate ∧ (["range(self)"], Cls.rule .assetsDup) ∈ flatValidate := by decide +kernel
theorem C03_gen_rule_assetRoot : ([], Cls.rule .assetRoot) ∈ flatValidate := by decide +kernel

/-- the static checks of one transaction (`Cand.txStatic` is their conjunction, computed by the
harness): module / command names, parameter size ≤ 14336, key length 32, at least one signature,
every signature 64 bytes — exactly these, in this order -/
theorem C03_gen_transaction_validate_checks :
    (exits (body "Transaction.Validate")).map (fun i => (i.ctx, i.op, i.lhs, i.rhs)) =
      [([], "not", "alphanumericRegex.MatchString(self.Module)", ""),
       ([], "not", "alphanumericRegex.MatchString(self.Command)", ""),
       ([], ">", "len(self.Params)", "MaxTransactionParamsSize"),
       ([], "!=", "len(self.SenderPublicKey)", "crypto.EdPublicKeyLength"),
       ([], "==", "len(self.Signatures)", "0"),
       (["range(self.Signatures)"], "!=", "len(self.Signatures[*])", "crypto.EdSignatureLength")] ∧
    (body "Transaction.Validate").all (fun i => i.kind == "check" && i.ret != "nil" || i == { kind := "ret", ret := "nil" }) = true := by
  decide +kernel

theorem C03_gen_transaction_validate_limits (x : Nat) :
    VS.g_Transaction_Validate_Params x = decide (x > 14336) ∧
    VS.g_Transaction_Validate_SenderPublicKey x = decide (x ≠ 32) ∧
    VS.g_Transaction_Validate_Signatures x = decide (x = 0) ∧
    VS.g_Transaction_Validate_Signatures_2 x = decide (x ≠ 64) := ⟨rfl, rfl, rfl, rfl⟩

/-! ### `verifyBlock` -/

/-- **Rule order of `verifyBlock` = `verifyChecks`**: the rules before the call of
`verifyAggregateCommit`, the rules of the aggregate commit, the rules after it. -/
theorem C03_gen_verifyBlock_order (n : Node) (s : BFT.State) (b : Cand) :
    (verifyChecks n s b).map (·.1) =
      (rulesOf (flatVerify.takeWhile notMarker)).map (·.2) ++ (acChecks n s b.ac).map (·.1) ++
      (rulesOf (flatVerify.dropWhile notMarker)).map (·.2) := by
  have h1 : (rulesOf (flatVerify.takeWhile notMarker)).map (·.2) =
      [.version, .height, .prevID, .payloadSize, .future, .pastSlot, .generatorKeys, .generator, .mhp, .contradicting] := by decide +kernel
  have h2 : (rulesOf (flatVerify.dropWhile notMarker)).map (·.2) = [.signature] := by decide +kernel
  simp [h1, h2, verifyChecks]

/-- the aggregate commit is verified by `verifyAggregateCommit`, exactly once, between the
contradiction check and the signature check -/
theorem C03_gen_rule_aggregateCommit :
    flatVerify.filter (fun p => !notMarker p) = [([], .marker "Executer.verifyAggregateCommit")] := by decide +kernel

theorem C03_gen_rule_version (n : Node) (s : BFT.State) (b : Cand) :
    guardOf "Executer.verifyBlock" .version = [("g_Executer_verifyBlock_Version", ["block.Header.Version"])] ∧
    (Err.version, !VS.g_Executer_verifyBlock_Version b.version) ∈ verifyChecks n s b := by
  refine ⟨by decide +kernel, ?_⟩
  simp [verifyChecks, VS.g_Executer_verifyBlock_Version]

/-- height = height of the tip + 1 -/
theorem C03_gen_rule_height (n : Node) (s : BFT.State) (b : Cand) :
    guardOf "Executer.verifyBlock" .height =
      [("g_Executer_verifyBlock_Height", ["block.Header.Height", "self.chain.LastBlock().Header.Height"])] ∧
    (Err.height, !VS.g_Executer_verifyBlock_Height b.height n.tipHeight) ∈ verifyChecks n s b := by
  refine ⟨by decide +kernel, ?_⟩
  simp [verifyChecks, VS.g_Executer_verifyBlock_Height]

/-- previousBlockID is compared (bytes) with the id of the tip -/
theorem C03_gen_rule_prevID : ([], Cls.rule .prevID) ∈ flatVerify := by decide +kernel

/-- the sum of the transaction sizes is compared with `chain.MaxTransactionsLength()` -/
theorem C03_gen_rule_payloadSize (n : Node) (s : BFT.State) (b : Cand) :
    guardOf "Executer.verifyBlock" .payloadSize =
      [("g_Executer_verifyBlock_fold", ["fold(block.Transactions, 0, ($acc + block.Transactions[*].Size()))", "self.chain.MaxTransactionsLength()"])] ∧
    (Err.payloadSize, !VS.g_Executer_verifyBlock_fold b.payloadSize n.cfg.maxTxLen) ∈ verifyChecks n s b := by
  refine ⟨by decide +kernel, ?_⟩
  simp [verifyChecks, VS.g_Executer_verifyBlock_fold, bnot_le, bnot_lt]

/-- the slot of the block is not later than the slot of the wall clock -/
theorem C03_gen_rule_future (n : Node) (s : BFT.State) (b : Cand) :
    guardOf "Executer.verifyBlock" .future =
      [("g_Executer_verifyBlock_GetSlotNumber", ["self.blockSlot.GetSlotNumber(block.Header.Timestamp)", "self.blockSlot.GetSlotNumber(uint32(time.Now().Unix()))"])] ∧
    (Err.future, !VS.g_Executer_verifyBlock_GetSlotNumber (slotOf n.cfg b.timestamp) (slotOf n.cfg n.cfg.now)) ∈ verifyChecks n s b := by
  refine ⟨by decide +kernel, ?_⟩
  simp [verifyChecks, VS.g_Executer_verifyBlock_GetSlotNumber, bnot_le, bnot_lt]

/-- the slot of the block is strictly later than the slot of the tip -/
theorem C03_gen_rule_pastSlot (n : Node) (s : BFT.State) (b : Cand) :
    guardOf "Executer.verifyBlock" .pastSlot =
      [("g_Executer_verifyBlock_GetSlotNumber_2", ["self.blockSlot.GetSlotNumber(block.Header.Timestamp)", "self.blockSlot.GetSlotNumber(self.chain.LastBlock().Header.Timestamp)"])] ∧
    (Err.pastSlot, !VS.g_Executer_verifyBlock_GetSlotNumber_2 (slotOf n.cfg b.timestamp) (slotOf n.cfg n.tipTimestamp)) ∈ verifyChecks n s b := by
  refine ⟨by decide +kernel, ?_⟩
  simp [verifyChecks, VS.g_Executer_verifyBlock_GetSlotNumber_2, bnot_le, bnot_lt]

/-- the generator keys of the block's height are read from the consensus store, the generator of the
block's timestamp is taken from them and its address compared with the header's generator address -/
theorem C03_gen_rule_generator :
    ([], Cls.rule .generatorKeys) ∈ flatVerify ∧ ([], Cls.rule .generator) ∈ flatVerify ∧
    ("Executer.verifyBlock", "generators", "self.liskBFT.API().GetGeneratorKeys(consensusStore, block.Header.Height)") ∈ VS.handles ∧
    ("Executer.verifyBlock", "generator", "generators.AtTimestamp(self.blockSlot, block.Header.Timestamp)") ∈ VS.handles := by decide +kernel

/-- maxHeightPrevoted equals the first result of `GetBFTHeights` on the consensus store -/
theorem C03_gen_rule_mhp (n : Node) (s : BFT.State) (b : Cand) :
    guardOf "Executer.verifyBlock" .mhp = [("g_Executer_verifyBlock_MaxHeightPrevoted", ["block.Header.MaxHeightPrevoted", "bftHeights#0"])] ∧
    ("Executer.verifyBlock", "bftHeights", "self.liskBFT.API().GetBFTHeights(consensusStore)") ∈ VS.handles ∧
    (Err.mhp, !VS.g_Executer_verifyBlock_MaxHeightPrevoted b.mhp s.mhp) ∈ verifyChecks n s b := by
  refine ⟨by decide +kernel, by decide +kernel, ?_⟩
  simp [verifyChecks, VS.g_Executer_verifyBlock_MaxHeightPrevoted]

/-- everything `verifyBlock` calls at statement level, in order (nothing else touches the block or the
store between the checks) -/
theorem C03_gen_verifyBlock_calls :
    calls "Executer.verifyBlock" =
      [(["range(block.Transactions)"], "call", "block.Transactions[*].Size()"),
       ([], "call", "self.blockSlot.GetSlotNumber(block.Header.Timestamp)"),
       ([], "call", "self.blockSlot.GetSlotNumber(uint32(time.Now().Unix()))"),
       ([], "call", "self.blockSlot.GetSlotNumber(self.chain.LastBlock().Header.Timestamp)"),
       ([], "call", "self.liskBFT.API().GetGeneratorKeys(consensusStore, block.Header.Height)"),
       ([], "call", "generators.AtTimestamp(self.blockSlot, block.Header.Timestamp)"),
       ([], "call", "self.liskBFT.API().GetBFTHeights(consensusStore)"),
       ([], "call", "self.liskBFT.API().IsHeaderContradictingChain(consensusStore, block.Header.Readonly())"),
       ([], "sub", "self.verifyAggregateCommit(consensusStore, block.Header.AggregateCommit)"),
       ([], "call", "block.Header.VerifySignature(self.chain.ChainID(), generator.GeneratorKey())")] := by
  decide +kernel

theorem C03_gen_rule_contradicting : ([], Cls.rule .contradicting) ∈ flatVerify := by decide +kernel

/-- the signature is verified with the chain ID and the generator key of the slot's generator -/
theorem C03_gen_rule_signature : ([], Cls.rule .signature) ∈ flatVerify := by decide +kernel

/-! ### `verifyAggregateCommit` -/

/-- **Rule order of `verifyAggregateCommit` = `acChecks`**: after reading the heights the only
accepting shortcut (empty commit at `maxHeightCertified`), then the seven rules. -/
theorem C03_gen_aggregateCommit_order (n : Node) (s : BFT.State) (ac : AC) :
    flatAC.map (·.2) = [.infallible, .accept] ++ (flatAC.drop 2).map (·.2) ∧
    (acChecks n s ac).map (·.1) =
      if ac.bitsLen = 0 ∧ ac.sigLen = 0 ∧ ac.height = s.mhc then [] else (rulesOf flatAC).map (·.2) := by
  have h : (rulesOf flatAC).map (·.2) = [.acEmpty, .acLow, .acHigh, .acNextParams, .acHeader, .acParams, .acSignature] := by decide +kernel
  refine ⟨by decide +kernel, ?_⟩
  rw [h]
  unfold acChecks
  split <;> simp

theorem C03_gen_rule_acWindow (n : Node) (s : BFT.State) (ac : AC)
    (h : ¬ (ac.bitsLen = 0 ∧ ac.sigLen = 0 ∧ ac.height = s.mhc)) :
    guardOf "Executer.verifyAggregateCommit" .acLow = [("g_Executer_verifyAggregateCommit_Height", ["aggregteCommit.Height", "bftHeights#2"])] ∧
    guardOf "Executer.verifyAggregateCommit" .acHigh = [("g_Executer_verifyAggregateCommit_Height_2", ["aggregteCommit.Height", "bftHeights#1"])] ∧
    (Err.acLow, !VS.g_Executer_verifyAggregateCommit_Height ac.height s.mhc) ∈ acChecks n s ac ∧
    (Err.acHigh, !VS.g_Executer_verifyAggregateCommit_Height_2 ac.height s.mhpc) ∈ acChecks n s ac := by
  refine ⟨by decide +kernel, by decide +kernel, ?_, ?_⟩ <;>
    simp [acChecks, h, VS.g_Executer_verifyAggregateCommit_Height, VS.g_Executer_verifyAggregateCommit_Height_2, bnot_le, bnot_lt]

theorem C03_gen_aggregateCommit_calls :
    calls "Executer.verifyAggregateCommit" =
      [([], "call", "self.liskBFT.API().GetBFTHeights(diffStore)"),
       ([], "call", "self.liskBFT.API().NextHeightBFTParameters(diffStore, bftHeights#2 + 1)"),
       ([], "call", "self.chain.DataAccess().GetBlockHeaderByHeight(aggregteCommit.Height)"),
       ([], "call", "certificate.NewCertificateFromBlock(acHeader)"),
       ([], "call", "self.liskBFT.API().GetBFTParameters(diffStore, aggregteCommit.Height)"),
       ([], "call", "mut(make(ValidatorsWithBLSKey, len(bftParams.Validators()))).sort()"),
       ([], "call", "mut(cert).VerifyAggregateCertificateSignature(mut(make([][]byte, len(mut(make(ValidatorsWithBLSKey, len(bftParams.Validators())))))), mut(make([]uint64, len(mut(make(ValidatorsWithBLSKey, len(bftParams.Validators())))))), bftParams.CertificateThreshold(), self.chain.ChainID())")] := by
  decide +kernel

/-- the certificate is rebuilt from the node's own block header at the commit height and checked
against the BFT parameters of that height and this chain ID -/
theorem C03_gen_rule_acCertificate :
    ("Executer.verifyAggregateCommit", "acHeader", "self.chain.DataAccess().GetBlockHeaderByHeight(aggregteCommit.Height)") ∈ VS.handles ∧
    ("Executer.verifyAggregateCommit", "cert", "certificate.NewCertificateFromBlock(acHeader)") ∈ VS.handles ∧
    ("Executer.verifyAggregateCommit", "bftParams", "self.liskBFT.API().GetBFTParameters(diffStore, aggregteCommit.Height)") ∈ VS.handles ∧
    ([], Cls.rule .acSignature) ∈ flatAC := by decide +kernel

/-! ### `processValidated`, `Execute` -/

/-- `processValidated` starts with `verifyBlock` on the staged consensus store -/
theorem C03_gen_rule_verify_first :
    flatPV.head? = some ([], .marker "Executer.verifyBlock") ∧
    ("Executer.processValidated", "store", "diffdb.New(self.database, blockchain.DBPrefixToBytes(blockchain.DBPrefixState))") ∈ VS.handles := by decide +kernel

/-- **Rule order of `processValidated` after `verifyBlock` = `execChecks`**, for every block (one
verify / execute round per transaction). -/
theorem C03_gen_execute_order (n : Node) (b : Cand) :
    (execChecks n b).map (·.1) = inst (cnt b) (rulesOf (flatPV.tail)) := by
  have h : runs (rulesOf (flatPV.tail)) =
      [(none, [.abiInit, .abiVerifyAssets, .bft, .bft, .abiBefore]),
       (some "range(block.Transactions)", [.abiVerifyTx, .txVerify, .abiExecuteTx, .txExecute]),
       (none, [.abiAfter, .params, .bft, .validatorsHash, .eventCount, .eventRoot, .commit])] := by decide +kernel
  simp [inst, h, cnt, execChecks, List.map_append, txChecks_fst]

/-- **The whole acceptance path**: the model's rule list `checkList` (whose first failing entry is
what `applyBlock` returns, `C03_first_failure_order`) is, rule for rule, the sequence of error exits of
`Block.Validate`, `verifyBlock` (with `verifyAggregateCommit`) and `processValidated` in the Go source. -/
theorem C03_gen_checkList_order (n : Node) (b : Cand) :
    (checkList n b).map (·.1) =
      inst (cnt b) (rulesOf flatValidate) ++
      ((rulesOf (flatVerify.takeWhile notMarker)).map (·.2) ++
        (if b.ac.bitsLen = 0 ∧ b.ac.sigLen = 0 ∧ b.ac.height = n.bft.mhc then [] else (rulesOf flatAC).map (·.2)) ++
        (rulesOf (flatVerify.dropWhile notMarker)).map (·.2)) ++
      inst (cnt b) (rulesOf (flatPV.tail)) := by
  rw [← C03_gen_validate_order, ← C03_gen_execute_order n b, ← (C03_gen_aggregateCommit_order n n.bft b.ac).2,
    ← C03_gen_verifyBlock_order]
  simp [checkList]

theorem C03_gen_rule_abi :
    ([], Cls.rule .abiInit) ∈ flatPV ∧ ([], Cls.rule .abiVerifyAssets) ∈ flatPV ∧ ([], Cls.rule .abiBefore) ∈ flatPV ∧
    ([], Cls.rule .abiAfter) ∈ flatPV ∧
    ("Executer.processValidated", "abi", "newBlockExecuteABI(self.abi, self.liskBFT, store, block.Header)") ∈ VS.handles := by decide +kernel

/-- per transaction: `VerifyTransaction` (error, then verdict ≠ 1), `ExecuteTransaction` (error, then
verdict = Invalid) -/
theorem C03_gen_rule_transactions (x y : Nat) :
    flatPV.filter (fun p => loopOf p.1 == some "range(block.Transactions)") =
      [(["range(block.Transactions)"], .rule .abiVerifyTx), (["range(block.Transactions)"], .rule .txVerify),
       (["range(block.Transactions)"], .rule .abiExecuteTx), (["range(block.Transactions)"], .rule .txExecute)] ∧
    VS.g_stateExecuter_Execute_Result x = decide (x ≠ 1) ∧
    VS.g_stateExecuter_Execute_Result_2 x y = decide (x = y) := ⟨by decide +kernel, rfl, rfl⟩

/-- the BFT step (`liskbft.BeforeTransactionsExecute`) and `getABIConsensus` precede the application's
hooks; `getABIConsensus` reads parameters, generator keys and `ImpliesMaximalPrevotes` for the
block's own height (`consensusInfoOK`) -/
theorem C03_gen_rule_bft :
    ((flatPV.tail).map (·.2)).take 5 = [.rule .abiInit, .rule .abiVerifyAssets, .rule .bft, .rule .bft, .rule .abiBefore] ∧
    (exits (body "getABIConsensus")).map (fun i => (i.ctx, i.op, i.lhs, i.ret)) =
      [([], "callerr", "bft.API().GetBFTParameters(diffStore, header.Height())", "err"),
       ([], "callerr", "bft.API().GetGeneratorKeys(diffStore, header.Height())", "err"),
       ([], "callerr", "bft.API().ImpliesMaximalPrevotes(diffStore, header)", "err"),
       ([], "callerr", "bft.API().GetBFTHeights(diffStore)", "err")] := by decide +kernel

/-- the parameter update answered by the application is applied to the staged store; a refusal rejects the block -/
theorem C03_gen_rule_params : ([thresholdsChanged], Cls.rule .params) ∈ flatPV := by decide +kernel

/-- validatorsHash is compared (bytes) with the hash of the BFT parameters of height + 1 read from the
staged store after execution -/
theorem C03_gen_rule_validatorsHash :
    ([], Cls.rule .validatorsHash) ∈ flatPV ∧
    ("Executer.processValidated", "bftParams", "self.liskBFT.API().GetBFTParameters(store, block.Header.Height + 1)") ∈ VS.handles := by decide +kernel

theorem C03_gen_rule_eventCount (x y : Nat) :
    guardOf "Executer.processValidated" .eventCount = [("g_Executer_processValidated_Events", ["len(abi.Events())", "blockchain.MaxEventsPerBlock"])] ∧
    VS.g_Executer_processValidated_Events x y = !decide (x ≤ y) := by
  refine ⟨by decide +kernel, ?_⟩
  simp [VS.g_Executer_processValidated_Events, bnot_le]

/-- eventRoot is compared (bytes) with the root calculated from the events collected during execution -/
theorem C03_gen_rule_eventRoot : ([], Cls.rule .eventRoot) ∈ flatPV := by decide +kernel

/-- the application's `Commit` is called with the tip's state root and the block's state root as the
expected one; its error rejects the block; it is the last rule -/
theorem C03_gen_rule_commit :
    (rulesOf flatPV).getLast? = some (none, .commit) ∧
    (body "stateExecuter.Commit").map (fun i => (i.kind, i.ret)) = [("appwrite", ""), ("ret", "err")] := by decide +kernel

/-- **Call order of `processValidated`**: verify → ABI init → ABI verify (assets) → [p2p publish of an
internal block] → Execute (BFT step, hooks, transactions) → parameters of height + 1 (validatorsHash,
event checks) → finalized height, BFT heights → batch ← staged consensus store + state diff →
application Commit(current root, expected root) → pruning of finalized diffs → `chain.AddBlock(batch,
block, events, max(finalized, maxHeightPrecommitted))` → event publications. -/
theorem C03_gen_processValidated_call_order :
    ((body "Executer.processValidated").filter (fun i => ["sub", "call", "clear", "stage", "write", "publish"].contains i.kind)).map
        (fun i => (i.kind, i.lhs)) =
      [("call", "diffdb.New(self.database, blockchain.DBPrefixToBytes(blockchain.DBPrefixState))"),
       ("sub", "self.verifyBlock(store, block)"),
       ("sub", "newBlockExecuteABI(self.abi, self.liskBFT, store, block.Header)"),
       ("clear", "abi.Clear()"),
       ("sub", "abi.Verify(block)"),
       ("publish", "self.conn.Publish(ctx, P2PEventPostBlock, block.Encode())"),
       ("sub", "abi.Execute(store, block)"),
       ("call", "self.liskBFT.API().GetBFTParameters(store, block.Header.Height + 1)"),
       ("call", "blockchain.CalculateEventRoot(abi.Events())"),
       ("call", "self.chain.DataAccess().GetFinalizedHeight()"),
       ("call", "self.liskBFT.API().GetBFTHeights(store)"),
       ("call", "self.database.NewBatch()"),
       ("stage", "store.Commit(batch)"),
       ("stage", "batch.Set(bytes.Join(blockchain.DBPrefixToBytes(blockchain.DBPrefixStateDiff), bytes.FromUint32(block.Header.Height)), store.Commit(batch).Encode())"),
       ("sub", "abi.Commit(self.chain.LastBlock().Header.StateRoot, block.Header.StateRoot)"),
       ("call", "self.database.IterateKey(blockchain.DBPrefixToBytes(blockchain.DBPrefixStateDiff), -1, false)"),
       ("call", "bytes.ToUint32(diffKeys[*][1:])"),
       ("stage", "batch.Del(diffKeys[*])"),
       ("write", "self.chain.AddBlock(batch, block, abi.Events(), ite(bftHeights#1 > finalized, bftHeights#1, finalized), removeTemp)"),
       ("publish", "self.events.Publish(EventBlockFinalize, &EventBlockFinalizeMessage{Original: finalized, Next: bftHeights#1, Trigger: block.Header})"),
       ("publish", "self.events.Publish(EventBlockNew, &EventBlockNewMessage{Block: block, Events: abi.Events()})"),
       ("publish", "self.events.Publish(EventValidatorsChange, &EventChangeValidator{NextValidators: abi.Execute(store, block)#0.NextValidators, PrecommitThreshold: abi.Execute(store, block)#0.PrecommitThreshold, CertificateThreshold: abi.Execute(store, block)#0.CertificateThreshold})")] := by
  decide +kernel

/-- the Go steps of `Execute` in the order of the model's `preSteps` (BFT vote update, consensus
info, BeforeTransactionsExecute, per transaction verify + execute, AfterTransactionsExecute, parameter
update) -/
theorem C03_gen_execute_call_order :
    ((body "stateExecuter.Execute").filter (fun i => ["sub", "call"].contains i.kind)).map (fun i => (i.ctx, i.lhs)) =
      [([], "self.bft.BeforeTransactionsExecute(block.Header.Readonly(), diffStore)"),
       ([], "getABIConsensus(self.bft, diffStore, block.Header.Readonly())"),
       ([], "self.client.BeforeTransactionsExecute(&labi.BeforeTransactionsExecuteRequest{ContextID: self.contextID, Assets: block.Assets, Consensus: self.consensus})"),
       (["range(block.Transactions)"], "self.client.VerifyTransaction(&labi.VerifyTransactionRequest{ContextID: self.contextID, Transaction: block.Transactions[*]})"),
       (["range(block.Transactions)"], "self.client.ExecuteTransaction(&labi.ExecuteTransactionRequest{ContextID: self.contextID, Assets: block.Assets, Header: block.Header, Transaction: block.Transactions[*], DryRun: false, Consensus: self.consensus})"),
       ([], "self.client.AfterTransactionsExecute(&labi.AfterTransactionsExecuteRequest{ContextID: self.contextID, Assets: block.Assets, Consensus: self.consensus, Transactions: block.Transactions})"),
       ([], "self.events.UpdateIndex()"),
       ([thresholdsChanged], "liskbft.GetBFTValidatorAndGenerators(afterTxs.NextValidators)"),
       ([thresholdsChanged], "self.bft.API().SetBFTParameters(diffStore, afterTxs.PreCommitThreshold, afterTxs.CertificateThreshold, liskbft.GetBFTValidatorAndGenerators(afterTxs.NextValidators)#0)"),
       ([thresholdsChanged], "self.bft.API().SetGeneratorKeys(diffStore, liskbft.GetBFTValidatorAndGenerators(afterTxs.NextValidators)#1)")] := by
  decide +kernel

/-- finalized-height handling: the finalized height handed to `AddBlock` is raised to
maxHeightPrecommitted exactly when that is larger (`addBlock` of the model), and the finalize event is
published under the same condition -/
theorem C03_gen_finalized_height (x y : Nat) :
    VS.g_Executer_processValidated_bftHeights x y = decide (x > y) ∧
    ((body "Executer.processValidated").filter (fun i => i.guard == "g_Executer_processValidated_bftHeights")).map
        (fun i => (i.kind, i.ctx, i.atoms)) = [("branch", [], ["bftHeights#1", "finalized"])] ∧
    ("Executer.processValidated", "bftHeights", "self.liskBFT.API().GetBFTHeights(store)") ∈ VS.handles ∧
    ("Executer.processValidated", "finalized", "self.chain.DataAccess().GetFinalizedHeight()") ∈ VS.handles :=
  ⟨rfl, by decide +kernel, by decide +kernel, by decide +kernel⟩

/-! ### a rejected block writes nothing -/

/-- nothing on the verification path writes to the database, stages into a batch, commits the
application state or publishes: `verifyBlock`, `verifyAggregateCommit`, `newBlockExecuteABI`,
`stateExecuter.Verify/Execute`, `getABIConsensus` and the four `Validate` functions -/
theorem C03_gen_checks_are_pure :
    ["Executer.verifyBlock", "Executer.verifyAggregateCommit", "newBlockExecuteABI", "stateExecuter.Verify",
     "stateExecuter.Execute", "getABIConsensus", "Block.Validate", "BlockHeader.Validate", "Transaction.Validate",
     "BlockAssets.Valid"].all (fun f => !(body f).isEmpty && (body f).all (fun i => !effectKinds.contains i.kind)) = true := by
  decide +kernel

/-- **No error exit of `processValidated` lies behind a write.**  The function contains exactly one
write site, `chain.AddBlock`; before it nothing is written or published on the event emitter (the
only earlier publication is the p2p relay of an internally generated block); after it the only error
exit is the failure of that write itself (one atomic batch, C13); the staging into the batch starts
after the last rule but the application's `Commit`, whose error exit is the last one before the write. -/
theorem C03_gen_no_write_before_error_exit :
    let l := body "Executer.processValidated"
    writeIdx < l.length ∧
    (l.filter (fun i => i.kind == "write")).length = 1 ∧
    ((l.take writeIdx).filter (fun i => i.kind == "publish")).map (fun i => (i.ctx, i.lhs)) =
      [(["publish", "go"], "self.conn.Publish(ctx, P2PEventPostBlock, block.Encode())")] ∧
    (exits (l.drop (writeIdx + 1))).map (fun i => (i.op, some i.lhs, i.ret)) = [("callerr", l[writeIdx]?.map (·.lhs), "err")] ∧
    (exits (l.drop (l.findIdx (fun i => i.kind == "stage")))).map (fun i => clsOf "Executer.processValidated" i) =
      [.splice "stateExecuter.Commit", .infallible] := by
  decide +kernel

/-! ### `process` -/

/-- the fork-choice predicates are asked in the order identical → valid successor → double forging →
tie break → different chain, on `NewForkChoice(tip header, block header, slots, lastBlockReceived)` -/
theorem C03_gen_process_forkchoice_order :
    ((body "Executer.process").filter (fun i => i.ctx == [] && (i.kind == "check" || i.kind == "branch" || i.kind == "ret"))).map
        (fun i => (i.kind, i.op, i.lhs, i.ret)) =
      [("check", "callerr", "fc", "err"),
       ("check", "is", "fc.IsIdenticalBlock()", "nil"),
       ("branch", "is", "fc.IsValidBlock()", ""),
       ("check", "is", "fc.IsDoubleForging()", "nil"),
       ("branch", "is", "fc.IsTieBreak()", ""),
       ("branch", "is", "fc.IsDifferentChain()", ""),
       ("ret", "", "", "nil")] ∧
    ("Executer.process", "fc", "forkchoice.NewForkChoice(self.chain.LastBlock().Header, ctx.block.Header, self.blockSlot, self.lastBlockReceived)") ∈ VS.handles := by
  decide +kernel

/-- valid successor: `block.Validate()` (error returned) and only then `processValidated` (error
returned) on the received block -/
theorem C03_gen_process_valid_validates :
    ((body "Executer.process").filter (fun i => i.ctx.head? == some "fc.IsValidBlock()" && i.kind != "set" && i.kind != "call")).map
        (fun i => (i.kind, i.op, i.lhs, i.ret)) =
      [("sub", "", "ctx.block.Validate()", ""),
       ("check", "callerr", "ctx.block.Validate()", "err"),
       ("sub", "", "self.processValidated(ctx.ctx, ctx.block, (ctx.peerID == \"\"), false)", ""),
       ("check", "callerr", "self.processValidated(ctx.ctx, ctx.block, (ctx.peerID == \"\"), false)", "err"),
       ("ret", "", "", "nil")] := by
  decide +kernel

/-- tie break: `block.Validate()` (error returned) before the tip is deleted and before
`processValidated` runs on the received block; on failure the deleted tip is re-applied and nil returned -/
theorem C03_gen_process_tiebreak_validates :
    ((body "Executer.process").filter (fun i => i.ctx.head? == some "fc.IsTieBreak()" && i.kind != "set" && i.kind != "call")).map
        (fun i => (i.kind, i.ctx.length, i.op, i.lhs, i.ret)) =
      [("sub", 1, "", "ctx.block.Validate()", ""),
       ("check", 1, "callerr", "ctx.block.Validate()", "err"),
       ("write", 1, "", "self.deleteBlock(ctx.ctx, self.chain.LastBlock(), false)", ""),
       ("check", 1, "callerr", "self.deleteBlock(ctx.ctx, self.chain.LastBlock(), false)", "err"),
       ("sub", 1, "", "self.processValidated(ctx.ctx, ctx.block, (ctx.peerID == \"\"), false)", ""),
       ("branch", 1, "callerr", "self.processValidated(ctx.ctx, ctx.block, (ctx.peerID == \"\"), false)", ""),
       ("sub", 2, "", "self.processValidated(ctx.ctx, self.chain.LastBlock(), (ctx.peerID == \"\"), false)", ""),
       ("branch", 2, "callerr", "self.processValidated(ctx.ctx, self.chain.LastBlock(), (ctx.peerID == \"\"), false)", ""),
       ("ret", 2, "", "", "nil"),
       ("ret", 1, "", "", "nil")] := by
  decide +kernel

/-- blocks reach the chain only through `processValidated`: the write sites of `process` are the
deletion of the tip (tie break) and the synchroniser (different chain), both behind their predicate -/
theorem C03_gen_process_writes :
    ((body "Executer.process").filter (fun i => effectKinds.contains i.kind)).map (fun i => (i.ctx, i.lhs)) =
      [(["fc.IsTieBreak()"], "self.deleteBlock(ctx.ctx, self.chain.LastBlock(), false)"),
       (["fc.IsDifferentChain()"], "self.syncer.Sync(self.createSyncContext(ctx)#0)")] := by
  decide +kernel

/-! ### non-vacuity -/

example : (rulesOf flatValidate).length = 9 ∧ (rulesOf flatVerify).length = 11 ∧ (rulesOf flatAC).length = 7 ∧
    (rulesOf flatPV).length = 16 := by decide +kernel

example : inst (fun _ => 2) (rulesOf (flatPV.tail)) =
    [.abiInit, .abiVerifyAssets, .bft, .bft, .abiBefore, .abiVerifyTx, .txVerify, .abiExecuteTx, .txExecute,
     .abiVerifyTx, .txVerify, .abiExecuteTx, .txExecute, .abiAfter, .params, .bft, .validatorsHash, .eventCount,
     .eventRoot, .commit] := by decide +kernel
