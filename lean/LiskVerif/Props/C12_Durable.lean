/-
C12, clause "Commit WRITES exactly that final state and returns a diff whose reversal restores the previous database
contents" - and every read clause - on the database as it is STORED.

`Props/C12.lean` ff. prove the clauses for the database as a finite map (`DiffDB.Store`). The map is what a read
returns right after the write; what pebble keeps is, per key, a history of entries that memtable flushes and
compactions reduce piecewise, at points the engine does not control (`Model/KeyHistory.lean`,
`Model/KeyHistoryMaint.lean`: `mergeTop` for a flush / upper-level compaction of the newest entries of a key,
`compact` for a compaction to the bottom level; which keys and how many entries a step covers is arbitrary). A read
after a flush, a compaction or close / reopen sees the reduced history.

(i)   The map-level theorems lift to the stored database for EVERY history and EVERY placement of maintenance
      steps, when batches are written with `Set` / plain `Delete`:
      `C12_durable_maint_invisible`, `C12_durable_history_refines` (arbitrary batches and maintenance steps: what is
      read = the map with the batches applied in order), `C12_durable_commit_exact` / `C12_durable_revert_exact`
      (`C12_commit_exact` / `C12_revert_exact` with maintenance before, between and after the writes),
      `C12_durable_commit_history` + `C12_durable_commit_exact_after_history` (any number of rounds "fresh staged
      store, any operations, Commit, write" with maintenance anywhere: the stored database is the database of the map
      model `DiffDB.commit` at every point, and after one more Commit every key reads its effective value). All
      reads of the staged store and all scans of the database are functions of that map (C12 / C12_Scan), so they
      carry over with it.
(ii)  With `Del` issuing a SingleDelete the lifted theorem is FALSE: `C12_durable_single_delete_counterexample`
      (three commits set, set, delete; every read is right until a flush brings the first value back; evaluated on
      the commit model itself), `C12_durable_single_delete_resurrects` (for all stores, keys and values).
(iii) Tie to the source, on the facts tools/wskelgen regenerates from pkg/db and pkg/db/diffdb on every run
      (`Gen/WriteSkeletons.lean`, `Gen/WriteSkeletonsFW.lean`): `Batch.Del` issues `pebble.Batch.Delete`, `Batch.Set`
      `Set`, `DB.Del` / `DB.Set` the synced `Delete` / `Set`, no write method issues a `SingleDelete` / `Merge`;
      `Database.Commit` / `cacheDB.commit` / `Database.RevertDiff` do nothing but `Set` / `Del` on the writer they
      are handed; a batch reaches the database only through `DB.Write` = `Apply(batch, pebble.Sync)`
      (`C12_durable_del_is_plain_delete`, `C12_durable_write_calls_erase_history`, `C12_durable_commit_only_stages`,
      `C12_durable_batch_applied_with_sync`).
Harness: C12DUR (harness/c12/durable.go) runs the C12 op sequences on a pebble with small memtables / on disk with
flush, compact and reopen at arbitrary points; the driver of the map model ignores them (Driver/DiffDBDur.lean).
-/
import LiskVerif.Model.KeyHistoryMaint
import LiskVerif.Props.C12_Commit2
import LiskVerif.Gen.WriteSkeletons
import LiskVerif.Gen.WriteSkeletonsFW

open LiskVerif LiskVerif.KeyHistory

namespace C12.Durable

/-- the stored histories represent the map `s`: every key reads what the map holds -/
def Rep (h : Store) (s : DiffDB.Store) : Prop := ∀ k, readKey h k = DiffDB.slookup s k

/-- every history was written with `Set` / `Delete` only -/
def AllPlain (h : Store) : Prop := ∀ k, Plain (h k)

theorem plain_drop {es : List Entry} (n : Nat) (h : Plain es) : Plain (es.drop n) :=
  fun e he => h e (List.mem_of_mem_drop he)

theorem plain_tail {e : Entry} {es : List Entry} (h : Plain (e :: es)) : Plain es :=
  fun x hx => h x (List.mem_cons_of_mem _ hx)

theorem mergeTop_plain (n : Nat) (es : List Entry) (h : Plain es) :
    visible (mergeTop false n es) = visible es ∧ Plain (mergeTop false n es) := by
  cases n with
  | zero => cases es <;> exact ⟨rfl, h⟩
  | succ n =>
    cases es with
    | nil => exact ⟨rfl, h⟩
    | cons e rest =>
      cases e with
      | set v =>
        refine ⟨rfl, ?_⟩
        intro x hx
        simp only [mergeTop] at hx
        rcases List.mem_cons.mp hx with rfl | hx
        · intro c; cases c
        · exact plain_drop n (plain_tail h) x hx
      | del =>
        refine ⟨rfl, ?_⟩
        intro x hx
        simp only [mergeTop] at hx
        rcases List.mem_cons.mp hx with rfl | hx
        · intro c; cases c
        · exact plain_drop n (plain_tail h) x hx
      | sdel => exact absurd rfl (h .sdel (by simp))

theorem compact_plain (es : List Entry) (h : Plain es) :
    visible (compact es) = visible es ∧ Plain (compact es) := by
  cases es with
  | nil => exact ⟨rfl, h⟩
  | cons e rest =>
    cases e with
    | set v =>
      refine ⟨rfl, ?_⟩
      intro x hx
      simp only [compact, compactAux, List.mem_singleton] at hx
      subst hx; intro c; cases c
    | del =>
      refine ⟨rfl, ?_⟩
      intro x hx
      simp [compact, compactAux] at hx
    | sdel => exact absurd rfl (h .sdel (by simp))

theorem maint_plain (m : Maint) (s : Store) (hp : AllPlain s) :
    (∀ k, readKey (m.apply s) k = readKey s k) ∧ AllPlain (m.apply s) := by
  cases m with
  | flush f =>
    exact ⟨fun k => (mergeTop_plain (f k) (s k) (hp k)).1, fun k => (mergeTop_plain (f k) (s k) (hp k)).2⟩
  | compact g =>
    refine ⟨fun k => ?_, fun k => ?_⟩
    · simp only [readKey, Maint.apply]
      split
      · exact (compact_plain (s k) (hp k)).1
      · rfl
    · simp only [Maint.apply]
      split
      · exact (compact_plain (s k) (hp k)).2
      · exact hp k

theorem runMaint_plain (ms : List Maint) : ∀ (s : Store), AllPlain s →
    (∀ k, readKey (runMaint s ms) k = readKey s k) ∧ AllPlain (runMaint s ms) := by
  induction ms with
  | nil => intro s hp; exact ⟨fun _ => rfl, hp⟩
  | cons m ms ih =>
    intro s hp
    have h1 := maint_plain m s hp
    have h2 := ih (m.apply s) h1.2
    exact ⟨fun k => (h2.1 k).trans (h1.1 k), h2.2⟩

theorem runMaint_rep (ms : List Maint) (h : Store) (s : DiffDB.Store) (hr : Rep h s) (hp : AllPlain h) :
    Rep (runMaint h ms) s ∧ AllPlain (runMaint h ms) :=
  ⟨fun k => ((runMaint_plain ms h hp).1 k).trans (hr k), (runMaint_plain ms h hp).2⟩

theorem applyOp_rep (h : Store) (s : DiffDB.Store) (hr : Rep h s) (hp : AllPlain h) (o : DiffDB.BOp) :
    Rep (applyOpH false h o) (DiffDB.applyOp s o) ∧ AllPlain (applyOpH false h o) := by
  cases o with
  | set k v =>
    refine ⟨fun k' => ?_, fun k' => ?_⟩
    · simp only [applyOpH, DiffDB.applyOp, readKey, putKey, DiffDB.slookup_sset]
      by_cases hk : k' = k
      · subst hk; simp [visible]
      · have hk' : ¬ k = k' := fun c => hk c.symm
        simp only [hk, hk', if_false]
        exact hr k'
    · intro e he
      simp only [applyOpH, putKey] at he
      split at he
      · rcases List.mem_cons.mp he with rfl | h'
        · intro c; cases c
        · exact hp k' e h'
      · exact hp k' e he
  | del k =>
    refine ⟨fun k' => ?_, fun k' => ?_⟩
    · simp only [applyOpH, DiffDB.applyOp, readKey, deleteKey, DiffDB.slookup_sdel, Bool.false_eq_true, if_false]
      by_cases hk : k' = k
      · subst hk; simp [visible]
      · have hk' : ¬ k = k' := fun c => hk c.symm
        simp only [hk, hk', if_false]
        exact hr k'
    · intro e he
      simp only [applyOpH, deleteKey, Bool.false_eq_true, if_false] at he
      split at he
      · rcases List.mem_cons.mp he with rfl | h'
        · intro c; cases c
        · exact hp k' e h'
      · exact hp k' e he

theorem applyBatch_rep (b : DiffDB.Batch) : ∀ (h : Store) (s : DiffDB.Store), Rep h s → AllPlain h →
    Rep (applyBatchH false h b) (DiffDB.applyBatch s b) ∧ AllPlain (applyBatchH false h b) := by
  induction b with
  | nil => intro h s hr hp; exact ⟨hr, hp⟩
  | cons o b ih =>
    intro h s hr hp
    have h1 := applyOp_rep h s hr hp o
    exact ih _ _ h1.1 h1.2

theorem applyBatch_revertBatch (s : DiffDB.Store) (d : DiffDB.Diff) :
    DiffDB.applyBatch s (revertBatch d) = DiffDB.revertDiff s d := by
  simp only [DiffDB.applyBatch, revertBatch, DiffDB.revertDiff, List.foldl_append, List.foldl_map, DiffDB.applyOp]

theorem nodup_mapRun (devs : List DEv) : ∀ (s : DiffDB.Store), DiffDB.NoDupKeys s → DiffDB.NoDupKeys (mapRun s devs) := by
  induction devs with
  | nil => intro s h; exact h
  | cons e es ih =>
    intro s h
    cases e with
    | round ops =>
      apply ih
      apply DiffDB.nodup_commit
      rw [C12_store_untouched]
      exact h
    | maint m => exact ih s h

end C12.Durable

open C12.Durable

/-! ### (i) storage maintenance is invisible, the map-level theorems lift -/

/-- one maintenance step - a flush / upper-level compaction of ANY number of newest entries of any keys, a
compaction of ANY key set to the bottom level - changes no read of a store written with `Set` / `Delete`, and
leaves such a store -/
theorem C12_durable_maint_invisible (m : Maint) (s : Store) (hp : ∀ k, Plain (s k)) (k : Bytes) :
    readKey (m.apply s) k = readKey s k ∧ Plain (m.apply s k) :=
  ⟨(maint_plain m s hp).1 k, (maint_plain m s hp).2 k⟩

/-- **every history, every placement of maintenance**: batches of `Set` / plain `Delete` over any keys, maintenance
steps of any extent anywhere in between - every read returns what the map with the batches applied in order holds -/
theorem C12_durable_history_refines (evs : List Ev) : ∀ (h : Store) (s : DiffDB.Store),
    (∀ k, readKey h k = DiffDB.slookup s k) → (∀ k, Plain (h k)) →
    (∀ k, readKey (runEv false h evs) k = DiffDB.slookup (mapEv s evs) k) ∧ ∀ k, Plain (runEv false h evs k) := by
  induction evs with
  | nil => intro h s hr hp; exact ⟨hr, hp⟩
  | cons e es ih =>
    intro h s hr hp
    cases e with
    | write b =>
      have h1 := applyBatch_rep b h s hr hp
      exact ih _ _ h1.1 h1.2
    | maint m =>
      have h1 := maint_plain m h hp
      exact ih _ s (fun k => (h1.1 k).trans (hr k)) h1.2

/-- **`C12_commit_exact` on the stored database**: maintenance `pre`, the batch of `Commit` written, maintenance
`post` - every key reads its effective (staged) value -/
theorem C12_durable_commit_exact (st : DiffDB.St) (hinv : C12Inv st) (phys : Store)
    (hr : ∀ k, readKey phys k = DiffDB.slookup st.store k) (hp : ∀ k, Plain (phys k)) (pre post : List Maint)
    (k : Bytes) :
    readKey (runMaint (applyBatchH false (runMaint phys pre) (DiffDB.commitKeep st).2.1) post) k = DiffDB.eff st k := by
  have h1 := runMaint_rep pre phys st.store hr hp
  have h2 := applyBatch_rep (DiffDB.commitKeep st).2.1 _ _ h1.1 h1.2
  have h3 := runMaint_rep post _ _ h2.1 h2.2
  rw [h3.1 k]
  exact C12_commit_batch_final_state st hinv k

/-- **`C12_revert_exact` on the stored database**: the batch of `Commit` written, later the batch of `RevertDiff`
with the returned diff written, maintenance before, between and after - every key reads what it read before the
commit, byte for byte -/
theorem C12_durable_revert_exact (st : DiffDB.St) (hinv : C12Inv st) (phys : Store)
    (hr : ∀ k, readKey phys k = DiffDB.slookup st.store k) (hp : ∀ k, Plain (phys k)) (m1 m2 m3 : List Maint)
    (k : Bytes) :
    readKey (runMaint (applyBatchH false (runMaint (applyBatchH false (runMaint phys m1)
      (DiffDB.commitKeep st).2.1) m2) (revertBatch (DiffDB.commitKeep st).2.2)) m3) k = DiffDB.slookup st.store k := by
  have h1 := runMaint_rep m1 phys st.store hr hp
  have h2 := applyBatch_rep (DiffDB.commitKeep st).2.1 _ _ h1.1 h1.2
  have h3 := runMaint_rep m2 _ _ h2.1 h2.2
  have h4 := applyBatch_rep (revertBatch (DiffDB.commitKeep st).2.2) _ _ h3.1 h3.2
  have h5 := runMaint_rep m3 _ _ h4.1 h4.2
  rw [h5.1 k, applyBatch_revertBatch]
  exact C12_commit_batch_revert_exact st hinv k

/-- **histories of commits**: any number of rounds (a fresh staged store over the database, any sequence of
set / del / get / range / iterate / snapshot / restore, `Commit`, the batch written) with maintenance steps anywhere in
between: the database of the map model is the one of `DiffDB.commit` applied round by round (maintenance does not
exist there), and at the end - hence at every point - every read of the stored database returns what that map holds -/
theorem C12_durable_commit_history (devs : List DEv) : ∀ (p : Dur),
    (∀ k, readKey p.phys k = DiffDB.slookup p.view k) → (∀ k, Plain (p.phys k)) →
    (durRun false p devs).view = mapRun p.view devs ∧
    (∀ k, readKey (durRun false p devs).phys k = DiffDB.slookup (mapRun p.view devs) k) ∧
    ∀ k, Plain ((durRun false p devs).phys k) := by
  induction devs with
  | nil => intro p hr hp; exact ⟨rfl, hr, hp⟩
  | cons e es ih =>
    intro p hr hp
    cases e with
    | round ops =>
      have h1 := applyBatch_rep (roundBatch p.view ops) p.phys p.view hr hp
      have hv : DiffDB.applyBatch p.view (roundBatch p.view ops)
          = (DiffDB.commit (DiffDB.run { store := p.view } ops)).1.store := by
        have := (C12_commit_batch_is_commit (DiffDB.run { store := p.view } ops)).1
        rw [C12_store_untouched] at this
        exact this
      rw [hv] at h1
      have hs : durStep false p (.round ops) = ⟨applyBatchH false p.phys (roundBatch p.view ops),
          (DiffDB.commit (DiffDB.run { store := p.view } ops)).1.store⟩ := by
        simp only [durStep, hv]
      have h2 := ih ⟨applyBatchH false p.phys (roundBatch p.view ops),
          (DiffDB.commit (DiffDB.run { store := p.view } ops)).1.store⟩ h1.1 h1.2
      simp only [durRun, mapRun]
      rw [hs]
      exact h2
    | maint m =>
      have h1 := maint_plain m p.phys hp
      have h2 := ih (durStep false p (.maint m)) (fun k => (h1.1 k).trans (hr k)) h1.2
      simp only [durRun, mapRun]
      exact h2

/-- **the refinement theorem inside a history**: after any history of commits and maintenance, one more round and any
maintenance after its write: every key of the stored database reads its effective value in the staged store of that
round over the map-model database -/
theorem C12_durable_commit_exact_after_history (p : Dur) (hr : ∀ k, readKey p.phys k = DiffDB.slookup p.view k)
    (hp : ∀ k, Plain (p.phys k)) (hnd : DiffDB.NoDupKeys p.view) (devs : List DEv) (ops : List DiffDB.Op)
    (ms : List Maint) (k : Bytes) :
    readKey (runMaint (durRun false p (devs ++ [.round ops])).phys ms) k
      = DiffDB.eff (DiffDB.run { store := mapRun p.view devs } ops) k := by
  have hd : ∀ (l : List DEv) (q : Dur) (e : DEv), durRun false q (l ++ [e]) = durStep false (durRun false q l) e := by
    intro l
    induction l with
    | nil => intro q e; rfl
    | cons x l ih => intro q e; exact ih (durStep false q x) e
  have h0 := C12_durable_commit_history devs p hr hp
  rw [hd]
  generalize durRun false p devs = q at h0 ⊢
  obtain ⟨hv, hrq, hpq⟩ := h0
  have hnd' := nodup_mapRun devs p.view hnd
  rw [← hv] at hnd' hrq ⊢
  have hinv := C12_cache_invariant { store := q.view } (C12_inv_init q.view hnd') ops
  have hst : (DiffDB.run { store := q.view } ops).store = q.view := C12_store_untouched _ ops
  have := C12_durable_commit_exact (DiffDB.run { store := q.view } ops) hinv q.phys (by rw [hst]; exact hrq) hpq [] ms k
  simpa [durStep, roundBatch, runMaint] using this

/-! ### (ii) with single-delete tombstones the lifted theorem is false -/

/-- three commits over an empty database: set K, update K, delete K - with `Del` issuing a SingleDelete. Right after
the third write every read is right (K is absent in the stored database as in the map model). After a memtable flush
that merges the three entries, or after a compaction, K is back with the value of the FIRST commit; with plain
deletes it stays absent. -/
theorem C12_durable_single_delete_counterexample :
    let k : Bytes := [7]
    let devs : List DEv := [.round [.set k [0xa1]], .round [.set k [0xa2]], .round [.del k]]
    let p : Dur := { phys := emptyStore, view := [] }
    readKey (durRun true p devs).phys k = none ∧ DiffDB.slookup (mapRun [] devs) k = none ∧
    readKey (durRun true p (devs ++ [.maint (.flush fun _ => 3)])).phys k = some [0xa1] ∧
    readKey (durRun true p (devs ++ [.maint (.compact fun _ => true)])).phys k = some [0xa1] ∧
    readKey (durRun false p (devs ++ [.maint (.flush fun _ => 3)])).phys k = none ∧
    readKey (durRun false p (devs ++ [.maint (.compact fun _ => true)])).phys k = none := by decide

/-- in general: a key written by two batches and single-deleted by a third reads absent until the entries are
merged - then the value of the first batch is back, whatever the store held before -/
theorem C12_durable_single_delete_resurrects (h : Store) (k a b : Bytes) :
    let h3 := applyBatchH true (applyBatchH true (applyBatchH true h [.set k a]) [.set k b]) [.del k]
    readKey h3 k = none ∧
    readKey ((Maint.flush fun _ => 3).apply h3) k = some a ∧
    readKey ((Maint.compact fun _ => true).apply h3) k = some a := by
  simp [applyBatchH, applyOpH, readKey, singleDeleteKey, putKey, Maint.apply, mergeTop, compact, compactAux, visible]

/-- the same three batches with plain deletes, for comparison (instance of `C12_durable_history_refines`) -/
theorem C12_durable_plain_delete_stays_deleted (h : Store) (hp : ∀ k, Plain (h k)) (k a b : Bytes) (ms : List Maint) :
    readKey (runMaint (applyBatchH false (applyBatchH false (applyBatchH false h [.set k a]) [.set k b]) [.del k]) ms) k
      = none := by
  have h1 : AllPlain (applyBatchH false (applyBatchH false (applyBatchH false h [.set k a]) [.set k b]) [.del k]) := by
    intro k' e he
    simp only [applyBatchH, List.foldl, applyOpH, Bool.false_eq_true, if_false, deleteKey, putKey] at he
    by_cases hk : k' = k
    · simp only [hk, if_true] at he
      rcases List.mem_cons.mp he with rfl | he
      · intro c; cases c
      rcases List.mem_cons.mp he with rfl | he
      · intro c; cases c
      rcases List.mem_cons.mp he with rfl | he
      · intro c; cases c
      exact hp k e he
    · simp only [hk, if_false] at he
      exact hp k' e he
  rw [(runMaint_plain ms _ h1).1 k]
  simp [applyBatchH, applyOpH, readKey, deleteKey, visible]

/-! ### (iii) tie to the source: regenerated facts of pkg/db and pkg/db/diffdb -/

namespace C12.Durable
open LiskVerif.Crash

/-- all leaves of a skeleton; a call that was not inlined counts as not understood -/
def acts : Stmt → List Act
  | .act a => [a]
  | .seq s t => acts s ++ acts t
  | .choice s t => acts s ++ acts t
  | .loop s => acts s
  | .scope s => acts s
  | .call f _ => [.unknown ("call " ++ f)]
  | .tryCall c a b => acts c ++ acts a ++ acts b
  | _ => []

/-- the function does nothing to a database but `Set` / `Del` on the writer `b` -/
def onlyStages (b : String) (s : Stmt) : Bool :=
  (acts s).all fun a => a == .batchSet b || a == .batchDel b

instance : BEq Act := ⟨fun a b => decide (a = b)⟩

end C12.Durable

/-- `db.Batch.Del` issues a plain (history-erasing) `pebble.Batch.Delete`, `db.Batch.Set` a `Set`; `db.DB.Del` /
`db.DB.Set` the synced `Delete` / `Set` of the pebble handle - in both regenerated copies of the facts
(pkg/db/batch.go, pkg/db/db.go) -/
theorem C12_durable_del_is_plain_delete :
    Gen.WS.batchMethods.lookup "Del" = some ["Delete"] ∧ Gen.WS.batchMethods.lookup "Set" = some ["Set"] ∧
    Gen.WS.dbWriteMethods.lookup "Del" = some "Delete:pebble.Sync" ∧
    Gen.WS.dbWriteMethods.lookup "Set" = some "Set:pebble.Sync" ∧
    Gen.WSFW.batchMethods = Gen.WS.batchMethods ∧ Gen.WSFW.dbWriteMethods = Gen.WS.dbWriteMethods := by decide

/-- every pebble call a method of `db.Batch` issues appends a history-erasing entry (`Set` / `Delete`; no
`SingleDelete`, `DeleteRange`, `Merge`), the batch type has no other methods, and the mutating methods of `db.DB`
are exactly `Del`, `DropAll`, `Set`, `Write`, none of them a `SingleDelete` / `Merge` -/
theorem C12_durable_write_calls_erase_history :
    Gen.WS.batchMethods.all (fun m => m.2.all plainCall) = true ∧
    Gen.WS.batchMethods.map (·.1) = ["Del", "Set"] ∧
    Gen.WS.dbWriteMethods.map (·.1) = ["Del", "DropAll", "Set", "Write"] ∧
    Gen.WS.dbWriteMethods.all (fun m => m.2 ∈ ["Delete:pebble.Sync", "Set:pebble.Sync", "Apply:pebble.Sync",
      "DeleteRange:pebble.NoSync"]) = true := by decide

/-- `Database.Commit` (with `cacheDB.commit` inlined) and `Database.RevertDiff` do nothing to a database but `Set` /
`Del` calls on the writer they are handed - in the skeletons regenerated for the engine (C13) and for the application
side (C16) -/
theorem C12_durable_commit_only_stages :
    onlyStages "batch" (Crash.inlineN Gen.WSFW.fns 2 Gen.WSFW.diffdb_Database_Commit) = true ∧
    onlyStages "batch" (Crash.inlineN Gen.WSFW.fns 2 Gen.WSFW.diffdb_Database_RevertDiff) = true ∧
    onlyStages "writer" Gen.WSFW.diffdb_cacheDB_commit = true ∧
    onlyStages "batch" (Crash.inlineN Gen.WS.fns 2 Gen.WS.Database_Commit) = true ∧
    onlyStages "batch" (Crash.inlineN Gen.WS.fns 2 Gen.WS.Database_RevertDiff) = true ∧
    (acts (Crash.inlineN Gen.WSFW.fns 2 Gen.WSFW.diffdb_Database_Commit)).contains (.batchDel "batch") = true ∧
    (acts (Crash.inlineN Gen.WSFW.fns 2 Gen.WSFW.diffdb_Database_RevertDiff)).contains (.batchDel "batch") = true := by
  decide

/-- a batch reaches the database only through `DB.Write`, which is `pebble.Apply(batch, pebble.Sync)`: the batch of
`Commit` / `RevertDiff` is applied synced (the methods of `db.Batch` only stage, see above) -/
theorem C12_durable_batch_applied_with_sync :
    Gen.WS.dbWriteMethods = [("Del", "Delete:pebble.Sync"), ("DropAll", "DeleteRange:pebble.NoSync"),
      ("Set", "Set:pebble.Sync"), ("Write", "Apply:pebble.Sync")] ∧
    Gen.WS.dbWriteMethods.lookup "Write" = some "Apply:pebble.Sync" := by decide

/-- the entries these calls append (`Model/KeyHistory.entryOfCall`): what `applyOpH false` models is what the code issues -/
theorem C12_durable_entries_of_code (v : Bytes) :
    (Gen.WS.batchMethods.lookup "Del").map (fun cs => cs.map (entryOfCall · v)) = some [some .del] ∧
    (Gen.WS.batchMethods.lookup "Set").map (fun cs => cs.map (entryOfCall · v)) = some [some (.set v)] := by
  refine ⟨?_, ?_⟩ <;> rfl

/-! ### non-vacuity -/

/-- a history with updates, a delete, a re-creation and maintenance at several points, evaluated: the stored database
reads like the map at the end, and the reads are not trivial -/
example :
    let k : Bytes := [7]
    let devs : List DEv := [.round [.set k [1], .set [8] [9]], .maint (.flush fun _ => 1), .round [.set k [2]],
      .round [.del k], .maint (.compact fun x => x == k), .round [.set k [3]], .maint (.flush fun _ => 2)]
    let p : Dur := { phys := emptyStore, view := [] }
    readKey (durRun false p devs).phys k = some [3] ∧ DiffDB.slookup (mapRun [] devs) k = some [3] ∧
    readKey (durRun false p devs).phys [8] = some [9] ∧
    readKey (durRun false p (devs.take 5)).phys k = none := by decide

example : Gen.WS.batchMethods.lookup "Del" ≠ some ["SingleDelete"] := by decide
