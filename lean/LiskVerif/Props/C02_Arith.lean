/-
C02 — the integer arithmetic of pkg/consensus/liskbft at the extremes of `uint32` / `uint64`.

Every loop-free integer expression of the vote counting (validator.go: `insertBlockBFTInfo`,
`updatePrevotesPrecommits`, `updateMaxHeight*`, `getHeightNotPrevoted`, `bftParamsCache.cache`;
module.go: `Init`, `BeforeTransactionsExecute`; api.go: `ImpliesMaximalPrevotes`,
`NextHeightBFTParameters`, `SetBFTParameters`, `SetGeneratorKeys`) is REGENERATED from the Go source on
every run by tools/fngen (typed translation, `Gen/Fns2.lean`: `Gen.bft…`, unsigned operations reduced
modulo 2^32 / 2^64, `int` operations wrapped by `i64`). The theorems below state, for ALL inputs of
the Go type, that the regenerated expression is the expression `Model/BFT.lean` uses — or exactly under
which guard it is, with the value beyond the guard (the table in `Model/BFTU32.lean`).

In particular (`C02_arith_no_votes_*`): a header whose `maxHeightGenerated ≥ height` changes no prevote
and no precommit weight, for EVERY `uint32` value of `maxHeightGenerated` including 2^32-1 — and the
"tidier" test through the prevote range (`max(maxHeightGenerated+1, minActiveHeight) > height`) is NOT
equivalent: it is wrong exactly at `maxHeightGenerated = 2^32-1`, where `+1` wraps to 0
(`C02_arith_range_test_unsound_at_max`). If the guard `maxHeightGenerated >= height` disappears from
`updatePrevotesPrecommits`, tools/fngen fails (`bftHeaderImpliesNoVotes`) and this file is not rebuilt.
-/
import LiskVerif.Model.BFTU32
import LiskVerif.Lemmas.BFT
import LiskVerif.Gen.Fns2

open LiskVerif LiskVerif.BFT

/-! ### `updatePrevotesPrecommits` -/

/-- the regenerated guard of `updatePrevotesPrecommits` is the guard of `BFT.updateVotes`, for all values -/
theorem C02_arith_no_votes_guard_eq (mhg height : Nat) :
    Gen.bftHeaderImpliesNoVotes mhg height = decide (mhg ≥ height) := rfl

/-- **a header with `maxHeightGenerated ≥ height` casts no vote (model of `updatePrevotesPrecommits`)**:
when the regenerated guard holds for the newest entry of the window, the state is returned unchanged —
whatever the value of `maxHeightGenerated` (no arithmetic is done before the guard). -/
theorem C02_arith_no_votes_update (s : State) (n : BlockInfo) (rest : List BlockInfo) (hs : s.infos = n :: rest)
    (hg : Gen.bftHeaderImpliesNoVotes n.mhg n.height = true) : updateVotes s = .ok s := by
  have hg' : n.mhg ≥ n.height := by simpa [Gen.bftHeaderImpliesNoVotes] using hg
  unfold updateVotes
  rw [hs]
  simp only [hg', ↓reduceIte]

/-- **a header with `maxHeightGenerated ≥ height` changes no prevote and no precommit weight**, for every
value of `maxHeightGenerated` (in particular 2^32-1) and every state: after `process` the window is the
old window with the new entry (weights 0) in front, cut to `3·batchSize`, and no validator's vote
bookkeeping changed. -/
theorem C02_arith_no_votes_for_every_value (s s' : State) (h : Header) (hm : h.mhg ≥ h.height)
    (hp : process s h = .ok s') : s'.infos = insertInfo s h ∧ s'.active = s.active := by
  unfold process at hp
  simp only [] at hp
  split at hp
  · cases hp
  rename_i hne
  split at hp
  · cases hp
  have hu : updateVotes { s with infos := insertInfo s h } = .ok { s with infos := insertInfo s h } := by
    cases hi : insertInfo s h with
    | nil => simp [hi] at hne
    | cons n rest =>
      have hn : n = { height := h.height, gen := h.gen, mhg := h.mhg, mhp := h.mhp } := by
        unfold insertInfo at hi
        cases hk : 3 * s.batchSize with
        | zero => simp [hk] at hi
        | succ k =>
          rw [hk, List.take_succ_cons] at hi
          exact (List.cons.inj hi).1.symm
      have := C02_arith_no_votes_update { s with infos := n :: rest } n rest rfl
        (by subst hn; simpa [Gen.bftHeaderImpliesNoVotes] using hm)
      simpa [hi] using this
  rw [hu] at hp
  simp only [] at hp
  split at hp
  · cases hp
  split at hp
  · cases hp
  cases hp
  exact ⟨rfl, rfl⟩

/-- the same for what the driver runs (`processU32`) -/
theorem C02_arith_no_votes_for_every_value_u32 (s s' : State) (h : Header) (hm : h.mhg ≥ h.height)
    (hp : processU32 s h = .ok s') : s'.infos = insertInfo s h ∧ s'.active = s.active := by
  unfold processU32 at hp
  split at hp
  · cases hp
  split at hp
  · cases hp
  rename_i s1 hs1
  obtain ⟨h1, h2⟩ := C02_arith_no_votes_for_every_value s s1 h hm hs1
  split at hp <;> cases hp <;> exact ⟨h1, h2⟩

/-- non-vacuity: the header `maxHeightGenerated = 2^32-1` at height 8 after seven blocks of the same
validator — the input on which the range-based test casts prevotes for the whole window -/
example : (process
    { batchSize := 1, mhp := 7, mhpc := 0, mhc := 0,
      infos := [{ height := 7, gen := [0x10], mhg := 6, mhp := 6 }, { height := 6, gen := [0x10], mhg := 5, mhp := 5 }],
      active := [{ address := [0x10], minActiveHeight := 1, largestHeightPrecommit := 0 }],
      params := [(1, { prevoteThreshold := 2, precommitThreshold := 2, certificateThreshold := 2,
                       validators := [{ address := [0x10], weight := 2 }] })] }
    { height := 8, gen := [0x10], mhg := 4294967295, mhp := 6 }).toOption.map
      (fun s' => (s'.infos.map (·.height), s'.infos.map (·.prevoteWeight), s'.infos.map (·.precommitWeight))) =
    some ([8, 7, 6], [0, 0, 0], [0, 0, 0]) := by decide +kernel

/-- `minPrevoteHeight`: the regenerated expression is the model's, for all values -/
theorem C02_arith_min_prevote_eq (mhg minActive : Nat) :
    Gen.bftMinPrevoteHeight mhg minActive = max ((mhg + 1) % u32) minActive := rfl

/-- behind the guard (`maxHeightGenerated < height`, a `uint32`) the `+1` never wraps -/
theorem C02_arith_min_prevote_no_wrap_behind_guard (mhg height minActive : Nat) (hh : height < 2 ^ 32)
    (hg : Gen.bftHeaderImpliesNoVotes mhg height = false) :
    Gen.bftMinPrevoteHeight mhg minActive = max (mhg + 1) minActive := by
  have hg' : mhg < height := by simpa [Gen.bftHeaderImpliesNoVotes] using hg
  unfold Gen.bftMinPrevoteHeight
  rw [Nat.mod_eq_of_lt (by omega)]

/-- below 2^32-1 the test "the prevote range is empty" (`minPrevoteHeight > height`) is a sound
replacement of the guard: whenever it lets the header vote, the guard does too -/
theorem C02_arith_range_test_sound_below_max (mhg height minActive : Nat) (hm : mhg < 2 ^ 32 - 1)
    (hr : Gen.bftMinPrevoteHeight mhg minActive ≤ height) : Gen.bftHeaderImpliesNoVotes mhg height = false := by
  unfold Gen.bftMinPrevoteHeight at hr
  rw [Nat.mod_eq_of_lt (by omega)] at hr
  have : mhg + 1 ≤ height := Nat.le_trans (Nat.le_max_left _ _) hr
  simp [Gen.bftHeaderImpliesNoVotes]; omega

/-- **counterexample beyond the guard**: at `maxHeightGenerated = 2^32-1` the range test lets the header
vote (`maxHeightGenerated+1` wraps to 0, so `minPrevoteHeight = minActiveHeight ≤ height`) although the
header implies no votes — for every height and every validator active at that height; the prevote range
then starts at `minActiveHeight`: the whole window. -/
theorem C02_arith_range_test_unsound_at_max (height minActive : Nat) (hh : height < 2 ^ 32) (ha : minActive ≤ height) :
    Gen.bftMinPrevoteHeight (2 ^ 32 - 1) minActive = minActive ∧
    decide (Gen.bftMinPrevoteHeight (2 ^ 32 - 1) minActive > height) = false ∧
    Gen.bftHeaderImpliesNoVotes (2 ^ 32 - 1) height = true := by
  have h0 : Gen.bftMinPrevoteHeight (2 ^ 32 - 1) minActive = minActive := by
    unfold Gen.bftMinPrevoteHeight
    have : (2 ^ 32 - 1 + 1) % 4294967296 = 0 := by decide
    rw [this]; exact Nat.max_eq_right (Nat.zero_le _)
  refine ⟨h0, ?_, ?_⟩
  · rw [h0]; simp; omega
  · simp [Gen.bftHeaderImpliesNoVotes]; omega

/-- `minPrecomimtHeight`: the regenerated expression (three-argument `ints.Max`, both `+1` in `uint32`) is
the model's, for all values -/
theorem C02_arith_min_precommit_eq (minActive hnp lhp : Nat) :
    Gen.bftMinPrecommitHeight minActive hnp lhp = max minActive (max ((hnp + 1) % u32) ((lhp + 1) % u32)) := rfl

/-- the `break` conditions of the two vote loops and the quorum tests compare without arithmetic -/
theorem C02_arith_loop_conditions_eq (height minH w thr : Nat) :
    Gen.bftBelowMinPrecommit height minH = decide (height < minH) ∧
    Gen.bftBelowMinPrevote height minH = decide (height < minH) ∧
    Gen.bftHasPrevoteQuorum w thr = decide (w ≥ thr) ∧
    Gen.bftPrevotedQuorum w thr = decide (w ≥ thr) ∧
    Gen.bftPrecommittedQuorum w thr = decide (w ≥ thr) := ⟨rfl, rfl, rfl, rfl, rfl⟩

/-- `prevoteWeight += bftWeight`, `precommitWeight += bftWeight` (`uint64`): the model's `+` exactly when
the sum stays below 2^64 -/
theorem C02_arith_add_weight_eq (w b : Nat) :
    (Gen.bftAddPrevoteWeight w b = w + b ↔ w + b < 2 ^ 64) ∧
    (Gen.bftAddPrecommitWeight w b = w + b ↔ w + b < 2 ^ 64) := by
  unfold Gen.bftAddPrevoteWeight Gen.bftAddPrecommitWeight
  constructor <;> constructor <;> intro h <;> omega

/-! ### `getHeightNotPrevoted` -/

private theorem i64_small (x : Int) (h1 : -9223372036854775808 ≤ x) (h2 : x < 9223372036854775808) : Gen.i64 x = x := by
  unfold Gen.i64; omega

/-- loop condition `int(currentHeight)-int(heightPreviousBlock) < len(v.blockBFTInfos)`: the model's test
on the truncated difference when `heightPreviousBlock ≤ currentHeight` -/
theorem C02_arith_hnp_in_window_eq (cur prev len : Nat) (hc : cur < 2 ^ 32) (hle : prev ≤ cur) :
    Gen.bftHnpInWindow cur prev (Int.ofNat len) = decide (cur - prev < len) := by
  unfold Gen.bftHnpInWindow
  simp only [Int.ofNat_eq_natCast]
  have e : Gen.i64 ((cur : Int) - (prev : Int)) = (cur : Int) - (prev : Int) := i64_small _ (by omega) (by omega)
  simp only [e]
  apply decide_eq_decide.2
  constructor <;> intro h <;> omega

/-- index `int(currentHeight-heightPreviousBlock)` (subtraction in `uint32`) -/
theorem C02_arith_hnp_index_eq (cur prev : Nat) (hc : cur < 2 ^ 32) (hle : prev ≤ cur) :
    Gen.bftHnpIndex cur prev = Int.ofNat (cur - prev) := by
  unfold Gen.bftHnpIndex
  simp only [Int.ofNat_eq_natCast]
  congr 1
  omega

/-- beyond the guard (`heightPreviousBlock > currentHeight`, reachable only without the guard
`maxHeightGenerated >= height`): the signed difference is negative, so the loop condition holds for every
window, while the `uint32` difference wraps to `2^32 - (prev - cur)` — an index outside every window of
at most that length: the Go code panics -/
theorem C02_arith_hnp_wraps_beyond_guard (cur prev len : Nat) (hp : prev < 2 ^ 32) (hlt : cur < prev) :
    Gen.bftHnpInWindow cur prev (Int.ofNat len) = true ∧
    Gen.bftHnpIndex cur prev = Int.ofNat (2 ^ 32 - (prev - cur)) := by
  unfold Gen.bftHnpInWindow Gen.bftHnpIndex
  simp only [Int.ofNat_eq_natCast]
  have e : Gen.i64 ((cur : Int) - (prev : Int)) = (cur : Int) - (prev : Int) := i64_small _ (by omega) (by omega)
  simp only [e]
  refine ⟨by simp only [decide_eq_true_eq]; omega, ?_⟩
  congr 1
  omega

/-- the other pieces of `getHeightNotPrevoted`: the stop test and `oldest.height - 1` (wraps at 0, as in
the model) -/
theorem C02_arith_hnp_stop_fallback_eq (same : Bool) (mhg prev oldest : Nat) :
    Gen.bftHnpStops same mhg prev = (!same || decide (mhg ≥ prev)) ∧
    Gen.bftHnpFallback oldest = (oldest + u32 - 1) % u32 := ⟨rfl, rfl⟩

/-- **the loop of `getHeightNotPrevoted` run with the regenerated Go arithmetic (`hnpLoopGo`, `none` = panic)
is the model's loop** whenever `heightPreviousBlock < currentHeight` initially — which the guard
`maxHeightGenerated < height` provides and the loop preserves (it only continues with a smaller value) -/
theorem C02_arith_hnp_loop_eq (infos : List BlockInfo) (gen : Bytes) (cur : Nat) (hc : cur < 2 ^ 32)
    (hne : infos ≠ []) :
    ∀ (fuel prev : Nat), prev < cur →
      hnpLoopGo Gen.bftHnpInWindow Gen.bftHnpIndex Gen.bftHnpFallback infos gen cur fuel prev =
        some (hnpLoop infos gen cur fuel prev)
  | 0, prev, _ => rfl
  | fuel + 1, prev, hlt => by
    unfold hnpLoopGo hnpLoop
    rw [C02_arith_hnp_in_window_eq cur prev infos.length hc (Nat.le_of_lt hlt)]
    by_cases hw : cur - prev < infos.length
    · simp only [hw, decide_true, ↓reduceIte]
      rw [C02_arith_hnp_index_eq cur prev hc (Nat.le_of_lt hlt)]
      have hnn : ¬ (((cur - prev : Nat) : Int) < 0) := by omega
      simp only [hnn, ↓reduceIte, Int.toNat_natCast, Int.ofNat_eq_natCast]
      have hsome : infos[cur - prev]? = some infos[cur - prev] := List.getElem?_eq_getElem hw
      rw [hsome]
      dsimp only
      by_cases hstop : infos[cur - prev].gen ≠ gen ∨ infos[cur - prev].mhg ≥ prev
      · simp only [hstop, ↓reduceIte]
      · simp only [hstop, ↓reduceIte]
        have : infos[cur - prev].mhg < cur := by
          have : infos[cur - prev].mhg < prev := Nat.lt_of_not_le (fun hh => hstop (Or.inr hh))
          omega
        exact C02_arith_hnp_loop_eq infos gen cur hc hne fuel _ this
    · simp only [hw, decide_false, Bool.false_eq_true, ↓reduceIte]
      cases hl : infos.getLast? with
      | none => exact absurd (List.getLast?_eq_none_iff.1 hl) hne
      | some o => rfl

/-- `getHeightNotPrevoted` as a whole, behind the guard -/
theorem C02_arith_height_not_prevoted_eq (n : BlockInfo) (rest : List BlockInfo) (hh : n.height < 2 ^ 32)
    (hg : Gen.bftHeaderImpliesNoVotes n.mhg n.height = false) :
    hnpLoopGo Gen.bftHnpInWindow Gen.bftHnpIndex Gen.bftHnpFallback (n :: rest) n.gen n.height
        ((n :: rest).length + 1) n.mhg = some (heightNotPrevoted (n :: rest)) := by
  have hg' : n.mhg < n.height := by simpa [Gen.bftHeaderImpliesNoVotes] using hg
  exact C02_arith_hnp_loop_eq (n :: rest) n.gen n.height hh (by simp) _ _ hg'

/-- **beyond the guard the Go loop panics**: with `heightPreviousBlock > currentHeight` (a header claiming
more than its own height that got past the guard) and a window of at most `2^32 - (prev - cur)` entries the
index is out of range -/
theorem C02_arith_hnp_go_panics_beyond_guard (infos : List BlockInfo) (gen : Bytes) (cur prev fuel : Nat)
    (hp : prev < 2 ^ 32) (hlt : cur < prev) (hlen : infos.length + (prev - cur) ≤ 2 ^ 32) :
    hnpLoopGo Gen.bftHnpInWindow Gen.bftHnpIndex Gen.bftHnpFallback infos gen cur (fuel + 1) prev = none := by
  obtain ⟨h1, h2⟩ := C02_arith_hnp_wraps_beyond_guard cur prev infos.length hp hlt
  unfold hnpLoopGo
  rw [h1, h2]
  simp only [Int.ofNat_eq_natCast]
  have hnn : ¬ (((2 ^ 32 - (prev - cur) : Nat) : Int) < 0) := by omega
  simp only [↓reduceIte, hnn, Int.toNat_natCast]
  have : infos[2 ^ 32 - (prev - cur)]? = none := List.getElem?_eq_none (by omega)
  rw [this]

/-- hand transcription of the variant "window offset computed once as `int(currentHeight - heightPreviousBlock)`
and compared with the window length" -/
def C02offsetOnceInWindow (cur prev : Nat) (len : Int) : Bool :=
  decide (Int.ofNat ((cur + 4294967296 - prev) % 4294967296) < len)

/-- that variant is the original loop condition exactly when `heightPreviousBlock ≤ currentHeight`; beyond
(`prev > cur`) the original condition holds (and the access panics) whereas the variant is false for every
window of at most `2^32 - (prev - cur)` entries: the function silently returns `oldest.height - 1` -/
theorem C02_arith_hnp_offset_once_differs (cur prev len : Nat) (hc : cur < 2 ^ 32) (hp : prev < 2 ^ 32) :
    (prev ≤ cur → C02offsetOnceInWindow cur prev (Int.ofNat len) = Gen.bftHnpInWindow cur prev (Int.ofNat len)) ∧
    (cur < prev → len + (prev - cur) ≤ 2 ^ 32 →
      C02offsetOnceInWindow cur prev (Int.ofNat len) = false ∧ Gen.bftHnpInWindow cur prev (Int.ofNat len) = true) := by
  constructor
  · intro hle
    rw [C02_arith_hnp_in_window_eq cur prev len hc hle]
    unfold C02offsetOnceInWindow
    simp only [Int.ofNat_eq_natCast]
    apply decide_eq_decide.2
    constructor <;> intro h <;> omega
  · intro hlt hlen
    refine ⟨?_, (C02_arith_hnp_wraps_beyond_guard cur prev len hp hlt).1⟩
    unfold C02offsetOnceInWindow
    simp only [Int.ofNat_eq_natCast, decide_eq_false_iff_not]
    omega

/-! ### the parameter cache and pruning (`bftParamsCache.cache`, `BeforeTransactionsExecute`) -/

/-- **the loop `for height := from; height <= to; height++` cannot end by its condition when
`to = 2^32-1`**: the condition holds for every `uint32` and the counter wraps from 2^32-1 to 0. For
`to < 2^32-1` the counter reaches `to+1` without wrapping and the loop ends there. -/
theorem C02_arith_cache_loop_at_top :
    (∀ height, height < 2 ^ 32 → Gen.bftCacheLoopCond height (2 ^ 32 - 1) = true) ∧
    Gen.bftCacheLoopNext (2 ^ 32 - 1) = 0 ∧
    (∀ height to_, height ≤ to_ → to_ < 2 ^ 32 - 1 → Gen.bftCacheLoopNext height = height + 1) ∧
    (∀ to_, Gen.bftCacheLoopCond (to_ + 1) to_ = false) ∧
    (∀ from_, Gen.bftCacheHasLower from_ = decide (from_ > 0)) := by
  refine ⟨?_, by decide, ?_, ?_, fun _ => rfl⟩
  · intro height hh
    simp only [Gen.bftCacheLoopCond, decide_eq_true_eq]; omega
  · intro height to_ h1 h2
    simp only [Gen.bftCacheLoopNext]; omega
  · intro to_
    simp only [Gen.bftCacheLoopCond, decide_eq_false_iff_not]; omega

/-- the block at height 2^32-1 is always rejected by what the driver runs -/
theorem C02_arith_process_u32_top_rejected (s : State) (h : Header) (ht : h.height + 1 ≥ u32) :
    processU32 s h = .error .paramsNotFound := by
  unfold processU32; simp only [ht, ↓reduceIte]

/-- `ints.Min(oldest.height, maxHeightCertified+1)`: the model's `min oldest (mhc + 1)` below 2^32-1; at
`maxHeightCertified = 2^32-1` the sum wraps and the result is 0 -/
theorem C02_arith_min_params_required_eq (oldest mhc : Nat) :
    (mhc < 2 ^ 32 - 1 → Gen.bftMinHeightParamsRequired oldest mhc = min oldest (mhc + 1)) ∧
    Gen.bftMinHeightParamsRequired oldest (2 ^ 32 - 1) = 0 := by
  constructor
  · intro h
    unfold Gen.bftMinHeightParamsRequired
    rw [Nat.mod_eq_of_lt (by omega)]
  · unfold Gen.bftMinHeightParamsRequired
    have : (2 ^ 32 - 1 + 1) % 4294967296 = 0 := by decide
    rw [this]; exact Nat.min_eq_right (Nat.zero_le _)

/-- pruning at height 0 (`deleteBFTParams(0)` / `deleteGeneratorKeys(0)`) deletes nothing — what
`processU32` does when `maxHeightCertified+1` wrapped -/
theorem C02_arith_prune_zero {α : Type} (l : List (Nat × α)) : prune l 0 = l := by
  unfold prune
  split
  · rfl
  · rename_i keep hk
    have hk0 : keep.1 = 0 := Nat.le_zero.1 (lookupLE_some hk).1
    apply List.filter_eq_self.2
    intro e _
    simp only [hk0, decide_eq_true_eq]
    omega

/-- **`processU32` is `process` below the top of the range**: for every header below height 2^32-1 whose
resulting `maxHeightCertified` (the height of its aggregate commit, or the previous value) is below
2^32-1 -/
theorem C02_arith_process_u32_eq (s : State) (h : Header) (hh : h.height + 1 < u32)
    (hc : h.commitHeight.getD s.mhc + 1 < u32) : processU32 s h = process s h := by
  unfold processU32
  have h1 : ¬ (h.height + 1 ≥ u32) := by omega
  simp only [h1, ↓reduceIte]
  cases hp : process s h with
  | error e => rfl
  | ok s' =>
    have hm : s'.mhc = h.commitHeight.getD s.mhc := (process_facts hp).choose_spec.2.2.2.2.2.1
    have h2 : ¬ (s'.mhc + 1 ≥ u32) := by rw [hm]; omega
    simp only [h2, ↓reduceIte]

/-- … and at `maxHeightCertified = 2^32-1` it differs from `process` only in that nothing is pruned -/
theorem C02_arith_process_u32_certified_top (s s1 : State) (h : Header) (hh : h.height + 1 < u32)
    (hp : process s h = .ok s1) (hc : s1.mhc + 1 ≥ u32) :
    processU32 s h = .ok { s1 with params := prune s.params 0, keys := prune s.keys 0 } := by
  unfold processU32
  have h1 : ¬ (h.height + 1 ≥ u32) := by omega
  simp only [h1, ↓reduceIte, hp, hc, C02_arith_prune_zero]

/-! ### the API: `NextHeightBFTParameters`, `SetBFTParameters`, `SetGeneratorKeys`, `ImpliesMaximalPrevotes` -/

/-- `height + 1` in the range start of `NextHeightBFTParameters` wraps exactly at 2^32-1 -/
theorem C02_arith_next_params_start (h : Nat) (hh : h < 2 ^ 32) :
    (Gen.bftNextParamsStart h = h + 1 ↔ h < 2 ^ 32 - 1) ∧ Gen.bftNextParamsStart (2 ^ 32 - 1) = 0 := by
  unfold Gen.bftNextParamsStart
  refine ⟨⟨fun e => ?_, fun e => ?_⟩, by decide⟩ <;> omega

/-- smallest key `≥ start` of the parameter store (`Range(start, MaxUint32, 1, false)`) -/
def C02smallestKeyGE (s : State) (start : Nat) : Option Nat :=
  (s.params.map (·.1)).foldl (fun best k =>
    if k ≥ start then match best with
      | none => some k
      | some b => if k < b then some k else some b
    else best) none

/-- **`nextHeightParamsU32` is the range query with the regenerated start**, for every `uint32` height;
below 2^32-1 it is `nextHeightParams` -/
theorem C02_arith_next_height_params_eq (s : State) (h : Nat) (hh : h < 2 ^ 32) :
    nextHeightParamsU32 s h = C02smallestKeyGE s (Gen.bftNextParamsStart h) ∧
    (h + 1 < u32 → nextHeightParamsU32 s h = nextHeightParams s h) := by
  have hu : u32 = 4294967296 := rfl
  constructor
  · unfold nextHeightParamsU32 C02smallestKeyGE
    by_cases ht : h + 1 ≥ u32
    · have : h = 2 ^ 32 - 1 := by omega
      subst this
      simp only [ht, ↓reduceIte, (C02_arith_next_params_start _ (by omega)).2, firstParamsKey, Nat.zero_le]
      rfl
    · have e : Gen.bftNextParamsStart h = h + 1 := ((C02_arith_next_params_start h hh).1).2 (by omega)
      simp only [ht, ↓reduceIte, e, nextHeightParams]
      rfl
  · intro ht
    unfold nextHeightParamsU32
    have : ¬ (h + 1 ≥ u32) := by omega
    simp only [this, ↓reduceIte]

/-- `nextHeight := currentHeight + 1`, `minActiveHeight: nextHeight`, `largestHeightPrecommit: nextHeight - 1`
(SetBFTParameters) and the two `… + 1` of SetGeneratorKeys: the model's `Nat` expressions exactly when
`currentHeight < 2^32-1`; at 2^32-1 the next height wraps to 0 and `nextHeight - 1` to 2^32-1 -/
theorem C02_arith_next_height_eq (cur : Nat) (hc : cur < 2 ^ 32) :
    (Gen.bftSetParamsNextHeight cur = cur + 1 ↔ cur < 2 ^ 32 - 1) ∧
    (Gen.bftSetKeysNextHeight cur = cur + 1 ↔ cur < 2 ^ 32 - 1) ∧
    (Gen.bftSetKeysNextHeightEmpty cur = cur + 1 ↔ cur < 2 ^ 32 - 1) ∧
    (cur < 2 ^ 32 - 1 → Gen.bftNewValidatorLargestHeightPrecommit (Gen.bftSetParamsNextHeight cur) = cur + 1 - 1) ∧
    Gen.bftNewValidatorMinActiveHeight (Gen.bftSetParamsNextHeight cur) = Gen.bftSetParamsNextHeight cur ∧
    Gen.bftSetParamsNextHeight (2 ^ 32 - 1) = 0 ∧
    Gen.bftNewValidatorLargestHeightPrecommit 0 = 2 ^ 32 - 1 := by
  unfold Gen.bftSetParamsNextHeight Gen.bftSetKeysNextHeight Gen.bftSetKeysNextHeightEmpty
    Gen.bftNewValidatorLargestHeightPrecommit Gen.bftNewValidatorMinActiveHeight
  refine ⟨⟨fun e => ?_, fun e => ?_⟩, ⟨fun e => ?_, fun e => ?_⟩, ⟨fun e => ?_, fun e => ?_⟩, fun e => ?_, rfl, by decide, by decide⟩ <;> omega

/-- `ImpliesMaximalPrevotes`: the tests compare without arithmetic; the offset
`currentHeight - previousHeight - 1` (two `uint32` subtractions) is the model's truncated difference
whenever it is reached, i.e. `previousHeight < height = currentHeight` -/
theorem C02_arith_implies_eq (cur prev height offset len : Nat) (hc : cur < 2 ^ 32) :
    Gen.bftImpliesWrongHeight height cur = decide (height ≠ cur) ∧
    Gen.bftImpliesNoPrevotes prev height = decide (prev ≥ height) ∧
    Gen.bftImpliesInvalidHeights cur prev = decide (cur < prev) ∧
    (prev < cur → Gen.bftImpliesOffset cur prev = cur - prev - 1) ∧
    Gen.bftImpliesBeyondWindow offset (Int.ofNat len) = decide (offset ≥ len) := by
  refine ⟨rfl, rfl, rfl, ?_, ?_⟩
  · intro h
    unfold Gen.bftImpliesOffset
    omega
  · unfold Gen.bftImpliesBeyondWindow
    simp only [Int.ofNat_eq_natCast]
    apply decide_eq_decide.2
    constructor <;> intro h <;> omega

/-! ### the vote window (`Module.Init`, `insertBlockBFTInfo`) -/

/-- `maxLengthBlock = 3 * batchSize` and the length of the new window `ints.Min(len+1, maxLength)` (both `int`)
are the model's `take (3 * batchSize)` for every batch size and window below 2^61 -/
theorem C02_arith_window_eq (s : State) (h : Header) (hb : s.batchSize < 2 ^ 61) (hl : s.infos.length < 2 ^ 61) :
    Gen.bftMaxLengthBlock (Int.ofNat s.batchSize) = Int.ofNat (3 * s.batchSize) ∧
    Gen.bftWindowLen (Int.ofNat s.infos.length) (Gen.bftMaxLengthBlock (Int.ofNat s.batchSize)) =
      Int.ofNat (insertInfo s h).length := by
  have e1 : Gen.bftMaxLengthBlock (Int.ofNat s.batchSize) = Int.ofNat (3 * s.batchSize) := by
    unfold Gen.bftMaxLengthBlock
    simp only [Int.ofNat_eq_natCast]
    rw [i64_small _ (by omega) (by omega)]
    omega
  refine ⟨e1, ?_⟩
  rw [e1]
  unfold Gen.bftWindowLen insertInfo
  simp only [Int.ofNat_eq_natCast, List.length_take, List.length_cons]
  rw [i64_small _ (by omega) (by omega)]
  omega

/-- the `break` test `i+1 == maxLength` of the copy loop -/
theorem C02_arith_window_full_eq (i maxLength : Nat) (hi : i < 2 ^ 61) :
    Gen.bftWindowFull (Int.ofNat i) (Int.ofNat maxLength) = decide (i + 1 = maxLength) := by
  unfold Gen.bftWindowFull
  simp only [Int.ofNat_eq_natCast]
  have e : Gen.i64 ((i : Int) + 1) = (i : Int) + 1 := i64_small _ (by omega) (by omega)
  simp only [e]
  apply decide_eq_decide.2
  constructor <;> intro h <;> omega

/-! ### the guard `currentHeight < 2^32-1` holds in every reachable state

`BelowTop s`: every height of the window and `maxHeightPrevoted` are at most 2^32-2. It holds after
`InitGenesisState` with a genesis height `≤ 2^32-2`, and every operation the driver runs preserves it —
`processU32` rejects the block at 2^32-1. Hence `currentHeight + 1` (SetBFTParameters, SetGeneratorKeys)
never wraps and the `Nat` arithmetic of `BFT.setParams` / `BFT.setKeys` is exact. -/

def C02BelowTop (s : State) : Prop := (∀ b ∈ s.infos, b.height + 1 < u32) ∧ s.mhp + 1 < u32

theorem C02_arith_below_top_genesis (batchSize g : Nat) (hg : g + 1 < u32) : C02BelowTop (initGenesis batchSize g) := by
  refine ⟨?_, hg⟩
  intro b hb
  simp [initGenesis] at hb

theorem C02_arith_below_top_set_params (s s' : State) (pc ct : Nat) (vs : List Validator)
    (hs : C02BelowTop s) (h : setParams s pc ct vs = .ok s') : C02BelowTop s' := by
  obtain ⟨hi, _, hm, _⟩ := setParams_facts h
  unfold C02BelowTop
  rw [hi, hm]
  exact hs

theorem C02_arith_below_top_set_keys (s : State) (gens : List Bytes) (hs : C02BelowTop s) :
    C02BelowTop (setKeys s gens) := hs

theorem C02_arith_below_top_process (s s' : State) (h : Header) (hs : C02BelowTop s)
    (hp : processU32 s h = .ok s') : C02BelowTop s' := by
  unfold processU32 at hp
  split at hp
  · cases hp
  rename_i hh
  split at hp
  · cases hp
  rename_i s1 hs1
  have key : C02BelowTop s1 := by
    obtain ⟨k, _, hrel, _, ⟨p, hpf, hmhp⟩, _⟩ := process_facts hs1
    have hwin : ∀ b ∈ s1.infos, b.height + 1 < u32 := by
      intro b hb
      obtain ⟨a, ha, hr⟩ := All2.mem_right hrel b hb
      have hab : a.height = b.height := hr.1.1.1
      rw [← hab]
      rcases List.mem_cons.1 ha with rfl | ha
      · simp only [newInfo]; omega
      · exact hs.1 a (List.mem_of_mem_take ha)
    refine ⟨hwin, ?_⟩
    rw [hmhp]
    cases p with
    | none => exact hs.2
    | some q =>
      -- `firstWith` returns the height of an entry of the window
      have : ∃ b ∈ s1.infos, b.height = q := by
        clear hmhp
        generalize s1.infos = l at hpf
        induction l with
        | nil => simp [firstWith] at hpf
        | cons b l ih =>
          simp only [firstWith] at hpf
          split at hpf
          · cases hpf
          · split at hpf
            · cases hpf; exact ⟨b, List.mem_cons_self, rfl⟩
            · obtain ⟨x, hx, hq⟩ := ih hpf
              exact ⟨x, List.mem_cons_of_mem _ hx, hq⟩
      obtain ⟨b, hb, hq⟩ := this
      simp only [Option.getD_some]
      rw [← hq]
      exact hwin b hb
  split at hp <;> cases hp <;> exact key

/-- **in every state satisfying the invariant the next height of SetBFTParameters / SetGeneratorKeys is the
model's `currentHeight + 1`** (no wrap), and a new validator's `largestHeightPrecommit` is the model's `next - 1` -/
theorem C02_arith_next_height_exact_when_reachable (s : State) (hs : C02BelowTop s) :
    Gen.bftSetParamsNextHeight (curHeight s) = curHeight s + 1 ∧
    Gen.bftNewValidatorLargestHeightPrecommit (Gen.bftSetParamsNextHeight (curHeight s)) = curHeight s + 1 - 1 ∧
    Gen.bftSetKeysNextHeight (curHeight s) = curHeight s + 1 ∧
    Gen.bftSetKeysNextHeightEmpty s.mhp = s.mhp + 1 := by
  have hu : u32 = 4294967296 := rfl
  have hc : curHeight s + 1 < u32 := by
    unfold curHeight
    split
    · exact hs.2
    · rename_i n rest h0
      exact hs.1 n (by rw [h0]; exact List.mem_cons_self)
  have hm := hs.2
  unfold Gen.bftSetParamsNextHeight Gen.bftSetKeysNextHeight Gen.bftSetKeysNextHeightEmpty
    Gen.bftNewValidatorLargestHeightPrecommit
  refine ⟨?_, ?_, ?_, ?_⟩ <;> omega
