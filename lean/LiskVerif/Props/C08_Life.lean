/-
C08 — identity of objects that do NOT come from bytes (Model/CodecLife.lean).

A `Transaction` / `BlockHeader` carries a cached ID (and size) next to its fields. Objects arrive
through `json.Unmarshal` (the RPC endpoints postTransaction / postBlock: the `id` member is a JSON
field, so the client can supply any value), are copied (`Copy` copies the cache), changed (fee,
nonce, a signature appended) and signed. The property "the ID is the hash of exactly the encoded
bytes; IDs are unchanged by store/load and by re-encoding" needs, for those objects:

* `C08_init_id_is_hash_of_encoding` — after `Init`, ID = H(Encode) and size = |Encode|, for EVERY
  previous state of the cache (a client-supplied id, a stale id after a change, a copied id);
* `C08_life_init_last` / `C08_life_sign_last` — hence after any history of steps that ends with
  `Init` (or `Sign`);
* `C08_json_id_ignored` — the `id` member of a posted JSON object has no influence;
* `C08_init_idempotent`, `C08_init_depends_on_encoding_only` — `Init` twice = once; two objects with
  the same encoding get the same ID (so the ID survives encode → decode → `Init`);
* `C08_blockInit_all_ids` — `Block.Init` makes the header's and every transaction's cache right;
* `C08_initCached_keeps_supplied_id`, `C08_initCached_stale_after_change` — the variant of `Init`
  that returns early when an ID is present violates both clauses (counterexamples for every hash
  function that separates the two encodings).
-/
import LiskVerif.Model.CodecLife
import LiskVerif.Gen.Schemas
import LiskVerif.Props.C08_Msg

open LiskVerif LiskVerif.Codec LiskVerif.Gen LiskVerif.Validators LiskVerif.CodecLife

private theorem C08L_enc_init (t : Table) (nfc : NFC) (H : Bytes → Bytes) (o : Obj) :
    encoding t nfc (init t nfc H o) = encoding t nfc o := rfl

/-- **`Init` makes the cache right, whatever it held before.** -/
theorem C08_init_id_is_hash_of_encoding (t : Table) (nfc : NFC) (H : Bytes → Bytes) (o : Obj) :
    IdOk t nfc H (init t nfc H o) ∧ SizeOk t nfc (init t nfc H o) :=
  ⟨rfl, rfl⟩

/-- `Init` does not change the fields -/
theorem C08_init_keeps_fields (t : Table) (nfc : NFC) (H : Bytes → Bytes) (o : Obj) :
    (init t nfc H o).vals = o.vals ∧ (init t nfc H o).schema = o.schema := ⟨rfl, rfl⟩

private theorem C08L_run_append (t : Table) (nfc : NFC) (H : Bytes → Bytes) (steps : List Step) (s : Step) :
    ∀ o, run t nfc H o (steps ++ [s]) = step t nfc H (run t nfc H o steps) s := by
  induction steps with
  | nil => intro o; rfl
  | cons a rest ih => intro o; simp only [List.cons_append, run]; exact ih _

/-- **Any history that ends with `Init`**: build / unmarshal, assign fields, copy, sign, `Init` in
any order and number — after the final `Init` the ID is the hash of the encoding and the size its
length. -/
theorem C08_life_init_last (t : Table) (nfc : NFC) (H : Bytes → Bytes) (o : Obj) (steps : List Step) :
    IdOk t nfc H (run t nfc H o (steps ++ [.init])) ∧ SizeOk t nfc (run t nfc H o (steps ++ [.init])) := by
  rw [C08L_run_append]
  exact C08_init_id_is_hash_of_encoding t nfc H _

/-- … and any history that ends with `Sign` (block headers): the ID covers the new signature. -/
theorem C08_life_sign_last (t : Table) (nfc : NFC) (H : Bytes → Bytes) (o : Obj) (steps : List Step)
    (i : Nat) (sig : Bytes) :
    IdOk t nfc H (run t nfc H o (steps ++ [.sign i sig])) := by
  rw [C08L_run_append]
  rfl

/-- `Copy` and field assignment never touch the cache (so a copy of a consistent object is
consistent, and a changed object is stale until the next `Init`). -/
theorem C08_copy_set_keep_cache (t : Table) (nfc : NFC) (H : Bytes → Bytes) (o : Obj) (i : Nat) (v : Value) :
    step t nfc H o .copy = o ∧
    (step t nfc H o (.set i v)).id = o.id ∧ (step t nfc H o (.set i v)).size = o.size :=
  ⟨rfl, rfl, rfl⟩

/-- **The `id` member of a posted JSON object is ignored**: whatever the client supplies, after
`Init` the object is the same as if nothing had been supplied. -/
theorem C08_json_id_ignored (t : Table) (nfc : NFC) (H : Bytes → Bytes) (schema : String)
    (vals : List Value) (supplied : Bytes) :
    init t nfc H (load schema vals supplied) = init t nfc H (load schema vals []) ∧
    (init t nfc H (load schema vals supplied)).id = H (encodeNamed t nfc schema vals) ∧
    (init t nfc H (load schema vals supplied)).size = (encodeNamed t nfc schema vals).length :=
  ⟨rfl, rfl, rfl⟩

/-- `Init` twice is `Init` once -/
theorem C08_init_idempotent (t : Table) (nfc : NFC) (H : Bytes → Bytes) (o : Obj) :
    init t nfc H (init t nfc H o) = init t nfc H o := rfl

/-- the ID assigned by `Init` depends on the encoding only: re-encoding, storing and loading an
object (any way of obtaining an object with the same encoding) gives the same ID and size -/
theorem C08_init_depends_on_encoding_only (t : Table) (nfc : NFC) (H : Bytes → Bytes) (o₁ o₂ : Obj)
    (h : encoding t nfc o₁ = encoding t nfc o₂) :
    (init t nfc H o₁).id = (init t nfc H o₂).id ∧ (init t nfc H o₁).size = (init t nfc H o₂).size := by
  simp only [init, h, and_self]

/-- **`Block.Init`**: the header and every transaction of the block end up with the right cache. -/
theorem C08_blockInit_all_ids (t : Table) (nfc : NFC) (H : Bytes → Bytes) (hdr : Obj) (txs : List Obj) :
    IdOk t nfc H (blockInit t nfc H hdr txs).1 ∧
    ∀ tx ∈ (blockInit t nfc H hdr txs).2, IdOk t nfc H tx ∧ SizeOk t nfc tx := by
  refine ⟨rfl, ?_⟩
  intro tx htx
  simp only [blockInit, List.mem_map] at htx
  obtain ⟨o, _, rfl⟩ := htx
  exact C08_init_id_is_hash_of_encoding t nfc H o

/-! ### the early-return variant is wrong -/

/-- **Refutation 1** (`Init` returns when an ID is present): a non-empty client-supplied `id` that
is not the hash of the encoding survives, and the size stays 0. -/
theorem C08_initCached_keeps_supplied_id (t : Table) (nfc : NFC) (H : Bytes → Bytes) (schema : String)
    (vals : List Value) (supplied : Bytes) (hne : supplied ≠ [])
    (hwrong : supplied ≠ H (encodeNamed t nfc schema vals)) :
    (initCached t nfc H (load schema vals supplied)).id = supplied ∧
    (initCached t nfc H (load schema vals supplied)).size = 0 ∧
    ¬ IdOk t nfc H (initCached t nfc H (load schema vals supplied)) := by
  have he : (load schema vals supplied).id.isEmpty = false := by
    cases supplied with
    | nil => exact absurd rfl hne
    | cons a r => rfl
  have hi : initCached t nfc H (load schema vals supplied) = load schema vals supplied := by
    unfold initCached; rw [he]; rfl
  rw [hi]
  exact ⟨rfl, rfl, hwrong⟩

/-- **Refutation 2**: `Init`, change a field, `Init` again — with the early return the object keeps
the ID of the OLD encoding whenever the hash separates the two encodings (and the old ID is
non-empty, as every real hash value is). -/
theorem C08_initCached_stale_after_change (t : Table) (nfc : NFC) (H : Bytes → Bytes) (o : Obj)
    (i : Nat) (v : Value)
    (hne : H (encoding t nfc o) ≠ [])
    (hsep : H (encoding t nfc o) ≠ H (encoding t nfc (step t nfc H o (.set i v)))) :
    ¬ IdOk t nfc H (initCached t nfc H (step t nfc H (init t nfc H o) (.set i v))) := by
  have he : (step t nfc H (init t nfc H o) (.set i v)).id.isEmpty = false := by
    show (H (encoding t nfc o)).isEmpty = false
    cases hh : H (encoding t nfc o) with
    | nil => exact absurd hh hne
    | cons a r => rfl
  have hi : initCached t nfc H (step t nfc H (init t nfc H o) (.set i v)) =
      step t nfc H (init t nfc H o) (.set i v) := by
    unfold initCached; rw [he]; rfl
  rw [hi]
  exact hsep

/-! ### non-vacuity on the regenerated transaction schema -/

/-- module "a", command "b", nonce 0, fee `fee`, no key, no params, no signature -/
def C08LexampleTx (fee : Nat) : List Value :=
  [.bytes [0x61], .bytes [0x62], .uint 0, .uint fee, .bytes [], .bytes [], .bytesArr []]

/-- its encoding by the regenerated transaction schema (fee below 128: one byte) -/
theorem C08_life_example_encoding (fee : Nat) (hfee : fee < 128) :
    encodeNamed allSchemas asciiNFC "blockchain.Transaction" (C08LexampleTx fee) =
      [0x0a, 1, 0x61, 0x12, 1, 0x62, 0x18, 0, 0x20, UInt8.ofNat fee, 0x2a, 0, 0x32, 0] := by
  have h := C08_transaction_schema
  cases hf : allSchemas.find "blockchain.Transaction" with
  | none => rw [hf] at h; simp at h
  | some stx =>
    rw [hf] at h
    simp only [Option.map_some, Option.some.injEq, Prod.mk.injEq] at h
    simp [encodeNamed, hf, encode, h.1, C08txFields, C08LexampleTx, encodeFields, writeKey,
      writeBytes, putUvarint_lt, hfee, asciiNFC]

/-- with the identity as "hash": a posted transaction with fee 1 and a client-supplied id `dead`
gets, by `Init`, the 14 encoded bytes as ID and size 14; after copying it, raising the fee to 2 and
`Init` again, the ID is the new encoding -/
example :
    let o := init allSchemas asciiNFC id (load "blockchain.Transaction" (C08LexampleTx 1) [0xde, 0xad])
    let o' := run allSchemas asciiNFC id o [.copy, .set 3 (.uint 2), .init]
    o.id = [0x0a, 1, 0x61, 0x12, 1, 0x62, 0x18, 0, 0x20, 1, 0x2a, 0, 0x32, 0] ∧ o.size = 14 ∧
    o'.id = [0x0a, 1, 0x61, 0x12, 1, 0x62, 0x18, 0, 0x20, 2, 0x2a, 0, 0x32, 0] ∧ o'.size = 14 := by
  have e1 := C08_life_example_encoding 1 (by decide)
  have e2 := C08_life_example_encoding 2 (by decide)
  have hset : (C08LexampleTx 1).set 3 (.uint 2) = C08LexampleTx 2 := rfl
  simp only [run, step, init, load, encoding, hset, e1, e2, id]
  exact ⟨rfl, rfl, rfl, rfl⟩

/-- the hypotheses of refutation 1 hold for this transaction and the identity "hash" -/
example :
    ¬ IdOk allSchemas asciiNFC id
      (initCached allSchemas asciiNFC id (load "blockchain.Transaction" (C08LexampleTx 1) [0xde, 0xad])) :=
  (C08_initCached_keeps_supplied_id allSchemas asciiNFC id "blockchain.Transaction" (C08LexampleTx 1) [0xde, 0xad]
    (by decide) (by rw [C08_life_example_encoding 1 (by decide)]; decide)).2.2

/-- … and those of refutation 2 -/
example :
    ¬ IdOk allSchemas asciiNFC id (initCached allSchemas asciiNFC id
      (step allSchemas asciiNFC id
        (init allSchemas asciiNFC id (load "blockchain.Transaction" (C08LexampleTx 1) []))
        (.set 3 (.uint 2)))) := by
  have e1 := C08_life_example_encoding 1 (by decide)
  have e2 := C08_life_example_encoding 2 (by decide)
  have hset : (C08LexampleTx 1).set 3 (.uint 2) = C08LexampleTx 2 := rfl
  apply C08_initCached_stale_after_change
  · simp only [encoding, load, e1, id]; decide
  · simp only [encoding, load, step, hset, e1, e2, id]; decide
