/-
C03 — the derived commitments of a block (`LiskVerif.Roots`, Model/Roots.lean; tied to the real
`CalculateEventRoot`, `Event.KeyPairs`, `ComputeValidatorsHash`, `Block.Validate`, `Init`, `SigningBytes`,
`Certificate.SigningBytes` byte for byte by the pseudo-property ROOTS, harness/roots).

(a) event keys      `C03_roots_event_keys_distinct` (index < 2^30, topic position < 4 — what `Validate` and
                    `MaxEventsPerBlock` give), and beyond the bounds `C03_roots_event_key_index_wraps`,
                    `C03_roots_event_key_fifth_topic_collides`, `C03_roots_event_root_blind_beyond_bounds`,
                    `C03_roots_event_without_topics_uncommitted`
(b) event root      `C03_roots_event_root_determines_map` (any event lists: equal roots ⟹ equal tries, from the
                    new `Roots.mapRoot_determines` + `C10_finalMap_wellformed`), `C03_roots_event_map_in_bounds`,
                    `C03_roots_event_root_commits` (in-bounds lists: equal roots ⟹ the same events; with
                    `C08_encode_injective_nested`), `C03_roots_event_root_commits_list` (index = position ⟹ the
                    same list), `C03_roots_event_change_changes_map`
(c) validators hash `C03_roots_vhash_perm_invariant`(`_distinct_keys`), `C03_roots_vhash_duplicate_key_order_dependent`,
                    `C03_roots_vhash_fixed_perm_invariant`, `C03_roots_vhash_injective`
(d) block           `C03_roots_tx_root_is_batch_root`, `C03_roots_asset_root_is_batch_root`, `C03_roots_ids`,
                    `C03_roots_signing_bytes`, `C03_roots_signed_messages`, `C03_roots_block_validate_iff`,
                    `C03_roots_certificate_commits`
Hash function: a parameter; collision freeness is assumed only on the finitely many inputs actually hashed.
-/
import LiskVerif.Lemmas.Roots
import LiskVerif.Props.C08_Nested
import LiskVerif.Props.C10
import LiskVerif.Props.C11
import LiskVerif.Props.C03_More
import LiskVerif.Model.CodecEntry

open LiskVerif LiskVerif.Codec LiskVerif.Gen LiskVerif.SMT LiskVerif.Roots

/-! ## (a) event keys -/

/-- **Inside the bounds the keys of distinct (event index, topic position) pairs are distinct** — whatever the
topics and the hash function (outputs of one length). The bounds are those of the engine: `Events.UpdateIndex`
numbers at most `MaxEventsPerBlock = 2^30` events from 0, `Event.Validate` allows at most 4 topics. -/
theorem C03_roots_event_keys_distinct (H : Bytes → Bytes) (n : Nat) (hlen : ∀ x, (H x).length = n)
    (i₁ i₂ t₁ t₂ : Nat) (tp₁ tp₂ : Bytes)
    (hi₁ : i₁ < maxEventsPerBlock) (hi₂ : i₂ < maxEventsPerBlock)
    (ht₁ : t₁ < eventMaxTopicsPerEvent) (ht₂ : t₂ < eventMaxTopicsPerEvent)
    (h : eventKey H i₁ tp₁ t₁ = eventKey H i₂ tp₂ t₂) : i₁ = i₂ ∧ t₁ = t₂ := by
  unfold eventKey at h
  have hl : ((H tp₁).take eventTopicHashLengthBytes).length = ((H tp₂).take eventTopicHashLengthBytes).length := by
    simp [List.length_take, hlen]
  have hb := be32_inj (keyIndex_lt _ _) (keyIndex_lt _ _) (List.append_inj h hl).2
  unfold maxEventsPerBlock at hi₁ hi₂
  unfold eventMaxTopicsPerEvent at ht₁ ht₂
  rw [keyIndex_in_bounds hi₁ ht₁, keyIndex_in_bounds hi₂ ht₂] at hb
  omega

example : eventKey (fun x => x) 5 [1, 2] 3 ≠ eventKey (fun x => x) 5 [1, 2] 2 := by decide

/-- **Beyond the bound on the index the shift wraps**: `Index << 2` is `uint32` arithmetic, so index `2^30`
gets the keys of index 0 (for the same topic). -/
theorem C03_roots_event_key_index_wraps (H : Bytes → Bytes) (tp : Bytes) (t : Nat) :
    eventKey H 1073741824 tp t = eventKey H 0 tp t := by
  simp [eventKey, keyIndex]

/-- **Beyond the bound on the topics the position runs into the next event**: the fifth topic of event `i` has
the key of the first topic of event `i + 1`. -/
theorem C03_roots_event_key_fifth_topic_collides (H : Bytes → Bytes) (tp : Bytes) (i : Nat) :
    eventKey H i tp 4 = eventKey H (i + 1) tp 0 := by
  simp only [eventKey, keyIndex]
  congr 3
  omega

/-- … and the root does not see the event that lost its key: with an event of index `2^30` next to the event of
index 0 on the same topic, the data of the later one can be changed freely without changing the event root
(`trie.Update` keeps the first occurrence of a key). Not reachable through `Events.UpdateIndex` with at most
`2^30` events; `CalculateEventRoot` itself checks nothing. -/
theorem C03_roots_event_root_blind_beyond_bounds (t : Table) (nfc : NFC) (H : Bytes → Bytes) (tp d d' : Bytes) :
    eventRoot t nfc H [⟨[], [], [], [tp], 0, 0⟩, ⟨[], [], d, [tp], 0, 1073741824⟩] =
    eventRoot t nfc H [⟨[], [], [], [tp], 0, 0⟩, ⟨[], [], d', [tp], 0, 1073741824⟩] := by
  have hk := C03_roots_event_key_index_wraps H tp 0
  simp [eventRoot, eventMap, allKeyPairs, Event.keyPairs, keyPairsFrom, hk, applyBatch, batchOps, dedupFirst]

/-- the same with five topics: the second event (one topic, equal to the fifth topic of the first) is not seen -/
theorem C03_roots_event_root_blind_fifth_topic (t : Table) (nfc : NFC) (H : Bytes → Bytes) (tp d d' : Bytes) :
    eventRoot t nfc H [⟨[], [], [], [tp, tp, tp, tp, tp], 0, 0⟩, ⟨[], [], d, [tp], 0, 1⟩] =
    eventRoot t nfc H [⟨[], [], [], [tp, tp, tp, tp, tp], 0, 0⟩, ⟨[], [], d', [tp], 0, 1⟩] := by
  have hk : eventKey H 1 tp 0 = eventKey H 0 tp 4 := (C03_roots_event_key_fifth_topic_collides H tp 0).symm
  simp [eventRoot, eventMap, allKeyPairs, Event.keyPairs, keyPairsFrom, hk, applyBatch, batchOps, dedupFirst]

/-- **An event without topics is not committed at all** (`Validate` demands one topic, `CalculateEventRoot`
does not call it). -/
theorem C03_roots_event_without_topics_uncommitted (t : Table) (nfc : NFC) (H : Bytes → Bytes) (evs₁ evs₂ : List Event)
    (e : Event) (he : e.topics = []) :
    eventRoot t nfc H (evs₁ ++ e :: evs₂) = eventRoot t nfc H (evs₁ ++ evs₂) := by
  simp [eventRoot, eventMap, allKeyPairs, Event.keyPairs, he, keyPairsFrom]

/-- no events: the root of the empty trie, `H ""` -/
theorem C03_roots_event_root_empty (t : Table) (nfc : NFC) (H : Bytes → Bytes) : eventRoot t nfc H [] = H [] := by
  simp [eventRoot, eventMap, allKeyPairs, applyBatch, batchOps, dedupFirst, mapRoot, entriesOf, root, emptyHash]

/-! ## (b) what the event root commits to -/

/-- all keys handed to the trie have the trie's key length (hash outputs of at least 8 bytes) -/
theorem allKeyPairs_keyLen (t : Table) (nfc : NFC) (H : Bytes → Bytes) (n : Nat) (hlen : ∀ x, (H x).length = n)
    (hn : 8 ≤ n) (evs : List Event) : ∀ kv ∈ allKeyPairs t nfc H evs, kv.1.length = eventKeyLength := by
  intro kv hkv
  simp only [allKeyPairs, List.mem_flatMap, Event.keyPairs] at hkv
  obtain ⟨e, _, hk⟩ := hkv
  obtain ⟨j, _, rfl⟩ := keyPairsFrom_mem hk
  exact eventKey_length H hlen hn _ _ _

theorem eventMap_wellformed (t : Table) (nfc : NFC) (H : Bytes → Bytes) (n : Nat) (hlen : ∀ x, (H x).length = n)
    (hn : 8 ≤ n) (evs : List Event) : C10Map eventKeyLength (eventMap t nfc H evs) := by
  have := C10_finalMap_wellformed eventKeyLength [allKeyPairs t nfc H evs]
    (by intro b hb kv hkv; rw [List.mem_singleton.mp hb] at hkv; exact allKeyPairs_keyLen t nfc H n hlen hn evs kv hkv)
  simpa [finalMap, eventMap] using this

/-- the inputs SHA-256 is applied to when the event root of `evs` is computed (finitely many) -/
def C03EventRootInputs (t : Table) (nfc : NFC) (H : Bytes → Bytes) (evs : List Event) : List Bytes :=
  treeInputs H (8 * eventKeyLength) (entriesOf (eventMap t nfc H evs))

/-- **The event root commits to the trie** — for ANY two event lists (no bounds): if their event roots are equal
and `H` has no collision between the inputs hashed for the two roots, then the two tries hold exactly the same
(key, encoded event) pairs. From the C10 development: `C10_finalMap_wellformed` (what `trie.Update` leaves is a
stored map) and `Roots.mapRoot_determines` (the LIP-0039 root determines the entries). -/
theorem C03_roots_event_root_determines_map (t : Table) (nfc : NFC) (H : Bytes → Bytes) (n : Nat)
    (hlen : ∀ x, (H x).length = n) (hn : 8 ≤ n) (evs₁ evs₂ : List Event)
    (hnc : NoColl H (C03EventRootInputs t nfc H evs₁) (C03EventRootInputs t nfc H evs₂))
    (hr : eventRoot t nfc H evs₁ = eventRoot t nfc H evs₂) :
    ∀ kv, kv ∈ eventMap t nfc H evs₁ ↔ kv ∈ eventMap t nfc H evs₂ := by
  have w₁ := eventMap_wellformed t nfc H n hlen hn evs₁
  have w₂ := eventMap_wellformed t nfc H n hlen hn evs₂
  exact mapRoot_determines hlen eventKeyLength _ _ w₁.nodup w₂.nodup w₁.keys w₂.keys hnc hr

/-- in-bounds event list: indices below `2^30` and pairwise distinct (what `UpdateIndex` on at most `2^30` events
gives), at most 4 topics (`Validate`) -/
structure C03EventsInBounds (evs : List Event) : Prop where
  index : ∀ e ∈ evs, e.index < maxEventsPerBlock
  topics : ∀ e ∈ evs, e.topics.length ≤ eventMaxTopicsPerEvent
  distinct : ∀ e ∈ evs, ∀ e' ∈ evs, e.index = e'.index → e = e'

private theorem mem_allKeyPairs {t : Table} {nfc : NFC} {H : Bytes → Bytes} {evs : List Event} {kv : KV} :
    kv ∈ allKeyPairs t nfc H evs ↔
      ∃ e ∈ evs, ∃ j, j < e.topics.length ∧ kv = (eventKey H e.index (e.topics.getD j []) j, e.encode t nfc) := by
  simp only [allKeyPairs, List.mem_flatMap, Event.keyPairs]
  constructor
  · rintro ⟨e, he, hk⟩
    obtain ⟨j, hj, hkv⟩ := keyPairsFrom_mem hk
    exact ⟨e, he, j, hj, by simpa using hkv⟩
  · rintro ⟨e, he, j, hj, rfl⟩
    refine ⟨e, he, ?_⟩
    have := @mem_keyPairsFrom H e.index (e.encode t nfc) 0 e.topics j hj
    simpa using this

/-- in an in-bounds list a key belongs to one event: pairs with the same key carry the same encoding -/
private theorem allKeyPairs_functional {t : Table} {nfc : NFC} {H : Bytes → Bytes} {n : Nat} (hlen : ∀ x, (H x).length = n)
    {evs : List Event} (hb : C03EventsInBounds evs) {k v v' : Bytes}
    (h : (k, v) ∈ allKeyPairs t nfc H evs) (h' : (k, v') ∈ allKeyPairs t nfc H evs) : v = v' := by
  obtain ⟨e, he, j, hj, hkv⟩ := mem_allKeyPairs.mp h
  obtain ⟨e', he', j', hj', hkv'⟩ := mem_allKeyPairs.mp h'
  simp only [Prod.mk.injEq] at hkv hkv'
  have hk : eventKey H e.index (e.topics.getD j []) j = eventKey H e'.index (e'.topics.getD j' []) j' := by
    rw [← hkv.1, ← hkv'.1]
  have := C03_roots_event_keys_distinct H n hlen _ _ _ _ _ _ (hb.index e he) (hb.index e' he')
    (Nat.lt_of_lt_of_le hj (hb.topics e he)) (Nat.lt_of_lt_of_le hj' (hb.topics e' he')) hk
  have hee := hb.distinct e he e' he' this.1
  rw [hkv.2, hkv'.2, hee]

/-- a batch whose keys are functional and whose values are non-empty is stored as it is -/
private theorem mem_applyBatch_of_functional {b : List KV} (hf : ∀ k v v', (k, v) ∈ b → (k, v') ∈ b → v = v')
    (hv : ∀ kv ∈ b, kv.2 ≠ []) (kv : KV) : kv ∈ applyBatch [] b ↔ kv ∈ b := by
  have hnd : NoDupKeys (applyBatch [] b) := nodupKeys_applyBatch (by simp [NoDupKeys]) b
  have hlook := C10_batch_lookup [] b kv.1
  constructor
  · intro h
    have hg := mget_eq_some_of_mem hnd (show (kv.1, kv.2) ∈ applyBatch [] b from h)
    rw [hg] at hlook
    cases hfind : b.find? (fun x => decide (x.1 = kv.1)) with
    | none => rw [hfind] at hlook; simp [mget] at hlook
    | some x =>
      rw [hfind] at hlook
      have hx := List.mem_of_find?_eq_some hfind
      have hk : x.1 = kv.1 := by simpa using List.find?_some hfind
      simp only at hlook
      split at hlook
      · cases hlook
      · have : kv = x := Prod.ext hk.symm (by injection hlook)
        rw [this]; exact hx
  · intro h
    cases hfind : b.find? (fun x => decide (x.1 = kv.1)) with
    | none =>
      have := List.find?_eq_none.mp hfind kv h
      simp at this
    | some x =>
      rw [hfind] at hlook
      have hx := List.mem_of_find?_eq_some hfind
      have hk : x.1 = kv.1 := by simpa using List.find?_some hfind
      have hxv : x.2 = kv.2 := hf kv.1 x.2 kv.2 (by rw [← hk]; exact hx) h
      simp only [hv x hx, ↓reduceIte] at hlook
      have := mem_of_mget_eq_some hlook
      rw [hxv] at this
      exact this

/-- the event codec writes at least the key of field 1: an encoded event is never empty (so it is never taken
for a deletion by `trie.Update`) -/
theorem C03_roots_event_encoding_nonempty (nfc : NFC) (e : Event) : e.encode allSchemas nfc ≠ [] := by
  have hs : allSchemas.find "blockchain.Event" = some schema8 := rfl
  intro h
  have hl := congrArg List.length h
  simp only [Event.encode, Validators.encodeNamed, hs, encode, schema8, Event.values, encodeFields, writeKey,
    List.length_append, List.length_nil] at hl
  have := putUvarint_length_pos (1 * 8 + 2)
  omega

/-- **Inside the bounds nothing is dropped**: the trie holds exactly the key pairs of all events. -/
theorem C03_roots_event_map_in_bounds (nfc : NFC) (H : Bytes → Bytes) (n : Nat) (hlen : ∀ x, (H x).length = n)
    (evs : List Event) (hb : C03EventsInBounds evs) (kv : KV) :
    kv ∈ eventMap allSchemas nfc H evs ↔ kv ∈ allKeyPairs allSchemas nfc H evs := by
  apply mem_applyBatch_of_functional
  · intro k v v' h h'; exact allKeyPairs_functional hlen hb h h'
  · intro kv hkv
    obtain ⟨e, _, j, _, rfl⟩ := mem_allKeyPairs.mp hkv
    exact C03_roots_event_encoding_nonempty nfc e

/-- an event the generated codec round-trips: field values of their Go types (valid normalised UTF-8 strings,
`uint32` height and index, byte strings and the whole encoding below 2^63 bytes) -/
def C03EventTyped (nfc : NFC) (e : Event) : Prop :=
  C08TypedDeep allSchemas nfc 0 schema8.enc e.values = true ∧ (e.encode allSchemas nfc).length < 2 ^ 63

/-- `Event.Encode` is injective on typed events (instance of `C08_encode_injective_nested`) -/
theorem C03_roots_event_encode_injective (nfc : NFC) (e e' : Event) (h : C03EventTyped nfc e)
    (h' : C03EventTyped nfc e') (he : e.encode allSchemas nfc = e'.encode allSchemas nfc) : e = e' := by
  have hs : allSchemas.find "blockchain.Event" = some schema8 := rfl
  have hm : schema8 ∈ allSchemas := find_mem hs
  have hl := h.2
  simp only [Event.encode, Validators.encodeNamed, hs] at he hl
  have := C08_encode_injective_nested allSchemas C09rank nfc C08_allSchemas_deepWF schema8 hm 0 0 _ _ h.1 h'.1 hl he
  cases e; cases e'
  simp only [Event.values, List.cons.injEq, Value.bytes.injEq, Value.bytesArr.injEq, Value.uint.injEq, and_true] at this
  simp only [Event.mk.injEq]
  exact this

/-- **The event root commits to the events.** Two in-bounds event lists (indices distinct and below 2^30, at most
4 topics), every event with at least one topic and well-typed, with EQUAL event roots — and no collision of `H`
between the finitely many inputs hashed for the two roots — consist of the same events. -/
theorem C03_roots_event_root_commits (nfc : NFC) (H : Bytes → Bytes) (n : Nat) (hlen : ∀ x, (H x).length = n) (hn : 8 ≤ n)
    (evs₁ evs₂ : List Event) (b₁ : C03EventsInBounds evs₁) (b₂ : C03EventsInBounds evs₂)
    (tp₁ : ∀ e ∈ evs₁, e.topics ≠ []) (tp₂ : ∀ e ∈ evs₂, e.topics ≠ [])
    (ty₁ : ∀ e ∈ evs₁, C03EventTyped nfc e) (ty₂ : ∀ e ∈ evs₂, C03EventTyped nfc e)
    (hnc : NoColl H (C03EventRootInputs allSchemas nfc H evs₁) (C03EventRootInputs allSchemas nfc H evs₂))
    (hr : eventRoot allSchemas nfc H evs₁ = eventRoot allSchemas nfc H evs₂) :
    ∀ e, e ∈ evs₁ ↔ e ∈ evs₂ := by
  have hmap := C03_roots_event_root_determines_map allSchemas nfc H n hlen hn evs₁ evs₂ hnc hr
  have one : ∀ (a b : List Event), C03EventsInBounds a → C03EventsInBounds b → (∀ e ∈ a, e.topics ≠ []) →
      (∀ e ∈ a, C03EventTyped nfc e) → (∀ e ∈ b, C03EventTyped nfc e) →
      (∀ kv, kv ∈ eventMap allSchemas nfc H a → kv ∈ eventMap allSchemas nfc H b) → ∀ e ∈ a, e ∈ b := by
    intro a b ba bb tpa tya tyb hm e he
    have hpos : 0 < e.topics.length := List.length_pos_iff.mpr (tpa e he)
    have hin : (eventKey H e.index (e.topics.getD 0 []) 0, e.encode allSchemas nfc) ∈ allKeyPairs allSchemas nfc H a :=
      mem_allKeyPairs.mpr ⟨e, he, 0, hpos, rfl⟩
    have h2 := (C03_roots_event_map_in_bounds nfc H n hlen b bb _).mp
      (hm _ ((C03_roots_event_map_in_bounds nfc H n hlen a ba _).mpr hin))
    obtain ⟨e', he', j, _, hkv⟩ := mem_allKeyPairs.mp h2
    simp only [Prod.mk.injEq] at hkv
    have := C03_roots_event_encode_injective nfc e e' (tya e he) (tyb e' he') hkv.2
    rw [this]; exact he'
  intro e
  exact ⟨one evs₁ evs₂ b₁ b₂ tp₁ ty₁ ty₂ (fun kv h => (hmap kv).mp h) e,
         one evs₂ evs₁ b₂ b₁ tp₂ ty₂ ty₁ (fun kv h => (hmap kv).mpr h) e⟩

/-- a list as `Events.UpdateIndex` leaves it: the index of every event is its position -/
def C03Indexed (evs : List Event) : Prop := ∀ j (hj : j < evs.length), (evs[j]'hj).index = j

theorem C03_roots_updateIndex_indexed (evs : List Event) (h : evs.length ≤ maxEventsPerBlock) :
    C03Indexed (updateIndex evs) := by
  have gen : ∀ (l : List Event) (s : Nat), s + l.length ≤ 4294967296 → ∀ j (hj : j < (updateIndexFrom s l).length),
      ((updateIndexFrom s l)[j]'hj).index = s + j := by
    intro l
    induction l with
    | nil => intro s _ j hj; simp [updateIndexFrom] at hj
    | cons e r ih =>
      intro s hs j hj
      cases j with
      | zero =>
        simp only [updateIndexFrom, List.getElem_cons_zero, Nat.add_zero]
        simp only [List.length_cons] at hs
        omega
      | succ j =>
        simp only [updateIndexFrom, List.getElem_cons_succ]
        simp only [List.length_cons] at hs
        rw [ih (s + 1) (by omega)]
        omega
  intro j hj
  have := gen evs 0 (by unfold maxEventsPerBlock at h; omega) j hj
  rw [Nat.zero_add] at this
  exact this

/-- an indexed list of at most `2^30` events with at most 4 topics each is in bounds -/
theorem C03_roots_indexed_in_bounds (evs : List Event) (hi : C03Indexed evs) (hl : evs.length ≤ maxEventsPerBlock)
    (ht : ∀ e ∈ evs, e.topics.length ≤ eventMaxTopicsPerEvent) : C03EventsInBounds evs := by
  refine ⟨?_, ht, ?_⟩
  · intro e he
    obtain ⟨j, hj, rfl⟩ := List.getElem_of_mem he
    rw [hi j hj]; omega
  · intro e he e' he' hidx
    obtain ⟨j, hj, rfl⟩ := List.getElem_of_mem he
    obtain ⟨j', hj', rfl⟩ := List.getElem_of_mem he'
    rw [hi j hj, hi j' hj'] at hidx
    subst hidx
    rfl

/-- **… and to their order**: for lists as the engine builds them (`UpdateIndex`: index = position; `Validate`:
1 to 4 topics; at most `2^30` events) equal event roots mean the SAME LIST. Together with
`C03_roots_event_encode_injective`: any change of one event's module, name, data, topics, height — or of the
order of two different events — changes the event root, unless it exhibits a collision of `H`. -/
theorem C03_roots_event_root_commits_list (nfc : NFC) (H : Bytes → Bytes) (n : Nat) (hlen : ∀ x, (H x).length = n)
    (hn : 8 ≤ n) (evs₁ evs₂ : List Event) (i₁ : C03Indexed evs₁) (i₂ : C03Indexed evs₂)
    (l₁ : evs₁.length ≤ maxEventsPerBlock) (l₂ : evs₂.length ≤ maxEventsPerBlock)
    (t₁ : ∀ e ∈ evs₁, e.topics ≠ [] ∧ e.topics.length ≤ eventMaxTopicsPerEvent)
    (t₂ : ∀ e ∈ evs₂, e.topics ≠ [] ∧ e.topics.length ≤ eventMaxTopicsPerEvent)
    (ty₁ : ∀ e ∈ evs₁, C03EventTyped nfc e) (ty₂ : ∀ e ∈ evs₂, C03EventTyped nfc e)
    (hnc : NoColl H (C03EventRootInputs allSchemas nfc H evs₁) (C03EventRootInputs allSchemas nfc H evs₂))
    (hr : eventRoot allSchemas nfc H evs₁ = eventRoot allSchemas nfc H evs₂) : evs₁ = evs₂ := by
  have b₁ := C03_roots_indexed_in_bounds evs₁ i₁ l₁ (fun e he => (t₁ e he).2)
  have b₂ := C03_roots_indexed_in_bounds evs₂ i₂ l₂ (fun e he => (t₂ e he).2)
  have hmem := C03_roots_event_root_commits nfc H n hlen hn evs₁ evs₂ b₁ b₂ (fun e he => (t₁ e he).1)
    (fun e he => (t₂ e he).1) ty₁ ty₂ hnc hr
  -- an element of an indexed list sits at the position given by its index
  have pos : ∀ (a b : List Event), C03Indexed a → C03Indexed b → (∀ e, e ∈ a → e ∈ b) →
      ∀ j (hj : j < a.length), ∃ hj' : j < b.length, b[j]'hj' = a[j]'hj := by
    intro a b ia ib hab j hj
    obtain ⟨j', hj', he⟩ := List.getElem_of_mem (hab _ (List.getElem_mem hj))
    have h1 := ib j' hj'
    rw [he, ia j hj] at h1
    subst h1
    exact ⟨hj', he⟩
  apply List.ext_getElem
  · apply Nat.le_antisymm
    · cases h : evs₁.length with
      | zero => omega
      | succ k =>
        obtain ⟨hj', _⟩ := pos evs₁ evs₂ i₁ i₂ (fun e => (hmem e).mp) k (by omega)
        omega
    · cases h : evs₂.length with
      | zero => omega
      | succ k =>
        obtain ⟨hj', _⟩ := pos evs₂ evs₁ i₂ i₁ (fun e => (hmem e).mpr) k (by omega)
        omega
  · intro j h₁ h₂
    obtain ⟨_, he⟩ := pos evs₁ evs₂ i₁ i₂ (fun e => (hmem e).mp) j h₁
    exact he.symm

/-- **Changing one event changes the trie**: replacing an event of an in-bounds list by a different well-typed
one with the same index (other data, module, name, height or topics) gives a different set of key pairs. -/
theorem C03_roots_event_change_changes_map (nfc : NFC) (H : Bytes → Bytes) (n : Nat) (hlen : ∀ x, (H x).length = n)
    (pre post : List Event) (e e' : Event) (hne : e ≠ e') (hidx : e.index = e'.index)
    (b : C03EventsInBounds (pre ++ e :: post)) (b' : C03EventsInBounds (pre ++ e' :: post))
    (htp : e.topics ≠ []) (ty : C03EventTyped nfc e) (ty' : ∀ x ∈ pre ++ e' :: post, C03EventTyped nfc x) :
    ¬ (∀ kv, kv ∈ eventMap allSchemas nfc H (pre ++ e :: post) ↔ kv ∈ eventMap allSchemas nfc H (pre ++ e' :: post)) := by
  intro hall
  have hpos : 0 < e.topics.length := List.length_pos_iff.mpr htp
  have hin : (eventKey H e.index (e.topics.getD 0 []) 0, e.encode allSchemas nfc) ∈
      allKeyPairs allSchemas nfc H (pre ++ e :: post) := mem_allKeyPairs.mpr ⟨e, by simp, 0, hpos, rfl⟩
  have h2 := (C03_roots_event_map_in_bounds nfc H n hlen _ b' _).mp
    ((hall _).mp ((C03_roots_event_map_in_bounds nfc H n hlen _ b _).mpr hin))
  obtain ⟨x, hx, j, _, hkv⟩ := mem_allKeyPairs.mp h2
  simp only [Prod.mk.injEq] at hkv
  have hxe := C03_roots_event_encode_injective nfc e x ty (ty' x hx) hkv.2
  subst hxe
  -- `e` would be an element of the changed list with the index of `e'`
  exact hne (b'.distinct e hx e' (by simp) hidx)

/-! ## (c) validators hash -/

theorem vhLe_total (a b : Validator) : (vhLe a b || vhLe b a) = true := ble_total _ _
theorem vhLe_trans (a b c : Validator) (h1 : vhLe a b = true) (h2 : vhLe b c = true) : vhLe a c = true :=
  ble_trans _ _ _ h1 h2

/-- **Permutation invariance.** If validators with equal BLS keys are equal (in particular: pairwise distinct
keys), every permutation of the input gives the same sorted list, hence the same validators hash. -/
theorem C03_roots_vhash_perm_invariant (t : Table) (nfc : NFC) (H : Bytes → Bytes) (vals₁ vals₂ : List Validator)
    (threshold : Nat) (hp : vals₁.Perm vals₂)
    (hkey : ∀ a ∈ vals₁, ∀ b ∈ vals₁, a.key = b.key → a = b) :
    validatorsHash t nfc H vals₁ threshold = validatorsHash t nfc H vals₂ threshold := by
  have hs : sortValidators vals₁ = sortValidators vals₂ := by
    apply List.Perm.eq_of_pairwise (le := fun a b => vhLe a b = true)
    · intro a b ha hb h1 h2
      have ha' : a ∈ vals₁ := (mem_isort _ _ _).mp ha
      have hb' : b ∈ vals₁ := hp.mem_iff.mpr ((mem_isort _ _ _).mp hb)
      exact hkey a ha' b hb' (ble_antisymm _ _ h1 h2)
    · exact isort_pairwise vhLe vhLe_trans vhLe_total vals₁
    · exact isort_pairwise vhLe vhLe_trans vhLe_total vals₂
    · exact (isort_perm _ _).trans (hp.trans (isort_perm _ _).symm)
  simp only [validatorsHash, hs]

private theorem C03inj_of_nodup_map {α β : Type} (f : α → β) {l : List α} (hnd : (l.map f).Nodup)
    {a b : α} (ha : a ∈ l) (hb : b ∈ l) (hf : f a = f b) : a = b := by
  induction l with
  | nil => cases ha
  | cons x r ih =>
    simp only [List.map_cons, List.nodup_cons] at hnd
    rcases List.mem_cons.mp ha with ha' | ha' <;> rcases List.mem_cons.mp hb with hb' | hb'
    · rw [ha', hb']
    · subst ha'
      exact absurd (by rw [hf]; exact List.mem_map.mpr ⟨b, hb', rfl⟩) hnd.1
    · subst hb'
      exact absurd (by rw [← hf]; exact List.mem_map.mpr ⟨a, ha', rfl⟩) hnd.1
    · exact ih hnd.2 ha' hb'

theorem C03_roots_vhash_perm_invariant_distinct_keys (t : Table) (nfc : NFC) (H : Bytes → Bytes)
    (vals₁ vals₂ : List Validator) (threshold : Nat) (hp : vals₁.Perm vals₂)
    (hnd : (vals₁.map (·.key)).Nodup) :
    validatorsHash t nfc H vals₁ threshold = validatorsHash t nfc H vals₂ threshold :=
  C03_roots_vhash_perm_invariant t nfc H vals₁ vals₂ threshold hp
    (fun _ ha _ hb h => C03inj_of_nodup_map (·.key) hnd ha hb h)

example : validatorsHash allSchemas asciiNFC (fun x => x) [⟨[2], 5⟩, ⟨[1], 7⟩] 3 =
    validatorsHash allSchemas asciiNFC (fun x => x) [⟨[1], 7⟩, ⟨[2], 5⟩] 3 :=
  C03_roots_vhash_perm_invariant_distinct_keys _ _ _ _ _ _ (List.Perm.swap _ _ _) (by decide)

/-- the encoding of two validators with the one-byte key `07` and weights below 128, threshold 1 -/
theorem C03vh_example_encoding (w₁ w₂ : Nat) (h₁ : w₁ < 128) (h₂ : w₂ < 128) :
    vhEncode allSchemas asciiNFC [⟨[7], w₁⟩, ⟨[7], w₂⟩] 1 =
      [0x0a, 5, 0x0a, 1, 7, 0x10, UInt8.ofNat w₁, 0x0a, 5, 0x0a, 1, 7, 0x10, UInt8.ofNat w₂, 0x10, 1] := by
  have hs : allSchemas.find "validator.validatrorsHashData" = some schema46 := rfl
  have hs' : allSchemas.find "validator.hashValidator" = some schema45 := rfl
  simp [vhEncode, Validators.encodeNamed, hs, hs', encode, schema46, schema45, vhValues, Validator.values, encodeFields,
    writeKey, writeBytes, putUvarint_lt, h₁, h₂]

/-- **With a duplicate BLS key of different weights the hash is NOT a function of the validator set.** The
comparator of `ComputeValidatorsHash` looks at the key only: both orders of the two validators below are sorted
by key, they are what a stable sort returns for the two input orders, and they encode differently — so the hash
depends on the input order (and, `sort.Slice` being unstable, for more than 12 validators on the sorting
algorithm of the Go release). `SetBFTParameters` does not demand distinct BLS keys. -/
theorem C03_roots_vhash_duplicate_key_order_dependent :
    ∃ vals₁ vals₂ : List Validator, vals₁.Perm vals₂ ∧
      (sortValidators vals₁).Pairwise (fun a b => vhLe a b = true) ∧
      (sortValidators vals₂).Pairwise (fun a b => vhLe a b = true) ∧
      vhEncode allSchemas asciiNFC (sortValidators vals₁) 1 ≠ vhEncode allSchemas asciiNFC (sortValidators vals₂) 1 ∧
      ∀ H : Bytes → Bytes, (∀ a b, H a = H b → a = b) →
        validatorsHash allSchemas asciiNFC H vals₁ 1 ≠ validatorsHash allSchemas asciiNFC H vals₂ 1 := by
  have s1 : sortValidators [⟨[7], 1⟩, ⟨[7], 2⟩] = [⟨[7], 1⟩, ⟨[7], 2⟩] := by decide
  have s2 : sortValidators [⟨[7], 2⟩, ⟨[7], 1⟩] = [⟨[7], 2⟩, ⟨[7], 1⟩] := by decide
  have hne : vhEncode allSchemas asciiNFC (sortValidators [⟨[7], 1⟩, ⟨[7], 2⟩]) 1 ≠
      vhEncode allSchemas asciiNFC (sortValidators [⟨[7], 2⟩, ⟨[7], 1⟩]) 1 := by
    rw [s1, s2, C03vh_example_encoding 1 2 (by decide) (by decide), C03vh_example_encoding 2 1 (by decide) (by decide)]
    decide
  refine ⟨[⟨[7], 1⟩, ⟨[7], 2⟩], [⟨[7], 2⟩, ⟨[7], 1⟩], List.Perm.swap _ _ _, by decide, by decide, hne, ?_⟩
  intro H hinj h
  exact hne (hinj _ _ h)

theorem vhLeFixed_total (a b : Validator) : (vhLeFixed a b || vhLeFixed b a) = true := by
  unfold vhLeFixed
  cases h : bcmp a.key b.key with
  | lt => simp
  | gt => have := (bcmp_swap b.key a.key).mpr h; simp [this]
  | eq =>
    have := (bcmp_eq_iff _ _).mp h
    rw [this, bcmp_self]
    simp only [Bool.or_eq_true, decide_eq_true_eq]
    omega

theorem vhLeFixed_antisymm (a b : Validator) (h1 : vhLeFixed a b = true) (h2 : vhLeFixed b a = true) : a = b := by
  unfold vhLeFixed at h1 h2
  cases h : bcmp a.key b.key with
  | lt => have := (bcmp_swap a.key b.key).mp h; rw [this] at h2; simp at h2
  | gt => rw [h] at h1; simp at h1
  | eq =>
    have hk := (bcmp_eq_iff _ _).mp h
    rw [h] at h1
    rw [hk, bcmp_self] at h2
    simp only [decide_eq_true_eq] at h1 h2
    cases a; cases b
    simp only at hk h1 h2
    simp only [Validator.mk.injEq]
    exact ⟨hk, by omega⟩

theorem vhLeFixed_trans (a b c : Validator) (h1 : vhLeFixed a b = true) (h2 : vhLeFixed b c = true) :
    vhLeFixed a c = true := by
  unfold vhLeFixed at *
  cases hab : bcmp a.key b.key with
  | gt => rw [hab] at h1; simp at h1
  | lt =>
    cases hbc : bcmp b.key c.key with
    | gt => rw [hbc] at h2; simp at h2
    | lt => rw [bcmp_lt_trans _ _ _ hab hbc]
    | eq => rw [← (bcmp_eq_iff _ _).mp hbc, hab]
  | eq =>
    rw [(bcmp_eq_iff _ _).mp hab]
    cases hbc : bcmp b.key c.key with
    | gt => rw [hbc] at h2; simp at h2
    | lt => rfl
    | eq =>
      rw [hab] at h1; rw [hbc] at h2
      simp only [decide_eq_true_eq] at h1 h2 ⊢
      omega

/-- **The proposed fix** (ties on the BLS key broken by the weight, fixes/C03-validators-hash-duplicate-keys.patch)
makes the validators hash a function of the validator multiset — for ALL inputs, duplicates included. -/
theorem C03_roots_vhash_fixed_perm_invariant (t : Table) (nfc : NFC) (H : Bytes → Bytes) (vals₁ vals₂ : List Validator)
    (threshold : Nat) (hp : vals₁.Perm vals₂) :
    validatorsHashFixed t nfc H vals₁ threshold = validatorsHashFixed t nfc H vals₂ threshold := by
  have hs : isort vhLeFixed vals₁ = isort vhLeFixed vals₂ := by
    apply List.Perm.eq_of_pairwise (le := fun a b => vhLeFixed a b = true)
    · intro a b _ _ h1 h2; exact vhLeFixed_antisymm a b h1 h2
    · exact isort_pairwise vhLeFixed vhLeFixed_trans vhLeFixed_total vals₁
    · exact isort_pairwise vhLeFixed vhLeFixed_trans vhLeFixed_total vals₂
    · exact (isort_perm _ _).trans (hp.trans (isort_perm _ _).symm)
  simp only [validatorsHashFixed, hs]

example : validatorsHashFixed allSchemas asciiNFC (fun x => x) [⟨[7], 1⟩, ⟨[7], 2⟩] 1 =
    validatorsHashFixed allSchemas asciiNFC (fun x => x) [⟨[7], 2⟩, ⟨[7], 1⟩] 1 :=
  C03_roots_vhash_fixed_perm_invariant _ _ _ _ _ _ (List.Perm.swap _ _ _)

/-- the hashed data is well-typed for the generated codec: BLS keys below 2^63 bytes, `uint64` weights and
threshold, the whole encoding below 2^63 bytes -/
def C03VHTyped (nfc : NFC) (ordered : List Validator) (threshold : Nat) : Prop :=
  C08TypedDeep allSchemas nfc 1 schema46.enc (vhValues ordered threshold) = true ∧
    (vhEncode allSchemas nfc ordered threshold).length < 2 ^ 63

private theorem C03map_values_inj : ∀ (a b : List Validator), a.map Validator.values = b.map Validator.values → a = b
  | [], [], _ => rfl
  | [], _ :: _, h => by simp at h
  | _ :: _, [], h => by simp at h
  | x :: xs, y :: ys, h => by
    simp only [List.map_cons, List.cons.injEq] at h
    have hx : x = y := by cases x; cases y; simpa [Validator.values] using h.1
    rw [hx, C03map_values_inj xs ys h.2]

/-- **The validators hash is injective in (sorted validator list, threshold)**: two well-typed inputs with the
same hash — `H` not colliding on the two encodings — are the same list of (BLS key, weight) pairs in the same
order and the same certificate threshold. From the codec round trip `C08_encode_injective_nested`. -/
theorem C03_roots_vhash_injective (nfc : NFC) (H : Bytes → Bytes) (o₁ o₂ : List Validator) (thr₁ thr₂ : Nat)
    (ty₁ : C03VHTyped nfc o₁ thr₁) (ty₂ : C03VHTyped nfc o₂ thr₂)
    (hH : H (vhEncode allSchemas nfc o₁ thr₁) = H (vhEncode allSchemas nfc o₂ thr₂) →
      vhEncode allSchemas nfc o₁ thr₁ = vhEncode allSchemas nfc o₂ thr₂)
    (h : vhOf allSchemas nfc H o₁ thr₁ = vhOf allSchemas nfc H o₂ thr₂) : o₁ = o₂ ∧ thr₁ = thr₂ := by
  have hs : allSchemas.find "validator.validatrorsHashData" = some schema46 := rfl
  have hm : schema46 ∈ allSchemas := find_mem hs
  have he := hH h
  have hl := ty₁.2
  simp only [vhEncode, Validators.encodeNamed, hs] at he hl
  have := C08_encode_injective_nested allSchemas C09rank nfc C08_allSchemas_deepWF schema46 hm 1 1 _ _ ty₁.1 ty₂.1 hl he
  simp only [vhValues, List.cons.injEq, Value.msgArr.injEq, Value.uint.injEq, and_true] at this
  refine ⟨?_, this.2⟩
  exact C03map_values_inj _ _ this.1

example : C03VHTyped asciiNFC [⟨[7], 1⟩, ⟨[7], 2⟩] 1 := by
  refine ⟨by decide +kernel, ?_⟩
  rw [C03vh_example_encoding 1 2 (by decide) (by decide)]
  decide

/-! ## (d) transaction root, asset root, IDs, signing bytes -/

/-- **The transaction root is the C11 batch root over the transaction IDs** (ID = hash of the encoding), and it
is the root an append-only Merkle tree reaches when the IDs are appended one by one (`C11_append_eq_batch`). -/
theorem C03_roots_tx_root_is_batch_root (t : Table) (nfc : NFC) (H : Bytes → Bytes) (txs : List Tx) :
    txRoot t nfc H txs = RMT.root (Validators.rmtHashes H) (txs.map fun x => CodecEntry.txID t nfc H x.values) ∧
    RMT.appendAll (Validators.rmtHashes H) (RMT.initCore (Validators.rmtHashes H)) (txs.map (Tx.id t nfc H)) =
      some ⟨txRoot t nfc H txs, RMT.peaks (Validators.rmtHashes H) ((txs.map (Tx.id t nfc H)).map (Validators.rmtHashes H).leaf),
        txs.length⟩ := by
  refine ⟨rfl, ?_⟩
  have := C11_append_eq_batch (Validators.rmtHashes H) (txs.map (Tx.id t nfc H))
  simpa [txRoot] using this

/-- **The asset root is the C11 batch root over the ENCODED assets** (not over hashes of them). -/
theorem C03_roots_asset_root_is_batch_root (t : Table) (nfc : NFC) (H : Bytes → Bytes) (as : List Asset) :
    assetRoot t nfc H as = RMT.root (Validators.rmtHashes H) (as.map fun a => Validators.encodeNamed t nfc "blockchain.BlockAsset" a.values) ∧
    RMT.appendAll (Validators.rmtHashes H) (RMT.initCore (Validators.rmtHashes H)) (as.map (Asset.encode t nfc)) =
      some ⟨assetRoot t nfc H as, RMT.peaks (Validators.rmtHashes H) ((as.map (Asset.encode t nfc)).map (Validators.rmtHashes H).leaf),
        as.length⟩ := by
  refine ⟨rfl, ?_⟩
  have := C11_append_eq_batch (Validators.rmtHashes H) (as.map (Asset.encode t nfc))
  simpa [assetRoot] using this

example : txRoot allSchemas asciiNFC (fun x => x) [] = [] := by decide +kernel

/-- **IDs**: the block ID is the hash of the header encoding (all 15 fields, the signature included), the
transaction ID the hash of the transaction encoding — the functions of Model/CodecEntry.lean about which
`C08_newBlock_ids_are_hashes_of_received_bytes`, `C08_blockHeader_id_stable`, `C08_transaction_id_stable` speak. -/
theorem C03_roots_ids (t : Table) (nfc : NFC) (H : Bytes → Bytes) (h : Header) (x : Tx) :
    h.id t nfc H = CodecEntry.headerID t nfc H h.values ∧ x.id t nfc H = CodecEntry.txID t nfc H x.values ∧
    h.values.length = 15 ∧ x.values.length = 7 := ⟨rfl, rfl, rfl, rfl⟩

/-- **Signing bytes**: by the regenerated table the signed encoding of a header is the encoding of its first 14
fields under the same field numbers and kinds (`C03_signature_covers_all_fields`), that of a transaction the
encoding of its first 6 fields (everything but the signatures). -/
theorem C03_roots_signing_bytes :
    (allSchemas.find "blockchain.signingBlockHeader").map (·.enc) =
      (allSchemas.find "blockchain.BlockHeader").map (fun s => s.enc.take 14) ∧
    (allSchemas.find "blockchain.SigningTransaction").map (·.enc) =
      (allSchemas.find "blockchain.Transaction").map (fun s => s.enc.take 6) ∧
    (allSchemas.find "certificate.SigningCertificate").map (·.enc) =
      (allSchemas.find "certificate.Certificate").map (fun s => s.enc.take 5) := by
  refine ⟨?_, ?_, ?_⟩ <;> decide +kernel

/-- **Signed messages**: headers, transactions and certificates are signed over `H(tag ‖ chainID ‖ signing
bytes)` with three different tags of one length, the message format of `C03_signed_message_injective`: for chain
IDs of one length the hashed bytes determine the chain ID and the signing bytes, and the three kinds of message
never coincide. -/
theorem C03_roots_signed_messages (t : Table) (nfc : NFC) (H : Bytes → Bytes) (chainID : Bytes) (h : Header) (x : Tx) :
    h.signMessage t nfc H chainID = H (C03signedMessage tagBlockHeader chainID (h.signingBytes t nfc)) ∧
    x.signMessage t nfc H chainID = H (C03signedMessage tagTransaction chainID (x.signingBytes t nfc)) ∧
    certSignMessage t nfc H chainID h = H (C03signedMessage tagCertificate chainID (certSigningBytes t nfc H h)) ∧
    tagBlockHeader.length = 7 ∧ tagTransaction.length = 7 ∧ tagCertificate.length = 7 ∧
    tagBlockHeader ≠ tagTransaction ∧ tagBlockHeader ≠ tagCertificate ∧ tagTransaction ≠ tagCertificate := by
  refine ⟨rfl, rfl, rfl, rfl, rfl, rfl, by decide, by decide, by decide⟩

/-- messages under different tags differ (any chain IDs, any bodies) -/
theorem C03_roots_signed_messages_separated (c₁ c₂ b₁ b₂ : Bytes) :
    C03signedMessage tagBlockHeader c₁ b₁ ≠ C03signedMessage tagTransaction c₂ b₂ ∧
    C03signedMessage tagBlockHeader c₁ b₁ ≠ C03signedMessage tagCertificate c₂ b₂ ∧
    C03signedMessage tagTransaction c₁ b₁ ≠ C03signedMessage tagCertificate c₂ b₂ := by
  refine ⟨?_, ?_, ?_⟩ <;>
  · intro h
    have := congrArg (List.take 7) h
    simp [C03signedMessage, tagBlockHeader, tagTransaction, tagCertificate] at this

/-- **`Block.Validate`** accepts exactly when the header lengths are right, every transaction is statically valid,
the header's transaction root is the batch root over the IDs, the assets pass `BlockAssets.Valid`, and the
header's asset root is the batch root over the encoded assets — the facts `txRootOK` / `assetRootOK` /
`assetsOK` / `txStatic` the C03 decision model takes as input. -/
theorem C03_roots_block_validate_iff (t : Table) (nfc : NFC) (H : Bytes → Bytes) (h : Header) (txs : List Tx)
    (as : List Asset) :
    blockValidate t nfc H h txs as = true ↔
      h.validate = true ∧ (∀ x ∈ txs, x.validate = true) ∧ h.transactionRoot = txRoot t nfc H txs ∧
      assetsValid as = true ∧ h.assetRoot = assetRoot t nfc H as := by
  simp [blockValidate, and_assoc]

example : blockValidate allSchemas asciiNFC (fun x => x)
    { version := 2, timestamp := 0, height := 1, previousBlockID := List.replicate 32 0,
      generatorAddress := List.replicate 20 0, transactionRoot := [], assetRoot := [], eventRoot := [],
      stateRoot := List.replicate 32 0,
      maxHeightPrevoted := 0, maxHeightGenerated := 0, impliesMaxPrevotes := false, validatorsHash := [],
      aggregateCommit := none, signature := List.replicate 64 0 } [] [] = true := by decide +kernel

/-- assets pass `Valid` only if no module repeats (the second check of the loop) -/
theorem C03_roots_assets_valid_sorted_example :
    assetsValid [⟨[1], []⟩, ⟨[2], []⟩] = true ∧ assetsValid [⟨[2], []⟩, ⟨[1], []⟩] = false ∧
    assetsValid [⟨[1], []⟩, ⟨[1], [9]⟩] = false := by decide

/-- the certificate data a single commit signs is typed: 32-byte-like byte strings below 2^63, `uint32` numbers -/
def C03CertTyped (nfc : NFC) (H : Bytes → Bytes) (h : Header) : Prop :=
  C08TypedDeep allSchemas nfc 0 schema12.enc (certValues allSchemas nfc H h) = true ∧
    (certSigningBytes allSchemas nfc H h).length < 2 ^ 63

/-- **The certificate signing bytes commit to (block ID, height, timestamp, state root, validators hash)**:
equal signing bytes of two well-typed headers' certificates mean equal five fields — in particular the signed
certificate fixes the block ID and the validators hash the next certificate has to be verified against. -/
theorem C03_roots_certificate_commits (nfc : NFC) (H : Bytes → Bytes) (h₁ h₂ : Header) (ty₁ : C03CertTyped nfc H h₁)
    (ty₂ : C03CertTyped nfc H h₂)
    (he : certSigningBytes allSchemas nfc H h₁ = certSigningBytes allSchemas nfc H h₂) :
    h₁.id allSchemas nfc H = h₂.id allSchemas nfc H ∧ h₁.height = h₂.height ∧ h₁.timestamp = h₂.timestamp ∧
    h₁.stateRoot = h₂.stateRoot ∧ h₁.validatorsHash = h₂.validatorsHash := by
  have hs : allSchemas.find "certificate.SigningCertificate" = some schema12 := rfl
  have hm : schema12 ∈ allSchemas := find_mem hs
  have hl := ty₁.2
  simp only [certSigningBytes, Validators.encodeNamed, hs] at he hl
  have := C08_encode_injective_nested allSchemas C09rank nfc C08_allSchemas_deepWF schema12 hm 0 0 _ _ ty₁.1 ty₂.1 hl he
  simpa [certValues] using this

/-! ## non-vacuity of (b) -/

/-- the encoding of a small event -/
theorem C03_roots_event_example_encoding :
    (⟨[0x61], [0x62], [1], [[1], [2]], 7, 0⟩ : Event).encode allSchemas asciiNFC =
      [0x0a, 1, 0x61, 0x12, 1, 0x62, 0x1a, 1, 1, 0x22, 1, 1, 0x22, 1, 2, 0x28, 7, 0x30, 0] := by
  have hs : allSchemas.find "blockchain.Event" = some schema8 := rfl
  simp [Event.encode, Validators.encodeNamed, hs, encode, schema8, Event.values, encodeFields, writeKey, writeBytes,
    putUvarint_lt, asciiNFC]

example : C03EventTyped asciiNFC ⟨[0x61], [0x62], [1], [[1], [2]], 7, 0⟩ := by
  refine ⟨by decide +kernel, ?_⟩
  rw [C03_roots_event_example_encoding]
  decide

def C03exEvents : List Event := [⟨[0x61], [0x62], [1], [[1], [2]], 7, 0⟩, ⟨[0x61], [0x63], [], [[1]], 7, 1⟩]

example : C03EventsInBounds C03exEvents ∧ C03Indexed C03exEvents := by
  refine ⟨⟨by decide, by decide, by decide⟩, ?_⟩
  intro j hj
  have : j < 2 := hj
  match j, this with
  | 0, _ => rfl
  | 1, _ => rfl

/-- the collision-freeness hypothesis of `Roots.mapRoot_determines` / `C03_roots_event_root_determines_map` is
satisfiable: the 2-byte toy hash of Props/C10.lean has no collision on the inputs hashed for two tries with
12-byte keys that share 11 bytes (as the keys of two topics of one event do) — checked by kernel evaluation — and
the theorem separates the two maps, which differ in one value. -/
def C03exMap₁ : List KV := [([1, 2, 3, 4, 5, 6, 7, 8, 0, 0, 0, 0], [9]), ([1, 2, 3, 4, 5, 6, 7, 8, 0, 0, 0, 1], [9])]
def C03exMap₂ : List KV := [([1, 2, 3, 4, 5, 6, 7, 8, 0, 0, 0, 0], [9]), ([1, 2, 3, 4, 5, 6, 7, 8, 0, 0, 0, 1], [8])]

example : NoColl C10toyH (treeInputs C10toyH (8 * eventKeyLength) (entriesOf C03exMap₁))
      (treeInputs C10toyH (8 * eventKeyLength) (entriesOf C03exMap₂)) ∧
    mapRoot C10toyH eventKeyLength C03exMap₁ ≠ mapRoot C10toyH eventKeyLength C03exMap₂ := by
  have hnc : NoColl C10toyH (treeInputs C10toyH (8 * eventKeyLength) (entriesOf C03exMap₁))
      (treeInputs C10toyH (8 * eventKeyLength) (entriesOf C03exMap₂)) := by
    have : ∀ a ∈ treeInputs C10toyH (8 * eventKeyLength) (entriesOf C03exMap₁),
        ∀ b ∈ treeInputs C10toyH (8 * eventKeyLength) (entriesOf C03exMap₂), C10toyH a = C10toyH b → a = b := by
      decide +kernel
    exact this
  refine ⟨hnc, ?_⟩
  intro hr
  have k₁ : KeysLen eventKeyLength C03exMap₁ := by
    intro kv hkv; simp only [C03exMap₁, List.mem_cons, List.not_mem_nil, or_false] at hkv; rcases hkv with rfl | rfl <;> rfl
  have k₂ : KeysLen eventKeyLength C03exMap₂ := by
    intro kv hkv; simp only [C03exMap₂, List.mem_cons, List.not_mem_nil, or_false] at hkv; rcases hkv with rfl | rfl <;> rfl
  have := (mapRoot_determines C10toyH_length eventKeyLength C03exMap₁ C03exMap₂ (by unfold NoDupKeys; decide)
    (by unfold NoDupKeys; decide) k₁ k₂ hnc hr ([1, 2, 3, 4, 5, 6, 7, 8, 0, 0, 0, 1], [9])).mp (by decide)
  revert this
  decide
