/-
C18 — tie A for the life cycle: the `start` functions assign their Peer pointer unconditionally.

Gen/Life.lean is regenerated from pkg/p2p/{ratelimit,message_protocol,p2p,gossipsub}.go by tools/lifegen on
every check run (flat statement table: depth, guards, kind).  The theorems below are re-checked against the
regenerated table; they state exactly what Model/Lifecycle.lean assumes about the code:

* `rateLimit.start(logger, peer)` executes `rl.peer = peer` on EVERY call (statement of the function body
  itself, no `return` / branch / panic in front of it) - the model's `Rebind` for the rate limiter is `always`;
* `MessageProtocol.start(ctx, logger, peer)` executes `mp.peer = peer` and `mp.rateLimit.start(logger, peer)`
  on every call, with the Peer it was given;
* `Connection.Start` builds `peer` with `newPeer`, hands THAT peer to `conn.MessageProtocol.start` and stores it
  in `conn.Peer`; the only ways out of `Start` before those statements are the `if err != nil` error returns
  (a failed Start is a failed restart).
A guard such as `if rl.peer != nil { return }` in front of an assignment falsifies the corresponding theorem.
-/
import LiskVerif.Gen.Life
import LiskVerif.Model.Lifecycle

open LiskVerif LiskVerif.Gen.Life

/-- the statements of one function, in source order -/
def C18lgOf (fn : String) : List Stmt := stmts.filter (·.fn == fn)

/-- can this statement leave the function (or the enclosing loop) before the following ones run? -/
def C18lgExit (s : Stmt) : Bool :=
  s.kind == "return" || s.kind == "branch" ||
    ((s.kind == "call" || s.kind == "defer-call") && (s.a == "panic" || s.a == "os.Exit" || s.a == "runtime.Goexit"))

def C18lgBefore (fn : String) (s : Stmt) : List Stmt := (C18lgOf fn).filter (fun t => decide (t.seq < s.seq))

/-- `lhs = rhs` is executed by every call of `fn`: it is the only assignment to `lhs`, a statement of the
function body itself (depth 0, no guard), and nothing in front of it can leave the function -/
def C18lgAssignsAlways (fn lhs rhs : String) : Bool :=
  match (C18lgOf fn).filter (fun s => s.kind == "assign" && s.a == lhs) with
  | [s] => s.depth == 0 && s.guards.isEmpty && s.b == [rhs] && (C18lgBefore fn s).all (fun t => !C18lgExit t)
  | _ => false

/-- `callee(args)` is executed by every call of `fn` (same conditions) -/
def C18lgCallsAlways (fn callee : String) (args : List String) : Bool :=
  match (C18lgOf fn).filter (fun s => s.kind == "call" && s.a == callee) with
  | [s] => s.depth == 0 && s.guards.isEmpty && s.b == args && (C18lgBefore fn s).all (fun t => !C18lgExit t)
  | _ => false

/-- the statement is on the straight path of `fn` and the only exits in front of it are error returns
(`if err != nil { ...; return err }`) -/
def C18lgOnStraightPath (fn : String) (s : Stmt) : Bool :=
  s.depth == 0 && s.guards.isEmpty &&
    (C18lgBefore fn s).all (fun t => !C18lgExit t || (t.guards == ["if err != nil"] && t.kind == "return" && t.a == "err"))

/-- `lhs = rhs` is executed by every call of `fn` that does not fail with an error return in front of it -/
def C18lgAssignsOnSuccess (fn lhs rhs : String) : Bool :=
  match (C18lgOf fn).filter (fun s => s.kind == "assign" && s.a == lhs) with
  | [s] => s.b == [rhs] && C18lgOnStraightPath fn s
  | _ => false

def C18lgParams (fn : String) : Option (List String) := (fns.find? (·.name == fn)).map (·.params)

/-- the functions of the extraction list all exist -/
theorem C18_lifegen_functions_present :
    C18lgParams "rateLimit.start" = some ["logger", "peer"] ∧
    C18lgParams "MessageProtocol.start" = some ["ctx", "logger", "peer"] ∧
    C18lgParams "Connection.Start" = some ["seed"] ∧
    (fns.filter (·.params == ["MISSING"])) = [] := by decide +kernel

/-- **`rateLimit.start` assigns `rl.peer = peer` unconditionally.** -/
theorem C18_lifegen_ratelimit_start_assigns_always :
    C18lgAssignsAlways "rateLimit.start" "rl.peer" "peer" = true := by decide +kernel

/-- **`MessageProtocol.start` assigns `mp.peer = peer` and starts the rate limiter with the same Peer,
unconditionally.** -/
theorem C18_lifegen_mp_start_assigns_and_forwards :
    C18lgAssignsAlways "MessageProtocol.start" "mp.peer" "peer" = true ∧
    C18lgCallsAlways "MessageProtocol.start" "mp.rateLimit.start" ["logger", "peer"] = true := by decide +kernel

/-- **`Connection.Start` hands the Peer it has just built to the message protocol and keeps it.**
`peer` is assigned once, from `newPeer(...)`; `conn.MessageProtocol.start(ctx, conn.logger, peer)` and
`conn.Peer = peer` come after it on the straight path, with only error returns in front. -/
theorem C18_lifegen_connection_start_passes_new_peer :
    (match (C18lgOf "Connection.Start").filter (fun s => s.kind == "assign" && s.a == "peer"),
           (C18lgOf "Connection.Start").filter (fun s => s.kind == "call" && s.a == "conn.MessageProtocol.start"),
           (C18lgOf "Connection.Start").filter (fun s => s.kind == "assign" && s.a == "conn.Peer") with
     | [p], [c], [a] =>
       p.b == ["newPeer(ctx, &conn.wg, conn.logger, seed, conn.cfg)"] && C18lgOnStraightPath "Connection.Start" p &&
       c.b == ["ctx", "conn.logger", "peer"] && C18lgOnStraightPath "Connection.Start" c && decide (p.seq < c.seq) &&
       a.b == ["peer"] && C18lgOnStraightPath "Connection.Start" a && decide (p.seq < a.seq)
     | _, _, _ => false) = true := by decide +kernel

/-- the `Rebind` behaviour read off the source: a `start` function whose assignment is unconditional re-binds
whatever the present binding is -/
def C18lgRebind (fn lhs rhs : String) : Lifecycle.Rebind := fun _ => C18lgAssignsAlways fn lhs rhs

/-- the same for `Connection.Start` (a successful Start: the error returns in front are failed restarts) -/
def C18lgRebindOnSuccess (fn lhs rhs : String) : Lifecycle.Rebind := fun _ => C18lgAssignsOnSuccess fn lhs rhs

/-- **The model's restart is the restart of the code as extracted**: with the `Rebind`s read off
`MessageProtocol.start`, `rateLimit.start` and `Connection.Start`, `restartWith` is `restart`. -/
theorem C18_lifegen_restart_is_model (l : Lifecycle.LNode) (bl : List (Option ConnGater.IP)) :
    Lifecycle.restartWith (C18lgRebind "MessageProtocol.start" "mp.peer" "peer")
      (C18lgRebind "rateLimit.start" "rl.peer" "peer") (C18lgRebindOnSuccess "Connection.Start" "conn.Peer" "peer") l bl
      = Lifecycle.restart l bl := by
  have h1 : C18lgRebind "MessageProtocol.start" "mp.peer" "peer" = Lifecycle.always := by
    funext b; exact C18_lifegen_mp_start_assigns_and_forwards.1
  have h2 : C18lgRebind "rateLimit.start" "rl.peer" "peer" = Lifecycle.always := by
    funext b; exact C18_lifegen_ratelimit_start_assigns_always
  have h3 : C18lgRebindOnSuccess "Connection.Start" "conn.Peer" "peer" = Lifecycle.always := by
    funext b
    show C18lgAssignsOnSuccess "Connection.Start" "conn.Peer" "peer" = true
    decide +kernel
  rw [h1, h2, h3]
  rfl

/-- `GossipSub.start(ctx, wg, p, sk, cfg)` keeps the Peer it was given (`gs.peer = p`) on every successful
start as well (not a penalty path; the loopback life-cycle scenarios report its binding next to the others). -/
theorem C18_lifegen_gossip_start_rebinds :
    C18lgAssignsOnSuccess "GossipSub.start" "gs.peer" "p" = true ∧
    (match (C18lgOf "Connection.Start").filter (fun s => s.kind == "call" && s.a == "conn.GossipSub.start") with
     | [c] => c.b == ["ctx", "&conn.wg", "peer", "sk", "conn.cfg"] && C18lgOnStraightPath "Connection.Start" c
     | _ => false) = true := by decide +kernel
