/-
C16 — start-up contract between engine and application (tie A, see Props/C13_Wire.lean for the table).
`C16_init_recovers_*` (Props/C16.lean) assumes that `ABI.Init` is called with the height and state root of the
ENGINE's tip after the engine finished its own recovery, and that stale execution contexts were cleared
before.  These theorems state that `Engine.Start` does exactly that.
-/
import LiskVerif.Lemmas.Wire

open LiskVerif LiskVerif.Wire

theorem C16_wire_abi_init_gets_engine_tip :
    wired "Engine.Start" "labi.InitRequest" "LastBlockHeight" "e.chain.LastBlock().Header.Height" = true ∧
    wired "Engine.Start" "labi.InitRequest" "LastStateRoot" "e.chain.LastBlock().Header.StateRoot" = true ∧
    wired "Engine.Start" "labi.InitRequest" "ChainID" "e.config.Genesis.ChainID" = true ∧
    fieldsOf "Engine.Start" "labi.InitRequest" = ["ChainID", "LastBlockHeight", "LastStateRoot"] := by decide +kernel

theorem C16_wire_clear_before_consensus_init_before_abi_init :
    before "Engine.Start" "e.abi.Clear" "e.consensusExec.Init" = true ∧
    before "Engine.Start" "e.consensusExec.Init" "e.abi.Init" = true ∧
    argsOf "Engine.Start" "e.abi.Clear" = some ["&labi.ClearRequest{}"] := by decide +kernel

/-- every component talks to the one application handle given to `NewEngine` -/
theorem C16_wire_one_abi :
    wired "NewEngine" "Engine" "abi" "abi" = true ∧
    wired "Engine.init" "consensus.ExecuterConfig" "ABI" "e.abi" = true ∧
    wired "Engine.init" "generator.GeneratorParams" "ABI" "e.abi" = true ∧
    wired "NewExecuter" "Executer" "abi" "config.ABI" = true := by decide +kernel
