/-
C14 — Transaction pool keeps its indexes consistent, bounded and live.

Property theorems about `LiskVerif.Model.TxPool`, the sequential model of pkg/txpool (with the fixes
/verif/fixes/C14-*.patch).  The invariant `C14Inv` is defined in `LiskVerif/Lemmas/TxPoolInv.lean`; its
preservation by `remove`, `evict`, `add`, `reorg` is proved in `Lemmas/TxPoolInv.lean`, `TxPoolAdd.lean`,
`TxPoolReorg.lean`; `Lemmas/TxPoolProc.lean` has the facts about promotion and the replacement rule.

All statements quantify over every configuration with limits ≥ 1, every history `ops` (adds with any
verifier answer / publish answer / tie-break, removes, promotion rounds with any verifier function, block
applied / reverted notifications) started from the empty pool.

Liveness: every model operation is a total function (Lean's termination checker), i.e. the sequential
code of each pool method terminates; what can still block a call is a mutex.  `C14_no_reentrant_lock`
checks the lock discipline of the fixed source, written down as data (`fixedTable`, hand-extracted from
pkg/txpool/txpool.go and txlist.go): no path acquires a mutex it already holds, takes the pool mutex under
a list mutex, or waits for goroutines that need a mutex it holds.  `C14_original_self_deadlock` shows the
same check failing on the unpatched source (`Add` → `evictUnprocessable` → `RLock`).
-/
import LiskVerif.Lemmas.TxPoolProc

open LiskVerif LiskVerif.TxPool

/-- The invariant holds for the empty pool. -/
theorem C14_inv_init (cfg : Cfg) : C14Inv cfg {} := init_inv cfg

/-- Every operation preserves the invariant. -/
theorem C14_inv_step (cfg : Cfg) (hmax : 1 ≤ cfg.maxTx) (hper : 1 ≤ cfg.maxPerAcct) (p : Pool)
    (h : C14Inv cfg p) (op : Op) : C14Inv cfg (applyOp cfg p op) := applyOp_inv hmax hper h op

/-- Hence it holds after every history. -/
theorem C14_inv_all (cfg : Cfg) (hmax : 1 ≤ cfg.maxTx) (hper : 1 ≤ cfg.maxPerAcct) (ops : List Op) :
    C14Inv cfg (run cfg ops) := run_inv hmax hper ops

/-- The three indexes agree: every pooled transaction sits in the list of its sender at its nonce,
every list entry is pooled and belongs to that sender, there is one list per sender, no list is empty,
and the fee queue holds exactly the pooled transactions. -/
theorem C14_indexes_agree (cfg : Cfg) (hmax : 1 ≤ cfg.maxTx) (hper : 1 ≤ cfg.maxPerAcct) (ops : List Op) :
    let p := run cfg ops
    (∀ t ∈ p.all, ∃ a, findAcct p.accts t.sender = some a ∧ a.get t.nonce = some t) ∧
    (∀ e ∈ p.accts, e.2.txs ≠ [] ∧ ∀ t ∈ e.2.txs, t ∈ p.all ∧ t.sender = e.1 ∧ e.2.get t.nonce = some t) ∧
    (p.accts.map (·.1)).Nodup ∧ (p.all.map (·.id)).Nodup ∧ p.heap.Perm p.all := by
  intro p
  have h : C14Inv cfg p := run_inv hmax hper ops
  refine ⟨?_, ?_, h.acctsNodup, h.allNodup, h.heapPerm⟩
  · intro t ht
    obtain ⟨a, ha, hta⟩ := h.allInAcct t ht
    exact ⟨a, findAcct_of_mem h.acctsNodup ha, get_of_mem (h.acctOk _ ha).nodup hta⟩
  · intro e he
    have hai := h.acctOk e he
    exact ⟨hai.nonempty, fun t ht => ⟨h.acctInAll e he t ht, hai.sender t ht, get_of_mem hai.nodup ht⟩⟩

/-- Sizes stay within the configured limits. -/
theorem C14_bounded (cfg : Cfg) (hmax : 1 ≤ cfg.maxTx) (hper : 1 ≤ cfg.maxPerAcct) (ops : List Op) :
    (run cfg ops).all.length ≤ cfg.maxTx ∧ (run cfg ops).heap.length ≤ cfg.maxTx ∧
    ∀ e ∈ (run cfg ops).accts, e.2.txs.length ≤ cfg.maxPerAcct := by
  have h : C14Inv cfg (run cfg ops) := run_inv hmax hper ops
  exact ⟨h.bounded, by rw [h.heapPerm.length_eq]; exact h.bounded, fun e he => (h.acctOk e he).bound⟩

/-- At most one transaction per sender and nonce; a transaction that takes an occupied slot evicts the old
one from all three indexes, and — unless the pool was full, in which case the capacity eviction may already
have removed the old one — it pays at least the old fee plus the configured minimum difference. -/
theorem C14_unique_nonce_and_replacement (cfg : Cfg) (hmax : 1 ≤ cfg.maxTx) (hper : 1 ≤ cfg.maxPerAcct)
    (ops : List Op) :
    let p := run cfg ops
    (∀ x ∈ p.all, ∀ y ∈ p.all, x.sender = y.sender → x.nonce = y.nonce → x = y) ∧
    ∀ (tx old : Tx) (v : Verdict) (pubOk : Bool) (tie : Nat),
      old ∈ p.all → old.sender = tx.sender → old.nonce = tx.nonce → old.id ≠ tx.id →
      let p' := (add cfg p tx v pubOk tie).1
      tx ∈ p'.all →
        (old ∉ p'.all ∧ old ∉ p'.heap ∧ ∀ e ∈ p'.accts, old ∉ e.2.txs) ∧
        (p.all.length < cfg.maxTx → old.fee + cfg.minFeeDiff ≤ tx.fee) := by
  intro p
  have h : C14Inv cfg p := run_inv hmax hper ops
  refine ⟨fun x hx y hy hs hn => inv_unique_slot h hx hy hs hn, ?_⟩
  intro tx old v pubOk tie hold hs hn hne p' hin
  have h' : C14Inv cfg p' := add_inv hmax hper h tx v pubOk tie
  have hgone : old ∉ p'.all := by
    intro ho
    exact hne (congrArg Tx.id (inv_unique_slot h' ho hin hs hn))
  refine ⟨⟨hgone, fun ho => hgone (h'.heapPerm.mem_iff.1 ho), fun e he ho => hgone (h'.acctInAll e he old ho)⟩, ?_⟩
  intro hroom
  exact add_replacement_fee hper h tx old v pubOk tie hold hs hn hne hroom hin

/-- Each sender's processable set is strictly ascending without gaps and every processable nonce has its
transaction in the list. -/
theorem C14_processable_gapfree (cfg : Cfg) (hmax : 1 ≤ cfg.maxTx) (hper : 1 ≤ cfg.maxPerAcct) (ops : List Op) :
    ∀ e ∈ (run cfg ops).accts,
      e.2.proc.Pairwise (· < ·) ∧
      (∀ x ∈ e.2.proc, ∀ y ∈ e.2.proc, ∀ z, x ≤ z → z ≤ y → z ∈ e.2.proc) ∧
      (∀ n ∈ e.2.proc, ∃ t, e.2.get n = some t) := by
  intro e he
  have hai := (run_inv hmax hper ops).acctOk e he
  refine ⟨hai.gapfree.1, hai.gapfree.2, ?_⟩
  intro n hn
  obtain ⟨t, ht, htn⟩ := hai.procIn n hn
  obtain ⟨t', ht'⟩ := get_isSome_of_mem ht
  exact ⟨t', htn ▸ ht'⟩

private theorem blockApplied_isProc (ids : List Nat) : ∀ (p : Pool) (t : Tx),
    isProc (blockApplied p ids) t → isProc p t := by
  unfold blockApplied
  induction ids with
  | nil => intro p t h; exact h
  | cons x r ih => intro p t h; exact remove_isProc p x t (ih _ t h)

private theorem blockReverted_isProc {cfg : Cfg} (hmax : 1 ≤ cfg.maxTx) (hper : 1 ≤ cfg.maxPerAcct)
    (l : List AddArg) : ∀ (p : Pool), C14Inv cfg p → ∀ t, isProc (blockReverted cfg p l) t → isProc p t := by
  unfold blockReverted
  induction l with
  | nil => intro p _ t h; exact h
  | cons x r ih =>
    intro p hp t h
    exact add_isProc hper hp x.tx x.v x.pubOk x.tie t (ih _ (add_inv hmax hper hp x.tx x.v x.pubOk x.tie) t h)

/-- Only a promotion round makes a transaction processable, and only if the verifier was asked about it in
that round and did not answer `invalid` (an answer `pending` is treated like `ok` by `verifyTransactions`
— see `C14_finding_pending_promoted`). -/
theorem C14_promotion_verified (cfg : Cfg) (hmax : 1 ≤ cfg.maxTx) (hper : 1 ≤ cfg.maxPerAcct) (ops : List Op)
    (op : Op) (t : Tx) (ht : isProc (applyOp cfg (run cfg ops) op) t) :
    isProc (run cfg ops) t ∨ ∃ v, op = Op.reorg v ∧ v t.id ≠ Verdict.invalid := by
  have h : C14Inv cfg (run cfg ops) := run_inv hmax hper ops
  cases op with
  | add x => exact Or.inl (add_isProc hper h x.tx x.v x.pubOk x.tie t ht)
  | remove id => exact Or.inl (remove_isProc _ id t ht)
  | reorg v =>
    rcases reorg_isProc h v t ht with h1 | h1
    · exact Or.inl h1
    · exact Or.inr ⟨v, rfl, h1⟩
  | applied ids => exact Or.inl (blockApplied_isProc ids _ t ht)
  | reverted l => exact Or.inl (blockReverted_isProc hmax hper l _ h t ht)

/-- `removeLocked` never dereferences a missing sender list (no nil-pointer panic). -/
theorem C14_no_panic (cfg : Cfg) (hmax : 1 ≤ cfg.maxTx) (hper : 1 ≤ cfg.maxPerAcct) (ops : List Op) :
    (run cfg ops).fault = false := (run_inv hmax hper ops).noFault

/-- Lock discipline of the fixed source: no entry point re-acquires a mutex it holds, violates the lock
order pool → list, or waits for goroutines needing a held mutex; every entry point releases what it took. -/
theorem C14_no_reentrant_lock : lockCheck fixedTable = true := by decide

/-- The unpatched source fails the same check: `Add` holds the pool mutex and calls `evictUnprocessable`,
which read-locks it again (and `remove`, which locks it) — a self-deadlock once the pool is full. -/
theorem C14_original_self_deadlock : lockCheck originalTable = false ∧ (walk originalTable 8 Fn.AddTx {}).ok = false := by
  decide

/-- Known finding (kept in the model as the code behaves): a transaction the verifier answered `pending`
is promoted to processable. -/
theorem C14_finding_pending_promoted :
    let cfg : Cfg := { maxTx := 4, maxPerAcct := 4, minFeeDiff := 1, minEntrance := 0 }
    let t : Tx := { id := 7, sender := 1, nonce := 5, fee := 1000, size := 100 }
    let p := run cfg [Op.add { tx := t, v := .pending, pubOk := true, tie := 0 }, Op.reorg (fun _ => .pending)]
    p.accts.map (fun e => (e.1, e.2.proc)) = [(1, [5])] := by
  decide

/-! ### non-vacuity -/

namespace C14Examples

def cfg : Cfg := { maxTx := 2, maxPerAcct := 2, minFeeDiff := 10, minEntrance := 0 }
def t1 : Tx := { id := 1, sender := 1, nonce := 0, fee := 1000, size := 100 }
def t2 : Tx := { id := 2, sender := 1, nonce := 0, fee := 5000, size := 100 }
def t2low : Tx := { id := 5, sender := 1, nonce := 0, fee := 1009, size := 100 }
def t3 : Tx := { id := 3, sender := 2, nonce := 0, fee := 9000, size := 100 }
def t4 : Tx := { id := 4, sender := 3, nonce := 0, fee := 99000, size := 100 }
def arg (t : Tx) : AddArg := { tx := t, v := .ok, pubOk := true, tie := 0 }

/-- replacement with a sufficient fee removes the old transaction from every index; then the pool fills up
and the fourth transaction evicts the cheapest one (this history deadlocks the unpatched code) -/
example : (run cfg [.add (arg t1), .add (arg t2), .add (arg t3), .add (arg t4)]).all.map (·.id) = [4, 3] := by decide
example : (run cfg [.add (arg t1), .add (arg t2)]).heap.map (·.id) = [2] := by decide
/-- below the minimum fee difference the old transaction stays -/
example : (run cfg [.add (arg t1), .add (arg t2low)]).all.map (·.id) = [1] := by decide
/-- promotion of a gap-free run; an invalid verdict promotes the prefix before it and drops the rest -/
example :
    let a : Tx := { id := 10, sender := 1, nonce := 0, fee := 1000, size := 100 }
    let b : Tx := { id := 11, sender := 1, nonce := 1, fee := 1000, size := 100 }
    let c5 : Cfg := { maxTx := 5, maxPerAcct := 2, minFeeDiff := 10, minEntrance := 0 }
    (run c5 [.add (arg a), .add (arg b), .reorg (fun _ => .ok)]).accts.map (fun e => e.2.proc) = [[0, 1]] ∧
    (let q := run c5 [.add (arg a), .add (arg b), .reorg (fun id => if id = 11 then .invalid else .ok)]
     q.all.map (·.id) = [10] ∧ q.accts.map (fun e => e.2.proc) = [[0]]) := by
  decide
example : ∃ p t, isProc p t :=
  ⟨{ accts := [(1, { txs := [t1], proc := [0] })] }, t1, _, List.mem_cons_self, List.mem_cons_self, List.mem_cons_self⟩

end C14Examples
