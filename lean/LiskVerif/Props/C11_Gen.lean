/-
C11 — tie of the index arithmetic of `Model/RMT.lean` to the Go source: the integer helpers of
pkg/trie/rmt (util.go, rmt.go) are REGENERATED from the Go source on every run by tools/fngen (typed
translation, `LiskVerif/Gen/Fns2.lean`) with the exact semantics of `uint64` (wrap modulo 2^64, shifts,
bitwise operators):

* `isLeft`, `areSiblings`, the constant `rootIndex`;
* `getRightSiblingInfo`: the sibling index `((nodeIndex >> 1) << 1) + ((nodeIndex + 1) % 2)`
  (`Gen.rmtSiblingNodeIndex`), one iteration of the descent loop
  `for siblingNodeIndex >= uint64(structure[siblingLayerIndex]) && siblingLayerIndex > 0 { … }`
  (`Gen.rmtSiblingDescendStep`) and the final range check (`Gen.rmtSiblingOutOfRange`);
* `parentIdx := currentIdx >> 1` of `getSiblingHashes` (all three occurrences) and
  `parentIdx := idx >> 1` of `calculatePathNodes`;
* `dir := (d.size >> h) & 1` of `Append`.

Not translated (reported by the translator as unsupported if tried): `getHeight`,
`getLayerStructure`, `intToBinary` (float64 `math.Log2/Ceil/Floor`), `areSameLayer`/`length`/
`nodeLocation.index`/`newNodeLocation`/`findInsertIndex` (`strconv.FormatInt/ParseInt` strings).
-/
import LiskVerif.Model.RMT
import LiskVerif.Lemmas.GenInt

open LiskVerif LiskVerif.RMT

/-! ### isLeft, areSiblings, rootIndex, parent index, append direction -/

/-- `isLeft(index)` is the model's `index % 2 == 0` (used by `siblingLoop` and `calcLoop`) -/
theorem C11_gen_is_left_eq (index : Nat) : Gen.rmtIsLeft index = (index % 2 == 0) := by
  unfold Gen.rmtIsLeft
  rw [Nat.and_one_is_mod]
  by_cases h : index % 2 = 0 <;> simp [h]

/-- `areSiblings(idx1, idx2)` is the model's `(cur ^^^ nx) == 1` -/
theorem C11_gen_are_siblings_eq (a b : Nat) : Gen.rmtAreSiblings a b = ((a ^^^ b) == 1) := by
  unfold Gen.rmtAreSiblings
  by_cases h : a ^^^ b = 1 <;> simp [h]

/-- the root index the loops of `getSiblingHashes` / `calculatePathNodes` stop at (`cur == 2`, `idx == 2`) -/
theorem C11_gen_root_index : Gen.rmtRootIndex = 2 := rfl

/-- `parentIdx := currentIdx >> 1` (every occurrence in `getSiblingHashes`) and `parentIdx := idx >> 1`
(`calculatePathNodes`) are the model's `cur / 2`, `idx / 2` -/
theorem C11_gen_parent_idx_eq (i : Nat) : Gen.rmtParentIdx i = i / 2 ∧ Gen.rmtPathParentIdx i = i / 2 := by
  unfold Gen.rmtParentIdx Gen.rmtPathParentIdx
  simp [Nat.shiftRight_eq_div_pow]

/-- `dir := (d.size >> h) & 1` of `Append` is bit `h` of the size: the `sz % 2` tested by
`RMT.foldBits` after `h` halvings -/
theorem C11_gen_append_dir_eq (size h : Nat) : Gen.rmtAppendDir size h = (size / 2 ^ h) % 2 := by
  unfold Gen.rmtAppendDir
  rw [Nat.and_one_is_mod, Nat.shiftRight_eq_div_pow]

/-! ### getRightSiblingInfo -/

/-- the regenerated sibling index is the model's `(node / 2) * 2 + (node + 1) % 2` for EVERY `uint64`
(at `2^64 - 1` the wrapped `nodeIndex + 1` is 0, which is even like `2^64`) -/
theorem C11_gen_sibling_node_index_eq (node : Nat) (h : node < 2 ^ 64) :
    Gen.rmtSiblingNodeIndex node = (node / 2) * 2 + (node + 1) % 2 := by
  unfold Gen.rmtSiblingNodeIndex
  rw [Nat.shiftRight_eq_div_pow, Nat.shiftLeft_eq]
  omega

/-- one iteration of the descent loop, for a node index below 2^63 (no wrap of `<<= 1`), a `uint64`
layer index and a non-negative layer size (`structure` is an `[]int` of sizes) -/
theorem C11_gen_descend_step_eq (n l s : Nat) (hn : n < 2 ^ 63) (hl : l < 2 ^ 64) (hs : s < 2 ^ 63) :
    Gen.rmtSiblingDescendStep n l (s : Int) = if n ≥ s && l > 0 then some (n * 2, l - 1) else none := by
  unfold Gen.rmtSiblingDescendStep
  rw [Gen.toNat_emod64 (by omega), Nat.shiftLeft_eq]
  by_cases hc : (decide (n ≥ s) && decide (l > 0)) = true
  · rw [if_pos hc, if_pos hc]
    have hl0 : l > 0 := by
      simp only [Bool.and_eq_true, decide_eq_true_eq] at hc
      exact hc.2
    have ea : n * 2 ^ 1 % 18446744073709551616 = n * 2 := by omega
    have eb : (l + 18446744073709551616 - 1) % 18446744073709551616 = l - 1 := by omega
    show some (n * 2 ^ 1 % 18446744073709551616, (l + 18446744073709551616 - 1) % 18446744073709551616) = _
    rw [ea, eb]
  · rw [if_neg hc, if_neg hc]

/-- **`RMT.descend` is the iteration of the regenerated loop step** (layer sizes below 2^63, which
covers every tree of fewer than 2^63 leaves) -/
theorem C11_gen_descend_eq (st : List Nat) (f n l : Nat) (hn : n < 2 ^ 63) (hl : l < 2 ^ 64)
    (hs : st.getD l 0 < 2 ^ 63) :
    descend st (f + 1) n l =
      match Gen.rmtSiblingDescendStep n l ((st.getD l 0 : Nat) : Int) with
      | some (n', l') => descend st f n' l'
      | none => (l, n) := by
  rw [C11_gen_descend_step_eq n l _ hn hl hs]
  simp only [descend]
  by_cases h : (n ≥ st.getD l 0 && l > 0) = true
  · simp only [h, ↓reduceIte]
  · simp only [h, ↓reduceIte, Bool.false_eq_true]

/-- the wrap outside the range: at node index `2^63` the Go loop doubles to 0, the model to `2^64` -/
theorem C11_gen_descend_step_wraps :
    Gen.rmtSiblingDescendStep (2 ^ 63) 1 1 = some (0, 0) := by decide +kernel

/-- **`RMT.rightSiblingInfo` with the regenerated sibling index and range check** -/
theorem C11_gen_right_sibling_info_eq (st : List Nat) (node layer size : Nat) (h : node < 2 ^ 64) :
    rightSiblingInfo st node layer size =
      (let l := descend st (layer + 1) (Gen.rmtSiblingNodeIndex node) layer
       if Gen.rmtSiblingOutOfRange l.2 size = true then none else some l) := by
  unfold rightSiblingInfo Gen.rmtSiblingOutOfRange
  rw [C11_gen_sibling_node_index_eq node h]
  simp only [decide_eq_true_eq]

/-! ### non-vacuity -/

example : Gen.rmtIsLeft 6 = true ∧ Gen.rmtIsLeft 7 = false ∧ Gen.rmtAreSiblings 6 7 = true ∧
    Gen.rmtAreSiblings 5 6 = false ∧ Gen.rmtSiblingNodeIndex 6 = 7 ∧ Gen.rmtSiblingNodeIndex 7 = 6 ∧
    Gen.rmtSiblingNodeIndex (2 ^ 64 - 1) = 2 ^ 64 - 2 ∧
    Gen.rmtSiblingDescendStep 3 2 3 = some (6, 1) ∧ Gen.rmtSiblingDescendStep 2 2 3 = none ∧
    Gen.rmtSiblingDescendStep 3 0 3 = none ∧ Gen.rmtSiblingOutOfRange 5 5 = true ∧
    Gen.rmtParentIdx 13 = 6 ∧ Gen.rmtAppendDir 5 0 = 1 ∧ Gen.rmtAppendDir 5 1 = 0 ∧ Gen.rmtAppendDir 5 2 = 1 := by
  decide +kernel

/-- the right sibling of leaf 2 in a tree of 5 leaves (layers [5, 3, 2, 1]) is the leaf 3 -/
example : rightSiblingInfo [5, 3, 2, 1] 2 0 5 = some (0, 3) := by
  rw [C11_gen_right_sibling_info_eq _ _ _ _ (by decide)]
  decide +kernel
