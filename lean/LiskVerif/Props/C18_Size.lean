/-
C18 — message SIZES: "well-formed traffic within the limits never [leads to penalties]" holds for every size.

`Props/C18_Envelope.lean` classifies the BYTES a stream delivered with the codec model over the p2p schemas
regenerated from pkg/p2p/message_codec.go.  Here the well-formed side is stated for ALL payload sizes: the
request / response layer has no size limit of its own, so whatever the length of the payload,

  * `C18_size_request_wellformed_any_size`, `C18_size_response_wellformed_any_size` — the node's own encoding
    of a request (id, procedure, data) / response (id, procedure, data, error) is classified as
    `MsgKind.proc <procedure>`, never as malformed (corollaries of the codec round trip `C08_roundtrip_flat`
    on the regenerated schemas; no bound on `data` other than Go's 2^63);
  * `C18_size_wellformed_message_costs_nothing` — such a message to a registered procedure, the first of its
    window, with a limit of at least 1: the gater (penalty table, block list) is unchanged, no connection is
    closed, a request reaches its handler — for every payload size;
  * `C18_size_limited_read_bans_wellformed` — why the stream must be read to its end: a reader that stops after
    `L` bytes (`io.LimitReader`) turns a well-formed envelope longer than `L` into a malformed one; the sender is
    banned and disconnected (kernel evaluation of a concrete instance; the harness C18SIZE sweeps the real
    handlers with sizes 2^k ± 1 up to 4 MiB and with the largest legitimate message, the 103-block answer of
    getBlocksFromId).
-/
import LiskVerif.Props.C18_Envelope
import LiskVerif.Props.C08_Msg

open LiskVerif LiskVerif.Codec LiskVerif.ConnGater LiskVerif.RateLimit LiskVerif.Envelope

/-- the field lists of `p2p.Request` (id, procedure: string; data: bytes) -/
def C18reqFields (st : Bool) : List Field := [⟨1, .string, st⟩, ⟨2, .string, st⟩, ⟨3, .bytes, st⟩]

/-- the field lists of `p2p.responseMsg` (id, procedure: string; data: bytes; error: string) -/
def C18resFields (st : Bool) : List Field := [⟨1, .string, st⟩, ⟨2, .string, st⟩, ⟨3, .bytes, st⟩, ⟨4, .string, st⟩]

/-- the regenerated table contains the two envelope schemas with exactly these field lists -/
theorem C18_size_envelope_schemas :
    (Gen.allSchemas.find "p2p.Request").map (fun s => (s.enc, s.dec, s.decStrict)) =
      some (C18reqFields false, C18reqFields false, C18reqFields true) ∧
    (Gen.allSchemas.find "p2p.responseMsg").map (fun s => (s.enc, s.dec, s.decStrict)) =
      some (C18resFields false, C18resFields false, C18resFields true) := by
  decide +kernel

private theorem req_fields {s : Schema} (hs : Gen.allSchemas.find "p2p.Request" = some s) :
    s.enc = C18reqFields false ∧ s.dec = C18reqFields false ∧ s.decStrict = C18reqFields true := by
  have h := C18_size_envelope_schemas.1
  rw [hs] at h
  simp only [Option.map_some, Option.some.injEq, Prod.mk.injEq] at h
  exact h

private theorem res_fields {s : Schema} (hs : Gen.allSchemas.find "p2p.responseMsg" = some s) :
    s.enc = C18resFields false ∧ s.dec = C18resFields false ∧ s.decStrict = C18resFields true := by
  have h := C18_size_envelope_schemas.2
  rw [hs] at h
  simp only [Option.map_some, Option.some.injEq, Prod.mk.injEq] at h
  exact h

private theorem req_flat {s : Schema} (hs : Gen.allSchemas.find "p2p.Request" = some s) :
    C08Flat s = true ∧ C08NoUints s = true := by
  obtain ⟨h1, h2, h3⟩ := req_fields hs
  unfold C08Flat C08NoUints
  rw [h1, h2, h3]
  decide

private theorem res_flat {s : Schema} (hs : Gen.allSchemas.find "p2p.responseMsg" = some s) :
    C08Flat s = true ∧ C08NoUints s = true := by
  obtain ⟨h1, h2, h3⟩ := res_fields hs
  unfold C08Flat C08NoUints
  rw [h1, h2, h3]
  decide

/-- ASCII byte strings (ids are UUIDs, procedure names and error texts of the engine are ASCII) -/
def C18ascii (b : Bytes) : Bool := b.all (fun x => decide (x.toNat < 128))

private theorem ascii_utf8Valid : ∀ b : Bytes, C18ascii b = true → utf8Valid b = true := by
  intro b
  induction b with
  | nil => intro _; rfl
  | cons x b ih =>
    intro h
    simp only [C18ascii, List.all_cons, Bool.and_eq_true, decide_eq_true_eq] at h
    unfold utf8Valid
    simp [h.1, ih (by simpa [C18ascii] using h.2)]

/-- **A request envelope of ANY payload size is well formed.** The bytes `Request.Encode` produces for
(id, procedure, data) are classified by `onRequest` as a message for `procedure` — there is no payload length
from which on they would count as malformed. -/
theorem C18_size_request_wellformed_any_size (s : Schema) (hs : Gen.allSchemas.find "p2p.Request" = some s)
    (rid proc data : Bytes) (hid : C18ascii rid = true) (hidl : rid.length < 2 ^ 63)
    (hp : C18ascii proc = true) (hpl : proc.length < 2 ^ 63) (hd : data.length < 2 ^ 63) :
    kindOf Gen.allSchemas asciiNFC true
      (encode Gen.allSchemas asciiNFC s [.bytes rid, .bytes proc, .bytes data]) = .proc (nameOf proc) := by
  obtain ⟨hflat, hnu⟩ := req_flat hs
  have hrt := (C08_roundtrip_flat Gen.allSchemas asciiNFC s [.bytes rid, .bytes proc, .bytes data] hflat (by
    rw [(req_fields hs).1]
    simp only [C18reqFields, C08Typed, C08TypedVal, Bool.and_eq_true, decide_eq_true_eq, asciiNFC, id,
      ascii_utf8Valid rid hid, ascii_utf8Valid proc hp]
    exact ⟨⟨⟨⟨hidl, trivial⟩, trivial⟩, trivial⟩, ⟨⟨⟨hpl, trivial⟩, trivial⟩, trivial⟩, hd, trivial⟩) (Or.inl hnu)).1
  have hn : schemaName true = "p2p.Request" := rfl
  simp only [kindOf, hn, hs, hrt]

/-- **A response envelope of ANY payload size is well formed** (with or without an error text). -/
theorem C18_size_response_wellformed_any_size (s : Schema) (hs : Gen.allSchemas.find "p2p.responseMsg" = some s)
    (rid proc data err : Bytes) (hid : C18ascii rid = true) (hidl : rid.length < 2 ^ 63)
    (hp : C18ascii proc = true) (hpl : proc.length < 2 ^ 63) (hd : data.length < 2 ^ 63)
    (he : C18ascii err = true) (hel : err.length < 2 ^ 63) :
    kindOf Gen.allSchemas asciiNFC false
      (encode Gen.allSchemas asciiNFC s [.bytes rid, .bytes proc, .bytes data, .bytes err]) = .proc (nameOf proc) := by
  obtain ⟨hflat, hnu⟩ := res_flat hs
  have hrt := (C08_roundtrip_flat Gen.allSchemas asciiNFC s [.bytes rid, .bytes proc, .bytes data, .bytes err] hflat (by
    rw [(res_fields hs).1]
    simp only [C18resFields, C08Typed, C08TypedVal, Bool.and_eq_true, decide_eq_true_eq, asciiNFC, id,
      ascii_utf8Valid rid hid, ascii_utf8Valid proc hp, ascii_utf8Valid err he]
    exact ⟨⟨⟨⟨hidl, trivial⟩, trivial⟩, trivial⟩, ⟨⟨⟨hpl, trivial⟩, trivial⟩, trivial⟩, hd,
      ⟨⟨⟨hel, trivial⟩, trivial⟩, trivial⟩, trivial⟩) (Or.inl hnu)).1
  have hn : schemaName false = "p2p.responseMsg" := rfl
  simp only [kindOf, hn, hs, hrt]

/-- **One well-formed message of any size costs its sender nothing.** On a node whose message protocol is
started and whose counters are at zero (a fresh window), bytes that are classified as a message for a
registered procedure with a limit of at least 1 leave the gater (penalty table and block list), the connections
and the record of closed peers unchanged; a request reaches its handler. By the two theorems above the
hypothesis `hk` holds for the node's own encoding of EVERY payload. -/
theorem C18_size_wellformed_message_costs_nothing (n : Node) (hmp : n.mpStarted = true)
    (hz : ∀ name pid, count n name pid = 0) (now : Nat) (isReq : Bool) (remote : Addr) (pid : Nat)
    (raw : Bytes) (name : String) (hk : kindOf Gen.allSchemas asciiNFC isReq raw = .proc name)
    (L : Int) (hL : C18limitOf n name = some L) (h1 : 1 ≤ L) :
    let n' := receiveStream Gen.allSchemas asciiNFC n now isReq remote pid (.data raw)
    n'.g = n.g ∧ n'.conns = n.conns ∧ n'.closed = n.closed ∧
      n'.handled = n.handled + (if isReq then 1 else 0) := by
  intro n'
  have hrs : n' = receive n now isReq remote pid (.proc name) :=
    C18_wellformed_envelope_not_penalised Gen.allSchemas asciiNFC n now isReq remote pid raw name hk
  have hleg : C18Legal (C18limitOf n) (fun _ _ => 0) [.msg now isReq remote pid (.proc name)] := by
    refine ⟨⟨L, hL, ?_⟩, trivial⟩
    simpa using h1
  have h := C18_legal_traffic_never_penalised n hmp hz [.msg now isReq remote pid (.proc name)] hleg
  have hrun : runEv n [.msg now isReq remote pid (.proc name)] = receive n now isReq remote pid (.proc name) := rfl
  rw [hrun, ← hrs] at h
  refine ⟨h.1, h.2.1, h.2.2.1, ?_⟩
  rw [h.2.2.2]
  cases isReq <;> rfl

/-! ### a reader that stops early -/

/-- what `io.ReadAll(io.LimitReader(s, L))` returns for a stream that delivers `raw`: the first `L` bytes, and no
error -/
def C18limitedRead (L : Nat) (raw : Bytes) : Bytes := raw.take L

/-- the request envelope id "a1", procedure "ping", 24 payload bytes (38 bytes on the wire) -/
def C18sizeEnvelope : Bytes :=
  [0x0a, 0x02, 0x61, 0x31, 0x12, 0x04, 0x70, 0x69, 0x6e, 0x67, 0x1a, 0x18] ++ List.replicate 24 0x55

/-- **A limited read turns a well-formed envelope into a malformed one.** The 38-byte envelope is a message
for "ping"; read through a 32-byte limit it is malformed, and (`C18_degenerate_envelopes_banned`) its honest
sender is banned and disconnected — although the rest of the envelope was on the stream.  Up to the limit the
two readers agree. -/
theorem C18_size_limited_read_bans_wellformed :
    kindOf Gen.allSchemas asciiNFC true C18sizeEnvelope = .proc "ping" ∧
    kindOf Gen.allSchemas asciiNFC true (C18limitedRead 32 C18sizeEnvelope) = .malformed ∧
    C18limitedRead 38 C18sizeEnvelope = C18sizeEnvelope ∧
    (∀ raw : Bytes, ∀ L, raw.length ≤ L → C18limitedRead L raw = raw) := by
  refine ⟨by decide +kernel, by decide +kernel, by decide +kernel, ?_⟩
  intro raw L h
  exact List.take_of_length_le h

/-- non-vacuity: the hypotheses of `C18_size_request_wellformed_any_size` are satisfiable, with a payload of
three million bytes -/
example : ∃ s, Gen.allSchemas.find "p2p.Request" = some s ∧
    C18ascii [0x61, 0x31] = true ∧ C18ascii [0x70, 0x69, 0x6e, 0x67] = true ∧
    (List.replicate 3000000 (0x55 : UInt8)).length < 2 ^ 63 := by
  have h : (Gen.allSchemas.find "p2p.Request").isSome = true := by decide +kernel
  obtain ⟨s, hs⟩ := Option.isSome_iff_exists.1 h
  refine ⟨s, hs, by decide, by decide, ?_⟩
  rw [List.length_replicate]
  omega
