/-
C12 — scans through the staged store refine the scans of the committed database.

`Range` / `Iterate` through the staged store (`scan`: store scan, `absorb` into the overlay,
`cacheLive`, `mergeSortLimit`) return exactly what the same scan returns on the database with the
staged writes applied, i.e. on the store that `Commit` would produce — for every filter, limit and
direction.  Helper lemmas: `LiskVerif/Lemmas/DiffDBScan.lean`.
-/
import LiskVerif.Props.C12
import LiskVerif.Lemmas.DiffDBScan

open LiskVerif LiskVerif.DiffDB

/-! ### restated cache-level lemmas (private in Props/C12.lean) -/

private theorem inv_ccache' {s : Store} {c : Cache} (h : C12CacheInv s c) {k v : Bytes}
    (hs : slookup s k = some v) : C12CacheInv s (ccache c k v) := by
  unfold ccache
  refine ⟨nodup_put c k _ h.nodupC, ?_, ?_, ?_⟩
  · intro k' cv hl
    rw [clookup_cput] at hl
    by_cases hk : k = k'
    · subst hk; simp at hl; subst hl; simp [hs]
    · simp [hk] at hl; exact h.initOk k' cv hl
  · intro k' cv hl hd
    rw [clookup_cput] at hl
    by_cases hk : k = k'
    · subst hk; simp at hl; subst hl; simp at hd
    · simp [hk] at hl; exact h.delOk k' cv hl hd
  · intro k' cv hl hd hd2
    rw [clookup_cput] at hl
    by_cases hk : k = k'
    · subst hk; simp at hl; subst hl; simp
    · simp [hk] at hl; exact h.cleanOk k' cv hl hd hd2

private theorem effC_ccache' {s : Store} {c : Cache} {k v : Bytes} (hc : clookup c k = none)
    (hs : slookup s k = some v) (k' : Bytes) : effC s (ccache c k v) k' = effC s c k' := by
  unfold effC ccache
  rw [clookup_cput]
  by_cases hk : k = k'
  · subst hk; simp [hc, hs]
  · simp [hk]

/-- `absorb` preserves the overlay invariant and the effective map; every entry it outputs is a
scanned key carrying its effective value. -/
private theorem absorb_spec {s : Store} (l : List KV) :
    ∀ (c : Cache), C12CacheInv s c → (∀ e ∈ l, slookup s e.1 = some e.2) →
      C12CacheInv s (absorb c l).1 ∧ (∀ k', effC s (absorb c l).1 k' = effC s c k') ∧
      ∀ e ∈ (absorb c l).2, effC s c e.1 = some e.2 ∧ ∃ e0 ∈ l, e0.1 = e.1 := by
  induction l with
  | nil => intro c h _; exact ⟨h, fun _ => rfl, fun e he => by cases he⟩
  | cons e r ih =>
    intro c h hl
    obtain ⟨k, v⟩ := e
    have hr : ∀ e ∈ r, slookup s e.1 = some e.2 := fun e he => hl e (List.mem_cons_of_mem _ he)
    unfold absorb
    cases hc : clookup c k with
    | some cv =>
      simp only
      have := ih c h hr
      by_cases hd : cv.deleted = true
      · simp only [hd, if_true]
        refine ⟨this.1, this.2.1, fun e he => ?_⟩
        obtain ⟨h1, e0, he0, h2⟩ := this.2.2 e he
        exact ⟨h1, e0, List.mem_cons_of_mem _ he0, h2⟩
      · simp only [hd]
        refine ⟨this.1, this.2.1, fun e he => ?_⟩
        rcases List.mem_cons.mp he with rfl | he'
        · refine ⟨?_, (k, v), List.mem_cons_self, rfl⟩
          simp [effC, hc, hd]
        · obtain ⟨h1, e0, he0, h2⟩ := this.2.2 e he'
          exact ⟨h1, e0, List.mem_cons_of_mem _ he0, h2⟩
    | none =>
      simp only
      have hs : slookup s k = some v := hl (k, v) List.mem_cons_self
      have := ih (ccache c k v) (inv_ccache' h hs) hr
      refine ⟨this.1, fun k' => ?_, fun e he => ?_⟩
      · rw [this.2.1 k', effC_ccache' hc hs k']
      · rcases List.mem_cons.mp he with rfl | he'
        · refine ⟨?_, (k, v), List.mem_cons_self, rfl⟩
          simp [effC, hc, hs]
        · obtain ⟨h1, e0, he0, h2⟩ := this.2.2 e he'
          rw [effC_ccache' hc hs] at h1
          exact ⟨h1, e0, List.mem_cons_of_mem _ he0, h2⟩

/-! ### the main theorem -/

private theorem mem_sortDir (l : List KV) (rev : Bool) (e : KV) : e ∈ sortDir l rev ↔ e ∈ l := by
  unfold sortDir; cases rev <;> simp [mem_isort]

/-- `Range`/`Iterate` through the staged store equal the same scan on the database with the staged
writes applied (the store that `Commit` would produce), for every filter, limit and direction. -/
theorem C12_scan_refines : C12_scan_refines_Statement := by
  intro st h f limit rev
  unfold scan mergeSortLimit
  simp only
  -- the store scan
  have hl : ∀ e ∈ sortDir (st.store.filter (fun kv => f kv.1)) rev,
      slookup st.store e.1 = some e.2 := by
    intro e he
    have : e ∈ st.store := (List.mem_filter.mp ((mem_sortDir _ _ _).mp he)).1
    exact (slookup_iff_mem st.store h.nodupS e.1 e.2).mpr this
  have hlf : ∀ e ∈ sortDir (st.store.filter (fun kv => f kv.1)) rev, f e.1 = true := by
    intro e he
    simpa using (List.mem_filter.mp ((mem_sortDir _ _ _).mp he)).2
  obtain ⟨hinv, heff, hout⟩ := absorb_spec (s := st.store) _ st.cache h.cacheOk hl
  have hcov := absorb_covers (sortDir (st.store.filter (fun kv => f kv.1)) rev) st.cache
  generalize hab : absorb st.cache (sortDir (st.store.filter (fun kv => f kv.1)) rev) = ab at *
  obtain ⟨c', stored⟩ := ab
  simp only at hinv heff hout hcov ⊢
  -- membership in the live overlay entries = effective value
  have hmemC : ∀ k v, (k, v) ∈ cacheLive c' f ↔ f k = true ∧ eff st k = some v := by
    intro k v
    rw [mem_cacheLive c' f hinv.nodupC k v]
    unfold eff
    rw [← heff k]
    constructor
    · rintro ⟨cv, hc, hd, hf, rfl⟩
      exact ⟨hf, by simp [effC, hc, hd]⟩
    · rintro ⟨hf, he⟩
      cases hc : clookup c' k with
      | some cv =>
        simp only [effC, hc] at he
        by_cases hd : cv.deleted = true
        · simp [hd] at he
        · simp only [hd] at he
          simp only [Bool.false_eq_true, if_false, Option.some.injEq] at he
          exact ⟨cv, rfl, by simpa using hd, hf, he⟩
      | none =>
        exfalso
        simp only [effC, hc] at he
        have hm : (k, v) ∈ sortDir (st.store.filter (fun kv => f kv.1)) rev := by
          rw [mem_sortDir]
          exact List.mem_filter.mpr ⟨(slookup_iff_mem st.store h.nodupS k v).mp he, by simpa using hf⟩
        exact hcov (k, v) hm hc
  -- nothing is left to add from the store scan
  have hextra : stored.filter (fun kv => !((cacheLive c' f).any (fun c => c.1 = kv.1))) = [] := by
    rw [List.filter_eq_nil_iff]
    intro e he
    obtain ⟨h1, e0, he0, h2⟩ := hout e he
    have hf : f e.1 = true := h2 ▸ hlf e0 he0
    have : (e.1, e.2) ∈ cacheLive c' f := (hmemC e.1 e.2).mpr ⟨hf, h1⟩
    have hany : (cacheLive c' f).any (fun c => c.1 = e.1) = true :=
      List.any_eq_true.mpr ⟨(e.1, e.2), this, by simp⟩
    simp [hany]
  rw [hextra, List.append_nil]
  congr 1
  apply sortDir_eq_of_mem_iff _ _ (nodup_cacheLive c' f hinv.nodupC)
    (nodup_filter _ _ (nodup_commit st h.nodupS))
  intro e
  obtain ⟨k, v⟩ := e
  rw [hmemC k v, List.mem_filter, ← slookup_iff_mem _ (nodup_commit st h.nodupS),
    C12_commit_exact st h k]
  simp only [and_comm]

/-- `Database.Range` through the staged store = `IterateRange` on the committed database. -/
theorem C12_range_refines (st : St) (h : C12Inv st) (s e : Bytes) (limit : Int) (rev : Bool) :
    (range st s e limit rev).2 = dbRange (commit st).1.store s e limit rev :=
  C12_scan_refines st h (inRange s e) limit rev

/-- `Database.Iterate` through the staged store = `Iterate` on the committed database. -/
theorem C12_iterate_refines (st : St) (h : C12Inv st) (p : Bytes) (limit : Int) (rev : Bool) :
    (iterate st p limit rev).2 = dbIterate (commit st).1.store p limit rev :=
  C12_scan_refines st h (fun k => hasPrefix k p) limit rev

/-! ### non-vacuity: a concrete reachable state with staged sets, deletes and cached reads -/

private def exStore' : Store := [([1], [10]), ([2], [20]), ([1, 0], [30]), ([4], [40])]
private def exSt' : St :=
  run { store := exStore' } [.set [2] [21], .del [1], .set [3] [33], .get [1, 0], .del [4], .set [4] [44]]

example : C12Inv exSt' :=
  C12_cache_invariant _ (C12_inv_init exStore' (by unfold NoDupKeys exStore'; decide)) _
example : (commit exSt').1.store = [([2], [21]), ([3], [33]), ([4], [44]), ([1, 0], [30])] := by decide
example : (range exSt' [0] [9] (-1) false).2 = [([1, 0], [30]), ([2], [21]), ([3], [33]), ([4], [44])] ∧
    dbRange (commit exSt').1.store [0] [9] (-1) false = (range exSt' [0] [9] (-1) false).2 := by decide
example : (range exSt' [2] [9] 2 true).2 = [([4], [44]), ([3], [33])] ∧
    dbRange (commit exSt').1.store [2] [9] 2 true = (range exSt' [2] [9] 2 true).2 := by decide
example : (iterate exSt' [1] (-1) false).2 = [([1, 0], [30])] ∧
    dbIterate (commit exSt').1.store [1] (-1) false = (iterate exSt' [1] (-1) false).2 := by decide
/-- the theorem instantiated on the concrete state (its hypothesis is satisfiable) -/
example : (range exSt' [0] [9] 3 true).2 = dbRange (commit exSt').1.store [0] [9] 3 true :=
  C12_range_refines exSt'
    (C12_cache_invariant _ (C12_inv_init exStore' (by unfold NoDupKeys exStore'; decide)) _) _ _ _ _
