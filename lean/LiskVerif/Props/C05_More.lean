/-
C05 — gap-closing theorems (see Props/C04.lean / Props/C05.lean for the setting: `Ref`, `StepOK`,
`RunOK`, `BaseOK`, the volatile keys `Vol fin`).

What Props/C05.lean leaves open and this file closes:

* `delete ∘ apply` on the FULL database, every key, every block (also blocks that raise the
  finalized height, with or without temporary copies), for an arbitrary database — no refinement, no
  freshness hypothesis (`C05_delete_apply_exact`): marker, temporary entry, the block's own keys,
  pruned diffs, pruned events, everything else (consensus store included) — so exactly which keys
  may differ and how; the identity outside the volatile keys holds **iff** the keys `deleteBlock`
  deletes for the block were free before (`C05_identity_iff_fresh`), and for a block at height tip+1
  with an unused id that is **iff none of its transactions is already stored**
  (`C05_fresh_is_tx_freshness`): the shared transaction id of `C05_shared_txid_counterexample` is
  the only exception;
* Props/C05.lean assumes that the `deleteBlock` succeeded; above the finalized height it always
  does (`C05_delete_always_succeeds`), so `delete ∘ apply = id` needs no hypothesis on the deletion
  (`C05_delete_apply_total`);
* the block cache after `delete ∘ apply` (`C05_cache_restored`): the old cache, minus its oldest
  entry if it was full (evicted by `blockCache.push`), same tip block, and the same header served for
  EVERY height;
* any number of steps: every history that ends with the ghost chain it started with restores the
  state (`C05_history_restores`), in particular `k` deletions after `k` applications
  (`C05_delete_k_apply_k`);
* temporary blocks: the table `temp|height` after any history is a function of the effect trace
  (`C05_temp_table_exact`); `deleteTillCommonBlock` leaves every removed block retrievable
  (`C05_deleteTill_temp_complete`); re-applying a removed block with `removeTemp` (the restore path of
  the synchronisers) is the inverse of `deleteBlock(…, saveTemp)` (`C05_restore_roundtrip`);
* the volatile keys are not inputs of the abstraction: changing them arbitrarily (marker value
  kept) leaves the refinement — hence every theorem of C04 / C05 — intact (`C05_volatile_irrelevant`),
  and a volatile state diff belongs to a height no `deleteBlock` will ever accept again
  (`C05_volatile_diff_unreachable`).
-/
import LiskVerif.Lemmas.NodeMore
import LiskVerif.Lemmas.NodeExample
import LiskVerif.Props.C04
import LiskVerif.Props.C05

open LiskVerif LiskVerif.Node
open LiskVerif.DiffDB (Store KV CV Cache Diff slookup sset sdel clookup NoDupKeys)

/-! ### delete ∘ apply, every key -/

/-- the keys `deleteBlock` / `removeBlock` delete for a block: state diff, header, height index,
transactions and their id list (if any), assets (if any), events -/
theorem C05_removed_keys (b : Block) (k : Bytes) :
    k ∈ removedKeys b ↔
      k = kDiff b.hdr.height ∨ k = kHeader b.hdr.id ∨ k = kHeight b.hdr.height ∨
      (b.txs ≠ [] ∧ ((∃ t ∈ b.txs, k = kTx t.1) ∨ k = kTxs b.hdr.id)) ∨
      (b.assets ≠ [] ∧ k = kAssets b.hdr.id) ∨ k = kEvents b.hdr.height :=
  mem_removedKeys b k

private theorem roundTrip_db {cd : Codecs} {cfg : Cfg} {s s1 s2 : St} {b : Block} {valid : Bool}
    {x : Exec} {rt st : Bool} {r : Res} (hov : NoDupKeys x.overlay)
    (hrt : cd.decDiff (cd.encDiff (diffOf x.overlay)) = some (diffOf x.overlay))
    (hb : b.hdr.height < u32) (hm : x.mhpc ≤ b.hdr.height)
    (ha : apply cd cfg s b valid x rt = (s1, .ok)) (hd : deleteTip cd cfg s1 st = (s2, r))
    (hr : r.removed) :
    ∃ f, finOf s.db = some f ∧ s2.db = roundTripDb cd cfg s.db f b x rt st ∧
      nextFin f x.mhpc < b.hdr.height := by
  obtain ⟨tip, rest, f, hc, _, _, _, hf, hs1⟩ := apply_ok_inv ha
  obtain ⟨tip1, rest1, fin1, bytes, d, hc1, hf1, hlt1, hl1, hd1, hdb2, _⟩ := deleteTip_done_inv hd hr
  have htip : tip1 = b := by
    rw [hs1] at hc1
    simp only [applyCache, List.cons.injEq] at hc1
    exact hc1.1.symm
  subst htip
  have hdb1 : s1.db = applyDb cd cfg s.db f tip1 x rt := by rw [hs1]
  have hdiff : d = diffOf x.overlay := by
    rw [hdb1, applyDb_diff cd cfg s.db f tip1 x rt hov hb hm] at hl1
    have : bytes = cd.encDiff (diffOf x.overlay) := (Option.some.inj hl1).symm
    rw [this, hrt] at hd1
    exact (Option.some.inj hd1).symm
  subst hdiff
  have hfin1 : fin1 = nextFin f x.mhpc := by
    rw [hdb1, finOf_applyDb cd cfg s.db f tip1 x rt (finOf_lt hf) (by omega)] at hf1
    exact (Option.some.inj hf1).symm
  refine ⟨f, hf, ?_, by rw [← hfin1]; exact hlt1⟩
  rw [hdb2, hdb1]
  rfl

/-- **`delete ∘ apply` on the full database, key by key.** For ANY database `s.db` (distinct keys),
any block and any execution result whose overlay was read from this database (`hinit`; overlay keys
under the consensus-store prefix), after a successful `processValidated(b)` followed by a
`deleteBlock(b)` that removed it, with `f` the finalized height before and `max f mhpc` after:

1. the marker holds `max f mhpc`;
2. the temporary entry of the block's height holds the encoded block if `saveTemp`, is absent if
   `removeTemp` (and not `saveTemp`), and is unchanged otherwise;
3. every key `deleteBlock` deletes for the block (`C05_removed_keys`) is absent;
4. every other key — consensus store, indexes of other blocks, other diffs / events / temporary
   blocks — holds what it held before, except that state diffs of heights below a *raised* marker
   and the events in the pruning range of `saveBlock` are absent. -/
theorem C05_delete_apply_exact (cd : Codecs) (cfg : Cfg) (s s1 s2 : St) (b : Block) (valid : Bool)
    (x : Exec) (rt st : Bool) (r : Res)
    (hnd : NoDupKeys s.db) (hov : OverlayOK x.overlay)
    (hsk : ∀ e ∈ x.overlay, e.1.head? = some pState)
    (hinit : ∀ k cv, clookup x.overlay k = some cv → cv.init = slookup s.db k)
    (hrt : cd.decDiff (cd.encDiff (diffOf x.overlay)) = some (diffOf x.overlay))
    (hb : b.hdr.height < u32) (hm : x.mhpc ≤ b.hdr.height)
    (ha : apply cd cfg s b valid x rt = (s1, .ok)) (hd : deleteTip cd cfg s1 st = (s2, r))
    (hr : r.removed) :
    ∃ f, finOf s.db = some f ∧ max f x.mhpc < b.hdr.height ∧
      slookup s2.db kFin = some (encU32 (max f x.mhpc)) ∧
      slookup s2.db (kTemp b.hdr.height) =
        (if st = true then some (encBlock b) else if rt = true then none
         else slookup s.db (kTemp b.hdr.height)) ∧
      (∀ k ∈ removedKeys b, slookup s2.db k = none) ∧
      (∀ k, k ≠ kFin → k ≠ kTemp b.hdr.height → k ∉ removedKeys b →
        (((f < x.mhpc ∧ k.head? = some 51 ∧ decU32 (k.drop 1) < x.mhpc) ∨
            Pruned cfg b.hdr.height (max f x.mhpc) k) → slookup s2.db k = none) ∧
        (¬ ((f < x.mhpc ∧ k.head? = some 51 ∧ decU32 (k.drop 1) < x.mhpc) ∨
            Pruned cfg b.hdr.height (max f x.mhpc) k) → slookup s2.db k = slookup s.db k)) := by
  obtain ⟨f, hf, hdb, hlt⟩ := roundTrip_db hov.nodup hrt hb hm ha hd hr
  have h := roundTrip_exact cd cfg s.db f b x rt st hnd hov hsk hinit
  rw [← hdb, nextFin_eq_max] at h
  rw [nextFin_eq_max] at hlt
  exact ⟨f, hf, hlt, h⟩

/-- **The identity holds iff the block's keys were free.** In the situation of
`C05_delete_apply_exact`: every key outside the volatile set holds after `delete ∘ apply` what it
held before **iff** every key `deleteBlock` deletes for the block was absent before. (A key of the
block that was in use — the id of a transaction included in an earlier block — is deleted with the
block: `C05_shared_txid_counterexample`.) -/
theorem C05_identity_iff_fresh (cd : Codecs) (cfg : Cfg) (s s1 s2 : St) (b : Block) (valid : Bool)
    (x : Exec) (rt st : Bool) (r : Res)
    (hnd : NoDupKeys s.db) (hov : OverlayOK x.overlay)
    (hsk : ∀ e ∈ x.overlay, e.1.head? = some pState)
    (hinit : ∀ k cv, clookup x.overlay k = some cv → cv.init = slookup s.db k)
    (hrt : cd.decDiff (cd.encDiff (diffOf x.overlay)) = some (diffOf x.overlay))
    (hb : b.hdr.height < u32) (hm : x.mhpc ≤ b.hdr.height)
    (ha : apply cd cfg s b valid x rt = (s1, .ok)) (hd : deleteTip cd cfg s1 st = (s2, r))
    (hr : r.removed) :
    ∃ f, finOf s.db = some f ∧
      ((∀ k, ¬ Vol (max f x.mhpc) k → slookup s2.db k = slookup s.db k) ↔
        (∀ k ∈ removedKeys b, slookup s.db k = none)) := by
  obtain ⟨f, hf, hlt, _, _, h3, h4⟩ := C05_delete_apply_exact cd cfg s s1 s2 b valid x rt st r hnd hov
    hsk hinit hrt hb hm ha hd hr
  refine ⟨f, hf, ?_, ?_⟩
  · intro hid k hk
    have hnv : ¬ Vol (max f x.mhpc) k := allKeys_not_vol hb hlt (removedKeys_allKeys b k hk)
    rw [← hid k hnv]
    exact h3 k hk
  · intro hfree k hnv
    by_cases hk : k ∈ removedKeys b
    · rw [h3 k hk, hfree k hk]
    · have h1 : k ≠ kFin := fun h => hnv (h ▸ Or.inl rfl)
      have h2 : k ≠ kTemp b.hdr.height := fun h => hnv (h ▸ kTemp_vol _ _)
      apply (h4 k h1 h2 hk).2
      rintro (⟨hr', hh, hlt'⟩ | hp)
      · exact hnv (Or.inr (Or.inr (Or.inl ⟨hh, by omega⟩)))
      · exact hnv (Or.inr (Or.inr (Or.inr ⟨eventPruneBound cfg b.hdr.height (max f x.mhpc),
          by unfold eventPruneBound; omega, hp.2.2⟩)))

/-- **… and the block's keys are free iff none of its transactions is already stored.** For a
refined state, a block at height tip + 1 whose id is not in use, over a base database without
left-overs above its tip: the freshness hypothesis `StepOK.fresh` of the identity theorems
(`C05_delete_apply_identity`, `C05_reorg_confluence`, …) is equivalent to "no transaction of the
block is stored" — a shared transaction id is the only way to violate it. -/
theorem C05_fresh_is_tx_freshness (cd : Codecs) (base : Store) (baseH : Nat)
    (hbase : BaseOK cd base baseH) (hclean : BaseClean base baseH) (s : St) (c : Chain)
    (hR : Ref cd base baseH s c) (b : Block) (hh : b.hdr.height = tipH baseH c + 1)
    (hb : b.hdr.height < u32) (hid : slookup s.db (kHeader b.hdr.id) = none) :
    (∀ k ∈ allKeys b, spec cd base c k = none) ↔ (∀ t ∈ b.txs, slookup s.db (kTx t.1) = none) := by
  obtain ⟨f, hf, _, _⟩ := hR.db.finOk
  have hid' : spec cd base c (kHeader b.hdr.id) = none := by
    rw [← hR.db.agree f hf _ (kHeader_not_vol f _)]; exact hid
  rw [fresh_iff_no_shared_tx hbase hclean hR.db.wf b hh hb hid']
  constructor
  · intro h t ht; rw [hR.db.agree f hf _ (kTx_not_vol f _)]; exact h t ht
  · intro h t ht; rw [← hR.db.agree f hf _ (kTx_not_vol f _)]; exact h t ht

/-- **The shared transaction id is the only exception.** For a reachable state (refined by a chain
over a base database without left-overs), a block at height tip + 1 whose id is not in use and an
execution result built over the state's consensus store — nothing is assumed about the block's
transactions —: `delete ∘ apply` restores every key outside the volatile set **iff** no transaction
of the block is already stored. (If one is, `deleteBlock` deletes the stored copy together with the
block: `C05_shared_txid_counterexample`, known finding `c05-shared-txid-lost`.) -/
theorem C05_identity_iff_no_shared_tx (cd : Codecs) (cfg : Cfg) (base : Store) (baseH : Nat)
    (hbase : BaseOK cd base baseH) (hclean : BaseClean base baseH) (s s1 s2 : St) (c : Chain)
    (b : Block) (valid : Bool) (x : Exec) (rt st : Bool) (r : Res)
    (hR : Ref cd base baseH s c) (hb : b.hdr.height < u32)
    (hid : slookup s.db (kHeader b.hdr.id) = none)
    (hov : OverlayOK x.overlay) (hsk : ∀ e ∈ x.overlay, e.1.head? = some pState)
    (hinit : ∀ k cv, clookup x.overlay k = some cv → cv.init = spec cd base c k)
    (hrt : cd.decDiff (cd.encDiff (diffOf x.overlay)) = some (diffOf x.overlay))
    (hm : x.mhpc ≤ b.hdr.height)
    (ha : apply cd cfg s b valid x rt = (s1, .ok)) (hd : deleteTip cd cfg s1 st = (s2, r))
    (hr : r.removed) :
    ∃ f, finOf s.db = some f ∧
      ((∀ k, ¬ Vol (max f x.mhpc) k → slookup s2.db k = slookup s.db k) ↔
        (∀ t ∈ b.txs, slookup s.db (kTx t.1) = none)) := by
  obtain ⟨f0, hf0, _, hle0⟩ := hR.db.finOk
  have hinit' : ∀ k cv, clookup x.overlay k = some cv → cv.init = slookup s.db k := by
    intro k cv h
    have hk : isStateKey k := hsk _ (clookup_some_mem _ k cv h)
    rw [hR.db.agree f0 hf0 k (fun hv => Vol_not_state hv hk)]
    exact hinit k cv h
  obtain ⟨f, hf, hiff⟩ := C05_identity_iff_fresh cd cfg s s1 s2 b valid x rt st r hR.db.nodup hov hsk
    hinit' hrt hb hm ha hd hr
  have hfe : f = f0 := by rw [hf0] at hf; exact (Option.some.inj hf).symm
  subst hfe
  -- the height of the block, from the successful `processValidated`
  obtain ⟨tip, rest, _, hc, hh, _, _, _, _⟩ := apply_ok_inv ha
  have htip : tip.hdr.height = tipH baseH c := hR.cache.head tip (by rw [hc]; rfl)
  obtain ⟨f', _, hlt', _⟩ := C05_delete_apply_exact cd cfg s s1 s2 b valid x rt st r hR.db.nodup hov hsk
    hinit' hrt hb hm ha hd hr
  have hheight : b.hdr.height = tipH baseH c + 1 := by
    have hl := hR.db.tipLt
    rw [htip] at hh
    by_cases hw : tipH baseH c + 1 < u32
    · rw [Nat.mod_eq_of_lt hw] at hh; exact hh
    · have : tipH baseH c + 1 = u32 := by omega
      rw [this, Nat.mod_self] at hh
      omega
  refine ⟨f, hf, hiff.trans ?_⟩
  have hfresh := C05_fresh_is_tx_freshness cd base baseH hbase hclean s c hR b hheight hb hid
  constructor
  · intro hfree t ht
    apply hfree
    rw [mem_removedKeys]
    have hne : b.txs ≠ [] := by intro h; rw [h] at ht; cases ht
    exact Or.inr (Or.inr (Or.inr (Or.inl ⟨hne, Or.inl ⟨t, ht, rfl⟩⟩)))
  · intro htx k hk
    have hak := removedKeys_allKeys b k hk
    have hnv : ¬ Vol f k := allKeys_not_vol hb (by omega) hak
    rw [hR.db.agree f hf k hnv]
    exact hfresh.mpr htx k hak

/-- `C05_delete_apply_exact` for a reachable state and a block that satisfies the hypotheses of the
identity theorems (`StepOK`): all four clauses, now for every key of a real node's database. -/
theorem C05_delete_apply_all_keys (cd : Codecs) (cfg : Cfg) (base : Store) (baseH : Nat)
    (s s1 s2 : St) (c : Chain) (b : Block) (valid : Bool) (x : Exec) (rt st : Bool) (r : Res)
    (hR : Ref cd base baseH s c) (hstep : StepOK cd base c b x)
    (ha : apply cd cfg s b valid x rt = (s1, .ok)) (hd : deleteTip cd cfg s1 st = (s2, r))
    (hr : r.removed) :
    ∃ f, finOf s.db = some f ∧ max f x.mhpc < b.hdr.height ∧
      slookup s2.db kFin = some (encU32 (max f x.mhpc)) ∧
      slookup s2.db (kTemp b.hdr.height) =
        (if st = true then some (encBlock b) else if rt = true then none
         else slookup s.db (kTemp b.hdr.height)) ∧
      (∀ k ∈ removedKeys b, slookup s2.db k = none ∧ slookup s.db k = none) ∧
      (∀ k, k ≠ kFin → k ≠ kTemp b.hdr.height → k ∉ removedKeys b →
        (((f < x.mhpc ∧ k.head? = some 51 ∧ decU32 (k.drop 1) < x.mhpc) ∨
            Pruned cfg b.hdr.height (max f x.mhpc) k) → slookup s2.db k = none) ∧
        (¬ ((f < x.mhpc ∧ k.head? = some 51 ∧ decU32 (k.drop 1) < x.mhpc) ∨
            Pruned cfg b.hdr.height (max f x.mhpc) k) → slookup s2.db k = slookup s.db k)) := by
  obtain ⟨f0, hf0, _, _⟩ := hR.db.finOk
  have hinit' : ∀ k cv, clookup x.overlay k = some cv → cv.init = slookup s.db k := by
    intro k cv h
    have hk : isStateKey k := hstep.stateKeys _ (clookup_some_mem _ k cv h)
    rw [hR.db.agree f0 hf0 k (fun hv => Vol_not_state hv hk)]
    exact hstep.initOk k cv h
  obtain ⟨f, hf, hlt, h1, h2, h3, h4⟩ := C05_delete_apply_exact cd cfg s s1 s2 b valid x rt st r
    hR.db.nodup hstep.ov hstep.stateKeys hinit' hstep.diffRt hstep.block.heightLt hstep.mhpcLe ha hd hr
  refine ⟨f, hf, hlt, h1, h2, ?_, h4⟩
  intro k hk
  refine ⟨h3 k hk, ?_⟩
  have hak := removedKeys_allKeys b k hk
  rw [hR.db.agree f hf k (allKeys_not_vol hstep.block.heightLt (by omega) hak)]
  exact hstep.fresh k hak

/-! ### the deletion always succeeds above the finalized height -/

/-- **`deleteBlock` of the tip succeeds whenever the tip is above the finalized height** (and is
not the genesis block): in every reachable state the previous header, the state diff of the tip and
its decoding are there — the finality guard is the only reason to refuse. (`hb0`: if the chain below
the tip is the base itself, the header of the base tip decodes.) -/
theorem C05_delete_always_succeeds (cd : Codecs) (cfg : Cfg) (base : Store) (baseH : Nat)
    (hbase : BaseOK cd base baseH) (s : St) (c : Chain) (b : Block) (x : Exec) (st : Bool)
    (hR : Ref cd base baseH s ((b, x) :: c)) (hne : s.cache ≠ []) (f : Nat)
    (hf : finOf s.db = some f) (hg : b.hdr.height ≠ cfg.genesisHeight)
    (hb0 : c = [] → ∃ hd, hdrDB cd base baseH = some hd) :
    (deleteTip cd cfg s st).2.removed ↔ f < b.hdr.height := by
  constructor
  · intro hr
    obtain ⟨_, _, f', hf', hlt⟩ := delete_db_eq (s' := (deleteTip cd cfg s st).1) hR rfl hr
    rw [hf] at hf'
    have : f' = f := (Option.some.inj hf').symm
    omega
  · intro hlt
    exact delete_succeeds st hbase hR hne hf hlt hg hb0

/-- **`delete ∘ apply = identity`, without assuming that the deletion succeeds**: after a
successful `processValidated` of a block that does not finalize itself (`mhpc < height`; a block
that does can never be removed — C04), `deleteBlock` removes it again and the state is restored
outside the volatile keys, cache and served headers included. -/
theorem C05_delete_apply_total (cd : Codecs) (cfg : Cfg) (base : Store) (baseH : Nat)
    (hbase : BaseOK cd base baseH) (s s1 : St) (c : Chain) (b : Block) (valid : Bool) (x : Exec)
    (removeTemp saveTemp : Bool)
    (hR : Ref cd base baseH s c) (hstep : StepOK cd base c b x)
    (ha : apply cd cfg s b valid x removeTemp = (s1, .ok))
    (hself : x.mhpc < b.hdr.height) (hg : b.hdr.height ≠ cfg.genesisHeight)
    (hb0 : c = [] → ∃ hd, hdrDB cd base baseH = some hd) :
    (deleteTip cd cfg s1 saveTemp).2.removed ∧
    Ref cd base baseH (deleteTip cd cfg s1 saveTemp).1 c ∧
    ∃ f, finOf s.db = some f ∧
      finOf (deleteTip cd cfg s1 saveTemp).1.db = some (max f x.mhpc) ∧
      (∀ k, ¬ Vol (max f x.mhpc) k →
        slookup (deleteTip cd cfg s1 saveTemp).1.db k = slookup s.db k) ∧
      ∀ h, headerAt cd (deleteTip cd cfg s1 saveTemp).1 h = headerAt cd s h := by
  have hR1 := ref_apply hR hstep ha
  obtain ⟨tip, rest, f, hc, _, _, _, hf, hs1⟩ := apply_ok_inv ha
  obtain ⟨_, hf1⟩ := dbRef_apply (cfg := cfg) (rt := removeTemp) hR.db hstep hf hR1.db.wf.2.1
  have hf1' : finOf s1.db = some (nextFin f x.mhpc) := by rw [hs1]; exact hf1
  have hlt : nextFin f x.mhpc < b.hdr.height := by
    obtain ⟨f', hf', _, hle'⟩ := hR.db.finOk
    rw [hf] at hf'
    have : f' = f := (Option.some.inj hf').symm
    have := hR1.db.wf.2.1
    unfold nextFin; split <;> omega
  have hne : s1.cache ≠ [] := by rw [hs1]; simp [applyCache]
  have hrem := delete_succeeds (cfg := cfg) saveTemp hbase hR1 hne hf1' hlt hg hb0
  obtain ⟨hR2, f0, hf0, hf2, hid⟩ := C05_delete_apply_identity cd cfg base baseH hbase s s1
    (deleteTip cd cfg s1 saveTemp).1 c b valid x removeTemp saveTemp (deleteTip cd cfg s1 saveTemp).2
    hR hstep ha rfl hrem
  refine ⟨hrem, hR2, f0, hf0, hf2, hid, ?_⟩
  intro h
  rw [headerAt_ref hbase hR2 h, headerAt_ref hbase hR h]

/-! ### the block cache -/

/-- **The block cache after `delete ∘ apply`** is the cache before, minus its oldest entry if it
was full (`blockCache.push` evicts the oldest block when the cache holds `maxCache` blocks; `pop`
does not bring it back) — `rest` below; if that is not empty the tip block is the same block, and
(in a refined state) the header served for EVERY height is the same: an evicted block is read from
the database instead. (If `rest` is empty — `maxCache ≤ 1` — the cache is loaded again from the
database: `C05_cached_tip_restored`.) -/
theorem C05_cache_restored (cd : Codecs) (cfg : Cfg) (base : Store) (baseH : Nat)
    (hbase : BaseOK cd base baseH) (s s1 s2 : St) (c : Chain) (b : Block) (valid : Bool) (x : Exec)
    (removeTemp saveTemp : Bool) (r : Res)
    (hR : Ref cd base baseH s c) (hstep : StepOK cd base c b x)
    (ha : apply cd cfg s b valid x removeTemp = (s1, .ok))
    (hd : deleteTip cd cfg s1 saveTemp = (s2, r)) (hr : r.removed) :
    (∀ h, headerAt cd s2 h = headerAt cd s h ∧ idAt cd s2 h = idAt cd s h) ∧
    ((if s.cache.length ≥ cfg.maxCache then s.cache.dropLast else s.cache) ≠ [] →
      s2.cache = (if s.cache.length ≥ cfg.maxCache then s.cache.dropLast else s.cache) ∧
      s2.cache.head? = s.cache.head? ∧ r = .ok) := by
  obtain ⟨hR2, _⟩ := C05_delete_apply_identity cd cfg base baseH hbase s s1 s2 c b valid x
    removeTemp saveTemp r hR hstep ha hd hr
  have hh : ∀ h, headerAt cd s2 h = headerAt cd s h := by
    intro h; rw [headerAt_ref hbase hR2 h, headerAt_ref hbase hR h]
  refine ⟨fun h => ⟨hh h, by unfold idAt; rw [hh h]⟩, ?_⟩
  intro hne
  obtain ⟨tip, rest, f, hc, _, _, _, _, hs1⟩ := apply_ok_inv ha
  obtain ⟨tip1, rest1, _, _, _, hc1, _, _, _, _, _, hrest⟩ := deleteTip_done_inv hd hr
  have hre : rest1 = (if s.cache.length ≥ cfg.maxCache then s.cache.dropLast else s.cache) := by
    rw [hs1] at hc1
    simp only [applyCache, List.cons.injEq] at hc1
    exact hc1.2.symm
  have hhead : (if s.cache.length ≥ cfg.maxCache then s.cache.dropLast else s.cache).head? =
      s.cache.head? := by
    split
    · rename_i hge
      rw [if_pos hge] at hne
      rw [hc] at hne ⊢
      cases rest with
      | nil => simp at hne
      | cons a l => simp
    · rfl
  rcases hrest with ⟨hrok, _, hcache⟩ | ⟨_, _, hcache⟩
  · rcases hcache with ⟨_, hce⟩ | ⟨hnil, _⟩
    · rw [hce, hre]; exact ⟨rfl, hhead, hrok⟩
    · rw [hre] at hnil; exact absurd hnil hne
  · -- `errWritten` only arises when the popped cache is empty
    exfalso
    have : rest1 = [] := by
      unfold deleteTip at hd
      rw [hc1] at hd
      cases rest1 with
      | nil => rfl
      | cons a l =>
        exfalso
        have hne' : r ≠ .errWritten := by
          intro hre'
          subst hre'
          revert hd
          simp only
          repeat' split
          all_goals (intro h; simp only [Prod.mk.injEq, reduceCtorEq, and_false] at h)
        rename_i h _
        exact hne' h
    rw [hre] at this
    exact hne this

/-! ### any number of steps -/

/-- **Every history that ends with the chain it started with restores the state**: whatever the
operations in between (applications, deletions, failed blocks, tie-breaks, restarts — any number,
any depth above the finalized height), if the ghost chain after the history is the chain before it,
then every key outside the volatile set of the final finalized height holds what it held before,
the header served for every height is the same, and the finalized height is the maximum of the old
one and the precommitted heights of the blocks applied in between. -/
theorem C05_history_restores (cd : Codecs) (cfg : Cfg) (slot : Slot) (base : Store) (baseH : Nat)
    (hbase : BaseOK cd base baseH) (s : St) (c : Chain) (ops : List Op)
    (hR : Ref cd base baseH s c) (hok : RunOK cd cfg slot base s c ops)
    (hback : runC cd cfg slot s c ops = c) :
    Ref cd base baseH (run cd cfg slot s ops) c ∧
    ∃ f, finOf s.db = some f ∧
      finOf (run cd cfg slot s ops).db = some (finAfter f (trace cd cfg slot s ops)) ∧
      (∀ k, ¬ Vol (finAfter f (trace cd cfg slot s ops)) k →
        slookup (run cd cfg slot s ops).db k = slookup s.db k) ∧
      ∀ h, headerAt cd (run cd cfg slot s ops) h = headerAt cd s h := by
  have hR' := (trans_run hbase ops s c hR hok).ref
  rw [hback] at hR'
  obtain ⟨f, hf, _, _⟩ := hR.db.finOk
  have hfin := (hist_run hbase ops s c f hR hf hok).fin
  refine ⟨hR', f, hf, hfin, ?_, ?_⟩
  · intro k hk
    rw [hR'.db.agree _ hfin k hk]
    exact (hR.db.agree f hf k (fun hv => hk (Vol_mono (le_finAfter _ f) hv))).symm
  · intro h
    rw [headerAt_ref hbase hR' h, headerAt_ref hbase hR h]

/-- **Deleting `k` blocks after applying `k` blocks restores the state**, for every `k` and all
block contents: if `k` `processValidated` calls succeed and then `k` `deleteBlock` calls remove the
tip (`Succ`), the ghost chain is back where it was, so `C05_history_restores` applies. -/
theorem C05_delete_k_apply_k (cd : Codecs) (cfg : Cfg) (slot : Slot) (base : Store) (baseH : Nat)
    (hbase : BaseOK cd base baseH) (s : St) (c : Chain)
    (bs : List (Block × Bool × Exec × Bool)) (sts : List Bool) (hlen : sts.length = bs.length)
    (hR : Ref cd base baseH s c)
    (hok : RunOK cd cfg slot base s c
      ((bs.map fun a => Op.apply a.1 a.2.1 a.2.2.1 a.2.2.2) ++ sts.map Op.deleteTip))
    (hsucc : Succ cd cfg slot s
      ((bs.map fun a => Op.apply a.1 a.2.1 a.2.2.1 a.2.2.2) ++ sts.map Op.deleteTip)) :
    let ops := (bs.map fun a => Op.apply a.1 a.2.1 a.2.2.1 a.2.2.2) ++ sts.map Op.deleteTip
    runC cd cfg slot s c ops = c ∧
    Ref cd base baseH (run cd cfg slot s ops) c ∧
    ∃ f, finOf s.db = some f ∧
      finOf (run cd cfg slot s ops).db = some ((bs.map (·.2.2.1.mhpc)).foldl max f) ∧
      (∀ k, ¬ Vol ((bs.map (·.2.2.1.mhpc)).foldl max f) k →
        slookup (run cd cfg slot s ops).db k = slookup s.db k) ∧
      ∀ h, headerAt cd (run cd cfg slot s ops) h = headerAt cd s h := by
  intro ops
  obtain ⟨hs1, hs2⟩ := (succ_append cd cfg slot _ _ s).mp hsucc
  have hback : runC cd cfg slot s c ops = c := by
    show runC cd cfg slot s c (_ ++ _) = c
    rw [runC_append, runC_applies cd cfg slot bs s c hs1, runC_deletes cd cfg slot sts _ _ hs2, hlen]
    have : bs.length = ((bs.map fun a => (a.1, a.2.2.1)).reverse).length := by simp
    rw [this, List.drop_left]
  obtain ⟨h1, f, hf, h2, h3, h4⟩ := C05_history_restores cd cfg slot base baseH hbase s c ops hR hok hback
  -- the finalized height in terms of the applied blocks: from the ghost chain after the applications
  have hfa : finAfter f (trace cd cfg slot s ops) = (bs.map (·.2.2.1.mhpc)).foldl max f := by
    obtain ⟨hoka, hokb⟩ := runOK_append cd cfg slot base _ _ s c hok
    have hRa := (trans_run hbase _ s c hR hoka).ref
    have hA := hist_run hbase (bs.map fun a => Op.apply a.1 a.2.1 a.2.2.1 a.2.2.2) s c f hR hf hoka
    have hB := hist_run hbase (sts.map Op.deleteTip) _ _ _ hRa hA.fin hokb
    -- deletions never change the marker
    have hdel : ∀ (sts : List Bool) (s : St) (c : Chain) (f : Nat), Ref cd base baseH s c →
        finOf s.db = some f → finOf (run cd cfg slot s (sts.map Op.deleteTip)).db = some f := by
      intro sts
      induction sts with
      | nil => intro s c f _ hf; exact hf
      | cons a r ih =>
        intro s c f hR hf
        simp only [List.map_cons, run_cons]
        have hT := trans_step (cfg := cfg) (slot := slot) hbase hR (Op.deleteTip a) trivial
        refine ih _ _ f hT.ref ?_
        simp only [step]
        cases hd : deleteTip cd cfg s a with
        | mk s' r' =>
          by_cases hr : r'.removed
          · obtain ⟨_, _, _, _, _, hfin, _⟩ := ref_delete hbase hR hd hr
            simp only; rw [hfin]; exact hf
          · have hr' : r' = .err ∨ r' = .panic := by
              unfold Res.removed at hr
              cases r' <;> simp at hr ⊢
            simp only; rw [deleteTip_not_ok hd hr']; exact hf
    have e1 : finOf (run cd cfg slot s ops).db =
        some (finAfter f (trace cd cfg slot s (bs.map fun a => Op.apply a.1 a.2.1 a.2.2.1 a.2.2.2))) := by
      show finOf (run cd cfg slot s (_ ++ _)).db = _
      rw [run_append]
      exact hdel sts _ _ _ hRa hA.fin
    have e2 : finAfter f (trace cd cfg slot s ops) =
        finAfter f (trace cd cfg slot s (bs.map fun a => Op.apply a.1 a.2.1 a.2.2.1 a.2.2.2)) := by
      rw [h2] at e1; exact Option.some.inj e1
    rw [e2]
    -- the applied blocks of the first part are `bs`
    have happ : ∀ (bs : List (Block × Bool × Exec × Bool)) (s : St) (f : Nat),
        Succ cd cfg slot s (bs.map fun a => Op.apply a.1 a.2.1 a.2.2.1 a.2.2.2) →
        finAfter f (trace cd cfg slot s (bs.map fun a => Op.apply a.1 a.2.1 a.2.2.1 a.2.2.2)) =
          (bs.map (·.2.2.1.mhpc)).foldl max f := by
      intro bs
      induction bs with
      | nil => intro s f _; rfl
      | cons a r ih =>
        intro s f h
        simp only [List.map_cons, Succ] at h
        have : trace cd cfg slot s (Op.apply a.1 a.2.1 a.2.2.1 a.2.2.2 ::
            r.map fun a => Op.apply a.1 a.2.1 a.2.2.1 a.2.2.2) =
            Eff.applied a.1 a.2.2.1 a.2.2.2 ::
              trace cd cfg slot (step cd cfg slot s (Op.apply a.1 a.2.1 a.2.2.1 a.2.2.2))
                (r.map fun a => Op.apply a.1 a.2.1 a.2.2.1 a.2.2.2) := by
          have hcons : (Op.apply a.1 a.2.1 a.2.2.1 a.2.2.2 ::
              r.map fun a => Op.apply a.1 a.2.1 a.2.2.1 a.2.2.2) =
              [Op.apply a.1 a.2.1 a.2.2.1 a.2.2.2] ++
                r.map fun a => Op.apply a.1 a.2.1 a.2.2.1 a.2.2.2 := rfl
          rw [hcons, trace_append]
          simp only [trace, flat, primOps, List.append_nil, tracePrim, effOf, h.1, if_true,
            List.cons_append, List.nil_append, run_cons, run_nil]
        simp only [List.map_cons, this, finAfter, List.foldl_cons]
        exact ih _ _ h.2
    exact happ bs s f hs1
  rw [hfa] at h2 h3
  exact ⟨hback, h1, f, hf, h2, h3, h4⟩

/-! ### temporary blocks -/

/-- **The table of temporary blocks is a function of the effect trace**: after any history the
entry under a key `temp|…` is what `tempAfter` computes from the entries before — a successful
`processValidated(…, removeTemp = true)` deletes the entry of the block's height, a
`deleteBlock(…, saveTemp = true)` that removed the tip stores the encoded block under its height,
`ClearTempBlocks` empties the table; nothing else (failed operations, restarts, `removeTemp = false`,
`saveTemp = false`) touches it. -/
theorem C05_temp_table_exact (cd : Codecs) (cfg : Cfg) (slot : Slot) (base : Store) (baseH : Nat)
    (hbase : BaseOK cd base baseH) (s : St) (c : Chain) (ops : List Op)
    (hR : Ref cd base baseH s c) (hok : RunOK cd cfg slot base s c ops) (k : Bytes)
    (hk : k.head? = some 7) :
    slookup (run cd cfg slot s ops).db k = tempAfter (slookup s.db) (trace cd cfg slot s ops) k :=
  temp_run hbase ops s c hR hok k hk

/-- **Restoring a removed block is the inverse of removing it with a temporary copy**:
`deleteBlock(tip, saveTemp = true)` followed by `processValidated(tip, removeTemp = true)` with the
same execution result (the restore path of the synchronisers) ends in a state refined by the same
chain, with the same value under every non-volatile key, no temporary entry for the block's height
and all other temporary entries unchanged. -/
theorem C05_restore_roundtrip (cd : Codecs) (cfg : Cfg) (base : Store) (baseH : Nat)
    (hbase : BaseOK cd base baseH) (s s1 s2 : St) (c : Chain) (b : Block) (x : Exec) (valid : Bool)
    (r : Res) (hR : Ref cd base baseH s ((b, x) :: c))
    (hd : deleteTip cd cfg s true = (s1, r)) (hr : r.removed)
    (ha : apply cd cfg s1 b valid x true = (s2, .ok)) :
    Ref cd base baseH s2 ((b, x) :: c) ∧
    slookup s1.db (kTemp b.hdr.height) = some (encBlock b) ∧
    slookup s2.db (kTemp b.hdr.height) = none ∧
    (∀ k, k.head? = some 7 → k ≠ kTemp b.hdr.height → slookup s2.db k = slookup s.db k) ∧
    ∃ f, finOf s.db = some f ∧ finOf s2.db = some (max f x.mhpc) ∧
      ∀ k, ¬ Vol (max f x.mhpc) k → slookup s2.db k = slookup s.db k := by
  obtain ⟨hstep, _, _⟩ := hR.db.wf
  obtain ⟨b', x', c', hc0, hR1, hfin1, _⟩ := ref_delete hbase hR hd hr
  have hce : c' = c := by simp only [List.cons.injEq] at hc0; exact hc0.2.symm
  subst hce
  have hR2 := ref_apply hR1 hstep ha
  obtain ⟨hdb1, _, f, hf, _⟩ := delete_db_eq hR hd hr
  obtain ⟨_, _, f1, _, _, _, _, hf1, hs2⟩ := apply_ok_inv ha
  have hfe : f1 = f := by rw [hfin1, hf] at hf1; exact (Option.some.inj hf1).symm
  subst hfe
  have hml : x.mhpc < u32 := Nat.lt_of_le_of_lt hstep.mhpcLe hstep.block.heightLt
  have hf2 : finOf s2.db = some (max f1 x.mhpc) := by
    rw [hs2, ← nextFin_eq_max]
    exact finOf_applyDb cd cfg s1.db f1 b x true (finOf_lt hf1) hml
  have ht1 : ∀ k, k.head? = some 7 → slookup s1.db k =
      if (true = true ∧ k = kTemp b.hdr.height) then some (encBlock b) else slookup s.db k := by
    intro k hk; rw [hdb1]; exact delete_temp true hR.db hf k hk
  have ht2 : ∀ k, k.head? = some 7 → slookup s2.db k =
      if (true = true ∧ k = kTemp b.hdr.height) then none else slookup s1.db k := by
    intro k hk; rw [hs2]
    exact apply_temp cd cfg s1.db f1 b x true hstep.ov.nodup hstep.stateKeys k hk
  have hkt : (kTemp b.hdr.height).head? = some 7 := by simp [kTemp]
  refine ⟨hR2, ?_, ?_, ?_, f1, hf, hf2, ?_⟩
  · rw [ht1 _ hkt]; simp
  · rw [ht2 _ hkt]; simp
  · intro k hk hne
    rw [ht2 k hk, ht1 k hk]; simp [hne]
  · intro k hk
    rw [hR2.db.agree _ hf2 k hk]
    exact (hR.db.agree f1 hf k (fun hv => hk (Vol_mono (Nat.le_max_left _ _) hv))).symm

private theorem mapM_mem' {α β : Type} (f : α → Option β) : ∀ (l : List α) (r : List β),
    l.mapM f = some r → ∀ a ∈ l, ∃ b ∈ r, f a = some b := by
  intro l
  induction l with
  | nil => intro r _ a ha; cases ha
  | cons x xs ih =>
    intro r h a ha
    simp only [List.mapM_cons] at h
    cases hx : f x with
    | none => simp [hx] at h
    | some y =>
      simp only [hx] at h
      cases hr : xs.mapM f with
      | none => simp [hr] at h
      | some ys =>
        simp only [hr] at h
        have hre : r = y :: ys := by simp at h; exact h.symm
        subst hre
        simp only [List.mem_cons] at ha
        rcases ha with rfl | ha
        · exact ⟨y, List.mem_cons_self, hx⟩
        · obtain ⟨b, hb, hfb⟩ := ih ys hr a ha
          exact ⟨b, List.mem_cons_of_mem _ hb, hfb⟩

private theorem deleteTill_temp_keep {cd : Codecs} {cfg : Cfg} {base : Store} {baseH : Nat}
    (hbase : BaseOK cd base baseH) : ∀ (fuel : Nat) (s : St) (c : Chain) (target h : Nat),
    Ref cd base baseH s c → tipH baseH c < h → h < u32 →
    slookup (deleteTill cd cfg fuel s target).1.db (kTemp h) = slookup s.db (kTemp h) := by
  intro fuel
  induction fuel with
  | zero => intro s c t h _ _ _; rfl
  | succ n ih =>
    intro s c t h hR hlt hh
    unfold deleteTill
    cases hc : s.cache with
    | nil => rfl
    | cons tip rest =>
      simp only
      split
      · rfl
      · cases hd : deleteTip cd cfg s true with
        | mk s' r =>
          have hstepk : r.removed → slookup s'.db (kTemp h) = slookup s.db (kTemp h) ∧
              ∃ c', Ref cd base baseH s' c' ∧ tipH baseH c' < h := by
            intro hr
            obtain ⟨b, x, c', hc0, hR', _⟩ := ref_delete hbase hR hd hr
            subst hc0
            obtain ⟨hdb, _, f, hf, _⟩ := delete_db_eq hR hd hr
            obtain ⟨hstep, hheight, _⟩ := hR.db.wf
            simp only [tipH] at hlt
            refine ⟨?_, c', hR', by omega⟩
            rw [hdb, delete_temp true hR.db hf _ (by simp [kTemp])]
            have : kTemp h ≠ kTemp b.hdr.height := by
              intro he
              simp only [kTemp, List.cons.injEq, true_and] at he
              have := encU32_inj hh hstep.block.heightLt he
              omega
            simp [this]
          cases r with
          | ok =>
            simp only
            obtain ⟨h1, c', hR', hlt'⟩ := hstepk (Or.inl rfl)
            rw [ih s' c' t h hR' hlt' hh, h1]
          | errWritten => simp only; exact (hstepk (Or.inr rfl)).1
          | err => simp only; rw [deleteTip_not_ok hd (Or.inl rfl)]
          | panic => simp only; rw [deleteTip_not_ok hd (Or.inr rfl)]

/-- **`deleteTillCommonBlock` keeps every removed block retrievable**: when the loop of the
synchronisers has reached the common block, the chain lost its `k` newest blocks, and each of them
is stored under `temp|height` (later deletions do not overwrite earlier copies) and is returned by
`GetTempBlocks` (given the block codec round trip, C08). -/
theorem C05_deleteTill_temp_complete (cd : Codecs) (cfg : Cfg) (base : Store) (baseH : Nat)
    (hbase : BaseOK cd base baseH) : ∀ (fuel : Nat) (s s' : St) (c : Chain) (target : Nat),
    Ref cd base baseH s c → deleteTill cd cfg fuel s target = (s', .ok) →
    ∃ k, Ref cd base baseH s' (c.drop k) ∧
      ∀ bx ∈ c.take k,
        slookup s'.db (kTemp bx.1.hdr.height) = some (encBlock bx.1) ∧
        (cd.decBlock (encBlock bx.1) = some bx.1 → ∀ l, tempBlocks cd s' = some l → bx.1 ∈ l) := by
  intro fuel
  induction fuel with
  | zero => intro s s' c t _ h; simp [deleteTill] at h
  | succ n ih =>
    intro s s' c t hR h
    unfold deleteTill at h
    cases hc : s.cache with
    | nil => rw [hc] at h; simp at h
    | cons tip rest =>
      rw [hc] at h
      simp only at h
      split at h
      · simp only [Prod.mk.injEq, and_true] at h
        subst h
        exact ⟨0, by simpa using hR, fun bx hbx => by simp at hbx⟩
      · cases hd : deleteTip cd cfg s true with
        | mk s1 r =>
          rw [hd] at h
          cases r with
          | err => simp at h
          | panic => simp at h
          | errWritten => simp at h
          | ok =>
            simp only at h
            obtain ⟨b, x, c', hc0, hR1, _⟩ := ref_delete hbase hR hd (Or.inl rfl)
            subst hc0
            obtain ⟨hdb, _, f, hf, _⟩ := delete_db_eq hR hd (Or.inl rfl)
            obtain ⟨hstep, hheight, _⟩ := hR.db.wf
            obtain ⟨k, hRk, hk⟩ := ih s1 s' c' t hR1 h
            have hs' : s' = (deleteTill cd cfg n s1 t).1 := by rw [h]
            have hnd' : NoDupKeys s'.db := hRk.db.nodup
            have hmem : ∀ (blk : Block), slookup s'.db (kTemp blk.hdr.height) = some (encBlock blk) →
                cd.decBlock (encBlock blk) = some blk → ∀ l, tempBlocks cd s' = some l → blk ∈ l := by
              intro blk hl hdec l hl'
              unfold tempBlocks at hl'
              have hm : (kTemp blk.hdr.height, encBlock blk) ∈ DiffDB.dbIterate s'.db [7] (-1) true := by
                apply (C12_db_iterate_mem s'.db [7] true _).mpr
                exact ⟨(DiffDB.slookup_iff_mem s'.db hnd' _ _).mp hl, by simp [kTemp, hasPrefix]⟩
              obtain ⟨b', hb', hfb⟩ := mapM_mem' _ _ _ hl' _ hm
              simp only at hfb
              rw [hdec] at hfb
              rw [Option.some.inj hfb]
              exact hb'
            refine ⟨k + 1, by simpa using hRk, ?_⟩
            intro bx hbx
            simp only [List.take_succ_cons, List.mem_cons] at hbx
            rcases hbx with rfl | hbx
            · have h1 : slookup s1.db (kTemp b.hdr.height) = some (encBlock b) := by
                rw [hdb, delete_temp true hR.db hf _ (by simp [kTemp])]; simp
              have h2 : slookup s'.db (kTemp b.hdr.height) = some (encBlock b) := by
                rw [hs', deleteTill_temp_keep (cfg := cfg) hbase n s1 c' t b.hdr.height hR1 (by omega)
                  hstep.block.heightLt, h1]
              exact ⟨h2, hmem b h2⟩
            · exact hk bx hbx

/-! ### the volatile keys are harmless -/

/-- **The volatile keys are not inputs of the abstraction**: replace the database of a reachable
state by any database (distinct keys) that holds the same finalized-height marker value and agrees
outside the volatile keys — arbitrary content under the temporary prefix, the state diffs below the
finalized height and the prunable events — and the state is refined by the same chain. Every
theorem of C04 / C05 about the future of a state (finality monotone, finalized blocks irreversible,
`delete ∘ apply = id`, confluence, …) has the refinement as its only hypothesis on the state, so
none of them can be affected by what the volatile keys hold. -/
theorem C05_volatile_irrelevant (cd : Codecs) (base : Store) (baseH : Nat) (s : St) (c : Chain)
    (hR : Ref cd base baseH s c) (db' : Store) (hnd : NoDupKeys db') (f : Nat)
    (hf : finOf s.db = some f) (hf' : finOf db' = some f)
    (hsame : ∀ k, ¬ Vol f k → slookup db' k = slookup s.db k) :
    Ref cd base baseH { s with db := db' } c ∧
    (BaseOK cd base baseH → ∀ h : Nat, headerAt cd { s with db := db' } h = headerAt cd s h) := by
  have hR' : Ref cd base baseH { s with db := db' } c := by
    refine ⟨⟨hnd, ?_, ?_, hR.db.wf, hR.db.tipLt⟩, hR.cache⟩
    · obtain ⟨f0, hf0, h1, h2⟩ := hR.db.finOk
      rw [hf] at hf0
      have : f0 = f := (Option.some.inj hf0).symm
      subst this
      exact ⟨f0, hf', h1, h2⟩
    · intro f1 hf1 k hk
      simp only at hf1
      rw [hf'] at hf1
      have : f1 = f := (Option.some.inj hf1).symm
      subst this
      show slookup db' k = _
      rw [hsame k hk]
      exact hR.db.agree f1 hf k hk
  refine ⟨hR', ?_⟩
  intro hbase h
  rw [headerAt_ref hbase hR' h, headerAt_ref hbase hR h]

/-- **A volatile state diff is one that can never be used again**: if the diff key of height `h`
is volatile for the finalized height reached after a history `a`, then after every continuation `b`
a `deleteBlock` of a tip at height `h` is refused (the diff is only read by `deleteBlock` of that
height). -/
theorem C05_volatile_diff_unreachable (cd : Codecs) (cfg : Cfg) (slot : Slot) (base : Store)
    (baseH : Nat) (hbase : BaseOK cd base baseH) (s : St) (c : Chain) (a b : List Op)
    (hR : Ref cd base baseH s c) (hok : RunOK cd cfg slot base s c (a ++ b))
    (f : Nat) (hf : finOf (run cd cfg slot s a).db = some f) (h : Nat) (hh : h < u32)
    (hv : Vol f (kDiff h)) (tip : Block) (rest : List Block) (st : Bool)
    (hc : (run cd cfg slot s (a ++ b)).cache = tip :: rest) (hth : tip.hdr.height = h) :
    h < f ∧ deleteTip cd cfg (run cd cfg slot s (a ++ b)) st = (run cd cfg slot s (a ++ b), .err) := by
  have hlt : h < f := by
    rcases hv with h1 | h1 | ⟨_, h2⟩ | ⟨m, _, h2⟩
    · simp [kDiff, kFin] at h1
    · simp [kDiff] at h1
    · simp only [kDiff, List.drop_succ_cons, List.drop_zero] at h2
      rw [decU32_encU32_of_lt hh] at h2
      exact h2
    · have := inRange_events_head h2
      simp [kDiff] at this
  obtain ⟨f0, f', hf0, hf', hle⟩ := C04_fin_monotone_prefix cd cfg slot base baseH hbase s c a b hR hok
  rw [hf] at hf0
  have : f0 = f := (Option.some.inj hf0).symm
  subst this
  exact ⟨hlt, C04_delete_refuses_finalized cd cfg _ tip rest st f' hc hf' (by omega)⟩

/-! ### non-vacuity -/

namespace C05More
open LiskVerif.Node.Example

def sA : St := (apply cd cfg s0 b1 true x1 false).1
def sB : St := (deleteTip cd cfg sA true).1

theorem applyA : apply cd cfg s0 b1 true x1 false = (sA, .ok) := by
  have h : (apply cd cfg s0 b1 true x1 false).2 = .ok := by decide +kernel
  exact Prod.ext rfl h

theorem deleteB : deleteTip cd cfg sA true = (sB, .ok) := by
  have h : (deleteTip cd cfg sA true).2 = .ok := by decide +kernel
  exact Prod.ext rfl h

end C05More

/-- the hypotheses of `C05_delete_apply_exact` hold for the example block: the temporary copy is
there, the block's keys are gone, the marker is unchanged -/
example : slookup C05More.sB.db kFin = some (encU32 0) ∧
    slookup C05More.sB.db (kTemp Example.b1.hdr.height) = some (encBlock Example.b1) ∧
    ∀ k ∈ removedKeys Example.b1, slookup C05More.sB.db k = none := by
  obtain ⟨f, hf, _, h1, h2, h3, _⟩ := C05_delete_apply_exact Example.cd Example.cfg Example.s0
    C05More.sA C05More.sB Example.b1 true Example.x1 false true .ok Example.ref0.db.nodup
    Example.step1.ov Example.step1.stateKeys
    (fun k cv h => Example.step1.initOk k cv h)
    Example.step1.diffRt (by decide) (by decide) C05More.applyA C05More.deleteB (Or.inl rfl)
  have : f = 0 := by
    have h0 : finOf Example.s0.db = some 0 := by decide
    rw [h0] at hf; exact (Option.some.inj hf).symm
  subst this
  exact ⟨h1, by simpa using h2, h3⟩

example : (deleteTip Example.cd Example.cfg C05More.sA false).2.removed :=
  (C05_delete_apply_total Example.cd Example.cfg Example.base 0 Example.baseOK Example.s0 C05More.sA []
    Example.b1 true Example.x1 false false Example.ref0 Example.step1 C05More.applyA (by decide)
    (by decide) (fun _ => ⟨Example.hdr0, by decide⟩)).1

/-- one application followed by one deletion, as an instance of the `k`-fold theorem -/
example : runC Example.cd Example.cfg Example.slot Example.s0 []
    ([Op.apply Example.b1 true Example.x1 false] ++ [Op.deleteTip true]) = [] :=
  (C05_delete_k_apply_k Example.cd Example.cfg Example.slot Example.base 0 Example.baseOK Example.s0 []
    [(Example.b1, true, Example.x1, false)] [true] rfl Example.ref0
    ⟨fun _ => Example.step1, trivial, trivial⟩
    ⟨by
      show (apply Example.cd Example.cfg Example.s0 Example.b1 true Example.x1 false).2 = .ok
      decide +kernel,
     by
      show (deleteTip Example.cd Example.cfg _ true).2.removed
      exact Or.inl (by decide +kernel), trivial⟩).1

example : ∀ l, tempBlocks Example.cd C05More.sB = some l → Example.b1 ∈ l := by
  have h : deleteTill Example.cd Example.cfg 5 C05More.sA 0 = (C05More.sB, .ok) := by
    have h2 : (deleteTill Example.cd Example.cfg 5 C05More.sA 0).2 = .ok := by decide +kernel
    have h1 : (deleteTill Example.cd Example.cfg 5 C05More.sA 0).1 = C05More.sB := by
      unfold deleteTill
      have hc : C05More.sA.cache = [Example.b1, Example.g] := by decide +kernel
      rw [hc]
      simp only [C05More.deleteB]
      have : ¬ Example.b1.hdr.height = 0 := by decide
      simp only [this, if_false]
      unfold deleteTill
      have hc' : C05More.sB.cache = [Example.g] := by decide +kernel
      rw [hc']
      simp [Example.g, Example.hdr0]
    exact Prod.ext h1 h2
  obtain ⟨k, hRk, hk⟩ := C05_deleteTill_temp_complete Example.cd Example.cfg Example.base 0
    Example.baseOK 5 C05More.sA C05More.sB [(Example.b1, Example.x1)] 0
    (ref_apply Example.ref0 Example.step1 C05More.applyA) h
  have hk0 : k ≠ 0 := by
    intro h0
    subst h0
    have hc' : C05More.sB.cache = [Example.g] := by decide +kernel
    have := hRk.cache.head Example.g (by rw [hc']; rfl)
    simp [tipH, Example.g, Example.hdr0, Example.b1, Example.hdr1] at this
  have hmem : (Example.b1, Example.x1) ∈ List.take k [(Example.b1, Example.x1)] := by
    cases k with
    | zero => exact absurd rfl hk0
    | succ n => simp
  exact (hk (Example.b1, Example.x1) hmem).2 (by decide +kernel)

/-! #### the only-exception theorem on both sides -/

namespace C05More
open LiskVerif.Node.Example

theorem baseClean : BaseClean base 0 := by
  refine ⟨?_, ?_, ?_, ?_⟩
  · intro h _; simp [base, slookup, kDiff, kFin, kHeight, kHeader]
  · intro h _; simp [base, slookup, kEvents, kFin, kHeight, kHeader]
  · intro id v h; simp [base, slookup, kTxs, kFin, kHeight, kHeader] at h
  · intro id v h; simp [base, slookup, kAssets, kFin, kHeight, kHeader] at h

/-- the codecs of the shared-transaction counterexample of Props/C05.lean -/
theorem baseOK2 : BaseOK C05Cex.cd2 base 0 :=
  ⟨baseOK.idxShape, baseOK.idxHasHdr, baseOK.idxHdrHeight, baseOK.tipIdx⟩

theorem ref2 : Ref C05Cex.cd2 base 0 s0 [] :=
  ⟨⟨ref0.db.nodup, ref0.db.finOk, ref0.db.agree, trivial, ref0.db.tipLt⟩,
   ⟨ref0.cache.head, ref0.cache.consec, (fun t _ bx hbx => by cases hbx), ref0.cache.baseHdr⟩⟩

theorem ovNil : OverlayOK C05Cex.x2.overlay :=
  ⟨(by unfold NoDupKeys; decide), (fun k cv h => by simp [C05Cex.x2, clookup] at h),
    (fun k cv h => by simp [C05Cex.x2, clookup] at h)⟩

theorem step2 : StepOK C05Cex.cd2 base [] b1 C05Cex.x2 :=
  ⟨⟨step1.block.hdrOk, step1.block.heightPos, step1.block.heightLt, step1.block.txIdLen,
      step1.block.txConsistent, step1.block.assetsRt⟩,
    ovNil, (fun e he => by cases he), (fun k cv h => by simp [C05Cex.x2, clookup] at h),
    (by decide), step1.fresh, rfl⟩

theorem apply1 : apply C05Cex.cd2 cfg s0 b1 true C05Cex.x2 false = (C05Cex.sAfter1, .ok) := by
  have h : (apply C05Cex.cd2 cfg s0 b1 true C05Cex.x2 false).2 = .ok := by decide +kernel
  exact Prod.ext rfl h

theorem apply2 : apply C05Cex.cd2 cfg C05Cex.sAfter1 C05Cex.b2 true C05Cex.x2 false =
    (C05Cex.sAfter2, .ok) :=
  Prod.ext rfl C05_shared_txid_counterexample.1

theorem delete2 : deleteTip C05Cex.cd2 cfg C05Cex.sAfter2 false = (C05Cex.sBack, .ok) :=
  Prod.ext rfl C05_shared_txid_counterexample.2.1

end C05More

/-- positive side: the block of `LiskVerif.Node.Example` shares no transaction, the identity holds -/
example : ∀ k, ¬ Vol 0 k → slookup C05More.sB.db k = slookup Example.s0.db k := by
  obtain ⟨f, hf, hiff⟩ := C05_identity_iff_no_shared_tx Example.cd Example.cfg Example.base 0
    Example.baseOK C05More.baseClean Example.s0 C05More.sA C05More.sB [] Example.b1 true Example.x1
    false true .ok Example.ref0 (by decide) (by decide) Example.step1.ov Example.step1.stateKeys
    Example.step1.initOk Example.step1.diffRt (by decide) C05More.applyA C05More.deleteB (Or.inl rfl)
  have : f = 0 := by
    have h0 : finOf Example.s0.db = some 0 := by decide
    rw [h0] at hf; exact (Option.some.inj hf).symm
  subst this
  have hm : max 0 Example.x1.mhpc = 0 := by decide
  rw [hm] at hiff
  exact hiff.mpr (by
    intro t ht
    simp only [Example.b1, List.mem_cons, List.not_mem_nil, or_false] at ht
    subst ht
    decide)

/-- negative side: the theorem applies to the shared-transaction history of
`C05_shared_txid_counterexample` (all hypotheses hold — nothing is assumed about transaction ids),
and since the transaction of block 2 is stored, `delete ∘ apply` is NOT the identity there -/
example : ¬ ∀ k, ¬ Vol 0 k → slookup C05Cex.sBack.db k = slookup C05Cex.sAfter1.db k := by
  have hR1 := ref_apply C05More.ref2 C05More.step2 C05More.apply1
  obtain ⟨f, hf, hiff⟩ := C05_identity_iff_no_shared_tx C05Cex.cd2 Example.cfg Example.base 0
    C05More.baseOK2 C05More.baseClean C05Cex.sAfter1 C05Cex.sAfter2 C05Cex.sBack
    [(Example.b1, C05Cex.x2)] C05Cex.b2 true C05Cex.x2 false false .ok hR1 (by decide)
    (by decide +kernel)
    C05More.ovNil
    (fun e he => by cases he) (fun k cv h => by simp [C05Cex.x2, clookup] at h) rfl (by decide)
    C05More.apply2
    C05More.delete2 (Or.inl rfl)
  have : f = 0 := by
    have h0 : finOf C05Cex.sAfter1.db = some 0 := by decide +kernel
    rw [h0] at hf; exact (Option.some.inj hf).symm
  subst this
  have hm : max 0 C05Cex.x2.mhpc = 0 := by decide
  rw [hm] at hiff
  intro hall
  have := hiff.mp hall (Example.txid, [42]) (by simp [C05Cex.b2])
  rw [C05_shared_txid_counterexample.2.2.1] at this
  cases this
