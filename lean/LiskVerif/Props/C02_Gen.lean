/-
C02 — tie of the BFT-parameter part of `Model/BFT.lean` to the Go source: the weight loop, the two
threshold guards and the prevote-threshold expression of `API.SetBFTParameters`
(pkg/consensus/liskbft/api.go) are REGENERATED from the Go source on every run by tools/fngen
(`LiskVerif/Gen/Fns.lean`: `Gen.aggregateBFTWeightInit`, `Gen.aggregateBFTWeightStep`,
`Gen.setBFTParametersGuards`, `Gen.prevoteThresholdOf`) with the wrap-around of Go's `uint64`
arithmetic made explicit (`% 2^64`).

History. The original code summed the weights without overflow check and computed the prevote
threshold as `aggregateBFTWeight*2/3 + 1`: for aggregate weight `w ≥ 2^63` the product wraps
(`C02_gen_prevote_threshold_wraps` about the hand-transcribed original expression
`C02origPrevoteThresholdOf`: at `w = 2^63` it yields 1), and weight vectors whose sum is `≥ 2^64`
were accepted with the wrapped sum. Fix `fixes/C02-bft-weight-overflow.patch`: the loop rejects an
overflowing sum and the threshold is `w/3*2 + w%3*2/3 + 1`. The theorems below are about the code
regenerated from the FIXED source: the prevote threshold is `⌊2w/3⌋+1` for every `uint64` `w`
(`C02_gen_prevote_threshold_eq`), the loop fails exactly when `BFT.setParams` reports a weight error
(`C02_gen_weight_loop_eq`), the guards are the guards of `BFT.setParams` (`C02_gen_guards_eq`).
If the overflow guard is removed from the Go loop, `C02_gen_weight_step_eq` stops compiling.
-/
import LiskVerif.Model.BFT
import LiskVerif.Gen.Fns

open LiskVerif LiskVerif.BFT

/-! ### the prevote threshold -/

/-- **The regenerated prevote-threshold expression is `⌊2w/3⌋+1`** — the value used by
`BFT.setParams` and `BFTSpec.prevoteThreshold` — for every `uint64` aggregate weight. -/
theorem C02_gen_prevote_threshold_eq : ∀ w, w < 2 ^ 64 → Gen.prevoteThresholdOf w = w * 2 / 3 + 1 := by
  intro w hw
  unfold Gen.prevoteThresholdOf
  have h1 : w / 3 * 2 % 18446744073709551616 = w / 3 * 2 := Nat.mod_eq_of_lt (by omega)
  have h2 : w % 3 * 2 % 18446744073709551616 = w % 3 * 2 := Nat.mod_eq_of_lt (by omega)
  rw [h1, h2]
  have h3 : (w / 3 * 2 + w % 3 * 2 / 3) % 18446744073709551616 = w / 3 * 2 + w % 3 * 2 / 3 :=
    Nat.mod_eq_of_lt (by omega)
  rw [h3, Nat.mod_eq_of_lt (by omega)]
  omega

/-- hand-transcribed copy of the ORIGINAL expression `aggregateBFTWeight*2/3 + 1` in `uint64`
arithmetic (what tools/fngen generated from the unfixed source) -/
def C02origPrevoteThresholdOf (aggregateBFTWeight : Nat) : Nat :=
  (((((aggregateBFTWeight * 2) % 18446744073709551616) / 3) + 1) % 18446744073709551616)

/-- The original expression wraps: with aggregate weight `2^63` the `uint64` product
`aggregateBFTWeight*2` is 0 and the stored prevote threshold was 1 instead of `⌊2^64/3⌋+1`; it agrees
with `⌊2w/3⌋+1` exactly for `w < 2^63`. The regenerated (fixed) expression is right at `2^63`. -/
theorem C02_gen_prevote_threshold_wraps :
    C02origPrevoteThresholdOf (2 ^ 63) = 1 ∧ (2 ^ 63 * 2 / 3 + 1 = 6148914691236517206) ∧
    Gen.prevoteThresholdOf (2 ^ 63) = 6148914691236517206 ∧
    (∀ w, w < 2 ^ 64 → (C02origPrevoteThresholdOf w = w * 2 / 3 + 1 ↔ w < 2 ^ 63)) := by
  refine ⟨by decide +kernel, by decide +kernel, by decide +kernel, ?_⟩
  intro w hw
  unfold C02origPrevoteThresholdOf
  by_cases hlt : w < 2 ^ 63
  · have h1 : w * 2 % 18446744073709551616 = w * 2 := Nat.mod_eq_of_lt (by omega)
    rw [h1, Nat.mod_eq_of_lt (by omega)]
    exact ⟨fun _ => hlt, fun _ => rfl⟩
  · have h1 : w * 2 % 18446744073709551616 = w * 2 - 18446744073709551616 := by omega
    rw [h1, Nat.mod_eq_of_lt (by omega)]
    constructor
    · intro h; omega
    · intro h; omega

/-! ### the weight loop -/

/-- the regenerated loop body in closed form (`uint64` accumulator and weight): guard 1 = the weight
is 0, guard 2 = the sum would overflow, otherwise the weight is added -/
theorem C02_gen_weight_step_eq (acc w : Nat) (ha : acc < 2 ^ 64) (hw : w < 2 ^ 64) :
    Gen.aggregateBFTWeightStep acc w =
      if w = 0 then (1, acc) else if acc + w ≥ 2 ^ 64 then (2, acc) else (0, acc + w) := by
  unfold Gen.aggregateBFTWeightStep
  by_cases h0 : w = 0
  · simp [h0]
  · have h0' : ¬ w ≤ 0 := by omega
    simp only [h0, h0', decide_false, Bool.false_eq_true, ↓reduceIte, decide_eq_true_eq]
    by_cases h1 : acc + w ≥ 2 ^ 64
    · have : (acc + w) % 18446744073709551616 < acc := by omega
      simp [this, h1]
    · have h2 : (acc + w) % 18446744073709551616 = acc + w := by omega
      have : ¬ (acc + w < acc) := by omega
      simp [h2, this, h1]

/-- the loop `for _, validator := range validators { … }` run with the regenerated body on the list of
weights: `.error i` = guard `i` returned an error, `.ok w` = final `aggregateBFTWeight` -/
def C02genWeightLoop : List Nat → Nat → Except Nat Nat
  | [], acc => .ok acc
  | w :: r, acc =>
    match Gen.aggregateBFTWeightStep acc w with
    | (0, acc') => C02genWeightLoop r acc'
    | (i, _) => .error i

private theorem loop_spec : ∀ (ws : List Nat) (acc : Nat), acc < 2 ^ 64 → (∀ w ∈ ws, w < 2 ^ 64) →
    (∀ a, C02genWeightLoop ws acc = .ok a ↔ ((∀ w ∈ ws, w ≠ 0) ∧ acc + ws.sum < 2 ^ 64 ∧ a = acc + ws.sum)) ∧
    (∀ i, C02genWeightLoop ws acc = .error i → i = 1 ∨ i = 2) := by
  intro ws
  induction ws with
  | nil =>
    intro acc _ _
    refine ⟨fun a => ?_, fun i h => by simp [C02genWeightLoop] at h⟩
    simp only [C02genWeightLoop, List.sum_nil, Nat.add_zero, Except.ok.injEq]
    constructor
    · intro h; subst h; exact ⟨by simp, by assumption, rfl⟩
    · intro h; exact h.2.2.symm
  | cons w r ih =>
    intro acc ha hws
    have hw := hws w List.mem_cons_self
    have hr : ∀ x ∈ r, x < 2 ^ 64 := fun x hx => hws x (List.mem_cons_of_mem _ hx)
    unfold C02genWeightLoop
    rw [C02_gen_weight_step_eq acc w ha hw]
    by_cases h0 : w = 0
    · simp only [h0, ↓reduceIte]
      refine ⟨fun a => ⟨fun h => (by cases h), fun h => absurd rfl (h.1 0 List.mem_cons_self)⟩, ?_⟩
      intro i h; injection h with h; exact Or.inl h.symm
    · simp only [h0, ↓reduceIte]
      by_cases h1 : acc + w ≥ 2 ^ 64
      · simp only [h1, ↓reduceIte]
        refine ⟨fun a => ⟨fun h => (by cases h), fun h => ?_⟩, ?_⟩
        · have := h.2.1; simp only [List.sum_cons] at this; omega
        · intro i h; injection h with h; exact Or.inr h.symm
      · simp only [h1, ↓reduceIte]
        have ih' := ih (acc + w) (by omega) hr
        refine ⟨fun a => ?_, ih'.2⟩
        rw [ih'.1 a]
        simp only [List.sum_cons, List.mem_cons, forall_eq_or_imp]
        constructor
        · rintro ⟨h2, h3, h4⟩; exact ⟨⟨h0, h2⟩, by omega, by omega⟩
        · rintro ⟨⟨_, h2⟩, h3, h4⟩; exact ⟨h2, by omega, by omega⟩

/-- **The regenerated weight loop vs `BFT.setParams`.** For `uint64` weights: the loop ends with
`aggregateBFTWeight = w` iff no weight is 0, the sum fits into a `uint64` and `w` is the sum; it fails
(with guard 1 or 2 only) iff `BFT.setParams` — for a validator list within the batch size — reports
the weight or the weight-overflow error. -/
theorem C02_gen_weight_loop_eq (s : State) (pc ct : Nat) (vs : List Validator)
    (hlen : vs.length ≤ s.batchSize) (hu : ∀ v ∈ vs, v.weight < 2 ^ 64) :
    (∀ w, C02genWeightLoop (vs.map (·.weight)) Gen.aggregateBFTWeightInit = .ok w ↔
      (vs.any (·.weight = 0) = false ∧ (vs.map (·.weight)).sum < 2 ^ 64 ∧ w = (vs.map (·.weight)).sum)) ∧
    ((∃ i, C02genWeightLoop (vs.map (·.weight)) Gen.aggregateBFTWeightInit = .error i) ↔
      (setParams s pc ct vs = .error .weight ∨ setParams s pc ct vs = .error .weightOverflow)) ∧
    (∀ i, C02genWeightLoop (vs.map (·.weight)) Gen.aggregateBFTWeightInit = .error i → i = 1 ∨ i = 2) := by
  have hws : ∀ w ∈ vs.map (·.weight), w < 2 ^ 64 := by
    intro w hw
    obtain ⟨v, hv, rfl⟩ := List.mem_map.mp hw
    exact hu v hv
  have hspec := loop_spec (vs.map (·.weight)) Gen.aggregateBFTWeightInit (by decide) hws
  have hzero : (∀ w ∈ vs.map (·.weight), w ≠ 0) ↔ vs.any (·.weight = 0) = false := by
    rw [← Bool.not_eq_true, List.any_eq_true]
    constructor
    · rintro h ⟨v, hv, hz⟩
      exact h v.weight (List.mem_map.mpr ⟨v, hv, rfl⟩) (by simpa using hz)
    · intro h w hw hz
      obtain ⟨v, hv, rfl⟩ := List.mem_map.mp hw
      exact h ⟨v, hv, by simpa using hz⟩
  have hinit : Gen.aggregateBFTWeightInit = 0 := rfl
  have hok : ∀ w, C02genWeightLoop (vs.map (·.weight)) Gen.aggregateBFTWeightInit = .ok w ↔
      (vs.any (·.weight = 0) = false ∧ (vs.map (·.weight)).sum < 2 ^ 64 ∧ w = (vs.map (·.weight)).sum) := by
    intro w
    rw [hspec.1 w, hzero, hinit, Nat.zero_add]
  refine ⟨hok, ?_, hspec.2⟩
  have hcases : (∃ i, C02genWeightLoop (vs.map (·.weight)) Gen.aggregateBFTWeightInit = .error i) ↔
      ¬ (vs.any (·.weight = 0) = false ∧ (vs.map (·.weight)).sum < 2 ^ 64) := by
    cases hl : C02genWeightLoop (vs.map (·.weight)) Gen.aggregateBFTWeightInit with
    | ok w =>
      have := (hok w).mp hl
      constructor
      · rintro ⟨i, hi⟩; cases hi
      · intro hn; exact absurd ⟨this.1, this.2.1⟩ hn
    | error i =>
      constructor
      · intro _ hn
        have := (hok _).mpr ⟨hn.1, hn.2, rfl⟩
        rw [hl] at this; cases this
      · intro _; exact ⟨i, rfl⟩
  rw [hcases]
  unfold setParams
  rw [if_neg (by omega)]
  cases hany : vs.any (·.weight = 0)
  · simp only [Bool.false_eq_true, ↓reduceIte, true_and, u64]
    by_cases hsum : (vs.map (·.weight)).sum ≥ 18446744073709551616
    · rw [if_pos hsum]
      simp; omega
    · rw [if_neg hsum]
      constructor
      · intro hn; omega
      · intro hc
        exfalso
        rcases hc with hc | hc <;> (repeat' split at hc) <;> cases hc
  · simp

/-! ### the threshold guards -/

/-- The regenerated guards, for every `uint64` aggregate weight: both pass iff
`⌊w/3⌋+1 ≤ threshold ≤ w` for the precommit and the certificate threshold. -/
theorem C02_gen_guards_iff (w pc ct : Nat) (hw : w < 2 ^ 64) :
    Gen.setBFTParametersGuards w pc ct = true ↔
      ¬ (w / 3 + 1 > pc ∨ pc > w) ∧ ¬ (w / 3 + 1 > ct ∨ ct > w) := by
  unfold Gen.setBFTParametersGuards
  have h1 : (w / 3 + 1) % 18446744073709551616 = w / 3 + 1 := Nat.mod_eq_of_lt (by omega)
  rw [h1]
  simp only [Bool.and_eq_true, Bool.not_eq_true', Bool.or_eq_false_iff, decide_eq_false_iff_not,
    not_or]

private theorem ite_ok_ne_error {c : Prop} [Decidable c] {a b : State} {e : Err} :
    (if c then (Except.ok a : Except Err State) else .ok b) ≠ .error e := by
  split <;> simp

private theorem ite_ok_exists {c : Prop} [Decidable c] {a b : State} :
    ∃ s', (if c then (Except.ok a : Except Err State) else .ok b) = .ok s' := by
  split <;> exact ⟨_, rfl⟩

/-- **The generated guards are the guards inside `BFT.setParams`.** For a validator list that passes
the earlier checks of `SetBFTParameters` (size at most the batch size, no zero weight, aggregate weight
a `uint64` — i.e. the regenerated weight loop ends with `.ok` of the sum, `C02_gen_weight_loop_eq`):
`setParams` fails with the precommit-threshold or the certificate-threshold error exactly when the
regenerated guards do not both pass — and which of the two it is, is decided by the first regenerated
guard alone (`Gen.setBFTParametersGuards w pc w` switches the second guard off); otherwise it succeeds
and installs parameters whose prevote threshold is the regenerated expression
(`C02_gen_params_prevote`). -/
theorem C02_gen_guards_eq (s : State) (pc ct : Nat) (vs : List Validator)
    (hlen : vs.length ≤ s.batchSize) (hpos : vs.any (·.weight = 0) = false)
    (hw : (vs.map (·.weight)).sum < 2 ^ 64) :
    (Gen.setBFTParametersGuards (vs.map (·.weight)).sum pc ct = false ↔
      (setParams s pc ct vs = .error .precommitThreshold ∨ setParams s pc ct vs = .error .certThreshold)) ∧
    (Gen.setBFTParametersGuards (vs.map (·.weight)).sum pc (vs.map (·.weight)).sum = false ↔
      setParams s pc ct vs = .error .precommitThreshold) ∧
    (Gen.setBFTParametersGuards (vs.map (·.weight)).sum pc ct = true ↔
      ∃ s', setParams s pc ct vs = .ok s') := by
  have hg := C02_gen_guards_iff (vs.map (·.weight)).sum pc ct hw
  have hg1 := C02_gen_guards_iff (vs.map (·.weight)).sum pc (vs.map (·.weight)).sum hw
  have hb : ∀ b : Bool, b = false ↔ ¬ (b = true) := by intro b; cases b <;> simp
  rw [hb, hb, hg, hg1]
  unfold setParams
  rw [if_neg (by omega), hpos]
  simp only [Bool.false_eq_true, ↓reduceIte]
  rw [if_neg (by unfold u64; omega)]
  by_cases h1 : (vs.map (·.weight)).sum / 3 + 1 > pc ∨ pc > (vs.map (·.weight)).sum
  · rw [if_pos h1]
    simp [h1]
  · rw [if_neg h1]
    by_cases h2 : (vs.map (·.weight)).sum / 3 + 1 > ct ∨ ct > (vs.map (·.weight)).sum
    · rw [if_pos h2]
      refine ⟨by simp [h1, h2], ?_, by simp [h1, h2]⟩
      constructor
      · intro hn; exfalso; apply hn; exact ⟨h1, by omega⟩
      · intro hc; cases hc
    · rw [if_neg h2]
      refine ⟨?_, ?_, ?_⟩
      · constructor
        · intro hn; exact absurd ⟨h1, h2⟩ hn
        · intro hc; rcases hc with hc | hc <;> exact absurd hc ite_ok_ne_error
      · constructor
        · intro hn; exfalso; apply hn; exact ⟨h1, by omega⟩
        · intro hc; exact absurd hc ite_ok_ne_error
      · constructor
        · intro _; exact ite_ok_exists
        · intro _; exact ⟨h1, h2⟩

/-- the parameters installed by `BFT.setParams` on the genesis state carry the regenerated prevote
threshold — for every weight vector that `setParams` accepts -/
theorem C02_gen_params_prevote (bs g pc ct : Nat) (vs : List Validator) (s' : State)
    (h : setParams (initGenesis bs g) pc ct vs = .ok s') :
    ∃ p, getParams s' (g + 1) = some p ∧ p.prevoteThreshold = Gen.prevoteThresholdOf (vs.map (·.weight)).sum := by
  unfold setParams at h
  split at h
  · cases h
  · split at h
    · cases h
    · split at h
      · cases h
      rename_i hsum
      rw [C02_gen_prevote_threshold_eq _ (by unfold u64 at hsum; omega)]
      simp only at h
      split at h
      · cases h
      · split at h
        · cases h
        · simp only [initGenesis, getParams, lookupLE, List.foldl_nil, Option.map_none,
            Bool.false_eq_true, ↓reduceIte] at h
          injection h with h
          subst h
          simp [getParams, lookupLE]

/-! ### non-vacuity -/

example : Gen.prevoteThresholdOf 4 = 3 ∧ Gen.prevoteThresholdOf 103 = 69 ∧
    Gen.prevoteThresholdOf (2 ^ 64 - 1) = 12297829382473034411 := by decide +kernel

example : Gen.setBFTParametersGuards 4 2 2 = true ∧ Gen.setBFTParametersGuards 4 1 2 = false ∧
    Gen.setBFTParametersGuards 4 2 5 = false ∧ Gen.setBFTParametersGuards 4 4 4 = true := by decide +kernel

/-- the weight loop: accepted, zero weight, overflow (2^63 + 2^63 + …), overflow met before a zero weight -/
example : C02genWeightLoop [1, 2, 3] 0 = .ok 6 ∧ C02genWeightLoop [1, 0, 3] 0 = .error 1 ∧
    C02genWeightLoop [2 ^ 63, 2 ^ 63 + 3] 0 = .error 2 ∧ C02genWeightLoop [2 ^ 63, 2 ^ 63 - 1] 0 = .ok (2 ^ 64 - 1) ∧
    C02genWeightLoop [2 ^ 64 - 1, 1, 0] 0 = .error 2 :=
  ⟨rfl, rfl, rfl, rfl, rfl⟩

/-- instance of `C02_gen_weight_loop_eq`: the weight vector of the demonstration test is rejected -/
example : setParams (initGenesis 4 0) 2 2 [⟨[1], 2 ^ 63⟩, ⟨[2], 2 ^ 63 + 3⟩] = .error .weight ∨
    setParams (initGenesis 4 0) 2 2 [⟨[1], 2 ^ 63⟩, ⟨[2], 2 ^ 63 + 3⟩] = .error .weightOverflow :=
  ((C02_gen_weight_loop_eq (initGenesis 4 0) 2 2 [⟨[1], 2 ^ 63⟩, ⟨[2], 2 ^ 63 + 3⟩] (by decide)
    (by decide +kernel)).2.1).mp ⟨2, rfl⟩

/-- instance of `C02_gen_guards_eq`: three validators of weight 1, thresholds 1 (too low) and 2 -/
example : setParams (initGenesis 3 0) 1 2 [⟨[1], 1⟩, ⟨[2], 1⟩, ⟨[3], 1⟩] = .error .precommitThreshold :=
  ((C02_gen_guards_eq (initGenesis 3 0) 1 2 [⟨[1], 1⟩, ⟨[2], 1⟩, ⟨[3], 1⟩] (by decide) (by decide)
    (by decide)).2.1).mp (by decide +kernel)

example : ∃ s', setParams (initGenesis 3 0) 2 2 [⟨[1], 1⟩, ⟨[2], 1⟩, ⟨[3], 1⟩] = .ok s' :=
  ((C02_gen_guards_eq (initGenesis 3 0) 2 2 [⟨[1], 1⟩, ⟨[2], 1⟩, ⟨[3], 1⟩] (by decide) (by decide)
    (by decide)).2.2).mp (by decide +kernel)

/-- one validator of weight 2^63 (the first demonstration test): accepted, prevote threshold ⌊2^64/3⌋+1 -/
example : ∃ s' p, setParams (initGenesis 4 0) (2 ^ 63 / 3 + 1) (2 ^ 63 / 3 + 1) [⟨[1], 2 ^ 63⟩] = .ok s' ∧
    getParams s' 1 = some p ∧ p.prevoteThreshold = 6148914691236517206 := by
  obtain ⟨s', hs⟩ := ((C02_gen_guards_eq (initGenesis 4 0) (2 ^ 63 / 3 + 1) (2 ^ 63 / 3 + 1) [⟨[1], 2 ^ 63⟩]
    (by decide) (by decide +kernel) (by decide +kernel)).2.2).mp (by decide +kernel)
  obtain ⟨p, hp1, hp2⟩ := C02_gen_params_prevote 4 0 _ _ _ s' hs
  refine ⟨s', p, hs, hp1, ?_⟩
  rw [hp2]
  decide +kernel
