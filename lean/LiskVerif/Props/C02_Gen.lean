/-
C02 — tie of the BFT-parameter part of `Model/BFT.lean` to the Go source: the two threshold guards
and the prevote-threshold expression of `API.SetBFTParameters` (pkg/consensus/liskbft/api.go) are
REGENERATED from the Go source on every run by tools/fngen (`LiskVerif/Gen/Fns.lean`,
`Gen.setBFTParametersGuards`, `Gen.prevoteThresholdOf`) with the wrap-around of Go's `uint64`
arithmetic made explicit (`% 2^64`).

Findings. The guards never wrap (`w/3 + 1 < 2^64` for every `uint64` `w`), so they are exactly the
guards of `BFT.setParams`. The prevote threshold `aggregateBFTWeight*2/3 + 1` is the mathematical
`⌊2w/3⌋+1` of the model only for `w < 2^63`: for `w ≥ 2^63` the product wraps
(`C02_gen_prevote_threshold_wraps`: at `w = 2^63` the Go expression yields 1). The model and the
specification (`BFTSpec.prevoteThreshold`) assume aggregate weights below `2^63`.
-/
import LiskVerif.Model.BFT
import LiskVerif.Gen.Fns

open LiskVerif LiskVerif.BFT

/-- The regenerated prevote-threshold expression is `⌊2w/3⌋+1`, the value used by `BFT.setParams`
and `BFTSpec.prevoteThreshold`, for every aggregate weight below `2^63`. -/
theorem C02_gen_prevote_threshold_eq_partial (w : Nat) (hw : w < 2 ^ 63) :
    Gen.prevoteThresholdOf w = w * 2 / 3 + 1 := by
  unfold Gen.prevoteThresholdOf
  have h1 : w * 2 % 18446744073709551616 = w * 2 := Nat.mod_eq_of_lt (by omega)
  rw [h1]
  exact Nat.mod_eq_of_lt (by omega)

/-- The unconditional statement (all `uint64` weights); `C02_gen_prevote_threshold_eq_partial` proves it
for `w < 2^63`, what is missing is false: … -/
def C02_gen_prevote_threshold_eq_Statement : Prop :=
  ∀ w, w < 2 ^ 64 → Gen.prevoteThresholdOf w = w * 2 / 3 + 1

/-- … with aggregate weight `2^63` the `uint64` product `aggregateBFTWeight*2` wraps to 0 and
`SetBFTParameters` stores prevote threshold 1 (instead of `⌊2^64/3⌋+1`). -/
theorem C02_gen_prevote_threshold_wraps :
    Gen.prevoteThresholdOf (2 ^ 63) = 1 ∧ ¬ C02_gen_prevote_threshold_eq_Statement := by
  refine ⟨by decide +kernel, fun h => ?_⟩
  have := h (2 ^ 63) (by decide)
  revert this
  decide +kernel

/-- The regenerated guards, for every `uint64` aggregate weight: both pass iff
`⌊w/3⌋+1 ≤ threshold ≤ w` for the precommit and the certificate threshold. -/
theorem C02_gen_guards_iff (w pc ct : Nat) (hw : w < 2 ^ 64) :
    Gen.setBFTParametersGuards w pc ct = true ↔
      ¬ (w / 3 + 1 > pc ∨ pc > w) ∧ ¬ (w / 3 + 1 > ct ∨ ct > w) := by
  unfold Gen.setBFTParametersGuards
  have h1 : (w / 3 + 1) % 18446744073709551616 = w / 3 + 1 := Nat.mod_eq_of_lt (by omega)
  rw [h1]
  simp only [Bool.and_eq_true, Bool.not_eq_true', Bool.or_eq_false_iff, decide_eq_false_iff_not,
    not_or]

private theorem ite_ok_ne_error {c : Prop} [Decidable c] {a b : State} {e : Err} :
    (if c then (Except.ok a : Except Err State) else .ok b) ≠ .error e := by
  split <;> simp

private theorem ite_ok_exists {c : Prop} [Decidable c] {a b : State} :
    ∃ s', (if c then (Except.ok a : Except Err State) else .ok b) = .ok s' := by
  split <;> exact ⟨_, rfl⟩

/-- **The generated guards are the guards inside `BFT.setParams`.** For a validator list that passes
the two earlier checks of `SetBFTParameters` (size at most the batch size, no zero weight) and whose
aggregate weight is a `uint64`: `setParams` fails with the precommit-threshold or the
certificate-threshold error exactly when the regenerated guards do not both pass — and which of the
two it is, is decided by the first regenerated guard alone (`Gen.setBFTParametersGuards w pc w`
switches the second guard off); otherwise it succeeds and installs parameters whose prevote
threshold is the regenerated expression (for `w < 2^63`, see `C02_gen_params_prevote`). -/
theorem C02_gen_guards_eq (s : State) (pc ct : Nat) (vs : List Validator)
    (hlen : vs.length ≤ s.batchSize) (hpos : vs.any (·.weight = 0) = false)
    (hw : (vs.map (·.weight)).sum < 2 ^ 64) :
    (Gen.setBFTParametersGuards (vs.map (·.weight)).sum pc ct = false ↔
      (setParams s pc ct vs = .error .precommitThreshold ∨ setParams s pc ct vs = .error .certThreshold)) ∧
    (Gen.setBFTParametersGuards (vs.map (·.weight)).sum pc (vs.map (·.weight)).sum = false ↔
      setParams s pc ct vs = .error .precommitThreshold) ∧
    (Gen.setBFTParametersGuards (vs.map (·.weight)).sum pc ct = true ↔
      ∃ s', setParams s pc ct vs = .ok s') := by
  have hg := C02_gen_guards_iff (vs.map (·.weight)).sum pc ct hw
  have hg1 := C02_gen_guards_iff (vs.map (·.weight)).sum pc (vs.map (·.weight)).sum hw
  have hb : ∀ b : Bool, b = false ↔ ¬ (b = true) := by intro b; cases b <;> simp
  rw [hb, hb, hg, hg1]
  unfold setParams
  rw [if_neg (by omega), hpos]
  simp only [Bool.false_eq_true, ↓reduceIte]
  by_cases h1 : (vs.map (·.weight)).sum / 3 + 1 > pc ∨ pc > (vs.map (·.weight)).sum
  · rw [if_pos h1]
    simp [h1]
  · rw [if_neg h1]
    by_cases h2 : (vs.map (·.weight)).sum / 3 + 1 > ct ∨ ct > (vs.map (·.weight)).sum
    · rw [if_pos h2]
      refine ⟨by simp [h1, h2], ?_, by simp [h1, h2]⟩
      constructor
      · intro hn; exfalso; apply hn; exact ⟨h1, by omega⟩
      · intro hc; cases hc
    · rw [if_neg h2]
      refine ⟨?_, ?_, ?_⟩
      · constructor
        · intro hn; exact absurd ⟨h1, h2⟩ hn
        · intro hc; rcases hc with hc | hc <;> exact absurd hc ite_ok_ne_error
      · constructor
        · intro hn; exfalso; apply hn; exact ⟨h1, by omega⟩
        · intro hc; exact absurd hc ite_ok_ne_error
      · constructor
        · intro _; exact ite_ok_exists
        · intro _; exact ⟨h1, h2⟩

/-- the parameters installed by `BFT.setParams` on the genesis state carry the regenerated prevote
threshold (aggregate weight below `2^63`) -/
theorem C02_gen_params_prevote (bs g pc ct : Nat) (vs : List Validator) (s' : State)
    (hw : (vs.map (·.weight)).sum < 2 ^ 63)
    (h : setParams (initGenesis bs g) pc ct vs = .ok s') :
    ∃ p, getParams s' (g + 1) = some p ∧ p.prevoteThreshold = Gen.prevoteThresholdOf (vs.map (·.weight)).sum := by
  rw [C02_gen_prevote_threshold_eq_partial _ hw]
  unfold setParams at h
  split at h
  · cases h
  · split at h
    · cases h
    · simp only at h
      split at h
      · cases h
      · split at h
        · cases h
        · simp only [initGenesis, getParams, lookupLE, List.foldl_nil, Option.map_none,
            Bool.false_eq_true, ↓reduceIte] at h
          injection h with h
          subst h
          simp [getParams, lookupLE]

/-! ### non-vacuity -/

example : Gen.prevoteThresholdOf 4 = 3 ∧ Gen.prevoteThresholdOf 103 = 69 := by decide +kernel

example : Gen.setBFTParametersGuards 4 2 2 = true ∧ Gen.setBFTParametersGuards 4 1 2 = false ∧
    Gen.setBFTParametersGuards 4 2 5 = false ∧ Gen.setBFTParametersGuards 4 4 4 = true := by decide +kernel

/-- instance of `C02_gen_guards_eq`: three validators of weight 1, thresholds 1 (too low) and 2 -/
example : setParams (initGenesis 3 0) 1 2 [⟨[1], 1⟩, ⟨[2], 1⟩, ⟨[3], 1⟩] = .error .precommitThreshold :=
  ((C02_gen_guards_eq (initGenesis 3 0) 1 2 [⟨[1], 1⟩, ⟨[2], 1⟩, ⟨[3], 1⟩] (by decide) (by decide)
    (by decide)).2.1).mp (by decide +kernel)

example : ∃ s', setParams (initGenesis 3 0) 2 2 [⟨[1], 1⟩, ⟨[2], 1⟩, ⟨[3], 1⟩] = .ok s' :=
  ((C02_gen_guards_eq (initGenesis 3 0) 2 2 [⟨[1], 1⟩, ⟨[2], 1⟩, ⟨[3], 1⟩] (by decide) (by decide)
    (by decide)).2.2).mp (by decide +kernel)
