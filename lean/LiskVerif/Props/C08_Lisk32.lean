/-
C08 — Lisk32 addresses (pkg/codec/bytes.go, LIP-0018): the checksum appended by `BytesToLisk32`
is the one `ValidateLisk32` accepts, 20-byte values survive bytes → text → bytes, and accepted
"lsk…" texts survive text → bytes → text.

Theorems about `LiskVerif.Model.Lisk32`; helper lemmas in `LiskVerif.Lemmas.Lisk32`.
-/
import LiskVerif.Lemmas.Lisk32

open LiskVerif LiskVerif.Lisk32

/-! ### checksum -/

/-- The six values appended by `createChecksum` bring the BCH state to 1 — for every list of
values, not only for 32 quintets (`polymodStep` is XOR-linear and the six injected values never
reach the feedback bits). -/
theorem C08_lisk32_checksum_valid_general (u5 : List Nat) :
    polymod (u5 ++ createChecksum u5) = 1 :=
  polymod_checksum u5

/-- The instance used by `BytesToLisk32`: 32 values below 32. -/
theorem C08_lisk32_checksum_valid (u5 : List Nat) (_hl : u5.length = 32)
    (_hv : ∀ v ∈ u5, v < 32) : polymod (u5 ++ createChecksum u5) = 1 :=
  polymod_checksum u5

/-- The checksum is the only accepted 6-value tail: a tail of six values below 32 that brings the
state to 1 is the one `createChecksum` computes. -/
theorem C08_lisk32_checksum_unique (u5 cs : List Nat) (hl : cs.length = 6)
    (hv : ∀ c ∈ cs, c < 32) (h : polymod (u5 ++ cs) = 1) : createChecksum u5 = cs :=
  checksum_unique u5 cs hl hv h

/-- Every state after one step fits 30 bits (the Go `int` never overflows). -/
theorem C08_lisk32_polymod_state_bound (chk v : Nat) (hv : v < 32) :
    polymodStep chk v < 2 ^ 30 :=
  polymodStep_lt chk v hv

/-! ### bit regrouping -/

/-- 8 → 5 → 8 regrouping loses nothing on whole 5-byte blocks (20 bytes = 4 blocks). -/
theorem C08_lisk32_regroup_8_5_8 (k : Nat) (l : List Nat) (hl : l.length = 5 * k)
    (hb : ∀ b ∈ l, b < 256) : convertUIntArray (convertUIntArray l 8 5) 5 8 = l :=
  convert_8_5_8 k l hl hb

/-- 5 → 8 → 5 regrouping loses nothing on whole 8-quintet blocks (32 quintets = 4 blocks). -/
theorem C08_lisk32_regroup_5_8_5 (k : Nat) (l : List Nat) (hl : l.length = 8 * k)
    (hb : ∀ q ∈ l, q < 32) : convertUIntArray (convertUIntArray l 5 8) 8 5 = l :=
  convert_5_8_5 k l hl hb

/-- 20 bytes give exactly 32 quintets, each below 32. -/
theorem C08_lisk32_regroup_shape (b : Bytes) (hb : b.length = 20) :
    (convertUIntArray (b.map (·.toNat)) 8 5).length = 32 ∧
      ∀ v ∈ convertUIntArray (b.map (·.toNat)) 8 5, v < 32 :=
  ⟨(u5Of_props b hb).1, (u5Of_props b hb).2.1⟩

/-! ### bytes → text -/

/-- The text produced for a 20-byte value: 41 bytes, "lsk" first, accepted by `validate`. -/
theorem C08_lisk32_validates_own_output (b : Bytes) (hb : b.length = 20) (s : Bytes)
    (h : bytesToLisk32 b = some s) : validate s = true := by
  rw [bytesToLisk32_eq b hb] at h
  injection h with h
  subst h
  exact validate_encoded _ (u5Of_props b hb).1 (u5Of_props b hb).2.1

/-- `bytesToLisk32` succeeds on every 20-byte value, and its text starts with "lsk" and has 41
bytes. -/
theorem C08_lisk32_output_shape (b : Bytes) (hb : b.length = 20) :
    ∃ s, bytesToLisk32 b = some s ∧ s.length = 41 ∧ s.take 3 = lskPrefix := by
  refine ⟨_, bytesToLisk32_eq b hb, ?_, ?_⟩
  · simp [lskPrefix_eq, (u5Of_props b hb).1, (createChecksum_props (u5Of b)).1]
  · exact List.take_left' (by rw [lskPrefix_eq]; rfl)

/-- bytes → text → bytes without loss -/
theorem C08_lisk32_roundtrip (b : Bytes) (hb : b.length = 20) :
    (bytesToLisk32 b).bind lisk32ToBytes = some b := by
  obtain ⟨h1, h2, h3⟩ := u5Of_props b hb
  rw [bytesToLisk32_eq b hb, Option.bind_some, lisk32ToBytes_encoded _ h1 h2, h3]

/-- Different 20-byte values get different texts. -/
theorem C08_lisk32_injective (a b : Bytes) (ha : a.length = 20) (hb : b.length = 20)
    (h : bytesToLisk32 a = bytesToLisk32 b) : a = b := by
  have h1 := C08_lisk32_roundtrip a ha
  have h2 := C08_lisk32_roundtrip b hb
  rw [h, h2] at h1
  injection h1 with h1
  exact h1.symm

/-! ### text → bytes -/

/-- text → bytes → text without loss, for accepted texts that start with "lsk". -/
theorem C08_lisk32_text_roundtrip (s : Bytes) (hv : validate s = true)
    (hp : s.take 3 = lskPrefix) : (lisk32ToBytes s).bind bytesToLisk32 = some s := by
  -- what `validate` established
  have hlen : s.length = 41 := by
    unfold validate at hv
    split at hv
    · cases hv
    · omega
  cases hm : (s.drop 3).mapM charIndex with
  | none =>
    unfold validate at hv
    rw [if_neg (by omega), hm] at hv
    cases hv
  | some all =>
    rw [validate_eq s all hlen hm] at hv
    have hpoly : polymod all = 1 := by simpa using hv
    obtain ⟨hdrop, hall⟩ := mapM_charIndex_some _ _ hm
    have hall_len : all.length = 38 := by
      have := congrArg List.length hdrop
      simp only [List.length_drop, List.length_map, hlen] at this
      omega
    -- split the 38 values into 32 quintets and the 6-value tail
    have hsplit : all.take 32 ++ all.drop 32 = all := List.take_append_drop 32 all
    have hu_len : (all.take 32).length = 32 := by simp [hall_len]
    have hu_lt : ∀ v ∈ all.take 32, v < 32 := fun v hv => hall v (List.mem_of_mem_take hv)
    have hc_len : (all.drop 32).length = 6 := by simp [hall_len]
    have hc_lt : ∀ v ∈ all.drop 32, v < 32 := fun v hv => hall v (List.mem_of_mem_drop hv)
    have hck : createChecksum (all.take 32) = all.drop 32 :=
      checksum_unique _ _ hc_len hc_lt (by rw [hsplit]; exact hpoly)
    have hs : s = lskPrefix ++ (all.take 32 ++ createChecksum (all.take 32)).map charOf := by
      rw [hck, hsplit, ← hdrop, ← hp, List.take_append_drop]
    -- decode
    obtain ⟨k1, k2, k3⟩ := q58_props 4 _ hu_len hu_lt
    have hdec : lisk32ToBytes s = some ((convertUIntArray (all.take 32) 5 8).map UInt8.ofNat) := by
      conv => lhs; rw [hs]
      exact lisk32ToBytes_encoded _ hu_len hu_lt
    have hbytes_len : ((convertUIntArray (all.take 32) 5 8).map UInt8.ofNat).length = 20 := by
      rw [List.length_map, convert58 4 _ hu_len hu_lt, k1]
    have hu5 : u5Of ((convertUIntArray (all.take 32) 5 8).map UInt8.ofNat) = all.take 32 := by
      rw [u5Of, map_toNat_ofNat _ (by rw [convert58 4 _ hu_len hu_lt]; exact k2),
        convert_5_8_5 4 _ hu_len hu_lt]
    rw [hdec, Option.bind_some, bytesToLisk32_eq _ hbytes_len, hu5, ← hs]

/-- Different accepted "lsk…" texts decode to different byte values. -/
theorem C08_lisk32_text_injective (s t : Bytes) (hs : validate s = true) (ht : validate t = true)
    (ps : s.take 3 = lskPrefix) (pt : t.take 3 = lskPrefix)
    (h : lisk32ToBytes s = lisk32ToBytes t) : s = t := by
  have h1 := C08_lisk32_text_roundtrip s hs ps
  have h2 := C08_lisk32_text_roundtrip t ht pt
  rw [h, h2] at h1
  injection h1 with h1
  exact h1.symm

/-! ### the "lsk" prefix is not checked -/

/-- `validate` (Go `ValidateLisk32`) reads `val[3:]` only: a text with another 3-byte prefix and a
valid body is accepted, and `lisk32ToBytes` decodes it to the same bytes as the "lsk" text. So
`lisk32ToBytes` is not injective on accepted texts, and the hypothesis `s.take 3 = lskPrefix` of
`C08_lisk32_text_roundtrip` cannot be dropped. Counterexample by evaluation
("abc24cd35u4jdq8szo3pnsqe5dsxwrnazyqqqg5eu"). -/
theorem C08_lisk32_prefix_not_checked :
    ∃ s : Bytes, s.take 3 ≠ lskPrefix ∧ validate s = true ∧
      (lisk32ToBytes s).bind bytesToLisk32 ≠ some s ∧
      lisk32ToBytes s = lisk32ToBytes (lskPrefix ++ s.drop 3) := by
  refine ⟨[97, 98, 99, 50, 52, 99, 100, 51, 53, 117, 52, 106, 100, 113, 56, 115, 122, 111, 51, 112,
    110, 115, 113, 101, 53, 100, 115, 120, 119, 114, 110, 97, 122, 121, 113, 113, 113, 103, 53, 101,
    117], ?_⟩
  decide +kernel

/-! ### non-vacuity: the LIP-0018 test vector
address bytes c247a42e09e6aafd818821f75b2f5b0de47c8235 ↔ "lsk24cd35u4jdq8szo3pnsqe5dsxwrnazyqqqg5eu" -/

/-- the example 20-byte value -/
def C08_lisk32_exampleBytes : Bytes :=
  [0xc2, 0x47, 0xa4, 0x2e, 0x09, 0xe6, 0xaa, 0xfd, 0x81, 0x88, 0x21, 0xf7, 0x5b, 0x2f, 0x5b, 0x0d,
    0xe4, 0x7c, 0x82, 0x35]

/-- its text, "lsk24cd35u4jdq8szo3pnsqe5dsxwrnazyqqqg5eu" -/
def C08_lisk32_exampleText : Bytes :=
  [108, 115, 107, 50, 52, 99, 100, 51, 53, 117, 52, 106, 100, 113, 56, 115, 122, 111, 51, 112, 110,
    115, 113, 101, 53, 100, 115, 120, 119, 114, 110, 97, 122, 121, 113, 113, 113, 103, 53, 101, 117]

example : C08_lisk32_exampleText = "lsk24cd35u4jdq8szo3pnsqe5dsxwrnazyqqqg5eu".toUTF8.toList := by
  decide +kernel

example : C08_lisk32_exampleBytes.length = 20 := by decide

example : bytesToLisk32 C08_lisk32_exampleBytes = some C08_lisk32_exampleText := by decide +kernel

example : validate C08_lisk32_exampleText = true := by decide +kernel

example : C08_lisk32_exampleText.take 3 = lskPrefix := by decide +kernel

example : lisk32ToBytes C08_lisk32_exampleText = some C08_lisk32_exampleBytes := by decide +kernel

/-- the checksum theorem on the example's quintets (hypotheses of `C08_lisk32_checksum_valid`) -/
example :
    let u5 := convertUIntArray (C08_lisk32_exampleBytes.map (·.toNat)) 8 5
    u5.length = 32 ∧ (∀ v ∈ u5, v < 32) ∧ polymod (u5 ++ createChecksum u5) = 1 := by
  decide +kernel

/-- a wrong checksum character is rejected (last character changed) -/
example : validate (C08_lisk32_exampleText.take 40 ++ [122]) = false := by decide +kernel

/-- regrouping on a concrete block -/
example : convertUIntArray [0xff, 0x00, 0xab, 0x12, 0x80] 8 5 = [31, 28, 0, 10, 22, 4, 20, 0] ∧
    convertUIntArray [31, 28, 0, 10, 22, 4, 20, 0] 5 8 = [0xff, 0x00, 0xab, 0x12, 0x80] := by
  decide
