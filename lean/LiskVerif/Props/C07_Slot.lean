/-
C07 — the slot calculator (`pkg/consensus/validator/block_slot.go`) inside the model.

The fork-choice predicates of Props/C07*.lean take `validator.BlockSlot` as an opaque function
`Slot.getSlotNumber` and the two wall-clock helpers of `forkChoice` as opaque flags. This file closes
that hole: every definition below is REGENERATED from the Go source by tools/fngen (typed translation,
`LiskVerif/Gen/Fns2.lean`) on every run,

* `Gen.newBlockSlotGenesis`, `Gen.newBlockSlotBlockTime` — the two fields `NewBlockSlot` STORES,
* `Gen.getSlotNumber`, `Gen.getSlotTime`                 — the two methods of `BlockSlot`,
* `Gen.fcReceivedBlockWithinForgingSlot`, `Gen.fcReceivedLastBlockWithinForgingSlot`,
  `Gen.fcIsTieBreakTimed`                                — the wall-clock helpers and the tie-break test of
                                                            `forkChoice`, calling `GetSlotNumber`,

and the theorems state the LIP-0014 slot grid about them: slot `k` of a chain with genesis timestamp
`g` and block time `bt` is the interval `[g + k·bt, g + (k+1)·bt)` — counted from the genesis timestamp
ITSELF, whatever its residue modulo the block time (`C07SlotSpec`).

* `C07_slot_constructor_stores`      : `NewBlockSlot(g, bt)` stores exactly `g` and `bt` and never panics.
* `C07_slot_genesis_is_slot_zero`    : the genesis timestamp is in slot 0 for EVERY genesis (aligned or not).
* `C07_slot_number_iff`              : for `bt > 0`, `g ≤ t < 2^32`: `GetSlotNumber(t) = k ⇔ g + k·bt ≤ t < g + (k+1)·bt`,
  for the calculator the constructor builds (`C07_slot_constructed_number_iff`).
* `C07_slot_spec_unique`             : the grid is a partition (every `t ≥ g` lies in exactly one slot).
* `C07_slot_time_eq`, `C07_slot_time_wraps`, `C07_slot_time_roundtrip`, `C07_slot_time_is_first_second`.
* `C07_slot_monotone`.
* `C07_slot_received_in_slot_iff`, `C07_slot_received_last_in_slot_iff` : the helpers are "same LIP-0014 slot".
* `C07_slot_recvFlags_generated`     : the hand transcription `C07recvFlags` (Props/C07_More.lean) of the
  helpers IS the regenerated code; `C07_slot_tiebreak_timed_eq`: the untyped `fcIsTieBreak` on the record
  built from the calculator is the typed `fcIsTieBreakTimed`.
* `C07_slot_tiebreak_lip14`          : `IsTieBreak` ⇔ the LIP-0014 case-4 condition over the grid.
* outside the specification, as the code has it: `C07_slot_before_genesis_wraps` (uint32 wrap: a time before the
  genesis timestamp is in a huge POSITIVE slot, never a negative one), `C07_slot_zero_block_time`
  (float64 division by zero: -2^63 on amd64 for every time; `GetSlotTime` is constantly the genesis timestamp).

With a constructor that stores `g - g % bt` (a grid "aligned" to multiples of the block time)
`C07_slot_constructor_stores` and everything stated through `C07newSlotFields` no longer checks: for
`g = 1000003`, `bt = 10` the time `1000071` lies in `[g + 6·bt, g + 7·bt) = [1000063, 1000073)`, slot 6, but the
aligned grid answers 7 (`(1000071 - 1000000) / 10`).
-/
import LiskVerif.Props.C07_More
import LiskVerif.Lemmas.GenInt

open LiskVerif LiskVerif.Gen

/-! ### the specification: the LIP-0014 slot grid -/

/-- `t` lies in slot `k` of the chain with genesis timestamp `g` and block time `bt` (LIP-0014:
slots are `bt` seconds long and are counted from the genesis timestamp) -/
def C07SlotSpec (g bt t k : Nat) : Prop := g + k * bt ≤ t ∧ t < g + (k + 1) * bt

instance (g bt t k : Nat) : Decidable (C07SlotSpec g bt t k) := by unfold C07SlotSpec; infer_instance

/-- the grid is a partition of the times from the genesis timestamp on: existence … -/
theorem C07_slot_spec_exists (g bt t : Nat) (hbt : 0 < bt) (hgt : g ≤ t) : C07SlotSpec g bt t ((t - g) / bt) := by
  unfold C07SlotSpec
  have h1 : (t - g) / bt * bt ≤ t - g := Nat.div_mul_le_self _ _
  have h2 : t - g < ((t - g) / bt + 1) * bt := by
    have := Nat.lt_div_mul_add (a := t - g) hbt
    rw [Nat.add_mul]; omega
  omega

/-- … and uniqueness -/
theorem C07_slot_spec_unique (g bt t k k' : Nat) (h : C07SlotSpec g bt t k) (h' : C07SlotSpec g bt t k') : k = k' := by
  unfold C07SlotSpec at h h'
  rcases Nat.lt_trichotomy k k' with hlt | heq | hgt
  · have : (k + 1) * bt ≤ k' * bt := Nat.mul_le_mul_right bt hlt
    omega
  · exact heq
  · have : (k' + 1) * bt ≤ k * bt := Nat.mul_le_mul_right bt hgt
    omega

/-! ### the constructor -/

/-- the two fields `NewBlockSlot(g, bt)` stores (`none` = the constructor panics) -/
def C07newSlotFields (g bt : Nat) : Option (Nat × Nat) :=
  match newBlockSlotGenesis g bt, newBlockSlotBlockTime g bt with
  | some g', some bt' => some (g', bt')
  | _, _ => none

/-- `validator.BlockSlot` with the stored fields `(g, bt)`, as fork choice uses it -/
def C07slotOf (p : Nat × Nat) : Slot := { getSlotNumber := fun t => getSlotNumber t p.1 p.2 }

/-- **`NewBlockSlot` stores the genesis timestamp and the block time unchanged** (for every input, including
block time 0 — the constructor has no arithmetic and cannot panic) -/
theorem C07_slot_constructor_stores (g bt : Nat) :
    newBlockSlotGenesis g bt = some g ∧ newBlockSlotBlockTime g bt = some bt ∧ C07newSlotFields g bt = some (g, bt) :=
  ⟨rfl, rfl, rfl⟩

/-! ### `GetSlotNumber` -/

private theorem elapsed_eq {g t : Nat} (hgt : g ≤ t) (ht : t < 4294967296) :
    (t + 4294967296 - g) % 4294967296 = t - g := by omega

/-- closed form for times from the genesis timestamp on -/
theorem C07_slot_number_eq (g bt t : Nat) (hbt : 0 < bt) (hgt : g ≤ t) (ht : t < 4294967296) :
    getSlotNumber t g bt = (((t - g) / bt : Nat) : Int) := by
  unfold getSlotNumber f64FloorDivToInt
  simp only [elapsed_eq hgt ht]
  rw [if_neg (by omega)]
  rfl

/-- **`GetSlotNumber(t) = k` exactly when `t` lies in `[g + k·bt, g + (k+1)·bt)`** — for every genesis
timestamp `g`, multiple of the block time or not (`bt > 0`, `g ≤ t`, `t` a `uint32`) -/
theorem C07_slot_number_iff (g bt t k : Nat) (hbt : 0 < bt) (hgt : g ≤ t) (ht : t < 4294967296) :
    getSlotNumber t g bt = (k : Int) ↔ C07SlotSpec g bt t k := by
  rw [C07_slot_number_eq g bt t hbt hgt ht]
  constructor
  · intro h
    have hk : (t - g) / bt = k := by exact_mod_cast h
    rw [← hk]
    exact C07_slot_spec_exists g bt t hbt hgt
  · intro h
    have := C07_slot_spec_unique g bt t _ _ (C07_slot_spec_exists g bt t hbt hgt) h
    rw [this]

/-- the slot number of a time from the genesis timestamp on is never negative -/
theorem C07_slot_number_nonneg (g bt t : Nat) (hbt : 0 < bt) (hgt : g ≤ t) (ht : t < 4294967296) :
    0 ≤ getSlotNumber t g bt := by
  rw [C07_slot_number_eq g bt t hbt hgt ht]
  exact Int.natCast_nonneg _

/-- **the same for the calculator `NewBlockSlot(g, bt)` builds**: the constructor does not panic and the
slot numbers of the object it returns follow the grid that starts at `g` -/
theorem C07_slot_constructed_number_iff (g bt t k : Nat) (hbt : 0 < bt) (hgt : g ≤ t) (ht : t < 4294967296) :
    ∃ p, C07newSlotFields g bt = some p ∧
      ((C07slotOf p).getSlotNumber t = (k : Int) ↔ C07SlotSpec g bt t k) :=
  ⟨(g, bt), (C07_slot_constructor_stores g bt).2.2, C07_slot_number_iff g bt t k hbt hgt ht⟩

/-- **the genesis timestamp is in slot 0, for EVERY genesis timestamp** (aligned to the block time or not) -/
theorem C07_slot_genesis_is_slot_zero (g bt : Nat) (hbt : 0 < bt) (hg : g < 4294967296) :
    ∃ p, C07newSlotFields g bt = some p ∧ (C07slotOf p).getSlotNumber g = 0 := by
  refine ⟨(g, bt), (C07_slot_constructor_stores g bt).2.2, ?_⟩
  have := (C07_slot_number_iff g bt g 0 hbt (Nat.le_refl g) hg).mpr (by unfold C07SlotSpec; omega)
  simpa [C07slotOf] using this

/-- the last second before the genesis timestamp + `k·bt` is in slot `k - 1`, that second itself in slot `k` -/
theorem C07_slot_boundary (g bt k : Nat) (hbt : 0 < bt) (h : g + (k + 1) * bt < 4294967296) :
    getSlotNumber (g + (k + 1) * bt - 1) g bt = (k : Int) ∧ getSlotNumber (g + (k + 1) * bt) g bt = ((k + 1 : Nat) : Int) := by
  have hm : (k + 1) * bt = k * bt + bt := by rw [Nat.add_mul]; omega
  have hm2 : (k + 1 + 1) * bt = (k + 1) * bt + bt := by rw [Nat.add_mul (k + 1) 1 bt]; omega
  constructor
  · exact (C07_slot_number_iff g bt _ k hbt (by omega) (by omega)).mpr (by unfold C07SlotSpec; omega)
  · exact (C07_slot_number_iff g bt _ (k + 1) hbt (by omega) (by omega)).mpr (by unfold C07SlotSpec; omega)

/-- **monotone**: a later time is never in an earlier slot (any block time, including 0) -/
theorem C07_slot_monotone (g bt t1 t2 : Nat) (hg : g ≤ t1) (h12 : t1 ≤ t2) (ht : t2 < 4294967296) :
    getSlotNumber t1 g bt ≤ getSlotNumber t2 g bt := by
  unfold getSlotNumber f64FloorDivToInt
  simp only [elapsed_eq hg (by omega), elapsed_eq (Nat.le_trans hg h12) ht]
  by_cases hb : bt = 0
  · simp [hb]
  · rw [if_neg hb, if_neg hb]
    have : (t1 - g) / bt ≤ (t2 - g) / bt := Nat.div_le_div_right (by omega)
    exact Int.ofNat_le.mpr this

/-! ### `GetSlotTime` -/

/-- `GetSlotTime(k)` for `k ≥ 0` whose product with the block time fits an `int`: `g + k·bt` modulo 2^32 -/
theorem C07_slot_time_wraps (g bt k : Nat) (h : k * bt < 9223372036854775808) :
    getSlotTime (k : Int) g bt = (g + k * bt) % 4294967296 := by
  unfold getSlotTime
  have hc : ((k : Int) * Int.ofNat bt) = ((k * bt : Nat) : Int) := by
    have : Int.ofNat bt = (bt : Int) := rfl
    rw [this]; push_cast; rfl
  rw [hc]
  generalize k * bt = p at h
  show (g + Int.toNat (Gen.i64 (p : Int) % 4294967296)) % 4294967296 = _
  rw [Gen.i64_eq (by omega) (by omega)]
  omega

/-- **`GetSlotTime(k) = g + k·bt`** as long as that is a `uint32` -/
theorem C07_slot_time_eq (g bt k : Nat) (h : g + k * bt < 4294967296) : getSlotTime (k : Int) g bt = g + k * bt := by
  rw [C07_slot_time_wraps g bt k (by omega), Nat.mod_eq_of_lt h]

/-- the slot of the start time of slot `k` is `k` -/
theorem C07_slot_time_roundtrip (g bt k : Nat) (hbt : 0 < bt) (h : g + k * bt < 4294967296) :
    getSlotNumber (getSlotTime (k : Int) g bt) g bt = (k : Int) := by
  rw [C07_slot_time_eq g bt k h]
  exact (C07_slot_number_iff g bt _ k hbt (by omega) h).mpr (by unfold C07SlotSpec; rw [Nat.add_mul]; omega)

/-- `GetSlotTime(k)` is the FIRST second of slot `k`: every time in slot `k` is at or after it -/
theorem C07_slot_time_is_first_second (g bt t k : Nat) (hbt : 0 < bt) (hgt : g ≤ t) (ht : t < 4294967296)
    (hk : getSlotNumber t g bt = (k : Int)) :
    getSlotTime (k : Int) g bt ≤ t ∧ t < getSlotTime (k : Int) g bt + bt := by
  have hs := (C07_slot_number_iff g bt t k hbt hgt ht).mp hk
  unfold C07SlotSpec at hs
  rw [C07_slot_time_eq g bt k (by omega)]
  rw [Nat.add_mul] at hs
  omega

/-! ### the wall-clock helpers of `forkChoice` -/

/-- **`receivedBlockWithinForgingSlot`: the receive time and the header timestamp lie in the same slot of
the LIP-0014 grid** -/
theorem C07_slot_received_in_slot_iff (g bt recv ts : Nat) (hbt : 0 < bt)
    (hgr : g ≤ recv) (hr : recv < 4294967296) (hgt : g ≤ ts) (ht : ts < 4294967296) :
    fcReceivedBlockWithinForgingSlot recv ts g bt = true ↔ ∃ k, C07SlotSpec g bt recv k ∧ C07SlotSpec g bt ts k := by
  unfold fcReceivedBlockWithinForgingSlot
  rw [decide_eq_true_iff]
  constructor
  · intro h
    refine ⟨(ts - g) / bt, ?_, C07_slot_spec_exists g bt ts hbt hgt⟩
    rw [C07_slot_number_eq g bt ts hbt hgt ht] at h
    exact (C07_slot_number_iff g bt recv _ hbt hgr hr).mp h
  · rintro ⟨k, h1, h2⟩
    rw [(C07_slot_number_iff g bt recv k hbt hgr hr).mpr h1, (C07_slot_number_iff g bt ts k hbt hgt ht).mpr h2]

/-- **`receivedLastBlockWithinForgingSlot`: true for a tip that came from syncing (no receive time), otherwise
"same slot of the grid"** -/
theorem C07_slot_received_last_in_slot_iff (g bt recv ts : Nat) (fromSync : Bool) (hbt : 0 < bt)
    (hgr : g ≤ recv) (hr : recv < 4294967296) (hgt : g ≤ ts) (ht : ts < 4294967296) :
    fcReceivedLastBlockWithinForgingSlot fromSync recv ts g bt = true ↔
      (fromSync = true ∨ ∃ k, C07SlotSpec g bt recv k ∧ C07SlotSpec g bt ts k) := by
  have h := C07_slot_received_in_slot_iff g bt recv ts hbt hgr hr hgt ht
  unfold fcReceivedBlockWithinForgingSlot at h
  unfold fcReceivedLastBlockWithinForgingSlot
  cases fromSync with
  | true => simp
  | false => simpa using h

/-- **the hand transcription `C07recvFlags` of the two helpers (Props/C07_More.lean) is the regenerated code**,
for the calculator with stored fields `(g, bt)` -/
theorem C07_slot_recvFlags_generated (g bt : Nat) (tip cur : Hdr) (recvTip : Option Nat) (now : Nat) :
    C07recvFlags (C07slotOf (g, bt)) tip cur recvTip now =
      { receivedBlockWithinForgingSlot := fcReceivedBlockWithinForgingSlot now cur.timestamp g bt,
        receivedLastBlockWithinForgingSlot :=
          fcReceivedLastBlockWithinForgingSlot recvTip.isNone (recvTip.getD 0) tip.timestamp g bt } := by
  unfold C07recvFlags C07slotOf fcReceivedBlockWithinForgingSlot fcReceivedLastBlockWithinForgingSlot
  cases recvTip <;> simp

/-- **the untyped `IsTieBreak` (Gen/Fns.lean) on the record `process` builds from the calculator is the typed
one**: same source lines, the opaque `c.slot.GetSlotNumber` instantiated with the regenerated method -/
theorem C07_slot_tiebreak_timed_eq (g bt : Nat) (tip cur : Hdr) (f : Node.RecvFlags) :
    fcIsTieBreak (C07fc (C07slotOf (g, bt)) tip cur f) =
      fcIsTieBreakTimed (fcIsDuplicateBlock (C07fc (C07slotOf (g, bt)) tip cur f)) tip.timestamp cur.timestamp
        f.receivedLastBlockWithinForgingSlot f.receivedBlockWithinForgingSlot g bt := rfl

/-- LIP-0014 case 4 over the grid: same height / maxHeightPrevoted / parent (`C07Dup`), the incoming block
belongs to a later slot, the tip has a recorded receive time outside its slot, the incoming block was
received within its own slot -/
def C07TieBreakLIP (g bt : Nat) (tip cur : Hdr) (recvTip : Option Nat) (now : Nat) : Prop :=
  C07Dup tip cur ∧
  ∃ kt kc, C07SlotSpec g bt tip.timestamp kt ∧ C07SlotSpec g bt cur.timestamp kc ∧ kt < kc ∧
    (∃ r, recvTip = some r ∧ ¬ C07SlotSpec g bt r kt) ∧ C07SlotSpec g bt now kc

/-- **`IsTieBreak`, evaluated with the calculator `NewBlockSlot(g, bt)` returns and the receive times, is the
LIP-0014 tie-break condition over the slot grid that starts at the genesis timestamp** (all times are
`uint32` values from the genesis timestamp on, `bt > 0`) -/
theorem C07_slot_tiebreak_lip14 (g bt : Nat) (tip cur : Hdr) (recvTip : Option Nat) (now : Nat) (hbt : 0 < bt)
    (h1 : g ≤ tip.timestamp ∧ tip.timestamp < 4294967296) (h2 : g ≤ cur.timestamp ∧ cur.timestamp < 4294967296)
    (h3 : g ≤ now ∧ now < 4294967296) (h4 : ∀ r, recvTip = some r → g ≤ r ∧ r < 4294967296) :
    ∃ p, C07newSlotFields g bt = some p ∧
      (fcIsTieBreak (C07fc (C07slotOf p) tip cur (C07recvFlags (C07slotOf p) tip cur recvTip now)) = true ↔
        C07TieBreakLIP g bt tip cur recvTip now) := by
  refine ⟨(g, bt), (C07_slot_constructor_stores g bt).2.2, ?_⟩
  have e1 := C07_slot_number_eq g bt tip.timestamp hbt h1.1 h1.2
  have e2 := C07_slot_number_eq g bt cur.timestamp hbt h2.1 h2.2
  have e3 := C07_slot_number_eq g bt now hbt h3.1 h3.2
  have s1 := C07_slot_spec_exists g bt tip.timestamp hbt h1.1
  have s2 := C07_slot_spec_exists g bt cur.timestamp hbt h2.1
  have s3 := C07_slot_spec_exists g bt now hbt h3.1
  have hdup : fcIsDuplicateBlock (C07fc (C07slotOf (g, bt)) tip cur (C07recvFlags (C07slotOf (g, bt)) tip cur recvTip now)) = true ↔
      C07Dup tip cur := by
    unfold fcIsDuplicateBlock C07fc C07Dup
    simp [and_assoc]
  unfold fcIsTieBreak C07TieBreakLIP
  simp only [Bool.and_eq_true, hdup, Bool.not_eq_true', decide_eq_true_eq]
  simp only [C07fc, C07recvFlags, C07slotOf, e1, e2, e3]
  constructor
  · rintro ⟨⟨⟨hd, hlt⟩, hl⟩, hc⟩
    refine ⟨hd, (tip.timestamp - g) / bt, (cur.timestamp - g) / bt, s1, s2, by exact_mod_cast hlt, ?_, ?_⟩
    · cases recvTip with
      | none => simp at hl
      | some r =>
        refine ⟨r, rfl, ?_⟩
        obtain ⟨hr1, hr2⟩ := h4 r rfl
        intro hs
        have := (C07_slot_number_iff g bt r _ hbt hr1 hr2).mpr hs
        simp [this] at hl
    · have hc' : (now - g) / bt = (cur.timestamp - g) / bt := by
        have := of_decide_eq_true hc
        exact_mod_cast this
      rw [← hc']; exact s3
  · rintro ⟨hd, kt, kc, hkt, hkc, hlt, ⟨r, hr, hrn⟩, hnow⟩
    have ekt := C07_slot_spec_unique g bt _ _ _ s1 hkt
    have ekc := C07_slot_spec_unique g bt _ _ _ s2 hkc
    have ekn := C07_slot_spec_unique g bt _ _ _ s3 hnow
    refine ⟨⟨⟨hd, by rw [ekt, ekc]; exact_mod_cast hlt⟩, ?_⟩, ?_⟩
    · subst hr
      obtain ⟨hr1, hr2⟩ := h4 r rfl
      simp only [decide_eq_false_iff_not]
      intro hs
      rw [C07_slot_number_eq g bt r hbt hr1 hr2] at hs
      have hs' : (r - g) / bt = (tip.timestamp - g) / bt := by exact_mod_cast hs
      apply hrn
      rw [← ekt, ← hs']
      exact C07_slot_spec_exists g bt r hbt hr1
    · rw [ekn, ekc]; simp

/-! ### outside the specification: what the code does -/

/-- **a time BEFORE the genesis timestamp**: `elapsed` is a `uint32` and wraps, so the slot number is the huge
non-negative `(t + 2^32 - g) / bt` — never a negative slot -/
theorem C07_slot_before_genesis_wraps (g bt t : Nat) (hbt : 0 < bt) (htg : t < g) (hg : g < 4294967296) :
    getSlotNumber t g bt = (((t + 4294967296 - g) / bt : Nat) : Int) ∧ 0 ≤ getSlotNumber t g bt := by
  have e : (t + 4294967296 - g) % 4294967296 = t + 4294967296 - g := by omega
  have : getSlotNumber t g bt = (((t + 4294967296 - g) / bt : Nat) : Int) := by
    unfold getSlotNumber f64FloorDivToInt
    simp only [e]
    rw [if_neg (by omega)]
    rfl
  exact ⟨this, by rw [this]; exact Int.natCast_nonneg _⟩

/-- the second before genesis 1000, block time 10, is in slot 429496729 (not in slot -1), and slots are
therefore NOT monotone across the genesis timestamp -/
theorem C07_slot_before_genesis_counterexample :
    getSlotNumber 999 1000 10 = 429496729 ∧ getSlotNumber 1000 1000 10 = 0 ∧
    ¬ (getSlotNumber 999 1000 10 ≤ getSlotNumber 1000 1000 10) := by decide +kernel

/-- **block time 0**: `float64(elapsed) / 0` is +Inf or NaN and `int(…)` of it is implementation-dependent in Go;
on amd64 it is -2^63 for every time (so all times are "in the same slot"), and `GetSlotTime` is constantly
the genesis timestamp. The constructor accepts block time 0. -/
theorem C07_slot_zero_block_time (g t : Nat) (k : Int) (hg : g < 4294967296) :
    C07newSlotFields g 0 = some (g, 0) ∧ getSlotNumber t g 0 = -9223372036854775808 ∧ getSlotTime k g 0 = g := by
  refine ⟨rfl, ?_, ?_⟩
  · unfold getSlotNumber f64FloorDivToInt; simp
  · unfold getSlotTime
    have : k * Int.ofNat 0 = 0 := by simp
    simp only [this]
    have h0 : Gen.i64 0 = 0 := by decide
    rw [h0]
    simp
    omega

/-! ### non-vacuity -/

/-- genesis 1000003 (residue 3 mod 10), tip of slot 5 received in slot 6, competing block of slot 6 (timestamp
genesis + 60) received at genesis + 68 = 1000071: a tie break. A calculator with stored genesis 1000000 (grid
shifted down by the residue) puts that receive time in another slot than the header timestamp. -/
example : getSlotNumber 1000063 1000003 10 = 6 ∧ getSlotNumber 1000071 1000003 10 = 6 ∧
    getSlotNumber 1000062 1000003 10 = 5 ∧ getSlotNumber 1000073 1000003 10 = 7 ∧
    getSlotTime 6 1000003 10 = 1000063 ∧
    fcReceivedBlockWithinForgingSlot 1000071 1000063 1000003 10 = true ∧
    fcReceivedBlockWithinForgingSlot 1000071 1000063 1000000 10 = false ∧
    fcReceivedLastBlockWithinForgingSlot false 1000063 1000053 1000003 10 = false ∧
    fcReceivedLastBlockWithinForgingSlot true 0 1000053 1000003 10 = true := by decide +kernel

example : C07SlotSpec 1000003 10 1000071 6 := by decide

example : C07TieBreakLIP 1000003 10
    { height := 7, generatorAddress := [1], maxHeightGenerated := 0, maxHeightPrevoted := 2, id := [1], previousBlockID := [9], timestamp := 1000053 }
    { height := 7, generatorAddress := [2], maxHeightGenerated := 0, maxHeightPrevoted := 2, id := [2], previousBlockID := [9], timestamp := 1000063 }
    (some 1000063) 1000071 := by
  refine ⟨by unfold C07Dup; decide, 5, 6, by decide, by decide, by decide, ⟨1000063, rfl, by decide⟩, by decide⟩

example : (C07_slot_genesis_is_slot_zero 1000003 10 (by decide) (by decide)).choose = (1000003, 10) := by
  have h := (C07_slot_genesis_is_slot_zero 1000003 10 (by decide) (by decide)).choose_spec.1
  have h2 := (C07_slot_constructor_stores 1000003 10).2.2
  exact Option.some.inj (h.symm.trans h2)
