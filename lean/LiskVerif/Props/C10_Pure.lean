/-
C10 — `smt.Verify` as a function of the VALUES of its arguments (class "verification entry points must not consume
their inputs", seeded change C10-11: a Verify that completed the caller's queries in place and let CalculateRoot
rewrite their exported Bitmap fields: the second Verify of the same proof, of `Proof.Copy()` or of its re-encoding
failed, and the emptied proof verified against a leaf hash).

What the model can and cannot say
* The transcription `SMTVerify.verify` is a Lean function: it has no access to the memory of its caller, so
  "does not mutate its arguments" holds BY CONSTRUCTION and is not a theorem.  That clause is checked on the real
  code by the model-free oracle `corr.PureCall` (harness/corr/pure.go, harness/c10/pure.go:
  `c10-verify-mutates-argument`, `c10-verify-not-idempotent`, `c10-verify-copy-differs:*`).
* `C10_verify_deterministic_on_reuse` : the statement callers rely on — verifying the same (keys, proof, root,
  key length) any number of times, interleaved with verifications of other proofs, gives the same verdict.  For
  the model this is TRIVIAL (the answers are a `List.map` of a function); it is stated so that the run-time tie
  has something to refer to: the driver op `reverify <n> same|copy` recomputes the verdict from the recorded
  arguments and the Go runner verifies the very same objects again.
* `C10_verify_refinement_reuse` : any implementation with hidden state (scratch fields, caches) whose every
  single call returns the model's verdict — in whatever state — answers every request sequence as the model does;
  so per-call correspondence in ALL reachable states (what `reverify` adds) is the right thing to check.
* `C10_verify_copy_equiv` (non-trivial) : the verdict depends only on the ENCODED BYTES of the proof: the proof a
  receiver obtains by `Decode` of `proof.Encode()` is the proof itself (`wireClone nfc p = some p`), hence has the
  same verdict.  Uses the C08 round trip for nested messages (`C08_roundtrip_all_schemas`) on the REGENERATED
  schema table: `C10_smtProof_schema`, `C10_smtQueryProof_schema` pin the generated structs smt.Proof =
  (siblingHashes [][]byte, queries []*QueryProof) and smt.QueryProof = (key, value, bitmap []byte) — a codec file
  that drops or reorders a field breaks these by kernel evaluation.
* `C10_verify_depends_on_encoding_only` : two proofs with the same encoding are equal, hence verify alike.
* `C10_verify_relay_stable` : for a proof RECEIVED from the wire (any accepted byte string), re-encoding and
  decoding it again returns the same proof: relaying a verified proof hands on a proof with the same verdict
  (`C08_decode_reencode_stable`; smt.Proof has no nested pointer, `C10_smtProof_nilFree`).
-/
import LiskVerif.Model.SMTWire
import LiskVerif.Props.C08_Nested

open LiskVerif LiskVerif.Codec LiskVerif.Gen LiskVerif.SMT LiskVerif.SMTVerify LiskVerif.SMTWire

/-! ### reuse -/

/-- one verification request -/
structure C10Request where
  keys : List Bytes
  proof : Proof
  root : Bytes
  keyLen : Nat

/-- the verdicts of a sequence of requests -/
def C10answers (H : HashFn) (reqs : List C10Request) : List Verdict :=
  reqs.map fun r => verify H r.keys r.proof r.root r.keyLen

/-- **The verdict for a request does not depend on what was verified before or how often**: in any sequence
of requests, two positions holding the same request get the same verdict.  (Trivial for the model — `verify`
is a function; the content is in the tie: Go `Verify` must agree with it on objects that were verified
before.) -/
theorem C10_verify_deterministic_on_reuse (H : HashFn) (reqs : List C10Request) (i j : Nat)
    (h : reqs[i]? = reqs[j]?) : (C10answers H reqs)[i]? = (C10answers H reqs)[j]? := by
  simp only [C10answers, List.getElem?_map, h]

/-- … in particular `n` verifications of one request, with arbitrary other requests in between, all agree
with the first one -/
theorem C10_verify_repeat (H : HashFn) (r : C10Request) (others : List C10Request) (n : Nat) :
    ∀ v ∈ C10answers H ((List.replicate n (others ++ [r])).flatten),
      v ∈ C10answers H others ∨ v = verify H r.keys r.proof r.root r.keyLen := by
  intro v hv
  simp only [C10answers, List.mem_map, List.mem_flatten, List.mem_replicate] at hv
  obtain ⟨q, ⟨l, ⟨_, rfl⟩, hq⟩, rfl⟩ := hv
  rcases List.mem_append.mp hq with hq | hq
  · exact Or.inl (List.mem_map.mpr ⟨q, hq, rfl⟩)
  · simp only [List.mem_singleton] at hq
    subst hq
    exact Or.inr rfl

/-- an implementation of Verify with hidden state `σ`, run over a sequence of requests -/
def C10runImpl {σ : Type} (impl : σ → C10Request → σ × Verdict) : σ → List C10Request → List Verdict
  | _, [] => []
  | s, r :: rs => (impl s r).2 :: C10runImpl impl (impl s r).1 rs

/-- **Per-call agreement in every state gives agreement on every sequence.** -/
theorem C10_verify_refinement_reuse {σ : Type} (H : HashFn) (impl : σ → C10Request → σ × Verdict)
    (href : ∀ s r, (impl s r).2 = verify H r.keys r.proof r.root r.keyLen) (s : σ)
    (reqs : List C10Request) : C10runImpl impl s reqs = C10answers H reqs := by
  induction reqs generalizing s with
  | nil => rfl
  | cons r rs ih =>
    simp only [C10runImpl, C10answers, List.map_cons, href]
    exact congrArg _ (ih _)

/-- the seeded defect as an implementation with state: a verifier that remembers the proofs it has consumed
and rejects them afterwards.  It agrees with the model on every FIRST use, and is refuted by one reuse. -/
def C10consumingImpl (H : HashFn) (used : List (List Query)) (r : C10Request) : List (List Query) × Verdict :=
  if used.contains r.proof.queries then (used, .ok false)
  else (r.proof.queries :: used, verify H r.keys r.proof r.root r.keyLen)

/-! ### the generated structs -/

/-- field list of `smt.Proof`: siblingHashes ([][]byte), queries ([]*QueryProof) -/
def C10proofFields : List Field := [⟨1, .bytesArr, false⟩, ⟨2, .msgArr "smt.QueryProof", false⟩]

/-- field list of `smt.QueryProof`: key, value, bitmap ([]byte) -/
def C10queryFields (st : Bool) : List Field := [⟨1, .bytes, st⟩, ⟨2, .bytes, st⟩, ⟨3, .bytes, st⟩]

theorem C10_smtProof_schema :
    (allSchemas.find "smt.Proof").map (fun s => (s.enc, s.dec, s.decStrict)) =
      some (C10proofFields, C10proofFields, C10proofFields) := by
  decide +kernel

theorem C10_smtQueryProof_schema :
    (allSchemas.find "smt.QueryProof").map (fun s => (s.enc, s.dec, s.decStrict)) =
      some (C10queryFields false, C10queryFields false, C10queryFields true) := by
  decide +kernel

/-- no decode of smt.Proof can return a nil pointer (there is no nested pointer field) -/
theorem C10_smtProof_nilFree : C08NilFree allSchemas 1 C10proofFields = true := by
  decide +kernel

private theorem C10find {name : String} {e d st : List Field}
    (h : (allSchemas.find name).map (fun s => (s.enc, s.dec, s.decStrict)) = some (e, d, st)) :
    ∃ s, allSchemas.find name = some s ∧ s.enc = e ∧ s.dec = d ∧ s.decStrict = st := by
  cases hf : allSchemas.find name with
  | none => rw [hf] at h; simp at h
  | some s =>
    rw [hf] at h
    simp only [Option.map_some, Option.some.injEq, Prod.mk.injEq] at h
    exact ⟨s, rfl, h⟩

/-! ### value trees of proofs -/

/-- every byte string of the proof is shorter than 2^63 (Go slices always are) -/
def C10ProofSized (p : Proof) : Prop :=
  (∀ s ∈ p.siblings, s.length < 2 ^ 63) ∧
  ∀ q ∈ p.queries, q.key.length < 2 ^ 63 ∧ q.value.length < 2 ^ 63 ∧ q.bitmap.length < 2 ^ 63

private theorem valsQueries_map (qs : List Query) : valsQueries (qs.map queryVals) = some qs := by
  induction qs with
  | nil => rfl
  | cons q qs ih => simp only [List.map_cons, valsQueries, queryVals, valsQuery, ih]

/-- reading the value tree of a proof gives the proof back -/
theorem C10_valsProof_proofVals (p : Proof) : valsProof (proofVals p) = some p := by
  simp only [proofVals, valsProof, valsQueries_map]

private theorem valsQuery_inv {v : List Value} {q : Query} (h : valsQuery v = some q) : v = queryVals q := by
  unfold valsQuery at h
  split at h
  · injection h with h; subst h; rfl
  · exact absurd h (by simp)

private theorem valsQueries_inv : ∀ {l : List (List Value)} {qs : List Query},
    valsQueries l = some qs → l = qs.map queryVals := by
  intro l
  induction l with
  | nil => intro qs h; simp only [valsQueries, Option.some.injEq] at h; subst h; rfl
  | cons v vs ih =>
    intro qs h
    simp only [valsQueries] at h
    split at h
    · rename_i q qs' hq hqs
      injection h with h
      subst h
      simp only [List.map_cons, valsQuery_inv hq, ih hqs]
    · exact absurd h (by simp)

/-- … and only the value tree of `p` reads as `p` -/
theorem C10_valsProof_inv {vals : List Value} {p : Proof} (h : valsProof vals = some p) :
    vals = proofVals p := by
  unfold valsProof at h
  split at h
  · rename_i s l
    split at h
    · rename_i qs hqs
      injection h with h
      subst h
      simp only [proofVals, valsQueries_inv hqs]
    · exact absurd h (by simp)
  · exact absurd h (by simp)

/-- the value tree of a sized proof is well-typed for the generated struct -/
theorem C10_proofVals_typed (nfc : NFC) (p : Proof) (hp : C10ProofSized p) :
    C08TypedDeep allSchemas nfc 1 C10proofFields (proofVals p) = true := by
  obtain ⟨sq, hfq, heq, _, _⟩ := C10find C10_smtQueryProof_schema
  simp only [C08TypedDeep, C10proofFields, proofVals, typedWith, typedValDeep, typedVal, hfq, heq,
    Bool.and_true, Bool.and_eq_true, List.all_eq_true, decide_eq_true_eq, List.mem_map,
    forall_exists_index, and_imp, forall_apply_eq_imp_iff₂]
  refine ⟨hp.1, ?_⟩
  intro q hq
  obtain ⟨h1, h2, h3⟩ := hp.2 q hq
  simp only [queryVals, C10queryFields, typedWith, h1, h2, h3, decide_true, Bool.and_self]

/-! ### the verdict depends on the encoded bytes only -/

/-- **Encode / Decode returns the proof**: for every sized proof whose encoding is shorter than 2^63 bytes,
`new(Proof).Decode(proof.Encode())` is the proof itself. -/
theorem C10_wireClone_id (nfc : NFC) (p : Proof) (hp : C10ProofSized p)
    (hlen : ∀ b, encodeProof nfc p = some b → b.length < 2 ^ 63) : wireClone nfc p = some p := by
  obtain ⟨s, hfs, hes, _, _⟩ := C10find C10_smtProof_schema
  have henc : encodeProof nfc p = some (encode allSchemas nfc s (proofVals p)) := by
    simp only [encodeProof, proofSchema, hfs]
  have hrt := (C08_roundtrip_all_schemas nfc s (find_mem hfs) 1 (proofVals p)
    (by rw [hes]; exact C10_proofVals_typed nfc p hp) (hlen _ henc)).1
  simp only [wireClone, henc, decodeProof, proofSchema, hfs, hrt, C10_valsProof_proofVals]

/-- **The verdict of a proof is the verdict of its re-encoding** (`Verify` of `decode (encode proof)`, as
checked on the real code by `c10-verify-copy-differs:decode(encode(proof))-*` and by `reverify <n> wire`). -/
theorem C10_verify_copy_equiv (H : HashFn) (nfc : NFC) (keys : List Bytes) (p : Proof) (rt : Bytes)
    (keyLen : Nat) (hp : C10ProofSized p)
    (hlen : ∀ b, encodeProof nfc p = some b → b.length < 2 ^ 63) :
    wireClone nfc p = some p ∧
    ∀ p', wireClone nfc p = some p' → verify H keys p' rt keyLen = verify H keys p rt keyLen := by
  have h := C10_wireClone_id nfc p hp hlen
  refine ⟨h, ?_⟩
  intro p' hp'
  rw [h] at hp'
  injection hp' with hp'
  rw [hp']

/-- **Equal encodings, equal verdicts**: `Encode` is injective on proofs, so nothing but the encoded bytes
enters the verdict. -/
theorem C10_verify_depends_on_encoding_only (H : HashFn) (nfc : NFC) (keys : List Bytes)
    (p₁ p₂ : Proof) (rt : Bytes) (keyLen : Nat) (h₁ : C10ProofSized p₁) (h₂ : C10ProofSized p₂)
    (hlen : ∀ b, encodeProof nfc p₁ = some b → b.length < 2 ^ 63)
    (he : encodeProof nfc p₁ = encodeProof nfc p₂) :
    p₁ = p₂ ∧ verify H keys p₁ rt keyLen = verify H keys p₂ rt keyLen := by
  have c1 := C10_wireClone_id nfc p₁ h₁ hlen
  have c2 := C10_wireClone_id nfc p₂ h₂ (by rw [← he]; exact hlen)
  have : wireClone nfc p₁ = wireClone nfc p₂ := by simp only [wireClone, he]
  rw [c1, c2] at this
  injection this with this
  exact ⟨this, by rw [this]⟩

/-- **Relaying a received proof**: whatever bytes `b` a node accepted as a proof `p`, the bytes it sends on
(`p.Encode()`) decode to `p` again at the next node — same proof, same verdict. -/
theorem C10_verify_relay_stable (H : HashFn) (nfc : NFC) (hlaw : C08NFCLaw nfc) (b : Bytes)
    (hb : b.length < 2 ^ 63) (p : Proof) (hd : decodeProof nfc b = some p)
    (hlen : ∀ b', encodeProof nfc p = some b' → b'.length < 2 ^ 63) (keys : List Bytes) (rt : Bytes)
    (keyLen : Nat) :
    wireClone nfc p = some p ∧
    ∀ p', wireClone nfc p = some p' → verify H keys p' rt keyLen = verify H keys p rt keyLen := by
  obtain ⟨s, hfs, hes, hds, _⟩ := C10find C10_smtProof_schema
  have henc : encodeProof nfc p = some (encode allSchemas nfc s (proofVals p)) := by
    simp only [encodeProof, proofSchema, hfs]
  have hc : wireClone nfc p = some p := by
    simp only [decodeProof, proofSchema, hfs] at hd
    split at hd
    · rename_i vals hvals
      have hv := C10_valsProof_inv hd
      subst hv
      have hrt := (C08_decode_reencode_stable allSchemas C09rank nfc C08_allSchemas_deepWF hlaw s
        (find_mem hfs) 1 (by rw [hds]; exact C10_smtProof_nilFree) b hb (proofVals p) hvals
        (hlen _ henc)).1
      simp only [wireClone, henc, decodeProof, proofSchema, hfs, hrt, C10_valsProof_proofVals]
    · exact absurd hd (by simp)
  refine ⟨hc, ?_⟩
  intro p' hp'
  rw [hc] at hp'
  injection hp' with hp'
  rw [hp']

/-! ### non-vacuity -/

/-- a small proof: one sibling hash, an inclusion claim and an exclusion claim -/
def C10exampleWireProof : Proof :=
  ⟨[[0xaa, 0xbb]], [⟨[0x10], [7, 7], [0x03]⟩, ⟨[0x80], [], []⟩]⟩

/-- it is sized, its encoding is these 25 bytes (computed through the regenerated table), and the receiver
decodes exactly it -/
example :
    C10ProofSized C10exampleWireProof ∧
    encodeProof asciiNFC C10exampleWireProof =
      some [10, 2, 0xaa, 0xbb, 18, 10, 10, 1, 0x10, 18, 2, 7, 7, 26, 1, 3, 18, 7, 10, 1, 0x80, 18, 0, 26, 0] ∧
    wireClone asciiNFC C10exampleWireProof = some C10exampleWireProof := by
  have hs : C10ProofSized C10exampleWireProof := by
    refine ⟨?_, ?_⟩
    · intro s hs
      simp only [C10exampleWireProof, List.mem_singleton] at hs
      subst hs; decide
    · intro q hq
      simp only [C10exampleWireProof, List.mem_cons, List.not_mem_nil, or_false] at hq
      rcases hq with rfl | rfl <;> decide
  have he : encodeProof asciiNFC C10exampleWireProof =
      some [10, 2, 0xaa, 0xbb, 18, 10, 10, 1, 0x10, 18, 2, 7, 7, 26, 1, 3, 18, 7, 10, 1, 0x80, 18, 0, 26, 0] := by
    obtain ⟨s, hfs, hes, _, _⟩ := C10find C10_smtProof_schema
    obtain ⟨sq, hfq, heq, _, _⟩ := C10find C10_smtQueryProof_schema
    simp [encodeProof, proofSchema, hfs, encode, hes, hfq, heq, C10proofFields, C10queryFields, proofVals,
      queryVals, C10exampleWireProof, encodeFields, writeKey, writeBytes, putUvarint_lt]
  refine ⟨hs, he, ?_⟩
  exact C10_wireClone_id asciiNFC _ hs (by
    intro b hb
    rw [he] at hb
    injection hb with hb
    subst hb
    decide)

/-- reuse: the same request at positions 0 and 2 of a sequence gets the same verdict -/
example (H : HashFn) (r other : C10Request) :
    (C10answers H [r, other, r])[0]? = (C10answers H [r, other, r])[2]? :=
  C10_verify_deterministic_on_reuse H [r, other, r] 0 2 rfl

/-- the consuming verifier agrees with the model on the first use of a proof and is refuted by the second:
whenever the model accepts `r`, running `[r, r]` differs from the model's answers — so the hypothesis of
`C10_verify_refinement_reuse` (agreement in EVERY state) is not implied by agreement on fresh proofs -/
example (H : HashFn) (r : C10Request) (hok : verify H r.keys r.proof r.root r.keyLen = .ok true) :
    (C10consumingImpl H [] r).2 = verify H r.keys r.proof r.root r.keyLen ∧
    C10runImpl (C10consumingImpl H) [] [r, r] ≠ C10answers H [r, r] := by
  refine ⟨by simp [C10consumingImpl], ?_⟩
  intro h
  simp [C10runImpl, C10consumingImpl, C10answers, hok] at h
