/-
C06 — aggregate commits assembled from ANY signer subset, singletons included (closure of the miss C06-17).

Over `LiskVerif.Model.Cert` (`aggregate` = `SingleCommits.Aggregate`, `verifyWeighted` =
`BLSVerifyWeightedAggSig` on the keys in verification order), for EVERY validator list with distinct keys /
addresses and EVERY non-empty list of commits by validators (one commit, two, .., all):

* `C06_assembled_bits_mark_signers`: the bitmap of the assembled aggregate has its bit `j` set exactly when the
  `j`-th validator IN VERIFICATION ORDER (ascending BLS key) signed one of the commits - whatever the order in
  which the BFT parameters list the validators;
* `C06_single_commit_bits` / `C06_single_commit_aggregate_accepted`: the singleton corollary - the aggregate of
  ONE commit carries that commit's signature, marks exactly the signer's position in verification order and,
  when the signer's weight alone reaches the threshold, passes the weighted verification;
* `C06_single_fast_path_counterexample`: a fast path for one commit that takes the bit position from the key
  pairs AS GIVEN (parameters list the validators by descending address) marks another validator and is rejected
  by the verification, while `aggregate` on the same input is accepted (weights 1, 7, 1, threshold 7).
-/
import LiskVerif.Lemmas.Cert
import LiskVerif.Lemmas.CertPool

open LiskVerif LiskVerif.Cert

private theorem signerKeys_mem (kps : List Validator) : ∀ (commits : List Commit) (sk : List Nat),
    signerKeys kps commits = some sk →
    ∀ k, k ∈ sk ↔ ∃ c ∈ commits, ∃ v, findValidator kps c.signer = some v ∧ v.key = k := by
  intro commits
  induction commits with
  | nil =>
    intro sk h k
    simp [signerKeys] at h
    subst h
    simp
  | cons c r ih =>
    intro sk h k
    unfold signerKeys at h
    cases hv : findValidator kps c.signer with
    | none => simp [hv] at h
    | some v =>
      cases hr : signerKeys kps r with
      | none => simp [hv, hr] at h
      | some ks =>
        simp only [hv, hr, Option.some.injEq] at h
        subst h
        have := ih ks hr k
        constructor
        · intro hm
          rcases List.mem_cons.mp hm with hm | hm
          · exact ⟨c, List.mem_cons_self, v, hv, hm.symm⟩
          · obtain ⟨c', hc', v', h1, h2⟩ := this.mp hm
            exact ⟨c', List.mem_cons_of_mem _ hc', v', h1, h2⟩
        · rintro ⟨c', hc', v', h1, h2⟩
          rcases List.mem_cons.mp hc' with hc' | hc'
          · subst hc'
            rw [hv] at h1
            cases h1
            exact List.mem_cons.mpr (Or.inl h2.symm)
          · exact List.mem_cons_of_mem _ (this.mpr ⟨c', hc', v', h1, h2⟩)

/-- **The assembled bitmap marks exactly the signers, in verification order**, for every validator list (in
whatever order the parameters store it) and every non-empty commit list, singletons included. -/
theorem C06_assembled_bits_mark_signers (p : Params) (hwf : ParamsWf p) (commits : List Commit) (ac : AggCommit)
    (h : aggregate commits p.validators = .ok ac) (j : Nat) (hj : j < (sortVals p.validators).length) :
    ac.bits.getD j false =
      decide (∃ c ∈ commits, findValidator p.validators c.signer = some (sortVals p.validators)[j]) := by
  obtain ⟨hkeys, haddrs⟩ := sortVals_wf hwf
  have hfind : ∀ a, findValidator (sortVals p.validators) a = findValidator p.validators a :=
    findValidator_perm (sortVals_perm _) haddrs
  unfold aggregate aggregateOrd at h
  cases commits with
  | nil => simp at h
  | cons c0 rest =>
    simp only at h
    have hs : isort keyLe p.validators = sortVals p.validators := rfl
    rw [hs] at h
    cases hsk : signerKeys (sortVals p.validators) (c0 :: rest) with
    | none => rw [hsk] at h; simp at h
    | some sk =>
      rw [hsk] at h
      simp only [GacResult.ok.injEq] at h
      subst h
      simp only
      have hj' : j < ((sortVals p.validators).map (·.key)).length := by simpa using hj
      rw [createBits_getD hkeys sk hj']
      have hmem := signerKeys_mem _ _ _ hsk (((sortVals p.validators).map (·.key))[j])
      rw [Bool.eq_iff_iff]
      simp only [decide_eq_true_eq]
      rw [hmem]
      have hget : ((sortVals p.validators).map (·.key))[j] = ((sortVals p.validators)[j]).key := by simp
      constructor
      · rintro ⟨c, hc, v, h1, h2⟩
        refine ⟨c, hc, ?_⟩
        rw [hfind] at h1
        rw [h1]
        -- v and the j-th validator have the same key; keys are distinct
        have hvm : v ∈ sortVals p.validators := by
          have := (findValidator_some h1).1
          exact (sortVals_perm _).mem_iff.mpr this
        obtain ⟨i, hi, hvi⟩ := List.getElem_of_mem hvm
        have hi' : i < ((sortVals p.validators).map (·.key)).length := by simpa using hi
        have hki : ((sortVals p.validators).map (·.key))[i]'hi' = v.key := by simp [hvi]
        have e1 := keyIndex_getElem hkeys hi'
        have e2 := keyIndex_getElem hkeys hj'
        have hkk : ((sortVals p.validators).map (·.key))[i]'hi' = ((sortVals p.validators).map (·.key))[j]'hj' := by
          rw [hki, h2]
        rw [hkk, e2] at e1
        have : i = j := (Option.some.inj e1).symm
        subst this
        rw [hvi]
      · rintro ⟨c, hc, h1⟩
        exact ⟨c, hc, _, (hfind _).trans h1, hget.symm⟩

/-- **Singleton corollary**: the aggregate assembled from ONE commit is that commit's signature with exactly
the bit of the signer's position in verification order. -/
theorem C06_single_commit_bits (p : Params) (hwf : ParamsWf p) (c : Commit) (v : Validator)
    (hv : findValidator p.validators c.signer = some v) :
    ∃ bits, aggregate [c] p.validators = .ok ⟨c.height, bits, some c.sig⟩ ∧
      ∀ j (hj : j < (sortVals p.validators).length),
        bits.getD j false = decide ((sortVals p.validators)[j] = v) := by
  obtain ⟨_, haddrs⟩ := sortVals_wf hwf
  have hfind : ∀ a, findValidator (sortVals p.validators) a = findValidator p.validators a :=
    findValidator_perm (sortVals_perm _) haddrs
  have hagg : ∃ bits, aggregate [c] p.validators = .ok ⟨c.height, bits, some c.sig⟩ := by
    unfold aggregate aggregateOrd
    simp only
    have hs : isort keyLe p.validators = sortVals p.validators := rfl
    rw [hs]
    simp only [signerKeys, hfind, hv]
    exact ⟨_, rfl⟩
  obtain ⟨bits, hb⟩ := hagg
  refine ⟨bits, hb, ?_⟩
  intro j hj
  have := C06_assembled_bits_mark_signers p hwf [c] _ hb j hj
  simp only at this
  rw [this]
  rw [Bool.eq_iff_iff]
  simp only [decide_eq_true_eq, List.mem_singleton, exists_eq_left]
  rw [hv]
  constructor
  · intro h; cases h; rfl
  · intro h; rw [h]

/-- **Singleton corollary, acceptance**: one correctly signed commit of a validator whose weight alone reaches
the certificate threshold assembles into an aggregate that the weighted verification accepts. -/
theorem C06_single_commit_aggregate_accepted (p : Params) (hwf : ParamsWf p) (m : Msg) (c : Commit) (v : Validator)
    (hv : findValidator p.validators c.signer = some v) (hs : c.sig = sign v.key m) (hw : p.threshold ≤ v.weight) :
    ∃ bits sig, aggregate [c] p.validators = .ok ⟨c.height, bits, some sig⟩ ∧ bits ≠ [] ∧
      verifyWeighted ((sortVals p.validators).map (·.key)) bits sig ((sortVals p.validators).map (·.weight))
        p.threshold m = true := by
  refine aggregate_verifies p hwf m c.height [c] (by simp) (by simp) ?_ (by simp) (v.weight + 0) ?_ (by omega)
  · intro c' hc'
    rw [List.mem_singleton.mp hc']
    exact ⟨v, hv, hs⟩
  · simp [commitsWeight, hv]

/-! ### the fast path for one commit that trusts the order of the key pairs as given -/

/-- `SingleCommits.Aggregate` with the seeded fast path: for ONE commit the bit position is the index of the
signer in the key pairs as handed over (the order of the BFT parameters), the signature is copied -/
def aggregateFastGiven (commits : List Commit) (vals : List Validator) : GacResult :=
  match commits with
  | [c] =>
    match keyIndex (vals.map (·.addr)) c.signer with
    | none => .err
    | some i => .ok ⟨c.height, writeBit (List.replicate (8 * byteLen vals.length) false) i, some c.sig⟩
  | _ => aggregate commits vals

/-- parameters listing three validators by DESCENDING address; the heavy validator (address 1, key 30,
weight 7 = threshold) is second by address and third by key -/
def C06sgParams : Params := ⟨[⟨2, 10, 1⟩, ⟨1, 30, 7⟩, ⟨0, 20, 1⟩], 7⟩

def C06sgCommit : Commit := ⟨105, 5, 1, sign 30 ⟨1, 105⟩, true⟩

theorem C06sg_wf : ParamsWf C06sgParams := by
  unfold ParamsWf C06sgParams
  decide

/-- The defect `c06-own-aggregate-rejected` of the single-commit fast path: the pool holds one commit of the
self-sufficient validator; the fast path marks position 1 (validator with key 20 in verification order, weight
1) and the node's own weighted verification rejects; `aggregate` marks position 2 and is accepted. With two or
more commits both agree. -/
theorem C06_single_fast_path_counterexample :
    (∃ bits sig, aggregateFastGiven [C06sgCommit] C06sgParams.validators = .ok ⟨5, bits, some sig⟩ ∧
      Bits.toBytes bits = [0x02] ∧
      verifyWeighted ((sortVals C06sgParams.validators).map (·.key)) bits sig
        ((sortVals C06sgParams.validators).map (·.weight)) C06sgParams.threshold ⟨1, 105⟩ = false) ∧
    (∃ bits sig, aggregate [C06sgCommit] C06sgParams.validators = .ok ⟨5, bits, some sig⟩ ∧
      Bits.toBytes bits = [0x04] ∧
      verifyWeighted ((sortVals C06sgParams.validators).map (·.key)) bits sig
        ((sortVals C06sgParams.validators).map (·.weight)) C06sgParams.threshold ⟨1, 105⟩ = true) ∧
    (∀ c2 : Commit, aggregateFastGiven [C06sgCommit, c2] C06sgParams.validators =
      aggregate [C06sgCommit, c2] C06sgParams.validators) := by
  refine ⟨⟨_, _, rfl, by decide, by decide⟩, ⟨_, _, rfl, by decide, by decide⟩, fun _ => rfl⟩

/-- non-vacuity: the general theorems apply to the example (one commit, heavy validator) -/
example : ∃ bits sig, aggregate [C06sgCommit] C06sgParams.validators = .ok ⟨5, bits, some sig⟩ ∧ bits ≠ [] ∧
    verifyWeighted ((sortVals C06sgParams.validators).map (·.key)) bits sig
      ((sortVals C06sgParams.validators).map (·.weight)) C06sgParams.threshold ⟨1, 105⟩ = true :=
  C06_single_commit_aggregate_accepted C06sgParams C06sg_wf ⟨1, 105⟩ C06sgCommit ⟨1, 30, 7⟩ (by decide) rfl (by decide)

example : ∃ bits, aggregate [C06sgCommit] C06sgParams.validators = .ok ⟨5, bits, some C06sgCommit.sig⟩ ∧
    ∀ j (hj : j < (sortVals C06sgParams.validators).length),
      bits.getD j false = decide ((sortVals C06sgParams.validators)[j] = ⟨1, 30, 7⟩) :=
  C06_single_commit_bits C06sgParams C06sg_wf C06sgCommit ⟨1, 30, 7⟩ (by decide)
