/-
C10 — batches with repeated keys: the exported batch normaliser `smt.UniqueAndSort` (Model/SMTBatch.lean; the
harness op `uniq` ties the real function to `uniqueAndSort` line by line).

For EVERY batch: the normalised batch lists every written key exactly once, in strictly ascending key order, each
with the value of its LAST write; feeding it to `trie.Update` leaves exactly the map that the writes of the batch,
applied one after the other, produce ("root independent of overwrites": the root of that map by C10_root_function_of_map).
The variant that records a new key's position by its index in the INPUT (instead of its position in the
de-duplicated list) is refuted by evaluation.
-/
import LiskVerif.Model.SMTBatch
import LiskVerif.Lemmas.SMT
import LiskVerif.Lemmas.Sort
import LiskVerif.Lemmas.Order

open LiskVerif LiskVerif.SMT

namespace LiskVerif.SMT

private theorem keys_map_replace (acc : List KV) (kv : KV) :
    (acc.map (fun x => if x.1 == kv.1 then kv else x)).map Prod.fst = acc.map Prod.fst := by
  induction acc with
  | nil => rfl
  | cons x r ih =>
    simp only [List.map_cons, ih, List.cons.injEq, and_true]
    by_cases h : x.1 == kv.1
    · simp only [h, if_true]; exact (eq_of_beq h).symm
    · simp [h]

private theorem any_key_iff (acc : List KV) (k : Bytes) :
    acc.any (fun x => x.1 == k) = true ↔ k ∈ acc.map Prod.fst := by
  induction acc with
  | nil => simp
  | cons x r ih =>
    simp only [List.any_cons, Bool.or_eq_true, ih, List.map_cons, List.mem_cons, beq_iff_eq]
    constructor
    · rintro (h | h)
      · exact Or.inl h.symm
      · exact Or.inr h
    · rintro (h | h)
      · exact Or.inl h.symm
      · exact Or.inr h

theorem nodupKeys_foldWrite {acc : List KV} (h : NoDupKeys acc) (kv : KV) : NoDupKeys (foldWrite acc kv) := by
  unfold foldWrite
  split
  · unfold NoDupKeys; rw [keys_map_replace]; exact h
  · next hany =>
    have hnot : kv.1 ∉ acc.map Prod.fst := fun hm => hany ((any_key_iff acc kv.1).mpr hm)
    unfold NoDupKeys
    rw [List.map_append, List.nodup_append]
    refine ⟨h, by simp, ?_⟩
    intro a ha b hb
    simp only [List.map_cons, List.map_nil, List.mem_singleton] at hb
    subst hb
    exact fun he => hnot (he ▸ ha)

private theorem mget_map_replace_ne (acc : List KV) (kv : KV) (k : Bytes) (hk : ¬ kv.1 = k) :
    mget (acc.map (fun x => if x.1 == kv.1 then kv else x)) k = mget acc k := by
  induction acc with
  | nil => rfl
  | cons x r ih =>
    by_cases hx : (x.1 == kv.1) = true
    · have hx' : x.1 = kv.1 := eq_of_beq hx
      have hxk : ¬ x.1 = k := fun h => hk (hx' ▸ h)
      simp only [List.map_cons, hx, if_true, mget]
      rw [if_neg hk, if_neg hxk, ih]
    · simp only [List.map_cons, hx, mget]
      rw [ih]; rfl

private theorem mget_map_replace_eq (acc : List KV) (kv : KV) (hm : kv.1 ∈ acc.map Prod.fst) :
    mget (acc.map (fun x => if x.1 == kv.1 then kv else x)) kv.1 = some kv.2 := by
  induction acc with
  | nil => simp at hm
  | cons x r ih =>
    by_cases hx : (x.1 == kv.1) = true
    · simp only [List.map_cons, hx, if_true, mget]
    · have hx' : ¬ x.1 = kv.1 := fun h => hx (h ▸ beq_self_eq_true _)
      simp only [List.map_cons, List.mem_cons] at hm
      have hr : kv.1 ∈ r.map Prod.fst := by
        rcases hm with h | h
        · exact absurd h.symm hx'
        · exact h
      simp only [List.map_cons, hx, mget, Bool.false_eq_true, if_false]
      rw [if_neg hx']
      exact ih hr

private theorem mget_append_single (acc : List KV) (kv : KV) (k : Bytes) :
    mget (acc ++ [kv]) k = match mget acc k with
      | some v => some v
      | none => if kv.1 = k then some kv.2 else none := by
  induction acc with
  | nil => simp [mget]
  | cons x r ih =>
    simp only [List.cons_append, mget]
    split
    · rfl
    · exact ih

/-- one write: the written key now answers with the written value, every other key as before -/
theorem mget_foldWrite (acc : List KV) (kv : KV) (k : Bytes) :
    mget (foldWrite acc kv) k = if kv.1 = k then some kv.2 else mget acc k := by
  unfold foldWrite
  split
  · next hany =>
    have hm := (any_key_iff acc kv.1).mp hany
    by_cases hk : kv.1 = k
    · subst hk; rw [mget_map_replace_eq acc kv hm]; simp
    · rw [mget_map_replace_ne acc kv k hk]; simp [hk]
  · next hany =>
    have hnot : kv.1 ∉ acc.map Prod.fst := fun hm => hany ((any_key_iff acc kv.1).mpr hm)
    rw [mget_append_single]
    by_cases hk : kv.1 = k
    · have : mget acc k = none := mget_eq_none_iff.mpr (hk ▸ hnot)
      simp [hk, this]
    · simp only [hk, if_false]
      cases mget acc k <;> rfl

theorem mget_foldl_foldWrite (b acc : List KV) (k : Bytes) :
    mget (b.foldl foldWrite acc) k = match lastWrite k b with
      | some v => some v
      | none => mget acc k := by
  induction b generalizing acc with
  | nil => rfl
  | cons kv r ih =>
    simp only [List.foldl_cons, lastWrite]
    rw [ih, mget_foldWrite]
    cases lastWrite k r with
    | some v => rfl
    | none =>
      by_cases hk : kv.1 = k <;> simp [hk]

theorem nodupKeys_uniqueKVs (b : List KV) : NoDupKeys (uniqueKVs b) := by
  unfold uniqueKVs
  suffices h : ∀ acc, NoDupKeys acc → NoDupKeys (b.foldl foldWrite acc) from h [] (by simp [NoDupKeys])
  induction b with
  | nil => intro acc h; exact h
  | cons kv r ih => intro acc h; exact ih _ (nodupKeys_foldWrite h kv)

theorem uniqueAndSort_perm (b : List KV) : (uniqueAndSort b).Perm (uniqueKVs b) := isort_perm _ _

theorem nodupKeys_uniqueAndSort (b : List KV) : NoDupKeys (uniqueAndSort b) := by
  unfold NoDupKeys
  exact ((uniqueAndSort_perm b).map Prod.fst).nodup_iff.mpr (nodupKeys_uniqueKVs b)

theorem mget_perm {m₁ m₂ : List KV} (hp : m₁.Perm m₂) (h₁ : NoDupKeys m₁) (k : Bytes) : mget m₁ k = mget m₂ k := by
  have h₂ : NoDupKeys m₂ := (hp.map Prod.fst).nodup_iff.mp h₁
  cases h : mget m₁ k with
  | some v => exact (mget_eq_some_of_mem h₂ (hp.mem_iff.mp (mem_of_mget_eq_some h))).symm
  | none =>
    have := mget_eq_none_iff.mp h
    exact (mget_eq_none_iff.mpr (fun hm => this ((hp.map Prod.fst).mem_iff.mpr hm))).symm

theorem find?_key_eq_mget (l : List KV) (k : Bytes) :
    (l.find? (fun kv => decide (kv.1 = k))).map Prod.snd = mget l k := by
  induction l with
  | nil => rfl
  | cons x r ih =>
    simp only [List.find?_cons, mget]
    by_cases hk : x.1 = k
    · simp [hk]
    · simp [hk, ih]

end LiskVerif.SMT

/-- **Every key once, ascending**: the normalised batch is strictly sorted by key. -/
theorem C10_uniqueAndSort_strictly_sorted (b : List KV) :
    (uniqueAndSort b).Pairwise (fun x y => ble x.1 y.1 = true ∧ x.1 ≠ y.1) := by
  have hs : (uniqueAndSort b).Pairwise (fun x y => kvKeyLe x y = true) :=
    isort_pairwise kvKeyLe (fun a b c => ble_trans a.1 b.1 c.1) (fun a b => ble_total a.1 b.1) _
  have hn : (uniqueAndSort b).Pairwise (fun x y => x.1 ≠ y.1) := by
    have := nodupKeys_uniqueAndSort b
    unfold NoDupKeys List.Nodup at this
    exact List.pairwise_map.mp this
  exact hs.and hn

/-- **Last write wins**: the normalised batch answers every key with the value of its last write in the batch
(and holds no other key). -/
theorem C10_uniqueAndSort_last_write (b : List KV) (k : Bytes) :
    mget (uniqueAndSort b) k = lastWrite k b := by
  rw [mget_perm (uniqueAndSort_perm b) (nodupKeys_uniqueAndSort b)]
  unfold uniqueKVs
  rw [mget_foldl_foldWrite]
  cases lastWrite k b <;> simp [mget]

/-- the map after ALL writes of a batch were applied one after the other (empty value = delete) -/
def C10writeAll (m : List KV) (b : List KV) : List KV := b.foldl (fun m kv => applyOp m (opOfKV kv)) m

theorem C10_writeAll_lookup (m b : List KV) (k : Bytes) :
    mget (C10writeAll m b) k = match lastWrite k b with
      | none => mget m k
      | some v => if v = [] then none else some v := by
  unfold C10writeAll
  induction b generalizing m with
  | nil => rfl
  | cons kv r ih =>
    simp only [List.foldl_cons, lastWrite]
    rw [ih]
    cases lastWrite k r with
    | some v => rfl
    | none =>
      simp only [mget_applyOp_opOfKV, opEffect]
      by_cases hk : kv.1 = k
      · simp [hk]
      · have : ¬ k = kv.1 := fun h => hk h.symm
        simp [hk, this]

/-- **Overwrites inside a batch**: `Update` of the normalised batch leaves, for every key, what the writes of the
batch applied one after the other leave — so (C10_root_function_of_map / perm_of_mget_eq) the same map and root. -/
theorem C10_update_normalised_is_all_writes (m b : List KV) (k : Bytes) :
    mget (applyBatch m (uniqueAndSort b)) k = mget (C10writeAll m b) k := by
  rw [mget_applyBatch, C10_writeAll_lookup, ← C10_uniqueAndSort_last_write]
  have := find?_key_eq_mget (uniqueAndSort b) k
  cases hf : (uniqueAndSort b).find? (fun kv => decide (kv.1 = k)) with
  | none => rw [hf] at this; simp only [Option.map_none] at this; rw [← this]
  | some kv => rw [hf] at this; simp only [Option.map_some] at this; rw [← this]; rfl

theorem C10_update_normalised_same_root (H : HashFn) (keyLen : Nat) (m b : List KV) (hm : NoDupKeys m) :
    mapRoot H keyLen (applyBatch m (uniqueAndSort b)) = mapRoot H keyLen (C10writeAll m b) := by
  apply mapRoot_perm
  apply perm_of_mget_eq (nodupKeys_applyBatch hm _)
  · unfold C10writeAll
    have : ∀ (l : List KV) (m : List KV), NoDupKeys m → NoDupKeys (l.foldl (fun m kv => applyOp m (opOfKV kv)) m) := by
      intro l
      induction l with
      | nil => intro m h; exact h
      | cons kv r ih => intro m h; exact ih _ (nodupKeys_applyOp h _)
    exact this b m hm
  · exact C10_update_normalised_is_all_writes m b

/-! ### non-vacuity and the refuted variant -/

private def kA : Bytes := [1]
private def kB : Bytes := [2]
private def kC : Bytes := [3]

example : uniqueAndSort [(kB, [3]), (kA, [1]), (kA, [2]), (kC, [4]), (kB, [5])] = [(kA, [2]), (kB, [5]), (kC, [4])] := by decide
example : uniqueAndSort [(kA, [1]), (kA, [2]), (kB, [3]), (kB, [])] = [(kA, [2]), (kB, [])] := by decide

/-- the variant that remembers, for a new key, its index in the INPUT list; an overwrite goes to that slot of the
de-duplicated list (`none`: the slot does not exist — the Go code panics) -/
def C10foldWriteByInputIndex (st : List KV × List (Bytes × Nat) × Nat) (kv : KV) : Option (List KV × List (Bytes × Nat) × Nat) :=
  let (acc, pos, i) := st
  match pos.find? (fun p => p.1 == kv.1) with
  | some p => if p.2 < acc.length then some (acc.set p.2 (acc[p.2]!.1, kv.2), pos, i + 1) else none
  | none => some (acc ++ [kv], pos ++ [(kv.1, i)], i + 1)

def C10uniqueByInputIndex (b : List KV) : Option (List KV) :=
  (b.foldl (fun st kv => st.bind (C10foldWriteByInputIndex · kv)) (some ([], [], 0))).map
    (fun st => isort kvKeyLe st.1)

/-- the index-by-input-position variant is NOT last-write-wins: [a=1,a=2,b=3,c=4,b=5] gives b=3 (stale) and c=5
(a foreign value), and [a,a,b,b] has no result (index out of range). -/
theorem C10_uniqueByInputIndex_refuted :
    C10uniqueByInputIndex [(kA, [1]), (kA, [2]), (kB, [3]), (kC, [4]), (kB, [5])] = some [(kA, [2]), (kB, [3]), (kC, [5])] ∧
    uniqueAndSort [(kA, [1]), (kA, [2]), (kB, [3]), (kC, [4]), (kB, [5])] = [(kA, [2]), (kB, [5]), (kC, [4])] ∧
    C10uniqueByInputIndex [(kA, [1]), (kA, [2]), (kB, [3]), (kB, [4])] = none := by decide
