/-
C16 (gap closing) — transaction execution is atomic for every command script, blocks are folds of
transactions, and the state root is a function of the final key → value map only.

`Props/C16.lean` proves atomicity of the command phase and the root/revert/recovery theorems for one
commit of an arbitrary overlay.  What was left to the correspondence (the "specification interpreter
on maps" of the harness) is lifted to theorems here:

* `C16_section_refines_spec`, `C16_transaction_refines_spec`: module code and whole transactions —
  any hooks, any command, arbitrarily nested `Snapshot` / `RestoreSnapshot` — compute exactly what a
  small interpreter on plain maps `key → Option value` computes, in which a snapshot is a copy of
  the map and a failed command is *no command*;
* `C16_failed_transaction_exact`: atomicity of a whole transaction with hooks (state = the hooks'
  writes only, events = hooks' events + the command's unrevertible events renumbered + the standard
  failure event);
* `C16_block_refines_fold`, `C16_failed_block_no_trace`: processing a block is the fold of the
  transaction specification, and a block that fails anywhere leaves the application untouched;
* `C16_chain_root_depends_on_final_map_only`, `C16_two_nodes_deterministic`: the committed root
  is a function of the final map (whatever order of writes, overwritten writes, failed transactions
  or batching into blocks produced it) and two nodes agree on everything;
* `C16_spec_batching`, `C16_spec_failed_tx_dropped(_block)`, `C16_spec_last_write_wins`,
  `C16_spec_write_order_block` + `C16_same_fold_same_root`: re-batching, dropping failed
  transactions, re-ordering / overwriting writes do not change the committed root;
* `C16_processed_blocks_recoverable`, `C16_process_then_revert_restores`: restart recovery
  (C16_init_recovers_to_engine_tip) and block deletion apply to every sequence of really processed
  blocks;
* limits: `C16_crash_after_revert_not_recovered` (a crash between the application's `Revert` and the
  engine's `RemoveBlock` is not recovered by `Init`), `C16_invalid_transaction_not_atomic` and
  `C16_generation_after_invalid_tx_breaks_root` (an `Invalid` transaction leaves partial writes; the
  generator's selection loop goes on over them).

The engine side (`consensus.stateExecuter.Execute`, `Executer.processValidated`) is written here as
the composition `C16processBlock` of the model's ABI calls, in the order the engine issues them.
-/
import LiskVerif.Lemmas.ExecMore
import LiskVerif.Lemmas.DiffDBScan
import LiskVerif.Props.C16

open LiskVerif LiskVerif.DiffDB LiskVerif.Exec

/-! ### the specification interpreter on maps -/

/-- a state: the value of every key -/
abbrev C16Map := Bytes → Option Bytes

/-- a state and the stack of the copies saved by `ctx.Snapshot()` -/
abbrev C16MS := C16Map × List C16Map

/-- one step of module code on a map; `false` when the code returns an error at this step -/
def C16mapItem (x : C16MS) : Item → C16MS × Bool
  | .set k v => ((fun k' => if k = k' then some v else x.1 k', x.2), true)
  | .del k => ((fun k' => if k = k' then none else x.1 k', x.2), true)
  | .get k => (x, evOk (if (x.1 k).isSome then "read" else "miss") ((x.1 k).getD []) 0)
  | .chk k v => (x, x.1 k == some v)
  | .ev unrev n d => (x, evOk (if unrev then "unr" else "rev") d n)
  | .badEv => (x, evOk "bad_name" [] 0)
  | .push => ((x.1, x.1 :: x.2), true)
  | .pop =>
    match x.2 with
    | [] => (x, true)
    | m :: r => ((m, r), true)
  | .fail => (x, false)

def C16mapRun (x : C16MS) : List Item → C16MS × Bool
  | [] => (x, true)
  | it :: r =>
    let y := C16mapItem x it
    if y.2 then C16mapRun y.1 r else (y.1, false)

/-- the event logger after one step of module code that runs on the map `m` -/
def C16logItem (m : C16Map) (lg : EventLogger) : Item → EventLogger
  | .get k => (add lg modName (if (m k).isSome then "read" else "miss") ((m k).getD []) 0).getD lg
  | .ev unrev n d =>
    (if unrev then addUnrevertible lg modName "unr" d n else add lg modName "rev" d n).getD lg
  | .badEv => (add lg modName "bad_name" [] 0).getD lg
  | _ => lg

def C16logRun (x : C16MS) (lg : EventLogger) : List Item → EventLogger
  | [] => lg
  | it :: r =>
    let y := C16mapItem x it
    if y.2 then C16logRun y.1 (C16logItem x.1 lg it) r else C16logItem x.1 lg it

/-! ### module code refines the interpreter -/

/-- the snapshots taken by the running code hold the saved maps: ids decrease down the stack, each
is registered in the staged store and its overlay copy shows the saved map -/
def C16StackRel (st : St) : List Nat → List C16Map → Prop
  | [], [] => True
  | id :: ids, m :: ms =>
    id < st.snapCount ∧ (∀ j ∈ ids, j < id) ∧
      (∃ c, findSnap st.snaps id = some c ∧ ∀ k, effC st.store c k = m k) ∧ C16StackRel st ids ms
  | _, _ => False

/-- the running code (staged store, logger, own snapshot ids) and a state of the interpreter -/
structure C16Rel (s : SecSt) (x : C16MS) : Prop where
  inv : C12Inv s.st
  map : ∀ k, eff s.st k = x.1 k
  topic : s.lg.hasTopic = true
  stack : C16StackRel s.st s.stack x.2

private theorem stackRel_lt {st : St} : ∀ {ids : List Nat} {ms : List C16Map},
    C16StackRel st ids ms → ∀ j ∈ ids, j < st.snapCount := by
  intro ids
  induction ids with
  | nil => intro ms _ j hj; cases hj
  | cons id r ih =>
    intro ms h j hj
    cases ms with
    | nil => exact absurd h (by simp [C16StackRel])
    | cons m ms =>
      simp only [C16StackRel] at h
      rcases List.mem_cons.mp hj with hj | hj
      · subst hj; exact h.1
      · exact ih h.2.2.2 j hj

private theorem stackRel_of {st st' : St} (hs : st'.store = st.store)
    (hc : st.snapCount ≤ st'.snapCount) : ∀ {ids : List Nat} {ms : List C16Map},
    (∀ id ∈ ids, findSnap st'.snaps id = findSnap st.snaps id) →
      C16StackRel st ids ms → C16StackRel st' ids ms := by
  intro ids
  induction ids with
  | nil =>
    intro ms _ h
    cases ms with
    | nil => trivial
    | cons m ms => exact absurd h (by simp [C16StackRel])
  | cons id r ih =>
    intro ms hf h
    cases ms with
    | nil => exact absurd h (by simp [C16StackRel])
    | cons m ms =>
      simp only [C16StackRel] at h ⊢
      obtain ⟨h1, h2, ⟨c, h3, h4⟩, h5⟩ := h
      refine ⟨by omega, h2, ⟨c, ?_, ?_⟩, ih (fun j hj => hf j (List.mem_cons_of_mem _ hj)) h5⟩
      · rw [hf id List.mem_cons_self]; exact h3
      · rw [hs]; exact h4

private theorem step_inv (st : St) (h : C12Inv st) (op : Op) : C12Inv (step st op) :=
  C12_cache_invariant st h [op]

private theorem add_getD_topic (l : EventLogger) (hT : l.hasTopic = true) (o : Option EventLogger)
    (ho : ∀ l', o = some l' → Grows l l') : (o.getD l).hasTopic = true := by
  cases o with
  | none => exact hT
  | some l' => rw [Option.getD_some, ← (ho l' rfl).cfg.2.2]; exact hT

private theorem item_refines (s : SecSt) (x : C16MS) (h : C16Rel s x) (it : Item) :
    (runItem s it).2 = (C16mapItem x it).2 ∧ C16Rel (runItem s it).1 (C16mapItem x it).1 ∧
      (runItem s it).1.lg = C16logItem x.1 s.lg it := by
  cases it with
  | set k v =>
    have r := C12_set_refines s.st h.inv k v
    have f := set_frame s.st k v
    refine ⟨rfl, ⟨r.2, ?_, h.topic, ?_⟩, rfl⟩
    · intro k'; simp only [runItem, C16mapItem, r.1 k', h.map k']
    · exact stackRel_of f.1 (Nat.le_of_eq f.2.2.symm) (fun _ _ => by rw [f.2.1]) h.stack
  | del k =>
    have r := C12_del_refines s.st h.inv k
    have f := del_frame s.st k
    refine ⟨rfl, ⟨r.2, ?_, h.topic, ?_⟩, rfl⟩
    · intro k'; simp only [runItem, C16mapItem, r.1 k', h.map k']
    · exact stackRel_of f.1 (Nat.le_of_eq f.2.2.symm) (fun _ _ => by rw [f.2.1]) h.stack
  | get k =>
    have r := C12_get_refines s.st h.inv k
    have f := get_frame s.st k
    have hv : (DiffDB.get s.st k).2 = x.1 k := by rw [r.1, h.map k]
    have hst : C16StackRel (DiffDB.get s.st k).1 s.stack x.2 :=
      stackRel_of f.1 (Nat.le_of_eq f.2.2.symm) (fun _ _ => by rw [f.2.1]) h.stack
    have hm : ∀ k', eff (DiffDB.get s.st k).1 k' = x.1 k' := fun k' => (r.2.1 k').trans (h.map k')
    have hs := add_isSome s.lg h.topic (if (x.1 k).isSome then "read" else "miss") ((x.1 k).getD []) 0
    simp only [runItem, C16mapItem, C16logItem, hv]
    cases ha : add s.lg modName (if (x.1 k).isSome then "read" else "miss") ((x.1 k).getD []) 0 with
    | none =>
      rw [ha] at hs
      exact ⟨by simpa using hs, ⟨r.2.2, hm, h.topic, hst⟩, rfl⟩
    | some lg' =>
      rw [ha] at hs
      refine ⟨by simpa using hs, ⟨r.2.2, hm, ?_, hst⟩, rfl⟩
      dsimp only
      rw [← (grows_add ha).cfg.2.2]; exact h.topic
  | chk k v =>
    have r := C12_get_refines s.st h.inv k
    have f := get_frame s.st k
    refine ⟨?_, ⟨r.2.2, fun k' => (r.2.1 k').trans (h.map k'), h.topic, ?_⟩, rfl⟩
    · simp only [runItem, C16mapItem, r.1, h.map k]
    · exact stackRel_of f.1 (Nat.le_of_eq f.2.2.symm) (fun _ _ => by rw [f.2.1]) h.stack
  | ev u n d =>
    simp only [runItem, C16mapItem, C16logItem]
    cases u with
    | false =>
      have hs := add_isSome s.lg h.topic "rev" d n
      simp only [Bool.false_eq_true, if_false] at hs ⊢
      cases ha : add s.lg modName "rev" d n with
      | none => rw [ha] at hs; exact ⟨by simpa using hs, ⟨h.inv, h.map, h.topic, h.stack⟩, rfl⟩
      | some lg' =>
        rw [ha] at hs
        refine ⟨by simpa using hs, ⟨h.inv, h.map, ?_, h.stack⟩, rfl⟩
        dsimp only
        rw [← (grows_add ha).cfg.2.2]; exact h.topic
    | true =>
      have hs := addUnrevertible_isSome s.lg h.topic "unr" d n
      simp only [if_true] at hs ⊢
      cases ha : addUnrevertible s.lg modName "unr" d n with
      | none => rw [ha] at hs; exact ⟨by simpa using hs, ⟨h.inv, h.map, h.topic, h.stack⟩, rfl⟩
      | some lg' =>
        rw [ha] at hs
        refine ⟨by simpa using hs, ⟨h.inv, h.map, ?_, h.stack⟩, rfl⟩
        dsimp only
        rw [← (grows_addUnrevertible ha).cfg.2.2]; exact h.topic
  | badEv =>
    simp only [runItem, C16mapItem, C16logItem]
    have hs := add_isSome s.lg h.topic "bad_name" [] 0
    cases ha : add s.lg modName "bad_name" [] 0 with
    | none => rw [ha] at hs; exact ⟨by simpa using hs, ⟨h.inv, h.map, h.topic, h.stack⟩, rfl⟩
    | some lg' =>
      rw [ha] at hs
      refine ⟨by simpa using hs, ⟨h.inv, h.map, ?_, h.stack⟩, rfl⟩
      dsimp only
      rw [← (grows_add ha).cfg.2.2]; exact h.topic
  | push =>
    refine ⟨rfl, ⟨step_inv s.st h.inv .snapshot, h.map, h.topic, ?_⟩, rfl⟩
    simp only [runItem, C16mapItem, C16StackRel]
    have hlt := stackRel_lt h.stack
    refine ⟨by simp [snapshot], hlt, ⟨s.st.cache, by simp [snapshot, findSnap], h.map⟩, ?_⟩
    refine stackRel_of (st := s.st) (st' := (snapshot s.st).1) rfl (by simp [snapshot]) ?_ h.stack
    intro id hid
    have := hlt id hid
    simp only [snapshot, findSnap]
    rw [if_neg (by omega)]
  | pop =>
    cases hs : s.stack with
    | nil =>
      have hx : x.2 = [] := by
        have := h.stack
        rw [hs] at this
        cases hx : x.2 with
        | nil => rfl
        | cons m ms => rw [hx] at this; exact absurd this (by simp [C16StackRel])
      simp only [runItem, C16mapItem, C16logItem, hs, hx]
      exact ⟨by trivial, ⟨h.inv, h.map, h.topic, by rw [hs, hx]; trivial⟩, by trivial⟩
    | cons id rest =>
      have hst := h.stack
      rw [hs] at hst
      cases hx : x.2 with
      | nil => rw [hx] at hst; exact absurd hst (by simp [C16StackRel])
      | cons m ms =>
        rw [hx] at hst
        simp only [C16StackRel] at hst
        obtain ⟨_, hord, ⟨c, hf, hc⟩, hrest⟩ := hst
        have hinv' := step_inv s.st h.inv (.restore id)
        simp only [step] at hinv'
        have hr : restore s.st id =
            ({ s.st with cache := c, snaps := s.st.snaps.filter (fun e => e.1 ≠ id) }, true) := by
          simp only [restore, hf]
        rw [hr] at hinv'
        simp only [runItem, C16mapItem, C16logItem, hs, hx, hr]
        refine ⟨by trivial, ⟨hinv', hc, h.topic, ?_⟩, by trivial⟩
        refine stackRel_of (st := s.st)
          (st' := { s.st with cache := c, snaps := s.st.snaps.filter (fun e => e.1 ≠ id) })
          rfl (Nat.le_refl _) ?_ hrest
        intro j hj
        have hlt := hord j hj
        exact findSnap_filter_ne' _ _ _ (by omega)
  | fail => exact ⟨rfl, ⟨h.inv, h.map, h.topic, h.stack⟩, rfl⟩

/-- **Module code with arbitrarily nested snapshots refines the interpreter on maps.**  Whatever the
code does — sets, deletes and reads on any module stores, events, `Snapshot()` /
`RestoreSnapshot(id)` nested to any depth, restores without a snapshot, an error at any step — its
success, the effective content of the staged store (C12: what every read returns) and the event
logger are those the interpreter computes, in which a snapshot is a plain copy of the map. -/
theorem C16_section_refines_spec (items : List Item) (s : SecSt) (x : C16MS) (h : C16Rel s x) :
    (runSection s items).2 = (C16mapRun x items).2 ∧
      C16Rel (runSection s items).1 (C16mapRun x items).1 ∧
      (runSection s items).1.lg = C16logRun x s.lg items := by
  induction items generalizing s x with
  | nil => exact ⟨rfl, h, rfl⟩
  | cons it r ih =>
    obtain ⟨h1, h2, h3⟩ := item_refines s x h it
    simp only [runSection, C16mapRun, C16logRun]
    rw [← h1]
    split
    · have := ih _ _ h2
      rw [h3] at this
      exact this
    · exact ⟨rfl, h2, h3⟩

/-- code that starts on a staged store showing the map `m`, with no snapshot of its own -/
theorem C16_rel_start (st : St) (lg : EventLogger) (m : C16Map) (hinv : C12Inv st)
    (hm : ∀ k, eff st k = m k) (hT : lg.hasTopic = true) :
    C16Rel { st := st, lg := lg } (m, []) :=
  ⟨hinv, hm, hT, trivial⟩

/-! ### whole transactions -/

/-- `Executer.ExecuteTransaction` on maps: the hooks and the command run on plain maps; **a failed
command is no command** (the hooks after it start from the map the hooks before it left), its
logger loses the revertible events (`restoreSnapshot`), the standard event closes the list. -/
def C16specTx (m : C16Map) (height : Nat) (tx : Tx) : C16Map × Result × List Event :=
  let p := C16mapRun (m, []) tx.pre
  let lgP := C16logRun (m, []) (newLogger height) tx.pre
  if !p.2 then (p.1.1, .invalid, lgP.out)
  else if !tx.cmdKnown then (p.1.1, .invalid, lgP.out)
  else
    let c := C16mapRun (p.1.1, []) tx.cmd
    let lgC := C16logRun (p.1.1, []) (createSnapshot lgP) tx.cmd
    let m1 := if c.2 then c.1.1 else p.1.1
    let lg1 := if c.2 then lgC else restoreSnapshot lgC
    let q := C16mapRun (m1, []) tx.post
    let lgQ := C16logRun (m1, []) lg1 tx.post
    if !q.2 then (q.1.1, .invalid, lgQ.out)
    else (q.1.1, if c.2 then .ok else .fail, lgQ.out ++ [C16StdEvent c.2 height lgQ.events.length])

private theorem std_names_ok' : (alnum modName && alnum stdEventName) = true := by decide

private theorem add_std' (l : EventLogger) (hT : l.hasTopic = true) (b : Bool) :
    add l modName stdEventName (stdData b) 0 =
      some { l with events := l.events ++ [⟨C16StdEvent b l.height l.events.length, false⟩] } := by
  unfold add createEvent
  simp only [hT, Bool.not_true, Bool.false_eq_true, if_false]
  have hv : (C16StdEvent b l.height l.events.length).valid = true := by
    unfold Event.valid C16StdEvent
    dsimp only
    rw [std_names_ok']
    cases b <;> simp [stdData, eventMaxSizeBytes, eventMaxTopics]
  unfold C16StdEvent at hv
  rw [if_pos hv]
  rfl

private theorem logger_cfg_section (items : List Item) (s : SecSt) :
    (runSection s items).1.lg.hasTopic = s.lg.hasTopic ∧ (runSection s items).1.lg.height = s.lg.height := by
  have := (runSection_grows items s).cfg
  exact ⟨this.2.2.symm, this.2.1.symm⟩

/-- the command phase on maps -/
private theorem commandPhase_spec (st : St) (lg : EventLogger) (cmd : List Item) (m : C16Map)
    (hinv : C12Inv st) (hm : ∀ k, eff st k = m k) (hT : lg.hasTopic = true) :
    (commandPhase st lg cmd).restoreFailed = false ∧
      (commandPhase st lg cmd).success = (C16mapRun (m, []) cmd).2 ∧
      C12Inv (commandPhase st lg cmd).st ∧
      (commandPhase st lg cmd).st.store = st.store ∧
      (∀ k, eff (commandPhase st lg cmd).st k =
        (if (C16mapRun (m, []) cmd).2 then (C16mapRun (m, []) cmd).1.1 else m) k) ∧
      (commandPhase st lg cmd).lg =
        (if (C16mapRun (m, []) cmd).2 then C16logRun (m, []) (createSnapshot lg) cmd
         else restoreSnapshot (C16logRun (m, []) (createSnapshot lg) cmd)) ∧
      (commandPhase st lg cmd).lg.hasTopic = true ∧
      (commandPhase st lg cmd).lg.height = lg.height := by
  have hcfg := logger_cfg_section cmd { st := (snapshot st).1, lg := createSnapshot lg }
  have hrel : C16Rel { st := (snapshot st).1, lg := createSnapshot lg } (m, []) :=
    C16_rel_start _ _ m (C12_cache_invariant st hinv [.snapshot]) hm hT
  obtain ⟨hok, hR, hlg⟩ := C16_section_refines_spec cmd _ _ hrel
  have hstore := runSection_store cmd { st := (snapshot st).1, lg := createSnapshot lg }
  cases hx : (runSection { st := (snapshot st).1, lg := createSnapshot lg } cmd).2 with
  | true =>
    have hc : commandPhase st lg cmd =
        { st := deleteSnapshot (runSection { st := (snapshot st).1, lg := createSnapshot lg } cmd).1.st
                  (snapshot st).2,
          lg := (runSection { st := (snapshot st).1, lg := createSnapshot lg } cmd).1.lg,
          success := true,
          lgRan := (runSection { st := (snapshot st).1, lg := createSnapshot lg } cmd).1.lg } := by
      unfold commandPhase
      dsimp only
      rw [if_pos hx]
    rw [hx] at hok
    rw [hc, ← hok]
    refine ⟨rfl, rfl, ?_, hstore, ?_, ?_, hR.topic, hcfg.2⟩
    · exact C12_cache_invariant _ hR.inv [.deleteSnapshot (snapshot st).2]
    · intro k; simp only [if_true]; exact hR.map k
    · simp only [if_true]; exact hlg
  | false =>
    have hfail : (commandPhase st lg cmd).success = false := by
      unfold commandPhase
      dsimp only
      rw [if_neg (by simp [hx])]
      split <;> rfl
    obtain ⟨hrf, heff⟩ := C16_failed_command_state_unchanged st lg cmd hfail
    cases hr : (restore (runSection { st := (snapshot st).1, lg := createSnapshot lg } cmd).1.st
        (snapshot st).2).2 with
    | false =>
      have : (commandPhase st lg cmd).restoreFailed = true := by
        unfold commandPhase
        dsimp only
        rw [if_neg (by simp [hx]), if_neg (by simp [hr])]
      rw [this] at hrf
      cases hrf
    | true =>
      have hc : commandPhase st lg cmd =
          { st := deleteSnapshot
              (restore (runSection { st := (snapshot st).1, lg := createSnapshot lg } cmd).1.st
                (snapshot st).2).1 (snapshot st).2,
            lg := restoreSnapshot (runSection { st := (snapshot st).1, lg := createSnapshot lg } cmd).1.lg,
            success := false,
            lgRan := (runSection { st := (snapshot st).1, lg := createSnapshot lg } cmd).1.lg } := by
        unfold commandPhase
        dsimp only
        rw [if_neg (by simp [hx]), if_pos hr]
      rw [hx] at hok
      rw [hc] at heff ⊢
      rw [← hok]
      refine ⟨rfl, rfl, ?_, ?_, ?_, ?_, ?_, ?_⟩
      · exact C12_cache_invariant _ hR.inv [.restore (snapshot st).2, .deleteSnapshot (snapshot st).2]
      · show (restore _ _).1.store = st.store
        rw [restore_store]; exact hstore
      · intro k; simp only [Bool.false_eq_true, if_false]; exact (heff k).trans (hm k)
      · simp only [Bool.false_eq_true, if_false]; rw [hlg]
      · show (restoreSnapshot _).hasTopic = true
        rw [(restoreSnapshot_cfg' _).1]; exact hR.topic
      · show (restoreSnapshot _).height = lg.height
        rw [(restoreSnapshot_cfg' _).2]; exact hcfg.2

/-- **A whole transaction refines the interpreter on maps**: for every staged store satisfying the
C12 invariant, every height and every transaction (any `BeforeCommandExecute` / `AfterCommandExecute`
hooks, known or unknown command, any command script with nested snapshots), the effective staged
state after `ExecuteTransaction`, the result code and the list of events of the response are those
of `C16specTx` on the effective state before; the invariant is kept and the database underneath is
not touched. -/
theorem C16_transaction_refines_spec (st : St) (hinv : C12Inv st) (height : Nat) (tx : Tx) :
    (∀ k, eff (executeTransaction st height tx).1 k = (C16specTx (eff st) height tx).1 k) ∧
      (executeTransaction st height tx).2 = (C16specTx (eff st) height tx).2 ∧
      C12Inv (executeTransaction st height tx).1 ∧
      (executeTransaction st height tx).1.store = st.store := by
  have hrel0 : C16Rel { st := st, lg := newLogger height } (eff st, []) :=
    C16_rel_start st _ _ hinv (fun _ => rfl) rfl
  obtain ⟨hpok, hpR, hplg⟩ := C16_section_refines_spec tx.pre _ _ hrel0
  have hpstore := runSection_store tx.pre { st := st, lg := newLogger height }
  have hpcfg := logger_cfg_section tx.pre { st := st, lg := newLogger height }
  unfold executeTransaction C16specTx
  dsimp only
  rw [← hpok, ← hplg]
  by_cases hp : (runSection { st := st, lg := newLogger height } tx.pre).2 = true
  case neg =>
    simp only [hp, Bool.not_false, if_true]
    exact ⟨hpR.map, trivial, hpR.inv, hpstore⟩
  simp only [hp, Bool.not_true, Bool.false_eq_true, if_false]
  by_cases hk : tx.cmdKnown = true
  case neg =>
    simp only [hk, Bool.not_false, if_true]
    exact ⟨hpR.map, trivial, hpR.inv, hpstore⟩
  simp only [hk, Bool.not_true, Bool.false_eq_true, if_false]
  obtain ⟨hrf, hsucc, hcinv, hcstore, hcmap, hclg, hcT, hcH⟩ :=
    commandPhase_spec (runSection { st := st, lg := newLogger height } tx.pre).1.st
      (runSection { st := st, lg := newLogger height } tx.pre).1.lg tx.cmd
      (C16mapRun (eff st, []) tx.pre).1.1 hpR.inv hpR.map hpR.topic
  have hrelq := C16_rel_start _ _ _ hcinv hcmap hcT
  obtain ⟨hqok, hqR, hqlg⟩ := C16_section_refines_spec tx.post _ _ hrelq
  have hqstore := runSection_store tx.post
    { st := (commandPhase (runSection { st := st, lg := newLogger height } tx.pre).1.st
        (runSection { st := st, lg := newLogger height } tx.pre).1.lg tx.cmd).st,
      lg := (commandPhase (runSection { st := st, lg := newLogger height } tx.pre).1.st
        (runSection { st := st, lg := newLogger height } tx.pre).1.lg tx.cmd).lg }
  have hstoreAll : (runSection
      { st := (commandPhase (runSection { st := st, lg := newLogger height } tx.pre).1.st
          (runSection { st := st, lg := newLogger height } tx.pre).1.lg tx.cmd).st,
        lg := (commandPhase (runSection { st := st, lg := newLogger height } tx.pre).1.st
          (runSection { st := st, lg := newLogger height } tx.pre).1.lg tx.cmd).lg } tx.post).1.st.store =
      st.store := by
    rw [hqstore]; dsimp only; rw [hcstore, hpstore]
  have hqcfg := logger_cfg_section tx.post
    { st := (commandPhase (runSection { st := st, lg := newLogger height } tx.pre).1.st
        (runSection { st := st, lg := newLogger height } tx.pre).1.lg tx.cmd).st,
      lg := (commandPhase (runSection { st := st, lg := newLogger height } tx.pre).1.st
        (runSection { st := st, lg := newLogger height } tx.pre).1.lg tx.cmd).lg }
  have hqT := hqcfg.1.trans hcT
  have hqH : _ = height := hqcfg.2.trans (hcH.trans hpcfg.2)
  rw [← hclg, ← hqok, ← hqlg, hsucc, add_std' _ hqT, hrf]
  simp only [Bool.false_eq_true, if_false]
  generalize runSection
    { st := (commandPhase (runSection { st := st, lg := newLogger height } tx.pre).1.st
        (runSection { st := st, lg := newLogger height } tx.pre).1.lg tx.cmd).st,
      lg := (commandPhase (runSection { st := st, lg := newLogger height } tx.pre).1.st
        (runSection { st := st, lg := newLogger height } tx.pre).1.lg tx.cmd).lg } tx.post = Q at *
  cases hq : Q.2
  · simp only [Bool.not_false, if_true]
    exact ⟨hqR.map, trivial, hqR.inv, hstoreAll⟩
  · simp only [Bool.not_true, Bool.false_eq_true, if_false]
    refine ⟨hqR.map, ?_, hqR.inv, hstoreAll⟩
    simp only [EventLogger.out, List.map_append, List.map_cons, List.map_nil, hqH]

/-! ### atomicity of a whole transaction, hooks included -/

private theorem logItem_grows (m : C16Map) (lg : EventLogger) (it : Item) : Grows lg (C16logItem m lg it) := by
  cases it with
  | get k =>
    simp only [C16logItem]
    cases ha : add lg modName (if (m k).isSome then "read" else "miss") ((m k).getD []) 0 with
    | none => exact grows_refl _
    | some l' => exact grows_add ha
  | ev u n d =>
    simp only [C16logItem]
    cases u with
    | false =>
      simp only [Bool.false_eq_true, if_false]
      cases ha : add lg modName "rev" d n with
      | none => exact grows_refl _
      | some l' => exact grows_add ha
    | true =>
      simp only [if_true]
      cases ha : addUnrevertible lg modName "unr" d n with
      | none => exact grows_refl _
      | some l' => exact grows_addUnrevertible ha
  | badEv =>
    simp only [C16logItem]
    cases ha : add lg modName "bad_name" [] 0 with
    | none => exact grows_refl _
    | some l' => exact grows_add ha
  | set k v => exact grows_refl _
  | del k => exact grows_refl _
  | chk k v => exact grows_refl _
  | push => exact grows_refl _
  | pop => exact grows_refl _
  | fail => exact grows_refl _

private theorem logRun_grows (items : List Item) : ∀ (x : C16MS) (lg : EventLogger),
    Grows lg (C16logRun x lg items) := by
  induction items with
  | nil => intro x lg; exact grows_refl _
  | cons it r ih =>
    intro x lg
    simp only [C16logRun]
    split
    · exact grows_trans (logItem_grows x.1 lg it) (ih _ _)
    · exact logItem_grows x.1 lg it

/-- what `C16specTx` is when the result is `Fail` -/
private theorem specTx_fail (m : C16Map) (height : Nat) (tx : Tx)
    (h : (C16specTx m height tx).2.1 = .fail) :
    (C16mapRun (m, []) tx.pre).2 = true ∧ tx.cmdKnown = true ∧
      (C16mapRun ((C16mapRun (m, []) tx.pre).1.1, []) tx.cmd).2 = false ∧
      (C16mapRun ((C16mapRun (m, []) tx.pre).1.1, []) tx.post).2 = true ∧
      C16specTx m height tx =
        ((C16mapRun ((C16mapRun (m, []) tx.pre).1.1, []) tx.post).1.1, .fail,
         (C16logRun ((C16mapRun (m, []) tx.pre).1.1, [])
            (restoreSnapshot (C16logRun ((C16mapRun (m, []) tx.pre).1.1, [])
              (createSnapshot (C16logRun (m, []) (newLogger height) tx.pre)) tx.cmd)) tx.post).out ++
          [C16StdEvent false height
            (C16logRun ((C16mapRun (m, []) tx.pre).1.1, [])
              (restoreSnapshot (C16logRun ((C16mapRun (m, []) tx.pre).1.1, [])
                (createSnapshot (C16logRun (m, []) (newLogger height) tx.pre)) tx.cmd)) tx.post).events.length]) := by
  unfold C16specTx at h ⊢
  dsimp only at h ⊢
  cases hp : (C16mapRun (m, []) tx.pre).2 with
  | false => simp [hp] at h
  | true =>
    cases hk : tx.cmdKnown with
    | false => simp [hp, hk] at h
    | true =>
      cases hc : (C16mapRun ((C16mapRun (m, []) tx.pre).1.1, []) tx.cmd).2 with
      | true =>
        simp only [hp, hk, hc, Bool.not_true, Bool.false_eq_true, if_false, if_true] at h
        split at h <;> simp at h
      | false =>
        simp only [hp, hk, hc, Bool.not_true, Bool.false_eq_true, if_false] at h ⊢
        cases hq : (C16mapRun ((C16mapRun (m, []) tx.pre).1.1, []) tx.post).2 with
        | false => simp [hq] at h
        | true => simp

/-- **Atomicity of a whole transaction.**  When `ExecuteTransaction` answers `Fail` — the command
returned an error, after any sets / deletes / events / nested snapshots — for a transaction of
modules with any `BeforeCommandExecute` and `AfterCommandExecute` hooks (fee and nonce handling):

* the resulting state is exactly the state before the transaction with the writes of the hooks
  applied (the after-hooks run on what the before-hooks left) and nothing of the command;
* it is the state the same transaction leaves when its command fails at once;
* the events are: those of the before-hooks; of the events `new` the command logged exactly the
  unrevertible ones, renumbered consecutively; those of the after-hooks (`evPost`); the standard
  event with `success = false`. -/
theorem C16_failed_transaction_exact (st : St) (hinv : C12Inv st) (height : Nat) (tx : Tx)
    (hres : (executeTransaction st height tx).2.1 = .fail) :
    (∀ k, eff (executeTransaction st height tx).1 k =
        (C16mapRun ((C16mapRun (eff st, []) tx.pre).1.1, []) tx.post).1.1 k) ∧
    (∀ k, eff (executeTransaction st height tx).1 k =
        eff (executeTransaction st height { tx with cmd := [.fail] }).1 k) ∧
    ∃ new evPost : List Logged,
      (C16logRun ((C16mapRun (eff st, []) tx.pre).1.1, [])
        (createSnapshot (C16logRun (eff st, []) (newLogger height) tx.pre)) tx.cmd).events =
          (C16logRun (eff st, []) (newLogger height) tx.pre).events ++ new ∧
      (executeTransaction st height tx).2.2 =
        ((C16logRun (eff st, []) (newLogger height) tx.pre).events ++
          reindexFrom (C16logRun (eff st, []) (newLogger height) tx.pre).events.length
            (new.filter (·.noRevert)) ++ evPost).map (·.event) ++
        [C16StdEvent false height
          (((C16logRun (eff st, []) (newLogger height) tx.pre).events ++
            reindexFrom (C16logRun (eff st, []) (newLogger height) tx.pre).events.length
              (new.filter (·.noRevert)) ++ evPost).length)] := by
  obtain ⟨hmap, hout, _, _⟩ := C16_transaction_refines_spec st hinv height tx
  have hf : (C16specTx (eff st) height tx).2.1 = .fail := by rw [← hout]; exact hres
  obtain ⟨hp, hk, hc, hq, hspec⟩ := specTx_fail (eff st) height tx hf
  refine ⟨fun k => by rw [hmap k, hspec], ?_, ?_⟩
  · intro k
    obtain ⟨hmap', _, _, _⟩ := C16_transaction_refines_spec st hinv height { tx with cmd := [.fail] }
    rw [hmap k, hmap' k, hspec]
    simp [C16specTx, hp, hk, hq, C16mapRun, C16mapItem]
  · have gC := logRun_grows tx.cmd ((C16mapRun (eff st, []) tx.pre).1.1, [])
      (createSnapshot (C16logRun (eff st, []) (newLogger height) tx.pre))
    obtain ⟨new, hnew, _⟩ := gC.ext
    have hsi : (C16logRun ((C16mapRun (eff st, []) tx.pre).1.1, [])
        (createSnapshot (C16logRun (eff st, []) (newLogger height) tx.pre)) tx.cmd).snapshotIndex =
        some (C16logRun (eff st, []) (newLogger height) tx.pre).events.length := gC.cfg.1.symm
    have hrs : (restoreSnapshot (C16logRun ((C16mapRun (eff st, []) tx.pre).1.1, [])
        (createSnapshot (C16logRun (eff st, []) (newLogger height) tx.pre)) tx.cmd)).events =
        (C16logRun (eff st, []) (newLogger height) tx.pre).events ++
          reindexFrom (C16logRun (eff st, []) (newLogger height) tx.pre).events.length
            (new.filter (·.noRevert)) := by
      have hnew' : (C16logRun ((C16mapRun (eff st, []) tx.pre).1.1, [])
          (createSnapshot (C16logRun (eff st, []) (newLogger height) tx.pre)) tx.cmd).events =
          (C16logRun (eff st, []) (newLogger height) tx.pre).events ++ new := hnew
      simp only [restoreSnapshot, hsi, hnew', List.take_left' rfl, List.drop_left' rfl]
    have gQ := logRun_grows tx.post ((C16mapRun (eff st, []) tx.pre).1.1, [])
      (restoreSnapshot (C16logRun ((C16mapRun (eff st, []) tx.pre).1.1, [])
        (createSnapshot (C16logRun (eff st, []) (newLogger height) tx.pre)) tx.cmd))
    obtain ⟨evPost, hpost, _⟩ := gQ.ext
    rw [hrs] at hpost
    refine ⟨new, evPost, hnew, ?_⟩
    rw [hout, hspec]
    simp only [EventLogger.out, hpost]

/-! ### blocks: the engine's sequence of ABI calls -/

/-- a block as the application sees it: the height of its header, what the modules'
`BeforeTransactionsExecute` / `AfterTransactionsExecute` hooks do, and its transactions -/
structure C16Blk where
  height : Nat
  before : List Item := []
  txs : List Tx := []
  after : List Item := []

/-- the transaction loop of `stateExecuter.Execute` (pkg/consensus/abi_caller.go): `VerifyTransaction`
then `ExecuteTransaction` for each transaction; a verification failure, an ABI error or the result
`Invalid` aborts the block; the events of the responses are collected -/
def C16execTxs (a : App) : List Tx → App × Option (List Event)
  | [] => (a, some [])
  | tx :: r =>
    let v := verifyTransaction a tx
    if !v.2 then (v.1, none)
    else
      let e := executeTx v.1 tx
      match e.2 with
      | none => (e.1, none)
      | some re =>
        if re.1 = .invalid then (e.1, none)
        else
          let t := C16execTxs e.1 r
          (t.1, t.2.map (re.2 ++ ·))

/-- `stateExecuter.Execute`: before-hooks, the transactions, after-hooks -/
def C16execute (a : App) (blk : C16Blk) : App × Option (List Event) :=
  let b := blockHook a blk.before
  match b.2 with
  | none => (b.1, none)
  | some e1 =>
    let t := C16execTxs b.1 blk.txs
    match t.2 with
    | none => (t.1, none)
    | some e2 =>
      let f := blockHook t.1 blk.after
      (f.1, f.2.map (fun e3 => e1 ++ e2 ++ e3))

/-- `Executer.processValidated` (pkg/consensus/execute.go) as far as the application is concerned:
`InitStateMachine`, `Execute`, `Commit` with the state root of the header as the expected root, and
the deferred `Clear` on every path after `InitStateMachine` succeeded.  (The engine's own checks
between `Execute` and `Commit` — validators hash, event root — only add further paths to `Clear`.) -/
def C16processBlock (P : Params) (a : App) (blk : C16Blk) (expected : Option Bytes) :
    App × Option (Bytes × List Event) :=
  let i := initStateMachine a blk.height
  if !i.2 then (a, none)
  else
    let x := C16execute i.1 blk
    match x.2 with
    | none => (clear x.1, none)
    | some evs =>
      let cm := commit P x.1 expected false
      (clear cm.1, cm.2.map (fun root => (root, evs)))

/-! ### a block that fails leaves no trace -/

private theorem blockHook_persist (a : App) (items : List Item) : clear (blockHook a items).1 = clear a := by
  unfold blockHook
  split
  · rfl
  · dsimp only; split <;> rfl

private theorem verifyTransaction_persist (a : App) (tx : Tx) : clear (verifyTransaction a tx).1 = clear a := by
  unfold verifyTransaction
  split
  · rfl
  · split <;> rfl

private theorem executeTx_persist (a : App) (tx : Tx) : clear (executeTx a tx).1 = clear a := by
  unfold executeTx
  split <;> rfl

private theorem execTxs_persist (txs : List Tx) : ∀ a : App, clear (C16execTxs a txs).1 = clear a := by
  induction txs with
  | nil => intro a; rfl
  | cons tx r ih =>
    intro a
    have h1 := verifyTransaction_persist a tx
    have h2 := executeTx_persist (verifyTransaction a tx).1 tx
    simp only [C16execTxs]
    split
    · exact h1
    · split
      · exact h2.trans h1
      · split
        · exact h2.trans h1
        · exact (ih _).trans (h2.trans h1)

private theorem execute_persist (a : App) (blk : C16Blk) : clear (C16execute a blk).1 = clear a := by
  have h1 := blockHook_persist a blk.before
  have h2 := execTxs_persist blk.txs (blockHook a blk.before).1
  have h3 := blockHook_persist (C16execTxs (blockHook a blk.before).1 blk.txs).1 blk.after
  unfold C16execute
  dsimp only
  split
  · exact h1
  · split
    · exact h2.trans h1
    · exact h3.trans (h2.trans h1)

private theorem commit_none_persist (P : Params) (a : App) (e : Option Bytes) (d : Bool)
    (h : (commit P a e d).2 = none) : (commit P a e d).1 = a := by
  unfold Exec.commit at h ⊢
  cases hc : a.ctx with
  | none => rfl
  | some c =>
    simp only [hc] at h ⊢
    split
    · rfl
    · next hne =>
      rw [if_neg hne] at h
      split at h <;> simp at h

/-- **A block that fails leaves no trace.**  Whatever goes wrong while a block is processed — the
context cannot be created, a `BeforeTransactionsExecute` or `AfterTransactionsExecute` hook returns
an error after any number of writes, a transaction does not verify or is `Invalid` after earlier
transactions of the block have been executed, the resulting root is not the expected one — the
application (state, state tree, stored diffs, recorded height and root, no open context) is exactly
what it was before the block. -/
theorem C16_failed_block_no_trace (P : Params) (a : App) (hctx : a.ctx = none) (blk : C16Blk)
    (expected : Option Bytes) (hfail : (C16processBlock P a blk expected).2 = none) :
    (C16processBlock P a blk expected).1 = a := by
  have hca : clear a = a := by cases a; simp only [clear] at *; simp_all
  have hi : clear (initStateMachine a blk.height).1 = clear a := by
    unfold initStateMachine; split <;> rfl
  have hx := (execute_persist (initStateMachine a blk.height).1 blk).trans (hi.trans hca)
  unfold C16processBlock at hfail ⊢
  dsimp only at hfail ⊢
  split
  · rfl
  · next hne =>
    rw [if_neg hne] at hfail
    split
    · exact hx
    · next evs hev =>
      simp only [hev] at hfail
      have hn : (commit P (C16execute (initStateMachine a blk.height).1 blk).1 expected false).2 = none := by
        cases hc : (commit P (C16execute (initStateMachine a blk.height).1 blk).1 expected false).2 with
        | none => rfl
        | some r => rw [hc] at hfail; simp at hfail
      dsimp only
      rw [commit_none_persist P _ _ _ hn]
      exact hx

/-! ### a block is the fold of the transaction specification -/

/-- `VerifyTransaction` on a map -/
def C16specVerify (m : C16Map) (tx : Tx) : Bool :=
  tx.cmdKnown && (C16mapRun (m, []) (verifyItems tx.verify)).2

/-- the transactions of a block, folded over the map: state and collected events, `none` when the
engine aborts the block -/
def C16specTxs (m : C16Map) (height : Nat) : List Tx → Option (C16Map × List Event)
  | [] => some (m, [])
  | tx :: r =>
    if !C16specVerify m tx then none
    else
      let x := C16specTx m height tx
      if x.2.1 = .invalid then none
      else (C16specTxs x.1 height r).map (fun y => (y.1, x.2.2 ++ y.2))

/-- a whole block on a map -/
def C16specBlock (m : C16Map) (blk : C16Blk) : Option (C16Map × List Event) :=
  let b := C16mapRun (m, []) blk.before
  if !b.2 then none
  else
    match C16specTxs b.1.1 blk.height blk.txs with
    | none => none
    | some t =>
      let f := C16mapRun (t.1, []) blk.after
      if !f.2 then none
      else some (f.1.1, (C16logRun (m, []) (newLogger blk.height) blk.before).out ++ t.2 ++
                   (C16logRun (t.1, []) (newLogger blk.height) blk.after).out)

/-- the open execution context `c` of the application shows the map `m` -/
structure C16AppRel (a : App) (c : Ctx) (m : C16Map) : Prop where
  ctx : a.ctx = some c
  inv : C12Inv (stOf a c)
  map : ∀ k, eff (stOf a c) k = m k

private theorem mapRun_verifyItems (l : List Item) : ∀ x : C16MS, (C16mapRun x (verifyItems l)).1 = x := by
  induction l with
  | nil => intro x; rfl
  | cons it r ih =>
    intro x
    cases it with
    | chk k v =>
      have e : C16mapItem x (.chk k v) = (x, x.1 k == some v) := rfl
      simp only [verifyItems, C16mapRun, e]
      cases (x.1 k == some v) <;> simp [ih]
    | fail => rfl
    | _ => simp only [verifyItems]; exact ih x

private theorem blockHook_refines (a : App) (c : Ctx) (m : C16Map) (h : C16AppRel a c m)
    (items : List Item) :
    (blockHook a items).2 =
      (if (C16mapRun (m, []) items).2 then some (C16logRun (m, []) (newLogger c.height) items).out
       else none) ∧
    ∃ c', C16AppRel (blockHook a items).1 c' (C16mapRun (m, []) items).1.1 ∧ c'.height = c.height := by
  obtain ⟨hok, hR, hlg⟩ := C16_section_refines_spec items _ _
    (C16_rel_start (stOf a c) (newLogger c.height) m h.inv h.map rfl)
  have hstore := runSection_store items { st := stOf a c, lg := newLogger c.height }
  have hst := stOf_ctxOf a c _ hstore
  unfold blockHook
  rw [h.ctx]
  dsimp only
  rw [hok, hlg]
  constructor
  · split <;> rfl
  · refine ⟨ctxOf c (runSection { st := stOf a c, lg := newLogger c.height } items).1.st, ?_, rfl⟩
    have key : C16AppRel { a with ctx := some (ctxOf c (runSection { st := stOf a c, lg := newLogger c.height } items).1.st) }
        (ctxOf c (runSection { st := stOf a c, lg := newLogger c.height } items).1.st)
        (C16mapRun (m, []) items).1.1 := by
      refine ⟨rfl, ?_, ?_⟩
      · show C12Inv (stOf a _); rw [hst]; exact hR.inv
      · intro k; show eff (stOf a _) k = _; rw [hst]; exact hR.map k
    split <;> exact key

private theorem verifyTransaction_refines (a : App) (c : Ctx) (m : C16Map) (h : C16AppRel a c m) (tx : Tx) :
    (verifyTransaction a tx).2 = C16specVerify m tx ∧
    ∃ c', C16AppRel (verifyTransaction a tx).1 c' m ∧ c'.height = c.height := by
  unfold verifyTransaction C16specVerify
  cases hk : tx.cmdKnown with
  | false => exact ⟨by simp, c, h, rfl⟩
  | true =>
    obtain ⟨hok, hR, _⟩ := C16_section_refines_spec (verifyItems tx.verify) _ _
      (C16_rel_start (stOf a c) (newLogger c.height) m h.inv h.map rfl)
    have hstore := runSection_store (verifyItems tx.verify) { st := stOf a c, lg := newLogger c.height }
    have hst := stOf_ctxOf a c _ hstore
    rw [mapRun_verifyItems] at hR
    simp only [Bool.not_true, Bool.false_eq_true, if_false, h.ctx, Bool.true_and]
    refine ⟨hok, ctxOf c (runSection { st := stOf a c, lg := newLogger c.height } (verifyItems tx.verify)).1.st,
      ⟨rfl, ?_, ?_⟩, rfl⟩
    · show C12Inv (stOf a _); rw [hst]; exact hR.inv
    · intro k; show eff (stOf a _) k = _; rw [hst]; exact hR.map k

private theorem executeTx_refines (a : App) (c : Ctx) (m : C16Map) (h : C16AppRel a c m) (tx : Tx) :
    (executeTx a tx).2 = some (C16specTx m c.height tx).2 ∧
    ∃ c', C16AppRel (executeTx a tx).1 c' (C16specTx m c.height tx).1 ∧ c'.height = c.height := by
  have hm : eff (stOf a c) = m := funext h.map
  obtain ⟨hmap, hout, hinv, hstore⟩ := C16_transaction_refines_spec (stOf a c) h.inv c.height tx
  rw [hm] at hmap hout
  have hst := stOf_ctxOf a c _ hstore
  unfold executeTx
  rw [h.ctx]
  dsimp only
  refine ⟨by rw [hout], ctxOf c (executeTransaction (stOf a c) c.height tx).1, ⟨rfl, ?_, ?_⟩, rfl⟩
  · show C12Inv (stOf a _); rw [hst]; exact hinv
  · intro k; show eff (stOf a _) k = _; rw [hst]; exact hmap k

private theorem execTxs_refines (txs : List Tx) : ∀ (a : App) (c : Ctx) (m : C16Map), C16AppRel a c m →
    (C16execTxs a txs).2 = (C16specTxs m c.height txs).map (·.2) ∧
    ∀ t, C16specTxs m c.height txs = some t →
      ∃ c', C16AppRel (C16execTxs a txs).1 c' t.1 ∧ c'.height = c.height := by
  induction txs with
  | nil =>
    intro a c m h
    refine ⟨rfl, ?_⟩
    intro t ht
    simp only [C16specTxs, Option.some.injEq] at ht
    subst ht
    exact ⟨c, h, rfl⟩
  | cons tx r ih =>
    intro a c m h
    obtain ⟨hv, c1, hR1, hh1⟩ := verifyTransaction_refines a c m h tx
    obtain ⟨he, c2, hR2, hh2⟩ := executeTx_refines _ c1 m hR1 tx
    rw [hh1] at he hR2
    obtain ⟨ih1, ih2⟩ := ih _ c2 _ hR2
    rw [hh2, hh1] at ih1 ih2
    simp only [C16execTxs, C16specTxs, hv, he]
    cases hsv : C16specVerify m tx with
    | false => simp
    | true =>
      simp only [Bool.not_true, Bool.false_eq_true, if_false]
      by_cases hinvd : (C16specTx m c.height tx).2.1 = Result.invalid
      · simp [hinvd]
      · simp only [hinvd, if_false]
        rw [ih1]
        constructor
        · cases C16specTxs (C16specTx m c.height tx).1 c.height r <;> rfl
        · intro t ht
          cases hs : C16specTxs (C16specTx m c.height tx).1 c.height r with
          | none => rw [hs] at ht; simp at ht
          | some y =>
            rw [hs] at ht
            simp only [Option.map_some, Option.some.injEq] at ht
            subst ht
            obtain ⟨c', hR', hh'⟩ := ih2 y hs
            exact ⟨c', hR', by omega⟩

private theorem execute_refines (a : App) (c : Ctx) (m : C16Map) (h : C16AppRel a c m) (blk : C16Blk)
    (hh : c.height = blk.height) :
    (C16execute a blk).2 = (C16specBlock m blk).map (·.2) ∧
    ∀ t, C16specBlock m blk = some t → ∃ c', C16AppRel (C16execute a blk).1 c' t.1 ∧ c'.height = blk.height := by
  obtain ⟨hb, c1, hR1, hh1⟩ := blockHook_refines a c m h blk.before
  obtain ⟨ht1, ht2⟩ := execTxs_refines blk.txs _ c1 _ hR1
  rw [hh1, hh] at ht1 ht2
  rw [hh] at hb
  unfold C16execute C16specBlock
  dsimp only
  rw [hb]
  cases hbo : (C16mapRun (m, []) blk.before).2 with
  | false => simp
  | true =>
    simp only [if_true, Bool.not_true, Bool.false_eq_true, if_false]
    rw [ht1]
    cases hs : C16specTxs (C16mapRun (m, []) blk.before).1.1 blk.height blk.txs with
    | none => simp
    | some t =>
      obtain ⟨c2, hR2, hh2⟩ := ht2 t hs
      obtain ⟨hf, c3, hR3, hh3⟩ := blockHook_refines _ c2 _ hR2 blk.after
      rw [hh2] at hf
      simp only [Option.map_some]
      rw [hf]
      cases hfo : (C16mapRun (t.1, []) blk.after).2 with
      | false => simp
      | true =>
        simp only [if_true, Bool.not_true, Bool.false_eq_true, if_false, Option.map_some]
        refine ⟨trivial, ?_⟩
        intro t' ht'
        simp only [Option.some.injEq] at ht'
        subst ht'
        exact ⟨c3, hR3, by omega⟩

private theorem clear_of_ctx_none (a : App) (h : a.ctx = none) : clear a = a := by
  cases a; simp only [clear] at *; simp_all

private theorem app_eq_of_clear (x a : App) (c : Ctx) (h1 : clear x = a) (h2 : x.ctx = some c) :
    x = { a with ctx := some c } := by
  cases x
  simp only [clear] at h1
  simp only at h2
  subst h1 h2
  rfl

/-- **Processing a block is folding the transaction specification over its transactions**, between
the two block hooks.  For an application without open context whose tree holds the image of its
state: when the fold aborts (`none`: a hook fails, a transaction does not verify or is invalid) the
block is rejected without trace whatever root is expected; otherwise, with `m'` the folded map and
`evs` the collected events, the block is accepted (when no root or the right root is expected), the
stored state is exactly `m'`, the tree holds exactly its image, the returned and recorded root is the
root of that tree, and the new application database is the commit `C16Block` of an overlay that
satisfies the staged-store invariant (so `C16Chain` / recovery applies to processed blocks). -/
theorem C16_block_refines_fold (P : Params) (hTK : TreeKeyInj P.H) (a : App) (hctx : a.ctx = none)
    (hnd : NoDupKeys a.store) (hleaf : LeafInv P.H a.store a.leaves) (blk : C16Blk) :
    (C16specBlock (slookup a.store) blk = none →
      ∀ expected, C16processBlock P a blk expected = (a, none)) ∧
    ∀ m' evs, C16specBlock (slookup a.store) blk = some (m', evs) →
      ∃ a' root c, C16processBlock P a blk none = (a', some (root, evs)) ∧
        (∀ expected, C16processBlock P a blk expected =
          if expected.isSome && expected != some root then (a, none) else (a', some (root, evs))) ∧
        (∀ k, slookup a'.store k = m' k) ∧ a'.ctx = none ∧ NoDupKeys a'.store ∧
        LeafInv P.H a'.store a'.leaves ∧ root = P.smtRoot a'.leaves ∧
        a'.treeState = some (blk.height, root) ∧
        c.height = blk.height ∧ C12Inv (stOf a c) ∧ a' = C16Block P a c := by
  have hi : initStateMachine a blk.height = ({ a with ctx := some { height := blk.height } }, true) := by
    unfold initStateMachine; rw [hctx]
  have hrel0 : C16AppRel { a with ctx := some { height := blk.height } } { height := blk.height }
      (slookup a.store) :=
    ⟨rfl, C12_inv_init a.store hnd, fun _ => rfl⟩
  obtain ⟨hx, hx2⟩ := execute_refines _ _ _ hrel0 blk rfl
  have hpers : clear (C16execute { a with ctx := some { height := blk.height } } blk).1 = a :=
    (execute_persist _ blk).trans (clear_of_ctx_none a hctx)
  constructor
  · intro hs expected
    rw [hs] at hx
    have hfail : (C16processBlock P a blk expected).2 = none := by
      unfold C16processBlock
      simp only [hi, Bool.not_true, Bool.false_eq_true, if_false]
      simp only [Option.map_none] at hx
      rw [hx]
    exact Prod.ext (C16_failed_block_no_trace P a hctx blk expected hfail) hfail
  · intro m' evs hs
    rw [hs] at hx
    obtain ⟨c, hR, hh⟩ := hx2 _ hs
    have hxe := app_eq_of_clear _ _ _ hpers hR.ctx
    have hinv : C12Inv (stOf a c) := by
      have := hR.inv; rw [hxe] at this; exact this
    have hmap : ∀ k, eff (stOf a c) k = m' k := by
      have := hR.map; rw [hxe] at this; exact this
    have hc : commit P { a with ctx := some c } none false =
        ((commit P { a with ctx := some c } none false).1,
         some (P.smtRoot (applyLeaves P.H a.leaves (batchOfCache c.cache)))) := rfl
    obtain ⟨h1, h2, _, h4, h5, _⟩ := C16_state_root_is_root_of_state P { a with ctx := some c } c rfl
      hinv hleaf hTK none _ _ hc
    have hca : clear { a with ctx := some c } = a := clear_of_ctx_none a hctx
    refine ⟨C16Block P a c, P.smtRoot (applyLeaves P.H a.leaves (batchOfCache c.cache)), c,
      ?_, ?_, ?_, rfl, ?_, h2, ?_, ?_, hh, hinv, rfl⟩
    · unfold C16processBlock
      simp only [hi, Bool.not_true, Bool.false_eq_true, if_false]
      simp only [Option.map_some] at hx
      rw [hx, hxe]
      rfl
    · intro expected
      unfold C16processBlock
      simp only [hi, Bool.not_true, Bool.false_eq_true, if_false]
      simp only [Option.map_some] at hx
      rw [hx, hxe]
      dsimp only
      by_cases hcond : (expected.isSome &&
          expected != some (P.smtRoot (applyLeaves P.H a.leaves (batchOfCache c.cache)))) = true
      · rw [if_pos hcond]
        have : commit P { a with ctx := some c } expected false = ({ a with ctx := some c }, none) := by
          simp only [Exec.commit, hcond, if_true]
        rw [this, hca]; rfl
      · rw [if_neg hcond]
        have : commit P { a with ctx := some c } expected false =
            commit P { a with ctx := some c } none false := by
          simp only [Exec.commit, hcond, Bool.false_eq_true, if_false, Option.isSome_none, Bool.false_and]
        rw [this]; rfl
    · intro k; exact (h1 k).trans (hmap k)
    · exact nodup_applyStore _ _ hnd
    · exact h4
    · have : (C16Block P a c).treeState =
          (commit P { a with ctx := some c } none false).1.treeState := rfl
      rw [this, h5, hh]

/-! ### sequences of blocks; the root is a function of the final map -/

/-- an application database between blocks: no open context, unique keys, the tree holds the image
of the state -/
structure C16NodeOk (P : Params) (a : App) : Prop where
  ctx : a.ctx = none
  nodup : NoDupKeys a.store
  leaf : LeafInv P.H a.store a.leaves

/-- the engine processes blocks one after the other; the roots returned by the commits -/
def C16processChain (P : Params) (a : App) : List C16Blk → App × Option (List Bytes)
  | [] => (a, some [])
  | b :: r =>
    let x := C16processBlock P a b none
    match x.2 with
    | none => (x.1, none)
    | some re =>
      let y := C16processChain P x.1 r
      (y.1, y.2.map (re.1 :: ·))

/-- the blocks folded over the map -/
def C16specChain (m : C16Map) : List C16Blk → Option C16Map
  | [] => some m
  | b :: r =>
    match C16specBlock m b with
    | none => none
    | some t => C16specChain t.1 r

/-- **A sequence of blocks refines the fold**: it is accepted exactly when the fold over the initial
state succeeds; then the stored state is the folded map, the application is again between blocks,
and the last root returned is the root of the tree that holds the image of that state. -/
theorem C16_chain_refines_fold (P : Params) (hTK : TreeKeyInj P.H) (blks : List C16Blk) :
    ∀ (a : App), C16NodeOk P a →
      (C16specChain (slookup a.store) blks = none → (C16processChain P a blks).2 = none) ∧
      ∀ m', C16specChain (slookup a.store) blks = some m' →
        ∃ a' roots, C16processChain P a blks = (a', some roots) ∧ roots.length = blks.length ∧
          (∀ k, slookup a'.store k = m' k) ∧ C16NodeOk P a' ∧
          ∀ r, roots.getLast? = some r → r = P.smtRoot a'.leaves := by
  induction blks with
  | nil =>
    intro a hok
    refine ⟨fun h => by simp [C16specChain] at h, ?_⟩
    intro m' hm
    simp only [C16specChain, Option.some.injEq] at hm
    subst hm
    exact ⟨a, [], rfl, rfl, fun _ => rfl, hok, fun r hr => by simp at hr⟩
  | cons b rest ih =>
    intro a hok
    obtain ⟨hnone, hsome⟩ := C16_block_refines_fold P hTK a hok.ctx hok.nodup hok.leaf b
    cases hs : C16specBlock (slookup a.store) b with
    | none =>
      refine ⟨fun _ => ?_, fun m' hm => by simp [C16specChain, hs] at hm⟩
      simp only [C16processChain, hnone hs none]
    | some t =>
      obtain ⟨a1, root, c, hp, _, hmap, hctx1, hnd1, hleaf1, hroot, _⟩ := hsome t.1 t.2 hs
      have hok1 : C16NodeOk P a1 := ⟨hctx1, hnd1, hleaf1⟩
      have hfun : slookup a1.store = t.1 := funext hmap
      obtain ⟨ih1, ih2⟩ := ih a1 hok1
      rw [hfun] at ih1 ih2
      constructor
      · intro hm
        simp only [C16specChain, hs] at hm
        simp only [C16processChain, hp, ih1 hm, Option.map_none]
      · intro m' hm
        simp only [C16specChain, hs] at hm
        obtain ⟨a', roots, hpc, hlen, hmap', hok', hlast⟩ := ih2 m' hm
        refine ⟨a', root :: roots, ?_, by simp [hlen], hmap', hok', ?_⟩
        · simp only [C16processChain, hp, hpc, Option.map_some]
        · intro r hr
          cases roots with
          | nil =>
            simp only [List.getLast?_singleton, Option.some.injEq] at hr
            have : rest = [] := by cases rest <;> simp_all
            subst this
            simp only [C16processChain, Prod.mk.injEq] at hpc
            rw [← hr, hroot, hpc.1]
          | cons r0 rs =>
            rw [List.getLast?_cons_cons] at hr
            exact hlast r hr

/-- **The committed root is a function of the final key → value map only.**  Two nodes — whatever
their databases hold and however differently they are laid out — process two sequences of blocks,
of possibly different lengths, with different transactions, hooks, orders of writes, overwritten
and deleted intermediate values, failed transactions in between.  If the two folds end in the same
map, both sequences are accepted, the two states and state trees are the same maps, and the last
roots returned are equal. -/
theorem C16_chain_root_depends_on_final_map_only (P : Params) (hTK : TreeKeyInj P.H)
    (hExt : C16SmtRootExt P.smtRoot) (a b : App) (ha : C16NodeOk P a) (hb : C16NodeOk P b)
    (blksA blksB : List C16Blk) (mA mB : C16Map)
    (hA : C16specChain (slookup a.store) blksA = some mA)
    (hB : C16specChain (slookup b.store) blksB = some mB) (heq : ∀ k, mA k = mB k) :
    ∃ a' b' rootsA rootsB, C16processChain P a blksA = (a', some rootsA) ∧
      C16processChain P b blksB = (b', some rootsB) ∧ C16SameMaps a' b' ∧
      C16NodeOk P a' ∧ C16NodeOk P b' ∧ P.smtRoot a'.leaves = P.smtRoot b'.leaves ∧
      ∀ ra rb, rootsA.getLast? = some ra → rootsB.getLast? = some rb → ra = rb := by
  obtain ⟨a', rootsA, hpa, _, hma, hoka, hla⟩ := (C16_chain_refines_fold P hTK blksA a ha).2 mA hA
  obtain ⟨b', rootsB, hpb, _, hmb, hokb, hlb⟩ := (C16_chain_refines_fold P hTK blksB b hb).2 mB hB
  have hst : ∀ k, slookup a'.store k = slookup b'.store k := fun k => by rw [hma, hmb, heq]
  have hlv := leafInv_unique hoka.leaf hokb.leaf hst
  have hr : P.smtRoot a'.leaves = P.smtRoot b'.leaves := hExt _ _ hlv
  refine ⟨a', b', rootsA, rootsB, hpa, hpb, ⟨hst, hlv⟩, hoka, hokb, hr, ?_⟩
  intro ra rb h1 h2
  rw [hla ra h1, hlb rb h2, hr]

/-- **Two nodes agree.**  Two nodes whose states and trees are the same maps (reached by whatever
histories) process the same block with the same expected root: both accept or both reject, they
return the same root and the same events, and their states and trees are again the same maps, so
the agreement carries over to the next block. -/
theorem C16_two_nodes_deterministic (P : Params) (hTK : TreeKeyInj P.H)
    (hExt : C16SmtRootExt P.smtRoot) (a b : App) (ha : C16NodeOk P a) (hb : C16NodeOk P b)
    (hsame : C16SameMaps a b) (blk : C16Blk) (expected : Option Bytes) :
    (C16processBlock P a blk expected).2 = (C16processBlock P b blk expected).2 ∧
      C16SameMaps (C16processBlock P a blk expected).1 (C16processBlock P b blk expected).1 ∧
      C16NodeOk P (C16processBlock P a blk expected).1 ∧
      C16NodeOk P (C16processBlock P b blk expected).1 := by
  obtain ⟨han, has⟩ := C16_block_refines_fold P hTK a ha.ctx ha.nodup ha.leaf blk
  obtain ⟨hbn, hbs⟩ := C16_block_refines_fold P hTK b hb.ctx hb.nodup hb.leaf blk
  have hfun : slookup a.store = slookup b.store := funext hsame.store
  rw [hfun] at han has
  cases hs : C16specBlock (slookup b.store) blk with
  | none =>
    rw [han hs expected, hbn hs expected]
    exact ⟨rfl, hsame, ha, hb⟩
  | some t =>
    obtain ⟨a', ra, _, _, hpa, hma, hca, hnda, hla, hra, _⟩ := has t.1 t.2 hs
    obtain ⟨b', rb, _, _, hpb, hmb, hcb, hndb, hlb, hrb, _⟩ := hbs t.1 t.2 hs
    have hst : ∀ k, slookup a'.store k = slookup b'.store k := fun k => by rw [hma, hmb]
    have hlv := leafInv_unique hla hlb hst
    have hr : ra = rb := by rw [hra, hrb]; exact hExt _ _ hlv
    subst hr
    rw [hpa expected, hpb expected]
    split
    · exact ⟨rfl, hsame, ha, hb⟩
    · exact ⟨rfl, ⟨hst, hlv⟩, ⟨hca, hnda, hla⟩, ⟨hcb, hndb, hlb⟩⟩

/-! ### the state part of the fold: no height, no logger -/

/-- the state and result of a transaction on a map: it looks neither at the height nor at events -/
def C16mapTx (m : C16Map) (tx : Tx) : C16Map × Result :=
  let p := C16mapRun (m, []) tx.pre
  if !p.2 then (p.1.1, .invalid)
  else if !tx.cmdKnown then (p.1.1, .invalid)
  else
    let c := C16mapRun (p.1.1, []) tx.cmd
    let q := C16mapRun (if c.2 then c.1.1 else p.1.1, []) tx.post
    if !q.2 then (q.1.1, .invalid) else (q.1.1, if c.2 then .ok else .fail)

def C16mapTxs (m : C16Map) : List Tx → Option C16Map
  | [] => some m
  | tx :: r =>
    if !C16specVerify m tx then none
    else if (C16mapTx m tx).2 = .invalid then none
    else C16mapTxs (C16mapTx m tx).1 r

def C16mapBlock (m : C16Map) (blk : C16Blk) : Option C16Map :=
  let b := C16mapRun (m, []) blk.before
  if !b.2 then none
  else
    match C16mapTxs b.1.1 blk.txs with
    | none => none
    | some m2 =>
      let f := C16mapRun (m2, []) blk.after
      if !f.2 then none else some f.1.1

private theorem specTx_state (m : C16Map) (h : Nat) (tx : Tx) :
    (C16specTx m h tx).1 = (C16mapTx m tx).1 ∧ (C16specTx m h tx).2.1 = (C16mapTx m tx).2 := by
  unfold C16specTx C16mapTx
  dsimp only
  split
  · exact ⟨rfl, rfl⟩
  · split
    · exact ⟨rfl, rfl⟩
    · cases hc : (C16mapRun ((C16mapRun (m, []) tx.pre).1.1, []) tx.cmd).2 <;>
        simp only [if_true, Bool.false_eq_true, if_false] <;> split <;> exact ⟨rfl, rfl⟩

private theorem specTxs_state (h : Nat) (l : List Tx) : ∀ m : C16Map,
    (C16specTxs m h l).map (·.1) = C16mapTxs m l := by
  induction l with
  | nil => intro m; rfl
  | cons tx r ih =>
    intro m
    obtain ⟨h1, h2⟩ := specTx_state m h tx
    simp only [C16specTxs, C16mapTxs, h2]
    split
    · rfl
    · split
      · rfl
      · rw [Option.map_map, ← ih, h1]
        rfl

/-- **The state part of the specification of a block does not depend on the height or on events**:
it is `C16mapBlock`, a function of the map before the block, the hooks and the transactions. -/
theorem C16_spec_state_part (m : C16Map) (blk : C16Blk) :
    (C16specBlock m blk).map (·.1) = C16mapBlock m blk := by
  unfold C16specBlock C16mapBlock
  dsimp only
  rw [← specTxs_state blk.height]
  split
  · rfl
  · cases C16specTxs (C16mapRun (m, []) blk.before).1.1 blk.height blk.txs with
    | none => rfl
    | some t =>
      simp only [Option.map_some]
      split <;> rfl

private theorem specChain_cons (m : C16Map) (b : C16Blk) (r : List C16Blk) :
    C16specChain m (b :: r) = (C16mapBlock m b).bind (fun m1 => C16specChain m1 r) := by
  rw [← C16_spec_state_part]
  simp only [C16specChain]
  cases C16specBlock m b <;> rfl

private theorem mapTxs_append (l1 l2 : List Tx) : ∀ m : C16Map,
    C16mapTxs m (l1 ++ l2) = (C16mapTxs m l1).bind (fun m1 => C16mapTxs m1 l2) := by
  induction l1 with
  | nil => intro m; rfl
  | cons tx r ih =>
    intro m
    simp only [List.cons_append, C16mapTxs]
    split
    · rfl
    · split
      · rfl
      · exact ih _

/-- **Batching does not matter** (specification level): the transactions `l1 ++ l2` in one block,
or `l1` in one block and `l2` in the next (at any heights, modules without block hooks), fold to the
same state. -/
theorem C16_spec_batching (m : C16Map) (h h1 h2 : Nat) (l1 l2 : List Tx) :
    C16specChain m [{ height := h, txs := l1 ++ l2 }] =
      C16specChain m [{ height := h1, txs := l1 }, { height := h2, txs := l2 }] := by
  simp only [specChain_cons]
  simp only [C16specChain, C16mapBlock, C16mapRun, Bool.not_true, Bool.false_eq_true,
    if_false, mapTxs_append]
  cases C16mapTxs m l1 with
  | none => rfl
  | some m1 =>
    simp only [Option.bind_some]

/-- **A failed transaction of a module without command hooks is a no-op on the state**
(specification level): it can be dropped from a block, wherever it stands, without changing the
folded state — provided the block with it is not rejected (it verifies where it stands). -/
theorem C16_spec_failed_tx_dropped (m : C16Map) (l1 l2 : List Tx) (tx : Tx) (hpre : tx.pre = [])
    (hpost : tx.post = []) (hk : tx.cmdKnown = true)
    (hfail : ∀ m1, C16mapTxs m l1 = some m1 →
      C16specVerify m1 tx = true ∧ (C16mapRun (m1, []) tx.cmd).2 = false) :
    C16mapTxs m (l1 ++ tx :: l2) = C16mapTxs m (l1 ++ l2) := by
  rw [mapTxs_append, mapTxs_append]
  cases h1 : C16mapTxs m l1 with
  | none => rfl
  | some m1 =>
    obtain ⟨hv, hf⟩ := hfail m1 h1
    have htx : C16mapTx m1 tx = (m1, .fail) := by
      simp [C16mapTx, hpre, hpost, hk, C16mapRun, hf]
    simp only [Option.bind_some, C16mapTxs, hv, htx]
    simp

/-- the command that performs a list of store writes -/
def C16writeItems : List Write → List Item
  | [] => []
  | (k, some v) :: r => .set k v :: C16writeItems r
  | (k, none) :: r => .del k :: C16writeItems r

/-- the last write to `k` in a list of writes -/
def C16lastWrite (k : Bytes) : List Write → Option (Option Bytes)
  | [] => none
  | (k', o) :: r =>
    match C16lastWrite k r with
    | some x => some x
    | none => if k' = k then some o else none

/-- **Last write wins** (specification level): after a command made of any list of sets and deletes
every key holds the value of the last write to it (absent when that was a delete) or its old value
when the command never wrote it.  Hence the resulting state — and by
`C16_chain_root_depends_on_final_map_only` the root — does not depend on the order of writes to
different keys, nor on values that are overwritten or deleted later. -/
theorem C16_spec_last_write_wins (ws : List Write) : ∀ (m : C16Map) (stk : List C16Map),
    (C16mapRun (m, stk) (C16writeItems ws)).2 = true ∧
    (C16mapRun (m, stk) (C16writeItems ws)).1.2 = stk ∧
    ∀ k, (C16mapRun (m, stk) (C16writeItems ws)).1.1 k =
      match C16lastWrite k ws with
      | some o => o
      | none => m k := by
  induction ws with
  | nil => intro m stk; exact ⟨rfl, rfl, fun _ => rfl⟩
  | cons w r ih =>
    intro m stk
    obtain ⟨k0, o⟩ := w
    cases o with
    | some v =>
      obtain ⟨h1, h2, h3⟩ := ih (fun k' => if k0 = k' then some v else m k') stk
      simp only [C16writeItems, C16mapRun, C16mapItem, if_true]
      refine ⟨h1, h2, fun k => ?_⟩
      rw [h3 k]
      simp only [C16lastWrite]
      cases C16lastWrite k r with
      | some x => rfl
      | none => by_cases hk : k0 = k <;> simp [hk]
    | none =>
      obtain ⟨h1, h2, h3⟩ := ih (fun k' => if k0 = k' then none else m k') stk
      simp only [C16writeItems, C16mapRun, C16mapItem, if_true]
      refine ⟨h1, h2, fun k => ?_⟩
      rw [h3 k]
      simp only [C16lastWrite]
      cases C16lastWrite k r with
      | some x => rfl
      | none => by_cases hk : k0 = k <;> simp [hk]

/-! ### the independence claims, for the roots really committed -/

/-- **Same fold, same root.**  Two nodes holding the same maps process two different sequences of
blocks.  If the specification folds of the two sequences agree (as `C16_spec_batching`,
`C16_spec_failed_tx_dropped_block`, `C16_spec_write_order_block` establish for re-batched blocks,
dropped failed transactions, and re-ordered / overwritten writes), then either both sequences are
rejected, or both are accepted, end in the same state and tree, and return the same last root. -/
theorem C16_same_fold_same_root (P : Params) (hTK : TreeKeyInj P.H) (hExt : C16SmtRootExt P.smtRoot)
    (a b : App) (ha : C16NodeOk P a) (hb : C16NodeOk P b) (hsame : C16SameMaps a b)
    (blksA blksB : List C16Blk)
    (hfold : C16specChain (slookup a.store) blksA = C16specChain (slookup a.store) blksB) :
    ((C16processChain P a blksA).2 = none ∧ (C16processChain P b blksB).2 = none) ∨
    ∃ a' b' rootsA rootsB, C16processChain P a blksA = (a', some rootsA) ∧
      C16processChain P b blksB = (b', some rootsB) ∧ C16SameMaps a' b' ∧
      C16NodeOk P a' ∧ C16NodeOk P b' ∧
      ∀ ra rb, rootsA.getLast? = some ra → rootsB.getLast? = some rb → ra = rb := by
  have hfun : slookup a.store = slookup b.store := funext hsame.store
  cases hs : C16specChain (slookup a.store) blksA with
  | none =>
    left
    refine ⟨(C16_chain_refines_fold P hTK blksA a ha).1 hs, (C16_chain_refines_fold P hTK blksB b hb).1 ?_⟩
    rw [← hfun, ← hfold, hs]
  | some m =>
    right
    obtain ⟨a', b', ra, rb, h1, h2, h3, h4, h5, _, h7⟩ :=
      C16_chain_root_depends_on_final_map_only P hTK hExt a b ha hb blksA blksB m m hs
        (by rw [← hfun, ← hfold, hs]) (fun _ => rfl)
    exact ⟨a', b', ra, rb, h1, h2, h3, h4, h5, h7⟩

private theorem specChain_congr_txs (m : C16Map) (hA hB : Nat) (bef aft : List Item) (txsA txsB : List Tx)
    (rest : List C16Blk)
    (h : C16mapTxs (C16mapRun (m, []) bef).1.1 txsA = C16mapTxs (C16mapRun (m, []) bef).1.1 txsB) :
    C16specChain m ({ height := hA, before := bef, txs := txsA, after := aft } :: rest) =
      C16specChain m ({ height := hB, before := bef, txs := txsB, after := aft } :: rest) := by
  rw [specChain_cons, specChain_cons]
  simp only [C16mapBlock, h]

/-- dropping a failed transaction of a module without command hooks, block level -/
theorem C16_spec_failed_tx_dropped_block (m : C16Map) (h : Nat) (bef aft : List Item) (l1 l2 : List Tx)
    (tx : Tx) (rest : List C16Blk) (hpre : tx.pre = []) (hpost : tx.post = []) (hk : tx.cmdKnown = true)
    (hfail : ∀ m1, C16mapTxs (C16mapRun (m, []) bef).1.1 l1 = some m1 →
      C16specVerify m1 tx = true ∧ (C16mapRun (m1, []) tx.cmd).2 = false) :
    C16specChain m ({ height := h, before := bef, txs := l1 ++ tx :: l2, after := aft } :: rest) =
      C16specChain m ({ height := h, before := bef, txs := l1 ++ l2, after := aft } :: rest) :=
  specChain_congr_txs m h h bef aft _ _ rest
    (C16_spec_failed_tx_dropped _ l1 l2 tx hpre hpost hk hfail)

private theorem mapRun_writeItems_eq (ws1 ws2 : List Write)
    (h : ∀ k, C16lastWrite k ws1 = C16lastWrite k ws2) (x : C16MS) :
    C16mapRun x (C16writeItems ws1) = C16mapRun x (C16writeItems ws2) := by
  obtain ⟨a1, b1, c1⟩ := C16_spec_last_write_wins ws1 x.1 x.2
  obtain ⟨a2, b2, c2⟩ := C16_spec_last_write_wins ws2 x.1 x.2
  refine Prod.ext (Prod.ext (funext fun k => ?_) (b1.trans b2.symm)) (a1.trans a2.symm)
  rw [c1 k, c2 k, h k]

/-- re-ordering writes to different keys, dropping writes that are overwritten or deleted later,
in the command of any transaction of a block — block level -/
theorem C16_spec_write_order_block (m : C16Map) (h : Nat) (bef aft : List Item) (l1 l2 : List Tx)
    (tx : Tx) (ws1 ws2 : List Write) (rest : List C16Blk)
    (hw : ∀ k, C16lastWrite k ws1 = C16lastWrite k ws2) :
    C16specChain m ({ height := h, before := bef, after := aft,
                      txs := l1 ++ ({ tx with cmd := C16writeItems ws1 } : Tx) :: l2 } :: rest) =
      C16specChain m ({ height := h, before := bef, after := aft,
                        txs := l1 ++ ({ tx with cmd := C16writeItems ws2 } : Tx) :: l2 } :: rest) := by
  apply specChain_congr_txs
  rw [mapTxs_append, mapTxs_append]
  have htx : ∀ m1, C16mapTx m1 { tx with cmd := C16writeItems ws1 } =
      C16mapTx m1 { tx with cmd := C16writeItems ws2 } := by
    intro m1
    simp only [C16mapTx, mapRun_writeItems_eq ws1 ws2 hw]
  have hv : ∀ m1, C16specVerify m1 { tx with cmd := C16writeItems ws1 } =
      C16specVerify m1 { tx with cmd := C16writeItems ws2 } := fun _ => rfl
  simp only [C16mapTxs, htx, hv]

/-! ### restart recovery applies to processed blocks -/

/-- the blocks carry the heights `h0 + 1, h0 + 2, …` -/
def C16Consecutive (h0 : Nat) : List C16Blk → Prop
  | [] => True
  | b :: r => b.height = h0 + 1 ∧ C16Consecutive (h0 + 1) r

private theorem chain_trans {P : Params} {a0 a1 a2 : App} {h0 h1 h2 : Nat}
    (c1 : C16Chain P a0 h0 a1 h1) (c2 : C16Chain P a1 h1 a2 h2) : C16Chain P a0 h0 a2 h2 := by
  induction c2 with
  | base => exact c1
  | block c _ hh hinv ih => exact C16Chain.block c ih hh hinv

private theorem processChain_chain (P : Params) (hTK : TreeKeyInj P.H) (blks : List C16Blk) :
    ∀ (a : App) (h0 : Nat), C16NodeOk P a → C16Consecutive h0 blks →
      ∀ a' roots, C16processChain P a blks = (a', some roots) →
        C16Chain P a h0 a' (h0 + blks.length) := by
  induction blks with
  | nil =>
    intro a h0 _ _ a' roots hp
    simp only [C16processChain, Prod.mk.injEq] at hp
    rw [← hp.1]
    exact C16Chain.base
  | cons b rest ih =>
    intro a h0 hok hcons a' roots hp
    obtain ⟨hnone, hsome⟩ := C16_block_refines_fold P hTK a hok.ctx hok.nodup hok.leaf b
    cases hs : C16specBlock (slookup a.store) b with
    | none =>
      simp only [C16processChain, hnone hs none] at hp
      cases hp
    | some t =>
      obtain ⟨a1, root, c, hpb, _, _, hctx1, hnd1, hleaf1, _, _, hh, hinv, ha1⟩ := hsome t.1 t.2 hs
      simp only [C16processChain, hpb] at hp
      cases hr : (C16processChain P a1 rest).2 with
      | none => rw [hr] at hp; simp at hp
      | some rs =>
        have hp' : C16processChain P a1 rest = (a', some rs) := by
          rw [hr] at hp
          simp only [Option.map_some, Prod.mk.injEq] at hp
          exact Prod.ext hp.1 hr
        have c2 := ih a1 (h0 + 1) ⟨hctx1, hnd1, hleaf1⟩ hcons.2 a' rs hp'
        have c1 : C16Chain P a h0 a1 (h0 + 1) := by
          rw [ha1]
          exact C16Chain.block c C16Chain.base (by rw [hh, hcons.1]) hinv
        have hl : h0 + (b :: rest).length = h0 + 1 + rest.length := by simp; omega
        rw [hl]
        exact chain_trans c1 c2

/-- **Restart recovery after really processed blocks.**  The engine's tip is the application `a0`
at height `h0`; the application then processes any blocks `h0+1 … h` (any hooks, any transactions —
successful, failed — the blocks being accepted) and the process stops before the engine has stored
them.  `Init` with the engine's tip succeeds and the state and the tree are again the maps of the
engine's tip.  (`C16_init_recovers_to_engine_tip` assumed an abstract chain of committed overlays;
this theorem discharges that assumption for everything `C16processBlock` can produce.) -/
theorem C16_processed_blocks_recoverable (P : Params) (hTK : TreeKeyInj P.H)
    (hExt : C16SmtRootExt P.smtRoot) (a0 : App) (h0 : Nat) (hok : C16NodeOk P a0)
    (hts0 : a0.treeState.getD (0, P.smtRoot []) = (h0, P.smtRoot a0.leaves))
    (blks : List C16Blk) (hcons : C16Consecutive h0 blks) (hb : h0 + blks.length < 4294967296)
    (a : App) (roots : List Bytes) (hp : C16processChain P a0 blks = (a, some roots)) :
    ∃ a', init P a h0 (P.smtRoot a0.leaves) = (a', true) ∧ C16SameMaps a' a0 ∧
      (0 < blks.length → a'.treeState = some (h0, P.smtRoot a0.leaves)) := by
  have hc := processChain_chain P hTK blks a0 h0 hok hcons a roots hp
  obtain ⟨a', h1, h2, h3⟩ := C16_init_recovers_to_engine_tip P hTK hExt a0 h0 a (h0 + blks.length) hc
    hok.leaf hts0 hb
  exact ⟨a', h1, h2, fun hpos => h3 (by omega)⟩

/-! ### deleting a block; a crash point that is not recovered -/

/-- `Executer.deleteBlock` (pkg/consensus/execute.go) as far as the application is concerned:
`InitStateMachine` with the header of the block to delete, `Revert`, and the deferred `Clear` -/
def C16revertBlock (P : Params) (a : App) (height : Nat) (expected : Option Bytes) : App × Option Bytes :=
  let i := initStateMachine a height
  if !i.2 then (a, none)
  else
    let r := revert P i.1 expected
    (clear r.1, r.2)

private theorem revert_nodup (P : Params) (a : App) (e : Option Bytes) (h : NoDupKeys a.store) :
    NoDupKeys (revert P a e).1.store := by
  unfold Exec.revert revertAt
  split
  · exact h
  · split
    · exact h
    · dsimp only
      split
      · exact h
      · exact nodup_applyStore _ _ h

/-- **Deleting a processed block restores the previous state and root.**  For every accepted block
(any hooks and transactions), the engine's delete sequence succeeds, returns the root the tree had
before the block, and leaves state and tree holding the maps they held before the block, the
application again between blocks, with the recorded height decreased by one. -/
theorem C16_process_then_revert_restores (P : Params) (hTK : TreeKeyInj P.H)
    (hExt : C16SmtRootExt P.smtRoot) (a : App) (hok : C16NodeOk P a) (blk : C16Blk)
    (a' : App) (root : Bytes) (evs : List Event)
    (hp : C16processBlock P a blk none = (a', some (root, evs))) :
    ∃ a'', C16revertBlock P a' blk.height none = (a'', some (P.smtRoot a.leaves)) ∧
      C16SameMaps a'' a ∧ C16NodeOk P a'' ∧
      a''.treeState = some (pred32 blk.height, P.smtRoot a.leaves) := by
  obtain ⟨hnone, hsome⟩ := C16_block_refines_fold P hTK a hok.ctx hok.nodup hok.leaf blk
  cases hs : C16specBlock (slookup a.store) blk with
  | none => rw [hnone hs none] at hp; cases hp
  | some t =>
    obtain ⟨a1, root1, c, hpb, _, _, hctx1, hnd1, _, _, _, hh, hinv, ha1⟩ := hsome t.1 t.2 hs
    rw [hpb] at hp
    simp only [Prod.mk.injEq] at hp
    have ha' : a' = C16Block P a c := by rw [← hp.1, ha1]
    have hc : commit P { a with ctx := some c } none false =
        ((commit P { a with ctx := some c } none false).1,
         some (P.smtRoot (applyLeaves P.H a.leaves (batchOfCache c.cache)))) := rfl
    obtain ⟨a2, root2, hrev, hst, hlv, hleaf2, hr2, hts2, hroot⟩ :=
      C16_revert_restores_state_and_root P { a with ctx := some c } c rfl hinv hok.leaf hTK none _ _ hc
        { height := blk.height } hh.symm
    have hi : initStateMachine a' blk.height = ({ a' with ctx := some { height := blk.height } }, true) := by
      unfold initStateMachine
      rw [ha']
      rfl
    have hX : ({ a' with ctx := some { height := blk.height } } : App) =
        { (commit P { a with ctx := some c } none false).1 with ctx := some { height := blk.height } } := by
      rw [ha']; rfl
    have hnd2 : NoDupKeys a2.store := by
      have := revert_nodup P
        { (commit P { a with ctx := some c } none false).1 with ctx := some { height := blk.height } } none
        (by rw [← hX, ha', ← ha1]; exact hnd1)
      rw [hrev] at this
      exact this
    refine ⟨clear a2, ?_, ⟨hst, hlv⟩, ⟨rfl, hnd2, hleaf2⟩, ?_⟩
    · unfold C16revertBlock
      simp only [hi, Bool.not_true, Bool.false_eq_true, if_false]
      rw [hX, hrev, hroot hExt]
    · show a2.treeState = _
      rw [hts2, hroot hExt, hh]

/-- **A crash point that restart recovery does not cover** (necessity of "application ahead").
`deleteBlock` applies `Revert` to the application database *before* the engine removes the block
from its own database.  If the process stops in between, the engine's tip is still the deleted
block `(blk.height, root)` while the application is one block behind; `Init` then answers with an
error on every restart (it only rolls back, never forward). -/
theorem C16_crash_after_revert_not_recovered (P : Params) (hTK : TreeKeyInj P.H)
    (hExt : C16SmtRootExt P.smtRoot) (a : App) (hok : C16NodeOk P a) (blk : C16Blk)
    (hpos : 0 < blk.height) (hb : blk.height < 4294967296)
    (a' : App) (root : Bytes) (evs : List Event)
    (hp : C16processBlock P a blk none = (a', some (root, evs))) :
    (init P (C16revertBlock P a' blk.height none).1 blk.height root).2 = false := by
  obtain ⟨a'', hrev, _, _, hts⟩ := C16_process_then_revert_restores P hTK hExt a hok blk a' root evs hp
  rw [hrev]
  unfold init
  simp only [hts, Option.getD_some]
  have : pred32 blk.height < blk.height := by unfold pred32; omega
  rw [if_pos this]

/-! ### non-vacuity: parameters that satisfy the assumptions, and concrete runs -/

/-- the map held by a tree as a list with unique keys -/
private def canon : Leaves → Leaves
  | [] => []
  | (k, v) :: r => sset (canon r) k v

private theorem canon_spec (l : Leaves) : NoDupKeys (canon l) ∧ ∀ k, slookup (canon l) k = slookup l k := by
  induction l with
  | nil => exact ⟨by simp [NoDupKeys, canon], fun _ => rfl⟩
  | cons e r ih =>
    obtain ⟨k0, v0⟩ := e
    refine ⟨nodup_sset _ _ _ ih.1, fun k => ?_⟩
    simp only [canon, slookup_sset, slookup, ih.2 k]

/-- identity "hash", and a root that lists the sorted content of the map held by the tree -/
private def exP : Params :=
  { H := fun b => b
    smtRoot := fun l => (sortDir (canon l) false).foldr (fun kv acc => kv.1 ++ kv.2 ++ acc) [] }

private theorem exTK : TreeKeyInj exP.H := by
  intro a b h
  simpa [treeKey, exP] using h

/-- `exP` satisfies the assumption on the sparse Merkle root (it depends on the map only) -/
private theorem exExt : C16SmtRootExt exP.smtRoot := by
  intro l1 l2 h
  have e : sortDir (canon l1) false = sortDir (canon l2) false := by
    apply sortDir_eq_of_mem_iff _ _ (canon_spec l1).1 (canon_spec l2).1
    intro e
    obtain ⟨k, v⟩ := e
    rw [← slookup_iff_mem _ (canon_spec l1).1, ← slookup_iff_mem _ (canon_spec l2).1,
      (canon_spec l1).2, (canon_spec l2).2, h]
  simp only [exP, e]

private def exK1 : Bytes := [0, 0, 0, 1, 0, 0, 1]
private def exK2 : Bytes := [0, 0, 0, 1, 0, 0, 2]
private def exFee : Bytes := [0, 0, 0, 2, 0, 0]
private def exNonce : Bytes := [0, 0, 0, 3, 0, 0]
private def exStore : Store := [(exK1, [10]), (exK2, [20]), (exFee, [100])]
private def exSt : St := { store := exStore }
private theorem exInv : C12Inv exSt := C12_inv_init exStore (by unfold NoDupKeys exStore; decide)

/-- snapshots nested two deep, a restore without snapshot, reads in between -/
private def exNested : List Item :=
  [.set exK1 [1], .push, .set exK1 [2], .push, .del exK1, .del exK2, .pop, .get exK1, .pop, .pop, .get exK1]

-- hypothesis of C16_section_refines_spec, and both sides of its conclusion on this script
example : C16Rel { st := exSt, lg := newLogger 7 } (eff exSt, []) :=
  C16_rel_start exSt _ _ exInv (fun _ => rfl) rfl
example : (runSection { st := exSt, lg := newLogger 7 } exNested).2 = true ∧
    eff (runSection { st := exSt, lg := newLogger 7 } exNested).1.st exK1 = some [1] ∧
    eff (runSection { st := exSt, lg := newLogger 7 } exNested).1.st exK2 = some [20] := by decide
example : (C16mapRun (eff exSt, []) exNested).2 = true ∧
    (C16mapRun (eff exSt, []) exNested).1.1 exK1 = some [1] ∧
    (C16mapRun (eff exSt, []) exNested).1.1 exK2 = some [20] := by decide
example : (C16logRun (eff exSt, []) (newLogger 7) exNested).out.map (fun e => (e.name, e.data)) =
    [("read", [2]), ("read", [1])] := by decide

/-- a transaction with a fee hook before and a nonce hook after a command that writes, logs both
kinds of events, nests a snapshot and then fails -/
private def exTxFail : Tx :=
  { pre := [.set exFee [99], .ev false 0 [7]]
    cmd := [.set exK1 [11], .del exK2, .ev false 1 [1], .ev true 0 [2], .push, .set exK2 [5], .pop, .fail]
    post := [.set exNonce [1], .ev true 0 [3]] }

-- hypothesis of C16_failed_transaction_exact …
example : (executeTransaction exSt 7 exTxFail).2.1 = .fail := by decide
-- … the state is the hooks' writes only, and the events are as stated
example : eff (executeTransaction exSt 7 exTxFail).1 exK1 = some [10] ∧
    eff (executeTransaction exSt 7 exTxFail).1 exK2 = some [20] ∧
    eff (executeTransaction exSt 7 exTxFail).1 exFee = some [99] ∧
    eff (executeTransaction exSt 7 exTxFail).1 exNonce = some [1] := by decide
example : (executeTransaction exSt 7 exTxFail).2.2.map (fun e => (e.name, e.data, e.index)) =
    [("rev", [7], 0), ("unr", [2], 1), ("unr", [3], 2), ("commandExecutionResult", [8, 0], 3)] := by decide
example : (C16specTx (eff exSt) 7 exTxFail).2 = (executeTransaction exSt 7 exTxFail).2 := by decide

private def exTxOk : Tx := { cmd := [.set exK1 [11], .del exK2, .set exK1 [12]] }
private def exTxOk2 : Tx := { cmd := [.set exK2 [21]] }

/-- a node between blocks -/
private def exApp : App :=
  { store := exStore, leaves := leavesOf exP.H exStore,
    treeState := some (3, exP.smtRoot (leavesOf exP.H exStore)) }

private theorem exOk : C16NodeOk exP exApp :=
  ⟨rfl, by unfold NoDupKeys exApp exStore; decide,
   leafInv_leavesOf exTK exStore (by unfold NoDupKeys exStore; decide)⟩

/-- the same maps laid out differently (another order in the database, shadowed leaves) -/
private def exApp' : App :=
  { store := exStore.reverse,
    leaves := leavesOf exP.H exStore.reverse,
    treeState := some (3, exP.smtRoot (leavesOf exP.H exStore)) }

private theorem exOk' : C16NodeOk exP exApp' :=
  ⟨rfl, by unfold NoDupKeys exApp' exStore; decide,
   leafInv_leavesOf exTK exStore.reverse (by unfold NoDupKeys exStore; decide)⟩

private theorem exSame : C16SameMaps exApp exApp' := by
  have hs : ∀ k, slookup exApp.store k = slookup exApp'.store k := by
    intro k
    have hnd : NoDupKeys exStore := by unfold NoDupKeys exStore; decide
    have hnd' : NoDupKeys exStore.reverse := by unfold NoDupKeys exStore; decide
    cases h : slookup exApp.store k with
    | some v =>
      have := (slookup_iff_mem exStore hnd k v).mp h
      exact ((slookup_iff_mem exStore.reverse hnd' k v).mpr (List.mem_reverse.mpr this)).symm
    | none =>
      cases h' : slookup exApp'.store k with
      | none => rfl
      | some v =>
        have := (slookup_iff_mem exStore.reverse hnd' k v).mp h'
        have := (slookup_iff_mem exStore hnd k v).mpr (List.mem_reverse.mp this)
        rw [show exApp.store = exStore from rfl, this] at h
        cases h
  exact ⟨hs, leafInv_unique exOk.leaf exOk'.leaf hs⟩

/-- a block with a failed transaction in the middle and block hooks -/
private def exBlk : C16Blk :=
  { height := 4, before := [.set exNonce [0]], txs := [exTxOk, exTxFail, exTxOk2], after := [.get exK1] }

-- the block is accepted (second part of C16_block_refines_fold) …
example : (C16processBlock exP exApp exBlk none).2.isSome = true := by decide
example : (C16specBlock (slookup exApp.store) exBlk).isSome = true := by decide
example : (C16specBlock (slookup exApp.store) exBlk).map (·.2) =
    (C16processBlock exP exApp exBlk none).2.map (·.2) := by decide
-- … the two nodes return the same root for it (C16_two_nodes_deterministic) …
example : (C16processBlock exP exApp exBlk none).2 = (C16processBlock exP exApp' exBlk none).2 := by decide
-- … a wrong expected root, a failing after-hook and an invalid transaction leave no trace
-- (hypothesis of C16_failed_block_no_trace, first part of C16_block_refines_fold)
example : (C16processBlock exP exApp exBlk (some [1, 2, 3])).2 = none := by decide
example : (C16processBlock exP exApp { exBlk with after := [.set exK1 [0], .fail] } none).2 = none := by decide
example : (C16specBlock (slookup exApp.store) { exBlk with after := [.set exK1 [0], .fail] }).isSome = false := by
  decide
example : (C16processBlock exP exApp { exBlk with txs := [exTxOk, { exTxOk2 with post := [.fail] }] } none).2 = none := by
  decide

-- C16_spec_batching / C16_same_fold_same_root: one block or two blocks, same last root
example : C16specChain (slookup exApp.store) [{ height := 4, txs := [exTxOk, exTxFail] ++ [exTxOk2] }] =
    C16specChain (slookup exApp.store) [{ height := 4, txs := [exTxOk, exTxFail] }, { height := 5, txs := [exTxOk2] }] :=
  C16_spec_batching _ 4 4 5 _ _
example : (C16processChain exP exApp [{ height := 4, txs := [exTxOk, exTxFail] ++ [exTxOk2] }]).2.map List.getLast? =
    (C16processChain exP exApp' [{ height := 4, txs := [exTxOk, exTxFail] }, { height := 5, txs := [exTxOk2] }]).2.map
      List.getLast? := by decide
example : (C16processChain exP exApp [{ height := 4, txs := [exTxOk, exTxFail] ++ [exTxOk2] }]).2.isSome = true := by
  decide

-- C16_spec_failed_tx_dropped: its hypotheses for a hook-free failing transaction after `exTxOk`
private def exTxFail0 : Tx := { cmd := [.set exK1 [77], .push, .del exFee, .fail] }
example : C16specVerify (C16mapTx (slookup exStore) exTxOk).1 exTxFail0 = true ∧
    (C16mapRun ((C16mapTx (slookup exStore) exTxOk).1, []) exTxFail0.cmd).2 = false := by decide
example : (C16processChain exP exApp [{ height := 4, txs := [exTxOk] ++ exTxFail0 :: [exTxOk2] }]).2 =
    (C16processChain exP exApp [{ height := 4, txs := [exTxOk] ++ [exTxOk2] }]).2 := by decide

-- C16_spec_last_write_wins / C16_spec_write_order_block: two write lists with the same last writes
private def exWs1 : List Write := [(exK1, some [1]), (exK2, some [2]), (exK1, none), (exK1, some [3])]
private def exWs2 : List Write := [(exK2, some [2]), (exK1, some [3])]
example : ∀ k, C16lastWrite k exWs1 = C16lastWrite k exWs2 := by
  intro k
  simp only [C16lastWrite, exWs1, exWs2]
  by_cases h1 : exK1 = k
  · by_cases h2 : exK2 = k
    · exact absurd (h1.trans h2.symm) (by decide)
    · simp [h1]
  · by_cases h2 : exK2 = k <;> simp [h1, h2]
example : (C16processChain exP exApp [{ height := 4, txs := [{ cmd := C16writeItems exWs1 }] }]).2 =
    (C16processChain exP exApp [{ height := 4, txs := [{ cmd := C16writeItems exWs2 }] }]).2 := by decide

-- C16_processed_blocks_recoverable: its hypotheses and its conclusion on two processed blocks
example : exApp.treeState.getD (0, exP.smtRoot []) = (3, exP.smtRoot exApp.leaves) := by decide
example : C16Consecutive 3 [exBlk, { height := 5, txs := [exTxOk2] }] := ⟨rfl, rfl, trivial⟩
example : (C16processChain exP exApp [exBlk, { height := 5, txs := [exTxOk2] }]).2.isSome = true := by decide
example : (init exP (C16processChain exP exApp [exBlk, { height := 5, txs := [exTxOk2] }]).1 3
    (exP.smtRoot exApp.leaves)).2 = true := by decide

-- C16_process_then_revert_restores / C16_crash_after_revert_not_recovered on `exBlk`
example : (C16revertBlock exP (C16processBlock exP exApp exBlk none).1 4 none).2 = some (exP.smtRoot exApp.leaves) := by
  decide
example : (init exP (C16revertBlock exP (C16processBlock exP exApp exBlk none).1 4 none).1 4
    ((C16processBlock exP exApp exBlk none).2.map (·.1)).get!).2 = false := by decide

/-! ### what is *not* atomic: `Invalid` transactions (and a finding about block generation) -/

/-- **Atomicity stops at `Fail`.**  A transaction answered with `Invalid` (here: the command
succeeds and an `AfterCommandExecute` hook returns an error) leaves the writes of its hooks and of
its command in the staged store: no snapshot surrounds the whole transaction.  The caller has to
give up the whole staged store — as `stateExecuter.Execute` does, see `C16_failed_block_no_trace`. -/
theorem C16_invalid_transaction_not_atomic :
    ∃ (st : St) (tx : Tx) (k1 k2 : Bytes), C12Inv st ∧ (executeTransaction st 7 tx).2.1 = .invalid ∧
      eff (executeTransaction st 7 tx).1 k1 ≠ eff st k1 ∧
      eff (executeTransaction st 7 tx).1 k2 ≠ eff st k2 :=
  ⟨exSt, { pre := [.set exFee [99]], cmd := [.set exK1 [11]], post := [.fail] }, exFee, exK1, exInv,
    by decide, by decide, by decide⟩

/-- the selection loop of `Generator.selectTransactionsByFee` (pkg/generator/generator.go) as far as
the application is concerned: `VerifyTransaction`, `ExecuteTransaction`; a transaction that does not
verify or is `Invalid` is skipped and the loop goes on *with the same staged store* (the pool is a
list of transactions of different senders, in the order the fee heap yields them) -/
def C16selectTxs (a : App) : List Tx → App × List Tx
  | [] => (a, [])
  | tx :: r =>
    let v := verifyTransaction a tx
    if !v.2 then C16selectTxs v.1 r
    else
      let e := executeTx v.1 tx
      match e.2 with
      | none => C16selectTxs e.1 r
      | some re =>
        if re.1 = .invalid then C16selectTxs e.1 r
        else
          let t := C16selectTxs e.1 r
          (t.1, tx :: t.2)

/-- `Generator.generate` as far as the application is concerned: context, before-hooks, selection,
after-hooks, `Commit` with `DryRun` for the state root of the header, `Clear` -/
def C16generateBlock (P : Params) (a : App) (height : Nat) (before after : List Item) (pool : List Tx) :
    Option (C16Blk × Bytes) :=
  let i := initStateMachine a height
  if !i.2 then none
  else
    let b := blockHook i.1 before
    if b.2.isNone then none
    else
      let s := C16selectTxs b.1 pool
      let f := blockHook s.1 after
      if f.2.isNone then none
      else (commit P f.1 none true).2.map
        (fun root => ({ height := height, before := before, txs := s.2, after := after }, root))

/-- **Finding (block generation).**  Because an `Invalid` transaction is not atomic and the selection
loop continues on the same staged store, one such transaction in the pool makes the generator seal
a block whose state root contains writes of a transaction that is not in the block: the block is
well-formed and would be accepted with its true root, but with the root the generator put into the
header every node — the generator included — rejects it. -/
theorem C16_generation_after_invalid_tx_breaks_root :
    ∃ (P : Params) (a : App) (pool : List Tx), TreeKeyInj P.H ∧ C16SmtRootExt P.smtRoot ∧ C16NodeOk P a ∧
      (C16generateBlock P a 4 [] [] pool).map
        (fun g => ((C16processBlock P a g.1 (some g.2)).2.isSome, (C16processBlock P a g.1 none).2.isSome,
                   g.1.txs.length)) = some (false, true, 1) :=
  ⟨exP, exApp, [{ pre := [.set exFee [99]], cmd := [.set exK1 [11]], post := [.fail] }, exTxOk2],
    exTK, exExt, exOk, by decide⟩
