/-
C18 — additional theorems (gap closing): ban period under arbitrary clock sequences, exact end of a
ban, no false bans, score bounds, permanence of the blacklist, and the rate limiter as a refinement
of a reference counter machine for ALL arrival sequences / limits / tick placements.

All theorems are about the unchanged models `Model/ConnGater.lean` and `Model/RateLimit.lean`.
-/
import LiskVerif.Props.C18_Rate
import LiskVerif.Lemmas.GaterMore

open LiskVerif LiskVerif.ConnGater LiskVerif.RateLimit

/-! ## Part 1 — the connection gater -/

/-- every gate that looks at the remote address refuses `ip` (whatever peer id / transport part the
address carries), and so do the inbound and the outbound gate sequence -/
def C18Refused (g : Gater) (ip : IP) : Prop :=
  ∀ (pid : Nat) (apid : Option Nat),
    interceptAddrDial g pid ⟨some ip, apid⟩ = false ∧ interceptAccept g ⟨some ip, apid⟩ = false ∧
    interceptSecured g true pid ⟨some ip, apid⟩ = false ∧
    outboundAllowed g pid ⟨some ip, apid⟩ = false ∧ inboundAllowed g pid ⟨some ip, apid⟩ = false

/-- every gate allows `ip` -/
def C18Admitted (g : Gater) (ip : IP) : Prop :=
  ∀ (pid : Nat) (apid : Option Nat),
    interceptPeerDial g pid = true ∧ interceptAddrDial g pid ⟨some ip, apid⟩ = true ∧
    interceptAccept g ⟨some ip, apid⟩ = true ∧ interceptSecured g true pid ⟨some ip, apid⟩ = true ∧
    interceptSecured g false pid ⟨some ip, apid⟩ = true ∧ interceptUpgraded g = true ∧
    outboundAllowed g pid ⟨some ip, apid⟩ = true ∧ inboundAllowed g pid ⟨some ip, apid⟩ = true

private theorem refused_of (g : Gater) (ip : IP) (h : isBanned g ip = true ∨ isBlocked g ip = true) :
    C18Refused g ip := fun pid apid => (C18_gates_refuse_banned_or_blacklisted g ip apid pid).1 h

private theorem admitted_of (g : Gater) (ip : IP) (h1 : isBanned g ip = false)
    (h2 : isBlocked g ip = false) : C18Admitted g ip :=
  fun pid apid => (C18_gates_refuse_banned_or_blacklisted g ip apid pid).2 ⟨h1, h2⟩

private theorem epoch_append (E : Nat) (ip : IP) (a b : List Op) :
    C18epoch E ip (a ++ b) = b.foldl (C18epochStep E ip) (C18epoch E ip a) := by
  unfold C18epoch
  rw [List.foldl_append]

private theorem banned_iff_expOf (E : Nat) (ops : List Op) (ip : IP) :
    isBanned (run (C18fresh E) ops) ip = true ↔ C18expOf E (C18epoch E ip ops) ≠ -1 := by
  unfold isBanned
  rw [C18_entry_is_epoch]
  cases h : C18epoch E ip ops with
  | nil => simp [C18specEntry, C18expOf]
  | cons e r => simp [C18specEntry, PeerInfo.banned]

/-- the score returned by a penalty is the total of the epoch it extends -/
private theorem pen_result (E : Nat) (pre : List Op) (tb : Nat) (ip : IP) (apid : Option Nat)
    (s ns : Int) (hpen : (addPenalty (run (C18fresh E) pre) tb ⟨some ip, apid⟩ s).2 = .ok ns) :
    ns = C18total ((tb, s) :: C18epoch E ip pre) := by
  have hs := (C18_reachable_wf E pre).2.1
  rw [addPenalty_ok hs] at hpen
  simp only [Except.ok.injEq] at hpen
  rw [C18_entry_is_epoch] at hpen
  cases h : C18epoch E ip pre with
  | nil =>
    rw [h] at hpen
    simp only [C18specEntry] at hpen
    simp [C18total, ← hpen]
  | cons e r =>
    rw [h] at hpen
    simp only [C18specEntry] at hpen
    simp only [C18total] at hpen ⊢
    omega

private theorem epoch_after_pen (E : Nat) (pre : List Op) (tb : Nat) (ip : IP) (apid : Option Nat)
    (s : Int) (ops : List Op) :
    C18epoch E ip (pre ++ Op.pen tb ⟨some ip, apid⟩ s :: ops) =
      ops.foldl (C18epochStep E ip) ((tb, s) :: C18epoch E ip pre) := by
  rw [epoch_append]
  simp [List.foldl, C18epochStep]

/-! ### the ban period, for every clock sequence -/

private theorem hold_fold (E : Nat) (ip : IP) (m : Nat) (ops : List Op) (ep : C18Epoch)
    (hJ : C18expOf E ep ≠ -1 ∧ ((m + E : Nat) : Int) ≤ C18expOf E ep)
    (hsw : ∀ t, Op.sweep t ∈ ops → t ≤ m + E)
    (hpn : ∀ t a s', Op.pen t a s' ∈ ops → a.ip = some ip → m ≤ t) :
    C18expOf E (ops.foldl (C18epochStep E ip) ep) ≠ -1 ∧
      ((m + E : Nat) : Int) ≤ C18expOf E (ops.foldl (C18epochStep E ip) ep) := by
  induction ops generalizing ep with
  | nil => exact hJ
  | cons op r ih =>
    have hsw' : ∀ t, Op.sweep t ∈ r → t ≤ m + E := fun t h => hsw t (List.mem_cons_of_mem _ h)
    have hpn' : ∀ t a s', Op.pen t a s' ∈ r → a.ip = some ip → m ≤ t :=
      fun t a s' h => hpn t a s' (List.mem_cons_of_mem _ h)
    simp only [List.foldl]
    apply ih _ _ hsw' hpn'
    cases op with
    | pen now a s =>
      by_cases ha : a.ip = some ip
      · have hm := hpn now a s List.mem_cons_self ha
        simp only [C18epochStep, ha, if_true]
        by_cases h100 : C18total ((now, s) :: ep) ≥ 100
        · simp only [C18expOf, h100, if_true]
          constructor <;> omega
        · simp only [C18expOf, h100, if_false]
          exact hJ
      · simp only [C18epochStep, ha, if_false]
        exact hJ
    | sweep now =>
      have ht := hsw now List.mem_cons_self
      have : ¬ (C18expOf E ep ≠ -1 ∧ (now : Int) > C18expOf E ep) := by
        intro hh
        omega
      simp only [C18epochStep, this, if_false]
      exact hJ
    | start => exact hJ
    | block _ => exact hJ
    | unblock _ => exact hJ
    | blacklist _ => exact hJ

/-- **The ban period under every clock sequence.**  Along every run: a penalty stamped `tb` brings
the total of `ip` to the threshold (returned score `ns ≥ 100`).  Let `m ≤ tb` be a lower bound of the
clock readings of the *later penalties against `ip`* (`m = tb` when the clock never runs backwards
for them).  Then after every prefix of any continuation — penalties of any sign to any address,
expiry passes in any order (the clock may jump backwards arbitrarily far for them), block / unblock /
blacklist operations — in which every expiry pass reads a clock `≤ m + E`, `ip` is still banned and
every address-inspecting gate and both gate sequences refuse it.
Generalises `C18_ban_holds_until_expiry` (which needs all clock readings in `[tb, tb + E]`). -/
theorem C18_ban_period_any_clock (E : Nat) (pre : List Op) (tb : Nat) (ip : IP) (apid : Option Nat)
    (s ns : Int) (hpen : (addPenalty (run (C18fresh E) pre) tb ⟨some ip, apid⟩ s).2 = .ok ns)
    (hns : ns ≥ 100) (m : Nat) (hm : m ≤ tb) (ops : List Op)
    (hsw : ∀ t, Op.sweep t ∈ ops → t ≤ m + E)
    (hpn : ∀ t a s', Op.pen t a s' ∈ ops → a.ip = some ip → m ≤ t) (k : Nat) :
    isBanned (run (C18fresh E) (pre ++ Op.pen tb ⟨some ip, apid⟩ s :: ops.take k)) ip = true ∧
    C18Refused (run (C18fresh E) (pre ++ Op.pen tb ⟨some ip, apid⟩ s :: ops.take k)) ip := by
  have hb : isBanned (run (C18fresh E) (pre ++ Op.pen tb ⟨some ip, apid⟩ s :: ops.take k)) ip = true := by
    rw [banned_iff_expOf, epoch_after_pen]
    have htot := pen_result E pre tb ip apid s ns hpen
    have h100 : C18total ((tb, s) :: C18epoch E ip pre) ≥ 100 := by rw [← htot]; exact hns
    refine (hold_fold E ip m (ops.take k) _ ?_ (fun t h => hsw t (List.mem_of_mem_take h))
      (fun t a s' h => hpn t a s' (List.mem_of_mem_take h))).1
    simp only [C18expOf, h100, if_true]
    constructor <;> omega
  exact ⟨hb, refused_of _ ip (Or.inl hb)⟩

example : isBanned (run (C18fresh 10) ([] ++ Op.pen 100 ⟨some [1, 2, 3, 4], none⟩ 100 ::
    [Op.sweep 5, .pen 3 ⟨some [9, 9, 9, 9], none⟩ 100, .sweep 110, .pen 105 ⟨some [1, 2, 3, 4], some 7⟩ (-60),
     .unblock [1, 2, 3, 4], .sweep 0].take 6)) [1, 2, 3, 4] = true := by decide

/-- **The lower bound on later penalty time stamps is necessary (clock running backwards).**  A ban
imposed at second 100 with duration 10 should last until 110.  A further penalty against the same IP
stamped with an *earlier* clock reading (50; `time.Now().Unix()` is the wall clock and may step back)
moves the expiration back to 60, and an expiry pass at second 61 lifts the ban 49 seconds early. -/
theorem C18_clock_backwards_shortens_ban :
    let ops : List Op := [.pen 100 ⟨some [1, 2, 3, 4], some 1⟩ 100, .pen 50 ⟨some [1, 2, 3, 4], some 1⟩ 1,
      .sweep 61]
    isBanned (run (C18fresh 10) (ops.take 2)) [1, 2, 3, 4] = true ∧
    find (run (C18fresh 10) (ops.take 2)).peerScore [1, 2, 3, 4] = some ⟨101, 60⟩ ∧
    isBanned (run (C18fresh 10) ops) [1, 2, 3, 4] = false ∧
    inboundAllowed (run (C18fresh 10) ops) 1 ⟨some [1, 2, 3, 4], none⟩ = true := by decide

/-! ### the exact end of a ban -/

private theorem fold_nil_no_pen (E : Nat) (ip : IP) (ops : List Op)
    (hno : ∀ t a s', Op.pen t a s' ∈ ops → a.ip ≠ some ip) :
    ops.foldl (C18epochStep E ip) [] = [] := by
  induction ops with
  | nil => rfl
  | cons op r ih =>
    have hno' : ∀ t a s', Op.pen t a s' ∈ r → a.ip ≠ some ip :=
      fun t a s' h => hno t a s' (List.mem_cons_of_mem _ h)
    simp only [List.foldl]
    cases op with
    | pen now a s =>
      have := hno now a s List.mem_cons_self
      simp only [C18epochStep, this, if_false]
      exact ih hno'
    | sweep now =>
      simp only [C18epochStep, C18expOf, ne_eq, not_true_eq_false, false_and, if_false]
      exact ih hno'
    | start => exact ih hno'
    | block _ => exact ih hno'
    | unblock _ => exact ih hno'
    | blacklist _ => exact ih hno'

private theorem ends_fold (E : Nat) (ip : IP) (tb : Nat) (s : Int) (older : C18Epoch)
    (htot : C18total ((tb, s) :: older) ≥ 100) (ops : List Op)
    (hno : ∀ t a s', Op.pen t a s' ∈ ops → a.ip ≠ some ip) :
    ((∀ t, Op.sweep t ∈ ops → t ≤ tb + E) →
        ops.foldl (C18epochStep E ip) ((tb, s) :: older) = (tb, s) :: older) ∧
    ((∃ t, Op.sweep t ∈ ops ∧ tb + E < t) → ops.foldl (C18epochStep E ip) ((tb, s) :: older) = []) := by
  have hexp : C18expOf E ((tb, s) :: older) = ((tb + E : Nat) : Int) := by
    simp only [C18expOf, htot, if_true]
  induction ops with
  | nil =>
    refine ⟨fun _ => rfl, ?_⟩
    rintro ⟨t, ht, _⟩
    exact absurd ht List.not_mem_nil
  | cons op r ih =>
    have hno' : ∀ t a s', Op.pen t a s' ∈ r → a.ip ≠ some ip :=
      fun t a s' h => hno t a s' (List.mem_cons_of_mem _ h)
    have ih' := ih hno'
    have hsame : C18epochStep E ip ((tb, s) :: older) op = (tb, s) :: older →
        ((∀ t, Op.sweep t ∈ op :: r → t ≤ tb + E) →
          (op :: r).foldl (C18epochStep E ip) ((tb, s) :: older) = (tb, s) :: older) ∧
        ((∃ t, Op.sweep t ∈ r ∧ tb + E < t) →
          (op :: r).foldl (C18epochStep E ip) ((tb, s) :: older) = []) := by
      intro hst
      simp only [List.foldl, hst]
      exact ⟨fun h => ih'.1 (fun t ht => h t (List.mem_cons_of_mem _ ht)), ih'.2⟩
    cases op with
    | pen now a s' =>
      have hst : C18epochStep E ip ((tb, s) :: older) (.pen now a s') = (tb, s) :: older := by
        have := hno now a s' List.mem_cons_self
        simp only [C18epochStep, this, if_false]
      refine ⟨(hsame hst).1, ?_⟩
      rintro ⟨t, ht, hlt⟩
      rcases List.mem_cons.1 ht with h | h
      · cases h
      · exact (hsame hst).2 ⟨t, h, hlt⟩
    | sweep now =>
      by_cases hnow : now ≤ tb + E
      · have hst : C18epochStep E ip ((tb, s) :: older) (.sweep now) = (tb, s) :: older := by
          have : ¬ (C18expOf E ((tb, s) :: older) ≠ -1 ∧ (now : Int) > C18expOf E ((tb, s) :: older)) := by
            rw [hexp]; intro hh; omega
          simp only [C18epochStep, this, if_false]
        refine ⟨(hsame hst).1, ?_⟩
        rintro ⟨t, ht, hlt⟩
        rcases List.mem_cons.1 ht with h | h
        · cases h; omega
        · exact (hsame hst).2 ⟨t, h, hlt⟩
      · have hst : C18epochStep E ip ((tb, s) :: older) (.sweep now) = [] := by
          have : C18expOf E ((tb, s) :: older) ≠ -1 ∧ (now : Int) > C18expOf E ((tb, s) :: older) := by
            rw [hexp]; constructor <;> omega
          simp only [C18epochStep]
          rw [if_pos this]
        constructor
        · intro h
          have := h now List.mem_cons_self
          omega
        · intro _
          simp only [List.foldl, hst]
          exact fold_nil_no_pen E ip r hno'
    | start =>
      refine ⟨(hsame rfl).1, ?_⟩
      rintro ⟨t, ht, hlt⟩
      rcases List.mem_cons.1 ht with h | h
      · cases h
      · exact (hsame rfl).2 ⟨t, h, hlt⟩
    | block _ =>
      refine ⟨(hsame rfl).1, ?_⟩
      rintro ⟨t, ht, hlt⟩
      rcases List.mem_cons.1 ht with h | h
      · cases h
      · exact (hsame rfl).2 ⟨t, h, hlt⟩
    | unblock _ =>
      refine ⟨(hsame rfl).1, ?_⟩
      rintro ⟨t, ht, hlt⟩
      rcases List.mem_cons.1 ht with h | h
      · cases h
      · exact (hsame rfl).2 ⟨t, h, hlt⟩
    | blacklist _ =>
      refine ⟨(hsame rfl).1, ?_⟩
      rintro ⟨t, ht, hlt⟩
      rcases List.mem_cons.1 ht with h | h
      · cases h
      · exact (hsame rfl).2 ⟨t, h, hlt⟩

/-- **A ban ends exactly at the first expiry pass after `tb + E`, for every clock sequence, and then
the IP is clean.**  Along every run, after a penalty stamped `tb` that returns a score `≥ 100`, and
any continuation without further penalties against that IP (everything else is allowed, in any clock
order, monotone or not):
* `ip` is banned (and refused by every gate) **iff** no expiry pass so far read a clock `> tb + E`;
* once such a pass happened, the entry is gone for good — whatever clock readings follow —: the IP
  is not banned, every gate admits it unless it is on the permanent blacklist, and its next penalty
  starts from a clean score (`addPenalty … s'` returns `s'`). -/
theorem C18_ban_ends_exactly (E : Nat) (pre : List Op) (tb : Nat) (ip : IP) (apid : Option Nat)
    (s ns : Int) (hpen : (addPenalty (run (C18fresh E) pre) tb ⟨some ip, apid⟩ s).2 = .ok ns)
    (hns : ns ≥ 100) (ops : List Op)
    (hno : ∀ t a s', Op.pen t a s' ∈ ops → a.ip ≠ some ip) :
    let g' := run (C18fresh E) (pre ++ Op.pen tb ⟨some ip, apid⟩ s :: ops)
    (isBanned g' ip = true ↔ ∀ t, Op.sweep t ∈ ops → t ≤ tb + E) ∧
    (isBanned g' ip = true → C18Refused g' ip) ∧
    ((∃ t, Op.sweep t ∈ ops ∧ tb + E < t) →
      find g'.peerScore ip = none ∧ isBanned g' ip = false ∧
      (isBlocked g' ip = false → C18Admitted g' ip) ∧
      ∀ t' apid' s', (addPenalty g' t' ⟨some ip, apid'⟩ s').2 = .ok s') := by
  intro g'
  have htot := pen_result E pre tb ip apid s ns hpen
  have h100 : C18total ((tb, s) :: C18epoch E ip pre) ≥ 100 := by rw [← htot]; exact hns
  have hf := ends_fold E ip tb s (C18epoch E ip pre) h100 ops hno
  have hep := epoch_after_pen E pre tb ip apid s ops
  have hexpired : (∃ t, Op.sweep t ∈ ops ∧ tb + E < t) →
      find g'.peerScore ip = none ∧ isBanned g' ip = false := by
    intro h
    have hnil := hf.2 h
    have hfind : find g'.peerScore ip = none := by
      show find (run (C18fresh E) _).peerScore ip = none
      rw [C18_entry_is_epoch, hep, hnil]
      rfl
    exact ⟨hfind, by simp [isBanned, hfind]⟩
  refine ⟨?_, fun hb => refused_of _ ip (Or.inl hb), ?_⟩
  · constructor
    · intro hb t ht
      by_cases hle : t ≤ tb + E
      · exact hle
      · have := (hexpired ⟨t, ht, by omega⟩).2
        rw [this] at hb
        exact absurd hb (by simp)
    · intro h
      show isBanned (run (C18fresh E) _) ip = true
      rw [banned_iff_expOf, hep, hf.1 h]
      simp only [C18expOf, h100, if_true]
      omega
  · intro h
    obtain ⟨hfind, hnb⟩ := hexpired h
    refine ⟨hfind, hnb, fun hbl => admitted_of _ ip hnb hbl, ?_⟩
    intro t' apid' s'
    have hs : g'.started = true := (C18_reachable_wf E _).2.1
    rw [addPenalty_ok hs]
    simp [hfind]

example : (∃ t, Op.sweep t ∈ [Op.sweep 5, .sweep 111, .sweep 3] ∧ 100 + 10 < t) := ⟨111, by simp, by omega⟩
example : isBanned (run (C18fresh 10) ([] ++ Op.pen 100 ⟨some [1, 2, 3, 4], none⟩ 100 ::
    [Op.sweep 5, .sweep 111, .sweep 3])) [1, 2, 3, 4] = false := by decide
example : isBanned (run (C18fresh 10) ([] ++ Op.pen 100 ⟨some [1, 2, 3, 4], none⟩ 100 ::
    [Op.sweep 5, .sweep 110, .sweep 3])) [1, 2, 3, 4] = true := by decide

/-! ### no false bans -/

/-- sum of the positive parts of the penalties against `ip` -/
def C18posSum (ip : IP) : List Op → Int
  | [] => 0
  | .pen _ a s :: r => (if a.ip = some ip then (if 0 ≤ s then s else 0) else 0) + C18posSum ip r
  | _ :: r => C18posSum ip r

private theorem posSum_nonneg (ip : IP) (ops : List Op) : 0 ≤ C18posSum ip ops := by
  induction ops with
  | nil => simp [C18posSum]
  | cons op r ih =>
    cases op with
    | pen now a s =>
      simp only [C18posSum]
      split <;> (try split) <;> omega
    | start => exact ih
    | sweep _ => exact ih
    | block _ => exact ih
    | unblock _ => exact ih
    | blacklist _ => exact ih

private theorem posSum_take_le (ip : IP) (ops : List Op) (k : Nat) :
    C18posSum ip (ops.take k) ≤ C18posSum ip ops := by
  induction ops generalizing k with
  | nil => simp [C18posSum]
  | cons op r ih =>
    cases k with
    | zero => simp only [List.take, C18posSum]; exact posSum_nonneg ip _
    | succ k =>
      have := ih k
      cases op with
      | pen now a s => simp only [List.take, C18posSum]; omega
      | start => exact this
      | sweep _ => exact this
      | block _ => exact this
      | unblock _ => exact this
      | blacklist _ => exact this

private theorem expOf_none_of_suffixes (E : Nat) (ep : C18Epoch)
    (h : ∀ k, C18total (ep.drop k) < 100) : C18expOf E ep = -1 := by
  induction ep with
  | nil => rfl
  | cons e r ih =>
    obtain ⟨t, s⟩ := e
    have h0 := h 0
    simp only [List.drop] at h0
    have : ¬ C18total ((t, s) :: r) ≥ 100 := by omega
    simp only [C18expOf, this, if_false]
    exact ih (fun k => by simpa using h (k + 1))

private theorem below_fold (E : Nat) (ip : IP) (ops : List Op) (ep : C18Epoch) (P : Int)
    (hP : 0 ≤ P) (hI : ∀ k, C18total (ep.drop k) ≤ P) :
    ∀ k, C18total ((ops.foldl (C18epochStep E ip) ep).drop k) ≤ P + C18posSum ip ops := by
  induction ops generalizing ep P with
  | nil => intro k; simp only [List.foldl, C18posSum]; have := hI k; omega
  | cons op r ih =>
    cases op with
    | pen now a s =>
      by_cases ha : a.ip = some ip
      · intro k
        have hI' : ∀ k, C18total (((now, s) :: ep).drop k) ≤ P + (if 0 ≤ s then s else 0) := by
          intro k
          cases k with
          | zero =>
            have := hI 0
            simp only [List.drop] at this ⊢
            simp only [C18total]
            split <;> omega
          | succ k =>
            have := hI k
            simp only [List.drop]
            split <;> omega
        have := ih ((now, s) :: ep) (P + (if 0 ≤ s then s else 0)) (by split <;> omega) hI' k
        simp only [List.foldl, C18epochStep, ha, if_true, C18posSum]
        omega
      · intro k
        have := ih ep P hP hI k
        simp only [List.foldl, C18epochStep, ha, if_false, C18posSum]
        omega
    | sweep now =>
      intro k
      simp only [List.foldl, C18epochStep, C18posSum]
      split
      · exact ih [] P hP (fun k => by simpa [C18total] using hP) k
      · exact ih ep P hP hI k
    | start => exact ih ep P hP hI
    | block _ => exact ih ep P hP hI
    | unblock _ => exact ih ep P hP hI
    | blacklist _ => exact ih ep P hP hI

/-- **No false bans.**  Along every run: if `ip` currently has no entry (it was never penalised, or
its ban expired and was swept), then as long as the positive parts of the penalties against `ip`
sum to less than the threshold, `ip` is never banned — after every prefix of the continuation,
whatever the clock does and whatever happens to other IPs — and every gate admits it unless it is
on the permanent blacklist.  In particular penalties against other IPs, and peers behind other IPs,
never cause a ban of `ip`. -/
theorem C18_no_ban_below_threshold (E : Nat) (pre : List Op) (ip : IP)
    (hclean : find (run (C18fresh E) pre).peerScore ip = none) (ops : List Op)
    (hsum : C18posSum ip ops < 100) (k : Nat) :
    isBanned (run (C18fresh E) (pre ++ ops.take k)) ip = false ∧
    (isBlocked (run (C18fresh E) (pre ++ ops.take k)) ip = false →
      C18Admitted (run (C18fresh E) (pre ++ ops.take k)) ip) := by
  have hnil : C18epoch E ip pre = [] := ((C18_ban_iff_threshold E pre ip).2.2).1 hclean
  have hb : isBanned (run (C18fresh E) (pre ++ ops.take k)) ip = false := by
    rw [Bool.eq_false_iff]
    intro hb
    rw [banned_iff_expOf, epoch_append, hnil] at hb
    apply hb
    apply expOf_none_of_suffixes
    intro j
    have := below_fold E ip (ops.take k) [] 0 (Int.le_refl 0) (fun k => by simp [C18total]) j
    have := posSum_take_le ip ops k
    omega
  exact ⟨hb, fun hbl => admitted_of _ ip hb hbl⟩

example : C18posSum [1, 2, 3, 4] [.pen 1 ⟨some [1, 2, 3, 4], none⟩ 60, .pen 2 ⟨some [5, 5, 5, 5], none⟩ 100,
    .pen 3 ⟨some [1, 2, 3, 4], some 2⟩ 39, .pen 4 ⟨some [1, 2, 3, 4], some 2⟩ (-50)] < 100 := by decide

/-! ### score bounds (Go `int`) -/

/-- sum of the absolute values of the penalties against `ip` -/
def C18absSum (ip : IP) : List Op → Int
  | [] => 0
  | .pen _ a s :: r => (if a.ip = some ip then (if 0 ≤ s then s else -s) else 0) + C18absSum ip r
  | _ :: r => C18absSum ip r

private theorem absSum_nonneg (ip : IP) (ops : List Op) : 0 ≤ C18absSum ip ops := by
  induction ops with
  | nil => simp [C18absSum]
  | cons op r ih =>
    cases op with
    | pen now a s =>
      simp only [C18absSum]
      split <;> (try split) <;> omega
    | start => exact ih
    | sweep _ => exact ih
    | block _ => exact ih
    | unblock _ => exact ih
    | blacklist _ => exact ih

private theorem abs_fold (E : Nat) (ip : IP) (ops : List Op) (ep : C18Epoch) (A : Int) (hA : 0 ≤ A)
    (hI : -A ≤ C18total ep ∧ C18total ep ≤ A) :
    -(A + C18absSum ip ops) ≤ C18total (ops.foldl (C18epochStep E ip) ep) ∧
      C18total (ops.foldl (C18epochStep E ip) ep) ≤ A + C18absSum ip ops := by
  induction ops generalizing ep A with
  | nil => simpa [C18absSum] using hI
  | cons op r ih =>
    cases op with
    | pen now a s =>
      by_cases ha : a.ip = some ip
      · have := ih ((now, s) :: ep) (A + (if 0 ≤ s then s else -s)) (by split <;> omega)
          (by simp only [C18total]; split <;> omega)
        simp only [List.foldl, C18epochStep, ha, if_true, C18absSum]
        omega
      · have := ih ep A hA hI
        simp only [List.foldl, C18epochStep, ha, if_false, C18absSum]
        omega
    | sweep now =>
      simp only [List.foldl, C18epochStep, C18absSum]
      split
      · exact ih [] A hA (by simp only [C18total]; omega)
      · exact ih ep A hA hI
    | start => exact ih ep A hA hI
    | block _ => exact ih ep A hA hI
    | unblock _ => exact ih ep A hA hI
    | blacklist _ => exact ih ep A hA hI

private theorem nonneg_fold (E : Nat) (ip : IP) (ops : List Op) (ep : C18Epoch) (hI : 0 ≤ C18total ep)
    (hnn : ∀ t a s, Op.pen t a s ∈ ops → a.ip = some ip → 0 ≤ s) :
    0 ≤ C18total (ops.foldl (C18epochStep E ip) ep) := by
  induction ops generalizing ep with
  | nil => exact hI
  | cons op r ih =>
    have hnn' : ∀ t a s, Op.pen t a s ∈ r → a.ip = some ip → 0 ≤ s :=
      fun t a s h => hnn t a s (List.mem_cons_of_mem _ h)
    cases op with
    | pen now a s =>
      by_cases ha : a.ip = some ip
      · have hs := hnn now a s List.mem_cons_self ha
        simp only [List.foldl, C18epochStep, ha, if_true]
        exact ih _ (by simp only [C18total]; omega) hnn'
      · simp only [List.foldl, C18epochStep, ha, if_false]
        exact ih ep hI hnn'
    | sweep now =>
      simp only [List.foldl, C18epochStep]
      split
      · exact ih [] (by simp [C18total]) hnn'
      · exact ih ep hI hnn'
    | start => exact ih ep hI hnn'
    | block _ => exact ih ep hI hnn'
    | unblock _ => exact ih ep hI hnn'
    | blacklist _ => exact ih ep hI hnn'

/-- **The score stays within the sum of the penalty magnitudes.**  After every run the score of
every IP lies in `[-A, A]` where `A` is the sum of the absolute values of the penalties against that
IP; with non-negative penalties the score is non-negative.  Consequently the unbounded `Int` of the
model and the Go `int` (64 bit) agree on every run whose penalty magnitudes sum to less than `2^63`
— and only on those: there is no cap at `MaxPenaltyScore`, a banned IP keeps accumulating. -/
theorem C18_score_bounded (E : Nat) (ops : List Op) (ip : IP) (i : PeerInfo)
    (hi : find (run (C18fresh E) ops).peerScore ip = some i) :
    -C18absSum ip ops ≤ i.score ∧ i.score ≤ C18absSum ip ops ∧
    (C18absSum ip ops < 2 ^ 63 → -(2 : Int) ^ 63 ≤ i.score ∧ i.score < 2 ^ 63) ∧
    ((∀ t a s, Op.pen t a s ∈ ops → a.ip = some ip → 0 ≤ s) → 0 ≤ i.score) := by
  have hsc := (C18_ban_iff_threshold E ops ip).2.1 i hi
  have hb := abs_fold E ip ops [] 0 (Int.le_refl 0) (by simp [C18total])
  have hb' : -C18absSum ip ops ≤ C18total (C18epoch E ip ops) ∧
      C18total (C18epoch E ip ops) ≤ C18absSum ip ops := by
    unfold C18epoch
    constructor <;> omega
  refine ⟨by omega, by omega, fun h => by omega, ?_⟩
  intro hnn
  have := nonneg_fold E ip ops [] (by simp [C18total]) hnn
  unfold C18epoch at hsc
  omega

example : find (run (C18fresh 10) [.pen 1 ⟨some [1, 2, 3, 4], none⟩ 100, .pen 2 ⟨some [1, 2, 3, 4], none⟩ 100,
    .pen 3 ⟨some [1, 2, 3, 4], none⟩ 100]).peerScore [1, 2, 3, 4] = some ⟨300, 13⟩ := by decide

/-- **Magnitude and sign of penalties are not validated: a negative score is a credit that defeats
the ban for malformed envelopes.**  (`Connection.ApplyPenalty(pid, score int)` and
`WithRPCMessageCounter(limit, penalty int)` accept any `int`.)  After a penalty of `-1000`, a
malformed envelope from that IP adds `MaxPenaltyScore` but the total stays below the threshold: the
sender is disconnected, yet its IP is **not** banned and may reconnect at once.  Hence the hypothesis
`hnonneg` of `C18_bad_message_banned` is necessary. -/
theorem C18_negative_score_defeats_ban :
    let n : Node := { g := run (C18fresh 10) [.pen 1 ⟨some [1, 2, 3, 4], some 3⟩ (-1000)],
                      mpStarted := true, conns := [(3, ⟨some [1, 2, 3, 4], none⟩)] }
    let n' := receive n 5 true ⟨some [1, 2, 3, 4], none⟩ 3 .malformed
    find n'.g.peerScore [1, 2, 3, 4] = some ⟨-900, -1⟩ ∧ isBanned n'.g [1, 2, 3, 4] = false ∧
    n'.conns = [] ∧ inboundAllowed n'.g 3 ⟨some [1, 2, 3, 4], none⟩ = true := by decide

/-! ### the gates that never refuse; the blacklist -/

/-- **Three of the five gates never refuse, and an address without IP component is never refused.**
`InterceptPeerDial`, `InterceptUpgraded` and outbound `InterceptSecured` return `true` in every state
(even for a banned *and* blacklisted IP), so "every gate refuses" holds only for `InterceptAddrDial`,
`InterceptAccept` and inbound `InterceptSecured`: outbound refusal rests on `InterceptAddrDial` alone.
A multiaddr from which `manet.ToIP` extracts no IP passes every gate. -/
theorem C18_gates_that_never_refuse (g : Gater) (pid : Nat) (a : Addr) (apid : Option Nat) :
    interceptPeerDial g pid = true ∧ interceptUpgraded g = true ∧ interceptSecured g false pid a = true ∧
    (outboundAllowed g pid a = interceptAddrDial g pid a) ∧
    (inboundAllowed g pid a = interceptAccept g a) ∧
    inboundAllowed g pid ⟨none, apid⟩ = true ∧ outboundAllowed g pid ⟨none, apid⟩ = true := by
  refine ⟨rfl, rfl, rfl, ?_, ?_, rfl, rfl⟩
  · simp [outboundAllowed, interceptPeerDial, interceptSecured, interceptUpgraded]
  · simp [inboundAllowed, interceptAccept, interceptSecured, interceptUpgraded]

example : let g := blockAddr (run (C18fresh 10) [.pen 1 ⟨some [1, 2, 3, 4], none⟩ 100]) [1, 2, 3, 4]
    isBanned g [1, 2, 3, 4] = true ∧ isBlocked g [1, 2, 3, 4] = true ∧
    interceptSecured g false 0 ⟨some [1, 2, 3, 4], none⟩ = true := by decide

/-- **The blacklist is permanent.**  From any state in which `ip` is blacklisted, after every prefix
of every operation sequence that does not contain `unblock ip` — expiry passes at any clock reading,
penalties, `unblock` of other IPs, further blacklist loads — `ip` is still blacklisted and refused by
every address-inspecting gate; `unblock ip` is the one operation that removes it. -/
theorem C18_blacklist_permanent (g : Gater) (ip : IP) (hb : isBlocked g ip = true) (ops : List Op)
    (hno : Op.unblock ip ∉ ops) (k : Nat) :
    isBlocked (run g (ops.take k)) ip = true ∧ C18Refused (run g (ops.take k)) ip ∧
    isBlocked (apply (run g (ops.take k)) (.unblock ip)) ip = false := by
  have key : ∀ (l : List Op) (g : Gater), isBlocked g ip = true → Op.unblock ip ∉ l →
      isBlocked (run g l) ip = true := by
    intro l
    induction l with
    | nil => intro g h _; exact h
    | cons op r ih =>
      intro g h hn
      have h1 : isBlocked (apply g op) ip = true := by
        apply isBlocked_apply_of_blocked g ip op _ h
        intro ip' hop hip
        apply hn
        rw [hop, hip]
        exact List.mem_cons_self
      exact ih (apply g op) h1 (fun hm => hn (List.mem_cons_of_mem _ hm))
  have h := key (ops.take k) g hb (fun hm => hno (List.mem_of_mem_take hm))
  exact ⟨h, refused_of _ ip (Or.inr h), isBlocked_unblock _ ip⟩

example : isBlocked (run (blockAddr (C18fresh 1) [9, 9, 9, 9]) ([Op.sweep 1000000, .unblock [9, 9, 9, 8],
    .pen 5 ⟨some [9, 9, 9, 9], none⟩ (-500), .blacklist [none]].take 4)) [9, 9, 9, 9] = true := by decide

/-- blacklist edits and `start` -/
def C18isConfig : Op → Bool
  | .pen _ _ _ => false
  | .sweep _ => false
  | _ => true

/-- **Ban and blacklist are independent.**  Blacklist edits (block / unblock / blacklist load) never
change the score table — `unblock` does not lift or shorten a ban, `block` does not reset a score —
and penalties / expiry passes never change the blacklist — it never expires. -/
theorem C18_ban_and_blacklist_independent (g : Gater) (ops : List Op) :
    ((∀ op ∈ ops, C18isConfig op = true) → (run g ops).peerScore = g.peerScore) ∧
    ((∀ op ∈ ops, C18isConfig op = false) → (run g ops).blocked = g.blocked) := by
  constructor
  · induction ops generalizing g with
    | nil => intro _; rfl
    | cons op r ih =>
      intro h
      have h1 : (apply g op).peerScore = g.peerScore := by
        apply peerScore_apply_config
        have := h op List.mem_cons_self
        cases op with
        | pen _ _ _ => simp [C18isConfig] at this
        | sweep _ => simp [C18isConfig] at this
        | start => exact Or.inr (Or.inr (Or.inr rfl))
        | block ip => exact Or.inl ⟨ip, rfl⟩
        | unblock ip => exact Or.inr (Or.inl ⟨ip, rfl⟩)
        | blacklist l => exact Or.inr (Or.inr (Or.inl ⟨l, rfl⟩))
      have := ih (apply g op) (fun op' hm => h op' (List.mem_cons_of_mem _ hm))
      simp only [run, List.foldl] at this ⊢
      rw [this, h1]
  · induction ops generalizing g with
    | nil => intro _; rfl
    | cons op r ih =>
      intro h
      have h1 : (apply g op).blocked = g.blocked := by
        have := h op List.mem_cons_self
        cases op with
        | pen now a s => exact (addPenalty_fields g now a s).2.2
        | sweep _ => rfl
        | start => simp [C18isConfig] at this
        | block ip => simp [C18isConfig] at this
        | unblock ip => simp [C18isConfig] at this
        | blacklist l => simp [C18isConfig] at this
      have := ih (apply g op) (fun op' hm => h op' (List.mem_cons_of_mem _ hm))
      simp only [run, List.foldl] at this ⊢
      rw [this, h1]

example : isBanned (run (run (C18fresh 10) [.pen 1 ⟨some [1, 2, 3, 4], none⟩ 100])
    [.unblock [1, 2, 3, 4], .block [1, 2, 3, 4], .unblock [1, 2, 3, 4]]) [1, 2, 3, 4] = true := by decide

/-! ## Part 2 — the rate limiter, for every arrival sequence -/

/-- limit and penalty configured for a procedure (`none` = not registered) -/
def C18cfgOf (n : Node) (name : String) : Option (Int × Int) :=
  (findCounter n.counters name).map fun c => (c.limit, c.penalty)

/-- a penalty issued by the message protocol: time stamp, remote address and peer id of the sender,
amount, and its cause (`some proc` = rate excess on that procedure, `none` = malformed envelope or
unknown procedure, i.e. a ban) -/
structure C18Pen where
  now : Nat
  remote : Addr
  pid : Nat
  score : Int
  src : Option String
deriving Repr

/-- the gater operation a penalty amounts to -/
def C18Pen.toOp (p : C18Pen) : Op := .pen p.now (withPid p.remote p.pid) p.score

def C18set0 (c : C18Cnt) (name : String) (pid : Nat) : C18Cnt :=
  fun n p => if n = name ∧ p = pid then 0 else c n p

/-- **Reference rate limiter** (independent bookkeeping): one counter per (procedure, peer); a
message that would bring the counter above the limit is penalised and resets the counter; a tick
clears all counters; malformed envelopes and unknown procedures cost `MaxPenaltyScore`. -/
def C18rlStep (cfg : String → Option (Int × Int)) (c : C18Cnt) : Ev → C18Cnt × List C18Pen
  | .tick => (fun _ _ => 0, [])
  | .msg now _ remote pid .malformed => (c, [⟨now, remote, pid, 100, none⟩])
  | .msg now _ remote pid (.proc name) =>
    match cfg name with
    | none => (c, [⟨now, remote, pid, 100, none⟩])
    | some (L, p) =>
      if ((c name pid + 1 : Nat) : Int) > L then (C18set0 c name pid, [⟨now, remote, pid, p, some name⟩])
      else (C18inc c name pid, [])

def C18rlRun (cfg : String → Option (Int × Int)) : C18Cnt → List Ev → C18Cnt × List C18Pen
  | c, [] => (c, [])
  | c, ev :: r =>
    ((C18rlRun cfg (C18rlStep cfg c ev).1 r).1, (C18rlStep cfg c ev).2 ++ (C18rlRun cfg (C18rlStep cfg c ev).1 r).2)

/-- a request for a registered procedure (it reaches its handler) -/
def C18served1 (cfg : String → Option (Int × Int)) : Ev → Nat
  | .msg _ isReq _ _ (.proc name) => if isReq = true ∧ (cfg name).isSome = true then 1 else 0
  | _ => 0

def C18servedReq (cfg : String → Option (Int × Int)) : List Ev → Nat
  | [] => 0
  | ev :: r => C18served1 cfg ev + C18servedReq cfg r

/-! #### observations of the counter table -/

private theorem obs_upd (n n' : Node) (name : String) (f : Counter → Counter)
    (hcnt : n'.counters = updCounter n.counters name f)
    (hf : ∀ c, (f c).name = c.name ∧ (f c).limit = c.limit ∧ (f c).penalty = c.penalty) :
    C18cfgOf n' = C18cfgOf n ∧
    ∀ name' pid', count n' name' pid' =
      if name' = name then
        (match findCounter n.counters name with | some c => getCount (f c).counts pid' | none => 0)
      else count n name' pid' := by
  have hfind : ∀ name', findCounter n'.counters name' =
      if name = name' then (findCounter n.counters name).map f else findCounter n.counters name' := by
    intro name'
    rw [hcnt, findCounter_updCounter n.counters name f (fun c => (hf c).1) name']
  constructor
  · funext name'
    unfold C18cfgOf
    rw [hfind]
    by_cases h : name = name'
    · subst h
      cases hc : findCounter n.counters name with
      | none => simp
      | some c => simp [(hf c).2.1, (hf c).2.2]
    · simp [h]
  · intro name' pid'
    unfold count
    rw [hfind]
    by_cases h : name = name'
    · subst h
      cases hc : findCounter n.counters name with
      | none => simp
      | some c => simp
    · have : ¬ name' = name := fun hh => h hh.symm
      simp [h, this]

private theorem obs_same (n n' : Node) (hcnt : n'.counters = n.counters) :
    C18cfgOf n' = C18cfgOf n ∧ ∀ name pid, count n' name pid = count n name pid := by
  constructor
  · funext name; unfold C18cfgOf; rw [hcnt]
  · intro name pid; unfold count; rw [hcnt]

private theorem obs_tick (n : Node) :
    C18cfgOf (tick n) = C18cfgOf n ∧ ∀ name pid, count (tick n) name pid = 0 := by
  constructor
  · funext name
    unfold C18cfgOf tick
    simp only
    rw [findCounter_map n.counters (fun c => { c with counts := [] }) (fun _ => rfl) name]
    cases findCounter n.counters name <;> simp
  · intro name pid
    unfold count tick
    simp only
    rw [findCounter_map n.counters (fun c => { c with counts := [] }) (fun _ => rfl) name]
    cases findCounter n.counters name <;> simp [getCount]

private theorem run_one (g : Gater) (op : Op) : run g [op] = apply g op := rfl

/-- one event: the model and the reference agree -/
private theorem rl_step (n : Node) (hmp : n.mpStarted = true) (hs : n.g.started = true) (ev : Ev)
    (hip : ∀ now r a p k, ev = Ev.msg now r a p k → a.ip ≠ none) :
    (applyEv n ev).mpStarted = true ∧ (applyEv n ev).g.started = true ∧
    (applyEv n ev).g = run n.g ((C18rlStep (C18cfgOf n) (count n) ev).2.map C18Pen.toOp) ∧
    (∀ name pid, count (applyEv n ev) name pid = (C18rlStep (C18cfgOf n) (count n) ev).1 name pid) ∧
    C18cfgOf (applyEv n ev) = C18cfgOf n ∧
    (applyEv n ev).handled = n.handled + C18served1 (C18cfgOf n) ev := by
  cases ev with
  | tick =>
    have ho := obs_tick n
    exact ⟨hmp, hs, rfl, ho.2, ho.1, rfl⟩
  | msg now isReq remote pid k =>
    obtain ⟨rip, rpid⟩ := remote
    have hne := hip now isReq ⟨rip, rpid⟩ pid k rfl
    cases rip with
    | none => exact absurd rfl hne
    | some ip =>
    -- the ban path
    have hbad : (k = .malformed ∨ ∃ name, k = .proc name ∧ findCounter n.counters name = none) →
        (applyEv n (.msg now isReq ⟨some ip, rpid⟩ pid k)).mpStarted = true ∧
        (applyEv n (.msg now isReq ⟨some ip, rpid⟩ pid k)).g.started = true ∧
        (applyEv n (.msg now isReq ⟨some ip, rpid⟩ pid k)).g =
          run n.g ([(⟨now, ⟨some ip, rpid⟩, pid, 100, none⟩ : C18Pen)].map C18Pen.toOp) ∧
        (∀ name' pid', count (applyEv n (.msg now isReq ⟨some ip, rpid⟩ pid k)) name' pid' = count n name' pid') ∧
        C18cfgOf (applyEv n (.msg now isReq ⟨some ip, rpid⟩ pid k)) = C18cfgOf n ∧
        (applyEv n (.msg now isReq ⟨some ip, rpid⟩ pid k)).handled = n.handled := by
      intro hk
      have hr := receive_bad n hs now isReq ip rpid pid k hk
      simp only [applyEv]
      rw [hr]
      have ho := obs_same n (disconnect { n with g := (addPenalty n.g now ⟨some ip, some pid⟩ maxPenaltyScore).1 } pid) rfl
      refine ⟨hmp, ?_, rfl, ho.2, ho.1, rfl⟩
      show (addPenalty n.g now ⟨some ip, some pid⟩ maxPenaltyScore).1.started = true
      rw [(addPenalty_fields n.g now _ _).1]; exact hs
    cases k with
    | malformed =>
      have := hbad (Or.inl rfl)
      simp only [C18rlStep, C18served1]
      exact ⟨this.1, this.2.1, this.2.2.1, this.2.2.2.1, this.2.2.2.2.1, this.2.2.2.2.2⟩
    | proc name =>
      cases hcf : findCounter n.counters name with
      | none =>
        have hcfg : C18cfgOf n name = none := by simp [C18cfgOf, hcf]
        have := hbad (Or.inr ⟨name, rfl, hcf⟩)
        simp only [C18rlStep, C18served1, hcfg, Option.isSome_none, Bool.false_eq_true, and_false,
          if_false]
        exact ⟨this.1, this.2.1, this.2.2.1, this.2.2.2.1, this.2.2.2.2.1, this.2.2.2.2.2⟩
      | some cfg =>
        have hcfg : C18cfgOf n name = some (cfg.limit, cfg.penalty) := by simp [C18cfgOf, hcf]
        have hcount : count n name pid = getCount cfg.counts pid := by simp [count, hcf]
        have hinc_cnt : (increase n name pid).counters = updCounter n.counters name
            (fun c => { c with counts := setCount c.counts pid (getCount c.counts pid + 1) }) := rfl
        have hoi := obs_upd n (increase n name pid) name _ hinc_cnt (fun _ => ⟨rfl, rfl, rfl⟩)
        by_cases hov : ((getCount cfg.counts pid + 1 : Nat) : Int) > cfg.limit
        · -- over the limit
          have hr := receive_over n hmp hs now isReq ip rpid pid name cfg hcf hov
          have hoo := obs_upd (increase n name pid)
            (receive n now isReq ⟨some ip, rpid⟩ pid (.proc name)) name
            (fun c => { c with counts := setCount c.counts pid 0 }) hr.2.1 (fun _ => ⟨rfl, rfl, rfl⟩)
          have hov' : ((count n name pid + 1 : Nat) : Int) > cfg.limit := by rw [hcount]; exact hov
          simp only [applyEv, C18rlStep, C18served1, hcfg, hov', if_true, Option.isSome_some, and_true]
          refine ⟨hr.2.2.1, ?_, ?_, ?_, ?_, ?_⟩
          · rw [hr.1, (addPenalty_fields n.g now _ _).1]; exact hs
          · rw [hr.1]; rfl
          · intro name' pid'
            rw [hoo.2 name' pid']
            unfold C18set0
            by_cases h1 : name' = name
            · subst h1
              have hfi := find_increase' n name' pid name'
              simp only [if_true, hcf, Option.map_some] at hfi
              simp only [if_true, hfi, getCount_setCount, true_and]
              by_cases h2 : pid = pid'
              · subst h2; simp
              · have : ¬ pid' = pid := fun hh => h2 hh.symm
                simp only [h2, this, if_false]
                simp [count, hcf]
            · simp only [h1, if_false, false_and]
              rw [hoi.2 name' pid']
              simp [h1]
          · rw [hoo.1, hoi.1]
          · rw [hr.2.2.2]
        · -- within the limit
          have hle : ((getCount cfg.counts pid + 1 : Nat) : Int) ≤ cfg.limit := by omega
          have hr := receive_within n hmp now isReq ⟨some ip, rpid⟩ pid name cfg hcf hle
          have hov' : ¬ ((count n name pid + 1 : Nat) : Int) > cfg.limit := by rw [hcount]; exact hov
          have hcnt' : (receive n now isReq ⟨some ip, rpid⟩ pid (.proc name)).counters =
              (increase n name pid).counters := by rw [hr]; cases isReq <;> rfl
          have hos := obs_same (increase n name pid) _ hcnt'
          simp only [applyEv, C18rlStep, C18served1, hcfg, hov', if_false, Option.isSome_some, and_true]
          refine ⟨by rw [hr]; cases isReq <;> exact hmp, by rw [hr]; cases isReq <;> exact hs,
            by rw [hr]; cases isReq <;> rfl, ?_, by rw [hos.1, hoi.1], ?_⟩
          · intro name' pid'
            rw [hos.2 name' pid', hoi.2 name' pid']
            unfold C18inc
            by_cases h1 : name' = name
            · subst h1
              simp only [if_true, hcf, getCount_setCount, true_and]
              by_cases h2 : pid = pid'
              · subst h2; simp [hcount]
              · have : ¬ pid' = pid := fun hh => h2 hh.symm
                simp [h2, this, count, hcf]
            · simp [h1]
          · rw [hr]
            cases isReq <;> simp [increase]

/-- **The rate limiter refines the reference counter machine — for every arrival sequence.**  With
the message protocol and the gater started, for ANY sequence of received envelopes (well formed or
not, registered or unknown procedures, any interleaving of peers, procedures and interval ticks,
any configured limits and penalties — negative ones included) whose remote addresses carry an IP:
* the gater ends in exactly the state obtained by applying the reference machine's penalties, in
  order, as `addPenalty` operations (so all theorems about gater runs apply to message traffic);
* the per-(procedure, peer) counters are the reference counters;
* every request for a registered procedure reaches its handler — also the one that exceeded the limit;
* the configuration is unchanged. -/
theorem C18_rate_limiter_refines (n : Node) (hmp : n.mpStarted = true) (hs : n.g.started = true)
    (evs : List Ev) (hip : ∀ now r a p k, Ev.msg now r a p k ∈ evs → a.ip ≠ none) :
    (runEv n evs).g = run n.g ((C18rlRun (C18cfgOf n) (count n) evs).2.map C18Pen.toOp) ∧
    (∀ name pid, count (runEv n evs) name pid = (C18rlRun (C18cfgOf n) (count n) evs).1 name pid) ∧
    (runEv n evs).handled = n.handled + C18servedReq (C18cfgOf n) evs ∧
    C18cfgOf (runEv n evs) = C18cfgOf n ∧
    (runEv n evs).mpStarted = true ∧ (runEv n evs).g.started = true := by
  induction evs generalizing n with
  | nil => exact ⟨rfl, fun _ _ => rfl, rfl, rfl, hmp, hs⟩
  | cons ev r ih =>
    have hst := rl_step n hmp hs ev (fun now rq a p k h => hip now rq a p k (h ▸ List.mem_cons_self))
    obtain ⟨h1, h2, h3, h4, h5, h6⟩ := hst
    have hih := ih (applyEv n ev) h1 h2 (fun now rq a p k h => hip now rq a p k (List.mem_cons_of_mem _ h))
    have hc : count (applyEv n ev) = (C18rlStep (C18cfgOf n) (count n) ev).1 := by
      funext name pid; exact h4 name pid
    rw [h5, hc] at hih
    obtain ⟨i1, i2, i3, i4, i5, i6⟩ := hih
    have hrun : runEv n (ev :: r) = runEv (applyEv n ev) r := rfl
    rw [hrun]
    refine ⟨?_, i2, ?_, i4, i5, i6⟩
    · rw [i1, h3]
      simp only [C18rlRun, List.map_append]
      unfold run
      rw [List.foldl_append]
    · rw [i3, h6]
      simp only [C18servedReq]
      omega

example : (runEv C18exampleNode [.msg 1 true ⟨some [1, 2, 3, 4], none⟩ 0 (.proc "blk"),
      .msg 1 true ⟨some [1, 2, 3, 4], none⟩ 0 (.proc "blk"), .msg 2 false ⟨some [1, 2, 3, 4], none⟩ 0 (.proc "blk"),
      .tick, .msg 3 true ⟨some [1, 2, 3, 4], none⟩ 7 (.proc "nope")]).g.peerScore =
    [([1, 2, 3, 4], ⟨150, 13⟩)] := by decide
example : ((C18rlRun (C18cfgOf C18exampleNode) (count C18exampleNode)
    [.msg 1 true ⟨some [1, 2, 3, 4], none⟩ 0 (.proc "blk"),
      .msg 1 true ⟨some [1, 2, 3, 4], none⟩ 0 (.proc "blk"), .msg 2 false ⟨some [1, 2, 3, 4], none⟩ 0 (.proc "blk"),
      .tick, .msg 3 true ⟨some [1, 2, 3, 4], none⟩ 7 (.proc "nope")]).2.map (·.score)) = [50, 100] := by decide

/-! #### how many penalties — exactly -/

/-- a well-formed message of `pid` for procedure `name` -/
def C18isMsgOf (name : String) (pid : Nat) : Ev → Bool
  | .msg _ _ _ p (.proc nm) => decide (nm = name ∧ p = pid)
  | _ => false

/-- a rate penalty of `pid` for procedure `name` -/
def C18isPenOf (name : String) (pid : Nat) (p : C18Pen) : Bool := decide (p.src = some name ∧ p.pid = pid)

private theorem rl_step_count (cfg : String → Option (Int × Int)) (name : String) (L : Nat) (p : Int)
    (hcfg : cfg name = some ((L : Int), p)) (pid : Nat) (c : C18Cnt) (ev : Ev) (hnt : ev ≠ .tick)
    (hc : c name pid ≤ L) :
    (C18rlStep cfg c ev).1 name pid ≤ L ∧
    (C18rlStep cfg c ev).1 name pid + List.countP (C18isPenOf name pid) (C18rlStep cfg c ev).2 * (L + 1) =
      c name pid + (if C18isMsgOf name pid ev = true then 1 else 0) := by
  cases ev with
  | tick => exact absurd rfl hnt
  | msg now isReq remote p1 k =>
    cases k with
    | malformed =>
      simp [C18rlStep, C18isPenOf, C18isMsgOf, hc]
    | proc nm =>
      cases hnm : cfg nm with
      | none =>
        simp [C18rlStep, hnm, C18isPenOf, C18isMsgOf, hc]
        intro h1 _
        rw [h1, hcfg] at hnm
        exact absurd hnm (by simp)
      | some lp =>
        obtain ⟨L', p'⟩ := lp
        by_cases hsame : nm = name ∧ p1 = pid
        · obtain ⟨h1, h2⟩ := hsame
          subst h1; subst h2
          rw [hcfg] at hnm
          simp only [Option.some.injEq, Prod.mk.injEq] at hnm
          obtain ⟨hL, hp⟩ := hnm
          subst hL
          by_cases hov : ((c nm p1 + 1 : Nat) : Int) > (L : Int)
          · have hcL : c nm p1 = L := by omega
            simp only [C18rlStep, hcfg]
            rw [if_pos hov]
            simp [C18set0, C18isPenOf, C18isMsgOf, hcL]
          · have hcL : c nm p1 + 1 ≤ L := by omega
            simp only [C18rlStep, hcfg]
            rw [if_neg hov]
            simp [C18inc, C18isMsgOf, hcL]
        · have hmsg : C18isMsgOf name pid (.msg now isReq remote p1 (.proc nm)) = false := by
            simp only [C18isMsgOf, decide_eq_false_iff_not]; exact hsame
          have hsame' : ¬ (name = nm ∧ pid = p1) := fun h => hsame ⟨h.1.symm, h.2.symm⟩
          by_cases hov : ((c nm p1 + 1 : Nat) : Int) > L'
          · simp only [C18rlStep, hnm, hov, if_true, C18set0, hsame', if_false, hmsg]
            have : C18isPenOf name pid ⟨now, remote, p1, p', some nm⟩ = false := by
              simp only [C18isPenOf, decide_eq_false_iff_not, Option.some.injEq]; exact hsame
            simp [this, hc]
          · simp only [C18rlStep, hnm, hov, if_false, C18inc, hsame', hmsg]
            simp [hc]

/-- **Exactly one penalty per `limit + 1` messages, for every limit and every interleaving.**  In
the reference machine (hence, by `C18_rate_limiter_refines`, in the model), within one interval (no
tick) and for any limit `L ≥ 0`, any penalty amount, any starting count `c₀ ≤ L`, and any
interleaving with malformed envelopes, other peers and other procedures: after `k` well-formed
messages of peer `pid` for procedure `name` the number of rate penalties charged to (`name`, `pid`)
is exactly `(c₀ + k) / (L + 1)` and the counter stands at `(c₀ + k) % (L + 1)`.  So traffic with
`c₀ + k ≤ L` is never penalised, the excess is penalised by the `(L + 1 - c₀)`-th message at the
latest, and `m` penalties need at least `m · (L + 1) - c₀` messages. -/
theorem C18_rate_penalty_count (cfg : String → Option (Int × Int)) (name : String) (L : Nat) (p : Int)
    (hcfg : cfg name = some ((L : Int), p)) (pid : Nat) (evs : List Ev) (hnt : Ev.tick ∉ evs)
    (c : C18Cnt) (hc : c name pid ≤ L) :
    List.countP (C18isPenOf name pid) (C18rlRun cfg c evs).2 =
      (c name pid + List.countP (C18isMsgOf name pid) evs) / (L + 1) ∧
    (C18rlRun cfg c evs).1 name pid = (c name pid + List.countP (C18isMsgOf name pid) evs) % (L + 1) := by
  induction evs generalizing c with
  | nil =>
    simp only [C18rlRun, List.countP_nil, Nat.add_zero]
    constructor
    · rw [Nat.div_eq_of_lt (by omega)]
    · rw [Nat.mod_eq_of_lt (by omega)]
  | cons ev r ih =>
    have hne : ev ≠ .tick := fun h => hnt (h ▸ List.mem_cons_self)
    have hst := rl_step_count cfg name L p hcfg pid c ev hne hc
    have hih := ih (fun h => hnt (List.mem_cons_of_mem _ h)) (C18rlStep cfg c ev).1 hst.1
    simp only [C18rlRun, List.countP_append, List.countP_cons]
    rw [hih.1, hih.2]
    generalize List.countP (C18isMsgOf name pid) r = k' at *
    generalize (C18rlStep cfg c ev).1 name pid = c' at *
    generalize List.countP (C18isPenOf name pid) (C18rlStep cfg c ev).2 = d at *
    have heq : c name pid + (k' + if C18isMsgOf name pid ev = true then 1 else 0) = (c' + k') + d * (L + 1) := by
      omega
    rw [heq, Nat.add_mul_div_right _ _ (by omega : 0 < L + 1), Nat.add_mul_mod_self_right]
    exact ⟨by omega, rfl⟩

example : Ev.tick ∉ [Ev.msg 1 true ⟨some [1, 2, 3, 4], none⟩ 0 (.proc "blk"),
    .msg 1 false ⟨some [1, 2, 3, 4], none⟩ 5 .malformed, .msg 1 true ⟨some [1, 2, 3, 4], none⟩ 0 (.proc "blk"),
    .msg 1 true ⟨some [1, 2, 3, 4], none⟩ 0 (.proc "blk")] := by simp
example : List.countP (C18isPenOf "blk" 0) (C18rlRun (C18cfgOf C18exampleNode) (fun _ _ => 0)
    [Ev.msg 1 true ⟨some [1, 2, 3, 4], none⟩ 0 (.proc "blk"),
    .msg 1 false ⟨some [1, 2, 3, 4], none⟩ 5 .malformed, .msg 1 true ⟨some [1, 2, 3, 4], none⟩ 0 (.proc "blk"),
    .msg 1 true ⟨some [1, 2, 3, 4], none⟩ 0 (.proc "blk")]).2 = 1 := by decide

/-! #### disconnection along runs -/

private theorem run_append (g : Gater) (a b : List Op) : run g (a ++ b) = run (run g a) b := by
  unfold run; rw [List.foldl_append]

/-- **Message traffic never opens connections; a disconnected sender stays disconnected.**  Along
every event sequence the set of open connections only shrinks; so once a penalty has closed the
connections of a peer (`C18_excess_penalised`, `C18_bad_message_banned`), no later traffic brings
them back — only a new connection attempt can, and that has to pass the gates. -/
theorem C18_conns_only_shrink (n : Node) (evs : List Ev) :
    (∀ c ∈ (runEv n evs).conns, c ∈ n.conns) ∧
    (∀ pid, (∀ c ∈ n.conns, c.1 ≠ pid) → ∀ c ∈ (runEv n evs).conns, c.1 ≠ pid) :=
  ⟨fun c h => mem_conns_runEv evs n c h, fun _ h c hc => h c (mem_conns_runEv evs n c hc)⟩

/-- **A ban caused by a bad message survives all later traffic.**  On a node whose gater is in a
reachable state: after a malformed envelope or an envelope for an unknown procedure from a peer at
`ip` (score not negative), for EVERY later sequence of received envelopes and interval ticks
(any peers, any procedures, any limits and penalties — negative ones included —, any time stamps):
`ip` is still banned, every address-inspecting gate refuses it, and no connection to the sender is
open.  (Only an expiry pass after `now + E` ends the ban — `C18_ban_ends_exactly`.) -/
theorem C18_ban_survives_traffic (E : Nat) (pre : List Op) (n : Node) (hg : n.g = run (C18fresh E) pre)
    (hmp : n.mpStarted = true) (remote : Addr) (ip : IP) (hip : remote.ip = some ip) (pid now : Nat)
    (isReq : Bool) (k : MsgKind)
    (hk : k = .malformed ∨ ∃ name, k = .proc name ∧ findCounter n.counters name = none)
    (hnonneg : ∀ i, find n.g.peerScore ip = some i → 0 ≤ i.score)
    (evs : List Ev) (hipev : ∀ now r a p k, Ev.msg now r a p k ∈ evs → a.ip ≠ none) :
    isBanned (runEv (receive n now isReq remote pid k) evs).g ip = true ∧
    C18Refused (runEv (receive n now isReq remote pid k) evs).g ip ∧
    ∀ c ∈ (runEv (receive n now isReq remote pid k) evs).conns, c.1 ≠ pid := by
  have hs : n.g.started = true := by rw [hg]; exact (C18_reachable_wf E pre).2.1
  have hone := C18_bad_message_banned n hs remote ip hip pid now isReq k hk hnonneg 0 none
  obtain ⟨rip, rpid⟩ := remote
  simp only at hip
  subst hip
  have hr := receive_bad n hs now isReq ip rpid pid k hk
  have hg1 : (receive n now isReq ⟨some ip, rpid⟩ pid k).g =
      (addPenalty n.g now ⟨some ip, some pid⟩ maxPenaltyScore).1 := by rw [hr]; rfl
  have hmp1 : (receive n now isReq ⟨some ip, rpid⟩ pid k).mpStarted = true := by rw [hr]; exact hmp
  have hs1 : (receive n now isReq ⟨some ip, rpid⟩ pid k).g.started = true := by
    rw [hg1, (addPenalty_fields n.g now _ _).1]; exact hs
  have href := (C18_rate_limiter_refines _ hmp1 hs1 evs hipev).1
  generalize hops : (C18rlRun (C18cfgOf (receive n now isReq ⟨some ip, rpid⟩ pid k))
      (count (receive n now isReq ⟨some ip, rpid⟩ pid k)) evs).2.map C18Pen.toOp = ops at href
  have hnosweep : ∀ t, Op.sweep t ∉ ops := by
    intro t hm
    rw [← hops] at hm
    obtain ⟨p, _, hp⟩ := List.mem_map.1 hm
    simp [C18Pen.toOp] at hp
  -- the returned score of the ban penalty
  have hpen : ∃ ns, (addPenalty (run (C18fresh E) pre) now ⟨some ip, some pid⟩ maxPenaltyScore).2 = .ok ns ∧
      ns ≥ 100 := by
    rw [← hg, addPenalty_ok hs]
    refine ⟨_, rfl, ?_⟩
    cases hf : find n.g.peerScore ip with
    | none => simp [maxPenaltyScore]
    | some i =>
      have := hnonneg i hf
      simp only [maxPenaltyScore]
      omega
  obtain ⟨ns, hpen, hns⟩ := hpen
  have hT := C18_ban_period_any_clock E pre now ip (some pid) maxPenaltyScore ns hpen hns 0 (Nat.zero_le _)
    ops (fun t h => absurd h (hnosweep t)) (fun _ _ _ _ _ => Nat.zero_le _) ops.length
  rw [List.take_length] at hT
  have hgfin : (runEv (receive n now isReq ⟨some ip, rpid⟩ pid k) evs).g =
      run (C18fresh E) (pre ++ Op.pen now ⟨some ip, some pid⟩ maxPenaltyScore :: ops) := by
    rw [href, hg1, hg]
    show run (apply (run (C18fresh E) pre) (Op.pen now ⟨some ip, some pid⟩ maxPenaltyScore)) ops = _
    rw [run_append]
    rfl
  rw [hgfin]
  exact ⟨hT.1, hT.2, (C18_conns_only_shrink _ evs).2 pid hone.2.1⟩

example : isBanned (runEv (receive { C18exampleNode with conns := [(3, ⟨some [1, 2, 3, 4], none⟩)] } 5 true
      ⟨some [1, 2, 3, 4], none⟩ 3 .malformed)
    [.msg 6 true ⟨some [1, 2, 3, 4], none⟩ 3 (.proc "blk"), .tick,
     .msg 2 false ⟨some [1, 2, 3, 4], none⟩ 4 (.proc "zzz")]).g [1, 2, 3, 4] = true := by decide

/-- **The ban is per IP, the disconnection per peer id.**  Two peers (ids 1 and 2) are connected from
the same IP; peer 1 sends a malformed envelope.  The IP is banned and peer 1 is disconnected, but
peer 2 — behind the banned IP — keeps its connection (`Peer.banPeer` closes `addrInfo.ID` only),
and its traffic is still served. -/
theorem C18_ban_disconnects_only_the_penalised_peer :
    let n : Node := { C18exampleNode with conns := [(1, ⟨some [1, 2, 3, 4], none⟩), (2, ⟨some [1, 2, 3, 4], none⟩)] }
    let n' := receive n 5 true ⟨some [1, 2, 3, 4], none⟩ 1 .malformed
    isBanned n'.g [1, 2, 3, 4] = true ∧ n'.conns = [(2, ⟨some [1, 2, 3, 4], none⟩)] ∧
    (receive n' 6 true ⟨some [1, 2, 3, 4], none⟩ 2 (.proc "blk")).handled = n'.handled + 1 := by decide

/-! #### accumulation per IP, across peer ids, connections and reconnects -/

/-- sum of the penalties against `ip` (whatever peer id / transport the address carries) -/
def C18sum (ip : IP) : List Op → Int
  | [] => 0
  | .pen _ a s :: r => (if a.ip = some ip then s else 0) + C18sum ip r
  | _ :: r => C18sum ip r

private theorem sum_fold (E : Nat) (ip : IP) (ops : List Op) (ep : C18Epoch)
    (hns : ∀ t, Op.sweep t ∉ ops) :
    C18total (ops.foldl (C18epochStep E ip) ep) = C18total ep + C18sum ip ops := by
  induction ops generalizing ep with
  | nil => simp [C18sum]
  | cons op r ih =>
    have hns' : ∀ t, Op.sweep t ∉ r := fun t h => hns t (List.mem_cons_of_mem _ h)
    cases op with
    | pen now a s =>
      by_cases ha : a.ip = some ip
      · simp only [List.foldl, C18epochStep, ha, if_true, C18sum]
        rw [ih _ hns']
        simp only [C18total]
        omega
      · simp only [List.foldl, C18epochStep, ha, if_false, C18sum]
        rw [ih _ hns']
        omega
    | sweep now => exact absurd List.mem_cons_self (hns now)
    | start => exact ih ep hns'
    | block _ => exact ih ep hns'
    | unblock _ => exact ih ep hns'
    | blacklist _ => exact ih ep hns'

/-- **Penalties accumulate per IP — across peer ids, connections and reconnects.**  Along every run
without an expiry pass, the score of `ip` is the plain sum of all penalties whose address has that
IP, whichever peer id or transport part the address carries and in whatever order they arrive; and
closing or opening connections never touches the gater, so the score survives a reconnect. -/
theorem C18_score_is_sum_per_ip (E : Nat) (ops : List Op) (ip : IP) (hns : ∀ t, Op.sweep t ∉ ops) :
    (∀ i, find (run (C18fresh E) ops).peerScore ip = some i → i.score = C18sum ip ops) ∧
    (∀ (n : Node) (p : Nat), (disconnect n p).g = n.g) ∧
    (∀ (n : Node) (inb : Bool) (a : Addr) (p : Nat), (connect n inb a p).1.g = n.g) := by
  refine ⟨?_, fun _ _ => rfl, ?_⟩
  · intro i hi
    rw [(C18_ban_iff_threshold E ops ip).2.1 i hi]
    unfold C18epoch
    rw [sum_fold E ip ops [] hns]
    simp [C18total]
  · intro n inb a p
    unfold connect
    simp only
    split <;> split <;> rfl

example : find (run (C18fresh 5) [.pen 1 ⟨some [1, 1, 1, 1], some 0⟩ 30, .pen 1 ⟨some [2, 2, 2, 2], some 1⟩ 100,
    .pen 2 ⟨some [1, 1, 1, 1], some 2⟩ 30, .pen 0 ⟨some [1, 1, 1, 1], none⟩ 45]).peerScore [1, 1, 1, 1] =
    some ⟨105, 5⟩ := by decide

/-- **`Connection.ApplyPenalty` charges the penalty once per open connection.**  A peer with two open
connections from one IP receives `ApplyPenalty(pid, 60)`: its IP is charged 120 and banned, although
a single penalty of 60 is below the threshold. -/
theorem C18_apply_penalty_counts_per_connection :
    let n : Node := { g := C18fresh 10, mpStarted := true,
                      conns := [(7, ⟨some [1, 2, 3, 4], none⟩), (7, ⟨some [1, 2, 3, 4], none⟩)] }
    find (applyPenalty n 5 7 60).g.peerScore [1, 2, 3, 4] = some ⟨120, 15⟩ ∧
    isBanned (applyPenalty n 5 7 60).g [1, 2, 3, 4] = true ∧ (applyPenalty n 5 7 60).conns = [] ∧
    find (applyPenalty { n with conns := [(7, ⟨some [1, 2, 3, 4], none⟩)] } 5 7 60).g.peerScore [1, 2, 3, 4] =
      some ⟨60, -1⟩ := by decide
