/-
C17 — lock discipline of the per-procedure rate limiter (pkg/p2p/ratelimit.go), on skeletons
REGENERATED from the Go source.

Every request / response stream handled by `MessageProtocol.onRequest` / `onResponse` first calls
`rateLimit.increaseCounter` and `rateLimit.checkLimit`, which lock the mutex of the procedure's counter
(`rpcMessageCounter.mu`); the goroutine `rateLimiterHandler` resets all counters on a ticker, locking
each counter in a `range` loop. A path that leaves such a mutex locked — a `continue` / `break` /
`return` between `Lock()` and `Unlock()`, a dropped `defer Unlock()` — blocks every later message of
that procedure for ever (no reply is delivered, `Stop()` hangs). `tools/skelgen` (group `p2p`) extracts
the methods of `rateLimit`, the plain function `rateLimiterHandler`, their call sites in
message_protocol.go and what `checkLimit` calls with the mutex held (`Peer.addPenalty` → connection
gater → `Peer.Disconnect`) into `Gen/SkeletonsP2P.lean` on every check run; all counters share the
skeleton mutex name `rpcMessageCounter.mu` (whether reached through `rl.rpcMessageCounters[x].mu`, a
local alias or the range variable). A `continue` / `break` ends the iteration at that point, a `return`
ends the function: the abstract interpreter then sees the lock set at the end of the iteration / at the
return, and `lockBalanced` fails when it is not the one the iteration / the function started with.

  (a) lock balance on every path of every rate-limiter entry      `C17_rate_locks_balanced`
      (+ meaning on paths: `C17_rate_balanced_paths_end_unlocked`, `C17_rate_handler_parks_unlocked`)
  (b) no re-entrant acquisition; order resMu < counter mu < gater `C17_rate_no_reentrant_lock`, `C17_rate_lock_order`
  (c) `counters` only accessed under `mu` (writes exclusively)    `C17_rate_counters_guarded`
  (d) deadlock freedom for any number of goroutines               `C17_rate_deadlock_free`
      (all entry points of the p2p group together, `Peer.Disconnect` taken as a call that returns)
  (e) what `checkLimit` does under the lock (criterion 3 FAILS)   `C17_rate_checkLimit_penalty_under_lock`,
      and the precise statement that does hold                    `C17_rate_penalty_call_confined`
  (f) the seeded variant (`continue` with the mutex held)         `C17_rate_seeded_violates_balance`,
      `C17_rate_seeded_blocks_all_callers`, `C17_rate_seeded_holder_blocks_every_caller`
-/
import LiskVerif.Props.C20
import LiskVerif.Gen.SkeletonsP2P

open LiskVerif LiskVerif.Locks

/- This file does not import Props/C17_Skel.lean (whose obligations cover the message protocol, with
the rate limiter inlined): a change confined to ratelimit.go is then reported by the obligations
below, by name, and not through a failed import. -/

namespace C17Rate

/-- configuration regenerated from the source: call table, guards, lock order -/
def cfg : Cfg := ⟨Gen.SkeletonsP2P.table, Gen.SkeletonsP2P.guards, Gen.SkeletonsP2P.lockOrder⟩

def resMu : String := "MessageProtocol.resMu"
def counterMu : String := "rpcMessageCounter.mu"
/-- the network operation called (through `Peer.addPenalty`) with a counter mutex held -/
def disconnect : String := "Peer.Disconnect"

/-- the regenerated configuration in which `Peer.Disconnect` is an ordinary call that returns -/
def cfgE : Cfg :=
  ⟨Gen.SkeletonsP2P.table.eraseBlockingCalls [disconnect], Gen.SkeletonsP2P.guards, Gen.SkeletonsP2P.lockOrder⟩

/-- every regenerated entry point of the p2p group (message protocol, rate limiter, penalty path,
connection gater) -/
def entryTable : Table :=
  Gen.SkeletonsP2P.table.filter (fun e => Gen.SkeletonsP2P.entries.contains e.1)

def entryTableE : Table := cfgE.tbl.filter (fun e => Gen.SkeletonsP2P.entries.contains e.1)

/-- a function of ratelimit.go: a method of `rateLimit` or the plain function `rateLimiterHandler` -/
def isRate (f : String) : Bool := "rateLimit".toList.isPrefixOf f.toList

/-- the entry points that reach `rateLimit.checkLimit`, hence `Peer.Disconnect` under the counter mutex -/
def penaltyUnderLock : List String :=
  ["rateLimit.checkLimit", "MessageProtocol.onRequest", "MessageProtocol.onResponse", "MessageProtocol.start"]

/-- the stream handlers that call the rate limiter for every received message -/
def callers : List String := ["MessageProtocol.onRequest", "MessageProtocol.onResponse"]

/-- the regenerated rate-limiter entry points (quantified obligations range over this table, so a
method added to `rateLimit` is covered automatically) -/
def rateTable : Table := entryTable.filter (fun e => isRate e.1)

/-- … together with their call sites in the message protocol -/
def scopeTable : Table := entryTable.filter (fun e => isRate e.1 || callers.contains e.1)

def gaterMu : String := "connectionGater.mutex"
def counters : String := "rpcMessageCounter.counters"

/-- the functions that must be present -/
def required : List String :=
  ["rateLimit.increaseCounter", "rateLimit.checkLimit", "rateLimit.addRPCMessageCounter", "rateLimit.start",
   "rateLimiterHandler"]

/-- two mutexes are never held together by one goroutine (all observations of the analysis) -/
def neverHeldTogether (c : Cfg) (m1 m2 : String) (s : Skel) : Bool :=
  match analyse c.tbl fuelDefault s with
  | none => false
  | some (obs, _) => obs.all (fun o => !(holds o.1 m1 && holds o.1 m2))

/-- the mutexes a body may acquire, calls inlined (fuel exhausted: reported as "?") -/
def acquired (tbl : Table) : Nat → List Act → List String
  | 0, _ => ["?"]
  | _ + 1, [] => []
  | n + 1, a :: k =>
    (match a with
     | .lock m => [m]
     | .rlock m => [m]
     | .call f => match tbl.find f with
        | some b => acquired tbl n b
        | none => ["?"]
     | .go b => acquired tbl n b
     | .loop b => acquired tbl n b
     | .choice alts => alts.flatMap (acquired tbl n)
     | _ => []) ++ acquired tbl n k

/-- some observation of the analysis satisfies `p` (non-vacuity of the universally quantified criteria) -/
def someObs (c : Cfg) (p : Obs → Bool) (s : Skel) : Bool :=
  match analyse c.tbl fuelDefault s with
  | none => false
  | some (obs, _) => obs.any p

end C17Rate

open C17Rate

/-! ## (a) lock balance -/

/-- **meaning of `lockBalanced` on paths**: every complete path of the function — calls inlined to any
depth, loops iterated up to any bound, whichever way it reaches a `return` or its end — and every path
of a goroutine it spawns ends holding no lock. -/
theorem C17_rate_balanced_paths_end_unlocked (c : Cfg) (s : Skel) (h : lockBalanced c s = true)
    (u : Nat) (p : Path) (hp : IsThreadPath c.tbl u s p) : heldAfterPath [] p = [] := by
  unfold lockBalanced at h
  cases ha : analyse c.tbl fuelDefault s with
  | none => simp [ha] at h
  | some r =>
    obtain ⟨obs, ends⟩ := r
    simp only [ha, Bool.and_eq_true, List.all_eq_true] at h
    rcases (thread_paths_sound ha p hp).2 with hin | hnil | hbad
    · simpa using h.2 _ hin
    · exact hnil
    · have := h.1 _ hbad
      simp [badEnd, obsBalanced] at this

/-- **(a) every path of every rate-limiter entry releases every lock it acquired**: for each regenerated
entry of ratelimit.go and each stream handler calling them, the analysis succeeds (each loop iteration —
including one left by `continue` / `break` — ends with the lock set it started with), every release
matches a held lock, and every path to a `return` or to the end of the function holds nothing. -/
theorem C17_rate_locks_balanced :
    scopeTable.all (fun e => lockBalanced C17Rate.cfg e.2) = true := by
  decide +kernel

/-- the quantification is not vacuous: the rate-limiter functions are regenerated entry points, the
locking ones do acquire the counter mutex, and the handlers do call them -/
theorem C17_rate_required_functions_present :
    C17Rate.required.all (fun f => (rateTable.find f).isSome) = true ∧
    callers.all (fun f => (scopeTable.find f).isSome) = true ∧
    [Gen.SkeletonsP2P.rateLimit_increaseCounter, Gen.SkeletonsP2P.rateLimit_checkLimit,
     Gen.SkeletonsP2P.rateLimiterHandler, Gen.SkeletonsP2P.MessageProtocol_onRequest,
     Gen.SkeletonsP2P.MessageProtocol_onResponse].all
      (fun s => (acquired Gen.SkeletonsP2P.table 30 s).contains counterMu) = true := by
  decide

/-- the reset goroutine parks at its ticker (and at `ctx.Done()`) holding nothing — i.e. no counter
mutex survives one round of the reset loop — and it does lock, write and unlock each counter -/
theorem C17_rate_handler_parks_unlocked :
    noBlockingInCS C17Rate.cfg Gen.SkeletonsP2P.rateLimiterHandler = true ∧
    lockBalanced C17Rate.cfg Gen.SkeletonsP2P.rateLimiterHandler = true ∧
    someObs C17Rate.cfg (fun o => o.2 == Prim.write counters && holdsW o.1 counterMu)
      Gen.SkeletonsP2P.rateLimiterHandler = true ∧
    someObs C17Rate.cfg (fun o => o.2 == Prim.rel counterMu) Gen.SkeletonsP2P.rateLimiterHandler = true := by
  decide

/-- by name (a failing function is reported by name) -/
theorem C17_rate_increaseCounter_balanced :
    lockBalanced C17Rate.cfg Gen.SkeletonsP2P.rateLimit_increaseCounter = true := by decide
theorem C17_rate_checkLimit_balanced :
    lockBalanced C17Rate.cfg Gen.SkeletonsP2P.rateLimit_checkLimit = true := by decide
theorem C17_rate_handler_balanced :
    lockBalanced C17Rate.cfg Gen.SkeletonsP2P.rateLimiterHandler = true := by decide

/-! ## (b) re-entrancy and lock order, (c) lockset -/

/-- **(b) no re-entrant acquisition** of a counter mutex (or any other) in the rate limiter and in the
handlers calling it. All counters share one mutex name, so this also excludes holding two counters'
mutexes at once. -/
theorem C17_rate_no_reentrant_lock :
    scopeTable.all (fun e => noReentrantAcquire C17Rate.cfg e.2) = true := by
  decide +kernel

/-- **(b) lock order** `resMu` < `rpcMessageCounter.mu` < `connectionGater.mutex`: a counter mutex is
never requested while the gater mutex is held, `resMu` never while a counter mutex is held; in fact
`resMu` and a counter mutex are never held together (the rate-limit check is done before the critical
section of `resMu`), while the gater mutex IS taken under the counter mutex (`checkLimit` → `addPenalty`). -/
theorem C17_rate_lock_order :
    Gen.SkeletonsP2P.lockOrder = [resMu, counterMu, gaterMu] ∧
    scopeTable.all (fun e => lockOrderOk C17Rate.cfg e.2) = true ∧
    entryTable.all (fun e => neverHeldTogether C17Rate.cfg resMu counterMu e.2) = true ∧
    neverHeldTogether C17Rate.cfg counterMu gaterMu Gen.SkeletonsP2P.rateLimit_checkLimit = false := by
  refine ⟨rfl, ?_, ?_, ?_⟩ <;> decide +kernel

/-- **(c) `counters` is only accessed under `mu`**: read with the counter mutex held, written with it
held exclusively, in every rate-limiter entry and in the handlers (criterion 4); the guard table does
tie `counters` to `mu` and the accesses exist. -/
theorem C17_rate_counters_guarded :
    Gen.SkeletonsP2P.guards.lookup counters = some counterMu ∧
    scopeTable.all (fun e => locksetOk C17Rate.cfg e.2 && wellFormed C17Rate.cfg e.2) = true ∧
    someObs C17Rate.cfg (fun o => o.2 == Prim.write counters) Gen.SkeletonsP2P.rateLimit_increaseCounter = true ∧
    someObs C17Rate.cfg (fun o => o.2 == Prim.read counters) Gen.SkeletonsP2P.rateLimit_checkLimit = true := by
  refine ⟨rfl, ?_, ?_, ?_⟩ <;> decide +kernel

/-! ## (e) what `checkLimit` does under the lock -/

/-- **FACT (candidate finding): `checkLimit` applies the penalty with the counter mutex held.**
Criterion (3) "no possibly blocking operation inside a critical section" fails on the CURRENT source
for `rateLimit.checkLimit` and hence for `onRequest` / `onResponse`: there is a path of `checkLimit`
on which `Peer.Disconnect` (`host.Network().ClosePeer`, a network operation) is reached with exactly
`rpcMessageCounter.mu` held. While it runs, every other message of the same procedure (any peer) waits
in `increaseCounter`, and so does the reset goroutine. (This theorem breaks — and must be replaced by
`noBlockingInCS … = true` — once the penalty is applied after the mutex is released.) -/
theorem C17_rate_checkLimit_penalty_under_lock :
    noBlockingInCS C17Rate.cfg Gen.SkeletonsP2P.rateLimit_checkLimit = false ∧
    noBlockingInCS C17Rate.cfg Gen.SkeletonsP2P.MessageProtocol_onRequest = false ∧
    noBlockingInCS C17Rate.cfg Gen.SkeletonsP2P.MessageProtocol_onResponse = false ∧
    ∃ p ∈ bodyPaths Gen.SkeletonsP2P.table 0 40 Gen.SkeletonsP2P.rateLimit_checkLimit,
      ([(counterMu, Mode.W)], Prim.block disconnect) ∈ trace [] p := by
  refine ⟨by decide, by decide, by decide, ?_⟩
  decide +kernel

/-- **what does hold.** In every entry point of the p2p group: `Peer.Disconnect` is the ONLY possibly
blocking operation ever performed inside a critical section, and then exactly the counter mutex is held
— never `resMu`, never the gater mutex (it is released when `connectionGater.addPenalty` returns);
nothing reachable from `Peer.addPenalty` acquires a counter mutex or `resMu` again (it acquires the gater
mutex only), so the penalty call cannot self-deadlock or invert the lock order; and with `Peer.Disconnect`
taken as a call that returns, all criteria hold (`C17_rate_all_entries_ok_modulo_disconnect`). -/
theorem C17_rate_penalty_call_confined :
    entryTable.all (fun e => blockingOnly C17Rate.cfg [disconnect] [counterMu] e.2) = true ∧
    entryTable.all (fun e => noBlockingHolding C17Rate.cfg resMu e.2) = true ∧
    entryTable.all (fun e => noBlockingHolding C17Rate.cfg gaterMu e.2) = true ∧
    acquired Gen.SkeletonsP2P.table 30 Gen.SkeletonsP2P.Peer_addPenalty = [gaterMu] ∧
    entryTable.all (fun e => penaltyUnderLock.contains e.1 || noBlockingInCS C17Rate.cfg e.2) = true := by
  refine ⟨?_, ?_, ?_, ?_, ?_⟩ <;> decide +kernel

/-! ## (d) deadlock freedom -/

/-- with `Peer.Disconnect` taken as an ordinary call that returns, EVERY entry point of the p2p group
(message protocol, rate limiter, penalty path, connection gater) satisfies all criteria, (3) included -/
theorem C17_rate_all_entries_ok_modulo_disconnect :
    entryTableE.all (fun e => criteria cfgE e.2) = true ∧
    entryTableE.map (·.1) = Gen.SkeletonsP2P.entries := by
  decide +kernel

/-- **(d) Deadlock freedom with the rate limiter** (instance of `C20_criteria_imply_deadlock_free`),
`Peer.Disconnect` being a call that returns: any number of goroutines, each running a path of ANY
regenerated entry point of the p2p group — `increaseCounter`, `checkLimit`, the reset goroutine
`rateLimiterHandler`, the stream handlers `onRequest` / `onResponse` calling them, requesters, the
connection gater and its expiry goroutine — under any schedule: no reachable state is deadlocked; in
every reachable state some goroutine can step, or all are finished or parked at a ticker / channel
holding no lock — no goroutine waits for a counter mutex, `resMu` or the gater mutex for ever. -/
theorem C17_rate_deadlock_free (u : Nat) (ps : List Path)
    (hps : ∀ p ∈ ps, ∃ e ∈ entryTableE, IsThreadPath cfgE.tbl u e.2 p)
    (st : State) (hr : Reachable (initState ps) st) :
    deadlocked st = false ∧ (quiescent st = true ∨ ∃ i, canStepInternal st i = true) := by
  have hall := C17_rate_all_entries_ok_modulo_disconnect.1
  simp only [List.all_eq_true] at hall
  have hprog := C20_criteria_imply_deadlock_free cfgE u (entryTableE.map (·.2))
    (by
      intro s hs
      obtain ⟨e, he, rfl⟩ := List.mem_map.mp hs
      have hc := hall e he
      simp only [criteria, Bool.and_eq_true] at hc
      exact hc.1)
    ps
    (by
      intro p hp
      obtain ⟨e, he, hpath⟩ := hps p hp
      exact ⟨e.2, List.mem_map.mpr ⟨e, he, rfl⟩, hpath⟩)
    st hr
  exact ⟨C20.no_deadlocked_of_progress st hprog, hprog⟩

/-- … and race freedom on the guarded tables (`counters`, `resCh`, the gater's `peerScore` /
`blockedAddrs`) under the same hypotheses (instance of `C20_lockset_implies_race_free`) -/
theorem C17_rate_race_free (u : Nat) (ps : List Path)
    (hps : ∀ p ∈ ps, ∃ e ∈ entryTableE, IsThreadPath cfgE.tbl u e.2 p)
    (st : State) (hr : Reachable (initState ps) st) (i j : Nat) : raceAt st i j = false := by
  have hall := C17_rate_all_entries_ok_modulo_disconnect.1
  simp only [List.all_eq_true] at hall
  apply C20_lockset_implies_race_free cfgE u (entryTableE.map (·.2)) _ ps _ st hr
  · intro s hs
    obtain ⟨e, he, rfl⟩ := List.mem_map.mp hs
    have hc := hall e he
    simp only [criteria, deadlockCriteria, Bool.and_eq_true] at hc
    exact ⟨hc.1.1.1.1, hc.2⟩
  · intro p hp
    obtain ⟨e, he, hpath⟩ := hps p hp
    exact ⟨e.2, List.mem_map.mpr ⟨e, he, rfl⟩, hpath⟩

/-! ## (f) the seeded variant: `continue` with the counter mutex held -/

namespace C17Rate.Seeded

/-- `rateLimiterHandler` with the seeded change (hand-written; what skelgen emits for it):
```
for _, rpcMessageCounter := range rl.rpcMessageCounters {
    rpcMessageCounter.mu.Lock()
    if len(rpcMessageCounter.counters) == 0 { continue }   // leaves mu locked
    rpcMessageCounter.counters = make(map[PeerID]int)
    rpcMessageCounter.mu.Unlock()
}
``` -/
def handler : Skel :=
  [.loop [.choice [[.recv "t.C",
            .loop [.lock "rpcMessageCounter.mu",
                .read "rpcMessageCounter.counters",
                .choice [[],
                   [.write "rpcMessageCounter.counters",
                     .unlock "rpcMessageCounter.mu"]]]],
          [.recv "ctx.Done()",
            .ret]]]]

/-- `increaseCounter` as it is today (hand copy, so that the counterexample below does not depend on the
regenerated file) -/
def increaseCounter : Skel :=
  [.lock "rpcMessageCounter.mu", .deferUnlock "rpcMessageCounter.mu", .read "rpcMessageCounter.counters",
   .write "rpcMessageCounter.counters"]

/-- `increaseCounter` without its `defer …Unlock()` (second seeded variant) -/
def increaseNoUnlock : Skel :=
  [.lock "rpcMessageCounter.mu", .read "rpcMessageCounter.counters", .write "rpcMessageCounter.counters"]

def table : Table := [("rateLimiterHandler", handler)] ++ Gen.SkeletonsP2P.table
def cfg : Cfg := ⟨table, Gen.SkeletonsP2P.guards, Gen.SkeletonsP2P.lockOrder⟩

/-- two rounds of the seeded reset goroutine: in the first round the counter is empty (`continue`), the
second round locks a counter again -/
def handlerPath : Path :=
  [.block "t.C", .acq "rpcMessageCounter.mu", .read "rpcMessageCounter.counters",
   .block "t.C", .acq "rpcMessageCounter.mu", .read "rpcMessageCounter.counters",
   .write "rpcMessageCounter.counters", .rel "rpcMessageCounter.mu"]

/-- a stream handler in `increaseCounter` -/
def callerPath : Path :=
  [.acq "rpcMessageCounter.mu", .read "rpcMessageCounter.counters", .write "rpcMessageCounter.counters",
   .rel "rpcMessageCounter.mu"]

end C17Rate.Seeded

/-- **(f) the seeded variant violates (a)**: the analysis rejects the reset loop (an iteration can end
holding `rpcMessageCounter.mu`), so `lockBalanced` — and with it `wellFormed` and every criterion — is
false for it, while the same checks pass on the regenerated handler; likewise for an `increaseCounter`
that lost its deferred unlock (function ends holding the mutex). -/
theorem C17_rate_seeded_violates_balance :
    lockBalanced C17Rate.Seeded.cfg C17Rate.Seeded.handler = false ∧
    (analyse C17Rate.Seeded.table fuelDefault C17Rate.Seeded.handler).isNone = true ∧
    wellFormed C17Rate.Seeded.cfg C17Rate.Seeded.handler = false ∧
    lockBalanced C17Rate.Seeded.cfg C17Rate.Seeded.increaseNoUnlock = false ∧
    lockBalanced C17Rate.cfg Gen.SkeletonsP2P.rateLimiterHandler = true := by
  decide

/-- **(f) … and reaches a state where every `increaseCounter` caller is blocked**: `handlerPath` is a
path of the seeded handler and `callerPath` the path of `increaseCounter`; after the first
tick on an empty counter the handler holds the mutex; the callers (here three) announce their `Lock()`
and wait; at the next tick the handler itself requests the mutex it still holds. No thread can step any
more: the state is deadlocked (and the handler never reaches `ctx.Done()`, so `Stop()` hangs). -/
theorem C17_rate_seeded_blocks_all_callers :
    C17Rate.Seeded.handlerPath ∈ bodyPaths C17Rate.Seeded.table 2 40 C17Rate.Seeded.handler ∧
    C17Rate.Seeded.callerPath ∈ bodyPaths C17Rate.Seeded.table 0 20 C17Rate.Seeded.increaseCounter ∧
    ∃ st, run (initState [C17Rate.Seeded.handlerPath, C17Rate.Seeded.callerPath, C17Rate.Seeded.callerPath,
        C17Rate.Seeded.callerPath]) [0, 0, 0, 0, 1, 2, 3, 0, 0] = some st ∧
      deadlocked st = true ∧
      (st.drop 1).all (fun t => t.waiting == some counterMu && t.held.isEmpty) = true := by
  refine ⟨by decide +kernel, by decide +kernel, _, rfl, ?_, ?_⟩ <;> decide

/-- … for ANY number of callers and whatever else runs: as long as some goroutine holds the counter
mutex (the seeded handler after its `continue`, which never releases it), a goroutine that has called
`Lock()` on it cannot proceed. -/
theorem C17_rate_seeded_holder_blocks_every_caller (s : State) (holder : Thread) (hh : holder ∈ s)
    (hheld : holds holder.held counterMu = true) (t : Thread) (rest : Path)
    (ht : t.prog = Prim.acq counterMu :: rest) (hw : t.waiting = some counterMu) :
    stepThread s t = none := by
  have hany : anyHolds s counterMu = true := by
    unfold anyHolds
    exact List.any_eq_true.mpr ⟨holder, hh, hheld⟩
  simp [stepThread, ht, hw, hany]

/-! ## non-vacuity -/

/-- the hypotheses of `C17_rate_deadlock_free` are satisfiable: complete paths of the regenerated reset
goroutine (one tick over one counter) and of `onResponse` going through `increaseCounter`, `checkLimit`
and the critical section of `resMu` -/
example :
    (∃ e ∈ entryTableE, e.1 = "rateLimiterHandler" ∧
      ∃ p ∈ bodyPaths cfgE.tbl 1 40 e.2,
        p.contains (.acq "rpcMessageCounter.mu") = true ∧ p.contains (.rel "rpcMessageCounter.mu") = true) ∧
    (∃ e ∈ entryTableE, e.1 = "MessageProtocol.onResponse" ∧
      ∃ p ∈ bodyPaths cfgE.tbl 1 60 e.2,
        p.contains (.acq "rpcMessageCounter.mu") = true ∧ p.contains (.acq "MessageProtocol.resMu") = true) := by
  decide +kernel

/-- `lockBalanced` distinguishes `continue` before and after the unlock on a small hand-made loop -/
example :
    lockBalanced ⟨[], [], []⟩ [.loop [.lock "m", .choice [[], [.unlock "m"]]]] = false ∧
    lockBalanced ⟨[], [], []⟩ [.loop [.lock "m", .choice [[.unlock "m"], [.unlock "m"]]]] = true ∧
    lockBalanced ⟨[], [], []⟩ [.lock "m", .choice [[.ret], []], .unlock "m"] = false ∧
    lockBalanced ⟨[], [], []⟩ [.lock "m", .deferUnlock "m", .choice [[.ret], []]] = true := by
  decide

/-- the blocked-caller lemma applies to the deadlocked state of `C17_rate_seeded_blocks_all_callers` -/
example : ∃ st, run (initState [C17Rate.Seeded.handlerPath, C17Rate.Seeded.callerPath]) [0, 0, 0, 0, 1] = some st ∧
    ∃ holder ∈ st, holds holder.held counterMu = true := by
  refine ⟨_, rfl, ?_⟩
  decide
