/-
C16 — tie A for the two places of the application framework where a result must not share memory with
what it was built from (`Gen/AliasFW.lean`, REGENERATED from the Go source on every check run by
tools/aliasgen `-set fw`; the meaning of the classes is that of `Model/Alias.lean` / `Props/C20_Alias.lean`
and is trusted).

* `getTreeKey` (pkg/framework/state_batch.go) receives the state-db key slice that `cacheDB.commit` has just
  put into the `Diff` (Added / Updated.Key / Deleted.Key) and that the pebble batch was given: its result,
  the key in the state tree, must be FRESH memory. A result that is a view of the parameter (`param`: e.g.
  `append(keyBytes[1:7], hash...)`) lets the tree key overwrite the caller's key — the stored diff then names
  prefix ‖ hash(key) instead of the key and Revert / restart recovery undo the wrong keys
  (`C16_alias_tree_key_fresh`).
* `EventLogger.createEvent` (pkg/statemachine/event_logger.go) builds the event that is logged: the only
  memory of the logger an event may reach is the default topic (the bytes `SetDefaultTopic` was given, shared
  read-only by all events of the call); the logger has no other field that holds topics — a topic slice
  prepared per default topic and shared by the events of a call (`append(l.baseTopics, topics...)`) shows as a
  view of another field and as a new written field (`C16_alias_event_reaches_default_topic_only`,
  `C16_alias_logger_fields`).

Limits: the classifier does not separate the backing array of the event's topic slice from the topic bytes
it holds (both are "deep" memory of the event record), so the obligation on `createEvent` is stated through
the field the view comes from; the correspondence C16WIDE (every topic of every event compared) is the
behavioural check.
-/
import LiskVerif.Gen.AliasFW

open LiskVerif LiskVerif.Alias

namespace C16.Alias

/-- (function, result, why) of the results whose memory the caller does not own outright -/
def views : List (String × Nat × String) :=
  (Gen.AliasFW.table.filter fun r => !(r.shallow.owned && r.deep.owned)).map fun r => (r.name, r.result, r.why)

end C16.Alias

/-- `getTreeKey` is classified (the function exists under this name, with one memory-carrying result) -/
theorem C16_alias_tree_key_classified :
    (Gen.AliasFW.table.filter fun r => r.name == "state_batch.getTreeKey").map (·.result) = [0] := by
  decide +kernel

/-- **The tree key is built in fresh memory**: the result of `getTreeKey` is neither a view of its parameter
(the key slice the caller keeps) nor of anything else. -/
theorem C16_alias_tree_key_fresh :
    ∀ r ∈ Gen.AliasFW.table, r.name = "state_batch.getTreeKey" → r.shallow = .fresh ∧ r.deep = .fresh := by
  decide +kernel

/-- **An event reaches the logger's memory only through the default topic**: among all results of the event
logger and of the state batch, the only one that is not owned by the caller is the event built by
`createEvent`, and the field of the logger it reaches is `defaultTopic` (no unknown construct anywhere). -/
theorem C16_alias_event_reaches_default_topic_only :
    C16.Alias.views = [("EventLogger.createEvent", 0, "defaultTopic via blockchain.NewEventFromValues")] := by
  decide +kernel

/-- **The logger holds no prepared topics**: the fields of `EventLogger` that any statement writes are the
default topic (written by `SetDefaultTopic` only), the list of events and the snapshot index. -/
theorem C16_alias_logger_fields :
    Gen.AliasFW.fieldWrites.filter (fun w => w.1.startsWith "EventLogger.") =
      [("EventLogger.defaultTopic", "EventLogger.SetDefaultTopic"),
       ("EventLogger.events", "EventLogger.Add"),
       ("EventLogger.events", "EventLogger.AddUnrevertible"),
       ("EventLogger.events", "EventLogger.RestoreSnapshot"),
       ("EventLogger.snapshotIndex", "EventLogger.CreateSnapshot"),
       ("EventLogger.snapshotIndex", "EventLogger.RestoreSnapshot")] := by
  decide +kernel

/-- the state batch only appends to its own key / value lists -/
theorem C16_alias_batch_fields :
    Gen.AliasFW.fieldWrites.filter (fun w => w.1.startsWith "stateSMTBatch.") =
      [("stateSMTBatch.keys", "stateSMTBatch.Del"), ("stateSMTBatch.keys", "stateSMTBatch.Set"),
       ("stateSMTBatch.values", "stateSMTBatch.Del"), ("stateSMTBatch.values", "stateSMTBatch.Set")] := by
  decide +kernel

/-- non-vacuity: the table holds the four classified results -/
example : Gen.AliasFW.table.length = 4 := by decide
