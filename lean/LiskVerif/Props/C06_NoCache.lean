/-
C06 — no consensus entry point keeps a view of the consensus store across calls (tie A + the reason).

The model of the certificate protocol (Model/Cert.lean) evaluates every entry point on the CURRENT chain
state; the theorems of Props/C06*.lean hold "after any history of operations interleaved with chain growth
and reorganisations" because nothing but the pool survives a call.  The real code reads the BFT state
through `diffdb.Database` views, which remember every key they have read.  The correspondence therefore
needs: a view never outlives the call (block) that created it.

Part 1 (semantics, all inputs): a fresh view answers every entry point as specified; a view kept under a
renewal rule ("renew when the height of the last block changed") answers wrongly as soon as two chain
states with different store contents share the rule's key - a tip replaced at the same height, a
reorganisation ending at a height seen before.

Part 2 (tie A): tools/storegen regenerates `Gen/StoreSites.lean` from pkg/consensus on every check run:
the fields of `Executer`, all struct fields / globals / function results of a diffdb type, every
`diffdb.New` / `WithPrefix` call with its enclosing function and binding, every place where a view leaves
a function, and through which variable each certificate entry point reads.  The theorems state the exact
tables: a new field of `Executer` (a memoized store, a cached height ..), a helper that hands out a view, a
view stored in a struct, or an entry point that does not create its store itself breaks a named theorem.
-/
import LiskVerif.Gen.StoreSites
import LiskVerif.Lemmas.StoreView

open LiskVerif LiskVerif.StoreView LiskVerif.Gen.StoreSites

/-! ## Part 1: why the store has to be created inside the call -/

/-- an entry point run through a FRESH view returns exactly what the specification (reading the current
database) returns - for every entry point and database -/
theorem C06_fresh_view_is_current {α : Type} (p : Prog α) (db : DB) :
    (p.run View.fresh db).2 = p.spec db :=
  (Prog.run_eq_spec p View.fresh db (fresh_agrees db)).1

/-- more generally: a view all of whose remembered reads still agree with the database -/
theorem C06_agreeing_view_is_current {α : Type} (p : Prog α) (v : View) (db : DB) (h : v.agrees db) :
    (p.run v db).2 = p.spec db :=
  (Prog.run_eq_spec p v db h).1

/-- a memoized view is right as long as the database does not change between the calls -/
theorem C06_memo_same_database {α β : Type} (key : DB → Nat) (p : Prog α) (q : Prog β) (db : DB) :
    (Memo.call key (Memo.call key none p db).1 q db).2 = q.spec db := by
  simp only [Memo.call, if_true]
  exact (Prog.run_eq_spec q _ db (Prog.run_eq_spec p View.fresh db (fresh_agrees db)).2).1

/-- THE DEFECT CLASS: whatever the renewal rule looks at (`key`: the height of the last block ..) - if two
states of the database share the key and differ in one stored value, an entry point that was called in the
first state answers wrongly in the second -/
theorem C06_keyed_memo_is_stale (key : DB → Nat) (db db' : DB) (k : Nat)
    (hkey : key db = key db') (hne : db k ≠ db' k) :
    ∃ p : Prog (Option Nat), (Memo.call key (Memo.call key none p db).1 p db').2 ≠ p.spec db' := by
  refine ⟨.read k .ret, ?_⟩
  simp [Memo.call, Prog.run, Prog.spec, View.get, View.fresh, lookup, hkey, hne]

/-- non-vacuity: tip A (certified height 8 under key 0) replaced by tip B (certified height 0) at the
same block height 14: the memoized view still reports 8 -/
example :
    let key : DB → Nat := fun _ => 14
    let dbA : DB := fun k => if k = 0 then some 8 else none
    let dbB : DB := fun k => if k = 0 then some 0 else none
    let p : Prog (Option Nat) := .read 0 .ret
    (Memo.call key (Memo.call key none p dbA).1 p dbB).2 = some 8 ∧ p.spec dbB = some 0 := by decide

/-- the second read of a key is served from the view's memory -/
example :
    let r := (Prog.read 3 (fun x => Prog.read 3 (fun y => Prog.ret (x, y)))).run View.fresh (fun _ => some 7)
    r.1.cache = [(3, some 7)] ∧ r.2 = (some 7, some 7) := by decide

/-! ## Part 2: the code creates every view inside the call (regenerated facts) -/

namespace LiskVerif.NoCache

/-- the consensus state view: the executer's database under the state prefix -/
def stateArgs : List String := ["c.database", "blockchain.DBPrefixToBytes(blockchain.DBPrefixState)"]

def sitesOf (fn : String) : List Site := sites.filter (fun s => s.pkg == "consensus" && s.fn == fn)

/-- `fn` creates exactly one view, `v := diffdb.New(c.database, <state prefix>)` with a new local `v`,
`v` is defined nowhere else in `fn` from a call, and every `c.liskBFT.API()` call of `fn` reads through `v` -/
def freshStoreIn (fn : String) : Bool :=
  match sitesOf fn with
  | [s] =>
    s.callee == "diffdb.New" && s.args == stateArgs && s.bind == "define" &&
    (storeBinds.filter (·.fn == fn)) == [⟨fn, s.target, "diffdb.New"⟩] &&
    !(bftCalls.filter (·.fn == fn)).isEmpty &&
    (bftCalls.filter (·.fn == fn)).all (·.arg0 == s.target)
  | _ => false

/-- `fn` creates no view and reads only through its parameter `param` -/
def readsThroughParam (fn param : String) : Bool :=
  (sitesOf fn).isEmpty && (storeBinds.filter (·.fn == fn)).isEmpty &&
  (storeParams.filter (fun p => p.pkg == "consensus" && p.fn == fn)).map (·.param) == [param] &&
  !(bftCalls.filter (·.fn == fn)).isEmpty &&
  (bftCalls.filter (·.fn == fn)).all (·.arg0 == param)

/-- all call sites of `callee` in package consensus that pass a view: (function, variable) -/
def passedTo (callee : String) : List (String × String) :=
  (storeArgs.filter (fun a => a.pkg == "consensus" && a.callee == callee)).map (fun a => (a.fn, a.var))

end LiskVerif.NoCache

open LiskVerif.NoCache

/-- the exact fields of `consensus.Executer`: configuration, components, the pool - and nothing that
remembers consensus state (a memoized store, cached BFT heights or parameters would be a new field) -/
theorem C06_executer_fields_exact :
    executerFields.map (fun f => (f.name, f.typ)) =
      [("blockTime", "uint32"), ("batchSize", "int"), ("abi", "labi.ABI"), ("chain", "*blockchain.Chain"),
       ("conn", "*p2p.Connection"), ("certificatePool", "*certificate.Pool"), ("liskBFT", "*liskbft.Module"),
       ("ctx", "context.Context"), ("database", "*db.DB"), ("logger", "log.Logger"),
       ("blockSlot", "*validator.BlockSlot"), ("syncying", "bool"), ("events", "*event.EventEmitter"),
       ("processCh", "chan *ProcessContext"), ("closeCh", "chan bool"), ("syncer", "*sync.Syncer"),
       ("lastBlockReceived", "*time.Time"), ("certificateTime", "*time.Ticker")] := by decide +kernel

/-- nothing in pkg/consensus (all sub-packages) holds a view: no struct field and no package-level variable
of a diffdb type, no function returns one, and no view leaves the function that holds it by assignment to
a field / global / element, in a composite literal, as a return value or over a channel -/
theorem C06_no_view_outlives_its_function :
    storeFields = [] ∧ storeGlobals = [] ∧ storeFuncs = [] ∧ escapes = [] := by decide +kernel

/-- every view of the consensus state is created by `diffdb.New(c.database, <state prefix>)`, bound to a
new local variable of the creating function; these are all creation sites -/
theorem C06_store_creation_sites_exact :
    (sites.filter (·.callee == "diffdb.New")).map (fun s => (s.fn, s.args, s.bind, s.target)) =
      [("Executer.singleCommitValidator", stateArgs, "define", "diffStore"),
       ("Executer.Certify", stateArgs, "define", "diffStore"),
       ("Executer.broadcastCertificate", stateArgs, "define", "diffStore"),
       ("Executer.GetAggregateCommit", stateArgs, "define", "diffStore"),
       ("Executer.Synced", stateArgs, "define", "consensusStore"),
       ("Executer.processValidated", stateArgs, "define", "consensusStore"),
       ("Executer.processGenesisBlock", stateArgs, "define", "consensusStore"),
       ("Executer.deleteBlock", stateArgs, "define", "diffStore"),
       ("Executer.createSyncContext", stateArgs, "define", "diffStore")] := by decide +kernel

/-- sub-views (`WithPrefix`) are only taken from a parameter of the function and bound to a new local -/
theorem C06_sub_views_are_local :
    (sites.filter (·.callee == "WithPrefix")).all (fun s => s.recvKind == "param" && s.bind == "define") = true ∧
    (sites.filter (fun s => s.callee != "WithPrefix" && s.callee != "diffdb.New")) = [] := by decide +kernel

/-- the four certificate entry points without a store parameter create their view themselves, once, from
the executer's database, and read the BFT state only through it -/
theorem C06_cert_entry_points_create_their_store :
    freshStoreIn "Executer.singleCommitValidator" = true ∧
    freshStoreIn "Executer.Certify" = true ∧
    freshStoreIn "Executer.broadcastCertificate" = true ∧
    freshStoreIn "Executer.GetAggregateCommit" = true := by decide +kernel

/-- `verifyAggregateCommit` reads through its parameter only; its single caller is `verifyBlock`, which
passes its own parameter; `verifyBlock`'s single caller `processValidated` passes the view it created for
this block -/
theorem C06_verify_reads_the_block_store :
    readsThroughParam "Executer.verifyAggregateCommit" "diffStore" = true ∧
    passedTo "c.verifyAggregateCommit" = [("Executer.verifyBlock", "consensusStore")] ∧
    (storeParams.filter (fun p => p.pkg == "consensus" && p.fn == "Executer.verifyBlock")).map (·.param) = ["consensusStore"] ∧
    passedTo "c.verifyBlock" = [("Executer.processValidated", "consensusStore")] ∧
    (sitesOf "Executer.processValidated").map (fun s => (s.callee, s.args, s.bind, s.target)) =
      [("diffdb.New", stateArgs, "define", "consensusStore")] := by decide +kernel

/-- the broadcast tick's per-call memo of `ExistBFTParameters` (`commitDiscard`) is created inside the tick
and reads through the tick's view -/
theorem C06_broadcast_memo_is_per_call :
    passedTo "cache.exist" = [("Executer.broadcastCertificate", "diffStore")] ∧
    passedTo "c.bftAPI.ExistBFTParameters" = [("commitDiscard.exist", "diffStore")] ∧
    (structFields.filter (fun f => f.pkg == "consensus" && f.strct == "commitDiscard")).map (fun f => (f.name, f.typ)) =
      [("existHeight", "map[uint32]bool"), ("bftAPI", "*liskbft.API"), ("mutex", "*sync.RWMutex")] := by decide +kernel

/-- the components the entry points read through carry configuration only: the BFT module and its API
have no field that could remember votes, heights or parameters between calls; the certificate pool holds
the two commit lists (the one piece of memory the model has too) -/
theorem C06_bft_module_and_pool_fields_exact :
    (structFields.filter (fun f => f.pkg == "consensus/liskbft" && f.strct == "Module")).map (fun f => (f.name, f.typ)) =
      [("batchSize", "int"), ("maxLengthBlock", "int"), ("api", "*API"), ("endpoint", "*Endpoint")] ∧
    (structFields.filter (fun f => f.pkg == "consensus/liskbft" && f.strct == "API")).map (fun f => (f.name, f.typ)) =
      [("moduleID", "uint32"), ("batchSize", "int")] ∧
    (structFields.filter (fun f => f.pkg == "consensus/certificate" && f.strct == "Pool")).map (fun f => (f.name, f.typ)) =
      [("nonGossiped", "SingleCommits"), ("gossiped", "SingleCommits"), ("mutex", "*sync.Mutex")] := by decide +kernel
