/-
C08 — the entry points that turn received bytes into objects with IDs.

`blockchain.NewBlock` is a COMPOSITION: `RawBlock.DecodeStrict` splits the envelope into header bytes,
transaction byte strings and asset byte strings; then `NewBlockHeader` (lenient), `NewBlockAsset`
(strict) per asset and `NewTransaction` (strict) per transaction (`LiskVerif.Validators.newBlock`,
IDs and re-encoding in `LiskVerif.CodecEntry`). The theorems below state what this composition
guarantees and what the generated codec of `blockchain.Block` (nested structs, always decoded
leniently) does NOT guarantee:

* `C08_newBlock_accepts_only_canonical_transactions`
      an accepted block's envelope is the canonical envelope of its parts, every transaction (and
      asset) byte string in it is exactly the `Encode` of the transaction (asset) in the block, and
      every transaction ID is the hash of exactly those received bytes;
* `C08_newBlock_rejects_noncanonical_transaction`
      contrapositive: one transaction byte string that is not the encoding of the transaction it
      decodes to (default field omitted, non-shortest varint, trailing bytes …) ⇒ `NewBlock` fails;
* `C08_newBlock_reencode`
      `Block.Encode` of the accepted block is the received envelope with the header replaced by the
      header's own encoding — the received bytes themselves when the header arrived canonical;
* `C08_newBlock_id_stable`
      `NewBlock (Block.Encode blk)` is accepted again with the same header ID and transaction IDs
      (stated for the canonical-header case through `C08_newBlock_reencode`);
* `C08_block_codec_is_not_newBlock`
      a concrete envelope with a transaction whose default-valued nonce and params are left out:
      `NewTransaction` and `NewBlock` reject it, `Block.DecodeStrict` accepts it and re-encodes it to
      different bytes — the generated Block codec cannot replace the composition.
-/
import LiskVerif.Model.CodecEntry
import LiskVerif.Props.C08_Nested

open LiskVerif LiskVerif.Codec LiskVerif.Gen LiskVerif.Validators LiskVerif.CodecEntry

/-! ### helpers -/

private theorem C08E_find {name : String} {e d st : List Field}
    (h : (allSchemas.find name).map (fun s => (s.enc, s.dec, s.decStrict)) = some (e, d, st)) :
    ∃ s, allSchemas.find name = some s ∧ s.enc = e ∧ s.dec = d ∧ s.decStrict = st := by
  cases hf : allSchemas.find name with
  | none => rw [hf] at h; simp at h
  | some s =>
    rw [hf] at h
    simp only [Option.map_some, Option.some.injEq, Prod.mk.injEq] at h
    exact ⟨s, rfl, h⟩

/-- `decodeNamed … true` is `decodeStrict` of the named struct -/
private theorem C08E_decodeNamed_strict {name : String} {s : Schema} {nfc : NFC}
    (hs : allSchemas.find name = some s) (b : Bytes) :
    decodeNamed allSchemas nfc true name b = decodeStrict allSchemas nfc s b := by
  simp [decodeNamed, hs]

private theorem C08E_encodeNamed {name : String} {s : Schema} {nfc : NFC}
    (hs : allSchemas.find name = some s) (vals : List Value) :
    encodeNamed allSchemas nfc name vals = encode allSchemas nfc s vals := by
  simp [encodeNamed, hs]

/-- strict decoding through `NewTransaction` is canonical -/
private theorem C08E_tx_canonical (b : Bytes) (vals : List Value)
    (h : decodeNamed allSchemas asciiNFC true "blockchain.Transaction" b = .ok vals) :
    encodeNamed allSchemas asciiNFC "blockchain.Transaction" vals = b := by
  obtain ⟨s, hs, _⟩ := C08E_find C08_transaction_schema
  rw [C08E_decodeNamed_strict hs] at h
  rw [C08E_encodeNamed hs]
  exact C08_transaction_strict_canonical s hs b vals h

/-- strict decoding through `NewBlockAsset` is canonical -/
private theorem C08E_asset_canonical (b : Bytes) (vals : List Value)
    (h : decodeNamed allSchemas asciiNFC true "blockchain.BlockAsset" b = .ok vals) :
    encodeNamed allSchemas asciiNFC "blockchain.BlockAsset" vals = b := by
  obtain ⟨s, hs, _⟩ := C08E_find C08_blockAsset_schema
  rw [C08E_decodeNamed_strict hs] at h
  rw [C08E_encodeNamed hs]
  exact C08_blockAsset_strict_canonical s hs asciiNFC (fun _ _ => rfl) b vals h

/-- strict decoding of the envelope is canonical -/
private theorem C08E_raw_canonical (b : Bytes) (vals : List Value)
    (h : decodeNamed allSchemas asciiNFC true "blockchain.RawBlock" b = .ok vals) :
    encodeNamed allSchemas asciiNFC "blockchain.RawBlock" vals = b := by
  obtain ⟨s, hs, _⟩ := C08E_find C08_rawBlock_schema
  rw [C08E_decodeNamed_strict hs] at h
  rw [C08E_encodeNamed hs]
  exact C08_rawBlock_strict_canonical s hs asciiNFC (fun _ _ => rfl) b vals h

/-- the element loops of `NewBlock`: if every element is accepted, and acceptance of one element is
canonical, then the list of received byte strings is the list of re-encodings -/
private theorem C08E_mapDecode_canonical (name : String)
    (hc : ∀ b vals, decodeNamed allSchemas asciiNFC true name b = .ok vals →
      encodeNamed allSchemas asciiNFC name vals = b) :
    ∀ (l : List Bytes) (vs : List (List Value)),
      mapDecode allSchemas asciiNFC true name l = .ok vs →
      vs.map (encodeNamed allSchemas asciiNFC name) = l := by
  intro l
  induction l with
  | nil =>
    intro vs h
    simp only [mapDecode] at h
    injection h with h
    subst h
    rfl
  | cons b rest ih =>
    intro vs h
    simp only [mapDecode] at h
    split at h
    · exact absurd h (by simp)
    · rename_i v hv
      split at h
      · exact absurd h (by simp)
      · rename_i vs' hvs
        injection h with h
        subst h
        simp only [List.map_cons, hc b v hv, ih vs' hvs]

/-- … and conversely one rejected element makes the loop fail -/
private theorem C08E_mapDecode_error (name : String) :
    ∀ (l : List Bytes) (b : Bytes), b ∈ l →
      (∀ vals, decodeNamed allSchemas asciiNFC true name b ≠ .ok vals) →
      ∀ vs, mapDecode allSchemas asciiNFC true name l ≠ .ok vs := by
  intro l
  induction l with
  | nil => intro b hb; simp at hb
  | cons x rest ih =>
    intro b hb hrej vs h
    simp only [mapDecode] at h
    split at h
    · exact absurd h (by simp)
    · rename_i v hv
      split at h
      · exact absurd h (by simp)
      · rename_i vs' hvs
        rcases List.mem_cons.mp hb with rfl | hmem
        · exact hrej v hv
        · exact ih b hmem hrej vs' hvs

/-- the steps of an accepting run of `NewBlock` -/
private theorem C08E_newBlock_parts (data : Bytes) (blk : Validators.Block)
    (h : Validators.newBlock allSchemas asciiNFC data = .ok blk) :
    ∃ raw : List Value,
      decodeNamed allSchemas asciiNFC true "blockchain.RawBlock" data = .ok raw ∧
      decodeNamed allSchemas asciiNFC false "blockchain.BlockHeader" (fBytes raw 0) = .ok blk.header ∧
      mapDecode allSchemas asciiNFC true "blockchain.BlockAsset" (fBytesArr raw 2) = .ok blk.assets ∧
      mapDecode allSchemas asciiNFC true "blockchain.Transaction" (fBytesArr raw 1) = .ok blk.txs := by
  unfold Validators.newBlock at h
  split at h
  · exact absurd h (by simp)
  · rename_i raw hraw
    split at h
    · exact absurd h (by simp)
    · rename_i header hheader
      split at h
      · exact absurd h (by simp)
      · rename_i assets hassets
        split at h
        · exact absurd h (by simp)
        · rename_i txs htxs
          injection h with h
          subst h
          exact ⟨raw, hraw, hheader, hassets, htxs⟩

/-! ### NewBlock accepts only canonical transactions -/

/-- **`NewBlock` accepts only canonical transactions.** If `NewBlock` accepts `data` as the block
`blk`, then there is exactly one way the bytes were read — the strict decode `raw` of the flat
envelope, whose re-encoding IS `data` — and

* the transaction byte strings of the envelope are, one by one, the `Encode` of the block's
  transactions (so no transaction arrived with an omitted default field, a non-shortest varint, fields
  out of order, trailing bytes or an unknown field);
* the transaction IDs assigned by `Init` (hash of the re-encoding) are the hashes of exactly the
  received transaction byte strings — for any hash function;
* the asset byte strings are the `Encode` of the block's assets;
* the header is what the lenient `NewBlockHeader` reads from the header bytes. -/
theorem C08_newBlock_accepts_only_canonical_transactions (H : Bytes → Bytes) (data : Bytes)
    (blk : Validators.Block) (h : Validators.newBlock allSchemas asciiNFC data = .ok blk) :
    ∃ raw : List Value,
      decodeNamed allSchemas asciiNFC true "blockchain.RawBlock" data = .ok raw ∧
      encodeNamed allSchemas asciiNFC "blockchain.RawBlock" raw = data ∧
      blk.txs.map (encodeNamed allSchemas asciiNFC "blockchain.Transaction") = fBytesArr raw 1 ∧
      blockTxIDs allSchemas asciiNFC H blk = (fBytesArr raw 1).map H ∧
      blk.assets.map (encodeNamed allSchemas asciiNFC "blockchain.BlockAsset") = fBytesArr raw 2 ∧
      decodeNamed allSchemas asciiNFC false "blockchain.BlockHeader" (fBytes raw 0) = .ok blk.header := by
  obtain ⟨raw, hraw, hheader, hassets, htxs⟩ := C08E_newBlock_parts data blk h
  have htx := C08E_mapDecode_canonical "blockchain.Transaction" C08E_tx_canonical _ _ htxs
  have has := C08E_mapDecode_canonical "blockchain.BlockAsset" C08E_asset_canonical _ _ hassets
  refine ⟨raw, hraw, C08E_raw_canonical data raw hraw, htx, ?_, has, hheader⟩
  simp only [blockTxIDs, txID]
  rw [← htx, List.map_map]
  rfl

/-- the same seen from `CodecEntry.newBlock` (what the driver prints): the printed transaction IDs
are the hashes of the transaction byte strings of the envelope -/
theorem C08_newBlock_ids_are_hashes_of_received_bytes (H : Bytes → Bytes) (data : Bytes)
    (a : Accepted) (h : CodecEntry.newBlock allSchemas asciiNFC H data = .ok a) :
    ∃ raw : List Value,
      decodeNamed allSchemas asciiNFC true "blockchain.RawBlock" data = .ok raw ∧
      encodeNamed allSchemas asciiNFC "blockchain.RawBlock" raw = data ∧
      a.txIDs = (fBytesArr raw 1).map H := by
  unfold CodecEntry.newBlock at h
  split at h
  · exact absurd h (by simp)
  · rename_i blk hblk
    injection h with h
    subst h
    obtain ⟨raw, h1, h2, _, h4, _⟩ :=
      C08_newBlock_accepts_only_canonical_transactions H data blk hblk
    exact ⟨raw, h1, h2, h4⟩

/-- **A non-canonical transaction makes `NewBlock` fail.** Let the envelope split (strictly) into
`raw`, and let `tx` be one of its transaction byte strings that is NOT canonical: whatever transaction
the lenient decoder reads from `tx` (absent fields defaulted, unknown tail ignored …), its encoding
differs from `tx`. Then `NewBlock` rejects the block. (Lenient rejection is covered too: the
hypothesis is then vacuous for `tx` and the strict decoder rejects as well.) -/
theorem C08_newBlock_rejects_noncanonical_transaction (data : Bytes) (raw : List Value)
    (hraw : decodeNamed allSchemas asciiNFC true "blockchain.RawBlock" data = .ok raw)
    (tx : Bytes) (hmem : tx ∈ fBytesArr raw 1) (hlen : tx.length < 2 ^ 63)
    (hnc : ∀ vals, decodeNamed allSchemas asciiNFC false "blockchain.Transaction" tx = .ok vals →
      encodeNamed allSchemas asciiNFC "blockchain.Transaction" vals ≠ tx) :
    ∀ blk, Validators.newBlock allSchemas asciiNFC data ≠ .ok blk := by
  intro blk h
  obtain ⟨raw', hraw', _, _, htxs⟩ := C08E_newBlock_parts data blk h
  rw [hraw] at hraw'
  have hr := Except.ok.inj hraw'
  subst hr
  refine C08E_mapDecode_error "blockchain.Transaction" _ tx hmem ?_ _ htxs
  intro vals hs
  have hcan := C08E_tx_canonical tx vals hs
  obtain ⟨s, hfs, _⟩ := C08E_find C08_transaction_schema
  rw [C08E_decodeNamed_strict hfs] at hs
  have hst := (C08_transaction_id_stable s hfs tx hlen vals hs id).2.1
  rw [C08E_encodeNamed hfs] at hcan
  rw [hcan] at hst
  refine hnc vals ?_ (by rw [C08E_encodeNamed hfs]; exact hcan)
  simp only [decodeNamed, hfs]
  exact hst

/-! ### the generated Block codec is not a substitute for the composition -/

/-- "the outcome is the error `e`" -/
def C08ErrIs {α : Type} : Except Err α → Err → Bool
  | .error e', e => decide (e' = e)
  | .ok _, _ => false

/-- "`NewBlock` accepts" as a Bool (evaluated by the kernel in the examples) -/
def C08Accepts (data : Bytes) : Bool :=
  match Validators.newBlock allSchemas asciiNFC data with
  | .ok _ => true
  | .error _ => false

/-- module "a", command "b", nonce 0, fee 1, empty key, empty params, no signature — canonical -/
def C08txCanonical : Bytes := [0x0a, 1, 0x61, 0x12, 1, 0x62, 0x18, 0, 0x20, 1, 0x2a, 0, 0x32, 0]
/-- the same transaction as a stock proto3 encoder writes it: default-valued nonce and params omitted -/
def C08txCompact : Bytes := [0x0a, 1, 0x61, 0x12, 1, 0x62, 0x20, 1, 0x2a, 0]
/-- envelopes: an (empty, leniently accepted) header and the one transaction -/
def C08envCanonical : Bytes := [0x0a, 0, 0x12, 14] ++ C08txCanonical
def C08envCompact : Bytes := [0x0a, 0, 0x12, 10] ++ C08txCompact

private theorem C08E_ex_accept : C08Accepts C08envCanonical = true := by decide +kernel

private theorem C08E_ex_raw :
    decodeNamed allSchemas asciiNFC true "blockchain.RawBlock" C08envCanonical =
      .ok [.bytes [], .bytesArr [C08txCanonical], .bytesArr []] := by
  obtain ⟨sr, hfr, _, _, hstr⟩ := C08E_find C08_rawBlock_schema
  rw [C08E_decodeNamed_strict hfr, decodeStrict_fields _ _ _ _ _ hstr]
  exact okEqb_sound (by decide +kernel)

private theorem C08E_ex_reject :
    C08ErrIs (Validators.newBlock allSchemas asciiNFC C08envCompact) .unexpectedFieldNumber = true := by
  decide +kernel

private theorem C08E_ex_codec (s : Schema) (hs : allSchemas.find "blockchain.Block" = some s) :
    decodeStrict allSchemas asciiNFC s C08envCompact =
      .ok [.msg true C08zeroHeader,
           .msgArr [[.bytes [0x61], .bytes [0x62], .uint 0, .uint 1, .bytes [], .bytes [], .bytesArr []]],
           .msgArr []] := by
  obtain ⟨s', hs', _, _, hst⟩ := C08E_find C08_block_schema
  rw [hs] at hs'; injection hs' with hs'; subst hs'
  rw [decodeStrict_fields _ _ _ _ _ hst]
  exact okEqb_sound (by decide +kernel)

private theorem C08E_ex_enc :
    encodeNamed allSchemas asciiNFC "blockchain.Transaction"
      [.bytes [0x61], .bytes [0x62], .uint 0, .uint 1, .bytes [], .bytes [], .bytesArr []] =
      C08txCanonical := by
  obtain ⟨stx, hft, het, _, _⟩ := C08E_find C08_transaction_schema
  simp [encodeNamed, hft, encode, het, C08txFields, C08txCanonical, encodeFields, writeKey,
    writeBytes, putUvarint_lt, asciiNFC]

/-- **Non-vacuity and the seeded simplification refuted.**
1. `NewBlock` accepts the canonical envelope; the transaction ID hashes exactly the received bytes.
2. `NewBlock` rejects the envelope that carries the compact transaction (`unexpectedFieldNumber`:
   the strict transaction decoder meets field 4 where field 3 must stand).
3. `Block.DecodeStrict` — the generated codec of the nested `Block` struct — ACCEPTS that envelope:
   it decodes nested transactions leniently, returns the transaction with nonce 0 and empty params …
4. … whose encoding is the canonical 14 bytes, not the 10 received ones: with
   `NewBlock := Block.DecodeStrict; Init` the ID would be the hash of bytes that were never received,
   and two different byte strings would be accepted for one transaction ID. -/
theorem C08_block_codec_is_not_newBlock (H : Bytes → Bytes) (s : Schema)
    (hs : allSchemas.find "blockchain.Block" = some s) :
    (∃ blk, Validators.newBlock allSchemas asciiNFC C08envCanonical = .ok blk ∧
      blockTxIDs allSchemas asciiNFC H blk = [H C08txCanonical]) ∧
    C08ErrIs (Validators.newBlock allSchemas asciiNFC C08envCompact) .unexpectedFieldNumber = true ∧
    decodeStrict allSchemas asciiNFC s C08envCompact =
      .ok [.msg true C08zeroHeader,
           .msgArr [[.bytes [0x61], .bytes [0x62], .uint 0, .uint 1, .bytes [], .bytes [], .bytesArr []]],
           .msgArr []] ∧
    encodeNamed allSchemas asciiNFC "blockchain.Transaction"
      [.bytes [0x61], .bytes [0x62], .uint 0, .uint 1, .bytes [], .bytes [], .bytesArr []] =
      C08txCanonical ∧
    C08txCanonical ≠ C08txCompact := by
  refine ⟨?_, C08E_ex_reject, C08E_ex_codec s hs, C08E_ex_enc, by decide⟩
  have hacc := C08E_ex_accept
  unfold C08Accepts at hacc
  split at hacc
  · rename_i blk hblk
    refine ⟨blk, hblk, ?_⟩
    obtain ⟨raw, h1, _, _, h4, _⟩ :=
      C08_newBlock_accepts_only_canonical_transactions H C08envCanonical blk hblk
    have h1' := Except.ok.inj (C08E_ex_raw.symm.trans h1)
    subst h1'
    rw [h4]
    rfl
  · exact absurd hacc (by simp)

/-! ### re-encoding an accepted block -/

/-- the bytes of a block envelope: header bytes under key 1, every transaction byte string under
key 2, every asset byte string under key 3, each with its length prefix -/
def C08envelope (hdr : Bytes) (txs assets : List Bytes) : Bytes :=
  writeKey 2 1 ++ writeBytes hdr ++
    ((txs.map fun b => writeKey 2 2 ++ writeBytes b).flatten ++
      (assets.map fun b => writeKey 2 3 ++ writeBytes b).flatten)

/-- the nesting fuel of `encodeFields` is irrelevant for flat field lists -/
private theorem C08E_encField_fuel_flat (t : Table) (nfc : NFC) (a b : Nat) (f : Field) (v : Value)
    (hf : flatKind f.kind = true) : encField t nfc a f v = encField t nfc b f v := by
  unfold encField
  cases hk : f.kind <;> rw [hk] at hf <;> cases v <;>
    first | rfl | exact absurd hf (by simp [flatKind])

private theorem C08E_encodeFields_fuel_flat (t : Table) (nfc : NFC) (a b : Nat) :
    ∀ (fs : List Field) (vs : List Value), fs.all (fun f => flatKind f.kind) = true →
      encodeFields t nfc a fs vs = encodeFields t nfc b fs vs := by
  intro fs
  induction fs with
  | nil => intro vs _; rw [encodeFields_nil_left, encodeFields_nil_left]
  | cons f fs ih =>
    intro vs hf
    simp only [List.all_cons, Bool.and_eq_true] at hf
    cases vs with
    | nil => rw [encodeFields_nil_right, encodeFields_nil_right]
    | cons v vs =>
      rw [encodeFields_cons, encodeFields_cons, C08E_encField_fuel_flat t nfc a b f v hf.1,
        ih vs hf.2]

/-- a field list whose nested structs are all flat (BlockHeader: only `AggregateCommit`) -/
def C08Shallow (t : Table) (fs : List Field) : Bool :=
  fs.all fun f => flatKind f.kind ||
    (match f.kind with
     | .msg n => (match t.find n with
        | some s => s.enc.all (fun g => flatKind g.kind)
        | none => true)
     | _ => false)

private theorem C08E_encodeFields_fuel_shallow (t : Table) (nfc : NFC) (a b : Nat) :
    ∀ (fs : List Field) (vs : List Value), C08Shallow t fs = true →
      encodeFields t nfc (a + 1) fs vs = encodeFields t nfc (b + 1) fs vs := by
  intro fs
  induction fs with
  | nil => intro vs _; rw [encodeFields_nil_left, encodeFields_nil_left]
  | cons f fs ih =>
    intro vs hf
    simp only [C08Shallow, List.all_cons, Bool.and_eq_true] at hf
    cases vs with
    | nil => rw [encodeFields_nil_right, encodeFields_nil_right]
    | cons v vs =>
      rw [encodeFields_cons, encodeFields_cons]
      have ht : encodeFields t nfc (a + 1) fs vs = encodeFields t nfc (b + 1) fs vs :=
        ih vs (by simpa only [C08Shallow] using hf.2)
      rw [ht]
      congr 1
      cases hflat : flatKind f.kind with
      | true => exact C08E_encField_fuel_flat t nfc _ _ f v hflat
      | false =>
        have h1 := hf.1
        simp only [hflat, Bool.false_or] at h1
        unfold encField
        cases hk : f.kind <;> rw [hk] at h1 <;> try (exact absurd h1 Bool.false_ne_true)
        rename_i name
        cases v <;> try rfl
        rename_i present vals
        cases present
        · rfl
        · simp only [Bool.not_true, Bool.false_eq_true, if_false]
          cases hfind : t.find name with
          | none => rfl
          | some s =>
            simp only [hfind] at h1
            simp only
            rw [C08E_encodeFields_fuel_flat t nfc a b s.enc vals h1]

private theorem C08E_raw_envelope (h : Bytes) (t a : List Bytes) :
    encodeNamed allSchemas asciiNFC "blockchain.RawBlock" [.bytes h, .bytesArr t, .bytesArr a] =
      C08envelope h t a := by
  obtain ⟨sr, hfr, her, _, _⟩ := C08E_find C08_rawBlock_schema
  simp [encodeNamed, hfr, encode, her, C08rawBlockFields, encodeFields, C08envelope]

private theorem C08E_block_envelope (blk : Validators.Block) (sh stx sa : Schema)
    (hfh : allSchemas.find "blockchain.BlockHeader" = some sh)
    (hft : allSchemas.find "blockchain.Transaction" = some stx)
    (hfa : allSchemas.find "blockchain.BlockAsset" = some sa) :
    blockEncode allSchemas asciiNFC blk =
      C08envelope (encodeFields allSchemas asciiNFC 7 sh.enc blk.header)
        (blk.txs.map (encodeFields allSchemas asciiNFC 7 stx.enc))
        (blk.assets.map (encodeFields allSchemas asciiNFC 7 sa.enc)) := by
  obtain ⟨sb, hfb, heb, _, _⟩ := C08E_find C08_block_schema
  simp [blockEncode, encodeNamed, hfb, encode, heb, C08blockFields, encodeFields, C08envelope, hfh,
    hft, hfa, List.map_map, Function.comp_def]

/-- the strict decode of an envelope has the shape (header bytes, transactions, assets) -/
private theorem C08E_raw_shape (data : Bytes) (hlen : data.length < 2 ^ 63) (raw : List Value)
    (h : decodeNamed allSchemas asciiNFC true "blockchain.RawBlock" data = .ok raw) :
    raw = [.bytes (fBytes raw 0), .bytesArr (fBytesArr raw 1), .bytesArr (fBytesArr raw 2)] := by
  obtain ⟨sr, hfr, her, _, hstr⟩ := C08E_find C08_rawBlock_schema
  rw [C08E_decodeNamed_strict hfr] at h
  have hnf : C08NilFree allSchemas 0 sr.decStrict = true := by rw [hstr]; decide
  have ht := (C08_decoded_values_typed allSchemas C09rank asciiNFC C08_allSchemas_deepWF
    C08_asciiNFC_law sr (find_mem hfr) 0 data hlen raw).2 hnf h
  rw [her] at ht
  simp only [C08TypedDeep, C08rawBlockFields] at ht
  obtain ⟨a, b, c, rfl, ha, hb, hc⟩ : ∃ a b c, raw = [a, b, c] ∧ typedVal asciiNFC .bytes a = true ∧
      typedVal asciiNFC .bytesArr b = true ∧ typedVal asciiNFC .bytesArr c = true := by
    match raw, ht with
    | [a, b, c], ht =>
      simp only [typedWith, typedValDeep, Bool.and_eq_true, Bool.and_true] at ht
      exact ⟨a, b, c, rfl, ht.1, ht.2.1, ht.2.2⟩
    | [], ht => simp [typedWith] at ht
    | [_], ht => simp [typedWith] at ht
    | [_, _], ht => simp [typedWith] at ht
    | _ :: _ :: _ :: _ :: _, ht => simp [typedWith] at ht
  cases a <;> simp [typedVal] at ha
  cases b <;> simp [typedVal] at hb
  cases c <;> simp [typedVal] at hc
  rfl

private theorem C08E_header_shallow : C08Shallow allSchemas (C08headerFields false) = true := by
  decide +kernel

/-- **Re-encoding an accepted block.** For a block accepted by `NewBlock` (received bytes shorter
than 2^63), the received bytes are the envelope of (header bytes, transaction bytes, asset bytes),
and `Block.Encode` of the accepted block is the SAME envelope with the header bytes replaced by the
header's own encoding. Hence if the header arrived in canonical form, re-encoding reproduces the
received bytes exactly. (The header is the one element `NewBlock` reads leniently; its ID is the hash
of its re-encoding, stable by `C08_blockHeader_id_stable`.) -/
theorem C08_newBlock_reencode (data : Bytes) (hlen : data.length < 2 ^ 63)
    (blk : Validators.Block) (h : Validators.newBlock allSchemas asciiNFC data = .ok blk) :
    ∃ raw : List Value,
      decodeNamed allSchemas asciiNFC true "blockchain.RawBlock" data = .ok raw ∧
      data = C08envelope (fBytes raw 0) (fBytesArr raw 1) (fBytesArr raw 2) ∧
      fBytesArr raw 1 = blk.txs.map (encodeNamed allSchemas asciiNFC "blockchain.Transaction") ∧
      fBytesArr raw 2 = blk.assets.map (encodeNamed allSchemas asciiNFC "blockchain.BlockAsset") ∧
      blockEncode allSchemas asciiNFC blk =
        C08envelope (encodeNamed allSchemas asciiNFC "blockchain.BlockHeader" blk.header)
          (fBytesArr raw 1) (fBytesArr raw 2) ∧
      (encodeNamed allSchemas asciiNFC "blockchain.BlockHeader" blk.header = fBytes raw 0 →
        blockEncode allSchemas asciiNFC blk = data) := by
  obtain ⟨raw, h1, h2, h3, _, h5, _⟩ :=
    C08_newBlock_accepts_only_canonical_transactions id data blk h
  have hshape := C08E_raw_shape data hlen raw h1
  have hcongr := congrArg (encodeNamed allSchemas asciiNFC "blockchain.RawBlock") hshape
  rw [hcongr, C08E_raw_envelope] at h2
  obtain ⟨sh, hfh, heh, _, _⟩ := C08E_find C08_blockHeader_schema
  obtain ⟨stx, hft, het, _, _⟩ := C08E_find C08_transaction_schema
  obtain ⟨sa, hfa, hea, _, _⟩ := C08E_find C08_blockAsset_schema
  have eh : encodeFields allSchemas asciiNFC 7 sh.enc blk.header =
      encodeNamed allSchemas asciiNFC "blockchain.BlockHeader" blk.header := by
    rw [C08E_encodeNamed hfh]
    unfold encode
    exact C08E_encodeFields_fuel_shallow allSchemas asciiNFC 6 7 sh.enc blk.header
      (by rw [heh]; exact C08E_header_shallow)
  have et : encodeFields allSchemas asciiNFC 7 stx.enc =
      encodeNamed allSchemas asciiNFC "blockchain.Transaction" := by
    funext v
    rw [C08E_encodeNamed hft]
    unfold encode
    exact C08E_encodeFields_fuel_flat allSchemas asciiNFC 7 8 stx.enc v (by rw [het]; decide)
  have ea : encodeFields allSchemas asciiNFC 7 sa.enc =
      encodeNamed allSchemas asciiNFC "blockchain.BlockAsset" := by
    funext v
    rw [C08E_encodeNamed hfa]
    unfold encode
    exact C08E_encodeFields_fuel_flat allSchemas asciiNFC 7 8 sa.enc v (by rw [hea]; decide)
  have hb := C08E_block_envelope blk sh stx sa hfh hft hfa
  rw [eh, et, ea, h3, h5] at hb
  refine ⟨raw, h1, h2.symm, h3.symm, h5.symm, hb, ?_⟩
  intro hcanon
  rw [hb, hcanon, h2]

/-- **IDs survive store / load of the whole block.** If the header of an accepted block arrived in
canonical form, then `NewBlock` applied to `Block.Encode` of the accepted block accepts the very same
block again — same header, transactions and assets, hence the same header ID and transaction IDs for
any hash function. -/
theorem C08_newBlock_id_stable (H : Bytes → Bytes) (data : Bytes) (hlen : data.length < 2 ^ 63)
    (blk : Validators.Block) (h : Validators.newBlock allSchemas asciiNFC data = .ok blk)
    (hcanon : ∀ raw, decodeNamed allSchemas asciiNFC true "blockchain.RawBlock" data = .ok raw →
      encodeNamed allSchemas asciiNFC "blockchain.BlockHeader" blk.header = fBytes raw 0) :
    Validators.newBlock allSchemas asciiNFC (blockEncode allSchemas asciiNFC blk) = .ok blk ∧
    CodecEntry.newBlock allSchemas asciiNFC H (blockEncode allSchemas asciiNFC blk) =
      CodecEntry.newBlock allSchemas asciiNFC H data := by
  obtain ⟨raw, h1, _, _, _, _, hre⟩ := C08_newBlock_reencode data hlen blk h
  rw [hre (hcanon raw h1)]
  exact ⟨h, rfl⟩

/-! ### non-vacuity -/

/-- `C08_newBlock_accepts_only_canonical_transactions`, `C08_newBlock_ids_are_hashes_of_received_bytes`:
`NewBlock` accepts something -/
example : ∃ blk, Validators.newBlock allSchemas asciiNFC C08envCanonical = .ok blk := by
  obtain ⟨sb, hfb, _⟩ := C08E_find C08_block_schema
  obtain ⟨⟨blk, hblk, _⟩, _⟩ := C08_block_codec_is_not_newBlock id sb hfb
  exact ⟨blk, hblk⟩

private theorem C08E_ex_raw_compact :
    decodeNamed allSchemas asciiNFC true "blockchain.RawBlock" C08envCompact =
      .ok [.bytes [], .bytesArr [C08txCompact], .bytesArr []] := by
  obtain ⟨sr, hfr, _, _, hstr⟩ := C08E_find C08_rawBlock_schema
  rw [C08E_decodeNamed_strict hfr, decodeStrict_fields _ _ _ _ _ hstr]
  exact okEqb_sound (by decide +kernel)

private theorem C08E_ex_lenient_compact :
    decodeNamed allSchemas asciiNFC false "blockchain.Transaction" C08txCompact =
      .ok [.bytes [0x61], .bytes [0x62], .uint 0, .uint 1, .bytes [], .bytes [], .bytesArr []] := by
  obtain ⟨stx, hft, _, hd, _⟩ := C08E_find C08_transaction_schema
  simp only [decodeNamed, hft, Bool.false_eq_true, if_false]
  rw [decode_fields _ _ _ _ _ hd]
  exact okEqb_sound (by decide +kernel)

/-- `C08_newBlock_rejects_noncanonical_transaction`: its hypotheses hold for the envelope with the
compact transaction (the lenient decoder reads it, the re-encoding has 14 bytes instead of 10) -/
example : ∃ data raw tx,
    decodeNamed allSchemas asciiNFC true "blockchain.RawBlock" data = .ok raw ∧
    tx ∈ fBytesArr raw 1 ∧ tx.length < 2 ^ 63 ∧
    (∃ vals, decodeNamed allSchemas asciiNFC false "blockchain.Transaction" tx = .ok vals) ∧
    (∀ vals, decodeNamed allSchemas asciiNFC false "blockchain.Transaction" tx = .ok vals →
      encodeNamed allSchemas asciiNFC "blockchain.Transaction" vals ≠ tx) := by
  refine ⟨C08envCompact, _, C08txCompact, C08E_ex_raw_compact, by simp [fBytesArr], by decide,
    ⟨_, C08E_ex_lenient_compact⟩, ?_⟩
  intro vals hv
  rw [C08E_ex_lenient_compact] at hv
  have hv' := Except.ok.inj hv
  subst hv'
  rw [C08E_ex_enc]
  decide

/-- the all-default header in canonical form (36 bytes) -/
def C08zeroHeaderBytes : Bytes :=
  [8, 0, 16, 0, 24, 0, 34, 0, 42, 0, 50, 0, 58, 0, 66, 0, 74, 0, 80, 0, 88, 0, 96, 0, 106, 0,
   114, 6, 8, 0, 18, 0, 26, 0, 122, 0]

/-- an envelope all of whose parts are canonical -/
def C08envAllCanonical : Bytes := [0x0a, 36] ++ C08zeroHeaderBytes ++ [0x12, 14] ++ C08txCanonical

private theorem C08E_ex_accept2 : C08Accepts C08envAllCanonical = true := by decide +kernel

private theorem C08E_ex_raw2 :
    decodeNamed allSchemas asciiNFC true "blockchain.RawBlock" C08envAllCanonical =
      .ok [.bytes C08zeroHeaderBytes, .bytesArr [C08txCanonical], .bytesArr []] := by
  obtain ⟨sr, hfr, _, _, hstr⟩ := C08E_find C08_rawBlock_schema
  rw [C08E_decodeNamed_strict hfr, decodeStrict_fields _ _ _ _ _ hstr]
  exact okEqb_sound (by decide +kernel)

private theorem C08E_ex_header2 :
    decodeNamed allSchemas asciiNFC false "blockchain.BlockHeader" C08zeroHeaderBytes =
      .ok C08zeroHeader := by
  obtain ⟨sh, hfh, _, hd, _⟩ := C08E_find C08_blockHeader_schema
  simp only [decodeNamed, hfh, Bool.false_eq_true, if_false]
  rw [decode_fields _ _ _ _ _ hd]
  exact okEqb_sound (by decide +kernel)

private theorem C08E_ex_header_enc :
    encodeNamed allSchemas asciiNFC "blockchain.BlockHeader" C08zeroHeader = C08zeroHeaderBytes := by
  obtain ⟨sh, hfh, heh, _, _⟩ := C08E_find C08_blockHeader_schema
  obtain ⟨sc, hfc, hec, _, _⟩ := C08E_find C08_aggregateCommit_schema
  simp [encodeNamed, hfh, encode, heh, hfc, hec, C08headerFields, C08acFields, C08zeroHeader,
    C08zeroHeaderBytes, encodeFields, writeKey, writeBytes, putUvarint_lt]

/-- `C08_newBlock_reencode` / `C08_newBlock_id_stable`: there is an accepted block whose header arrived
in canonical form, so the "re-encoding reproduces the received bytes" conclusion is reached -/
example : ∃ data blk, data.length < 2 ^ 63 ∧
    Validators.newBlock allSchemas asciiNFC data = .ok blk ∧
    (∀ raw, decodeNamed allSchemas asciiNFC true "blockchain.RawBlock" data = .ok raw →
      encodeNamed allSchemas asciiNFC "blockchain.BlockHeader" blk.header = fBytes raw 0) ∧
    blockEncode allSchemas asciiNFC blk = data := by
  have hacc := C08E_ex_accept2
  unfold C08Accepts at hacc
  split at hacc
  · rename_i blk hblk
    have hlen : C08envAllCanonical.length < 2 ^ 63 := by decide
    have hcanon : ∀ raw, decodeNamed allSchemas asciiNFC true "blockchain.RawBlock"
        C08envAllCanonical = .ok raw →
        encodeNamed allSchemas asciiNFC "blockchain.BlockHeader" blk.header = fBytes raw 0 := by
      intro raw hraw
      obtain ⟨raw', hraw', hh, _, _⟩ := C08E_newBlock_parts _ blk hblk
      have e1 := Except.ok.inj (C08E_ex_raw2.symm.trans hraw)
      have e2 := Except.ok.inj (C08E_ex_raw2.symm.trans hraw')
      subst e1
      subst e2
      have hf : fBytes [Value.bytes C08zeroHeaderBytes, .bytesArr [C08txCanonical], .bytesArr []] 0 =
          C08zeroHeaderBytes := rfl
      rw [hf] at hh ⊢
      rw [C08E_ex_header2] at hh
      rw [← Except.ok.inj hh]
      exact C08E_ex_header_enc
    refine ⟨_, blk, hlen, hblk, hcanon, ?_⟩
    obtain ⟨raw, h1, _, _, _, _, hre⟩ := C08_newBlock_reencode _ hlen blk hblk
    exact hre (hcanon raw h1)
  · exact absurd hacc (by simp)
