/-
C03 — tie A for the block entry paths of the synchronisers: "every path that appends a block enforces
every rule".

`Executer.processValidated` (the `processor` callback of `pkg/consensus/sync`) checks the rules that need
the chain state and the execution result (`Props/C03_Gen.lean`); the STATIC rules — transaction root and
asset root against the payload, static validity of every transaction, field lengths — are
`Block.Validate`, which every caller of `processValidated` has to run on the very object it hands on.
For `Executer.process` that is `C03_gen_process_valid_validates` / `C03_gen_process_tiebreak_validates`.
For the synchronisers `LiskVerif/Gen/SyncPaths.lean` is REGENERATED from `/repo/pkg/consensus/sync` on
every run by tools/syncpathgen (go/ast): per function, in program order, the `validate` sites
(`if err := X.Validate(); err != nil { … return }`), the `process` sites (`….processor(ctx, B, …)`), the
`append`s, every other assignment, the returns, each with its enclosing `range` / `if` / `for` / `case`
constructs (`ctx`).

This file
* gives the site lists a semantics (`run`: an item executes iff every condition of its `ctx` holds, a
  failing `validate` that `exits` and a `return` end the body) and proves for ALL item lists, condition
  valuations and validity predicates that the syntactic criterion `covered` (an unconditional-relative-to-
  the-consumer `validate` of the same expression precedes every `process` / `append`, no assignment to
  the expression in between) implies: every block that reaches the processor (or the list of blocks
  that will be applied) passed `Validate` (`C03_sync_covered_sound`);
* re-decides on the regenerated lists that both download loops (`blockSyncer.downloadAndProcess`,
  `fastSyncer.downloadAndValidate`) are `covered`, that the list `fastSyncer.Sync` applies is exactly
  the list `downloadAndValidate` built, that `restoreBlocks` applies only the node's own temporary
  blocks, that `Syncer.Sync` validates the announced block first, that there is no other processor
  call, no other consumer of a download channel and no other name for the callback.

A `validate` that sits under a condition the consumer is not under (the shape "skip Validate for the
block whose id is the announced one") makes `covered` false, and `C03_sync_conditional_validate_unsound`
exhibits the run in which the unvalidated block reaches the processor.

Trusted: tools/syncpathgen (syntactic; the receiver is renamed to `self`, expressions are compared as
printed text; conditions are treated as fixed during one pass over a loop body; labels / goto are
refused), and that `Block.Validate` is the function of `Props/C03_Gen.lean` (`C03_gen_validate_*`).
-/
import LiskVerif.Gen.SyncPaths

open LiskVerif.Gen

namespace C03Sync

abbrev Item := SyncPaths.Item
abbrev Fn := SyncPaths.Fn

/-- what one pass over a body does with blocks -/
inductive Ev where
  | validated (s : String)
  | processed (s : String)
  | appended (s : String)
deriving DecidableEq, Repr

/-- an item that hands the block `subj` on: to the processor, or into the list that is applied later -/
def consumes (i : Item) : Bool := i.kind == "process" || i.kind == "append"

/-- one pass over a body: `env` says which conditions hold, `valid` which expressions denote a block
that passes `Block.Validate` -/
def run (env : String → Bool) (valid : String → Bool) : List Item → List Ev
  | [] => []
  | i :: r =>
    if i.ctx.all env then
      if i.kind == "validate" then
        if valid i.subj then .validated i.subj :: run env valid r
        else if i.exits then [] else run env valid r
      else if i.kind == "process" then .processed i.subj :: run env valid r
      else if i.kind == "append" then .appended i.subj :: run env valid r
      else if i.kind == "return" then []
      else run env valid r
    else run env valid r

/-- an assignment to `dst` changes what the expression `s` denotes -/
def kills (dst s : String) : Bool := dst == s || (dst ++ ".").isPrefixOf s

/-- the criterion: `seen` holds the (expression, ctx) pairs of the exiting validates passed so far -/
def coveredAux (seen : List (String × List String)) : List Item → Bool
  | [] => true
  | i :: r =>
    if i.kind == "validate" then
      if i.exits then coveredAux ((i.subj, i.ctx) :: seen) r else coveredAux seen r
    else if i.kind == "assign" then coveredAux (seen.filter (fun p => !kills i.dst p.1)) r
    else if consumes i then
      if seen.any (fun p => p.1 == i.subj && p.2.isPrefixOf i.ctx) then coveredAux seen r else false
    else coveredAux seen r

def covered (l : List Item) : Bool := coveredAux [] l

theorem all_of_isPrefixOf (env : String → Bool) (c c' : List String)
    (hp : c.isPrefixOf c' = true) (h : c'.all env = true) : c.all env = true := by
  have hp' : c <+: c' := List.isPrefixOf_iff_prefix.mp hp
  obtain ⟨t, rfl⟩ := hp'
  rw [List.all_append] at h
  exact (Bool.and_eq_true _ _ ▸ h).1

/-- the invariant carried by `seen`: a validate whose conditions hold has succeeded -/
def SeenOK (env valid : String → Bool) (seen : List (String × List String)) : Prop :=
  ∀ p ∈ seen, p.2.all env = true → valid p.1 = true

theorem covered_sound_aux (env valid : String → Bool) :
    ∀ (l : List Item) (seen : List (String × List String)), SeenOK env valid seen → coveredAux seen l = true →
      ∀ s, (Ev.processed s ∈ run env valid l ∨ Ev.appended s ∈ run env valid l) → valid s = true := by
  intro l
  induction l with
  | nil => intro seen _ _ s h; simp [run] at h
  | cons i r ih =>
    intro seen hs hc s h
    unfold coveredAux at hc
    unfold run at h
    by_cases hv : i.kind == "validate"
    · -- validate
      simp only [hv, if_true] at hc h
      by_cases hx : i.exits
      · simp only [hx, if_true] at hc h
        by_cases hctx : i.ctx.all env
        · simp only [hctx, if_true] at h
          by_cases hval : valid i.subj
          · simp only [hval, if_true] at h
            refine ih ((i.subj, i.ctx) :: seen) ?_ hc s ?_
            · intro p hp hpc
              rcases List.mem_cons.mp hp with rfl | hp
              · exact hval
              · exact hs p hp hpc
            · rcases h with h | h
              · exact Or.inl (by simpa using h)
              · exact Or.inr (by simpa using h)
          · simp [hval] at h
        · simp only [hctx] at h
          refine ih ((i.subj, i.ctx) :: seen) ?_ hc s (by simpa using h)
          intro p hp hpc
          rcases List.mem_cons.mp hp with rfl | hp
          · simp [hpc] at hctx
          · exact hs p hp hpc
      · simp only [hx] at hc h
        refine ih seen hs (by simpa using hc) s ?_
        by_cases hctx : i.ctx.all env
        · simp only [hctx, if_true] at h
          by_cases hval : valid i.subj
          · simp only [hval, if_true] at h
            rcases h with h | h
            · exact Or.inl (by simpa using h)
            · exact Or.inr (by simpa using h)
          · simpa [hval] using h
        · simpa [hctx] using h
    · simp only [hv] at hc h
      by_cases ha : i.kind == "assign"
      · simp only [ha, if_true] at hc
        have hne1 : (i.kind == "process") = false := by
          have := eq_of_beq ha  -- kind = "assign"
          simp [this]
        have hne2 : (i.kind == "append") = false := by
          have := eq_of_beq ha
          simp [this]
        have hne3 : (i.kind == "return") = false := by
          have := eq_of_beq ha
          simp [this]
        refine ih _ ?_ hc s ?_
        · intro p hp hpc
          exact hs p (List.mem_filter.mp hp).1 hpc
        · by_cases hctx : i.ctx.all env
          · simpa [hctx, hne1, hne2, hne3] using h
          · simpa [hctx] using h
      · simp only [ha] at hc
        by_cases hcons : consumes i
        · simp only [hcons, if_true] at hc
          have hany : seen.any (fun p => p.1 == i.subj && p.2.isPrefixOf i.ctx) = true := by
            cases hh : seen.any (fun p => p.1 == i.subj && p.2.isPrefixOf i.ctx) <;> simp [hh] at hc ⊢
          have hrest : coveredAux seen r = true := by simpa [hany] using hc
          obtain ⟨p, hp, hpp⟩ := List.any_eq_true.mp hany
          simp only [Bool.and_eq_true] at hpp
          have hsubj : p.1 = i.subj := eq_of_beq hpp.1
          by_cases hctx : i.ctx.all env
          · have hvalid : valid i.subj = true := by
              rw [← hsubj]
              exact hs p hp (all_of_isPrefixOf env _ _ hpp.2 hctx)
            simp only [hctx, if_true] at h
            unfold consumes at hcons
            by_cases hp1 : i.kind == "process"
            · simp only [hp1, if_true] at h
              rcases h with h | h
              · rcases List.mem_cons.mp h with h | h
                · injection h with h; rw [h]; exact hvalid
                · exact ih seen hs hrest s (Or.inl h)
              · rcases List.mem_cons.mp h with h | h
                · cases h
                · exact ih seen hs hrest s (Or.inr h)
            · have hp2 : i.kind == "append" := by simpa [hp1] using hcons
              simp only [hp1, hp2, if_true] at h
              rcases h with h | h
              · rcases List.mem_cons.mp h with h | h
                · cases h
                · exact ih seen hs hrest s (Or.inl h)
              · rcases List.mem_cons.mp h with h | h
                · injection h with h; rw [h]; exact hvalid
                · exact ih seen hs hrest s (Or.inr h)
          · exact ih seen hs hrest s (by simpa [hctx] using h)
        · simp only [hcons] at hc
          unfold consumes at hcons
          have hp1 : (i.kind == "process") = false := by
            cases hh : (i.kind == "process") <;> simp [hh] at hcons ⊢
          have hp2 : (i.kind == "append") = false := by
            cases hh : (i.kind == "append") <;> simp [hh] at hcons ⊢
          by_cases hctx : i.ctx.all env
          · by_cases hr : i.kind == "return"
            · simp [hctx, hp1, hp2, hr] at h
            · exact ih seen hs (by simpa using hc) s (by simpa [hctx, hp1, hp2, hr] using h)
          · exact ih seen hs (by simpa using hc) s (by simpa [hctx] using h)

/-- the function of the table with that name -/
def fn (name : String) : List Item := ((SyncPaths.fns.find? (fun f => f.name == name)).map (·.items)).getD []

/-- every `process` site of the package: function, block expression, enclosing constructs -/
def processSites : List (String × String × List String) :=
  (SyncPaths.fns.map (fun f => (f.items.filter (fun i => i.kind == "process")).map (fun i => (f.name, i.subj, i.ctx)))).flatten

/-- the right-hand sides a local is ever bound to in a function -/
def sources (f : String) (v : String) : List String :=
  ((fn f).filter (fun i => (i.kind == "assign" || i.kind == "append") && i.dst == v)).map
    (fun i => if i.kind == "append" then "append:" ++ i.subj else i.subj)

/-- the first result of every return of a function -/
def firstResults (f : String) : List String :=
  ((fn f).filter (fun i => i.kind == "return")).map (·.subj)

end C03Sync

open C03Sync

/-! ### the criterion is sound, for every body, every valuation of the conditions and every validity predicate -/

/-- if the criterion holds, every block expression that reaches the processor or is appended to a list in a
pass over the body denotes a block that passed `Validate` -/
theorem C03_sync_covered_sound (env valid : String → Bool) (l : List Item) (h : covered l = true) (s : String)
    (hs : Ev.processed s ∈ run env valid l ∨ Ev.appended s ∈ run env valid l) : valid s = true :=
  covered_sound_aux env valid l [] (by intro p hp; cases hp) h s hs

/-- a validate under a condition the consumer is not under is NOT enough: the shape of "skip Validate for
the block whose id equals the announced id" fails the criterion, and there is a run in which the block
that does not pass `Validate` is appended / processed -/
theorem C03_sync_conditional_validate_unsound :
    let body : List Item :=
      [{ kind := "validate", subj := "downloaded.block", ctx := ["range", "if !bytes.Equal(downloaded.block.Header.ID, ctx.Block.Header.ID)"], exits := true },
       { kind := "append", subj := "downloaded.block", dst := "downloadedBlocks", ctx := ["range"] },
       { kind := "process", subj := "downloaded.block", ctx := ["range"] }]
    covered body = false ∧
    Ev.processed "downloaded.block" ∈ run (fun c => c == "range") (fun _ => false) body ∧
    Ev.appended "downloaded.block" ∈ run (fun c => c == "range") (fun _ => false) body := by
  decide

/-! ### the regenerated sites -/

/-- the processor callback is called at exactly three places: on the element of the download channel
(block synchroniser), on the elements of the list `downloadedBlocks` (fast synchroniser) and on the
elements of the list `blocks` (restore of the temporary blocks) -/
theorem C03_sync_processor_sites :
    processSites =
      [("blockSyncer.downloadAndProcess", "downloaded.block", ["range(downloaded in downloader.downloaded)"]),
       ("fastSyncer.Sync", "block", ["range(block in downloadedBlocks)"]),
       ("fastSyncer.restoreBlocks", "block", ["range(block in blocks)"])] := by
  decide +kernel

/-- the callback has no other name (the selector `.processor` occurs only as callee) and no `Validate` call
is handled in a way the extractor does not classify -/
theorem C03_sync_no_escape :
    (SyncPaths.fns.all fun f => f.items.all fun i => i.kind != "escape" && i.kind != "call") = true := by
  decide +kernel

/-- the download channel is read by the two synchroniser loops only (`Downloader.Start` fills it,
`Downloader.Downloaded` is an accessor nobody in the package calls) -/
theorem C03_sync_download_consumers :
    SyncPaths.downloadedUses =
      ["blockSyncer.downloadAndProcess", "Downloader.Downloaded", "Downloader.Start", "fastSyncer.downloadAndValidate"] ∧
    (SyncPaths.fns.filter fun f => f.items.any fun i => i.ctx.any fun c => c.endsWith ".downloaded)").map (·.name) =
      ["blockSyncer.downloadAndProcess", "fastSyncer.downloadAndValidate"] := by
  decide +kernel

/-- block synchroniser: every downloaded block is validated, on every path, before the processor gets it -/
theorem C03_sync_block_sync_validates_every_download :
    covered (fn "blockSyncer.downloadAndProcess") = true ∧
    ∀ env valid s, Ev.processed s ∈ run env valid (fn "blockSyncer.downloadAndProcess") → valid s = true := by
  have h : covered (fn "blockSyncer.downloadAndProcess") = true := by decide +kernel
  exact ⟨h, fun env valid s hs => C03_sync_covered_sound env valid _ h s (Or.inl hs)⟩

/-- fast synchroniser, download: every block appended to the result list is validated, on every path, before -/
theorem C03_sync_fast_sync_validates_every_download :
    covered (fn "fastSyncer.downloadAndValidate") = true ∧
    ∀ env valid s, Ev.appended s ∈ run env valid (fn "fastSyncer.downloadAndValidate") → valid s = true := by
  have h : covered (fn "fastSyncer.downloadAndValidate") = true := by decide +kernel
  exact ⟨h, fun env valid s hs => C03_sync_covered_sound env valid _ h s (Or.inr hs)⟩

/-- fast synchroniser: the list whose elements go to the processor is the first result of
`downloadAndValidate`, and that result is, at every return, the list that starts empty and only receives
the validated appends -/
theorem C03_sync_fast_sync_applies_validated_list :
    sources "fastSyncer.Sync" "downloadedBlocks" = ["self.downloadAndValidate(ctx, downloader)#0"] ∧
    sources "fastSyncer.Sync" "block" = [] ∧
    firstResults "fastSyncer.downloadAndValidate" = ["downloadedBlocks", "downloadedBlocks", "downloadedBlocks"] ∧
    sources "fastSyncer.downloadAndValidate" "downloadedBlocks" = ["[]*blockchain.Block{}", "append:downloaded.block"] := by
  decide +kernel

/-- restore after a failed fast synchronisation: only the node's own temporary blocks (blocks it had applied
itself) are applied again -/
theorem C03_sync_restore_applies_temp_blocks :
    sources "fastSyncer.restoreBlocks" "blocks" = ["self.chain.DataAccess().GetTempBlocks()#0"] ∧
    sources "fastSyncer.restoreBlocks" "block" = [] := by
  decide +kernel

/-- `Syncer.Sync` validates the announced block before it chooses a synchroniser -/
theorem C03_sync_announced_block_validated :
    (fn "Syncer.Sync").head? = some { kind := "validate", subj := "ctx.Block", exits := true } ∧
    ((fn "Syncer.Sync").filter fun i => i.kind == "assign").map (fun i => (i.subj, i.ctx.head?)) =
      [("self.fastSyncer.Sync(ctx)#0", some "if self.shouldFastSync(ctx)"), ("self.fastSyncer.Sync(ctx)#1", some "if self.shouldFastSync(ctx)"),
       ("self.blockSyncer.Sync(ctx)#0", some "if self.shouldSync(ctx)"), ("self.blockSyncer.Sync(ctx)#1", some "if self.shouldSync(ctx)")] := by
  decide +kernel

/-! ### non-vacuity -/

example : processSites.length = 3 ∧ SyncPaths.scanned ≥ 10 := by decide +kernel

example : run (fun _ => true) (fun _ => true) (fn "blockSyncer.downloadAndProcess") = [] := by decide +kernel

example : run (fun c => c != "if downloaded.err != nil" && c != "if downloaded.block.Validate() != nil" && c != "if err != nil") (fun _ => true)
    (fn "blockSyncer.downloadAndProcess") = [.validated "downloaded.block", .processed "downloaded.block"] := by decide +kernel

example : run (fun c => c != "if downloaded.err != nil") (fun _ => false) (fn "fastSyncer.downloadAndValidate") = [] := by decide +kernel
