/-
C14 — the pool limits of the configuration reach the pool unchanged; zero limits are replaced by positive
defaults both by the engine configuration and by the pool's own constructor (tie A, table described in
Props/C13_Wire.lean).  `C14Inv` is proved for limits ≥ 1.
-/
import LiskVerif.Lemmas.Wire

open LiskVerif LiskVerif.Wire

theorem C14_wire_pool_limits :
    wired "Engine.init" "txpool.TransactionPoolConfig" "MaxTransactions" "e.config.TransactionPool.MaxTransactions" = true ∧
    wired "Engine.init" "txpool.TransactionPoolConfig" "MaxTransactionsPerAccount" "e.config.TransactionPool.MaxTransactionsPerAccount" = true ∧
    wired "Engine.init" "txpool.TransactionPoolConfig" "TransactionExpiryTime" "e.config.TransactionPool.TransactionExpiryTime" = true ∧
    wired "Engine.init" "txpool.TransactionPoolConfig" "MinEntranceFeePriority" "e.config.TransactionPool.MinEntranceFeePriority" = true ∧
    wired "Engine.init" "txpool.TransactionPoolConfig" "MinReplacementFeeDifference" "e.config.TransactionPool.MinReplacementFeeDifference" = true ∧
    wired "Engine.init" "recv" "transactionPool" "txpool.NewTransactionPool(poolConfig)" = true ∧
    wired "NewTransactionPool" "TransactionPool" "config" "config" = true := by decide +kernel

theorem C14_wire_defaults_positive :
    positiveDefault "TransactionPoolConfig.InsertDefault" "MaxTransactions" "0" = true ∧
    positiveDefault "TransactionPoolConfig.InsertDefault" "MaxTransactionsPerAccount" "0" = true ∧
    positiveDefault "TransactionPoolConfig.SetDefault" "MaxTransactions" "0" = true ∧
    positiveDefault "TransactionPoolConfig.SetDefault" "MaxTransactionsPerAccount" "0" = true ∧
    positiveDefault "TransactionPoolConfig.SetDefault" "MinReplacementFeeDifference" "0" = true := by decide +kernel

/-- the constructor applies its defaults before the pool is built -/
theorem C14_wire_constructor_sets_defaults :
    (seqsOf "NewTransactionPool" "config.SetDefault").length = 1 ∧
    unconditional "NewTransactionPool" "config.SetDefault" = true := by decide +kernel

/-- the pool starts empty: fresh maps, a fresh lock, an initialised (empty) fee heap -/
theorem C14_wire_pool_starts_empty :
    wired "NewTransactionPool" "TransactionPool" "allTransactions" "map[string]*TransactionWithFeePriority{}" = true ∧
    wired "NewTransactionPool" "TransactionPool" "perAccount" "map[string]*addressTransactions{}" = true ∧
    wired "NewTransactionPool" "TransactionPool" "mutex" "new(sync.RWMutex)" = true ∧
    wired "NewTransactionPool" "TransactionPool" "feePriorityQueue" "queue" = true := by decide +kernel
