/-
C17 — P2P request/response: gap-closing theorems on the interleaving model `LiskVerif.ReqResp`
(Model/ReqResp.lean, fixed protocol `step`; lemmas in Lemmas/ReqRespMore.lean).

1. termination / liveness for ANY number of concurrent requesters and handlers:
   `C17_global_measure`, `C17_thread_steps_bounded`, `C17_threads_alone_terminate` (a global
   well-founded measure over the interleaving relation), `C17_outcome_at_return`,
   `C17_fair_liveness` / `C17_fair_liveness_all_return` (infinite executions, strong fairness of the
   threads only: nothing is assumed about the environment and nothing about the return of `mp.send`);
2. no lost reply, trace level: `C17_delivered_reply_is_returned`, `C17_race_timeout_vs_delivery`;
3. isolation (a hanging `mp.send` delays nobody): `C17_send_outside_critical_section`,
   `C17_hanging_sends_block_nobody`, and the counterexample for the variant that keeps `resMu` across
   the send, `C17_widened_lock_stalls_counterexample`;
4. correlation under an adversarial network (forged responses with any id and payload):
   `C17_correlation_adversarial`, `C17_forged_other_ids_harmless`, `C17_ids_never_reused`;
5. cleanup: `C17_quiescent_clean`, `C17_pending_injective`, `C17_entry_gone_for_good`.

`P : Nat → Nat` is the remote handler (request id ↦ payload of its answer).
-/
import LiskVerif.Lemmas.ReqRespMore
import LiskVerif.Props.C17_Skel

open LiskVerif LiskVerif.ReqResp

/-! ## 1. termination and liveness -/

/-- What `request` returns: the response the remote handler produced for the id of the last attempt,
or a timeout — only with the retry budget used up and only if no response was handed to the channel
while the last attempt was waiting —, or the caller's cancellation, or the send error. -/
theorem C17_outcome_at_return (P : Nat → Nat) (s : State) (hs : Reachable P s)
    (i : Nat) (r : Req) (hr : s.reqs[i]? = some r) (hd : r.pc = .done) :
    r.out = some (.got ⟨r.id, P r.id⟩) ∨
    (r.out = some .timeout ∧ r.retries = 0 ∧ r.arrived = false) ∨
    r.out = some .cancelled ∨ r.out = some .sendErr := by
  have hI := inv_reachable P s hs
  have hI2 := inv2_reachable P s hs
  have hne := hI2.postOut i r hr (by simp [hd, RPc.post])
  cases ho : r.out with
  | none => exact absurd ho hne
  | some o =>
    cases o with
    | got m => left; rw [hI.outOk i r m hr ho]
    | timeout =>
      right; left
      refine ⟨rfl, hI2.doneBudget i r hr hd ho, ?_⟩
      cases ha : r.arrived with
      | false => rfl
      | true =>
        rcases hI.ghost i r hr ha with ⟨hw, _⟩ | ⟨m, hm⟩ | hc
        · rw [hd] at hw; cases hw
        · rw [ho] at hm; cases hm
        · rw [ho] at hc; cases hc
    | cancelled => right; right; left; rfl
    | sendErr => right; right; right; rfl

/-- **Global measure.**  `gMeasure s` = the sum over all requester threads of
`10 * retries + (statements left in the attempt)` plus the sum over all handler threads of the
statements left in `onResponse`.  EVERY thread statement — of any requester or handler, under any
interleaving — strictly decreases it; an environment action adds exactly its cost (4 for a delivered
response = a new handler thread, `10 * b + 9` for a new call of `request` with budget `b`, 0 for
answering / duplicating / dropping). -/
theorem C17_global_measure (P : Nat → Nat) (s s' : State) (a : Action) (hstep : step P s a = some s') :
    (a.isThread = true → gMeasure s' < gMeasure s) ∧
    (a.isThread = false → gMeasure s' = gMeasure s + envCost a) :=
  gMeasure_step P s s' a hstep

/-- … over whole schedules: the number of thread statements executed in ANY run is bounded by the
measure of its first state plus what the environment added (4 per delivered response, `10 * b + 9`
per new request). -/
theorem C17_thread_steps_bounded (P : Nat → Nat) (s s' : State) (l : List Action)
    (hrun : run P s l = some s') :
    threadSteps l + gMeasure s' ≤ gMeasure s + (l.map envCost).sum :=
  gMeasure_run P l s s' hrun

/-- **Termination under every schedule.**  If the environment is silent, the threads (any number of
requesters with any budgets, any number of handlers) execute at most `gMeasure s` statements
altogether, whatever the interleaving; and a thread-only run that cannot be extended has ended with
every call of `request` and every `onResponse` returned (no thread is left blocked). -/
theorem C17_threads_alone_terminate (P : Nat → Nat) (s s' : State) (hs : Reachable P s)
    (l : List Action) (hl : ∀ a ∈ l, a.isThread = true) (hrun : run P s l = some s') :
    l.length + gMeasure s' ≤ gMeasure s ∧
    ((∀ a, a.isThread = true → step P s' a = none) → allDone s' = true) := by
  constructor
  · have h := gMeasure_run P l s s' hrun
    have h1 : threadSteps l = l.length := by
      simp only [threadSteps]
      rw [List.filter_eq_self.mpr hl]
    have h2 : (l.map envCost).sum = 0 := by
      clear hrun h h1
      induction l with
      | nil => rfl
      | cons a l ih =>
        have ha := hl a (by simp)
        have : envCost a = 0 := by cases a <;> simp [Action.isThread] at ha <;> rfl
        simp [this, ih (fun b hb => hl b (List.mem_cons_of_mem _ hb))]
    omega
  · intro hno
    rcases C17_deadlock_free P s' (reachable_run P l s s' hs hrun) with h | ⟨a, ha, hsome⟩
    · exact h
    · rw [hno a ha] at hsome; simp at hsome

/-- **Liveness under fairness.**  Consider any infinite execution (stuttering allowed) from a
reachable state that is strongly fair to every requester and handler thread.  Nothing is assumed of
the environment (responses may be delayed, dropped, duplicated, never sent; new requests may keep
arriving) and nothing of `mp.send` (it may block forever).  Then
* every invocation of `onResponse` returns — responses are processed no matter how many requesters
  hang in `mp.send` (isolation);
* every call of `request` returns — with the remote handler's response for its own id, or with a
  timeout after the whole retry budget and only if no response was handed over while the last
  attempt waited, or with the caller's cancellation, or with the send error — unless it stays inside
  `mp.send` forever. -/
theorem C17_fair_liveness (P : Nat → Nat) (e : Exec P) (hf : ∀ t, e.Fair t) (n : Nat) :
    (∀ (j : Nat) (h : Hdl), (e.σ n).hdls[j]? = some h →
      ∃ m h', n ≤ m ∧ (e.σ m).hdls[j]? = some h' ∧ h'.pc = .done ∧ h'.msg = h.msg) ∧
    (∀ (i : Nat) (r : Req), (e.σ n).reqs[i]? = some r →
      (∃ m r', n ≤ m ∧ (e.σ m).reqs[i]? = some r' ∧ r'.pc = .done ∧
        (r'.out = some (.got ⟨r'.id, P r'.id⟩) ∨
         (r'.out = some .timeout ∧ r'.retries = 0 ∧ r'.arrived = false) ∨
         r'.out = some .cancelled ∨ r'.out = some .sendErr)) ∨
      (∃ m, n ≤ m ∧ ∀ k, m ≤ k → ∃ r', (e.σ k).reqs[i]? = some r' ∧ r'.pc = .send)) := by
  constructor
  · intro j h hh
    exact e.hdl_terminates hf n j h hh
  · intro i r hr
    rcases e.req_terminates hf n i r hr with ⟨m, r', hm, hr', hd⟩ | h
    · exact Or.inl ⟨m, r', hm, hr', hd, C17_outcome_at_return P _ (e.reachable m) i r' hr' hd⟩
    · exact Or.inr h

/-- … and if every `mp.send` eventually returns (successfully or with an error), every call of
`request` returns. -/
theorem C17_fair_liveness_all_return (P : Nat → Nat) (e : Exec P) (hf : ∀ t, e.Fair t)
    (hsend : ∀ (i k : Nat) (r : Req), (e.σ k).reqs[i]? = some r → r.pc = .send →
      ∃ k' r', k ≤ k' ∧ (e.σ k').reqs[i]? = some r' ∧ r'.pc ≠ .send)
    (n i : Nat) (r : Req) (hr : (e.σ n).reqs[i]? = some r) :
    ∃ m r', n ≤ m ∧ (e.σ m).reqs[i]? = some r' ∧ r'.pc = .done ∧
      (r'.out = some (.got ⟨r'.id, P r'.id⟩) ∨
       (r'.out = some .timeout ∧ r'.retries = 0 ∧ r'.arrived = false) ∨
       r'.out = some .cancelled ∨ r'.out = some .sendErr) := by
  rcases (C17_fair_liveness P e hf n).2 i r hr with h | ⟨m, _, hm⟩
  · exact h
  · exfalso
    obtain ⟨r1, hr1, hp1⟩ := hm m (Nat.le_refl _)
    obtain ⟨k', r', hk', hr', hne⟩ := hsend i m r1 hr1 hp1
    obtain ⟨r2, hr2, hp2⟩ := hm k' hk'
    rw [hr'] at hr2; cases hr2
    exact hne hp2

/-- once all threads are done no thread statement is enabled -/
private theorem allDone_no_thread_step (P : Nat → Nat) (s : State) (hd : allDone s = true) (a : Action)
    (ha : a.isThread = true) : step P s a = none := by
  simp only [allDone, Bool.and_eq_true, List.all_eq_true] at hd
  have hR : ∀ (i : Nat) (r : Req), s.reqs[i]? = some r → r.pc = .done := fun i r hr => by
    have := hd.1 r (List.mem_of_getElem? hr); simpa [reqDone] using this
  have hH : ∀ (j : Nat) (h : Hdl), s.hdls[j]? = some h → h.pc = .done := fun j h hh => by
    have := hd.2 h (List.mem_of_getElem? hh); simpa [hdlDone] using this
  cases a <;> simp only [Action.isThread] at ha <;> simp only [step]
  case rStep i => cases hr : s.reqs[i]? with
    | none => rfl
    | some r => simp [stepReq, hR i r hr]
  case rSendOk i => cases hr : s.reqs[i]? with
    | none => rfl
    | some r => simp [hR i r hr]
  case rSendErr i => cases hr : s.reqs[i]? with
    | none => rfl
    | some r => simp [hR i r hr]
  case rRecv i => cases hr : s.reqs[i]? with
    | none => rfl
    | some r => simp [hR i r hr]
  case rTimeout i => cases hr : s.reqs[i]? with
    | none => rfl
    | some r => simp [hR i r hr]
  case rCancel i => cases hr : s.reqs[i]? with
    | none => rfl
    | some r => simp [hR i r hr]
  case hStep j => cases hh : s.hdls[j]? with
    | none => rfl
    | some h => simp [stepHdl, hH j h hh]
  all_goals exact absurd ha (by simp)

private theorem local_isThread (a : Action) (h : a.isLocal = true) : a.isThread = true := by
  cases a <;> simp [Action.isLocal] at h <;> rfl

/-- three concurrent requests — answered early with a duplicate, timed out with one retry and then
cancelled, failed send — and a late response for an id that is no longer registered -/
def C17_mixedTrace : List Action :=
  [.spawn 0, .spawn 1, .spawn 0,
   .rStep 0, .rStep 1, .rStep 2,                          -- three fresh ids 0, 1, 2
   .rStep 0, .rStep 0, .rStep 0, .rSendOk 0,              -- request 0 registered and on the wire
   .rStep 1, .rStep 1, .rStep 1,                          -- requester 1 registered, inside mp.send
   .nRespond 0, .nDup 0, .nDeliver 0,
   .hStep 0, .hStep 0, .hStep 0, .hStep 0,                -- response 0 buffered while requester 1 is in send
   .rSendOk 1,
   .rStep 2, .rStep 2, .rStep 2, .rSendErr 2,             -- requester 2: the send fails
   .rStep 2, .rStep 2, .rStep 2,                          --   … unregisters and returns the error
   .rRecv 0, .rStep 0, .rStep 0, .rStep 0,                -- requester 0 returns the response
   .nRespond 1,                                           -- the answer to request 1 is slow
   .rTimeout 1, .rStep 1, .rStep 1, .rStep 1,             -- attempt 1 of requester 1 times out, retry
   .nDeliver 0, .hStep 1, .hStep 1, .hStep 1,             -- late response for id 1: unknown request ID
   .rStep 1, .rStep 1, .rStep 1, .rStep 1, .rSendOk 1,    -- second attempt (id 3)
   .rCancel 1, .rStep 1, .rStep 1, .rStep 1,              -- the caller gives up
   .nDeliver 0, .hStep 2, .hStep 2, .hStep 2]             -- the duplicate of response 0: unknown request ID

/-- the run is executable and ends with every thread done, the map empty and the lock free -/
example : ∃ s, run C17P init C17_mixedTrace = some s ∧
    s.reqs.map (fun r => (r.pc, r.out)) =
      [(.done, some (.got ⟨0, 100⟩)), (.done, some .cancelled), (.done, some .sendErr)] ∧
    s.resCh = [] ∧ s.lock = none ∧ s.unknown = [0, 1] ∧ allDone s = true := by decide

/-- non-vacuity of `C17_outcome_at_return`: reachable states with each of the four outcomes -/
example : ∃ s, Reachable C17P s ∧ ∃ r0, s.reqs[0]? = some r0 ∧ ∃ r1, s.reqs[1]? = some r1 ∧
    ∃ r2, s.reqs[2]? = some r2 ∧ r0.pc = .done ∧ r1.pc = .done ∧ r2.pc = .done ∧
    r0.out = some (.got ⟨r0.id, C17P r0.id⟩) ∧ r1.out = some .cancelled ∧ r2.out = some .sendErr := by
  have h : ∃ s, run C17P init C17_mixedTrace = some s ∧ ∃ r0, s.reqs[0]? = some r0 ∧
      ∃ r1, s.reqs[1]? = some r1 ∧ ∃ r2, s.reqs[2]? = some r2 ∧
      r0.pc = .done ∧ r1.pc = .done ∧ r2.pc = .done ∧
      r0.out = some (.got ⟨r0.id, C17P r0.id⟩) ∧ r1.out = some .cancelled ∧ r2.out = some .sendErr := by
    decide
  obtain ⟨s, hr, h⟩ := h
  exact ⟨s, reachable_run C17P _ _ _ .init hr, h⟩

example : ∃ s, Reachable C17P s ∧ ∃ r, s.reqs[0]? = some r ∧ r.pc = .done ∧ r.out = some .timeout ∧
    r.retries = 0 ∧ r.arrived = false := by
  have h : ∃ s, run C17P init C17_fixedRaceTrace = some s ∧ ∃ r, s.reqs[0]? = some r ∧ r.pc = .done ∧
      r.out = some .timeout ∧ r.retries = 0 ∧ r.arrived = false := by decide
  obtain ⟨s, hr, h⟩ := h
  exact ⟨s, reachable_run C17P _ _ _ .init hr, h⟩

/-- non-vacuity of the measure theorems: the mixed run has 45 thread statements; the environment
contributed `9 + 19 + 9` for the three requests and `3 * 4` for the three delivered responses -/
example : threadSteps C17_mixedTrace = 45 ∧ (C17_mixedTrace.map envCost).sum = 49 ∧
    gMeasure init = 0 ∧ (run C17P init C17_mixedTrace).map gMeasure = some 0 := by decide

/-- non-vacuity of `C17_fair_liveness`: the mixed run, continued by stuttering, is an execution that
is fair to every thread; it contains requesters and handlers -/
example : ∃ e : Exec C17P, (∀ t, e.Fair t) ∧ ((e.σ 3).reqs[1]?).isSome = true ∧
    ((e.σ 16).hdls[0]?).isSome = true := by
  have h : ∃ s, run C17P init C17_mixedTrace = some s ∧ allDone s = true := by decide
  obtain ⟨s, hr, hd⟩ := h
  refine ⟨Exec.ofRun C17P _ s hr, ?_, ?_, ?_⟩
  · exact Exec.ofRun_fair C17P _ s hr
      (fun a ha => allDone_no_thread_step C17P s hd a (local_isThread a ha))
  · show ((stateAt C17P init C17_mixedTrace 3).reqs[1]?).isSome = true
    decide
  · show ((stateAt C17P init C17_mixedTrace 16).hdls[0]?).isSome = true
    decide

/-! ## 2. no lost reply, trace level -/

private theorem served_explicit (P : Nat → Nat) (x b : Nat) (l : List Action) (ch : Nat) (r' : Req) (s' : State)
    (hr' : s'.reqs[ch]? = some r')
    (hS : Served P x b (decide (Action.rCancel ch ∈ l)) r') :
    r'.id = x ∧ r'.retries = b ∧
      ((r'.pc = .wait ∧ r'.buf = some ⟨x, P x⟩ ∧ step P s' (.rTimeout ch) = none) ∨
       ((r'.pc = .unLock ∨ r'.pc = .unDelete ∨ r'.pc = .unUnlock ∨ r'.pc = .done) ∧
        (r'.out = some (.got ⟨x, P x⟩) ∨ (Action.rCancel ch ∈ l ∧ r'.out = some .cancelled)))) := by
  obtain ⟨hid, hret, hc⟩ := hS
  refine ⟨hid, hret, ?_⟩
  rcases hc with ⟨hw, hb⟩ | ⟨hp, ho⟩
  · left; exact ⟨hw, hb, by simp [step, hr', hb]⟩
  · right
    constructor
    · cases hpc : r'.pc <;> simp [hpc, RPc.post] at hp ⊢
    · rcases ho with ho | ⟨hc, ho⟩
      · exact Or.inl ho
      · exact Or.inr ⟨by simpa using hc, ho⟩

/-- **No lost reply, for every continuation.**  Suppose `onResponse` performs its channel send (the
`deliver` statement, under `resMu`) while the requester owning the channel still sits in its
`select`.  Then in EVERY later state of EVERY interleaving with every behaviour of the network and
of the other requests, that requester is still in the same attempt (same id, same retry budget: it
never times out and never retries) and either still waits with exactly that response in its channel
and its timeout branch disabled, or has left the `select` with that response as the result — or with
the caller's own cancellation, and this only if a `ctx.Done()` step of that requester occurred
afterwards.  In particular when it is `done` without such a cancellation it returned the response. -/
theorem C17_delivered_reply_is_returned (P : Nat → Nat) (s s1 : State) (hs : Reachable P s)
    (j ch : Nat) (h : Hdl) (r : Req)
    (hh : s.hdls[j]? = some h) (hpc : h.pc = .deliver ch) (hr : s.reqs[ch]? = some r) (hw : r.pc = .wait)
    (hstep : step P s (.hStep j) = some s1) (l : List Action) (s' : State) (hrun : run P s1 l = some s') :
    ∃ r', s'.reqs[ch]? = some r' ∧ r'.id = r.id ∧ r'.retries = r.retries ∧
      ((r'.pc = .wait ∧ r'.buf = some ⟨r.id, P r.id⟩ ∧ step P s' (.rTimeout ch) = none) ∨
       ((r'.pc = .unLock ∨ r'.pc = .unDelete ∨ r'.pc = .unUnlock ∨ r'.pc = .done) ∧
        (r'.out = some (.got ⟨r.id, P r.id⟩) ∨ (Action.rCancel ch ∈ l ∧ r'.out = some .cancelled)))) := by
  obtain ⟨r1, hr1, hw1, hid1, _, hb1, _⟩ :=
    C17_delivery_reaches_waiting_requester P s s1 hs j h ch r hh hpc hr hw hstep
  have hret1 : r1.retries = r.retries := by
    obtain ⟨r1', hr1', hc⟩ := req_effect P s s1 _ hstep ch r hr
    rw [hr1] at hr1'; cases hr1'
    rcases hc with ⟨hact, _⟩ | ⟨_, rfl | ⟨m, rfl⟩⟩
    · simp [actor] at hact
    · rfl
    · rfl
  have hS1 : Served P r.id r.retries (decide (Action.rCancel ch ∈ l)) r1 :=
    ⟨hid1, hret1, Or.inl ⟨hw1, hb1⟩⟩
  obtain ⟨r', hr', hS'⟩ := served_run P l s1 s' hrun ch r.id r.retries _ r1 hr1 hS1 (by simp)
  exact ⟨r', hr', served_explicit P r.id r.retries l ch r' s' hr' hS'⟩

/-- **The race "timeout fires while `onResponse` holds `resMu`".**  Let a handler hold `resMu` at its
lookup with a response for the id a waiting requester is working on.  Then the handler's next two
statements are enabled whatever else happens (it never blocks), and if the requester's timer /
context does not fire before them, the response is in the channel and — by the previous theorem's
argument — is what the requester returns in every continuation: the reply can only be "lost" to a
timeout / cancellation that fired BEFORE the channel send, i.e. before the response arrived. -/
theorem C17_race_timeout_vs_delivery (P : Nat → Nat) (s : State) (hs : Reachable P s)
    (j ch : Nat) (h : Hdl) (r : Req)
    (hh : s.hdls[j]? = some h) (hpc : h.pc = .lookup) (hid : h.msg.rid = r.id)
    (hr : s.reqs[ch]? = some r) (hw : r.pc = .wait) :
    ∃ s2, run P s [.hStep j, .hStep j] = some s2 ∧
      ∀ (l : List Action) (s' : State), run P s2 l = some s' →
        ∃ r', s'.reqs[ch]? = some r' ∧ r'.id = r.id ∧ r'.retries = r.retries ∧
          ((r'.pc = .wait ∧ r'.buf = some ⟨r.id, P r.id⟩ ∧ step P s' (.rTimeout ch) = none) ∨
           ((r'.pc = .unLock ∨ r'.pc = .unDelete ∨ r'.pc = .unUnlock ∨ r'.pc = .done) ∧
            (r'.out = some (.got ⟨r.id, P r.id⟩) ∨ (Action.rCancel ch ∈ l ∧ r'.out = some .cancelled)))) := by
  have hI := inv_reachable P s hs
  have hreg : s.resCh.lookup h.msg.rid = some ch := by
    rw [hid]; exact hI.regd ch r hr (by simp [hw, RPc.registered])
  have hjlt : j < s.hdls.length := (List.getElem?_eq_some_iff.mp hh).1
  -- first statement: the lookup finds the requester's channel
  have hstep1 : step P s (.hStep j) =
      some { s with hdls := s.hdls.set j { h with pc := .deliver ch } } := by
    simp [step, hh, stepHdl, hpc, hreg]
  -- second statement: the non-blocking send
  let s1 : State := { s with hdls := s.hdls.set j { h with pc := .deliver ch } }
  have hs1 : Reachable P s1 := .step _ hs hstep1
  have hh1 : s1.hdls[j]? = some { h with pc := .deliver ch } := List.getElem?_set_self hjlt
  have hr1 : s1.reqs[ch]? = some r := hr
  obtain ⟨s2, hstep2⟩ : ∃ s2, step P s1 (.hStep j) = some s2 := by
    simp [step, hh1, stepHdl, hr1]
  refine ⟨s2, by simp only [run, hstep1]; simp only [s1] at hstep2; simp [hstep2], ?_⟩
  intro l s' hrun
  exact C17_delivered_reply_is_returned P s1 s2 hs1 j ch _ r hh1 rfl hr1 hw hstep2 l s' hrun

/-- non-vacuity: the hypotheses of `C17_race_timeout_vs_delivery` hold after the first 9 actions of
the race schedule of Props/C17 (handler 0 has looked nothing up yet but holds `resMu`; requester 0
waits); in the continuation where the timer stays quiet the requester returns the response, in the
continuation `C17_fixedRaceTrace` (timer first) it returns the timeout -/
example : ∃ s, Reachable C17P s ∧ ∃ h, s.hdls[0]? = some h ∧ ∃ r, s.reqs[0]? = some r ∧
    h.pc = .lookup ∧ h.msg.rid = r.id ∧ r.pc = .wait := by
  have h : ∃ s, run C17P init (C17_fixedRaceTrace.take 9) = some s ∧ ∃ h, s.hdls[0]? = some h ∧
      ∃ r, s.reqs[0]? = some r ∧ h.pc = .lookup ∧ h.msg.rid = r.id ∧ r.pc = .wait := by decide
  obtain ⟨s, hr, h⟩ := h
  exact ⟨s, reachable_run C17P _ _ _ .init hr, h⟩

example : ∃ s, run C17P init (C17_fixedRaceTrace.take 9 ++
      [.hStep 0, .hStep 0, .hStep 0, .rRecv 0, .rStep 0, .rStep 0, .rStep 0]) = some s ∧
    s.reqs.map (fun r => (r.pc, r.out)) = [(.done, some (.got ⟨0, 100⟩))] ∧ allDone s = true := by
  decide

/-! ## 3. isolation: a hanging `mp.send` delays nobody -/

/-- `resMu` is never held across `mp.send` (nor across the `select`): a requester that holds the lock
is at one of the four map statements `resCh[id] = ch` / `Unlock` / `delete(resCh, id)` / `Unlock`,
each of which is enabled (Props/C17 `C17_lock_holder_never_blocks`).  This is the model-level
counterpart of the regenerated skeleton facts `C17_gen_register_before_send` (the registration is
complete — written AND unlocked — when `send` is called) and `C17_gen_requester_waits_outside_lock`. -/
theorem C17_send_outside_critical_section (P : Nat → Nat) (s : State) (hs : Reachable P s)
    (i : Nat) (r : Req) (hr : s.reqs[i]? = some r) :
    (s.lock = some (.req i) →
      r.pc = .regStore ∨ r.pc = .regUnlock ∨ r.pc = .unDelete ∨ r.pc = .unUnlock) ∧
    (r.pc = .send ∨ r.pc = .wait → s.lock ≠ some (.req i)) := by
  have hI := inv_reachable P s hs
  have h1 := hI.lockReq i r hr
  constructor
  · intro hl
    have := h1.mpr hl
    cases hpc : r.pc <;> simp [hpc, RPc.holds] at this ⊢
  · intro hp hl
    have := h1.mpr hl
    rcases hp with hp | hp <;> simp [hp, RPc.holds] at this

/-- **Requests to a slow / hanging peer block nobody.**  In every reachable state, even if NO
`mp.send` ever returns (no `rSendOk` / `rSendErr` is ever taken), either every thread is done or
parked inside `mp.send`, or some thread can execute a statement that does not depend on any send
returning.  Together with the rank bound: all handlers and all requesters that are not themselves
inside `send` finish on their own. -/
theorem C17_hanging_sends_block_nobody (P : Nat → Nat) (s : State) (hs : Reachable P s) :
    ((∀ r ∈ s.reqs, r.pc = .done ∨ r.pc = .send) ∧ (∀ h ∈ s.hdls, h.pc = .done)) ∨
    ∃ a, a.isLocal = true ∧ (step P s a).isSome = true := by
  cases hl : s.lock with
  | some t =>
    right
    obtain ⟨⟨a, _, hloc, hen⟩, _⟩ := holder_localEnabled P s hs t hl
    exact ⟨a, hloc, hen⟩
  | none =>
    by_cases hR : ∀ r ∈ s.reqs, r.pc = .done ∨ r.pc = .send
    · by_cases hH : ∀ h ∈ s.hdls, h.pc = .done
      · exact Or.inl ⟨hR, hH⟩
      · right
        have : ∃ h ∈ s.hdls, h.pc ≠ .done := by
          apply Classical.byContradiction
          intro hne
          exact hH (fun h hm => Classical.byContradiction (fun hc => hne ⟨h, hm, hc⟩))
        obtain ⟨h, hm, hnd⟩ := this
        obtain ⟨j, hj⟩ := List.getElem?_of_mem hm
        obtain ⟨a, _, hloc, hen⟩ := hdl_localEnabled P s j h hj hl hnd
        exact ⟨a, hloc, hen⟩
    · right
      have : ∃ r ∈ s.reqs, ¬ (r.pc = .done ∨ r.pc = .send) := by
        apply Classical.byContradiction
        intro hne
        exact hR (fun r hm => Classical.byContradiction (fun hc => hne ⟨r, hm, hc⟩))
      obtain ⟨r, hm, hnd⟩ := this
      obtain ⟨i, hi⟩ := List.getElem?_of_mem hm
      obtain ⟨a, _, hloc, hen⟩ := req_localEnabled P s i r hi hl
        (fun h => hnd (Or.inl h)) (fun h => hnd (Or.inr h))
      exact ⟨a, hloc, hen⟩

/-- the schedule that stalls the WIDENED-LOCK variant (`stepW`: `Lock; resCh[id] = ch; send; Unlock`,
the seeded change C17-3): request 0 is on the wire and waits; request 1 has registered and sits in
`mp.send` to a slow peer — with `resMu`; the response to request 0 arrives -/
def C17_widenedTrace : List Action :=
  [.spawn 0, .spawn 0,
   .rStep 0, .rStep 0, .rStep 0, .rSendOk 0, .rStep 0,   -- request 0: id, Lock, store, send ok, Unlock: select
   .rStep 1, .rStep 1, .rStep 1,                         -- request 1: id, Lock, store — now inside mp.send
   .nRespond 0, .nDeliver 0]                             -- the response to request 0 reaches onResponse

def C17_widenedState : State :=
  { lock := some (.req 1), resCh := [(1, 1), (0, 0)],
    reqs := [{ pc := .wait, id := 0, buf := none, out := none, retries := 0, arrived := false },
             { pc := .send, id := 1, buf := none, out := none, retries := 0, arrived := false }],
    hdls := [{ pc := .lock, msg := ⟨0, 100⟩ }],
    net := [], sent := [0], nextId := 2, unknown := [] }

/-- **Counterexample for the widened lock scope.**  With `resMu` held across `mp.send` the schedule
above is executable and leads to a state in which the response to request 0 has reached `onResponse`
well before request 0's deadline, but as long as the send of request 1 does not return — for ANY
continuation containing no `rSendOk 1` / `rSendErr 1`, however long — `resMu` stays with requester 1,
no invocation of `onResponse` (this one or any later one) gets past `Lock`, nothing is ever put into
request 0's channel, request 0 can only leave its `select` by timeout or cancellation and then
cannot even unregister and return, and no new request gets past its registration.  The continuation
`C17_widenedLostTrace` ends with request 0 returning a timeout although its response was processed. -/
theorem C17_widened_lock_stalls_counterexample :
    runW C17P init C17_widenedTrace = some C17_widenedState ∧
    stepW C17P C17_widenedState (.hStep 0) = none ∧
    (∀ l s', (∀ a ∈ l, a ≠ .rSendOk 1 ∧ a ≠ .rSendErr 1) → runW C17P C17_widenedState l = some s' →
      s'.lock = some (.req 1) ∧
      (∀ (j : Nat) (h : Hdl), s'.hdls[j]? = some h → h.pc = .lock) ∧
      (∃ r, s'.reqs[0]? = some r ∧ r.buf = none ∧ r.pc ≠ .done ∧ ∀ m, r.out ≠ some (.got m)) ∧
      (∀ (i : Nat) (r : Req), i ≠ 0 → i ≠ 1 → s'.reqs[i]? = some r → r.pc = .start ∨ r.pc = .regLock)) := by
  have hS : StuckW C17_widenedState := by
    refine ⟨rfl, ⟨_, rfl, rfl⟩, ⟨_, rfl, rfl, Or.inl ⟨rfl, rfl⟩⟩, ?_, ?_⟩
    · intro j h hh
      cases j with
      | zero => simp [C17_widenedState] at hh; subst hh; rfl
      | succ j => simp [C17_widenedState] at hh
    · intro i r h0 h1 hh
      cases i with
      | zero => exact absurd rfl h0
      | succ i =>
        cases i with
        | zero => exact absurd rfl h1
        | succ i => simp [C17_widenedState] at hh
  refine ⟨by decide, by decide, ?_⟩
  intro l s' hne hrun
  obtain ⟨h1, _, ⟨r, hr, hb, hp⟩, h4, h5⟩ := stuckW_run C17P l _ s' hS hne hrun
  refine ⟨h1, h4, ⟨r, hr, hb, ?_, ?_⟩, h5⟩
  · rcases hp with ⟨hp, _⟩ | ⟨hp, _⟩ <;> simp [hp]
  · intro m
    rcases hp with ⟨_, ho⟩ | ⟨_, ho | ho⟩ <;> simp [ho]

/-- a continuation of the stalled state of the widened-lock variant: request 0's timer fires, only
then the slow send fails and releases `resMu` -/
def C17_widenedLostTrace : List Action :=
  [.rTimeout 0,                                -- request 0 gives up waiting (and blocks on resMu.Lock())
   .rSendErr 1, .rStep 1,                      -- the slow send finally fails: delete, Unlock, return
   .hStep 0, .hStep 0, .hStep 0, .hStep 0,     -- onResponse at last: the entry is still there, send into the void
   .rStep 0, .rStep 0, .rStep 0]               -- request 0 unregisters and returns the timeout

/-- … request 0 returns a timeout although its response was received and processed by `onResponse`
(not even as "unknown request ID") — it reached the node while request 0 was waiting -/
example : ∃ s, runW C17P init (C17_widenedTrace ++ C17_widenedLostTrace) = some s ∧
    s.reqs.map (fun r => (r.pc, r.out)) = [(.done, some .timeout), (.done, some .sendErr)] ∧
    s.hdls.map (fun h => (h.pc, h.msg)) = [(.done, ⟨0, 100⟩)] ∧ s.unknown = [] ∧ s.resCh = [] := by
  decide

/-- the same situation in the FIXED protocol: requester 1 sits inside `mp.send` (and never returns
from it in this schedule), the response to request 0 is delivered and request 0 returns it -/
example : ∃ s, run C17P init
      [.spawn 0, .spawn 0,
       .rStep 0, .rStep 0, .rStep 0, .rStep 0, .rSendOk 0,
       .rStep 1, .rStep 1, .rStep 1, .rStep 1,
       .nRespond 0, .nDeliver 0, .hStep 0, .hStep 0, .hStep 0, .hStep 0,
       .rRecv 0, .rStep 0, .rStep 0, .rStep 0] = some s ∧
    s.reqs.map (fun r => (r.pc, r.out)) = [(.done, some (.got ⟨0, 100⟩)), (.send, none)] ∧
    s.hdls.map (fun h => h.pc) = [.done] ∧ s.lock = none := by
  decide

/-- non-vacuity of `C17_send_outside_critical_section` / `C17_hanging_sends_block_nobody`: a reachable
state with a requester inside `send`, `resMu` held by a handler, and a local statement enabled -/
example : ∃ s, Reachable C17P s ∧ ∃ r, s.reqs[1]? = some r ∧ r.pc = .send ∧ s.lock = some (.hdl 0) ∧
    (step C17P s (.hStep 0)).isSome = true := by
  have h : ∃ s, run C17P init (C17_mixedTrace.take 17) = some s ∧ ∃ r, s.reqs[1]? = some r ∧
      r.pc = .send ∧ s.lock = some (.hdl 0) ∧ (step C17P s (.hStep 0)).isSome = true := by decide
  obtain ⟨s, hr, h⟩ := h
  exact ⟨s, reachable_run C17P _ _ _ .init hr, h⟩

/-! ### … on the skeleton REGENERATED from the Go source -/

/-- `resMu.Lock()` / `resMu.Unlock()` events of a skeleton (a deferred unlock does NOT release before
the function returns, so it does not count as an unlock here) -/
def C17isLockResMu : Locks.Act → Bool
  | .lock m => m == C17Skel.resMu
  | .rlock m => m == C17Skel.resMu
  | _ => false
def C17isUnlockResMu : Locks.Act → Bool
  | .unlock m => m == C17Skel.resMu
  | _ => false

/-- `sendRequestMessage` with the lock scope widened around `mp.send` (the seeded change C17-3),
in the skeleton language of tools/skelgen -/
def C17_widenedSkel : Locks.Skel :=
  [.makeChan "ch" 1,
   .lock "MessageProtocol.resMu",
   .write "MessageProtocol.resCh",
   .call "MessageProtocol.send",
   .choice [[.del "MessageProtocol.resCh", .unlock "MessageProtocol.resMu", .ret], []],
   .unlock "MessageProtocol.resMu",
   .choice [[.recv "ch",
        .lock "MessageProtocol.resMu", .read "MessageProtocol.resCh", .del "MessageProtocol.resCh",
        .unlock "MessageProtocol.resMu", .ret],
      [.recv "time.After(mp.timeout)",
        .lock "MessageProtocol.resMu", .read "MessageProtocol.resCh", .del "MessageProtocol.resCh",
        .unlock "MessageProtocol.resMu", .ret],
      [.recv "ctx.Done()",
        .lock "MessageProtocol.resMu", .read "MessageProtocol.resCh", .del "MessageProtocol.resCh",
        .unlock "MessageProtocol.resMu", .ret]]]

/-- **`mp.send` is called outside `resMu`** — obligation on the skeleton regenerated from the current
source (`Gen/SkeletonsP2P.lean`): on every path of `sendRequestMessage`, whenever the request is
handed to `mp.send`, `resMu` has been unlocked since it was last locked (the registration is a
critical section of its own, closed before the send); `send` is actually called.  The widened-lock
body satisfies every other obligation of Props/C17_Skel (register before send, buffered channel,
unregister on all paths, lockset, no blocking channel operation in the critical section) but violates
this one — the model-level consequence is `C17_widened_lock_stalls_counterexample`. -/
theorem C17_gen_send_outside_resMu :
    Locks.setWheneverAt C17isUnlockResMu C17isLockResMu C17Skel.isSend 1
      Gen.SkeletonsP2P.MessageProtocol_sendRequestMessage = true ∧
    Locks.someRunHas C17Skel.isSend 1 Gen.SkeletonsP2P.MessageProtocol_sendRequestMessage = true ∧
    Locks.setWheneverAt C17isUnlockResMu C17isLockResMu C17Skel.isSend 1 C17_widenedSkel = false ∧
    (Locks.setWheneverAt C17Skel.isRegister C17Skel.isUnregister C17Skel.isSend 1 C17_widenedSkel = true ∧
     Locks.clearedOnAllPaths C17Skel.isRegister C17Skel.isUnregister 1 C17_widenedSkel = true ∧
     Locks.allEvents (fun a => !C17Skel.isMakeUnbuffered a) 1 C17_widenedSkel = true ∧
     Locks.locksetOk C17Skel.cfg C17_widenedSkel = true ∧
     Locks.noBlockingInCS C17Skel.cfg C17_widenedSkel = true) := by
  decide

/-- … spelled out: in every run of the regenerated `sendRequestMessage`, before each call of
`mp.send` there is an `Unlock` of `resMu` with no `Lock` of `resMu` after it. -/
theorem C17_gen_send_holds_no_resMu (u : Nat) (r : Locks.EvRun)
    (hr : r ∈ Locks.evRuns u Locks.evFuel Gen.SkeletonsP2P.MessageProtocol_sendRequestMessage)
    (pre post : List Locks.Act) (a : Locks.Act) (he : r.evs = pre ++ a :: post)
    (ha : C17Skel.isSend a = true) :
    ∃ p1 g p2, pre = p1 ++ g :: p2 ∧ C17isUnlockResMu g = true ∧ ∀ b ∈ p2, C17isLockResMu b = false := by
  rw [C17_skel_loopFree_runs_exhaustive u Locks.evFuel _ C17_gen_sendRequestMessage_loop_free,
    ← C17_skel_loopFree_runs_exhaustive 1 Locks.evFuel _ C17_gen_sendRequestMessage_loop_free] at hr
  have hc := C17_gen_send_outside_resMu.1
  simp only [Locks.setWheneverAt, List.all_eq_true, Bool.and_eq_true] at hc
  obtain ⟨p1, g, p2, hp, hg, hall⟩ :=
    C17_skel_setWheneverAt_spec C17isUnlockResMu C17isLockResMu C17Skel.isSend r.evs pre post a
      (hc r hr).2 he ha
  refine ⟨p1, g, p2, hp, hg, ?_⟩
  intro b hb
  rcases hall b hb with hon | hoff
  · cases b <;> simp_all [C17isUnlockResMu, C17isLockResMu]
  · exact hoff

/-! ## 4. correlation under an adversarial network -/

/-- **Correlation with forged responses.**  Let the network — besides answering, duplicating,
delaying, reordering and dropping — inject arbitrary responses from a set `F` at any time (any id:
registered, finished, not yet issued; any payload; any number of copies).  Still, in every reachable
state, whatever a requester finds in its channel or returns carries the id of its own current
attempt, and it is the remote handler's answer to that id unless it is itself one of the forged
messages; and `onResponse` only ever sends on the channel registered under the message's id by a
requester that is still between registration and unregistration. -/
theorem C17_correlation_adversarial (P : Nat → Nat) (F : Resp → Prop) (s : State)
    (hs : ReachableA P F s) :
    (∀ (i : Nat) (r : Req) (m : Resp), s.reqs[i]? = some r →
      (r.out = some (.got m) ∨ r.buf = some m) → m.rid = r.id ∧ (m.payload = P r.id ∨ F m)) ∧
    (∀ (j : Nat) (h : Hdl) (ch : Nat), s.hdls[j]? = some h → h.pc = .deliver ch →
      ∃ r, s.reqs[ch]? = some r ∧ r.id = h.msg.rid ∧ r.pc.registered = true) := by
  have hI := invA_reachable P F s hs
  constructor
  · intro i r m hr hm
    have : m.rid = r.id ∧ okMsg P F m := by
      rcases hm with hm | hm
      · exact hI.outA i r m hr hm
      · exact hI.bufA i r m hr hm
    obtain ⟨h1, h2⟩ := this
    refine ⟨h1, ?_⟩
    rcases h2 with h2 | h2
    · left; rw [h2, h1]
    · exact Or.inr h2
  · intro j h ch hh hpc
    exact hI.chSound _ _ (mem_of_lookup _ _ _ (hI.target j h ch hh hpc))

/-- **Forged / cross-delivered responses for OTHER ids are harmless.**  If none of the injected
responses carries the id `x`, the request with id `x` can only complete with the remote handler's
answer to `x` — never with a payload produced for another request id, and never with a forged one. -/
theorem C17_forged_other_ids_harmless (P : Nat → Nat) (F : Resp → Prop) (x : Nat)
    (hF : ∀ m, F m → m.rid ≠ x) (s : State) (hs : ReachableA P F s)
    (i : Nat) (r : Req) (hr : s.reqs[i]? = some r) (hx : r.id = x) (m : Resp)
    (hm : r.out = some (.got m) ∨ r.buf = some m) : m = ⟨x, P x⟩ := by
  obtain ⟨h1, h2⟩ := (C17_correlation_adversarial P F s hs).1 i r m hr hm
  rcases h2 with h2 | h2
  · cases m with
    | mk rid pl => simp at h1 h2; rw [h1, h2, hx]
  · exact absurd (h1.trans hx) (hF m h2)

private theorem reachableA_run (P : Nat → Nat) (F : Resp → Prop) (l : List Action) :
    ∀ s s', ReachableA P F s → run P s l = some s' → ReachableA P F s' := by
  induction l with
  | nil => intro s s' hs h; simp [run] at h; subst h; exact hs
  | cons a l ih =>
    intro s s' hs h
    simp only [run] at h
    cases hstep : step P s a with
    | none => simp [hstep] at h
    | some s1 => simp only [hstep] at h; exact ih s1 s' (.step a hs hstep) h

/-- non-vacuity, and necessity of the disjunct `F m`: a forged response that carries the id of a
waiting request IS accepted (`onResponse` looks at the id only — it does not check which peer
answered), so the request returns the forged payload 999 instead of the handler's 100 -/
example : ∃ s, ReachableA C17P (fun m => m = ⟨0, 999⟩) s ∧ ∃ r, s.reqs[0]? = some r ∧ r.id = 0 ∧
    r.out = some (.got ⟨0, 999⟩) := by
  have h : ∃ s1, run C17P init [.spawn 0, .rStep 0, .rStep 0, .rStep 0, .rStep 0, .rSendOk 0] = some s1 ∧
      ∃ s2, run C17P { s1 with net := ⟨0, 999⟩ :: s1.net }
          [.nDeliver 0, .hStep 0, .hStep 0, .hStep 0, .hStep 0, .rRecv 0] = some s2 ∧
        ∃ r, s2.reqs[0]? = some r ∧ r.id = 0 ∧ r.out = some (.got ⟨0, 999⟩) := by decide
  obtain ⟨s1, h1, s2, h2, h3⟩ := h
  exact ⟨s2, reachableA_run _ _ _ _ _ (.forge _ rfl (reachableA_run _ _ _ _ _ .init h1)) h2, h3⟩

/-- non-vacuity of `C17_forged_other_ids_harmless`: forged responses for the ids 1 (not yet issued)
and 7 are processed while request 0 waits; request 0 still returns the handler's answer -/
example : ∃ s, ReachableA C17P (fun m => m.rid ≠ 0) s ∧ ∃ r, s.reqs[0]? = some r ∧ r.id = 0 ∧
    r.out = some (.got ⟨0, 100⟩) ∧ s.unknown = [7, 1] := by
  have h : ∃ s1, run C17P init [.spawn 0, .rStep 0, .rStep 0, .rStep 0, .rStep 0, .rSendOk 0, .nRespond 0] = some s1 ∧
      ∃ s2, run C17P { s1 with net := ⟨7, 0⟩ :: ⟨1, 100⟩ :: s1.net }
          [.nDeliver 1, .hStep 0, .hStep 0, .hStep 0, .nDeliver 0, .hStep 1, .hStep 1, .hStep 1,
           .nDeliver 0, .hStep 2, .hStep 2, .hStep 2, .hStep 2, .rRecv 0] = some s2 ∧
        ∃ r, s2.reqs[0]? = some r ∧ r.id = 0 ∧ r.out = some (.got ⟨0, 100⟩) ∧ s2.unknown = [7, 1] := by
    decide
  obtain ⟨s1, h1, s2, h2, h3⟩ := h
  refine ⟨s2, reachableA_run _ _ _ _ _ ?_ h2, h3⟩
  have hA := reachableA_run C17P (fun m => m.rid ≠ 0) _ _ _ .init h1
  exact .forge (s := { s1 with net := ⟨1, 100⟩ :: s1.net }) ⟨7, 0⟩ (by decide)
    (.forge ⟨1, 100⟩ (by decide) hA)

/-- **Ids are never reused.**  The id the next attempt will draw (`nextId`, the model of `uuid.New()`)
is not registered, was never put on the wire, and no response in flight or being handled carries it;
`resCh` has one entry per id; and a registration never overwrites an entry (at `resCh[id] = ch` the
id is absent).  With `C17_fresh_ids` (Props/C17: two requesters never work on the same id): an id is
used for exactly one attempt of one requester. -/
theorem C17_ids_never_reused (P : Nat → Nat) (s : State) (hs : Reachable P s) :
    (s.resCh.lookup s.nextId = none ∧ s.nextId ∉ s.sent ∧ (∀ m ∈ s.net, m.rid ≠ s.nextId) ∧
      (∀ (j : Nat) (h : Hdl), s.hdls[j]? = some h → h.msg.rid ≠ s.nextId)) ∧
    (s.resCh.map Prod.fst).Nodup ∧
    (∀ (i : Nat) (r : Req), s.reqs[i]? = some r → r.pc = .regStore → s.resCh.lookup r.id = none) := by
  have hI := inv_reachable P s hs
  have hI2 := inv2_reachable P s hs
  have hlt : ∀ id ch, (id, ch) ∈ s.resCh → id < s.nextId := by
    intro id ch hm
    obtain ⟨r, hr, hid, hp⟩ := hI.chSound id ch hm
    rw [← hid]
    apply hI.fresh ch r hr
    intro h; simp [h, RPc.registered] at hp
  refine ⟨⟨?_, ?_, ?_, ?_⟩, hI2.keysNodup, ?_⟩
  · cases hl : s.resCh.lookup s.nextId with
    | none => rfl
    | some ch => exact absurd (hlt _ _ (mem_of_lookup _ _ _ hl)) (Nat.lt_irrefl _)
  · intro h; exact absurd (hI.sentLt _ h) (Nat.lt_irrefl _)
  · intro m hm he
    have := hI.sentLt _ (hI.netSent m hm)
    omega
  · intro j h hh he
    have := hI.sentLt _ (hI.msgSent j h hh)
    omega
  · intro i r hr hpc
    cases hl : s.resCh.lookup r.id with
    | none => rfl
    | some ch =>
      exfalso
      obtain ⟨r', hr', hid, hp⟩ := hI.chSound _ _ (mem_of_lookup _ _ _ hl)
      by_cases hc : ch = i
      · subst hc
        rw [hr] at hr'; cases hr'
        simp [hpc, RPc.registered] at hp
      · refine hI.uniq ch i r' r hr' hr hc ?_ (by simp [hpc]) hid
        intro h; simp [h, RPc.registered] at hp

/-- non-vacuity: a reachable state with a requester at `resCh[id] = ch` while another entry is present -/
example : ∃ s, Reachable C17P s ∧ ∃ r, s.reqs[1]? = some r ∧ r.pc = .regStore ∧ s.resCh = [(0, 0)] := by
  have h : ∃ s, run C17P init (C17_mixedTrace.take 11) = some s ∧ ∃ r, s.reqs[1]? = some r ∧
      r.pc = .regStore ∧ s.resCh = [(0, 0)] := by decide
  obtain ⟨s, hr, h⟩ := h
  exact ⟨s, reachable_run C17P _ _ _ .init hr, h⟩

/-! ## 5. cleanup -/

/-- **Quiescence is clean.**  Once every call of `request` and every `onResponse` has returned —
whatever mixture of responses, timeouts, retries, cancelled contexts, failed sends, late, duplicate
and unknown responses the run contained — `resCh` is empty and `resMu` is free. -/
theorem C17_quiescent_clean (P : Nat → Nat) (s : State) (hs : Reachable P s) (hd : allDone s = true) :
    s.resCh = [] ∧ s.lock = none := by
  have hI := inv_reachable P s hs
  simp only [allDone, Bool.and_eq_true, List.all_eq_true] at hd
  constructor
  · apply C17_no_leak P s hs
    intro r hr
    simpa [reqDone] using hd.1 r hr
  · cases hl : s.lock with
    | none => rfl
    | some t =>
      exfalso
      cases t with
      | req i =>
        have hlt := hI.lockExR i hl
        have hr : s.reqs[i]? = some s.reqs[i] := List.getElem?_eq_getElem hlt
        have h1 := (hI.lockReq i _ hr).mpr hl
        have h2 := hd.1 _ (List.mem_of_getElem? hr)
        simp only [reqDone, beq_iff_eq] at h2
        simp [h2, RPc.holds] at h1
      | hdl j =>
        have hlt := hI.lockExH j hl
        have hr : s.hdls[j]? = some s.hdls[j] := List.getElem?_eq_getElem hlt
        have h1 := (hI.lockHdl j _ hr).mpr hl
        have h2 := hd.2 _ (List.mem_of_getElem? hr)
        simp only [hdlDone, beq_iff_eq] at h2
        simp [h2, HPc.holds] at h1

/-- **One entry per attempt in progress.**  Two entries of `resCh` have the same id iff they have the
same channel (owner): together with `C17_pending_exact` (Props/C17) the entries are in one-to-one
correspondence with the requesters that are between registration and unregistration — the map never
holds more entries than there are attempts in progress. -/
theorem C17_pending_injective (P : Nat → Nat) (s : State) (hs : Reachable P s)
    (id ch id' ch' : Nat) (h : (id, ch) ∈ s.resCh) (h' : (id', ch') ∈ s.resCh) :
    (id = id' ↔ ch = ch') ∧ (s.resCh.map Prod.fst).Nodup := by
  have hI := inv_reachable P s hs
  obtain ⟨r, hr, hid, hp⟩ := hI.chSound id ch h
  obtain ⟨r', hr', hid', hp'⟩ := hI.chSound id' ch' h'
  refine ⟨⟨?_, ?_⟩, (inv2_reachable P s hs).keysNodup⟩
  · intro he
    apply Classical.byContradiction
    intro hne
    refine hI.uniq ch ch' r r' hr hr' hne ?_ ?_ (by rw [hid, hid', he])
    · intro hc; simp [hc, RPc.registered] at hp
    · intro hc; simp [hc, RPc.registered] at hp'
  · intro he
    subst he
    rw [hr] at hr'; cases hr'
    rw [← hid, ← hid']

/-- the id `x` is finished: it was drawn, and whoever still carries it in its record is not going to
register it (top of the retry loop with a stale record, just unregistered, or returned) -/
private def Dead (x : Nat) (s : State) : Prop :=
  x < s.nextId ∧ ∀ (i : Nat) (r : Req), s.reqs[i]? = some r → r.id = x →
    (r.pc = .start ∨ r.pc = .unUnlock ∨ r.pc = .done)

private theorem nextId_mono (P : Nat → Nat) (s s' : State) (a : Action) (hstep : step P s a = some s') :
    s.nextId ≤ s'.nextId := by
  cases a <;> simp only [step] at hstep <;> grind [stepReq, stepHdl, stepEnv, afterAttempt]

private theorem dead_step (P : Nat → Nat) (x : Nat) (s s' : State) (a : Action) (hD : Dead x s)
    (hstep : step P s a = some s') : Dead x s' := by
  obtain ⟨hlt, hD⟩ := hD
  refine ⟨Nat.lt_of_lt_of_le hlt (nextId_mono P s s' a hstep), ?_⟩
  intro i r' hr' hx
  rcases req_back P s s' a hstep i r' hr' with ⟨r, hr, h⟩ | ⟨_, b, rfl⟩
  · have h1 := hD i r hr
    have h2 := afterAttempt_spec r
    rcases h with ⟨_, hown⟩ | ⟨_, rfl | ⟨m, rfl⟩⟩
    · own_cases hown <;> grind
    · exact h1 hx
    · exact h1 hx
  · left; rfl

/-- **An entry is gone for good.**  Once an attempt has executed its `delete(resCh, id)` (in any of
the four ways of leaving: response, timeout, cancelled context, failed send), its id is absent from
`resCh` in every later state of every run — the entry is not resurrected by late or duplicate
responses, by retries (which draw fresh ids) or by other requests. -/
theorem C17_entry_gone_for_good (P : Nat → Nat) (s : State) (hs : Reachable P s)
    (i : Nat) (r : Req) (hr : s.reqs[i]? = some r) (hp : r.pc = .unUnlock ∨ r.pc = .done)
    (l : List Action) (s' : State) (hrun : run P s l = some s') :
    s'.resCh.lookup r.id = none := by
  have hI := inv_reachable P s hs
  have hD : Dead r.id s := by
    refine ⟨hI.fresh i r hr (by rcases hp with h | h <;> simp [h]), ?_⟩
    intro i' r' hr' hid
    by_cases hc : i' = i
    · subst hc
      rw [hr] at hr'; cases hr'
      exact Or.inr hp
    · left
      apply Classical.byContradiction
      intro hns
      exact hI.uniq i' i r' r hr' hr hc hns (by rcases hp with h | h <;> simp [h]) hid
  have hD' : Dead r.id s' := by
    clear hI hs hr hp
    induction l generalizing s with
    | nil => simp [run] at hrun; subst hrun; exact hD
    | cons a l ih =>
      simp only [run] at hrun
      cases hstep : step P s a with
      | none => simp [hstep] at hrun
      | some s1 =>
        simp only [hstep] at hrun
        exact ih s1 hrun (dead_step P _ s s1 a hD hstep)
  have hI' := inv_reachable P s' (reachable_run P l s s' hs hrun)
  cases hl : s'.resCh.lookup r.id with
  | none => rfl
  | some ch =>
    exfalso
    obtain ⟨r', hr', hid, hreg⟩ := hI'.chSound _ _ (mem_of_lookup _ _ _ hl)
    rcases hD'.2 ch r' hr' hid with h | h | h <;> simp [h, RPc.registered] at hreg

/-- non-vacuity of the cleanup theorems: the mixed run (response, timeout + retry, cancellation,
failed send, late / duplicate / unknown responses) ends quiescent; in its course requester 2 (failed
send) has executed its `delete` while the entries of requesters 0 and 1 are still present -/
example : ∃ s, Reachable C17P s ∧ allDone s = true ∧ s.reqs.length = 3 ∧ s.hdls.length = 3 := by
  have h : ∃ s, run C17P init C17_mixedTrace = some s ∧ allDone s = true ∧ s.reqs.length = 3 ∧
      s.hdls.length = 3 := by decide
  obtain ⟨s, hr, h⟩ := h
  exact ⟨s, reachable_run C17P _ _ _ .init hr, h⟩

example : ∃ s, Reachable C17P s ∧ ∃ r, s.reqs[2]? = some r ∧ r.pc = .unUnlock ∧
    s.resCh = [(1, 1), (0, 0)] := by
  have h : ∃ s, run C17P init (C17_mixedTrace.take 27) = some s ∧ ∃ r, s.reqs[2]? = some r ∧
      r.pc = .unUnlock ∧ s.resCh = [(1, 1), (0, 0)] := by decide
  obtain ⟨s, hr, h⟩ := h
  exact ⟨s, reachable_run C17P _ _ _ .init hr, h⟩
