/-
C05 — Deleting the tip block restores the exact previous node state.

Theorems about `LiskVerif.Model.Node` (see Props/C04.lean for the setting: `Ref`, `StepOK`,
`RunOK`, `BaseOK`). The volatile keys `Vol fin` are exactly what the property exempts: the
finalized-height marker, state diffs below and event entries at or below the finalized height
`fin` (pruned by `processValidated` / `saveBlock`), temporary blocks.

The consensus-store part rests on `C12_commit_exact` / `C12_revert_exact` (through
`revert_after_commit`); the index part on the key-set symmetry of `saveBlock` / `removeBlock`.
The hypothesis `StepOK.fresh` contains "no transaction of the block is already stored":
`C05_shared_txid_counterexample` shows that it cannot be dropped (known finding
`c05-shared-txid-lost`, reproduced on the real node by the harness).
-/
import LiskVerif.Lemmas.NodeTrans
import LiskVerif.Lemmas.NodeVolatile
import LiskVerif.Lemmas.NodeExample

open LiskVerif LiskVerif.Node
open LiskVerif.DiffDB (Store KV CV Cache Diff slookup sset sdel NoDupKeys)

/-- **Key-set symmetry** of `saveBlock` (+ the state-diff write of `processValidated`) and
`removeBlock` (+ the state-diff delete of `deleteBlock`): every key written for a block is deleted
when the block is removed, and the only key deleted without having been written is the event key
of a block that emitted no events (written only if non-empty, deleted unconditionally: harmless). -/
theorem C05_keyset_symmetry (cd : Codecs) (b : Block) (x : Exec) (saveTemp : Bool) :
    (∀ k ∈ (persistOps cd b x).map BOp.key,
      k ∈ (BOp.del (kDiff b.hdr.height) :: removeBlockOps b saveTemp).map BOp.key) ∧
    (∀ k ∈ (BOp.del (kDiff b.hdr.height) :: removeBlockOps b false).map BOp.key,
      k ∈ (persistOps cd b x).map BOp.key ∨ (x.events = [] ∧ k = kEvents b.hdr.height)) :=
  ⟨persist_keys_removed cd b x saveTemp, removed_keys_persist cd b x⟩

/-- **delete ∘ apply = identity** on every key that is not volatile: after applying block `b` to
a state and deleting it again, every key of the database outside `Vol fin'` (`fin'` = the finalized
height after the two steps = `max fin mhpc'`) holds exactly what it held before — consensus (BFT)
store, block / height / transaction / asset / event indexes, state diffs — and the state is again
refined by the same chain (so everything can be repeated: any depth, any contents). -/
theorem C05_delete_apply_identity (cd : Codecs) (cfg : Cfg) (base : Store) (baseH : Nat)
    (hbase : BaseOK cd base baseH) (s s1 s2 : St) (c : Chain) (b : Block) (valid : Bool) (x : Exec)
    (removeTemp saveTemp : Bool) (r : Res)
    (hR : Ref cd base baseH s c) (hstep : StepOK cd base c b x)
    (ha : apply cd cfg s b valid x removeTemp = (s1, .ok))
    (hd : deleteTip cd cfg s1 saveTemp = (s2, r)) (hr : r.removed) :
    Ref cd base baseH s2 c ∧
    ∃ f, finOf s.db = some f ∧ finOf s2.db = some (max f x.mhpc) ∧
      ∀ k, ¬ Vol (max f x.mhpc) k → slookup s2.db k = slookup s.db k := by
  have hR1 := ref_apply hR hstep ha
  obtain ⟨b', x', c', hc, hR2, hfin2, _, _, _, _⟩ := ref_delete hbase hR1 hd hr
  have hce : c' = c := by
    simp only [List.cons.injEq] at hc; exact hc.2.symm
  subst hce
  obtain ⟨f, hf, _, _⟩ := hR.db.finOk
  have hm : x.mhpc < u32 := Nat.lt_of_le_of_lt hstep.mhpcLe hstep.block.heightLt
  have hf1 : finOf s1.db = some (max f x.mhpc) :=
    C04_fin_eq_max_aux cd cfg s s1 b valid x removeTemp f ha hf hm
  refine ⟨hR2, f, hf, by rw [hfin2]; exact hf1, ?_⟩
  intro k hk
  rw [hR2.db.agree _ (by rw [hfin2]; exact hf1) k hk]
  exact (hR.db.agree f hf k (fun hv => hk (Vol_mono (Nat.le_max_left _ _) hv))).symm
where
  C04_fin_eq_max_aux (cd : Codecs) (cfg : Cfg) (s s' : St) (b : Block) (valid : Bool) (x : Exec)
      (rt : Bool) (fin : Nat) (hok : apply cd cfg s b valid x rt = (s', .ok))
      (hf : finOf s.db = some fin) (hm : x.mhpc < u32) : finOf s'.db = some (max fin x.mhpc) := by
    obtain ⟨tip, rest, fin', _, _, _, _, hf', hs'⟩ := apply_ok_inv hok
    have : fin' = fin := by rw [hf] at hf'; exact (Option.some.inj hf').symm
    subst this
    rw [hs', ← nextFin_eq_max]
    exact finOf_applyDb cd cfg s.db fin' b x rt (finOf_lt hf) hm

/-- **The persistent state is a function of the chain** (history independence): two states
refined by the same chain — however they were reached: directly, or through any number of
applications, deletions, failed blocks, tie-breaks, restarts — hold the same value under every key
that is not volatile for the larger of their finalized heights. -/
theorem C05_state_function_of_chain (cd : Codecs) (base : Store) (baseH : Nat) (s s' : St) (c : Chain)
    (hR : Ref cd base baseH s c) (hR' : Ref cd base baseH s' c) (f f' : Nat)
    (hf : finOf s.db = some f) (hf' : finOf s'.db = some f') (k : Bytes) (hk : ¬ Vol (max f f') k) :
    slookup s.db k = slookup s'.db k := by
  rw [hR.db.agree f hf k (fun hv => hk (Vol_mono (Nat.le_max_left _ _) hv)),
    hR'.db.agree f' hf' k (fun hv => hk (Vol_mono (Nat.le_max_right _ _) hv))]

/-- Every operation sequence keeps the state a function of the chain: the refinement is an
invariant of all histories (the chain `runC …` is the ghost chain: blocks applied and not removed). -/
theorem C05_refinement_invariant (cd : Codecs) (cfg : Cfg) (slot : Slot) (base : Store) (baseH : Nat)
    (hbase : BaseOK cd base baseH) (s : St) (c : Chain) (ops : List Op)
    (hR : Ref cd base baseH s c) (hok : RunOK cd cfg slot base s c ops) :
    Ref cd base baseH (run cd cfg slot s ops) (runC cd cfg slot s c ops) :=
  (trans_run hbase ops s c hR hok).ref

/-- **Reorganisation is confluent**: applying `b`, deleting it and applying the sibling `b'` ends
in the state reached by applying `b'` directly — on every key outside the volatile set of the
larger finalized height. If neither block advances finality that set is the volatile set of the
unchanged finalized height (nothing new is exempted) and the markers are equal. -/
theorem C05_reorg_confluence (cd : Codecs) (cfg : Cfg) (base : Store) (baseH : Nat)
    (hbase : BaseOK cd base baseH) (s s1 s2 s3 s3' : St) (c : Chain) (b b' : Block) (x x' : Exec)
    (v v' : Bool) (rt rt' rt'' st : Bool) (r : Res)
    (hR : Ref cd base baseH s c) (hstep : StepOK cd base c b x) (hstep' : StepOK cd base c b' x')
    (ha : apply cd cfg s b v x rt = (s1, .ok)) (hd : deleteTip cd cfg s1 st = (s2, r)) (hr : r.removed)
    (ha' : apply cd cfg s2 b' v' x' rt' = (s3, .ok)) (hdirect : apply cd cfg s b' v' x' rt'' = (s3', .ok)) :
    ∃ f, finOf s.db = some f ∧ finOf s3.db = some (max (max f x.mhpc) x'.mhpc) ∧
      finOf s3'.db = some (max f x'.mhpc) ∧
      (∀ k, ¬ Vol (max (max f x.mhpc) x'.mhpc) k → slookup s3.db k = slookup s3'.db k) ∧
      (x.mhpc ≤ f → x'.mhpc ≤ f → finOf s3.db = finOf s3'.db ∧
        ∀ k, ¬ Vol f k → slookup s3.db k = slookup s3'.db k) := by
  obtain ⟨hR2, f, hf, hf2, _⟩ := C05_delete_apply_identity cd cfg base baseH hbase s s1 s2 c b v x
    rt st r hR hstep ha hd hr
  have hm' : x'.mhpc < u32 := Nat.lt_of_le_of_lt hstep'.mhpcLe hstep'.block.heightLt
  have hR3 := ref_apply hR2 hstep' ha'
  have hR3' := ref_apply hR hstep' hdirect
  have hf3 := C05_delete_apply_identity.C04_fin_eq_max_aux cd cfg s2 s3 b' v' x' rt' _ ha' hf2 hm'
  have hf3' := C05_delete_apply_identity.C04_fin_eq_max_aux cd cfg s s3' b' v' x' rt'' _ hdirect hf hm'
  have hmax : max (max (max f x.mhpc) x'.mhpc) (max f x'.mhpc) = max (max f x.mhpc) x'.mhpc := by omega
  refine ⟨f, hf, hf3, hf3', ?_, ?_⟩
  · intro k hk
    exact C05_state_function_of_chain cd base baseH s3 s3' _ hR3 hR3' _ _ hf3 hf3' k (by rw [hmax]; exact hk)
  · intro h1 h2
    have e1 : max (max f x.mhpc) x'.mhpc = f := by omega
    have e2 : max f x'.mhpc = f := by omega
    refine ⟨by rw [hf3, hf3', e1, e2], ?_⟩
    intro k hk
    exact C05_state_function_of_chain cd base baseH s3 s3' _ hR3 hR3' _ _ hf3 hf3' k
      (by rw [hmax, e1]; exact hk)

/-- **Reorganisation without a finality advance is confluent on ALL keys**: if neither block
raises the finalized height and no temporary copies are involved (`deleteBlock(…, false)`, as in the
tie-break path of `Executer.process`), then "apply `b`, delete it, apply the sibling `b'`" and
"apply `b'`" end in databases that agree on every key — marker, temporary blocks, old state diffs
and prunable events included. (`hfe`: the marker holds the 4 bytes `saveBlock` writes.) -/
theorem C05_reorg_confluence_all_keys (cd : Codecs) (cfg : Cfg) (base : Store) (baseH : Nat)
    (hbase : BaseOK cd base baseH) (s s1 s2 s3 s3' : St) (c : Chain) (b b' : Block) (x x' : Exec)
    (v v' : Bool) (rt' : Bool) (r : Res) (f : Nat)
    (hR : Ref cd base baseH s c) (hstep : StepOK cd base c b x) (hstep' : StepOK cd base c b' x')
    (hf : finOf s.db = some f) (hfe : slookup s.db kFin = some (encU32 f))
    (hnr : x.mhpc ≤ f) (hnr' : x'.mhpc ≤ f)
    (ha : apply cd cfg s b v x false = (s1, .ok)) (hd : deleteTip cd cfg s1 false = (s2, r))
    (hr : r.removed)
    (ha' : apply cd cfg s2 b' v' x' rt' = (s3, .ok)) (hdirect : apply cd cfg s b' v' x' rt' = (s3', .ok)) :
    ∀ k, slookup s3.db k = slookup s3'.db k := by
  intro k
  obtain ⟨hR2, _, _, hf2max, _⟩ := C05_delete_apply_identity cd cfg base baseH hbase s s1 s2 c b v x
    false false r hR hstep ha hd hr
  have hf2 : finOf s2.db = some f := by
    obtain ⟨f0, hf0, hf2', _⟩ := C05_delete_apply_identity cd cfg base baseH hbase s s1 s2 c b v x
      false false r hR hstep ha hd hr |>.2
    have : f0 = f := by rw [hf] at hf0; exact (Option.some.inj hf0).symm
    subst this
    have hmx : max f0 x.mhpc = f0 := by omega
    rw [hmx] at hf2'; exact hf2'
  obtain ⟨_, _, fin3, _, _, _, _, hf3, hs3⟩ := apply_ok_inv ha'
  obtain ⟨_, _, fin3', _, _, _, _, hf3', hs3'⟩ := apply_ok_inv hdirect
  have e3 : fin3 = f := by rw [hf2] at hf3; exact (Option.some.inj hf3).symm
  have e3' : fin3' = f := by rw [hf] at hf3'; exact (Option.some.inj hf3').symm
  rw [e3] at hs3
  rw [e3'] at hs3'
  have hnf' : nextFin f x'.mhpc = f := by unfold nextFin; split <;> omega
  have hh : b.hdr.height = tipH baseH c + 1 := (ref_apply hR hstep ha).db.wf.2.1
  have hh' : b'.hdr.height = tipH baseH c + 1 := (ref_apply hR hstep' hdirect).db.wf.2.1
  have hflt : f < b'.hdr.height := by
    obtain ⟨f', hf', _, hle'⟩ := hR.db.finOk
    rw [hf] at hf'; have : f' = f := (Option.some.inj hf').symm
    omega
  have hbl' := hstep'.block.heightLt
  rw [hs3, hs3']
  by_cases hp : Pruned cfg b'.hdr.height f k
  · rw [pruned_none cd cfg s2.db f b' x' rt' hR2.db.nodup hstep'.ov.nodup hstep'.stateKeys hbl'
        (by rw [hnf']; exact hflt) k (by rw [hnf']; exact hp),
      pruned_none cd cfg s.db f b' x' rt' hR.db.nodup hstep'.ov.nodup hstep'.stateKeys hbl'
        (by rw [hnf']; exact hflt) k (by rw [hnf']; exact hp)]
  · have hsame : slookup s2.db k = slookup s.db k := by
      rcases roundtrip_all_keys hR hstep hf hfe hnr ha hd hr hbase k with h | ⟨_, h⟩
      · exact h
      · rw [hh, ← hh'] at h; exact absurd h hp
    rw [applyDb_lookup_all cd cfg s2.db f b' x' rt' hstep'.ov.nodup k,
      applyDb_lookup_all cd cfg s.db f b' x' rt' hstep'.ov.nodup k, applyOps_split, applyOps_split]
    have hev : ∀ db, bval (eventPruneOps cfg db b'.hdr.height (nextFin f x'.mhpc)) k = none := by
      intro db
      apply bval_none
      intro op hop he
      have := eventPrune_pruned cfg db _ _ op hop
      rw [he, hnf'] at this
      exact hp this
    have hpre : applyPre cd s2.db f b' x' = applyPre cd s.db f b' x' := by
      unfold applyPre
      have hnot : ¬ f < x'.mhpc := by omega
      simp only [hnot, decide_false, Bool.false_eq_true, if_false]
    simp only [bval_append, hev, hpre, hsame]

/-- **The cached tip is restored**: after delete ∘ apply the block cache serves, for the tip height,
the header it served before (the cache is popped or — when it ran empty — loaded again from the
database, see fixes/C05-cache-exhausted.patch). -/
theorem C05_cached_tip_restored (cd : Codecs) (cfg : Cfg) (base : Store) (baseH : Nat)
    (hbase : BaseOK cd base baseH) (s s1 s2 : St) (c : Chain) (b : Block) (valid : Bool) (x : Exec)
    (removeTemp saveTemp : Bool) (r : Res)
    (hR : Ref cd base baseH s c) (hstep : StepOK cd base c b x)
    (ha : apply cd cfg s b valid x removeTemp = (s1, .ok))
    (hd : deleteTip cd cfg s1 saveTemp = (s2, r)) (hr : r.removed) (t t0 : Block)
    (ht : s2.cache.head? = some t) (ht0 : s.cache.head? = some t0) :
    t.hdr = t0.hdr := by
  obtain ⟨hR2, _⟩ := C05_delete_apply_identity cd cfg base baseH hbase s s1 s2 c b valid x
    removeTemp saveTemp r hR hstep ha hd hr
  have key : ∀ (s : St) (t : Block), Ref cd base baseH s c → s.cache.head? = some t →
      some t.hdr = hdrSpec cd base c (tipH baseH c) := by
    intro s t hRs hts
    rw [← headerAt_ref hbase hRs (tipH baseH c)]
    have hh := hRs.cache.head t hts
    unfold headerAt cacheAt
    cases hc : s.cache with
    | nil => rw [hc] at hts; cases hts
    | cons a r =>
      rw [hc] at hts
      simp only [List.head?_cons, Option.some.injEq] at hts
      subst hts
      simp [List.find?, hh]
  have h1 := key s2 t hR2 ht
  have h2 := key s t0 hR ht0
  rw [← h2] at h1
  exact Option.some.inj h1

private theorem mapM_mem {α β : Type} (f : α → Option β) : ∀ (l : List α) (r : List β),
    l.mapM f = some r → ∀ a ∈ l, ∃ b ∈ r, f a = some b := by
  intro l
  induction l with
  | nil => intro r _ a ha; cases ha
  | cons x xs ih =>
    intro r h a ha
    simp only [List.mapM_cons] at h
    cases hx : f x with
    | none => simp [hx] at h
    | some y =>
      simp only [hx] at h
      cases hr : xs.mapM f with
      | none => simp [hr] at h
      | some ys =>
        simp only [hr] at h
        have hre : r = y :: ys := by simp at h; exact h.symm
        subst hre
        simp only [List.mem_cons] at ha
        rcases ha with rfl | ha
        · exact ⟨y, List.mem_cons_self, hx⟩
        · obtain ⟨b, hb, hfb⟩ := ih ys hr a ha
          exact ⟨b, List.mem_cons_of_mem _ hb, hfb⟩

/-- **Removed blocks are kept retrievable**: `deleteBlock(tip, saveTemp = true)` stores the
encoded block under `temp|height`, and `GetTempBlocks` returns it (given the block codec round
trip, C08). -/
theorem C05_temp_block_roundtrip (cd : Codecs) (cfg : Cfg) (s s' : St) (r : Res)
    (hnd : NoDupKeys s.db) (hd : deleteTip cd cfg s true = (s', r)) (hr : r.removed) :
    ∃ tip, s.cache.head? = some tip ∧
      slookup s'.db (kTemp tip.hdr.height) = some (encBlock tip) ∧
      (cd.decBlock (encBlock tip) = some tip → ∀ l, tempBlocks cd s' = some l → tip ∈ l) := by
  obtain ⟨tip, rest, fin, bytes, d, hc, _, _, _, _, hdb, _⟩ := deleteTip_done_inv hd hr
  have hl : slookup s'.db (kTemp tip.hdr.height) = some (encBlock tip) := by
    rw [hdb]
    unfold deleteDb
    rw [slookup_applyBatch]
    have : bval (BOp.del (kDiff tip.hdr.height) :: removeBlockOps tip true) (kTemp tip.hdr.height) =
        some (some (encBlock tip)) := by
      have h1 : ∀ (k v : Bytes), bval [BOp.set k v] k = some (some v) := by
        intro k v
        show (match bval [] k with
          | some w => some w
          | none => if (BOp.set k v).key = k then some (BOp.set k v).val else none) = _
        simp only [bval, BOp.key, BOp.val, if_true]
      have h2 : ∀ X : List BOp, bval (X ++ [BOp.set (kTemp tip.hdr.height) (encBlock tip)])
          (kTemp tip.hdr.height) = some (some (encBlock tip)) := by
        intro X; rw [bval_append, h1]
      have h3 : BOp.del (kDiff tip.hdr.height) :: removeBlockOps tip true =
          (BOp.del (kDiff tip.hdr.height) ::
            ([BOp.del (kHeader tip.hdr.id), BOp.del (kHeight tip.hdr.height)]
            ++ (if tip.txs.isEmpty then [] else
                tip.txs.map (fun t => BOp.del (kTx t.1)) ++ [BOp.del (kTxs tip.hdr.id)])
            ++ (if tip.assets.isEmpty then [] else [BOp.del (kAssets tip.hdr.id)])
            ++ [BOp.del (kEvents tip.hdr.height)]))
          ++ [BOp.set (kTemp tip.hdr.height) (encBlock tip)] := by
        unfold removeBlockOps
        simp only [if_true, List.cons_append]
      rw [h3, h2]
    rw [this]
  refine ⟨tip, by rw [hc]; rfl, hl, ?_⟩
  intro hdec l hl'
  unfold tempBlocks at hl'
  have hmem : (kTemp tip.hdr.height, encBlock tip) ∈ DiffDB.dbIterate s'.db [7] (-1) true := by
    apply (C12_db_iterate_mem s'.db [7] true _).mpr
    refine ⟨?_, by simp [kTemp, hasPrefix]⟩
    have hnd' : NoDupKeys s'.db := by rw [hdb]; exact nodup_deleteDb _ _ _ _ hnd
    exact (DiffDB.slookup_iff_mem s'.db hnd' _ _).mp hl
  obtain ⟨b, hb, hfb⟩ := mapM_mem _ _ _ hl' _ hmem
  simp only at hfb
  rw [hdec] at hfb
  rw [Option.some.inj hfb]
  exact hb

/-! ### the hypothesis on transaction ids cannot be dropped -/

namespace C05Cex
open LiskVerif.Node.Example

/-- a second block that includes the transaction of `b1` again -/
def hdr2 : Hdr := { height := 2, generatorAddress := [2], maxHeightGenerated := 0,
                    maxHeightPrevoted := 0, id := [8], previousBlockID := [7], timestamp := 20 }
def b2 : Block := { hdr := hdr2, hdrBytes := [2], txs := [(txid, [42])], assets := [] }
def x2 : Exec := { overlay := [], mhpc := 0, events := [] }
def cd2 : Codecs := { cd with decDiff := fun _ => some {} }

def sAfter1 : St := (apply cd2 cfg s0 b1 true x2 false).1
def sAfter2 : St := (apply cd2 cfg sAfter1 b2 true x2 false).1
def sBack : St := (deleteTip cd2 cfg sAfter2 false).1

end C05Cex

/-- **Shared transaction ids break the identity**: if block 2 contains a transaction that block 1
also contains (the engine itself never checks this — it relies on the application rejecting the
replay), deleting block 2 removes the `txID → tx` entry of block 1 as well: the state after
apply ∘ delete differs from the state before on a non-volatile key, and block 1 can no longer be
loaded from the database (a restart fails). This is why `StepOK.fresh` demands that no transaction
of a block is already stored. -/
theorem C05_shared_txid_counterexample :
    (apply C05Cex.cd2 Example.cfg C05Cex.sAfter1 C05Cex.b2 true C05Cex.x2 false).2 = .ok ∧
    (deleteTip C05Cex.cd2 Example.cfg C05Cex.sAfter2 false).2 = .ok ∧
    slookup C05Cex.sAfter1.db (kTx Example.txid) = some [42] ∧
    slookup C05Cex.sBack.db (kTx Example.txid) = none ∧
    getBlock C05Cex.cd2 C05Cex.sBack.db [7] = none := by
  decide +kernel

/-! ### non-vacuity -/

/-- the concrete block of `LiskVerif.Node.Example` is applied and deleted successfully … -/
example : (apply Example.cd Example.cfg Example.s0 Example.b1 true Example.x1 false).2 = .ok ∧
    (deleteTip Example.cd Example.cfg
      (apply Example.cd Example.cfg Example.s0 Example.b1 true Example.x1 false).1 false).2 = .ok := by
  decide +kernel

/-- … and the identity theorem applies to it: all its hypotheses hold -/
example (s1 s2 : St)
    (ha : apply Example.cd Example.cfg Example.s0 Example.b1 true Example.x1 false = (s1, .ok))
    (hd : deleteTip Example.cd Example.cfg s1 false = (s2, .ok)) :
    ∀ k, ¬ Vol 0 k → slookup s2.db k = slookup Example.s0.db k := by
  obtain ⟨_, f, hf, _, h⟩ := C05_delete_apply_identity Example.cd Example.cfg Example.base 0
    Example.baseOK Example.s0 s1 s2 [] Example.b1 true Example.x1 false false .ok Example.ref0
    Example.step1 ha hd (Or.inl rfl)
  have : f = 0 := by
    have h0 : finOf Example.s0.db = some 0 := by decide
    rw [h0] at hf; exact (Option.some.inj hf).symm
  subst this
  exact h

example : Ref Example.cd Example.base 0
    (run Example.cd Example.cfg Example.slot Example.s0 Example.ops1)
    (runC Example.cd Example.cfg Example.slot Example.s0 [] Example.ops1) :=
  C05_refinement_invariant _ _ _ _ _ Example.baseOK _ _ _ Example.ref0 Example.runOK1
