/-
C12 — the concurrency clause of the staged store: "for all interleavings of set / del / get / range /
iterate / snapshot / restore over several prefix views".

All prefix views of one staged store (`diffdb.Database.WithPrefix`) share ONE overlay (`cache`) and ONE
mutex. The sequential theorems of `Props/C12.lean` (every read = the database with the staged writes
applied) carry over to concurrent use through several views exactly when every method is ONE critical
section of that mutex: then every interleaving of method calls is a sequence of complete methods and the
sequential theorems apply to that sequence. A method that gives the mutex up in the middle — a `Get` that
looks the key up, RELEASES the mutex for the read of the underlying database and re-locks to cache what it
read — has no data race and no deadlock and is indistinguishable in every sequential test, yet a
`Set` / `Del` through any view that falls into the gap is overwritten by the stale value (seeded change
C12-13; the same shape as C20-3).

This file restates, for the methods of `diffdb.Database`, the obligations `Props/C20*.lean` discharge for
all shared chain data — over the skeletons REGENERATED from pkg/db/diffdb/db.go on every run of the C12
check (tools/skelgen is a generator of C12). The criteria are the definitions of `Model/Locks.lean`
(`criteria`: balanced locking, no re-entrant acquisition, lock order, nothing blocking under the lock,
every access of a guarded field under its guard) and `Lemmas/LocksAtomic.lean` (`atomicOk`: no lock
operation on the guard between a read of a guarded field and a later write of it), reused, not copied.

(A) obligations by kernel evaluation on the regenerated skeletons, quantified over every entry point whose
    name starts with `Database.` (a method added to the type is covered automatically);
(B) what they mean: on every path of every method no `Lock` / `Unlock` of the store mutex lies between a
    read of the overlay and a later write of it, and — any number of goroutines, any views, any schedule —
    while one goroutine is between such a read and its write no other goroutine can touch the overlay;
(C) the class is not vacuous: the skeleton of a `Get` that re-locks to install the stored value passes
    the lock criteria and is rejected by the atomicity criterion; on the C12 model (`Model/DiffDB.lean`)
    the late install loses a staged `Set` and resurrects a staged `Del`.
-/
import LiskVerif.Props.C20_Data
import LiskVerif.Lemmas.LocksAtomic
import LiskVerif.Model.DiffDB

open LiskVerif LiskVerif.Locks

namespace C12.Atomic

/-- the methods of the staged store in the regenerated table: extracted entry points named `Database.*` -/
def isStoreMethod (e : String × Skel) : Bool :=
  Gen.Skeletons.entries.contains e.1 && (e.1.toList.take 9 == "Database.".toList)

/-- the state shared by all prefix views of one staged store -/
def overlayFields : List String := ["Database.cache", "Database.snapshots", "Database.snapshotCount"]

/-- the read methods and the write methods the property quantifies over -/
def readMethods : List String := ["Database.Get", "Database.Has", "Database.Range", "Database.Iterate"]
def writeMethods : List String :=
  ["Database.Set", "Database.Del", "Database.Snapshot", "Database.RestoreSnapshot", "Database.DeleteSnapshot",
   "Database.Commit", "Database.WithPrefix"]

/-- the shape of the class closed here, as skelgen extracts it from such a source: `staged` looks the key
up under the mutex; `Get` calls it, reads the store unlocked and re-locks to install the stored value -/
def stagedLookup : Skel :=
  [.lock "Database.mutex", .deferUnlock "Database.mutex", .read "Database.cache", .write "Database.cache",
   .choice [[.ret], []], .ret]

def splitGet : Skel :=
  [.call "Database.getKey", .call "Database.staged", .choice [[.ret], []], .choice [[.ret], []],
   .choice [[.ret], []], .lock "Database.mutex", .deferUnlock "Database.mutex", .read "Database.cache",
   .write "Database.cache", .ret]

def splitCfg : Cfg :=
  ⟨[("Database.Get", splitGet), ("Database.staged", stagedLookup), ("Database.getKey", [.ret])],
   Gen.Skeletons.guards, Gen.Skeletons.lockOrder⟩

theorem pathLsFrom_append (g : List (String × String)) (h : Held) (p q : Path) :
    pathLsFrom g h (p ++ q) = (pathLsFrom g h p && pathLsFrom g (heldAfterPath h p) q) := by
  simp only [pathLsFrom, trace_append, List.all_append]

end C12.Atomic

/-! ## (A) obligations over the regenerated skeletons -/

/-- the methods C12 quantifies over exist in the regenerated table as extracted entry points (a renamed or
removed method breaks this theorem instead of silently shrinking the quantifiers below), and the three
fields of the shared overlay are guarded by the store mutex -/
theorem C12_atomic_store_methods_present :
    (C12.Atomic.readMethods ++ C12.Atomic.writeMethods).all (fun n =>
      (Gen.Skeletons.table.filter (fun e => e.1 == n && C12.Atomic.isStoreMethod e)).length == 1) = true ∧
    C12.Atomic.overlayFields.all (fun f => Gen.Skeletons.guards.lookup f == some "Database.mutex") = true := by
  decide +kernel

/-- **Lock discipline of every method of the staged store**: well formed (nothing the extractor does not
understand, every `Lock` released on every path), no re-entrant acquisition (also through calls), lock
order, nothing blocking while the mutex is held, and EVERY access to the overlay (`cache`, `snapshots`,
`snapshotCount`) under the mutex. -/
theorem C12_atomic_store_methods_lock_criteria :
    (Gen.Skeletons.table.filter C12.Atomic.isStoreMethod).all (fun e => criteria C20.cfg e.2) = true := by
  decide +kernel

/-- **Every method of the staged store is a single critical section on the overlay**: no unlock–relock of
the store mutex between a read of an overlay field and a later write of it (calls inlined, deferred
unlocks at function exit, loops any number of times). -/
theorem C12_atomic_store_methods_single_section :
    (Gen.Skeletons.table.filter C12.Atomic.isStoreMethod).all (fun e => atomicOk C20.cfg e.2) = true := by
  decide +kernel

/-- the read methods, named: `Get`, `Has`, `Range`, `Iterate` (all of them also WRITE the overlay — they
cache what they read from the database — which is why the split matters) -/
theorem C12_atomic_read_methods_ok :
    [Gen.Skeletons.Database_Get, Gen.Skeletons.Database_Has, Gen.Skeletons.Database_Range,
     Gen.Skeletons.Database_Iterate].all (fun s => criteria C20.cfg s && atomicOk C20.cfg s) = true := by
  decide +kernel

/-- the write methods, named -/
theorem C12_atomic_write_methods_ok :
    [Gen.Skeletons.Database_Set, Gen.Skeletons.Database_Del, Gen.Skeletons.Database_Snapshot,
     Gen.Skeletons.Database_RestoreSnapshot, Gen.Skeletons.Database_DeleteSnapshot,
     Gen.Skeletons.Database_Commit, Gen.Skeletons.Database_WithPrefix].all
      (fun s => criteria C20.cfg s && atomicOk C20.cfg s) = true := by
  decide +kernel

/-! ## (B) what the obligations mean -/

/-- **No unlock–relock inside a method.** On every path of every thread of every method of the staged
store (calls inlined to any depth, loops iterated up to any bound `u`), between a read of an overlay field
`f` and any later write of `f` there is no `Lock` / `Unlock` of the store mutex. -/
theorem C12_atomic_no_relock_between_overlay_accesses (u : Nat) (e : String × Skel)
    (he : e ∈ Gen.Skeletons.table) (hm : C12.Atomic.isStoreMethod e = true)
    (q pre mid rest : Path) (f : String) (hq : IsThreadPath Gen.Skeletons.table u e.2 q)
    (hsplit : q = pre ++ Prim.read f :: (mid ++ Prim.write f :: rest))
    (hf : f ∈ C12.Atomic.overlayFields) : ∀ x ∈ mid, lockOf x ≠ some "Database.mutex" := by
  have hall := C12_atomic_store_methods_single_section
  simp only [List.all_eq_true, List.mem_filter] at hall
  have hok : atomicOk C20.cfg e.2 = true := hall e ⟨he, hm⟩
  have hpa : pathAtomic C20.cfg.guards q = true := atomicOk_paths C20.cfg e.2 hok u q hq
  have hg : C20.cfg.guards.lookup f = some "Database.mutex" := by
    simp only [C12.Atomic.overlayFields, List.mem_cons, List.mem_nil_iff, or_false] at hf
    rcases hf with rfl | rfl | rfl <;> decide
  subst hsplit
  exact pathAtomic_quiet hpa hg

/-- non-vacuity: the cache-miss path of the regenerated `Get` (look-up, store read, install — one section) is a thread
path of the read…write shape `C12_atomic_no_relock_between_overlay_accesses` speaks about -/
example :
    let p : Path := [.acq "Database.mutex", .read "Database.cache", .write "Database.cache",
      .read "Database.cache", .write "Database.cache", .rel "Database.mutex"]
    p ∈ bodyPaths Gen.Skeletons.table 0 40 Gen.Skeletons.Database_Get ∧
    p = [.acq "Database.mutex"] ++ Prim.read "Database.cache" ::
      ([.write "Database.cache", .read "Database.cache"] ++ Prim.write "Database.cache" :: [.rel "Database.mutex"]) := by
  refine ⟨by decide, rfl⟩

/-- **Methods through different views do not interleave on the overlay.** Any number of goroutines, each
executing any finite sequence of calls of methods of the staged store — through the root or through any
prefix views: they all share the mutex and the overlay — under any schedule. If goroutine `i` is inside a
method on the path `q = pre ++ [read f] ++ mid ++ [write f] ++ rest` (`f` an overlay field), has executed
the read and (part `done` of `mid`) not yet the write, then it holds the store mutex and no other goroutine
is about to read or write `f`: nothing can slip between what a method read and what it writes, so every
interleaving is a sequence of complete methods and the sequential theorems of C12 apply to it. -/
theorem C12_atomic_views_rmw_not_interleaved (u : Nat) (ps : List Path)
    (hps : ∀ p ∈ ps, ∃ segs : List Path, p = segs.flatten ∧ ∀ q ∈ segs,
      ∃ e ∈ Gen.Skeletons.table, C12.Atomic.isStoreMethod e = true ∧ IsThreadPath Gen.Skeletons.table u e.2 q)
    (st : State) (hr : Reachable (initState ps) st)
    (i j : Nat) (ti tj : Thread) (hij : i ≠ j) (hi : st[i]? = some ti) (hj : st[j]? = some tj)
    (e : String × Skel) (he : e ∈ Gen.Skeletons.table) (hm : C12.Atomic.isStoreMethod e = true)
    (q pre mid rest : Path) (f : String) (hq : IsThreadPath Gen.Skeletons.table u e.2 q)
    (hsplit : q = pre ++ Prim.read f :: (mid ++ Prim.write f :: rest))
    (hf : f ∈ C12.Atomic.overlayFields)
    (done mid' later : Path) (hmid : mid = done ++ mid')
    (hprog : ti.prog = mid' ++ Prim.write f :: (rest ++ later)) :
    ("Database.mutex", Mode.W) ∈ ti.held ∧
      ∀ rest', tj.prog ≠ Prim.read f :: rest' ∧ tj.prog ≠ Prim.write f :: rest' := by
  have hall := C12_atomic_store_methods_lock_criteria
  simp only [List.all_eq_true, List.mem_filter] at hall
  have hls : ∀ p ∈ ps, pathLs C20.cfg.guards p = true := by
    intro p hp
    obtain ⟨segs, rfl, hsegs⟩ := hps p hp
    refine (pathGood_flatten (c := C20.cfg) segs ?_).2
    intro q hq
    obtain ⟨e, he, hme, hpath⟩ := hsegs q hq
    have hcrit := hall e ⟨he, hme⟩
    simp only [criteria, Bool.and_eq_true] at hcrit
    have hwf : wellFormed C20.cfg e.2 = true := by
      have := hcrit.1
      simp only [deadlockCriteria, Bool.and_eq_true] at this
      exact this.1.1.1
    exact ⟨deadlockCriteria_paths C20.cfg e.2 hcrit.1 u q hpath,
      locksetOk_paths C20.cfg e.2 hwf hcrit.2 u q hpath⟩
  have hquiet := C12_atomic_no_relock_between_overlay_accesses u e he hm q pre mid rest f hq hsplit hf
  have hq' : ∀ x ∈ mid', lockOf x ≠ some "Database.mutex" :=
    fun x hx => hquiet x (by rw [hmid]; exact List.mem_append.mpr (Or.inr hx))
  have hg : C20.cfg.guards.lookup f = some "Database.mutex" := by
    simp only [C12.Atomic.overlayFields, List.mem_cons, List.mem_nil_iff, or_false] at hf
    rcases hf with rfl | rfl | rfl <;> decide
  have hAll : AllLs C20.cfg.guards st :=
    reachable_induction (allLs_init _ ps hls) (fun _ _ _ hok hs => allLs_step hok hs) st hr
  have hex := mutual_exclusion ps st hr
  have hti := hAll ti (List.mem_of_getElem? hi)
  rw [hprog, C12.Atomic.pathLsFrom_append] at hti
  simp only [Bool.and_eq_true] at hti
  obtain ⟨m', hl, hw⟩ :=
    write_holds (t := ⟨heldAfterPath ti.held mid', none, Prim.write f :: (rest ++ later)⟩) hti.2 rfl
  rw [hg] at hl
  injection hl with hmm
  subst hmm
  have hw' : ("Database.mutex", Mode.W) ∈ ti.held := (mem_heldAfterPath_quiet hq' ti.held).mp hw
  exact ⟨hw', fun rest' => (C20.Data.atomic_of_inv hAll hex hij hi hj hg rest').1 hw'⟩

/-! ## (C) the class is not vacuous -/

/-- the skeleton of a `Get` that looks the key up in one critical section and installs the stored value in
a second one passes every lock-discipline criterion (balanced, every overlay access under the mutex: no
race, no deadlock) and is rejected by the atomicity criterion; the regenerated `Get` passes both -/
theorem C12_atomic_split_get_rejected :
    criteria C12.Atomic.splitCfg C12.Atomic.splitGet = true ∧
    criteria C12.Atomic.splitCfg C12.Atomic.stagedLookup = true ∧
    atomicOk C12.Atomic.splitCfg C12.Atomic.stagedLookup = true ∧
    atomicOk C12.Atomic.splitCfg C12.Atomic.splitGet = false ∧
    criteria C20.cfg Gen.Skeletons.Database_Get = true ∧ atomicOk C20.cfg Gen.Skeletons.Database_Get = true := by
  decide +kernel

namespace C12.Atomic
open LiskVerif.DiffDB

/-- second critical section of the split `Get`: `cache.cache(key, stored value)` without looking at the
overlay again -/
def lateInstall (st : St) (k v : Bytes) : St := { st with cache := ccache st.cache k v }

end C12.Atomic

set_option linter.unusedSimpArgs false in
open LiskVerif.DiffDB in
/-- **On the C12 model**: the key `k` is persisted with value `v` and not in the overlay. Reader section 1
(a miss, the overlay is unchanged), then a complete `Set k new` / `Del k` through any view, then the
reader's late install of `v`: the staged write is gone — reads return the persisted value again (the
deleted key is back) and Commit neither writes `k` nor lists it in the diff. -/
theorem C12_atomic_split_get_loses_staged_write (s : Store) (k v new : Bytes) (hs : slookup s k = some v) :
    eff (DiffDB.set { store := s } k new) k = some new ∧
    eff (del { store := s } k) k = none ∧
    eff (C12.Atomic.lateInstall (DiffDB.set { store := s } k new) k v) k = some v ∧
    eff (C12.Atomic.lateInstall (del { store := s } k) k v) k = some v ∧
    (commit (C12.Atomic.lateInstall (DiffDB.set { store := s } k new) k v)).2 = {} ∧
    (commit (C12.Atomic.lateInstall (del { store := s } k) k v)).2 = {} := by
  simp [eff, effC, DiffDB.set, del, ensureCache, hs, clookup, ccache, cset, cdel, cput,
    C12.Atomic.lateInstall, commit, commitCache]

set_option linter.unusedSimpArgs false in
open LiskVerif.DiffDB in
/-- with look-up and install in ONE critical section (the `get` of the model = the regenerated `Get`) the
staged write survives in both orders -/
theorem C12_atomic_get_keeps_staged_write (s : Store) (k v new : Bytes) (hs : slookup s k = some v) :
    eff (DiffDB.set (DiffDB.get { store := s } k).1 k new) k = some new ∧
    eff (DiffDB.get (DiffDB.set { store := s } k new) k).1 k = some new ∧
    eff (del (DiffDB.get { store := s } k).1 k) k = none ∧
    eff (DiffDB.get (del { store := s } k) k).1 k = none := by
  simp [eff, effC, DiffDB.set, del, DiffDB.get, ensureCache, hs, clookup, ccache, cset, cdel, cput]

/-! ## non-vacuity -/

/-- the quantifier of the obligations ranges over (at least) the 11 named methods of `diffdb.Database` -/
example : (C12.Atomic.readMethods ++ C12.Atomic.writeMethods).all (fun n =>
    ((Gen.Skeletons.table.filter C12.Atomic.isStoreMethod).map (·.1)).contains n) = true ∧
    11 ≤ (Gen.Skeletons.table.filter C12.Atomic.isStoreMethod).length := by decide +kernel

/-- the hypotheses of `C12_atomic_split_get_loses_staged_write` are satisfiable and the conclusion is a
real loss: persisted `[1] ↦ [10]`, `Set [1] [11]` inside the gap -/
example : LiskVerif.DiffDB.eff (C12.Atomic.lateInstall (LiskVerif.DiffDB.set { store := [([1], [10])] } [1] [11]) [1] [10]) [1]
    = some [10] := by decide
