/-
C10 — the EVENT tree (pkg/blockchain `CalculateEventRoot`): the root of a block's events is the specification root
of the map of its topic pairs, whatever the batching of the pairs.

The pairs of a block are `KeyPairs()` of its events in order: 12-byte keys (8 bytes topic hash ‖ 4 bytes
`index << 2 + topic position`), the value of every pair is the raw encoded event — of ANY length (the state tree
stores 32-byte hashes).  The specification `SMT.mapRoot` (Model/SMTSpec.lean) and the LIP-0039 incremental
algorithm place NO hypothesis on value lengths: `C10_event_root_batching` below holds for values of every length.
The hypothesis that IS needed is on keys: distinct over the whole block (valid event lists: `index < 2^30`,
at most 4 topics — harness ROOTS oracle "roots-event-key-collision-in-bounds"); inside ONE `Update` the first
occurrence of a key wins, across batches the last one, so with repeated keys the batching would show.

What does depend on 32-byte values is the STORAGE of pkg/trie/smt (stored subtrees are read back by `newSubTree`
with 32-byte leaf values; observation of the harness C10EVENTS family "raw": key 0001 = 01 stored, reopen, update
of key 8002 panics / errors).  Therefore the implementation reaches the specification root for the event tree only
through ONE `Update` on a fresh trie (harness/c10 `event:one-batch-raw-values`, `evroot`), and the regenerated
facts `Gen.eventRootUpdateSites` … (tools/fngen/callsites.go; Props/C10_EventsGen.lean) pin that shape: exactly one `Update` call on the one
trie made by `smt.NewTrie`, outside every loop and conditional, no other use of the trie.
-/
import LiskVerif.Props.C10

open LiskVerif LiskVerif.SMT

private theorem mget_foldl_applyBatch (bs : List (List KV)) :
    ∀ (m : List KV) (k : Bytes), (bs.flatten.map Prod.fst).Nodup →
    mget (bs.foldl applyBatch m) k =
      match bs.flatten.find? (fun kv => decide (kv.1 = k)) with
      | none => mget m k
      | some kv => if kv.2 = [] then none else some kv.2 := by
  induction bs with
  | nil => intro m k _; simp
  | cons b r ih =>
    intro m k hnd
    simp only [List.flatten_cons, List.map_append] at hnd
    have hsplit := List.nodup_append.1 hnd
    simp only [List.foldl_cons, List.flatten_cons, List.find?_append]
    rw [ih (applyBatch m b) k hsplit.2.1, mget_applyBatch]
    cases hb : b.find? (fun kv => decide (kv.1 = k)) with
    | none => simp
    | some kv =>
      have hkv : kv.1 = k := by simpa using List.find?_some hb
      have hmem : kv ∈ b := List.mem_of_find?_eq_some hb
      have hnone : r.flatten.find? (fun kv => decide (kv.1 = k)) = none := by
        rw [List.find?_eq_none]
        intro x hx hxk
        have hxk' : x.1 = k := by simpa using hxk
        exact hsplit.2.2 kv.1 (List.mem_map.2 ⟨kv, hmem, rfl⟩) x.1 (List.mem_map.2 ⟨x, hx, rfl⟩) (hkv.trans hxk'.symm)
      simp [hnone, opEffect]

/-- **Batching independence for the event tree**: for every list of pairs with distinct keys (values of ANY
length, also longer or shorter than a hash) and EVERY way of cutting it into consecutive batches `bs`
(`bs.flatten = pairs`; empty batches allowed), feeding the batches one after the other leaves the map — hence the
root — of the single batch. -/
theorem C10_event_root_batching (H : HashFn) (keyLen : Nat) (pairs : List KV) (bs : List (List KV))
    (hcut : bs.flatten = pairs) (hkeys : (pairs.map Prod.fst).Nodup) :
    mapRoot H keyLen (finalMap bs) = mapRoot H keyLen (finalMap [pairs]) := by
  apply C10_root_function_of_map
  intro k
  have h1 := mget_foldl_applyBatch bs [] k (by rw [hcut]; exact hkeys)
  have h2 := mget_foldl_applyBatch [pairs] [] k (by simpa using hkeys)
  simp only [finalMap]
  rw [h1, h2, hcut]
  simp

/-- the LIP-0039 one-key-at-a-time algorithm run over ANY batching of a block's pairs gives the specification root
of the single batch (incremental = declarative, `C10_incremental_history`) -/
theorem C10_event_root_incremental (H : HashFn) (keyLen : Nat) (pairs : List KV) (bs : List (List KV))
    (hcut : bs.flatten = pairs) (hkeys : (pairs.map Prod.fst).Nodup)
    (hlen : ∀ kv ∈ pairs, kv.1.length = keyLen) :
    ((bs.flatMap batchOps).foldl applyOpTree .empty).hash H = mapRoot H keyLen (finalMap [pairs]) := by
  rw [← C10_event_root_batching H keyLen pairs bs hcut hkeys]
  apply C10_incremental_history
  intro b hb kv hkv
  exact hlen kv (by rw [← hcut]; exact List.mem_flatten.2 ⟨b, hb, hkv⟩)

/-- the key hypothesis is needed: with a repeated key one batch keeps the first value, two batches the last -/
theorem C10_event_root_batching_needs_distinct_keys :
    mget (finalMap [[([1], [7]), ([1], [8])]]) [1] = some [7] ∧
    mget (finalMap [[([1], [7])], [([1], [8])]]) [1] = some [8] := by decide

/-- non-vacuity: three pairs with values of 1, 40 and 33 bytes, cut in two ways -/
example (H : HashFn) :
    mapRoot H 1 (finalMap [[([0x40], [1])], [([0xC0], List.replicate 40 2), ([0x41], List.replicate 33 3)]]) =
    mapRoot H 1 (finalMap [[([0x40], [1]), ([0xC0], List.replicate 40 2), ([0x41], List.replicate 33 3)]]) :=
  C10_event_root_batching H 1 _ _ rfl (by decide)
