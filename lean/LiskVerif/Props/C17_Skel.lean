/-
C17 — lock / channel protocol of the p2p request/response layer, on skeletons REGENERATED from the Go
source.

`tools/skelgen` (group `p2p`) extracts on every check run the synchronisation skeleton of every method
of `MessageProtocol` (pkg/p2p/message_protocol.go: `sendRequestMessage`, `onResponse`, `request`,
`onRequest`, `respond`, `send`, `RequestFrom`, `Broadcast`, `start`, …) into `Gen/SkeletonsP2P.lean`,
together with what these methods call under a lock of their own: the rate limiter (ratelimit.go, see
Props/C17_RateSkel.lean), `Peer.addPenalty` / `banPeer` and the connection gater (conngater.go).
The facts the model of `Model/ReqResp.lean` (fixed version `step`) relies on are obligations here:

  * the response channel is created with capacity ≥ 1           `C17_gen_response_channel_buffered`
  * it is registered (write of `resCh` under `resMu`) before the
    request is handed to `send`                                  `C17_gen_register_before_send`
  * `onResponse` performs no blocking channel operation while it
    holds `resMu` (criterion 3; the delivery is a `select` with
    `default`, skeleton action `trySend`)                        `C17_gen_onResponse_no_blocking_under_lock`
  * every path of `sendRequestMessage` that registered
    unregisters (`delete(resCh, id)`) before it returns          `C17_gen_unregister_on_all_paths`
  * `resMu` is never re-acquired while held                      `C17_gen_no_reentrant_resMu`
  * `resCh` is only accessed under `resMu` (writes exclusively)  `C17_gen_all_entries_ok` (criterion 4)

A change of the source that breaks one of these facts (or introduces a construct skelgen does not
understand) changes the regenerated file and breaks the theorem. The ORIGINAL code (79181c4), written
in the same skeleton language, violates the blocking-in-critical-section, register-before-send and
capacity checks (`C17_gen_original_*`); the concrete lost-response / deadlock executions of the original
are in Props/C17.lean.

Criterion (3) "no possibly blocking operation inside a critical section" does NOT hold as such for the
entry points that reach `rateLimit.checkLimit` (`onRequest`, `onResponse`, `start`): `checkLimit` calls
`Peer.addPenalty` — which may call `Peer.Disconnect`, a network operation — while it holds the counter
mutex (`C17_rate_checkLimit_penalty_under_lock` in Props/C17_RateSkel.lean). What holds for them is
stated in `C17_gen_all_entries_ok`: every other criterion, nothing blocking is ever done under `resMu`,
and `Peer.Disconnect` under the counter mutex alone is the only blocking operation inside any critical
section. The deadlock-freedom theorem is therefore stated for the skeletons in which `Peer.Disconnect`
is an ordinary call that returns (`cfgE`).

Order properties are evaluated on the *event runs* of one body (`Locks.evRuns`: leaf actions in program
order, calls kept as events); `sendRequestMessage` is loop-free, so the enumeration is exhaustive
(`C17_gen_sendRequestMessage_loop_free`, `C17_skel_loopFree_runs_exhaustive`). The meaning of the flag
checks is spelled out by `C17_skel_setWheneverAt_spec` / `C17_skel_cleared_spec`.
-/
import LiskVerif.Props.C20
import LiskVerif.Gen.SkeletonsP2P

open LiskVerif LiskVerif.Locks

namespace C17Skel

/-- configuration regenerated from the source: call table, guards (`resCh ↦ resMu`), lock order -/
def cfg : Cfg := ⟨Gen.SkeletonsP2P.table, Gen.SkeletonsP2P.guards, Gen.SkeletonsP2P.lockOrder⟩

/-- a function of ratelimit.go (a method of `rateLimit` or the plain function `rateLimiterHandler`):
these entry points have their own obligations in Props/C17_RateSkel.lean -/
def isRate (f : String) : Bool := "rateLimit".toList.isPrefixOf f.toList

/-- the regenerated entry points of this file: the message protocol, `Peer.addPenalty` / `banPeer` and
the connection gater (the rate limiter is analysed inlined into `onRequest` / `onResponse` here, and
standalone in Props/C17_RateSkel.lean) -/
def entryTable : Table :=
  Gen.SkeletonsP2P.table.filter (fun e => Gen.SkeletonsP2P.entries.contains e.1 && !isRate e.1)

def resCh : String := "MessageProtocol.resCh"
def resMu : String := "MessageProtocol.resMu"
def sendFn : String := "MessageProtocol.send"

/-- registration `mp.resCh[id] = ch` -/
def isRegister : Act → Bool := Act.isWrite resCh
/-- unregistration `delete(mp.resCh, id)` -/
def isUnregister : Act → Bool := Act.isDel resCh
/-- the request leaves: call of `mp.send` -/
def isSend : Act → Bool := Act.isCall sendFn
/-- creation of an unbuffered channel -/
def isMakeUnbuffered (a : Act) : Bool := a.isMakeChan && !a.isMakeChanGe 1

def counterMu : String := "rpcMessageCounter.mu"
/-- the network operation called (through `Peer.addPenalty`) with a counter mutex held -/
def disconnect : String := "Peer.Disconnect"

/-- the entry points that reach `rateLimit.checkLimit`, hence `Peer.Disconnect` under the counter mutex -/
def penaltyUnderLock : List String :=
  ["MessageProtocol.onRequest", "MessageProtocol.onResponse", "MessageProtocol.start"]

/-- the regenerated configuration in which `Peer.Disconnect` is an ordinary call that returns -/
def cfgE : Cfg :=
  ⟨Gen.SkeletonsP2P.table.eraseBlockingCalls [disconnect], Gen.SkeletonsP2P.guards, Gen.SkeletonsP2P.lockOrder⟩

def entryTableE : Table :=
  cfgE.tbl.filter (fun e => Gen.SkeletonsP2P.entries.contains e.1 && !isRate e.1)

/-- the methods the property names -/
def required : List String :=
  ["MessageProtocol.sendRequestMessage", "MessageProtocol.onResponse", "MessageProtocol.request",
   "MessageProtocol.onRequest", "MessageProtocol.respond", "MessageProtocol.send",
   "MessageProtocol.RequestFrom", "MessageProtocol.Broadcast"]

end C17Skel

open C17Skel

/-! ## meaning of the decidable path checks -/

private theorem flagAfter_append (on off : Act → Bool) (f : Bool) (p q : List Act) :
    flagAfter on off f (p ++ q) = flagAfter on off (flagAfter on off f p) q := by
  induction p generalizing f with
  | nil => rfl
  | cons a p ih => simp only [List.cons_append, flagAfter]; exact ih _

/-- **`setWheneverAt`** — if the check holds for a run, then at every occurrence of an `at_` event the
flag is set: the events before it contain an `on` event that no later `off` event undid. -/
theorem C17_skel_setWheneverAt_spec (on off at_ : Act → Bool) (evs pre post : List Act) (a : Act)
    (h : flagSetAt on off at_ false evs = true) (he : evs = pre ++ a :: post) (ha : at_ a = true) :
    ∃ p1 r p2, pre = p1 ++ r :: p2 ∧ on r = true ∧ ∀ b ∈ p2, on b = true ∨ off b = false := by
  -- step 1: the flag is set after `pre`
  have h1 : ∀ (pre : List Act) (f : Bool) (evs : List Act), flagSetAt on off at_ f evs = true →
      evs = pre ++ a :: post → flagAfter on off f pre = true := by
    intro pre
    induction pre with
    | nil =>
      intro f evs h he
      subst he
      simp only [List.nil_append, flagSetAt, ha, if_true, Bool.and_eq_true] at h
      simpa [flagAfter] using h.1
    | cons b pre ih =>
      intro f evs h he
      subst he
      simp only [List.cons_append, flagSetAt, Bool.and_eq_true] at h
      simp only [flagAfter]
      exact ih _ _ h.2 rfl
  -- step 2: a set flag comes from an `on` event not undone later
  have h2 : ∀ (l : List Act) (f : Bool), flagAfter on off f l = true →
      (f = true ∧ ∀ b ∈ l, on b = true ∨ off b = false) ∨
      ∃ p1 r p2, l = p1 ++ r :: p2 ∧ on r = true ∧ ∀ b ∈ p2, on b = true ∨ off b = false := by
    intro l
    induction l with
    | nil => intro f h; left; exact ⟨by simpa [flagAfter] using h, by intro b hb; cases hb⟩
    | cons c l ih =>
      intro f h
      simp only [flagAfter] at h
      rcases ih _ h with ⟨hf, hall⟩ | ⟨p1, r, p2, hl, hr, hall⟩
      · by_cases hon : on c = true
        · right; exact ⟨[], c, l, rfl, hon, hall⟩
        · by_cases hoff : off c = true
          · simp [flagStep, hon, hoff] at hf
          · left
            refine ⟨by simpa [flagStep, hon, hoff] using hf, ?_⟩
            intro b hb
            rcases List.mem_cons.mp hb with rfl | hb
            · right; simpa using hoff
            · exact hall b hb
      · right; exact ⟨c :: p1, r, p2, by simp [hl], hr, hall⟩
  rcases h2 pre false (h1 pre false evs h he) with ⟨hf, _⟩ | hex
  · cases hf
  · exact hex

/-- **`clearedOnAllPaths`** — if a run ends with the flag clear, then every `on` event in it is
followed by an `off` event (which is not itself an `on` event). -/
theorem C17_skel_cleared_spec (on off : Act → Bool) (evs pre post : List Act) (r : Act)
    (h : flagAfter on off false evs = false) (he : evs = pre ++ r :: post) (hr : on r = true) :
    ∃ b ∈ post, off b = true ∧ on b = false := by
  have h3 : ∀ (l : List Act), flagAfter on off true l = false → ∃ b ∈ l, off b = true ∧ on b = false := by
    intro l
    induction l with
    | nil => intro h; simp [flagAfter] at h
    | cons c l ih =>
      intro h
      simp only [flagAfter] at h
      by_cases hon : on c = true
      · have : flagStep on off true c = true := by simp [flagStep, hon]
        rw [this] at h
        obtain ⟨b, hb, hp⟩ := ih h
        exact ⟨b, List.mem_cons_of_mem _ hb, hp⟩
      · by_cases hoff : off c = true
        · exact ⟨c, by simp, hoff, by simpa using hon⟩
        · have : flagStep on off true c = true := by simp [flagStep, hon, hoff]
          rw [this] at h
          obtain ⟨b, hb, hp⟩ := ih h
          exact ⟨b, List.mem_cons_of_mem _ hb, hp⟩
  subst he
  rw [flagAfter_append] at h
  simp only [flagAfter] at h
  have : flagStep on off (flagAfter on off false pre) r = true := by simp [flagStep, hr]
  rw [this] at h
  exact h3 post h

/-- for a loop-free body the enumeration of runs does not depend on the loop bound: `evRuns` lists
all its runs -/
theorem C17_skel_loopFree_runs_exhaustive (u n : Nat) (k : List Act) (h : loopFree n k = true) :
    evRuns u n k = evRuns 0 n k := by
  induction n generalizing k with
  | zero => rfl
  | succ n ih =>
    cases k with
    | nil => rfl
    | cons a k =>
      simp only [loopFree, Bool.and_eq_true] at h
      simp only [evRuns]
      rw [ih k h.2]
      congr 1
      cases a with
      | loop b => simp at h
      | choice alts =>
        have hall : ∀ alt ∈ alts, loopFree n alt = true := by simpa [List.all_eq_true] using h.1
        simp only [evFirst]
        clear h
        induction alts with
        | nil => rfl
        | cons alt alts iha =>
          simp only [List.flatMap_cons]
          rw [ih alt (hall alt (by simp)), iha (fun x hx => hall x (by simp [hx]))]
      | _ => rfl

/-! ## obligations over the regenerated skeletons -/

/-- every regenerated entry point of the p2p group satisfies all criteria of Model/Locks:
well-formed (no unknown construct, every function ends holding nothing), (1) no re-entrant
acquisition, (2) lock order `resMu` < `rpcMessageCounter.mu` < `connectionGater.mutex`, (3) no blocking
communication inside a critical section, (4) `resCh` is read under `resMu` and written / deleted under
it exclusively (likewise the rate counters and the gater tables under their mutexes) — except that for
the entry points reaching `checkLimit` (3) is replaced by: nothing blocking under `resMu`, and the only
blocking operation inside a critical section is `Peer.Disconnect` with the counter mutex alone held. -/
theorem C17_gen_all_entries_ok :
    entryTable.all (fun e =>
      if penaltyUnderLock.contains e.1 then
        C20.criteriaExceptBlocking C17Skel.cfg e.2 && noBlockingHolding C17Skel.cfg resMu e.2 &&
          blockingOnly C17Skel.cfg [disconnect] [counterMu] e.2
      else criteria C17Skel.cfg e.2) = true := by
  decide +kernel

/-- with `Peer.Disconnect` taken as an ordinary call that returns, every entry point satisfies all
criteria, (3) included -/
theorem C17_gen_all_entries_ok_modulo_disconnect :
    entryTableE.all (fun e => criteria cfgE e.2) = true ∧
    entryTableE.map (·.1) = entryTable.map (·.1) := by
  decide +kernel

/-- the quantification is not vacuous: the methods the property names are regenerated entry points,
and the guard table ties `resCh` to `resMu` -/
theorem C17_gen_required_methods_present :
    required.all (fun f => (entryTable.find f).isSome) = true ∧
    Gen.SkeletonsP2P.guards.lookup resCh = some resMu := by
  decide

/-- no construct the extractor does not understand -/
theorem C17_gen_no_unknown_construct :
    entryTable.all (fun e => wellFormed C17Skel.cfg e.2) = true := by
  decide +kernel

/-- **no re-entrant acquisition of `resMu`** in any entry point (calls inlined) -/
theorem C17_gen_no_reentrant_resMu :
    entryTable.all (fun e => noReentrantAcquire C17Skel.cfg e.2) = true := by
  decide +kernel

/-- **`onResponse` never blocks while holding `resMu`** (criterion 3 for `resMu`): it does take the
lock, it does deliver under the lock — by a non-blocking `trySend` — and neither it nor anything it calls
performs a possibly blocking send / receive / wait / network call while `resMu` is held (the rate-limit
check in front of the critical section is done before `resMu` is taken). -/
theorem C17_gen_onResponse_no_blocking_under_lock :
    noBlockingHolding C17Skel.cfg resMu Gen.SkeletonsP2P.MessageProtocol_onResponse = true ∧
    allEvents (fun a => !a.isBlocking) 1 Gen.SkeletonsP2P.MessageProtocol_onResponse = true ∧
    someRunHas (fun a => match a with | .trySend _ => true | _ => false) 1
      Gen.SkeletonsP2P.MessageProtocol_onResponse = true ∧
    someRunHas (fun a => match a with | .lock m => m == resMu | _ => false) 1
      Gen.SkeletonsP2P.MessageProtocol_onResponse = true := by
  decide

/-- **the response channel is buffered**: every channel `sendRequestMessage` creates has capacity ≥ 1,
one is created on every path before the registration, and a registration exists. -/
theorem C17_gen_response_channel_buffered :
    allEvents (fun a => !isMakeUnbuffered a) 1 Gen.SkeletonsP2P.MessageProtocol_sendRequestMessage = true ∧
    setWheneverAt (Act.isMakeChanGe 1) isMakeUnbuffered isRegister 1
      Gen.SkeletonsP2P.MessageProtocol_sendRequestMessage = true ∧
    someRunHas isRegister 1 Gen.SkeletonsP2P.MessageProtocol_sendRequestMessage = true := by
  decide

/-- **register before send**: on every path of `sendRequestMessage`, whenever the request is handed to
`mp.send` the response channel is registered (and not yet unregistered); `send` is actually called. -/
theorem C17_gen_register_before_send :
    setWheneverAt isRegister isUnregister isSend 1 Gen.SkeletonsP2P.MessageProtocol_sendRequestMessage = true ∧
    someRunHas isSend 1 Gen.SkeletonsP2P.MessageProtocol_sendRequestMessage = true := by
  decide

/-- `sendRequestMessage` has no loop: its event runs are all its paths -/
theorem C17_gen_sendRequestMessage_loop_free :
    loopFree evFuel Gen.SkeletonsP2P.MessageProtocol_sendRequestMessage = true := by
  decide

/-- **unregister on all paths**: every path of `sendRequestMessage` ends with the response channel
unregistered — after the registration, the send-error branch and the three branches of the wait
(`ch`, timeout, context) all `delete(resCh, id)` before returning; no path falls off the end
registered. -/
theorem C17_gen_unregister_on_all_paths :
    clearedOnAllPaths isRegister isUnregister 1 Gen.SkeletonsP2P.MessageProtocol_sendRequestMessage = true ∧
    (evRuns 1 evFuel Gen.SkeletonsP2P.MessageProtocol_sendRequestMessage).all
      (fun r => r.returned || !r.evs.any isRegister) = true := by
  decide

/-- … spelled out: in every run of `sendRequestMessage` (whatever the loop bound), every registration
event is followed by an unregistration event. -/
theorem C17_gen_every_registration_is_undone (u : Nat) (r : EvRun)
    (hr : r ∈ evRuns u evFuel Gen.SkeletonsP2P.MessageProtocol_sendRequestMessage)
    (pre post : List Act) (a : Act) (he : r.evs = pre ++ a :: post) (ha : isRegister a = true) :
    ∃ b ∈ post, isUnregister b = true := by
  rw [C17_skel_loopFree_runs_exhaustive u evFuel _ C17_gen_sendRequestMessage_loop_free,
    ← C17_skel_loopFree_runs_exhaustive 1 evFuel _ C17_gen_sendRequestMessage_loop_free] at hr
  have hc := C17_gen_unregister_on_all_paths.1
  simp only [clearedOnAllPaths, List.all_eq_true, Bool.and_eq_true, Bool.not_eq_true'] at hc
  obtain ⟨b, hb, hoff, _⟩ := C17_skel_cleared_spec isRegister isUnregister r.evs pre post a (hc r hr).2 he ha
  exact ⟨b, hb, hoff⟩

/-- … and: in every run, before each call of `mp.send` there is a registration not yet undone. -/
theorem C17_gen_send_preceded_by_registration (u : Nat) (r : EvRun)
    (hr : r ∈ evRuns u evFuel Gen.SkeletonsP2P.MessageProtocol_sendRequestMessage)
    (pre post : List Act) (a : Act) (he : r.evs = pre ++ a :: post) (ha : isSend a = true) :
    ∃ p1 g p2, pre = p1 ++ g :: p2 ∧ isRegister g = true ∧ ∀ b ∈ p2, isUnregister b = false := by
  rw [C17_skel_loopFree_runs_exhaustive u evFuel _ C17_gen_sendRequestMessage_loop_free,
    ← C17_skel_loopFree_runs_exhaustive 1 evFuel _ C17_gen_sendRequestMessage_loop_free] at hr
  have hc := C17_gen_register_before_send.1
  simp only [setWheneverAt, List.all_eq_true, Bool.and_eq_true] at hc
  obtain ⟨p1, g, p2, hp, hg, hall⟩ :=
    C17_skel_setWheneverAt_spec isRegister isUnregister isSend r.evs pre post a (hc r hr).2 he ha
  refine ⟨p1, g, p2, hp, hg, ?_⟩
  intro b hb
  rcases hall b hb with hon | hoff
  · -- an event cannot be both a registration and an unregistration
    cases b <;> simp_all [isRegister, isUnregister, Act.isWrite, Act.isDel]
  · exact hoff

/-- the registration and the unregistrations happen under `resMu`, held exclusively (criterion 4 on
`sendRequestMessage` and `onResponse`, reported by name) -/
theorem C17_gen_resCh_guarded :
    locksetOk C17Skel.cfg Gen.SkeletonsP2P.MessageProtocol_sendRequestMessage = true ∧
    locksetOk C17Skel.cfg Gen.SkeletonsP2P.MessageProtocol_onResponse = true ∧
    wellFormed C17Skel.cfg Gen.SkeletonsP2P.MessageProtocol_sendRequestMessage = true ∧
    wellFormed C17Skel.cfg Gen.SkeletonsP2P.MessageProtocol_onResponse = true := by
  decide

/-- the requester waits for the response holding nothing: criterion 3 for `sendRequestMessage`,
`request` (retry loop) and the public `RequestFrom` / `Broadcast` -/
theorem C17_gen_requester_waits_outside_lock :
    [Gen.SkeletonsP2P.MessageProtocol_sendRequestMessage, Gen.SkeletonsP2P.MessageProtocol_request,
     Gen.SkeletonsP2P.MessageProtocol_RequestFrom, Gen.SkeletonsP2P.MessageProtocol_Broadcast].all
      (noBlockingInCS C17Skel.cfg) = true ∧
    someRunHas Act.isBlocking 1 Gen.SkeletonsP2P.MessageProtocol_sendRequestMessage = true := by
  decide

/-- **Deadlock freedom of the request/response layer** (instance of `C20_criteria_imply_deadlock_free`),
`Peer.Disconnect` being an ordinary call that returns: any number of goroutines running paths of the
regenerated entry points (requesters, response and request stream handlers with the rate-limit calls
inlined, the connection gater; with the rate limiter's reset goroutine in addition:
`C17_rate_deadlock_free`) under any schedule never reach a state in which some goroutine waits
for `resMu`, a counter mutex or the gater mutex forever: in every reachable state some thread can step
without a communication partner, or every thread is finished or parked at a communication (the wait for
the response / timeout / context / ticker) holding no lock. -/
theorem C17_gen_deadlock_free (u : Nat) (ps : List Path)
    (hps : ∀ p ∈ ps, ∃ e ∈ entryTableE, IsThreadPath cfgE.tbl u e.2 p)
    (st : State) (hr : Reachable (initState ps) st) :
    deadlocked st = false ∧ (quiescent st = true ∨ ∃ i, canStepInternal st i = true) := by
  have hall := C17_gen_all_entries_ok_modulo_disconnect.1
  simp only [List.all_eq_true] at hall
  have hprog := C20_criteria_imply_deadlock_free cfgE u (entryTableE.map (·.2))
    (by
      intro s hs
      obtain ⟨e, he, rfl⟩ := List.mem_map.mp hs
      have hc := hall e he
      simp only [criteria, Bool.and_eq_true] at hc
      exact hc.1)
    ps
    (by
      intro p hp
      obtain ⟨e, he, hpath⟩ := hps p hp
      exact ⟨e.2, List.mem_map.mpr ⟨e, he, rfl⟩, hpath⟩)
    st hr
  exact ⟨C20.no_deadlocked_of_progress st hprog, hprog⟩

/-! ## the ORIGINAL skeleton (pkg/p2p/message_protocol.go at 79181c4) -/

namespace C17Skel.Orig

/-- original `sendRequestMessage`: the request is sent first; only then an UNBUFFERED channel is
created and registered -/
def sendRequestMessage : Skel :=
  [.call "MessageProtocol.send",
   .choice [[.ret], []],
   .makeChan "ch" 0,
   .lock "MessageProtocol.resMu",
   .write "MessageProtocol.resCh",
   .unlock "MessageProtocol.resMu",
   .choice [[.recv "ch",
        .lock "MessageProtocol.resMu", .read "MessageProtocol.resCh", .del "MessageProtocol.resCh",
        .unlock "MessageProtocol.resMu", .ret],
      [.recv "time.After(mp.timeout)",
        .lock "MessageProtocol.resMu", .read "MessageProtocol.resCh", .del "MessageProtocol.resCh",
        .unlock "MessageProtocol.resMu", .ret],
      [.recv "ctx.Done()",
        .lock "MessageProtocol.resMu", .read "MessageProtocol.resCh", .del "MessageProtocol.resCh",
        .unlock "MessageProtocol.resMu", .ret]]]

/-- original `onResponse`: a plain blocking `ch <- response` with `resMu` held (deferred unlock); the
rate-limiter calls in front of the critical section, identical in both versions, are left out -/
def onResponse : Skel :=
  [.choice [[.ret], []],
   .choice [[.call "MessageProtocol.banRemotePeer", .ret], []],
   .choice [[.call "MessageProtocol.banRemotePeer", .ret], []],
   .choice [[.ret], []],
   .lock "MessageProtocol.resMu",
   .deferUnlock "MessageProtocol.resMu",
   .read "MessageProtocol.resCh",
   .choice [[.send "ch"], []]]

/-- the original table: the two functions above shadow the regenerated ones -/
def table : Table :=
  [("MessageProtocol.sendRequestMessage", sendRequestMessage), ("MessageProtocol.onResponse", onResponse)]
    ++ Gen.SkeletonsP2P.table

def cfg : Cfg := ⟨table, Gen.SkeletonsP2P.guards, Gen.SkeletonsP2P.lockOrder⟩

/-- the path of the original `onResponse` that delivers: blocks on the channel with the lock held -/
def deliverPath : Path :=
  [.acq "MessageProtocol.resMu", .read "MessageProtocol.resCh", .block "ch", .rel "MessageProtocol.resMu"]

/-- the timeout path of the original requester after registration: needs `resMu` to unregister -/
def timeoutTail : Path :=
  [.acq "MessageProtocol.resMu", .read "MessageProtocol.resCh", .write "MessageProtocol.resCh",
   .rel "MessageProtocol.resMu"]

end C17Skel.Orig

/-- the original `onResponse` violates criterion (3): a possibly blocking send inside the critical
section of `resMu` (every other criterion holds for it) -/
theorem C17_gen_original_blocks_under_lock :
    noBlockingInCS C17Skel.Orig.cfg C17Skel.Orig.onResponse = false ∧
    noBlockingHolding C17Skel.Orig.cfg resMu C17Skel.Orig.onResponse = false ∧
    wellFormed C17Skel.Orig.cfg C17Skel.Orig.onResponse = true ∧
    noReentrantAcquire C17Skel.Orig.cfg C17Skel.Orig.onResponse = true ∧
    locksetOk C17Skel.Orig.cfg C17Skel.Orig.onResponse = true ∧
    allEvents (fun a => !a.isBlocking) 1 C17Skel.Orig.onResponse = false := by
  decide

/-- the original `sendRequestMessage` violates register-before-send (the request leaves while nothing
is registered: a fast response is dropped as "unknown request ID") and creates an unbuffered channel;
it does unregister on all paths -/
theorem C17_gen_original_sends_before_register :
    setWheneverAt isRegister isUnregister isSend 1 C17Skel.Orig.sendRequestMessage = false ∧
    allEvents (fun a => !isMakeUnbuffered a) 1 C17Skel.Orig.sendRequestMessage = false ∧
    setWheneverAt (Act.isMakeChanGe 1) isMakeUnbuffered isRegister 1 C17Skel.Orig.sendRequestMessage = false ∧
    clearedOnAllPaths isRegister isUnregister 1 C17Skel.Orig.sendRequestMessage = true := by
  decide

/-- what the violation of (3) means on the interleaving semantics: the original handler parked at its
send holds `resMu`; a requester whose wait timed out needs `resMu` to unregister and can never get it —
the state is not quiescent and nobody can take an internal step (the only way out is a communication
partner for the handler's send, which is exactly the requester that is stuck). -/
theorem C17_gen_original_handler_blocks_requester :
    C17Skel.Orig.deliverPath ∈ bodyPaths C17Skel.Orig.table 0 30 C17Skel.Orig.onResponse ∧
    ∃ st, run (initState [C17Skel.Orig.deliverPath, C17Skel.Orig.timeoutTail]) [0, 0, 0, 1] = some st ∧
      quiescent st = false ∧ (List.range st.length).all (fun i => !canStepInternal st i) = true := by
  refine ⟨by decide, _, rfl, ?_, ?_⟩ <;> decide

/-! ## non-vacuity -/

/-- the checks distinguish: dropping one `delete` branch, or moving the registration behind `send`,
is detected on a small hand-made body -/
example :
    clearedOnAllPaths isRegister isUnregister 1
      [.write resCh, .call sendFn, .choice [[.del resCh, .ret], [.ret]]] = false ∧
    clearedOnAllPaths isRegister isUnregister 1
      [.write resCh, .call sendFn, .choice [[.del resCh, .ret], [.del resCh, .ret]]] = true ∧
    setWheneverAt isRegister isUnregister isSend 1 [.call sendFn, .write resCh, .del resCh] = false ∧
    setWheneverAt isRegister isUnregister isSend 1 [.write resCh, .call sendFn, .del resCh] = true := by
  decide

/-- the hypotheses of `C17_gen_deadlock_free` are satisfiable: a complete path of the regenerated
`sendRequestMessage` (register, send, wait, unregister) and one of `onResponse` -/
example :
    (∃ p ∈ bodyPaths cfgE.tbl 0 40 Gen.SkeletonsP2P.MessageProtocol_sendRequestMessage,
      p.contains (.acq "MessageProtocol.resMu") = true ∧ p.contains (.block "ch") = true) ∧
    (∃ p ∈ bodyPaths cfgE.tbl 1 60 Gen.SkeletonsP2P.MessageProtocol_onResponse,
      p.contains (.acq "MessageProtocol.resMu") = true ∧ p.contains (.rel "MessageProtocol.resMu") = true) := by
  decide +kernel

/-- a run of the regenerated `sendRequestMessage` with a registration followed by `send` exists, so the
spelled-out theorems are not vacuous -/
example : ∃ r ∈ evRuns 1 evFuel Gen.SkeletonsP2P.MessageProtocol_sendRequestMessage,
    r.evs.any isRegister = true ∧ r.evs.any isSend = true ∧ r.evs.any isUnregister = true := by
  decide
