/-
C05 / C20 — the block-cache capacity reaches `blockCache` unchanged and is positive by default (tie A, table
described in Props/C13_Wire.lean).  `Model/Node.lean` takes `cfg.maxCache ≥ 1`.
-/
import LiskVerif.Lemmas.Wire

open LiskVerif LiskVerif.Wire

theorem C05_wire_block_cache_path :
    wired "Engine.init" "blockchain.ChainConfig" "MaxBlockCache" "e.config.System.GetMaxBlokckCache()" = true ∧
    wired "NewChain" "Chain" "maxBlockCache" "cfg.MaxBlockCache" = true ∧
    wired "Chain.Init" "recv" "dataAccess" "NewDataAccess(c.database, c.maxBlockCache, c.keepEventsForHeights)" = true ∧
    wired "NewDataAccess" "DataAccess" "cache" "newBlockCache(maxCacheSize)" = true := by decide +kernel

theorem C05_wire_default_block_cache_positive :
    positiveDefault "SystemConfig.InsertDefault" "MaxBlockCache" "nil" = true := by decide +kernel

/-- observation: the chain configuration built by `Engine.init` never sets `KeepEventsForHeights`, so the
engine always runs with event retention 0 whatever `system.keepEventsForHeights` says (the default 309 is
inserted into the configuration and then not used).  Not part of C05's statement; recorded so that a
change of this wiring is noticed. -/
theorem C05_wire_keep_events_not_wired :
    fieldsOf "Engine.init" "blockchain.ChainConfig" = ["MaxBlockCache", "ChainID", "MaxTransactionsLength"] := by
  decide +kernel
