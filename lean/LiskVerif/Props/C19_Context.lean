/-
C19 — the inputs of the sync state machines are the node's COMMITTED values in every reachable node state
(miss C19-17: `Executer.createSyncContext` took the height of `SyncContext.FinalizedBlockHeader` from the BFT
store's `maxHeightPrecommitted` instead of `DataAccess.GetFinalizedHeight()`).

Setting: Model/SyncCtx.lean.  The node state holds BOTH candidate sources of a finalized height — the stored marker
(`NodeSt.marker`, monotone, guarded by `deleteBlock`) and the BFT store's `maxHeightPrecommitted`
(`storeMhpc e s = e.mhpc s.chain`, a function of the current chain: `deleteBlock` rolls it back) — and the sync
context is a function `context src e s` of that state.  Histories are arbitrary lists of the operations through
which anything changes the node (`Op`: processValidated, deleteBlock, restart, ClearTempBlocks — `Executer.process`
with its tie break, both synchronisers and the restore of the fast synchroniser are sequences of these; failed ones
included: a refused operation is the identity).

What is proved (no bound on histories, chains, peers):

* the C04 invariants in this model, for every history: the marker never decreases
  (`C19_ctx_marker_monotone`), it is the maximum over the history of the precommitted heights of the chains the
  node held after a successful `processValidated` (`C19_ctx_marker_is_max`), it dominates the BFT store of the
  current chain and of every prefix of it (`C19_ctx_invariant`, `C19_ctx_marker_ge_bft_store`), no block at or
  below it is ever removed or replaced (`C19_ctx_finalized_prefix_stable`); the same facts for the transcription of
  the Go code (Model/Node.lean) are restated from Props/C04_More / C04_Restart (`C19_ctx_node_*`);
* in every reachable state the context built from the marker exists and names the block of the node's chain at
  the stored finalized height (`C19_ctx_finalized_eq_marker`, `C19_ctx_finalized_eq_marker_history`);
* with this context the synchronisers are the plans of Model/Sync.lean at `fin := marker`
  (`C19_ctx_fast_eq_plan`, `C19_ctx_block_eq_plan`), so every C19 theorem about them holds in every reachable
  state; a common block below the marker is ALWAYS answered by a ban, with the chain untouched and nothing
  downloaded (`C19_ctx_fast_below_marker_banned`); the fast synchroniser never plans a deletion that `deleteBlock`
  refuses (`C19_ctx_fast_no_refused_deletion`: the error path without restore is unreachable) and every failure
  restores the chain (`C19_ctx_fast_failure_restores`), the block
  synchroniser offers only heights at or above the marker (`C19_ctx_block_offers_ge_marker`) and neither ever
  removes a block at or below the marker — whatever the context says (`C19_ctx_sync_keeps_marker_prefix`);
* counterexample (`C19_ctx_bft_store_lags_counterexample`, `C19_ctx_bft_store_source_counterexample`): after
  "apply five blocks, delete one" the BFT store's precommitted height is below the marker; a context built from
  the BFT store then accepts a common block below the marker: nothing is banned, blocks are downloaded, the chain
  is cut down to the marker (the own block above it is lost), no restore — the marker source bans in the same
  state.  The harness reaches exactly this on the seeded tree (`reset P=21 F=14 Q=20 n=4 …; sync rb=d1 …`).
-/
import LiskVerif.Model.SyncCtx
import LiskVerif.Lemmas.SyncMore
import LiskVerif.Props.C19
import LiskVerif.Props.C04_Restart

open LiskVerif LiskVerif.Sync LiskVerif.SyncCtx

namespace C19Ctx

variable {ι : Type} [DecidableEq ι]

/-- the invariant of the persistent state: the chain is not empty, the block at the marker exists, the marker
dominates the precommitted height of every non-empty prefix of the chain -/
def Inv (e : Env ι) (s : NodeSt ι) : Prop :=
  s.marker < s.chain.length ∧ ∀ k, 0 < k → k ≤ s.chain.length → e.mhpc (s.chain.take k) ≤ s.marker

/-- C02 (`mhpc ≤ mhp ≤ height`): the precommitted height of a chain is at most its tip height -/
def EnvOK (e : Env ι) : Prop := ∀ c : List (Blk ι), c ≠ [] → e.mhpc c ≤ c.length - 1

theorem take_append_singleton_of_le {α : Type} (c : List α) (b : α) (k : Nat) (hk : k ≤ c.length) :
    (c ++ [b]).take k = c.take k := by
  rw [List.take_append_of_le_length hk]

theorem take_dropLast_of_le {α : Type} (c : List α) (k : Nat) (hk : k ≤ c.length - 1) :
    c.dropLast.take k = c.take k := by
  rw [List.dropLast_eq_take, List.take_take]
  congr 1
  omega

theorem inv_applyBlock (e : Env ι) (he : EnvOK e) (s : NodeSt ι) (b : Blk ι) (rt : Bool) (h : Inv e s) :
    Inv e (applyBlock e s b rt) := by
  unfold applyBlock
  split
  · obtain ⟨h1, h2⟩ := h
    refine ⟨?_, ?_⟩
    · simp only [List.length_append, List.length_singleton]
      have := he (s.chain ++ [b]) (by simp)
      simp only [List.length_append, List.length_singleton, Nat.add_sub_cancel] at this
      omega
    · intro k hk0 hk
      simp only [List.length_append, List.length_singleton] at hk
      by_cases hkl : k ≤ s.chain.length
      · rw [take_append_singleton_of_le _ _ _ hkl]
        have := h2 k hk0 hkl
        simp only
        omega
      · have hk' : k = s.chain.length + 1 := by omega
        have : (s.chain ++ [b]).take k = s.chain ++ [b] := by
          apply List.take_of_length_le
          simp only [List.length_append, List.length_singleton]; omega
        rw [this]
        simp only
        omega
  · exact h

theorem inv_deleteTip (e : Env ι) (s : NodeSt ι) (st : Bool) (h : Inv e s) : Inv e (deleteTip s st) := by
  unfold deleteTip
  split
  · exact h
  · rename_i hgt
    split
    · exact h
    · obtain ⟨h1, h2⟩ := h
      unfold NodeSt.tipH at hgt
      refine ⟨?_, ?_⟩
      · simp only [List.length_dropLast]; omega
      · intro k hk0 hk
        simp only [List.length_dropLast] at hk
        simp only
        rw [take_dropLast_of_le _ _ hk]
        exact h2 k hk0 (by omega)

theorem inv_step (e : Env ι) (he : EnvOK e) (s : NodeSt ι) (op : Op ι) (h : Inv e s) : Inv e (step e s op) := by
  cases op with
  | apply b rt => exact inv_applyBlock e he s b rt h
  | delete st => exact inv_deleteTip e s st h
  | restart => exact h
  | clearTemp => exact h

theorem run_cons (e : Env ι) (s : NodeSt ι) (op : Op ι) (r : List (Op ι)) :
    run e s (op :: r) = run e (step e s op) r := rfl

theorem marker_step_le (e : Env ι) (s : NodeSt ι) (op : Op ι) : s.marker ≤ (step e s op).marker := by
  cases op with
  | apply b rt =>
    simp only [step, applyBlock]
    split
    · simp only; omega
    · exact Nat.le_refl _
  | delete st =>
    simp only [step, deleteTip]
    split
    · exact Nat.le_refl _
    · split <;> exact Nat.le_refl _
  | restart => exact Nat.le_refl _
  | clearTemp => exact Nat.le_refl _

theorem prefix_step (e : Env ι) (s : NodeSt ι) (op : Op ι) (f : Nat) (hf : f ≤ s.marker) (hm : s.marker < s.chain.length) :
    (step e s op).chain.take (f + 1) = s.chain.take (f + 1) := by
  cases op with
  | apply b rt =>
    simp only [step, applyBlock]
    split
    · simp only
      exact take_append_singleton_of_le _ _ _ (by omega)
    · rfl
  | delete st =>
    simp only [step, deleteTip]
    split
    · rfl
    · rename_i hgt
      unfold NodeSt.tipH at hgt
      split
      · rfl
      · simp only
        exact take_dropLast_of_le _ _ (by omega)
  | restart => rfl
  | clearTemp => rfl

end C19Ctx

open C19Ctx

section Histories
variable {ι : Type} [DecidableEq ι]

/-- **The invariant holds in every reachable state**: after ANY history of operations the block at the marker
exists and the marker dominates the BFT store's precommitted height of every prefix of the chain. -/
theorem C19_ctx_invariant (e : Env ι) (he : EnvOK e) (s : NodeSt ι) (ops : List (Op ι)) (h : Inv e s) :
    Inv e (run e s ops) := by
  induction ops generalizing s with
  | nil => exact h
  | cons op r ih => rw [run_cons]; exact ih _ (inv_step e he s op h)

/-- **The marker never decreases**, whatever the history (deletions, restarts, failed operations included). -/
theorem C19_ctx_marker_monotone (e : Env ι) (s : NodeSt ι) (ops : List (Op ι)) :
    s.marker ≤ (run e s ops).marker := by
  induction ops generalizing s with
  | nil => exact Nat.le_refl _
  | cons op r ih => rw [run_cons]; exact Nat.le_trans (marker_step_le e s op) (ih _)

/-- **The marker is the maximum over the history**: its value after any history is the maximum of its start value
and the BFT store's precommitted height of every chain the node held right after a successful `processValidated`
— nothing else (deleteBlock, restart, ClearTempBlocks, refused operations) changes it. -/
theorem C19_ctx_marker_is_max (e : Env ι) (s : NodeSt ι) (ops : List (Op ι)) :
    (run e s ops).marker = (appliedChains e s ops).foldl (fun m c => max m (e.mhpc c)) s.marker := by
  induction ops generalizing s with
  | nil => rfl
  | cons op r ih =>
    rw [run_cons, ih]
    cases op with
    | apply b rt =>
      simp only [appliedChains, step]
      by_cases hb : e.applies s.chain b = true
      · simp only [hb, if_true, List.foldl_cons]
        congr 1
        simp only [applyBlock, hb, if_true]
      · simp only [hb, Bool.false_eq_true, if_false]
        congr 1
        simp only [applyBlock, hb, Bool.false_eq_true, if_false]
    | delete st =>
      simp only [appliedChains, step]
      congr 1
      simp only [deleteTip]
      split
      · rfl
      · split <;> rfl
    | restart => rfl
    | clearTemp => rfl

/-- **The marker dominates the BFT store in every reachable state** (they are equal on a chain that only grew;
after a deletion the store is strictly lower: `C19_ctx_bft_store_lags_counterexample`). -/
theorem C19_ctx_marker_ge_bft_store (e : Env ι) (he : EnvOK e) (s : NodeSt ι) (ops : List (Op ι)) (h : Inv e s) :
    storeMhpc e (run e s ops) ≤ (run e s ops).marker := by
  obtain ⟨h1, h2⟩ := C19_ctx_invariant e he s ops h
  have := h2 (run e s ops).chain.length (by omega) (Nat.le_refl _)
  rw [List.take_length] at this
  exact this

/-- **No block at or below the marker is ever removed or replaced**: after any history the chain still starts
with the blocks up to the finalized height the node had stored at the start. -/
theorem C19_ctx_finalized_prefix_stable (e : Env ι) (he : EnvOK e) (s : NodeSt ι) (ops : List (Op ι)) (h : Inv e s) :
    (run e s ops).chain.take (s.marker + 1) = s.chain.take (s.marker + 1) := by
  induction ops generalizing s with
  | nil => rfl
  | cons op r ih =>
    rw [run_cons]
    have hinv := inv_step e he s op h
    have hmono := marker_step_le e s op
    have h1 := ih _ hinv
    -- the prefix up to the old marker is a prefix of the prefix up to the new marker
    have h2 : (run e (step e s op) r).chain.take (s.marker + 1) = (step e s op).chain.take (s.marker + 1) := by
      have := congrArg (List.take (s.marker + 1)) h1
      rw [List.take_take, List.take_take] at this
      have hmin : min (s.marker + 1) ((step e s op).marker + 1) = s.marker + 1 := by omega
      rw [hmin] at this
      exact this
    rw [h2]
    exact prefix_step e s op s.marker (Nat.le_refl _) h.1

/-! ### the context -/

/-- **The sync context names the block at the stored finalized height**: in a state satisfying the invariant the
context built from the marker exists, its finalized height IS the marker and its finalized block is the block of
the node's chain at that height. -/
theorem C19_ctx_finalized_eq_marker (e : Env ι) (s : NodeSt ι) (h : Inv e s) :
    ∃ b, s.chain[s.marker]? = some b ∧
      context .marker e s = some { finH := s.marker, fin := b, nvals := e.nvals s.chain } := by
  obtain ⟨h1, _⟩ := h
  refine ⟨s.chain[s.marker], List.getElem?_eq_getElem h1, ?_⟩
  simp only [context, finHeight, List.getElem?_eq_getElem h1, Option.map_some]

/-- … in EVERY reachable state: after any history (apply / delete / restart / failed operations). -/
theorem C19_ctx_finalized_eq_marker_history (e : Env ι) (he : EnvOK e) (s : NodeSt ι) (ops : List (Op ι))
    (h : Inv e s) :
    ∃ ctx, context .marker e (run e s ops) = some ctx ∧ ctx.finH = (run e s ops).marker ∧
      (run e s ops).chain[(run e s ops).marker]? = some ctx.fin ∧ s.marker ≤ ctx.finH ∧
      storeMhpc e (run e s ops) ≤ ctx.finH := by
  obtain ⟨b, hb, hc⟩ := C19_ctx_finalized_eq_marker e (run e s ops) (C19_ctx_invariant e he s ops h)
  exact ⟨_, hc, rfl, hb, C19_ctx_marker_monotone e s ops, C19_ctx_marker_ge_bft_store e he s ops h⟩

/-- The context built from the BFT store names a block at or BELOW the marker (equal exactly when the store has
not been rolled back below it). -/
theorem C19_ctx_bft_store_source_le_marker (e : Env ι) (he : EnvOK e) (s : NodeSt ι) (ops : List (Op ι))
    (h : Inv e s) : finHeight .bftStore e (run e s ops) ≤ finHeight .marker e (run e s ops) :=
  C19_ctx_marker_ge_bft_store e he s ops h

end Histories

/-! ### the synchronisers on the context -/

section Plans
variable {ι : Type} [DecidableEq ι]

/-- **With the committed finalized height the fast synchroniser is the plan of Model/Sync.lean**: when the context
carries the marker, the deletion guard of `deleteBlock` can never fire after the ban check passed, and
`fastSyncG` is `Sync.fastSync` at `fin := marker` — so `C19_fast_sync_failure_restores`,
`C19_converges_to_better_chain`, `C19_fast_sync_outcomes/states` hold in every reachable state. -/
theorem C19_ctx_fast_eq_plan (applies : List (Blk ι) → Blk ι → Bool) (finAfter : List (Blk ι) → Nat)
    (n m : Nat) (q : List (Blk ι)) (target : Blk ι) (peer : Peer ι) :
    fastSyncG applies finAfter n m m q target peer = fastSync applies finAfter n m q target peer := by
  unfold fastSyncG fastSync
  simp only
  cases peer.common (idsAt q (getLastHeights (q.length - 1) (2 * n))) with
  | none => rfl
  | some o =>
    cases o with
    | none => rfl
    | some cid =>
      simp only
      cases heightOf q cid with
      | none => rfl
      | some ch =>
        simp only
        by_cases hlt : ch < m
        · simp only [hlt, if_true]
        · simp only [hlt, if_false]
          rfl

/-- … and the block synchroniser likewise. -/
theorem C19_ctx_block_eq_plan (applies : List (Blk ι) → Blk ι → Bool) (n m myMhp : Nat) (q : List (Blk ι))
    (best : Tip ι) (peer : Peer ι) :
    blockSyncG applies n m m myMhp q best peer = blockSync applies n m myMhp q best peer := rfl

/-- **A common block below the marker is always answered by a ban**: in a state whose context carries the marker,
whatever else the peer does — the chain is untouched, the temp table is not used, nothing is downloaded (the
outcome does not depend on `peer.segment`), the error is "below finalized". -/
theorem C19_ctx_fast_below_marker_banned (applies : List (Blk ι) → Blk ι → Bool) (finAfter : List (Blk ι) → Nat)
    (n m : Nat) (q : List (Blk ι)) (target : Blk ι) (peer : Peer ι) (cid : ι) (ch : Nat)
    (hc : peer.common (idsAt q (getLastHeights (q.length - 1) (2 * n))) = some (some cid))
    (hh : heightOf q cid = some ch) (hlt : ch < m) :
    fastSyncG applies finAfter n m m q target peer = ⟨q, [], true, some .belowFinalized⟩ ∧
    ∀ seg, fastSyncG applies finAfter n m m q target { peer with segment := seg } =
      ⟨q, [], true, some .belowFinalized⟩ := by
  constructor
  · unfold fastSyncG
    simp only [hc, hh, hlt, if_true]
  · intro seg
    unfold fastSyncG
    simp only [hc, hh, hlt, if_true]

/-- … as a statement about the node: in every state satisfying the invariant, `Executer.process` → fast
synchroniser with a peer naming a common block below the STORED finalized height bans it and changes nothing. -/
theorem C19_ctx_node_fast_below_marker_banned (e : Env ι) (finAfter : List (Blk ι) → Nat) (s : NodeSt ι)
    (h : Inv e s) (myMhp : Nat) (target : Blk ι) (targetMhp : Nat) (genIn stale : Bool) (peer : Peer ι)
    (cid : ι) (ch : Nat)
    (hc : peer.common (idsAt s.chain (getLastHeights (s.chain.length - 1) (2 * e.nvals s.chain))) = some (some cid))
    (hh : heightOf s.chain cid = some ch) (hlt : ch < s.marker) :
    syncNode .marker e finAfter s myMhp target targetMhp genIn stale (some .fast) peer =
      some ⟨s.chain, [], true, some .belowFinalized⟩ := by
  obtain ⟨b, _, hctx⟩ := C19_ctx_finalized_eq_marker e s h
  unfold syncNode
  rw [hctx]
  simp only [Option.isNone_some, Bool.false_and, Bool.false_eq_true, if_false]
  rw [(C19_ctx_fast_below_marker_banned e.applies finAfter _ s.marker s.chain target peer cid ch hc hh hlt).1]

/-- **The fast synchroniser never plans a deletion that `deleteBlock` refuses**: with the committed finalized
height in the context the error path "deleteTillCommonBlock failed" — the one path of `fastSyncer.Sync` that
neither restores nor bans — is unreachable, against every peer. -/
theorem C19_ctx_fast_no_refused_deletion (applies : List (Blk ι) → Blk ι → Bool) (finAfter : List (Blk ι) → Nat)
    (n m : Nat) (q : List (Blk ι)) (target : Blk ι) (peer : Peer ι) :
    (fastSyncG applies finAfter n m m q target peer).err ≠ some .deleteFailed := by
  rw [C19_ctx_fast_eq_plan]
  unfold fastSync
  simp only
  repeat' split
  all_goals simp

/-- **A failed fast synchronisation restores the chain, in every reachable state**: on the context of the marker
every error outcome except a failed restoration leaves the requester on exactly the chain it started from, and the
restoration cannot fail when the own chain is valid for the processor and the downloaded blocks finalized nothing
above the marker (`C19_fast_sync_failure_restores` at `fin := marker`, through `C19_ctx_fast_eq_plan`).  With the
BFT store as source this is false: `C19_ctx_bft_store_source_counterexample` (error `deleteFailed`, chain cut). -/
theorem C19_ctx_fast_failure_restores (applies : List (Blk ι) → Blk ι → Bool) (finAfter : List (Blk ι) → Nat)
    (n m : Nat) (q : List (Blk ι)) (target : Blk ι) (peer : Peer ι) :
    (∀ e, (fastSyncG applies finAfter n m m q target peer).err = some e → e ≠ .restoreFailed →
      (fastSyncG applies finAfter n m m q target peer).chain = q) ∧
    ((∀ c, finAfter c ≤ m) → ValidChain applies q →
      (fastSyncG applies finAfter n m m q target peer).err ≠ some .restoreFailed) := by
  rw [C19_ctx_fast_eq_plan]
  exact (C19_fast_sync_failure_restores applies finAfter n m q target peer).2

/-- **The block synchroniser offers only heights at or above the marker** (no `uint32` overflow: own tip and
`marker + 10·n` below 2^32): an honest peer, which answers with one of the offered ids, can only name a common
block at or above the stored finalized height. -/
theorem C19_ctx_block_offers_ge_marker (start m n : Nat) (hs : start < two32) (hno : m + 10 * n < two32) :
    ∀ h ∈ getHeightWithGap start m n 10, m ≤ h :=
  getHeightWithGap_ge start m n 10 hs hno

/-- **Neither synchroniser ever removes a block at or below the marker** — whatever the context says (`ctxFin`
arbitrary: the guard is `deleteBlock`'s, which reads the stored height itself), whatever the peer answers. -/
theorem C19_ctx_sync_keeps_marker_prefix (applies : List (Blk ι) → Blk ι → Bool) (finAfter : List (Blk ι) → Nat)
    (n ctxFin m myMhp : Nat) (q : List (Blk ι)) (target : Blk ι) (best : Tip ι) (peer : Peer ι)
    (hm : m < q.length) :
    (fastSyncG applies finAfter n ctxFin m q target peer).chain.take (m + 1) = q.take (m + 1) ∧
    (blockSyncG applies n ctxFin m myMhp q best peer).chain.take (m + 1) = q.take (m + 1) := by
  constructor
  · unfold fastSyncG
    simp only
    split
    · rfl
    · rfl
    · split
      · rfl
      · rename_i ch hch
        split
        · rfl
        · split
          · rfl
          · split
            · rfl
            · split
              · rfl
              · split
                · simp only
                  rw [List.take_take, Nat.min_self]
                · rename_i hge
                  split
                  · rename_i c' happ
                    obtain ⟨app, hc', _⟩ := applyAll_prefix applies _ _ _ _ happ
                    simp only [hc']
                    exact take_take_append q app (ch + 1) m (by omega) (by omega)
                  · rename_i c' happ
                    obtain ⟨app, hc', _⟩ := applyAll_prefix applies _ _ _ _ happ
                    have hpre : c'.take (m + 1) = q.take (m + 1) := by
                      rw [hc']; exact take_take_append q app (ch + 1) m (by omega) (by omega)
                    split
                    · simp only
                      rw [List.take_take]
                      have : min (m + 1) (max m (finAfter c') + 1) = m + 1 := by omega
                      rw [this]; exact hpre
                    · have hlen : m + 1 ≤ c'.length := by
                        rw [hc', List.length_append, List.length_take]; omega
                      split
                      · rename_i c'' hre
                        obtain ⟨app2, hc''⟩ := reapply_prefix applies _ _ _ _ hre
                        simp only [hc'']
                        rw [take_take_append c' app2 (ch + 1) m (by omega) hlen]
                        exact hpre
                      · rename_i c'' rest _ hre
                        obtain ⟨app2, hc''⟩ := reapply_prefix applies _ _ _ _ hre
                        simp only [hc'']
                        rw [take_take_append c' app2 (ch + 1) m (by omega) hlen]
                        exact hpre
  · unfold blockSyncG
    simp only
    split
    · rfl
    · split
      · rfl
      · split
        · rfl
        · split
          · rfl
          · split
            · rfl
            · rename_i ch _
              split
              · simp only
                rw [List.take_take, Nat.min_self]
              · rename_i hge
                have key : ∀ bs c' r, streamApply applies (q.take (ch + 1)) bs = (c', r) →
                    c'.take (m + 1) = q.take (m + 1) := by
                  intro bs c' r h
                  obtain ⟨app, hc'⟩ := streamApply_prefix applies _ _ _ _ h
                  rw [hc']
                  exact take_take_append q app (ch + 1) m (by omega) (by omega)
                split
                · rename_i c' h; exact key _ c' _ h
                · rename_i c' e _ h; exact key _ c' _ h
                · rename_i c' h
                  repeat' split
                  all_goals exact key _ c' _ h

end Plans

/-! ### counterexample: the BFT store as source -/

namespace C19Ctx.Ex

def blk (i p h : Nat) : Blk Nat := { id := i, prev := p, height := h }

def g : Blk Nat := blk 0 0 0
def b1 : Blk Nat := blk 1 0 1
def b2 : Blk Nat := blk 2 1 2
def b3 : Blk Nat := blk 3 2 3
def b4 : Blk Nat := blk 4 3 4
def b5 : Blk Nat := blk 5 4 5
/-- the peer's blocks above the common block `b2` -/
def p3 : Blk Nat := blk 13 2 3
def p4 : Blk Nat := blk 14 13 4
def p5 : Blk Nat := blk 15 14 5
def p6 : Blk Nat := blk 16 15 6

/-- two validators; a block is applied iff it is linked to the tip; finality lags the tip by two blocks -/
def env : Env Nat where
  applies := fun c x => x.height == c.length && (match c.getLast? with | some t => t.id == x.prev | none => false)
  mhpc := fun c => c.length - 1 - 2
  nvals := fun _ => 2

def s0 : NodeSt Nat := { chain := [g], marker := 0 }

/-- five blocks applied (finality reaches height 3), the tip deleted again (tie break / interrupted synchronisation) -/
def history : List (Op Nat) :=
  [.apply b1 false, .apply b2 false, .apply b3 false, .apply b4 false, .apply b5 false, .delete false]

def peerChain : List (Blk Nat) := [g, b1, b2, p3, p4, p5, p6]

/-- (chain, temp table, peer banned, error) of a synchronisation; `createSyncContext` failing would give the empty chain -/
def outcome (o : Option (Out Nat)) : List (Blk Nat) × List (Blk Nat) × Bool × Option SyncErr :=
  match o with
  | some o => (o.chain, o.temp, o.banned, o.err)
  | none => ([], [], false, none)

theorem envOK : EnvOK env := by
  intro c _
  simp only [env]
  omega

theorem inv0 : Inv env s0 := by
  refine ⟨by decide, ?_⟩
  intro k hk0 hk
  simp only [s0, List.length_singleton] at hk
  have : k = 1 := by omega
  subst this
  decide

end C19Ctx.Ex

open C19Ctx.Ex in
/-- **The BFT store lags behind the marker after a revert**: after "apply five blocks, delete one" the node is on
`g b1 b2 b3 b4`, its stored finalized height is 3, the precommitted height of its (rolled-back) BFT store is 2. -/
theorem C19_ctx_bft_store_lags_counterexample :
    (run env s0 history).chain = [g, b1, b2, b3, b4] ∧ (run env s0 history).marker = 3 ∧
    storeMhpc env (run env s0 history) = 2 ∧
    (context .marker env (run env s0 history)).map (·.finH) = some 3 ∧
    (context .bftStore env (run env s0 history)).map (·.finH) = some 2 := by
  decide

open C19Ctx.Ex in
/-- **With the BFT store as source the fast synchroniser accepts a common block below the marker**: in that state
an honest peer on `g b1 b2 p3 … p6` (fork after height 2, below the stored finalized height 3) announces `p6`.
Context from the marker: the peer is banned, the chain untouched.  Context from the BFT store (finalized height
2): nobody is banned, the blocks are downloaded, `deleteBlock` removes `b4` and refuses `b3`: the node ends on
`g b1 b2 b3` with its own block `b4` only in the temp table — truncated, not restored, peer not banned. -/
theorem C19_ctx_bft_store_source_counterexample :
    outcome (syncNode .marker env (fun _ => 0) (run env s0 history) 0 p6 4 true true (some .fast)
      (honest peerChain 4)) = ([g, b1, b2, b3, b4], [], true, some .belowFinalized) ∧
    outcome (syncNode .bftStore env (fun _ => 0) (run env s0 history) 0 p6 4 true true (some .fast)
      (honest peerChain 4)) = ([g, b1, b2, b3], [b4], false, some .deleteFailed) ∧
    -- the same through `Syncer.Sync`'s own choice of the synchroniser
    outcome (syncNode .bftStore env (fun _ => 0) (run env s0 history) 0 p6 4 true true none
      (honest peerChain 4)) = ([g, b1, b2, b3], [b4], false, some .deleteFailed) := by
  decide

/-- non-vacuity of the history theorems: the example state is reachable, satisfies the invariant, and the
context of the marker names block `b3` -/
example : Inv C19Ctx.Ex.env (run C19Ctx.Ex.env C19Ctx.Ex.s0 C19Ctx.Ex.history) :=
  C19_ctx_invariant _ C19Ctx.Ex.envOK _ _ C19Ctx.Ex.inv0

example : (context .marker C19Ctx.Ex.env (run C19Ctx.Ex.env C19Ctx.Ex.s0 C19Ctx.Ex.history)).map (·.fin) =
    some C19Ctx.Ex.b3 := by decide

example : (appliedChains C19Ctx.Ex.env C19Ctx.Ex.s0 C19Ctx.Ex.history).length = 5 ∧
    (run C19Ctx.Ex.env C19Ctx.Ex.s0 C19Ctx.Ex.history).marker =
      (appliedChains C19Ctx.Ex.env C19Ctx.Ex.s0 C19Ctx.Ex.history).foldl
        (fun m c => max m (C19Ctx.Ex.env.mhpc c)) 0 :=
  ⟨by decide, C19_ctx_marker_is_max _ _ _⟩

/-- a peer whose common block is AT the marker is not banned by the marker source (the guard is strict) -/
example : C19Ctx.Ex.outcome (syncNode .marker C19Ctx.Ex.env (fun _ => 0)
      (run C19Ctx.Ex.env C19Ctx.Ex.s0 C19Ctx.Ex.history) 0 (C19Ctx.Ex.blk 25 24 5) 4 true true (some .fast)
      (honest [C19Ctx.Ex.g, C19Ctx.Ex.b1, C19Ctx.Ex.b2, C19Ctx.Ex.b3, C19Ctx.Ex.blk 24 3 4, C19Ctx.Ex.blk 25 24 5] 4)) =
    ([C19Ctx.Ex.g, C19Ctx.Ex.b1, C19Ctx.Ex.b2, C19Ctx.Ex.b3, C19Ctx.Ex.blk 24 3 4, C19Ctx.Ex.blk 25 24 5], [], false, none) := by
  decide

/-! ### the same facts for the transcription of the Go code (Model/Node.lean) -/

section NodeModel
open LiskVerif.Node
open LiskVerif.DiffDB (Store)

/-- **Transcription level: the sync context carries the stored finalized height after every history**
(`Node.syncFinalized` = `GetBlockHeaderByHeight(GetFinalizedHeight())`, Props/C04_Restart): whatever the history
(processed blocks, deletions, tie breaks, restarts, failed operations), the header `createSyncContext` hands to
the synchronisers has the height `GetFinalizedHeight` reads from the database at that moment. -/
theorem C19_ctx_node_context_height (cd : Codecs) (cfg : Cfg) (slot : Slot) (base : Store) (baseH : Nat)
    (hbase : BaseOK cd base baseH) (s : St) (c : Chain) (ops : List Node.Op) (hR : Ref cd base baseH s c)
    (hok : RunOK cd cfg slot base s c ops) (f : Nat) (hf : finOf (Node.run cd cfg slot s ops).db = some f)
    (hlt : baseH < f) (hd : Hdr) (hs : syncFinalized cd (Node.run cd cfg slot s ops) = some hd) :
    hd.height = f :=
  C04_sync_context_height cd base baseH hbase _ _ (trans_run hbase ops s c hR hok).ref f hf hlt hd hs

/-- **Transcription level: the marker dominates the precommitted height of every block of the chain** — in
particular that of the tip, which is what the BFT store of the node holds (`deleteBlock` reverts the state diff of
the deleted block: Props/C05) — after every history (Props/C04_More `C04_fin_ge_chain_mhpc`). -/
theorem C19_ctx_node_marker_ge_bft_store (cd : Codecs) (cfg : Cfg) (slot : Slot) (base : Store) (baseH : Nat)
    (hbase : BaseOK cd base baseH) (s : St) (c : Chain) (ops : List Node.Op) (hR : Ref cd base baseH s c)
    (hok : RunOK cd cfg slot base s c ops) (f : Nat) (hf : finOf s.db = some f) (h0 : ∀ bx ∈ c, bx.2.mhpc ≤ f) :
    ∃ f', finOf (Node.run cd cfg slot s ops).db = some f' ∧ f ≤ f' ∧
      ∀ bx, (runC cd cfg slot s c ops).getLast? = some bx → bx.2.mhpc ≤ f' := by
  obtain ⟨f', hf', hall⟩ := C04_fin_ge_chain_mhpc cd cfg slot base baseH hbase s c ops hR hok f hf h0
  refine ⟨f', hf', ?_, fun bx hbx => hall bx (List.mem_of_getLast? hbx)⟩
  obtain ⟨f1, f1', h1, h2, hle⟩ := C04_fin_monotone cd cfg slot base baseH hbase s c ops hR hok
  rw [hf] at h1
  rw [hf'] at h2
  cases h1
  cases h2
  exact hle

end NodeModel
