/-
C16 — the TOPICS of the events of a transaction / hook call (`Model/ExecEvents.lean`, the extension of
`Model/Exec.lean` by the topic list of every logged event; driver `Driver/ExecEvents.lean`, pseudo-property
C16WIDE).

* `C16_events2_refines_exec`: forgetting the topic lists, `executeTransactionT` IS `Exec.executeTransaction`
  on the erased script (store, result code, events with module / name / data / number of topics / height /
  index): every theorem of `Props/C16.lean` applies to the run with topics.
* `C16_event_ntopics_is_length`: the number of topics `Model/Exec.lean` records for an event is the length
  of its topic list.
* `C16_event_topics_exact`: for ALL scripts (hooks and command: any sets, deletes, reads, checks, nested
  store snapshots, events with any topics, then success or failure) the topic list of the i-th event of the
  response is the default topic of the call followed by the topics the caller gave for THAT event: the
  events of the before-hook, then the events of the command (all of them after a success, the
  unrevertible ones after a failure), then the events of the after-hook, then the standard event, which
  carries the default topic only.  No event carries a topic of another event.
* `C16_failed_command_topics`, `C16_block_hook_topics_exact`: the same for a transaction without hooks whose
  command fails, and for the block hooks.
-/
import LiskVerif.Model.ExecEvents
import LiskVerif.Lemmas.Exec

open LiskVerif LiskVerif.DiffDB LiskVerif.Exec LiskVerif.ExecEvents

/-! ### specification: the events a piece of module code logs -/

/-- (unrevertible?, caller topics) of the events the code logs, in order: one entry per item that logs an
event and succeeds, up to the first item that returns an error. Which items run and whether they succeed
is decided by `Exec.runItem` (store contents, event validity). -/
def C16Emitted (s : SecSt) : List ItemT → List (Bool × List Bytes)
  | [] => []
  | it :: r =>
    let x := runItem s it.erase
    if x.2 then (if logs it.erase then [(it.unrev, it.callerTopics)] else []) ++ C16Emitted x.1 r
    else []

/-- the topic list of an event logged with caller topics `e.2` under the default topic `dt` -/
def C16WithDefault (dt : Bytes) (e : Bool × List Bytes) : List Bytes := dt :: e.2

/-! ### erasure -/

private theorem runSectionT_step (dt : Bytes) (x : SecStT) (it : ItemT) (r : List ItemT) :
    runSectionT dt x (it :: r) =
      if (runItem x.s it.erase).2 = true then runSectionT dt (runItemT dt x it).1 r
      else ((runItemT dt x it).1, false) := rfl

private theorem runSection_step (s : SecSt) (it : Item) (r : List Item) :
    runSection s (it :: r) =
      if (runItem s it).2 = true then runSection (runItem s it).1 r else ((runItem s it).1, false) := rfl

private theorem runSectionT_erase (dt : Bytes) (items : List ItemT) : ∀ (x : SecStT),
    (runSectionT dt x items).1.s = (runSection x.s (items.map ItemT.erase)).1 ∧
      (runSectionT dt x items).2 = (runSection x.s (items.map ItemT.erase)).2 := by
  induction items with
  | nil => intro x; exact ⟨rfl, rfl⟩
  | cons it r ih =>
    intro x
    rw [runSectionT_step, List.map_cons, runSection_step]
    by_cases h : (runItem x.s it.erase).2 = true
    · rw [if_pos h, if_pos h]; exact ih _
    · rw [if_neg h, if_neg h]; exact ⟨rfl, rfl⟩

/-! ### the logger and the topic lists stay consistent -/

/-- one topic list per logged event, as long as the event's number of topics -/
def C16Consistent : List Logged → TLog → Prop
  | [], [] => True
  | e :: es, t :: ts => e.event.ntopics = t.length ∧ C16Consistent es ts
  | _, _ => False

private theorem consistent_length : ∀ (a : List Logged) (t : TLog), C16Consistent a t → t.length = a.length := by
  intro a
  induction a with
  | nil => intro t h; cases t with
    | nil => rfl
    | cons _ _ => exact h.elim
  | cons e es ih => intro t h; cases t with
    | nil => exact h.elim
    | cons t ts => simp only [List.length_cons, ih ts h.2]

private theorem consistent_append : ∀ (a : List Logged) (ta : TLog) (b : List Logged) (tb : TLog),
    C16Consistent a ta → C16Consistent b tb → C16Consistent (a ++ b) (ta ++ tb) := by
  intro a
  induction a with
  | nil => intro ta b tb ha hb; cases ta with
    | nil => exact hb
    | cons _ _ => exact ha.elim
  | cons e es ih => intro ta b tb ha hb; cases ta with
    | nil => exact ha.elim
    | cons t ts => exact ⟨ha.1, ih ts b tb ha.2 hb⟩

private theorem consistent_take : ∀ (a : List Logged) (t : TLog) (n : Nat),
    C16Consistent a t → C16Consistent (a.take n) (t.take n) := by
  intro a
  induction a with
  | nil => intro t n h; cases t with
    | nil => simp [C16Consistent]
    | cons _ _ => exact h.elim
  | cons e es ih => intro t n h; cases t with
    | nil => exact h.elim
    | cons t ts =>
      cases n with
      | zero => simp [C16Consistent]
      | succ n => exact ⟨h.1, ih ts n h.2⟩

private theorem consistent_drop : ∀ (a : List Logged) (t : TLog) (n : Nat),
    C16Consistent a t → C16Consistent (a.drop n) (t.drop n) := by
  intro a
  induction a with
  | nil => intro t n h; cases t with
    | nil => simp [C16Consistent]
    | cons _ _ => exact h.elim
  | cons e es ih => intro t n h; cases t with
    | nil => exact h.elim
    | cons t ts =>
      cases n with
      | zero => exact h
      | succ n => exact ih ts n h.2

private theorem consistent_keep : ∀ (a : List Logged) (t : TLog) (n : Nat), C16Consistent a t →
    C16Consistent (reindexFrom n (a.filter (·.noRevert))) (keepTopics a t) := by
  intro a
  induction a with
  | nil => intro t n h; cases t with
    | nil => simp [C16Consistent, keepTopics, reindexFrom]
    | cons _ _ => exact h.elim
  | cons e es ih => intro t n h; cases t with
    | nil => exact h.elim
    | cons t ts =>
      cases hn : e.noRevert with
      | true =>
        simp only [List.filter_cons, hn, if_true, reindexFrom, keepTopics]
        exact ⟨h.1, ih ts (n + 1) h.2⟩
      | false =>
        simp only [List.filter_cons, hn, Bool.false_eq_true, if_false, keepTopics]
        exact ih ts n h.2

private theorem consistent_restore (l : EventLogger) (tl : TLog) (h : C16Consistent l.events tl) :
    C16Consistent (restoreSnapshot l).events (restoreTopics l tl) := by
  unfold restoreSnapshot restoreTopics
  cases l.snapshotIndex with
  | none => exact h
  | some n =>
    exact consistent_append _ _ _ _ (consistent_take _ _ n h) (consistent_keep _ _ n (consistent_drop _ _ n h))

/-- the event an item of `Model/Exec.lean` logs is unrevertible -/
private def itemUnrev : Item → Bool
  | .ev u _ _ => u
  | _ => false

/-- number of caller topics of the event an item logs -/
private def itemExtra : Item → Nat
  | .ev _ n _ => n
  | _ => 0

private theorem unrev_erase (it : ItemT) : it.unrev = itemUnrev it.erase := by
  cases it with
  | plain i => cases i <;> rfl
  | ev u ts d => rfl

private theorem stdTopics_length (n : Nat) : (stdTopics n).length = n := by
  simp [stdTopics]

private theorem extra_erase (it : ItemT) : it.callerTopics.length = itemExtra it.erase := by
  cases it with
  | plain i => cases i <;> simp [ItemT.callerTopics, ItemT.erase, itemExtra, stdTopics_length]
  | ev u ts d => rfl

/-- what one item does to the list of logged events: an item that logs and succeeds appends exactly one
event (revertible or not as the item says, with `1 + extra` topics), every other item leaves the list -/
private theorem runItem_logged (s : SecSt) (it : Item) :
    ∃ new, (runItem s it).1.lg.events = s.lg.events ++ new ∧
      (((runItem s it).2 && logs it) = true → ∃ e, new = [e] ∧ e.noRevert = itemUnrev it ∧
        e.event.ntopics = 1 + itemExtra it) ∧
      (((runItem s it).2 && logs it) = false → new = []) := by
  cases it with
  | set k v => exact ⟨[], by simp [runItem], by simp [logs], fun _ => rfl⟩
  | del k => exact ⟨[], by simp [runItem], by simp [logs], fun _ => rfl⟩
  | chk k v => exact ⟨[], by simp [runItem], by simp [logs], fun _ => rfl⟩
  | push => exact ⟨[], by simp [runItem], by simp [logs], fun _ => rfl⟩
  | fail => exact ⟨[], by simp [runItem], by simp [logs], fun _ => rfl⟩
  | pop =>
    refine ⟨[], ?_, by simp [logs], fun _ => rfl⟩
    simp only [runItem]
    split <;> simp
  | get k =>
    simp only [runItem]
    split
    · next lg' h =>
      obtain ⟨e, he, _, _, _, _, hn, _, _⟩ := add_spec h
      exact ⟨[_], he, fun _ => ⟨_, rfl, rfl, by simpa [itemExtra] using hn⟩, by simp [logs]⟩
    · exact ⟨[], by simp, by simp, fun _ => rfl⟩
  | badEv =>
    simp only [runItem]
    split
    · next lg' h =>
      obtain ⟨e, he, _, _, _, _, hn, _, _⟩ := add_spec h
      exact ⟨[_], he, fun _ => ⟨_, rfl, rfl, by simpa [itemExtra] using hn⟩, by simp [logs]⟩
    · exact ⟨[], by simp, by simp, fun _ => rfl⟩
  | ev unrev n d =>
    simp only [runItem]
    split
    · next lg' h =>
      cases unrev with
      | false =>
        simp only [Bool.false_eq_true, if_false] at h
        obtain ⟨e, he, _, _, _, _, hn, _, _⟩ := add_spec h
        exact ⟨[_], he, fun _ => ⟨_, rfl, rfl, by simpa [itemExtra] using hn⟩, by simp [logs]⟩
      | true =>
        simp only [if_true] at h
        obtain ⟨e, he, _, _, _, _, hn, _, _⟩ := addUnrevertible_spec h
        exact ⟨[_], he, fun _ => ⟨_, rfl, rfl, by simpa [itemExtra] using hn⟩, by simp [logs]⟩
    · exact ⟨[], by simp, by simp, fun _ => rfl⟩

/-! ### module code: topic lists, consistency, the new events -/

private theorem emitted_step (s : SecSt) (it : ItemT) (r : List ItemT) :
    C16Emitted s (it :: r) =
      if (runItem s it.erase).2 = true then
        (if logs it.erase = true then [(it.unrev, it.callerTopics)] else []) ++ C16Emitted (runItem s it.erase).1 r
      else [] := rfl

/-- the event (if any) one item logs -/
private def itemEmits (s : SecSt) (it : ItemT) : List (Bool × List Bytes) :=
  if ((runItem s it.erase).2 && logs it.erase) = true then [(it.unrev, it.callerTopics)] else []

private theorem runItemT_spec (dt : Bytes) (x : SecStT) (it : ItemT)
    (h : C16Consistent x.s.lg.events x.tl) :
    (runItemT dt x it).1.tl = x.tl ++ (itemEmits x.s it).map (C16WithDefault dt) ∧
      C16Consistent (runItemT dt x it).1.s.lg.events (runItemT dt x it).1.tl ∧
      ∃ new, (runItemT dt x it).1.s.lg.events = x.s.lg.events ++ new ∧
        new.map (·.noRevert) = (itemEmits x.s it).map (·.1) := by
  obtain ⟨new, he, h1, h2⟩ := runItem_logged x.s it.erase
  have hs : (runItemT dt x it).1.s = (runItem x.s it.erase).1 := rfl
  have ht : (runItemT dt x it).1.tl =
      if ((runItem x.s it.erase).2 && logs it.erase) = true then x.tl ++ [dt :: it.callerTopics] else x.tl := rfl
  cases hc : ((runItem x.s it.erase).2 && logs it.erase) with
  | true =>
    obtain ⟨e, rfl, hu, hn⟩ := h1 hc
    have hem : itemEmits x.s it = [(it.unrev, it.callerTopics)] := by
      unfold itemEmits; rw [if_pos hc]
    rw [ht, if_pos hc, hs, he, hem]
    refine ⟨rfl, ?_, [e], rfl, ?_⟩
    · refine consistent_append _ _ _ _ h ⟨?_, trivial⟩
      rw [hn, List.length_cons, extra_erase]; omega
    · simp [hu, unrev_erase]
  | false =>
    have hnew := h2 hc
    subst hnew
    have hem : itemEmits x.s it = [] := by
      unfold itemEmits; rw [if_neg (by simp [hc])]
    rw [ht, if_neg (by simp [hc]), hs, he, hem]
    refine ⟨by simp, ?_, [], rfl, rfl⟩
    simpa using h

private theorem runSectionT_spec (dt : Bytes) (items : List ItemT) : ∀ (x : SecStT),
    C16Consistent x.s.lg.events x.tl →
    (runSectionT dt x items).1.tl = x.tl ++ (C16Emitted x.s items).map (C16WithDefault dt) ∧
      C16Consistent (runSectionT dt x items).1.s.lg.events (runSectionT dt x items).1.tl ∧
      ∃ new, (runSectionT dt x items).1.s.lg.events = x.s.lg.events ++ new ∧
        new.map (·.noRevert) = (C16Emitted x.s items).map (·.1) := by
  induction items with
  | nil => intro x h; exact ⟨by simp [runSectionT, C16Emitted], h, [], by simp [runSectionT], rfl⟩
  | cons it r ih =>
    intro x h
    obtain ⟨t1, c1, new1, e1, f1⟩ := runItemT_spec dt x it h
    rw [runSectionT_step, emitted_step]
    by_cases hr : (runItem x.s it.erase).2 = true
    · have hem : itemEmits x.s it = if logs it.erase = true then [(it.unrev, it.callerTopics)] else [] := by
        unfold itemEmits; rw [hr, Bool.true_and]
      rw [if_pos hr, if_pos hr]
      obtain ⟨t2, c2, new2, e2, f2⟩ := ih (runItemT dt x it).1 c1
      have hs : (runItemT dt x it).1.s = (runItem x.s it.erase).1 := rfl
      rw [hs] at t2 e2 f2
      refine ⟨?_, c2, new1 ++ new2, ?_, ?_⟩
      · rw [t2, t1, hem, List.map_append, List.append_assoc]
      · rw [e2, ← hs, e1, List.append_assoc]
      · rw [List.map_append, List.map_append, f1, f2, hem]
    · have hem : itemEmits x.s it = [] := by
        unfold itemEmits
        rw [if_neg]
        simp [hr]
      rw [if_neg hr, if_neg hr]
      refine ⟨?_, c1, new1, e1, ?_⟩
      · rw [t1, hem]
      · rw [f1, hem]

/-! ### the command phase -/

private theorem keepTopics_map (f : Bool × List Bytes → List Bytes) :
    ∀ (E : List (Bool × List Bytes)) (new : List Logged),
      new.map (·.noRevert) = E.map (·.1) → keepTopics new (E.map f) = (E.filter (·.1)).map f := by
  intro E
  induction E with
  | nil => intro new _; cases new <;> simp [keepTopics]
  | cons a r ih =>
    intro new h
    cases new with
    | nil => simp at h
    | cons e es =>
      simp only [List.map_cons, List.cons.injEq] at h
      cases ha : a.1 with
      | true =>
        have he : e.noRevert = true := by rw [h.1, ha]
        simp only [List.map_cons, keepTopics, he, if_true, List.filter_cons, ha, ih es h.2]
      | false =>
        have he : e.noRevert = false := by rw [h.1, ha]
        simp only [List.map_cons, keepTopics, he, Bool.false_eq_true, if_false, List.filter_cons, ha, ih es h.2]

/-- the command's code as `commandPhase` runs it: on the snapshot of the store, with the event snapshot taken -/
def C16CmdStart (st : St) (lg : EventLogger) : SecSt :=
  { st := (snapshot st).1, lg := createSnapshot lg }

private theorem commandPhase_cases (st : St) (lg : EventLogger) (cmd : List Item) :
    (commandPhase st lg cmd).lgRan = (runSection (C16CmdStart st lg) cmd).1.lg ∧
      ((commandPhase st lg cmd).success = true →
        (commandPhase st lg cmd).lg = (runSection (C16CmdStart st lg) cmd).1.lg) ∧
      ((commandPhase st lg cmd).restoreFailed = true →
        (commandPhase st lg cmd).lg = (runSection (C16CmdStart st lg) cmd).1.lg) ∧
      ((commandPhase st lg cmd).success = false → (commandPhase st lg cmd).restoreFailed = false →
        (commandPhase st lg cmd).lg = restoreSnapshot (runSection (C16CmdStart st lg) cmd).1.lg) := by
  unfold commandPhase C16CmdStart
  dsimp only
  split
  · simp
  · split <;> simp

private theorem commandPhaseT_spec (dt : Bytes) (st : St) (lg : EventLogger) (tl : TLog) (cmd : List ItemT)
    (h : C16Consistent lg.events tl) :
    C16Consistent (commandPhaseT dt st lg tl cmd).out.lg.events (commandPhaseT dt st lg tl cmd).tl ∧
      ((commandPhaseT dt st lg tl cmd).out.restoreFailed = false →
        (commandPhaseT dt st lg tl cmd).tl = tl ++
          ((if (commandPhaseT dt st lg tl cmd).out.success = true then C16Emitted (C16CmdStart st lg) cmd
            else (C16Emitted (C16CmdStart st lg) cmd).filter (·.1)).map (C16WithDefault dt))) := by
  have hout : (commandPhaseT dt st lg tl cmd).out = commandPhase st lg (cmd.map ItemT.erase) := rfl
  have htl : (commandPhaseT dt st lg tl cmd).tl =
      if ((commandPhaseT dt st lg tl cmd).out.success || (commandPhaseT dt st lg tl cmd).out.restoreFailed) = true
      then (runSectionT dt { s := C16CmdStart st lg, tl := tl } cmd).1.tl
      else restoreTopics (commandPhaseT dt st lg tl cmd).out.lgRan (runSectionT dt { s := C16CmdStart st lg, tl := tl } cmd).1.tl := rfl
  obtain ⟨t, cns, new, e, f⟩ := runSectionT_spec dt cmd { s := C16CmdStart st lg, tl := tl } h
  have her := (runSectionT_erase dt cmd { s := C16CmdStart st lg, tl := tl }).1
  dsimp only at t cns e f her
  obtain ⟨hran, hsucc, hrf, hfail⟩ := commandPhase_cases st lg (cmd.map ItemT.erase)
  rw [← hout] at hran hsucc hrf hfail
  rw [← her] at hran hsucc hrf hfail
  cases hs : (commandPhaseT dt st lg tl cmd).out.success with
  | true =>
    rw [htl, hs, Bool.true_or, if_pos rfl, hsucc hs]
    exact ⟨cns, fun _ => by rw [if_pos rfl]; exact t⟩
  | false =>
    cases hr : (commandPhaseT dt st lg tl cmd).out.restoreFailed with
    | true =>
      rw [htl, hs, hr, Bool.false_or, if_pos rfl, hrf hr]
      exact ⟨cns, fun hc => by cases hc⟩
    | false =>
      rw [htl, hs, hr, Bool.false_or, if_neg (by simp), hfail hs hr, hran]
      refine ⟨consistent_restore _ _ cns, fun _ => ?_⟩
      rw [if_neg (by simp)]
      have hidx : (runSectionT dt { s := C16CmdStart st lg, tl := tl } cmd).1.s.lg.snapshotIndex = some lg.events.length := by
        rw [her]
        have := (runSection_grows (cmd.map ItemT.erase) (C16CmdStart st lg)).cfg.1
        rw [← this]
        rfl
      have hlen : tl.length = lg.events.length := consistent_length _ _ h
      have hev : (C16CmdStart st lg).lg.events = lg.events := rfl
      rw [hev] at e
      unfold restoreTopics
      rw [hidx]
      dsimp only
      rw [t, e, List.take_left' hlen, List.drop_left' hlen, List.drop_left' rfl, keepTopics_map _ _ _ f]

/-! ### the events returned -/

private theorem outT_spec : ∀ (a : List Logged) (t : TLog), C16Consistent a t →
    (List.zipWith EventT.mk (a.map (·.event)) t).map (·.event) = a.map (·.event) ∧
      (List.zipWith EventT.mk (a.map (·.event)) t).map (·.topics) = t ∧
      ∀ e ∈ List.zipWith EventT.mk (a.map (·.event)) t, e.event.ntopics = e.topics.length := by
  intro a
  induction a with
  | nil => intro t h; cases t with
    | nil => simp
    | cons _ _ => exact h.elim
  | cons e es ih => intro t h; cases t with
    | nil => exact h.elim
    | cons t ts =>
      obtain ⟨h1, h2, h3⟩ := ih ts h.2
      refine ⟨by simp [h1], by simp [h2], ?_⟩
      intro x hx
      simp only [List.map_cons, List.zipWith_cons_cons, List.mem_cons] at hx
      rcases hx with hx | hx
      · subst hx; exact h.1
      · exact h3 x hx

/-- (unrevertible?, caller topics) of the events of the response of `ExecuteTransaction`, the standard event
excepted: the events of `BeforeCommandExecute`, the events of the command — all of them when it succeeded,
the unrevertible ones when it failed —, the events of `AfterCommandExecute` -/
def C16Kept (st : St) (height : Nat) (tx : TxT) : List (Bool × List Bytes) :=
  let s0 : SecSt := { st := st, lg := newLogger height }
  let p := runSection s0 (tx.pre.map ItemT.erase)
  let c := commandPhase p.1.st p.1.lg (tx.cmd.map ItemT.erase)
  C16Emitted s0 tx.pre ++
    (if c.success = true then C16Emitted (C16CmdStart p.1.st p.1.lg) tx.cmd
      else (C16Emitted (C16CmdStart p.1.st p.1.lg) tx.cmd).filter (·.1)) ++
    C16Emitted { st := c.st, lg := c.lg } tx.post

/-! #### `Exec.executeTransaction` in the same stages as `executeTransactionT` -/

private def finishE (success : Bool) (q : SecSt × Bool) : St × Result × List Event :=
  if !q.2 then (q.1.st, .invalid, q.1.lg.out)
  else
    match add q.1.lg modName stdEventName (stdData success) 0 with
    | none => (q.1.st, .invalid, q.1.lg.out)
    | some lg' => (q.1.st, if success then .ok else .fail, lg'.out)

private def afterCommandE (post : List Item) (c : CmdOut) : St × Result × List Event :=
  if c.restoreFailed then (c.st, .invalid, c.lg.out)
  else finishE c.success (runSection { st := c.st, lg := c.lg } post)

private theorem executeTransaction_stages (st : St) (height : Nat) (tx : Tx) :
    executeTransaction st height tx =
      (let p := runSection { st := st, lg := newLogger height } tx.pre
       if !p.2 then (p.1.st, .invalid, p.1.lg.out)
       else if !tx.cmdKnown then (p.1.st, .invalid, p.1.lg.out)
       else afterCommandE tx.post (commandPhase p.1.st p.1.lg tx.cmd)) := rfl

/-- what a stage lemma says about a result `r` of the run with topics and the result `e` of the run without:
`r` shows the events of a logger `lg` with the consistent topic lists `tl`, forgetting the topics gives `e`,
and unless the result is `invalid` the topic lists are `want` -/
private def StageOk (r : St × Result × List EventT) (e : St × Result × List Event) (want : TLog) : Prop :=
  ∃ (lg : EventLogger) (tl : TLog), r.2.2 = outT lg tl ∧ C16Consistent lg.events tl ∧
    (r.1, r.2.1, lg.out) = e ∧ (r.2.1 ≠ .invalid → tl = want)

private theorem finish_spec (dt : Bytes) (success : Bool) (q : SecStT × Bool)
    (hc : C16Consistent q.1.s.lg.events q.1.tl) :
    StageOk (finishT dt success q) (finishE success (q.1.s, q.2)) (q.1.tl ++ [[dt]]) := by
  obtain ⟨x, b⟩ := q
  dsimp only at hc
  cases b with
  | false => exact ⟨x.s.lg, x.tl, rfl, hc, rfl, fun h => absurd rfl h⟩
  | true =>
    unfold finishT finishE
    simp only [Bool.not_true, Bool.false_eq_true, if_false]
    cases ha : add x.s.lg modName stdEventName (stdData success) 0 with
    | none => exact ⟨x.s.lg, x.tl, rfl, hc, rfl, fun h => absurd rfl h⟩
    | some lg' =>
      obtain ⟨e, he, _, _, _, _, hn, _, _⟩ := add_spec ha
      refine ⟨lg', x.tl ++ [[dt]], rfl, ?_, rfl, fun _ => rfl⟩
      rw [he]
      exact consistent_append _ _ _ _ hc ⟨by simpa using hn, trivial⟩

private theorem afterCommand_spec (dt : Bytes) (post : List ItemT) (c : CmdOutT)
    (hc : C16Consistent c.out.lg.events c.tl) :
    StageOk (afterCommandT dt post c) (afterCommandE (post.map ItemT.erase) c.out)
      (c.tl ++ (C16Emitted { st := c.out.st, lg := c.out.lg } post).map (C16WithDefault dt) ++ [[dt]]) := by
  unfold afterCommandT afterCommandE
  cases hrf : c.out.restoreFailed with
  | true => exact ⟨c.out.lg, c.tl, rfl, hc, rfl, fun h => absurd rfl h⟩
  | false =>
    simp only [Bool.false_eq_true, if_false]
    have e := runSectionT_erase dt post { s := { st := c.out.st, lg := c.out.lg }, tl := c.tl }
    obtain ⟨t, cns, -⟩ := runSectionT_spec dt post { s := { st := c.out.st, lg := c.out.lg }, tl := c.tl } hc
    dsimp only at e t
    have := finish_spec dt c.out.success _ cns
    rw [e.1, e.2, t] at this
    exact this

private theorem executeTransactionT_stages (st : St) (height : Nat) (dt : Bytes) (tx : TxT) :
    executeTransactionT st height dt tx =
      (let p := runSectionT dt { s := { st := st, lg := newLogger height }, tl := [] } tx.pre
       if !p.2 then (p.1.s.st, .invalid, outT p.1.s.lg p.1.tl)
       else if !tx.cmdKnown then (p.1.s.st, .invalid, outT p.1.s.lg p.1.tl)
       else afterCommandT dt tx.post (commandPhaseT dt p.1.s.st p.1.s.lg p.1.tl tx.cmd)) := rfl

private theorem etxT_master (st : St) (height : Nat) (dt : Bytes) (tx : TxT) :
    StageOk (executeTransactionT st height dt tx) (executeTransaction st height tx.erase)
      ((C16Kept st height tx).map (C16WithDefault dt) ++ [[dt]]) := by
  have e0 := runSectionT_erase dt tx.pre { s := { st := st, lg := newLogger height }, tl := [] }
  obtain ⟨t0, c0, -⟩ := runSectionT_spec dt tx.pre { s := { st := st, lg := newLogger height }, tl := [] } trivial
  dsimp only at e0 t0 c0
  rw [executeTransactionT_stages, executeTransaction_stages]
  have hpre : tx.erase.pre = tx.pre.map ItemT.erase := rfl
  have hcmd : tx.erase.cmd = tx.cmd.map ItemT.erase := rfl
  have hpost : tx.erase.post = tx.post.map ItemT.erase := rfl
  have hknown : tx.erase.cmdKnown = tx.cmdKnown := rfl
  rw [hpre, hcmd, hpost, hknown]
  dsimp only
  generalize hpT : runSectionT dt { s := { st := st, lg := newLogger height }, tl := [] } tx.pre = pT at e0 t0 c0
  generalize hpE : runSection { st := st, lg := newLogger height } (tx.pre.map ItemT.erase) = pE at e0
  obtain ⟨x, b⟩ := pT
  obtain ⟨y, b'⟩ := pE
  dsimp only at e0 t0 c0
  obtain ⟨e1, e2⟩ := e0
  subst e2
  subst e1
  cases b with
  | false => exact ⟨x.s.lg, x.tl, rfl, c0, rfl, fun h => absurd rfl h⟩
  | true =>
    simp only [Bool.not_true, Bool.false_eq_true, if_false]
    cases hk : tx.cmdKnown with
    | false => exact ⟨x.s.lg, x.tl, rfl, c0, rfl, fun h => absurd rfl h⟩
    | true =>
      simp only [Bool.not_true, Bool.false_eq_true, if_false]
      obtain ⟨cc, ct⟩ := commandPhaseT_spec dt x.s.st x.s.lg x.tl tx.cmd c0
      obtain ⟨lg, tl, h1, h2, h3, h4⟩ := afterCommand_spec dt tx.post _ cc
      refine ⟨lg, tl, h1, h2, ?_, ?_⟩
      · rw [h3]; rfl
      · intro hne
        rw [h4 hne]
        have hout : (commandPhaseT dt x.s.st x.s.lg x.tl tx.cmd).out =
            commandPhase x.s.st x.s.lg (tx.cmd.map ItemT.erase) := rfl
        have hrf : (commandPhaseT dt x.s.st x.s.lg x.tl tx.cmd).out.restoreFailed = false := by
          cases hr : (commandPhaseT dt x.s.st x.s.lg x.tl tx.cmd).out.restoreFailed with
          | false => rfl
          | true =>
            exfalso
            apply hne
            unfold afterCommandT
            rw [hr]
            rfl
        rw [ct hrf, hout, t0]
        unfold C16Kept
        dsimp only
        rw [hpE]
        simp only [List.map_append, List.append_assoc, List.nil_append]

/-! ### property theorems -/

private theorem out_eq (lg : EventLogger) (tl : TLog) :
    outT lg tl = List.zipWith EventT.mk (lg.events.map (·.event)) tl := rfl

/-- **The run with topics refines `Model/Exec.lean`**: forgetting the topic lists, `executeTransactionT` is
`Exec.executeTransaction` on the erased script — same staged store, same result code, the same events
(module, name, data, number of topics, height, index), for all scripts and all stores. Every theorem of
`Props/C16.lean` (atomicity, which events are kept, consecutive indices) holds for the run with topics. -/
theorem C16_events2_refines_exec (st : St) (height : Nat) (dt : Bytes) (tx : TxT) :
    ((executeTransactionT st height dt tx).1, (executeTransactionT st height dt tx).2.1,
      (executeTransactionT st height dt tx).2.2.map (·.event)) = executeTransaction st height tx.erase := by
  obtain ⟨lg, tl, h1, h2, h3, -⟩ := etxT_master st height dt tx
  rw [h1, out_eq, (outT_spec lg.events tl h2).1]
  exact h3

/-- **The number of topics `Model/Exec.lean` records for an event is the length of its topic list.** -/
theorem C16_event_ntopics_is_length (st : St) (height : Nat) (dt : Bytes) (tx : TxT) :
    ∀ e ∈ (executeTransactionT st height dt tx).2.2, e.event.ntopics = e.topics.length := by
  obtain ⟨lg, tl, h1, h2, -, -⟩ := etxT_master st height dt tx
  rw [h1, out_eq]
  exact (outT_spec lg.events tl h2).2.2

/-- **Event topics are exact**: for ALL scripts — any `BeforeCommandExecute` / command / `AfterCommandExecute`
code (sets, deletes, reads, checks, nested store snapshots, events with any topics, then success or failure) on
any staged store — whenever `ExecuteTransaction` answers OK or Fail, the topic lists of the events of the
response are, in order, `defaultTopic :: (the topics the caller passed for THAT event)` for the kept events
(`C16Kept`: hooks' events; the command's events, only the unrevertible ones after a failure), followed by the
standard event with the default topic alone. In particular no kept event carries a topic of a discarded or
of a later event. -/
theorem C16_event_topics_exact (st : St) (height : Nat) (dt : Bytes) (tx : TxT)
    (hres : (executeTransactionT st height dt tx).2.1 ≠ .invalid) :
    (executeTransactionT st height dt tx).2.2.map (·.topics) =
      (C16Kept st height tx).map (C16WithDefault dt) ++ [[dt]] := by
  obtain ⟨lg, tl, h1, h2, -, h4⟩ := etxT_master st height dt tx
  rw [h1, out_eq, (outT_spec lg.events tl h2).2.1]
  exact h4 hres

/-- the same event by event: the i-th event of the response has index i (`C16_event_indices_consecutive`) and
its topics are the default topic followed by the caller topics of the i-th kept event -/
theorem C16_event_topics_ith (st : St) (height : Nat) (dt : Bytes) (tx : TxT)
    (hres : (executeTransactionT st height dt tx).2.1 ≠ .invalid) (i : Nat)
    (hi : i < (C16Kept st height tx).length) :
    ((executeTransactionT st height dt tx).2.2[i]?).map (·.topics) = some (dt :: ((C16Kept st height tx)[i]).2) := by
  have h := C16_event_topics_exact st height dt tx hres
  have h2 : ((executeTransactionT st height dt tx).2.2.map (·.topics))[i]? =
      ((C16Kept st height tx).map (C16WithDefault dt) ++ [[dt]])[i]? := by rw [h]
  rw [List.getElem?_map] at h2
  rw [h2, List.getElem?_append_left (by simpa using hi), List.getElem?_map, List.getElem?_eq_getElem hi]
  rfl

/-- **A failed command** (transaction of a module without command hooks): exactly the unrevertible events of
the command remain, each with the topics it was logged with, then the standard event. -/
theorem C16_failed_command_topics (st : St) (height : Nat) (dt : Bytes) (cmd : List ItemT)
    (hfail : (executeTransactionT st height dt { cmd := cmd }).2.1 = .fail) :
    (executeTransactionT st height dt { cmd := cmd }).2.2.map (·.topics) =
      ((C16Emitted (C16CmdStart st (newLogger height)) cmd).filter (·.1)).map (C16WithDefault dt) ++ [[dt]] := by
  have hne : (executeTransactionT st height dt { cmd := cmd }).2.1 ≠ .invalid := by rw [hfail]; decide
  rw [C16_event_topics_exact st height dt _ hne]
  have href := C16_events2_refines_exec st height dt { cmd := cmd }
  have hcode : (executeTransaction st height (TxT.erase { cmd := cmd })).2.1 = .fail := by
    rw [← href]; exact hfail
  have hsucc : (commandPhase st (newLogger height) (cmd.map ItemT.erase)).success = false := by
    cases hs : (commandPhase st (newLogger height) (cmd.map ItemT.erase)).success with
    | false => rfl
    | true =>
      exfalso
      rw [executeTransaction_stages] at hcode
      have hc : (TxT.erase { cmd := cmd }).cmd = cmd.map ItemT.erase := rfl
      simp only [TxT.erase, List.map_nil, runSection, Bool.not_true, Bool.false_eq_true, if_false] at hcode
      unfold afterCommandE finishE at hcode
      simp only [runSection, Bool.not_true, Bool.false_eq_true, if_false, hs] at hcode
      split at hcode
      · cases hcode
      · split at hcode
        · cases hcode
        · simp at hcode
  unfold C16Kept
  simp only [List.map_nil, runSection, C16Emitted, List.nil_append, List.append_nil, hsucc,
    Bool.false_eq_true, if_false]

/-- **Block hooks** (`BeforeTransactionsExecute` / `AfterTransactionsExecute`): the events of the response carry
the constant topic of the hook followed by the topics the caller passed for THAT event; forgetting the topics
gives `Exec.blockHook`. -/
theorem C16_block_hook_topics_exact (a : App) (dt : Bytes) (items : List ItemT) :
    (blockHookT a dt items).1 = (blockHook a (items.map ItemT.erase)).1 ∧
      (blockHookT a dt items).2.map (·.map (·.event)) = (blockHook a (items.map ItemT.erase)).2 ∧
      ∀ c, a.ctx = some c → ∀ evs, (blockHookT a dt items).2 = some evs →
        evs.map (·.topics) =
          (C16Emitted { st := stOf a c, lg := newLogger c.height } items).map (C16WithDefault dt) := by
  unfold blockHookT blockHook
  cases hc : a.ctx with
  | none => exact ⟨rfl, rfl, fun c h => by cases h⟩
  | some c =>
    dsimp only
    have e := runSectionT_erase dt items { s := { st := stOf a c, lg := newLogger c.height }, tl := [] }
    obtain ⟨t, cns, -⟩ := runSectionT_spec dt items { s := { st := stOf a c, lg := newLogger c.height }, tl := [] } trivial
    dsimp only at e t cns
    rw [e.2]
    cases hr : (runSection { st := stOf a c, lg := newLogger c.height } (items.map ItemT.erase)).2 with
    | false =>
      simp only [Bool.false_eq_true, if_false]
      refine ⟨by rw [e.1], rfl, fun c' _ evs h => by cases h⟩
    | true =>
      simp only [if_true]
      refine ⟨by rw [e.1], ?_, ?_⟩
      · simp only [Option.map_some, out_eq, (outT_spec _ _ cns).1]
        rw [e.1]; rfl
      · intro c' hc' evs h
        simp only [Option.some.injEq] at hc' h
        subst hc' h
        rw [out_eq, (outT_spec _ _ cns).2.1, t, List.nil_append]

/-! ### non-vacuity -/

/-- an unrevertible event with topic `aa01`, a revertible one with topics `bb02`, `cc03`, then the command
fails: the kept event carries `aa01` (and not `bb02`), the standard event follows -/
example :
    (executeTransactionT { store := [] } 7 [0xdd]
        { cmd := [.ev true [[0xaa, 0x01]] [1], .ev false [[0xbb, 0x02], [0xcc, 0x03]] [2], .plain .fail] }).2 =
      (.fail,
        [⟨{ module := "scr", name := "unr", data := [1], ntopics := 2, height := 7, index := 0 },
            [[0xdd], [0xaa, 0x01]]⟩,
         ⟨{ module := "scr", name := "commandExecutionResult", data := [8, 0], ntopics := 1, height := 7, index := 1 },
            [[0xdd]]⟩]) := by
  decide

/-- the same command succeeding: both events with their own topics, then the standard event -/
example :
    ((executeTransactionT { store := [] } 7 [0xdd]
        { cmd := [.ev true [[0xaa, 0x01]] [1], .ev false [[0xbb, 0x02], [0xcc, 0x03]] [2]] }).2.2.map (·.topics)) =
      [[[0xdd], [0xaa, 0x01]], [[0xdd], [0xbb, 0x02], [0xcc, 0x03]], [[0xdd]]] := by
  decide
