/-
C14 — lock discipline of the transaction pool, on skeletons REGENERATED from the Go source.

`tools/skelgen` (group `txpool`) extracts on every check run the synchronisation skeleton of every
method of `TransactionPool` (pkg/txpool/txpool.go) and of the per-sender list `addressTransactions`
(pkg/txpool/txlist.go) into `Gen/SkeletonsTxPool.lean`: lock / unlock operations, calls of other
extracted methods, goroutine spawns, channel operations, `Wait`, accesses to the guarded fields, with
the control structure. The obligations below are evaluated on that file, so a change to the locking of
the pool (a helper that locks again, a lock taken in the other order, a lock dropped around an index,
a channel operation moved under the lock, a construct skelgen does not understand) breaks a theorem
here. This replaces the hand-extracted `fixedTable` of `Model/TxPool.lean` as the tie to the source;
`C14_no_reentrant_lock` / `C14_original_self_deadlock` (Props/C14.lean) stay as the hand-table
counterexample for the original code.

Criteria (Model/Locks.lean, computed by the abstract interpreter `an` with calls inlined through the
regenerated table; sound for all paths by Lemmas/LocksSound.lean):
  (1) `noReentrantAcquire`  no mutex is acquired (Lock or RLock) while the goroutine already holds it;
  (2) `lockOrderOk`         acquisitions follow the order TransactionPool.mutex < addressTransactions.mutex;
  (3) `noBlockingInCS`      no channel operation / `Wait` while a mutex is held;
  (4) `locksetOk`           allTransactions / perAccount / feePriorityQueue are read under the pool
                            mutex and written under its write lock; a list's transactions / processables
                            are accessed under the list mutex;
  `wellFormed`              no unknown construct, releases match, loops are lock-balanced, every
                            function and every spawned goroutine ends holding nothing.
All sender lists share one skeleton mutex name, so (1)/(2) also forbid holding two list mutexes at
once (stronger than needed). `addressTransactions.nonces` is not in the guard table: `Size()` reads it
without the list mutex (its writers hold the pool write lock *and* the list mutex, its readers one of
the two — not expressible as a single guard).

Calls that LEAVE the package are not dropped: skelgen (group field `external`) emits every call of a
method of the event emitter (`t.events.*`: Publish / Emit send on unbuffered subscriber channels, the
other methods wait for the emitter mutex), of the application interface `ABI` and of the network
interface `p2pConnection` as `blockingCall "Type.method"` — a possibly blocking operation, exactly
like a channel operation for criterion (3). On the CURRENT source criterion (3) does not hold as such:
`Add` calls `ABI.VerifyTransaction` (through `verifyTransactions`) and `p2pConnection.Publish` with the
pool write lock held (`C14_gen_blocking_calls_under_pool_lock` — the precise set, visible as a fact).
Criterion (3) is therefore stated with exactly these two exceptions (`blockingOnly`): any OTHER possibly
blocking operation reached with the pool mutex held — `EventEmitter.Publish` moved into `Add`, a channel
send, a `Wait` — and any blocking operation at all under a list mutex breaks
`C14_gen_no_blocking_under_lock` / `C14_gen_blocking_calls_under_pool_lock`. Deadlock freedom is proved
for the table in which the two operations are ordinary calls that return (`cfgE`), as for
`Peer.Disconnect` in C17.
-/
import LiskVerif.Props.C20
import LiskVerif.Gen.SkeletonsTxPool

open LiskVerif LiskVerif.Locks

namespace C14Locks

/-- configuration regenerated from the source: call table, guards, lock order -/
def cfg : Cfg := ⟨Gen.SkeletonsTxPool.table, Gen.SkeletonsTxPool.guards, Gen.SkeletonsTxPool.lockOrder⟩

/-- the regenerated entry points (name, skeleton): every method except the "caller holds the lock" helpers -/
def entryTable : Table :=
  Gen.SkeletonsTxPool.table.filter (fun e => Gen.SkeletonsTxPool.entries.contains e.1)

/-- the methods the property names must be present in the regenerated table (a rename must not make
the quantified obligations vacuous) -/
def required : List String :=
  ["TransactionPool.Add", "TransactionPool.Remove", "TransactionPool.remove", "TransactionPool.Get",
   "TransactionPool.GetAll", "TransactionPool.GetProcessable", "TransactionPool.reorg",
   "TransactionPool.Start", "TransactionPool.onTransactionAnnoucement",
   "TransactionPool.HandleRPCEndpointGetTransaction",
   "addressTransactions.Get", "addressTransactions.GetProcessables", "addressTransactions.GetUnprocessables",
   "addressTransactions.Add", "addressTransactions.Remove", "addressTransactions.Promote",
   "addressTransactions.GetPromotable"]

def poolMu : String := "TransactionPool.mutex"
def listMu : String := "addressTransactions.mutex"
/-- the call into the application (`t.abi.VerifyTransaction`, interface `ABI`) -/
def abiVerify : String := "ABI.VerifyTransaction"
/-- the gossip announcement (`t.conn.Publish`, interface `p2pConnection`) -/
def connPublish : String := "p2pConnection.Publish"

/-- the operations outside the package that the CURRENT source calls with the pool write lock held -/
def underPoolLock : List String := [abiVerify, connPublish]

/-- the regenerated configuration in which these two operations are ordinary calls that return -/
def cfgE : Cfg :=
  ⟨Gen.SkeletonsTxPool.table.eraseBlockingCalls underPoolLock, Gen.SkeletonsTxPool.guards, Gen.SkeletonsTxPool.lockOrder⟩

def entryTableE : Table := cfgE.tbl.filter (fun e => Gen.SkeletonsTxPool.entries.contains e.1)

/-- one skeleton with the two operations erased -/
def erased (s : Skel) : Skel := Locks.eraseBlockingCalls underPoolLock 200 s

/-- the entry points that reach `Add` (and with it the two operations under the pool lock) -/
def reachAdd : List String := ["TransactionPool.Add", "TransactionPool.onTransactionAnnoucement"]

/-- every possibly blocking operation (channel operation, `Wait`, `blockingCall`) the analysis sees
with a non-empty lock set, together with that lock set — calls inlined, spawned goroutines included -/
def blockedUnder (c : Cfg) (s : Skel) : List (String × Held) :=
  match analyse c.tbl fuelDefault s with
  | none => [("analysis failed", [])]
  | some (obs, _) => obs.foldl (fun acc o =>
      match o with
      | (h, .block w) => if h.isEmpty then acc else insertD (w, h) acc
      | _ => acc) []

/-- what `Add` does under the pool write lock on the current source -/
def addBlockedUnder : List (String × Held) :=
  [(abiVerify, [(poolMu, Mode.W)]), (connPublish, [(poolMu, Mode.W)])]

/-- some possibly blocking operation named `w` occurs in the skeleton (syntactic, nested) -/
def mentionsBlocking (w : String) : Nat → List Act → Bool
  | 0, _ => false
  | _ + 1, [] => false
  | n + 1, a :: k =>
    (match a with
     | .blockingCall f => f == w
     | .go b => mentionsBlocking w n b
     | .loop b => mentionsBlocking w n b
     | .choice alts => alts.any (mentionsBlocking w n)
     | _ => false) || mentionsBlocking w n k

/-- number of lock acquisitions in a skeleton (syntactic, nested) -/
def countAcq : Nat → List Act → Nat
  | 0, _ => 0
  | _ + 1, [] => 0
  | n + 1, a :: k =>
    (match a with
     | .lock _ => 1
     | .rlock _ => 1
     | .go b => countAcq n b
     | .loop b => countAcq n b
     | .choice alts => (alts.map (countAcq n)).sum
     | _ => 0) + countAcq n k

end C14Locks

/-! ## obligations over the regenerated skeletons -/

/-- **(1) no re-entrant acquisition**: no txpool entry point, with its calls inlined to any depth and
including the goroutines it spawns, acquires `TransactionPool.mutex` (in either mode) or a list mutex
while already holding it. This is the property the original `Add → evictUnprocessable → RLock` /
`→ remove → Lock` chain violated. -/
theorem C14_gen_no_reentrant_lock :
    C14Locks.entryTable.all (fun e => noReentrantAcquire C14Locks.cfg e.2) = true := by
  decide +kernel

/-- **(2) lock order**: the pool mutex is never acquired while a list mutex is held. -/
theorem C14_gen_lock_order :
    Gen.SkeletonsTxPool.lockOrder = ["TransactionPool.mutex", "addressTransactions.mutex"] ∧
    C14Locks.entryTable.all (fun e => lockOrderOk C14Locks.cfg e.2) = true := by
  refine ⟨rfl, ?_⟩
  decide +kernel

/-- **all criteria on every regenerated entry point** — quantified over the regenerated table, so a
method added to `TransactionPool` / `addressTransactions` is covered automatically. Criteria (1), (2),
(4) and well-formedness hold on the table as regenerated; criterion (3) holds with
`ABI.VerifyTransaction` / `p2pConnection.Publish` taken as calls that return (`cfgE`), and on the
table as regenerated these two under the pool mutex are the only exceptions to it. -/
theorem C14_gen_all_entries_ok :
    C14Locks.entryTableE.all (fun e => criteria C14Locks.cfgE e.2) = true ∧
    C14Locks.entryTableE.map (·.1) = Gen.SkeletonsTxPool.entries ∧
    C14Locks.entryTable.all (fun e =>
      wellFormed C14Locks.cfg e.2 && noReentrantAcquire C14Locks.cfg e.2 && lockOrderOk C14Locks.cfg e.2
        && locksetOk C14Locks.cfg e.2
        && blockingOnly C14Locks.cfg C14Locks.underPoolLock [C14Locks.poolMu] e.2) = true := by
  refine ⟨?_, ?_, ?_⟩ <;> decide +kernel

/-- the quantification is not vacuous: every method the property names is a regenerated entry point,
and the helpers documented "the caller must hold t.mutex" are in the call table (inlined) -/
theorem C14_gen_required_methods_present :
    C14Locks.required.all (fun f => (C14Locks.entryTable.find f).isSome) = true ∧
    ["TransactionPool.removeLocked", "TransactionPool.evictUnprocessable", "TransactionPool.evictProcessable",
     "TransactionPool.rebuildFeePriorityQueue", "addressTransactions.remove"].all
      (fun f => (Gen.SkeletonsTxPool.table.find f).isSome && !Gen.SkeletonsTxPool.entries.contains f) = true := by
  decide

/-- no configured function contains a construct the extractor does not understand, and every one
(with the goroutines it spawns) ends holding no lock -/
theorem C14_gen_no_unknown_construct :
    C14Locks.entryTable.all (fun e => wellFormed C14Locks.cfg e.2) = true := by
  decide +kernel

/-- **(3) no possibly blocking operation inside a critical section**, except the two calls `Add`
makes on the current source: in every regenerated entry point a channel operation, a `Wait` or a call
of a possibly blocking operation outside the package (any method of the event emitter, of `ABI`, of
`p2pConnection`) happens with NO lock held, or it is `ABI.VerifyTransaction` / `p2pConnection.Publish`
and exactly the pool mutex is held; nothing possibly blocking ever happens under a list mutex; every
entry point that does not reach `Add` satisfies criterion (3) without exception — in particular
`reorg` waits for its workers and calls the verifier only after releasing the read lock, `Start`
receives from the ticker holding nothing, and `onTransactionAnnoucement` publishes `EventTransactionNew`
to the subscribers AFTER `Add` has returned (`EventEmitter.Publish` sends on unbuffered channels: under
the pool lock a subscriber that calls the pool, or that stopped receiving, would block the pool for ever). -/
theorem C14_gen_no_blocking_under_lock :
    C14Locks.entryTable.all (fun e =>
      blockingOnly C14Locks.cfg C14Locks.underPoolLock [C14Locks.poolMu] e.2) = true ∧
    C14Locks.entryTable.all (fun e => noBlockingHolding C14Locks.cfg C14Locks.listMu e.2) = true ∧
    C14Locks.entryTable.all (fun e =>
      C14Locks.reachAdd.contains e.1 || noBlockingInCS C14Locks.cfg e.2) = true ∧
    C14Locks.entryTableE.all (fun e => noBlockingInCS C14Locks.cfgE e.2) = true := by
  refine ⟨?_, ?_, ?_, ?_⟩ <;> decide +kernel

/-- **FACT (visible, candidate finding): what `Add` calls with the pool write lock held.**
On the CURRENT source the set of possibly blocking operations the analysis sees inside a critical
section of `TransactionPool.Add` (calls inlined) is EXACTLY
  * `ABI.VerifyTransaction` (`verifyTransactions` → `t.abi.VerifyTransaction`, a call into the
    application) with exactly the pool mutex held for writing, and
  * `p2pConnection.Publish` (`t.conn.Publish(t.ctx, …)`, the gossip announcement) likewise;
the only other entry point with any such operation is `onTransactionAnnoucement`, through its call of
`Add`; every other entry point has none. While either call runs, every other pool operation (`Get*`,
`Remove`, the `reorg` round) waits: the pool is live only as long as the application answers and the
p2p layer's `Publish` returns (stated as an assumption of `C14_gen_deadlock_free`). Criterion (3) as
such is false for `Add`; `verifyTransactions` has a path calling the application and `Add` itself
contains the `Publish` call. The emitter's `Publish` is NOT in the set: `onTransactionAnnoucement` calls it holding nothing.
(This theorem breaks when the set changes in either direction — a new blocking call under the pool
lock, or one of the two moved out of the critical section; in the second case shrink `underPoolLock`.) -/
theorem C14_gen_blocking_calls_under_pool_lock :
    C14Locks.blockedUnder C14Locks.cfg Gen.SkeletonsTxPool.TransactionPool_Add = C14Locks.addBlockedUnder ∧
    C14Locks.blockedUnder C14Locks.cfg Gen.SkeletonsTxPool.TransactionPool_onTransactionAnnoucement
      = C14Locks.addBlockedUnder ∧
    C14Locks.entryTable.all (fun e =>
      C14Locks.reachAdd.contains e.1 || (C14Locks.blockedUnder C14Locks.cfg e.2).isEmpty) = true ∧
    noBlockingInCS C14Locks.cfg Gen.SkeletonsTxPool.TransactionPool_Add = false ∧
    (∃ p ∈ bodyPaths Gen.SkeletonsTxPool.table 1 40 Gen.SkeletonsTxPool.TransactionPool_verifyTransactions,
      p.contains (Prim.block C14Locks.abiVerify) = true) ∧
    C14Locks.mentionsBlocking C14Locks.connPublish 50 Gen.SkeletonsTxPool.TransactionPool_Add = true ∧
    C14Locks.mentionsBlocking "EventEmitter.Publish" 50
      Gen.SkeletonsTxPool.TransactionPool_onTransactionAnnoucement = true ∧
    C14Locks.mentionsBlocking "EventEmitter.Publish" 50 Gen.SkeletonsTxPool.TransactionPool_Add = false := by
  refine ⟨?_, ?_, ?_, ?_, ?_, ?_, ?_, ?_⟩ <;> decide +kernel

-- the individual methods named by the property (a failing one is reported by name)
theorem C14_gen_add_ok :
    criteria C14Locks.cfgE (C14Locks.erased Gen.SkeletonsTxPool.TransactionPool_Add) = true ∧
    blockingOnly C14Locks.cfg C14Locks.underPoolLock [C14Locks.poolMu]
      Gen.SkeletonsTxPool.TransactionPool_Add = true := by decide +kernel
theorem C14_gen_remove_ok :
    criteria C14Locks.cfg Gen.SkeletonsTxPool.TransactionPool_Remove = true ∧
    criteria C14Locks.cfg Gen.SkeletonsTxPool.TransactionPool_remove = true := by decide
theorem C14_gen_getters_ok :
    [Gen.SkeletonsTxPool.TransactionPool_Get, Gen.SkeletonsTxPool.TransactionPool_GetAll,
     Gen.SkeletonsTxPool.TransactionPool_GetProcessable,
     Gen.SkeletonsTxPool.TransactionPool_HandleRPCEndpointGetTransaction].all (criteria C14Locks.cfg) = true := by
  decide
theorem C14_gen_reorg_ok :
    criteria C14Locks.cfg Gen.SkeletonsTxPool.TransactionPool_reorg = true ∧
    criteria C14Locks.cfg Gen.SkeletonsTxPool.TransactionPool_Start = true := by decide
theorem C14_gen_announcement_ok :
    criteria C14Locks.cfgE (C14Locks.erased Gen.SkeletonsTxPool.TransactionPool_onTransactionAnnoucement) = true ∧
    blockingOnly C14Locks.cfg C14Locks.underPoolLock [C14Locks.poolMu]
      Gen.SkeletonsTxPool.TransactionPool_onTransactionAnnoucement = true := by decide +kernel
theorem C14_gen_txlist_ok :
    [Gen.SkeletonsTxPool.addressTransactions_Get, Gen.SkeletonsTxPool.addressTransactions_Size,
     Gen.SkeletonsTxPool.addressTransactions_GetProcessables,
     Gen.SkeletonsTxPool.addressTransactions_GetUnprocessables, Gen.SkeletonsTxPool.addressTransactions_Add,
     Gen.SkeletonsTxPool.addressTransactions_Remove, Gen.SkeletonsTxPool.addressTransactions_Promote,
     Gen.SkeletonsTxPool.addressTransactions_GetPromotable].all (criteria C14Locks.cfg) = true := by
  decide

/-- the helpers called with the pool write lock held take no pool lock themselves (the fix of the
self-deadlock), and `Add` / `remove` take it exactly once -/
theorem C14_gen_locked_helpers_take_no_pool_lock :
    [Gen.SkeletonsTxPool.TransactionPool_removeLocked, Gen.SkeletonsTxPool.TransactionPool_evictUnprocessable,
     Gen.SkeletonsTxPool.TransactionPool_evictProcessable,
     Gen.SkeletonsTxPool.TransactionPool_rebuildFeePriorityQueue].all (fun s => C14Locks.countAcq 50 s == 0) = true ∧
    C14Locks.countAcq 50 Gen.SkeletonsTxPool.TransactionPool_Add = 1 ∧
    C14Locks.countAcq 50 Gen.SkeletonsTxPool.TransactionPool_remove = 1 := by
  decide

/-! ## deadlock and race freedom for any number of goroutines -/

/-- **Deadlock freedom of the pool** (instance of `C20_criteria_imply_deadlock_free`),
`ABI.VerifyTransaction` and `p2pConnection.Publish` being calls that return: any number of
goroutines, each running a path of a regenerated txpool entry point (calls inlined to any depth, loops
iterated up to any bound `u`) or of a goroutine spawned by one (the `reorg` workers), under any
schedule and Go `sync.RWMutex` semantics with writer preference: every reachable state either lets some
thread take a step that needs no communication partner, or has every thread finished or parked at a
communication (ticker / `Wait` / a call of the emitter, the application or the network) holding no lock
and requesting none; no reachable state is deadlocked. -/
theorem C14_gen_deadlock_free (u : Nat) (ps : List Path)
    (hps : ∀ p ∈ ps, ∃ e ∈ C14Locks.entryTableE, IsThreadPath C14Locks.cfgE.tbl u e.2 p)
    (st : State) (hr : Reachable (initState ps) st) :
    deadlocked st = false ∧ (quiescent st = true ∨ ∃ i, canStepInternal st i = true) := by
  have hall := C14_gen_all_entries_ok.1
  simp only [List.all_eq_true] at hall
  have hprog := C20_criteria_imply_deadlock_free C14Locks.cfgE u (C14Locks.entryTableE.map (·.2))
    (by
      intro s hs
      obtain ⟨e, he, rfl⟩ := List.mem_map.mp hs
      have hc := hall e he
      simp only [criteria, Bool.and_eq_true] at hc
      exact hc.1)
    ps
    (by
      intro p hp
      obtain ⟨e, he, hpath⟩ := hps p hp
      exact ⟨e.2, List.mem_map.mpr ⟨e, he, rfl⟩, hpath⟩)
    st hr
  exact ⟨C20.no_deadlocked_of_progress st hprog, hprog⟩

/-- **Race freedom on the pool indexes** (instance of `C20_lockset_implies_race_free`): under the same
hypotheses no two goroutines are ever simultaneously about to perform conflicting accesses to
`allTransactions`, `perAccount`, `feePriorityQueue` or to a list's `transactions` / `processables`. -/
theorem C14_gen_race_free (u : Nat) (ps : List Path)
    (hps : ∀ p ∈ ps, ∃ e ∈ C14Locks.entryTableE, IsThreadPath C14Locks.cfgE.tbl u e.2 p)
    (st : State) (hr : Reachable (initState ps) st) (i j : Nat) : raceAt st i j = false := by
  have hall := C14_gen_all_entries_ok.1
  simp only [List.all_eq_true] at hall
  apply C20_lockset_implies_race_free C14Locks.cfgE u (C14Locks.entryTableE.map (·.2)) _ ps _ st hr
  · intro s hs
    obtain ⟨e, he, rfl⟩ := List.mem_map.mp hs
    have hc := hall e he
    simp only [criteria, deadlockCriteria, Bool.and_eq_true] at hc
    exact ⟨hc.1.1.1.1, hc.2⟩
  · intro p hp
    obtain ⟨e, he, hpath⟩ := hps p hp
    exact ⟨e.2, List.mem_map.mpr ⟨e, he, rfl⟩, hpath⟩

/-! ## a subscriber notification under the pool lock (the class of change criterion (3) excludes) -/

namespace C14Locks.Notify

/-- `Add` publishing `EventTransactionNew` itself, before its deferred unlock runs (what skelgen emits
when `t.events.Publish(...)` is moved from `onTransactionAnnoucement` into `Add`): the regenerated
skeleton of `Add` with the emitter call placed before the final `return` -/
def add : Skel :=
  Gen.SkeletonsTxPool.TransactionPool_Add.dropLast ++ [.blockingCall "EventEmitter.Publish", .ret]

def table : Table := ("TransactionPool.Add", add) :: Gen.SkeletonsTxPool.table
def cfg : Cfg := ⟨table, Gen.SkeletonsTxPool.guards, Gen.SkeletonsTxPool.lockOrder⟩

/-- the publishing `Add`: write lock, the emitter's send to the subscriber, unlock -/
def addPath : Path := [.acq poolMu, .block "EventEmitter.Publish", .rel poolMu]
/-- the subscriber's handler calls `pool.Get` before it receives the next event -/
def subscriberPath : Path := [.racq poolMu, .rrel poolMu, .block "subscriber receives"]

end C14Locks.Notify

/-- such an `Add` is rejected by the obligation above: `EventEmitter.Publish` is reached with the pool
write lock held and is not one of the two admitted operations, for `Add` and for every caller of it
(the regenerated `Add` passes the same check) -/
theorem C14_gen_notify_under_lock_rejected :
    blockingOnly C14Locks.Notify.cfg C14Locks.underPoolLock [C14Locks.poolMu] C14Locks.Notify.add = false ∧
    blockingOnly C14Locks.Notify.cfg C14Locks.underPoolLock [C14Locks.poolMu]
      Gen.SkeletonsTxPool.TransactionPool_onTransactionAnnoucement = false ∧
    (C14Locks.blockedUnder C14Locks.Notify.cfg C14Locks.Notify.add).contains
      ("EventEmitter.Publish", [(C14Locks.poolMu, Mode.W)]) = true ∧
    blockingOnly C14Locks.cfg C14Locks.underPoolLock [C14Locks.poolMu]
      Gen.SkeletonsTxPool.TransactionPool_Add = true := by
  refine ⟨?_, ?_, ?_, ?_⟩ <;> decide +kernel

/-- … and it does block the pool: `Add` holds the write lock and waits for the subscriber to receive,
the subscriber's handler waits for the read lock (`pool.Get`) before it receives again — a reachable
state in which no goroutine can take a step on its own, although neither is finished nor parked
outside a critical section (the state the deadlock-freedom theorem excludes) -/
theorem C14_gen_notify_under_lock_blocks_pool :
    ∃ st, run (initState [C14Locks.Notify.addPath, C14Locks.Notify.subscriberPath]) [0, 0] = some st ∧
      quiescent st = false ∧ (List.range st.length).all (fun i => !canStepInternal st i) = true := by
  refine ⟨_, rfl, ?_, ?_⟩ <;> decide

/-! ## the original code in the same skeleton language (counterexample) -/

namespace C14Locks.Orig

/-- `evictUnprocessable` before the fix (pkg/txpool/txpool.go at fbd875b^): called by `Add` with the
write lock held, it read-locks the pool mutex and then calls the locking `remove` -/
def evictUnprocessable : Skel :=
  [.rlock "TransactionPool.mutex",
   .read "TransactionPool.perAccount",
   .loop [.call "addressTransactions.GetUnprocessables"],
   .runlock "TransactionPool.mutex",
   .choice [[.ret], []],
   .call "TransactionPool.remove",
   .ret]

def evictProcessable : Skel :=
  [.rlock "TransactionPool.mutex",
   .read "TransactionPool.perAccount",
   .loop [.call "addressTransactions.GetProcessables"],
   .runlock "TransactionPool.mutex",
   .choice [[.ret], []],
   .call "TransactionPool.remove",
   .ret]

/-- the original `remove`: locks and does the work itself -/
def remove : Skel :=
  [.lock "TransactionPool.mutex",
   .deferUnlock "TransactionPool.mutex",
   .read "TransactionPool.allTransactions",
   .choice [[.ret], []],
   .read "TransactionPool.allTransactions",
   .del "TransactionPool.allTransactions",
   .read "TransactionPool.perAccount",
   .call "addressTransactions.Remove",
   .call "addressTransactions.Size",
   .choice [[.read "TransactionPool.perAccount", .del "TransactionPool.perAccount"], []],
   .read "TransactionPool.allTransactions",
   .write "TransactionPool.feePriorityQueue",
   .ret]

/-- the original table: the three functions above shadow the regenerated ones (`Table.find` returns
the first match); `Add` itself had the same lock skeleton as today -/
def table : Table :=
  [("TransactionPool.evictUnprocessable", evictUnprocessable),
   ("TransactionPool.evictProcessable", evictProcessable),
   ("TransactionPool.remove", remove)] ++ Gen.SkeletonsTxPool.table

def cfg : Cfg := ⟨table, Gen.SkeletonsTxPool.guards, Gen.SkeletonsTxPool.lockOrder⟩

/-- `Add` on a full pool in the original code: Lock, then RLock of the same mutex -/
def addPath : Path :=
  [.acq "TransactionPool.mutex", .read "TransactionPool.allTransactions", .read "TransactionPool.feePriorityQueue",
   .read "TransactionPool.allTransactions", .read "TransactionPool.allTransactions",
   .racq "TransactionPool.mutex"]

end C14Locks.Orig

/-- the original `Add` violates criterion (1) — the write lock is held when `evictUnprocessable`
read-locks and `remove` locks the same mutex — while the functions that do not go through the evict
helpers pass; the same check on the regenerated (fixed) skeleton of `Add` passes -/
theorem C14_gen_original_add_reenters :
    noReentrantAcquire C14Locks.Orig.cfg Gen.SkeletonsTxPool.TransactionPool_Add = false ∧
    noReentrantAcquire C14Locks.Orig.cfg C14Locks.Orig.remove = true ∧
    noReentrantAcquire C14Locks.Orig.cfg Gen.SkeletonsTxPool.TransactionPool_reorg = true ∧
    noReentrantAcquire C14Locks.cfg Gen.SkeletonsTxPool.TransactionPool_Add = true := by
  decide

/-- … and a single goroutine running that `Add` gets stuck: after `Lock()` it reaches `RLock()` of the
mutex it holds exclusively and can never step again (self-deadlock, no second goroutine needed) -/
theorem C14_gen_original_add_self_deadlock :
    ∃ st, run (initState [C14Locks.Orig.addPath]) [0, 0, 0, 0, 0, 0] = some st ∧ deadlocked st = true := by
  refine ⟨_, rfl, ?_⟩
  decide

/-! ## non-vacuity -/

/-- the hypotheses of `C14_gen_deadlock_free` are satisfiable: concrete complete paths of the
regenerated `Add` and `Get`, and of a `reorg` worker goroutine -/
example :
    (∃ p ∈ bodyPaths Gen.SkeletonsTxPool.table 1 60 Gen.SkeletonsTxPool.TransactionPool_Add,
      p.contains (.acq "addressTransactions.mutex") = true) ∧
    (∃ p ∈ bodyPaths Gen.SkeletonsTxPool.table 0 20 Gen.SkeletonsTxPool.TransactionPool_Get,
      p.contains (.racq "TransactionPool.mutex") = true ∧ p.contains (.rrel "TransactionPool.mutex") = true) := by
  decide +kernel

example : ∃ b p, Spawned Gen.SkeletonsTxPool.table 1 Gen.SkeletonsTxPool.TransactionPool_reorg b ∧
    p ∈ bodyPaths Gen.SkeletonsTxPool.table 1 40 b ∧ p ≠ [] := by
  have h : ∃ run ∈ den Gen.SkeletonsTxPool.table 1 40 Gen.SkeletonsTxPool.TransactionPool_reorg,
      ∃ b ∈ run.spawns, ∃ p ∈ bodyPaths Gen.SkeletonsTxPool.table 1 40 b, p ≠ [] := by decide +kernel
  obtain ⟨run, hrun, b, hb, p, hp, hne⟩ := h
  exact ⟨b, p, Spawned.direct hrun hb, hp, hne⟩

/-- two goroutines in the fixed `remove` interleave and finish -/
example :
    let p : Path := [.acq "TransactionPool.mutex", .rel "TransactionPool.mutex"]
    ∃ st, run (initState [p, p]) [0, 1, 0, 0, 1, 1] = some st ∧ st.all finished = true := by
  refine ⟨_, rfl, ?_⟩
  decide
