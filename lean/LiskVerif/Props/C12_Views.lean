/-
C12 — snapshots taken, restored and deleted THROUGH prefix views (Model/DiffDBViews.lean).

"restoring a snapshot returns exactly the staged state at the time of the snapshot … for all interleavings of
set/del/get/range/iterate/snapshot/restore over several prefix views".

* `C12_views_restore_exact`      — a snapshot taken through any view handle and restored through it after ANY
  sequence of reads, writes, snapshots, restores and deletions through any handles (root included) that does not
  restore or delete THAT snapshot puts back exactly the overlay of the time of the snapshot; the persisted store
  is untouched by every such operation, so every read (a function of store and overlay) returns what it returned
  then — through every handle, because there is one overlay (fix 5a39fd4: restored in place).
* `C12_views_ids_fresh`          — ids handed out through one handle are never reused while held.
* `C12_views_tables_independent` — snapshot operations through one handle leave the tables of the others alone
  (equal ids coexist).
* `C12_views_shared_table_loses_snapshot` — the variant with ONE table shared by all handles and a counter per
  handle (struct copy in `WithPrefix`, seeded change C12-19): a view snapshot overwrites the root snapshot of the
  same id and the root's restore returns a LATER state.
-/
import LiskVerif.Model.DiffDBViews
import LiskVerif.Props.C12_More

open LiskVerif LiskVerif.DiffDB

namespace LiskVerif.DiffDB

/-- ids in the view tables are below the handle's counter -/
def VInv (v : VSt) : Prop := ∀ e ∈ v.vsnaps, e.1.2 < vcount v.vcounts e.1.1

theorem findV_filter_ne (l : List ((Bytes × Nat) × Cache)) (k k' : Bytes × Nat) (h : k' ≠ k) :
    findV (l.filter (fun e => e.1 ≠ k')) k = findV l k := by
  induction l with
  | nil => rfl
  | cons e r ih =>
    obtain ⟨ek, ec⟩ := e
    rw [List.filter_cons]
    by_cases he : ek = k'
    · have hne : ek ≠ k := by rw [he]; exact h
      have hd : decide ((ek, ec).1 ≠ k') = false := by simp [he]
      rw [hd]
      simp only [Bool.false_eq_true, if_false]
      rw [ih]
      simp [findV, hne]
    · have hd : decide ((ek, ec).1 ≠ k') = true := by simp [he]
      rw [hd]
      simp only [if_true]
      by_cases hk : ek = k
      · simp [findV, hk]
      · simp only [findV, hk, if_false]
        exact ih

theorem findV_none_of_not_mem (l : List ((Bytes × Nat) × Cache)) (k : Bytes × Nat)
    (h : ∀ e ∈ l, e.1 ≠ k) : findV l k = none := by
  induction l with
  | nil => rfl
  | cons e r ih =>
    have he : e.1 ≠ k := h e (by simp)
    simp [findV, he]
    exact ih (fun e' he' => h e' (by simp [he']))

theorem vcount_cons_self (l : List (Bytes × Nat)) (p : Bytes) (n : Nat) : vcount ((p, n) :: l) p = n := by
  simp [vcount]

theorem vcount_cons_ne (l : List (Bytes × Nat)) (p q : Bytes) (n : Nat) (h : q ≠ p) :
    vcount ((q, n) :: l) p = vcount l p := by
  simp [vcount, h]

theorem VInv_vstep (v : VSt) (o : VOp) (h : VInv v) : VInv (vstep v o) := by
  cases o with
  | base o => exact h
  | vsnap p =>
    unfold vstep vsnapshot
    by_cases hp : p = []
    · simp [hp]; exact h
    · simp only [hp, if_false]
      intro e he
      simp only [List.mem_cons] at he
      rcases he with rfl | he
      · simp [vcount]
      · have := h e he
        by_cases hq : e.1.1 = p
        · rw [hq] at this ⊢; simp [vcount]; omega
        · have hq' : p ≠ e.1.1 := fun x => hq x.symm
          simp [vcount, hq']; exact this
  | vrestore p id =>
    unfold vstep vrestore
    by_cases hp : p = []
    · simp [hp]; exact h
    · simp only [hp, if_false]
      cases hf : findV v.vsnaps (p, id) with
      | none => exact h
      | some c =>
        intro e he
        simp only [List.mem_filter] at he
        exact h e he.1
  | vdelete p id =>
    unfold vstep vdelete
    by_cases hp : p = []
    · simp [hp]; exact h
    · simp only [hp, if_false]
      intro e he
      simp only [List.mem_filter] at he
      exact h e he.1

/-- one step keeps the entry of a view snapshot it does not touch, and the persisted store -/
theorem vstep_keeps (v : VSt) (o : VOp) (p : Bytes) (id : Nat) (c : Cache) (hp : p ≠ [])
    (hinv : VInv v) (hid : id < vcount v.vcounts p)
    (hf : findV v.vsnaps (p, id) = some c) (ht : o.touches p id = false) :
    findV (vstep v o).vsnaps (p, id) = some c ∧ id < vcount (vstep v o).vcounts p := by
  cases o with
  | base o => exact ⟨hf, hid⟩
  | vsnap q =>
    unfold vstep vsnapshot
    by_cases hq : q = []
    · simp [hq]; exact ⟨hf, hid⟩
    · simp only [hq, if_false]
      by_cases hqp : q = p
      · subst hqp
        have hne : (q, vcount v.vcounts q) ≠ (q, id) := by
          intro h; injection h with _ h2; omega
        constructor
        · simp [findV, hne, hf]
        · simp [vcount]; omega
      · have hne : (q, vcount v.vcounts q) ≠ (p, id) := by
          intro h; injection h with h1 _; exact hqp h1
        constructor
        · simp [findV, hne, hf]
        · simp [vcount, hqp]; exact hid
  | vrestore q j =>
    unfold vstep vrestore
    by_cases hq : q = []
    · simp [hq]; exact ⟨hf, hid⟩
    · simp only [hq, if_false]
      cases hfq : findV v.vsnaps (q, j) with
      | none => exact ⟨hf, hid⟩
      | some c' =>
        have hne : (q, j) ≠ (p, id) := by
          intro h; injection h with h1 h2
          simp [VOp.touches, h1, h2] at ht
        exact ⟨by rw [findV_filter_ne _ _ _ hne]; exact hf, hid⟩
  | vdelete q j =>
    unfold vstep vdelete
    by_cases hq : q = []
    · simp [hq]; exact ⟨hf, hid⟩
    · simp only [hq, if_false]
      have hne : (q, j) ≠ (p, id) := by
        intro h; injection h with h1 h2
        simp [VOp.touches, h1, h2] at ht
      exact ⟨by rw [findV_filter_ne _ _ _ hne]; exact hf, hid⟩

theorem vrun_keeps (ops : List VOp) : ∀ (v : VSt) (p : Bytes) (id : Nat) (c : Cache), p ≠ [] → VInv v →
    id < vcount v.vcounts p → findV v.vsnaps (p, id) = some c →
    (∀ o ∈ ops, o.touches p id = false) →
    findV (vrun v ops).vsnaps (p, id) = some c := by
  induction ops with
  | nil => intro v p id c _ _ _ hf _; exact hf
  | cons o r ih =>
    intro v p id c hp hinv hid hf ht
    have h1 := vstep_keeps v o p id c hp hinv hid hf (ht o (by simp))
    have := ih (vstep v o) p id c hp (VInv_vstep v o hinv) h1.2 h1.1 (fun o' ho' => ht o' (by simp [ho']))
    simpa [vrun] using this

theorem vstep_store (v : VSt) (o : VOp) : (vstep v o).st.store = v.st.store := by
  cases o with
  | base o => exact C12_store_untouched v.st [o]
  | vsnap p =>
    unfold vstep vsnapshot
    by_cases hp : p = []
    · simp [hp, snapshot]
    · simp [hp]
  | vrestore p id =>
    unfold vstep vrestore
    by_cases hp : p = []
    · simp only [hp, if_true]; exact C12_store_untouched v.st [Op.restore id]
    · simp only [hp, if_false]
      cases findV v.vsnaps (p, id) <;> rfl
  | vdelete p id =>
    unfold vstep vdelete
    by_cases hp : p = []
    · simp [hp, deleteSnapshot]
    · simp [hp]

theorem vrun_store (ops : List VOp) : ∀ v : VSt, (vrun v ops).st.store = v.st.store := by
  induction ops with
  | nil => intro v; rfl
  | cons o r ih =>
    intro v
    have := ih (vstep v o)
    simp only [vrun, List.foldl] at this ⊢
    rw [this, vstep_store]

end LiskVerif.DiffDB

/-- Restoring a view snapshot after any history that does not restore / delete that very snapshot puts back exactly
the overlay of the time of the snapshot; the persisted store is the one of that time too. -/
theorem C12_views_restore_exact (v : VSt) (p : Bytes) (ops : List VOp) (hp : p ≠ []) (hinv : VInv v)
    (ht : ∀ o ∈ ops, o.touches p (vsnapshot v p).2 = false) :
    let v1 := vrun (vsnapshot v p).1 ops
    (vrestore v1 p (vsnapshot v p).2).2 = true ∧
    (vrestore v1 p (vsnapshot v p).2).1.st.cache = v.st.cache ∧
    (vrestore v1 p (vsnapshot v p).2).1.st.store = v.st.store := by
  intro v1
  have hs : vsnapshot v p = (({ v with vsnaps := ((p, vcount v.vcounts p), v.st.cache) :: v.vsnaps,
                                       vcounts := (p, vcount v.vcounts p + 1) :: v.vcounts } : VSt),
      vcount v.vcounts p) := by
    unfold vsnapshot; simp [hp]
  have hinv1 : VInv (vsnapshot v p).1 := VInv_vstep v (.vsnap p) hinv
  have hfind : findV (vsnapshot v p).1.vsnaps (p, (vsnapshot v p).2) = some v.st.cache := by
    rw [hs]; simp [findV]
  have hid : (vsnapshot v p).2 < vcount (vsnapshot v p).1.vcounts p := by
    rw [hs]; simp [vcount]
  have hkept := vrun_keeps ops (vsnapshot v p).1 p (vsnapshot v p).2 v.st.cache hp hinv1 hid hfind ht
  have hstore : v1.st.store = v.st.store := by
    have h1 := vrun_store ops (vsnapshot v p).1
    rw [show (vsnapshot v p).1.st.store = v.st.store from by rw [hs]] at h1
    exact h1
  have hkept' : findV v1.vsnaps (p, (vsnapshot v p).2) = some v.st.cache := hkept
  unfold vrestore
  simp only [hp, if_false, hkept']
  exact ⟨trivial, trivial, hstore⟩

/-- ids handed out through one view handle are fresh: the invariant "every held id is below the counter" holds
along every history, and a new snapshot gets the counter as its id. -/
theorem C12_views_ids_fresh (ops : List VOp) (store : Store) (p : Bytes) (hp : p ≠ []) :
    let v := vrun { st := { store := store } } ops
    ∀ e ∈ v.vsnaps, e.1 ≠ (p, (vsnapshot v p).2) := by
  intro v e he
  have hinv : VInv v := by
    have : ∀ (ops : List VOp) (w : VSt), VInv w → VInv (vrun w ops) := by
      intro ops
      induction ops with
      | nil => intro w h; exact h
      | cons o r ih => intro w h; exact ih (vstep w o) (VInv_vstep w o h)
    exact this ops _ (by intro e he; simp at he)
  have hlt := hinv e he
  have hs : (vsnapshot v p).2 = vcount v.vcounts p := by unfold vsnapshot; simp [hp]
  intro heq
  rw [hs] at heq
  have h1 : e.1.1 = p := by rw [heq]
  have h2 : e.1.2 = vcount v.vcounts p := by rw [heq]
  rw [h1] at hlt
  omega

/-- Snapshot operations through one handle leave the snapshots held through another handle alone (equal ids
coexist): after a snapshot through `q ≠ p`, a snapshot held through `p` is still found, with the same content. -/
theorem C12_views_tables_independent (v : VSt) (p q : Bytes) (id : Nat) (c : Cache) (hq : q ≠ []) (hpq : q ≠ p)
    (hf : findV v.vsnaps (p, id) = some c) :
    findV (vsnapshot v q).1.vsnaps (p, id) = some c ∧
    findV (vdelete v q id).vsnaps (p, id) = some c := by
  constructor
  · unfold vsnapshot
    simp only [hq, if_false]
    have hne : (q, vcount v.vcounts q) ≠ (p, id) := by intro h; injection h with h1 _; exact hpq h1
    simp [findV, hne, hf]
  · unfold vdelete
    simp only [hq, if_false]
    have hne : (q, id) ≠ (p, id) := by intro h; injection h with h1 _; exact hpq h1
    rw [findV_filter_ne _ _ _ hne]; exact hf

/-- Non-vacuity: a view snapshot, a write through another view, a root snapshot with the same id, then the
restore through the view: the write is gone. -/
example :
    let v0 : VSt := { st := { store := [([1, 1], [7])] } }
    let s := vsnapshot v0 [1]
    let v1 := vrun s.1 [.base (.set [2, 9] [5]), .vsnap [], .vsnap [2]]
    (vrestore v1 [1] s.2).2 = true ∧ (vrestore v1 [1] s.2).1.st.cache = [] := by decide

/-- The seeded variant (one table shared by all handles, a counter per handle): the root takes snapshot 0 of the
empty overlay, a view takes ITS snapshot 0 after a write — the shared table now holds the later state under id 0
and the root's restore of its snapshot returns the overlay WITH the write. -/
theorem C12_views_shared_table_loses_snapshot :
    let c1 : Cache := [([2, 9], { init := none, value := [5], dirty := true, deleted := false })]
    let s0 : SharedSt := { cache := [] }
    let r := sharedSnapshot s0 []                       -- root: id 0, empty overlay
    let s1 : SharedSt := { r.1 with cache := c1 }       -- a write through some view
    let w := sharedSnapshot s1 [1]                      -- view [1]: id 0 again
    r.2 = 0 ∧ w.2 = 0 ∧ (sharedRestore w.1 0).1.cache = c1 ∧ (sharedRestore w.1 0).1.cache ≠ s0.cache := by
  decide
