/-
C18 — the blacklist and the chain id of the configuration reach the p2p layer (tie A, table described in
Props/C13_Wire.lean).
-/
import LiskVerif.Lemmas.Wire

open LiskVerif LiskVerif.Wire

theorem C18_wire_p2p_config :
    wired "Engine.init" "p2p.Config" "BlacklistedIPs" "e.config.Network.BlacklistedIPs" = true ∧
    wired "Engine.init" "p2p.Config" "ChainID" "e.config.Genesis.ChainID" = true ∧
    wired "Engine.init" "p2p.Config" "FixedPeers" "e.config.Network.FixedPeers" = true ∧
    wired "Engine.init" "p2p.Config" "SeedPeers" "e.config.Network.SeedPeers" = true ∧
    wired "Engine.init" "p2p.Config" "MaxNumOfConnections" "e.config.Network.MaxNumOfConnections" = true ∧
    wired "Engine.init" "p2p.Config" "MinNumOfConnections" "e.config.Network.MinNumOfConnections" = true ∧
    wired "Engine.init" "consensus.ExecuterConfig" "Conn" "e.p2pConn" = true := by decide +kernel
