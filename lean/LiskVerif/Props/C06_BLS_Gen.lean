/-
C06 — tie A for the loop-free parts of Model/BLSAgg.lean: the bitmap length rule and the bit test of
`Bits.read` are the expressions regenerated from pkg/crypto/bls.go by tools/fngen (Gen/Fns2.lean, Go
`int` / `uint8` semantics).  The loops themselves (which positions are visited, which weight is added)
are tied by correspondence: pseudo-property C06BLS runs the real functions against the compiled
transcription (harness/c06bls).
-/
import LiskVerif.Props.C06_Gen2
import LiskVerif.Model.BLSAgg

open LiskVerif LiskVerif.BLSAgg

/-- `validBitsLength` of the transcription is the regenerated `validAggregationBitsLength` -/
theorem C06_bls_gen_valid_bits_length (nBytes nKeys : Nat) (h : nKeys < 9223372036854775800) :
    Gen.validAggregationBitsLength (nBytes : Int) (nKeys : Int) = validBitsLength nKeys nBytes := by
  rw [C06_gen2_valid_bits_length_eq nBytes nKeys h]
  unfold validBitsLength Cert.byteLen
  by_cases e : nBytes = (nKeys + 7) / 8 <;> simp [e]

/-- `bitsRead` of the transcription applies the regenerated bit index and bit test of `Bits.read` to the
byte at `i / 8` -/
theorem C06_bls_gen_bits_read (b : Bytes) (i : Nat) :
    bitsRead b i = (b[i / 8]?).bind (fun x => Gen.bitsReadBit x.toNat (Gen.bitsReadBitIndex (i : Int))) := by
  unfold bitsRead
  have hidx : Gen.bitsReadBitIndex (i : Int) = ((i % 8 : Nat) : Int) := (C06_gen2_bits_bit_index_eq i).1
  cases hx : b[i / 8]? with
  | none => rfl
  | some x =>
    simp only [Option.bind_some, hidx]
    unfold Gen.bitsReadBit
    have hnn : ¬ (((i % 8 : Nat) : Int) < 0) := by omega
    simp only [hnn, decide_false, Bool.false_eq_true, if_false, Int.toNat_natCast]
    congr 1
