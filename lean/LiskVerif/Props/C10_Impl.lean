/-
C10 (implementation level): the batched subtree update algorithm of pkg/trie/smt, transcribed in
Model/SMTImpl.lean (`trie.Update` → `updateSubtree` / `updateNode` / `calculateSubTree`, the stored subtree
records), refines the LIP-0039 specification of Model/SMTSpec.lean.

(a) stored records: decode ∘ encode = id and encode is injective on well-formed subtrees; every subtree the
    refinement talks about is well-formed;
(b) structural invariants for ALL batches, databases and lower levels: the expansion phase returns the flattening
    of a layout tree rooted at the node's position, at most `subtreeHeight` deep (hence Kraft equality and the node
    count bound); the bottom-up `calculateSubTree` with its temp-holder queue is the recursive collapse, whose result
    has no sibling pair left to merge; the bottom-up `treeHasher` is the recursive Merkle hash;
(c) refinement: the bottom-up root of an arranged subtree is the specification root (no assumption on the hash);
    one stored level refines the specification if the level below does (no assumption on the hash);
    `C10_impl_update_root_eq_spec`: for every store representing a map `m` and every batch `b` of well-formed
    keys, `update` returns `mapRoot (applyBatch m b)` and a store representing `applyBatch m b`;
    `C10_impl_history_root_eq_spec`: so does every history of batches from the empty store.
    The store is addressed by hashes (records are looked up, deleted and overwritten by subtree root, and a root equal
    to `H []` is read as the empty tree), so (c) for the store needs a hash with outputs of one length and without
    collisions among the FINITE set of inputs hashed for the trees of the maps involved (`GoodHash c X`, `InX`);
    the hypotheses are satisfiable (examples at the end).
-/
import LiskVerif.Lemmas.SMTImplFull
import LiskVerif.Lemmas.SMTImplInv
import LiskVerif.Props.C10

open LiskVerif LiskVerif.SMT LiskVerif.SMTImpl

/-! ### (a) the stored records -/

/-- decode (encode t) = t for every well-formed subtree -/
theorem C10_impl_decode_encode (c : Cfg) (t : SubTree) (h : WFSub c t) : newSubTree c t.encode = .ok t :=
  newSubTree_encode c t h

/-- encode is injective on well-formed subtrees -/
theorem C10_impl_encode_injective (c : Cfg) (t₁ t₂ : SubTree) (h₁ : WFSub c t₁) (h₂ : WFSub c t₂)
    (he : t₁.encode = t₂.encode) : t₁ = t₂ := by
  have e₁ := newSubTree_encode c t₁ h₁
  rw [he, newSubTree_encode c t₂ h₂] at e₁
  exact (Except.ok.inj e₁).symm

/-- every tree that arranges entries of the right key / value lengths (the subtrees of a represented store and the
ones `update` writes) is a well-formed stored subtree: at most 256 nodes, one depth byte per node, node data of
the three kinds, root = bottom-up hash -/
theorem C10_impl_arranged_subtree_wellformed {c : Cfg} {S : Nat → List Entry → Bytes → Prop} {d : Nat} {t : LT}
    {es : List Entry} (h : Arr c.H S c.sth d t es) (hs : c.sth ≤ 8)
    (hk : ∀ e ∈ es, e.key.length = c.keyLen ∧ e.value.length = c.hashSize)
    (hH : ∀ x, (c.H x).length = c.hashSize) : WFSub c ⟨t.depths 0, t.hash c.H, t.nodes⟩ :=
  Arr.wfSub h hs hk hH

/-! ### (b) structural invariants, for all batches -/

/-- `updateNode`, whatever the bins, the database and the level below do: the returned nodes / structure are the
flattening of a layout tree rooted at the node's depth and at most `subtreeHeight` deep -/
theorem C10_impl_updateNode_layout (c : Cfg) (lower : DB → List KV → SubTree → Nat → St SubTree) (height rem : Nat)
    (db : DB) (bins : List (List KV)) (cur : Node) (db' : DB) (r : NS) (hrem : rem ≤ c.sth)
    (h : updateNode c lower height rem db bins cur = (db', .ok r)) :
    ∃ t : LT, t.nodes = r.1 ∧ t.depths (c.sth - rem) = r.2 ∧ t.maxDepth (c.sth - rem) ≤ c.sth :=
  updateNode_tree c lower height rem db bins cur db' r hrem h

/-- the loop of `updateSubtree` over a subtree that is the flattening of a layout tree returns the flattening of a
layout tree again, at most `subtreeHeight` deep, with the bin offset advanced by the width of the tree -/
theorem C10_impl_updateNodes_layout (c : Cfg) (lower : DB → List KV → SubTree → Nat → St SubTree) (height : Nat)
    (t : LT) (db : DB) (bins : List (List KV)) (db' : DB) (on : List Node) (os : List Nat) (off' : Nat)
    (ht : t.maxDepth 0 ≤ c.sth)
    (h : updateNodes c lower height t.nodes (t.depths 0) db bins 0 = (db', .ok ((on, os), off'))) :
    ∃ t' : LT, on = t'.nodes ∧ os = t'.depths 0 ∧ t'.maxDepth 0 ≤ c.sth ∧ off' = 2 ^ c.sth := by
  have h' : updateNodes c lower height (t.nodes ++ []) (t.depths 0 ++ []) db bins 0 = (db', .ok ((on, os), off')) := by
    simpa using h
  obtain ⟨t', db1, on', os', e1, e2, hm, hrest⟩ := updateNodes_tree c lower height t 0 [] [] db bins 0 db' on os off' ht h'
  simp [updateNodes] at hrest
  obtain ⟨_, ⟨h1, h2⟩, h3⟩ := hrest
  subst h1 h2
  exact ⟨t', by simpa using e1, by simpa using e2, hm, h3.symm⟩

/-- Kraft equality and node count of a layout: it fills the subtree exactly -/
theorem C10_impl_layout_kraft (t : LT) (s : Nat) (h : t.maxDepth 0 ≤ s) :
    ((t.depths 0).map fun x => 2 ^ (s - x)).sum = 2 ^ s ∧ t.nodes.length ≤ 2 ^ s ∧
      (t.depths 0).length = t.nodes.length ∧ ∀ x ∈ t.depths 0, x ≤ s := by
  refine ⟨by simpa using LT.kraft t 0 s h, by simpa using LT.nodes_le t 0 s h, LT.length_nodes_depths t 0, ?_⟩
  intro x hx
  exact Nat.le_trans (LT.depths_bounds t 0 x hx).2 h

/-- `calculateSubTree` (level by level, with the temp-holder queue) is the recursive collapse -/
theorem C10_impl_calculateSubTree_collapse (H : HashFn) (t : LT) (ht : t.noTemp) :
    calculateSubTree H (t.maxDepth 0) t.nodes (t.depths 0) [] =
      .ok ⟨t.collapse.depths 0, t.collapse.hash H, t.collapse.nodes⟩ := by
  rw [calculateSubTree_tree H t ht, newSubtreeFromData_tree]

/-- the collapsed tree has no sibling pair (empty, empty) / (empty, leaf) / (leaf, empty) left, is not deeper than
the tree, and collapsing again changes nothing -/
theorem C10_impl_collapse_canonical (t : LT) :
    t.collapse.Canon ∧ t.collapse.collapse = t.collapse ∧ ∀ d, t.collapse.maxDepth d ≤ t.maxDepth d :=
  ⟨LT.collapse_canon t, LT.collapse_idem t, LT.collapse_maxDepth t⟩

/-- `treeHasher` (level by level) is the recursive Merkle hash of the layout tree: the key of a record is the Merkle
root of its layout -/
theorem C10_impl_treeHasher_merkle (H : HashFn) (t : LT) :
    newSubtreeFromData H (t.depths 0) t.nodes = .ok ⟨t.depths 0, t.hash H, t.nodes⟩ :=
  newSubtreeFromData_tree H t

/-! ### (c) refinement -/

/-- the bottom-up root computation is the specification root: if a layout tree arranges the entries `es`
(empty tips nothing, leaf tips one entry, stub tips the root of at least two, branches split by the next key bit),
`calculateSubTree` returns a subtree whose root is `SMTSpec.root` of the entries. No assumption on the hash. -/
theorem C10_impl_calculateSubTree_root_eq_spec (H : HashFn) (d : Nat) (t : LT) (es : List Entry)
    (hw : WFE d es) (ht : t.noTemp) (he : Exp H d t es) :
    ∃ st, calculateSubTree H (t.maxDepth 0) t.nodes (t.depths 0) [] = .ok st ∧ st.root = root H d es := by
  refine ⟨_, C10_impl_calculateSubTree_collapse H t ht, ?_⟩
  exact (collapse_exp H d t es hw he).1

/-- one stored level refines the specification if the level below does (`BottomOK`): `updateSubtree` on a subtree
arranging `es` writes and returns the collapsed tree of `applyE es (writes)`, whose root is the specification root.
No assumption on the hash (the store is abstracted by the world `W`). -/
theorem C10_impl_level_refines_spec (c : Cfg) (W : World) (fuel height dB : Nat)
    (hB : BottomOK c W (updateSubtree c fuel) height dB)
    (hs : (c.sth = 8 ∧ height % 8 = 0) ∨ (c.sth = 4 ∧ (height % 8 = 0 ∨ height % 8 = 4)))
    (d : Nat) (T : LT) (es : List Entry) (db : DB) (rt : Bytes) (pre : Bits) (kvs : List KV)
    (hA : Arr c.H (W.S db) c.sth d T es) (hpre : pre.length = height) (hd : d = c.sth + dB)
    (he : WFE d es) (ho : WFE d (kvs.map (opOf height)))
    (hue : ∀ e ∈ es, Under pre e) (huo : ∀ o ∈ kvs.map (opOf height), Under pre o)
    (hev : ∀ e ∈ es, W.EOK e.key e.value) (hov : ∀ o ∈ kvs.map (opOf height), W.OOK o.key o.value)
    (hie : W.IOK d es) (hia : W.IOK d (applyE es (kvs.map (opOf height))))
    (hk : ∀ kv ∈ kvs, height + c.sth ≤ 8 * kv.1.length) (hne : kvs ≠ []) :
    ∃ db' st, updateSubtree c (fuel + 1) db kvs ⟨T.depths 0, rt, T.nodes⟩ height = (db', .ok st) ∧
      st.root = root c.H d (applyE es (kvs.map (opOf height))) ∧ dbGet db' st.root = some st.encode := by
  obtain ⟨db1, T', h, _, _⟩ := updateSubtree_level c W fuel height dB hB hs d T es db rt pre kvs hA hpre hd he ho hue huo
    hev hov hie hia hk hne
  exact ⟨_, _, h, rfl, dbGet_dbSet_self _ _ _⟩

/-- **main refinement.** For every store that represents a map `m` (`Represents`) and every batch `b` of
well-formed keys (key length, values empty = delete or of the hash size), `update` returns the root
`SMTSpec.mapRoot (applyBatch m b)` and a store that represents `applyBatch m b`.
Hash: outputs of one positive length, no collision among the inputs `X`, which must contain the inputs hashed for the
tree of `m` and for the tree of `applyBatch m b` (and the empty string). -/
theorem C10_impl_update_root_eq_spec (c : Cfg) (X : Bytes → Prop) (hs : c.sth = 8 ∨ c.sth = 4) (g : GoodHash c X)
    (hkl : 0 < c.keyLen) (db : DB) (rt : Bytes) (m b : List KV) (hR : Represents c db rt m)
    (hb : ∀ kv ∈ b, kv.1.length = c.keyLen ∧ (kv.2 = [] ∨ kv.2.length = c.hashSize))
    (hXm : InX c X (8 * c.keyLen) (entriesOf m)) (hXm' : InX c X (8 * c.keyLen) (entriesOf (applyBatch m b))) :
    ∃ db', update c ⟨rt⟩ db (b.map (·.1)) (b.map (·.2)) =
        (⟨mapRoot c.H c.keyLen (applyBatch m b)⟩, db', .ok (mapRoot c.H c.keyLen (applyBatch m b))) ∧
      Represents c db' (mapRoot c.H c.keyLen (applyBatch m b)) (applyBatch m b) :=
  update_refines c hs g hkl db rt m b hR hb hXm hXm'

/-- a history of update batches on the transcription; `none` if a batch fails -/
def C10ImplRun (c : Cfg) : Trie × DB → List (List KV) → Option (Trie × DB)
  | s, [] => some s
  | (t, db), b :: bs =>
    match update c t db (b.map (·.1)) (b.map (·.2)) with
    | (t', db', .ok _) => C10ImplRun c (t', db') bs
    | (_, _, .error _) => none

/-- the empty store represents the empty map at the empty root -/
theorem C10_impl_empty_represents (c : Cfg) (db : DB) : Represents c db (emptyHash c.H) [] :=
  ⟨⟨by simp [NoDupKeys], by simp, by simp⟩, by simp [mapRoot, entriesOf], fun h => absurd rfl h⟩

/-- **histories**: from a store representing `m`, every history of well-formed batches succeeds, ends at the root
`mapRoot` of the final map and in a store representing it (in particular: from the empty store the root is
`mapRoot (finalMap bs)`, a function of the final map only). -/
theorem C10_impl_history_root_eq_spec (c : Cfg) (X : Bytes → Prop) (hs : c.sth = 8 ∨ c.sth = 4) (g : GoodHash c X)
    (hkl : 0 < c.keyLen) : ∀ (bs : List (List KV)) (db : DB) (rt : Bytes) (m : List KV), Represents c db rt m →
    (∀ b ∈ bs, ∀ kv ∈ b, kv.1.length = c.keyLen ∧ (kv.2 = [] ∨ kv.2.length = c.hashSize)) →
    (∀ n, InX c X (8 * c.keyLen) (entriesOf ((bs.take n).foldl applyBatch m))) →
    ∃ db', C10ImplRun c (⟨rt⟩, db) bs = some (⟨mapRoot c.H c.keyLen (bs.foldl applyBatch m)⟩, db') ∧
      Represents c db' (mapRoot c.H c.keyLen (bs.foldl applyBatch m)) (bs.foldl applyBatch m)
  | [], db, rt, m, hR, _, _ => by
    refine ⟨db, ?_, ?_⟩
    · simp [C10ImplRun, hR.2.1]
    · simpa [← hR.2.1] using hR
  | b :: bs, db, rt, m, hR, hb, hX => by
    obtain ⟨db1, h1, hR1⟩ := update_refines c hs g hkl db rt m b hR (hb b (by simp)) (by simpa using hX 0)
      (by simpa using hX 1)
    obtain ⟨db2, h2, hR2⟩ := C10_impl_history_root_eq_spec c X hs g hkl bs db1 _ (applyBatch m b) hR1
      (fun b' hb' => hb b' (List.mem_cons_of_mem _ hb')) (fun n => by simpa using hX (n + 1))
    refine ⟨db2, ?_, by simpa using hR2⟩
    simp only [C10ImplRun, h1, List.foldl_cons]
    exact h2

/-- the statement of the task in its ideal form (any hash). It is NOT provable as it stands: the code reads a root
equal to `H []` as the empty tree and addresses, deletes and overwrites records by subtree root, so a collision can
make it read the record of another subtree. `C10_impl_update_root_eq_spec` proves it with the hypothesis that `H` has
outputs of one length and no collision among the finitely many inputs hashed for the two trees involved; what is
proved without any hypothesis on the hash is `C10_impl_level_refines_spec` / `C10_impl_calculateSubTree_root_eq_spec`. -/
def C10_impl_update_root_eq_spec_Statement : Prop :=
  ∀ (c : Cfg) (db : DB) (rt : Bytes) (m b : List KV), (c.sth = 8 ∨ c.sth = 4) → 0 < c.keyLen →
    Represents c db rt m → (∀ kv ∈ b, kv.1.length = c.keyLen ∧ (kv.2 = [] ∨ kv.2.length = c.hashSize)) →
    ∃ db', update c ⟨rt⟩ db (b.map (·.1)) (b.map (·.2)) =
        (⟨mapRoot c.H c.keyLen (applyBatch m b)⟩, db', .ok (mapRoot c.H c.keyLen (applyBatch m b))) ∧
      Represents c db' (mapRoot c.H c.keyLen (applyBatch m b)) (applyBatch m b)

/-! ### non-vacuity

`C10toyH` (Props/C10.lean) is a 2-byte checksum: outputs of one length; it has no collision among the inputs of the
small trees below (kernel evaluation). Key length 1, subtree height 8 (one stored level) and key length 2 (two
stored levels: the keys 0x4000 / 0x4001 share their first byte, so a stub and a lower record are written). -/

def C10implCfg1 : Cfg := ⟨C10toyH, 1, 8⟩
def C10implCfg2 : Cfg := ⟨C10toyH, 2, 8⟩

def C10implB1 : List KV := [([0x40], [1, 1]), ([0xC0], [2, 2]), ([0x41], [3, 3]), ([0x40], [9, 9])]
def C10implB2 : List KV := [([0x40], []), ([0x42], [4, 4])]
def C10implB3 : List KV := [([0x40, 0x00], [1, 1]), ([0x40, 0x01], [2, 2]), ([0xC0, 0x00], [3, 3])]
def C10implB4 : List KV := [([0x40, 0x01], []), ([0x40, 0x80], [4, 4])]

/-- the inputs hashed for the trees of the maps of a history -/
def C10implInputs (c : Cfg) (bs : List (List KV)) : List Bytes :=
  [] :: ((List.range (bs.length + 1)).flatMap fun n => treeInputs c.H (8 * c.keyLen) (entriesOf (finalMap (bs.take n))))

theorem C10impl_good (c : Cfg) (bs : List (List KV)) (hH : c.H = C10toyH)
    (h : ∀ a ∈ C10implInputs c bs, ∀ b ∈ C10implInputs c bs, C10toyH a = C10toyH b → a = b) :
    GoodHash c (· ∈ C10implInputs c bs) :=
  ⟨fun a b ha hb hab => h a ha b hb (by rwa [hH] at hab), fun x => by simp [Cfg.hashSize, emptyHash, hH, C10toyH_length],
   by simp [Cfg.hashSize, emptyHash, hH, C10toyH_length], by simp [C10implInputs]⟩

theorem C10impl_inX (c : Cfg) (bs : List (List KV)) (n : Nat) (hn : n ≤ bs.length) :
    InX c (· ∈ C10implInputs c bs) (8 * c.keyLen) (entriesOf ((bs.take n).foldl applyBatch [])) := by
  intro a ha
  simp only [C10implInputs, List.mem_cons, List.mem_flatMap, List.mem_range]
  exact Or.inr ⟨n, by omega, ha⟩

-- (a): a well-formed subtree (two leaves under the root of a one-byte-key trie) and its round trip
example : newSubTree C10implCfg1
      (SubTree.encode ⟨[1, 1], C10toyH (1 :: (C10toyH [0, 0x40, 1, 1] ++ C10toyH [0, 0xC0, 2, 2])),
        [newLeafNode C10toyH [0x40] [1, 1], newLeafNode C10toyH [0xC0] [2, 2]]⟩) =
    .ok ⟨[1, 1], C10toyH (1 :: (C10toyH [0, 0x40, 1, 1] ++ C10toyH [0, 0xC0, 2, 2])),
        [newLeafNode C10toyH [0x40] [1, 1], newLeafNode C10toyH [0xC0] [2, 2]]⟩ :=
  C10_impl_decode_encode _ _
    ⟨rfl, by decide, by decide, by decide,
     by
      intro n hn
      simp only [List.mem_cons, List.not_mem_nil, or_false] at hn
      rcases hn with rfl | rfl
      · exact Or.inr (Or.inl ⟨[0x40], [1, 1], rfl, rfl, rfl⟩)
      · exact Or.inr (Or.inl ⟨[0xC0], [2, 2], rfl, rfl, rfl⟩),
     by rfl⟩

-- (b): the transcription on a concrete batch returns a layout with Kraft sum 2^8 (9 nodes: three leaves, six empty)
example : ((updateSubtree C10implCfg1 4 [] (uniqueFirst C10implB1) (newEmptySubTree C10toyH) 0).2.toOption.map
    fun st => ((st.struct.map fun x => 2 ^ (8 - x)).sum, st.nodes.length)) = some (256, 9) := by decide +kernel

-- (c): one stored level: a history with overwrite, duplicate key in a batch, delete and insert
example : ∃ db', C10ImplRun C10implCfg1 (⟨emptyHash C10toyH⟩, []) [C10implB1, C10implB2] =
      some (⟨mapRoot C10toyH 1 (finalMap [C10implB1, C10implB2])⟩, db') ∧
    Represents C10implCfg1 db' (mapRoot C10toyH 1 (finalMap [C10implB1, C10implB2])) (finalMap [C10implB1, C10implB2]) :=
  C10_impl_history_root_eq_spec C10implCfg1 _ (Or.inl rfl)
    (C10impl_good C10implCfg1 [C10implB1, C10implB2] rfl (by decide +kernel)) (by decide)
    [C10implB1, C10implB2] [] _ [] (C10_impl_empty_represents _ _) (by decide)
    (fun n => by
      by_cases hn : n ≤ 2
      · exact C10impl_inX C10implCfg1 [C10implB1, C10implB2] n hn
      · have : ([C10implB1, C10implB2].take n) = [C10implB1, C10implB2].take 2 := by
          rw [List.take_of_length_le (by simp; omega), List.take_of_length_le (by simp)]
        rw [this]; exact C10impl_inX C10implCfg1 [C10implB1, C10implB2] 2 (by simp))

-- (c): two stored levels (a stub and a lower record, then the lower subtree is rewritten)
example : ∃ db', C10ImplRun C10implCfg2 (⟨emptyHash C10toyH⟩, []) [C10implB3, C10implB4] =
      some (⟨mapRoot C10toyH 2 (finalMap [C10implB3, C10implB4])⟩, db') ∧
    Represents C10implCfg2 db' (mapRoot C10toyH 2 (finalMap [C10implB3, C10implB4])) (finalMap [C10implB3, C10implB4]) :=
  C10_impl_history_root_eq_spec C10implCfg2 _ (Or.inl rfl)
    (C10impl_good C10implCfg2 [C10implB3, C10implB4] rfl (by decide +kernel)) (by decide)
    [C10implB3, C10implB4] [] _ [] (C10_impl_empty_represents _ _) (by decide)
    (fun n => by
      by_cases hn : n ≤ 2
      · exact C10impl_inX C10implCfg2 [C10implB3, C10implB4] n hn
      · have : ([C10implB3, C10implB4].take n) = [C10implB3, C10implB4].take 2 := by
          rw [List.take_of_length_le (by simp; omega), List.take_of_length_le (by simp)]
        rw [this]; exact C10impl_inX C10implCfg2 [C10implB3, C10implB4] 2 (by simp))

-- and the model computes what the theorem says (kernel evaluation of the transcription itself)
example : (update C10implCfg2 ⟨emptyHash C10toyH⟩ [] (C10implB3.map (·.1)) (C10implB3.map (·.2))).2.2.toOption =
    some (mapRoot C10toyH 2 (finalMap [C10implB3])) := by decide +kernel

#print axioms C10_impl_decode_encode
#print axioms C10_impl_encode_injective
#print axioms C10_impl_arranged_subtree_wellformed
#print axioms C10_impl_updateNode_layout
#print axioms C10_impl_updateNodes_layout
#print axioms C10_impl_layout_kraft
#print axioms C10_impl_calculateSubTree_collapse
#print axioms C10_impl_collapse_canonical
#print axioms C10_impl_treeHasher_merkle
#print axioms C10_impl_calculateSubTree_root_eq_spec
#print axioms C10_impl_level_refines_spec
#print axioms C10_impl_update_root_eq_spec
#print axioms C10_impl_empty_represents
#print axioms C10_impl_history_root_eq_spec
