/-
C12 — size independence of the staged state store (model `LiskVerif.Model.DiffDB`).

Nothing the staged store returns, and nothing `Commit` writes, may depend on HOW MUCH the overlay or the
database holds: neither on the number of entries the overlay has cached by reading, nor on the number of
reads that happened before, nor on the number of persisted keys the operations never touch.

1. reads are pure: a list of Get / Range / Iterate calls (any bounds, limits, directions, any number of
   them) leaves the effective map, the snapshots and every later observation unchanged;
2. reads can be inserted anywhere: two histories with the same non-read operations are indistinguishable —
   every later observation, the committed database and the Added / Updated / Deleted lists of the diff agree.
   The proof shows what an implementation may forget: overlay entries that only mirror the persisted value
   (`C12mirror`) are irrelevant, every other entry (in particular a new key staged once: `init = none`,
   `dirty = false`) is not;
   `C12_size_release_mirrors` / `C12_size_release_clean_loses_writes`: releasing mirror entries is
   unobservable, releasing every "not dirty, not deleted" entry is not;
3. unrelated persisted keys: two databases that agree outside a key set `u` give, for every history that
   avoids `u`, literally the same overlay, the same observations, the same diff and the same committed
   values outside `u` — however many keys `u` holds;
4. a staged key survives any number of reads (the instance the large-store harness C12BIG looks for).

The model definitions are unchanged; the harness family C12BIG (harness/c12/big.go) runs the real code on
stores of 2^k ± small keys against the sorted-map reference.
-/
import LiskVerif.Props.C12_More

open LiskVerif LiskVerif.DiffDB

/-! ## 0. frames -/

/-- the operations that only read -/
def C12IsRead : Op → Bool
  | .get _ => true
  | .range _ _ _ _ => true
  | .iterate _ _ _ => true
  | _ => false

private theorem step_store (st : St) (op : Op) : (step st op).store = st.store :=
  C12_store_untouched st [op]

private theorem step_inv (st : St) (h : C12Inv st) (op : Op) : C12Inv (step st op) :=
  C12_cache_invariant st h [op]

private theorem read_frame (st : St) (op : Op) (hr : C12IsRead op = true) :
    (step st op).snaps = st.snaps ∧ (step st op).snapCount = st.snapCount := by
  cases op with
  | get k =>
    simp only [step]
    unfold DiffDB.get
    split
    · split <;> exact ⟨rfl, rfl⟩
    · split <;> exact ⟨rfl, rfl⟩
  | range s e l r => exact ⟨rfl, rfl⟩
  | iterate p l r => exact ⟨rfl, rfl⟩
  | set k v => simp [C12IsRead] at hr
  | del k => simp [C12IsRead] at hr
  | snapshot => simp [C12IsRead] at hr
  | restore id => simp [C12IsRead] at hr
  | deleteSnapshot id => simp [C12IsRead] at hr

private theorem read_eff (st : St) (h : C12Inv st) (op : Op) (hr : C12IsRead op = true) (k : Bytes) :
    eff (step st op) k = eff st k := by
  cases op with
  | get k0 => exact (C12_reads_do_not_change_state st h).1 k0 k
  | range s e l r => exact (C12_reads_do_not_change_state st h).2.1 s e l r k
  | iterate p l r => exact (C12_reads_do_not_change_state st h).2.2 p l r k
  | set k v => simp [C12IsRead] at hr
  | del k => simp [C12IsRead] at hr
  | snapshot => simp [C12IsRead] at hr
  | restore id => simp [C12IsRead] at hr
  | deleteSnapshot id => simp [C12IsRead] at hr

private theorem restore_ok (st : St) (id : Nat) : (restore st id).2 = (findSnap st.snaps id).isSome := by
  unfold restore
  cases findSnap st.snaps id <;> rfl

/-- what an operation returns depends on the effective map, the snapshot ids and the counter only -/
private theorem obs_congr (st st' : St) (h : C12Inv st) (h' : C12Inv st')
    (he : ∀ k, eff st k = eff st' k)
    (hsn : ∀ id, (findSnap st.snaps id).isSome = (findSnap st'.snaps id).isSome)
    (hc : st.snapCount = st'.snapCount) (op : Op) : C12obs st op = C12obs st' op := by
  cases op with
  | get k =>
    simp only [C12obs]
    rw [(C12_get_refines st h k).1, (C12_get_refines st' h' k).1, he]
  | range s e l r =>
    simp only [C12obs]
    unfold range
    rw [C12_scan_congr st st' h h' _ (fun k _ => he k)]
  | iterate p l r =>
    simp only [C12obs]
    unfold iterate
    rw [C12_scan_congr st st' h h' _ (fun k _ => he k)]
  | snapshot => simp only [C12obs, snapshot, hc]
  | restore id => simp only [C12obs, restore_ok, hsn]
  | set k v => rfl
  | del k => rfl
  | deleteSnapshot id => rfl

/-! ## 1. reads are pure -/

/-- **Reads are pure.**  Any number of Get / Range / Iterate calls — whatever they cache, however many
entries they visit — leave the effective map, the database, the snapshots and the snapshot counter
unchanged, and every operation afterwards returns what it would have returned before them. -/
theorem C12_size_reads_are_pure (st : St) (h : C12Inv st) (reads : List Op)
    (hr : ∀ op ∈ reads, C12IsRead op = true) :
    (∀ k, eff (run st reads) k = eff st k) ∧ (run st reads).store = st.store ∧
    (run st reads).snaps = st.snaps ∧ (run st reads).snapCount = st.snapCount ∧
    ∀ op, C12obs (run st reads) op = C12obs st op := by
  have key : (∀ k, eff (run st reads) k = eff st k) ∧
      (run st reads).snaps = st.snaps ∧ (run st reads).snapCount = st.snapCount := by
    induction reads generalizing st with
    | nil => exact ⟨fun _ => rfl, rfl, rfl⟩
    | cons op r ih =>
      have hop := hr op List.mem_cons_self
      obtain ⟨i1, i2, i3⟩ := ih (step st op) (step_inv st h op)
        (fun o ho => hr o (List.mem_cons_of_mem _ ho))
      obtain ⟨f1, f2⟩ := read_frame st op hop
      refine ⟨fun k => ?_, ?_, ?_⟩
      · exact (i1 k).trans (read_eff st h op hop k)
      · exact i2.trans f1
      · exact i3.trans f2
  obtain ⟨k1, k2, k3⟩ := key
  refine ⟨k1, C12_store_untouched st reads, k2, k3, fun op => ?_⟩
  exact obs_congr _ _ (C12_cache_invariant st h reads) h k1 (fun id => by rw [k2]) k3 op

private def szS : Store := [([1], [10]), ([2], [20]), ([1, 0], [30]), ([4], [40])]
private def szSt : St := DiffDB.set (del { store := szS } [4]) [3] [33]
private def szReads : List Op :=
  [.iterate [] (-1) false, .get [2], .range [0] [9] 1 true, .iterate [1] 0 false, .get [7]]
example : (run szSt szReads).cache.length = 5 ∧ szSt.cache.length = 2 ∧
    C12obs (run szSt szReads) (.range [0] [9] (-1) false) = C12obs szSt (.range [0] [9] (-1) false) ∧
    C12obs szSt (.range [0] [9] (-1) false) = .kvs [([1], [10]), ([1, 0], [30]), ([2], [20]), ([3], [33])] := by
  decide

/-! ## 2. what the overlay may forget: entries that only mirror the persisted value -/

/-- the overlay entry a read leaves behind: the persisted value, no staged change -/
def C12mirror (v : Bytes) : CV := { init := some v, value := v, dirty := false, deleted := false }

/-- the staged content of the overlay under `k`: an entry that only mirrors the persisted value counts as
no entry; every other entry — a new key (`init = none`, even when not `dirty`), an update, a tombstone —
counts as it is. -/
def C12core (s : Store) (c : Cache) (k : Bytes) : Option CV :=
  match clookup c k with
  | none => none
  | some cv =>
    match slookup s k with
    | some v => if cv = C12mirror v then none else some cv
    | none => some cv

private theorem core_ccache {s : Store} {c : Cache} {k v : Bytes} (hc : clookup c k = none)
    (hs : slookup s k = some v) (k' : Bytes) : C12core s (ccache c k v) k' = C12core s c k' := by
  unfold C12core ccache
  rw [clookup_cput]
  by_cases hk : k = k'
  · subst hk; simp [hc, hs, C12mirror]
  · simp [hk]

private theorem core_absorb {s : Store} (l : List KV) :
    ∀ (c : Cache), (∀ e ∈ l, slookup s e.1 = some e.2) →
      ∀ k', C12core s (absorb c l).1 k' = C12core s c k' := by
  induction l with
  | nil => intro c _ k'; rfl
  | cons e r ih =>
    intro c hl k'
    obtain ⟨k, v⟩ := e
    have hr : ∀ e ∈ r, slookup s e.1 = some e.2 := fun e he => hl e (List.mem_cons_of_mem _ he)
    unfold absorb
    cases hc : clookup c k with
    | some cv =>
      simp only
      by_cases hd : cv.deleted = true
      · simp only [hd, if_true]; exact ih c hr k'
      · simp only [hd]; exact ih c hr k'
    | none =>
      simp only
      have hs : slookup s k = some v := hl (k, v) List.mem_cons_self
      rw [ih (ccache c k v) hr k', core_ccache hc hs k']

private theorem core_get (st : St) (k k' : Bytes) :
    C12core st.store (DiffDB.get st k).1.cache k' = C12core st.store st.cache k' := by
  unfold DiffDB.get
  cases hc : clookup st.cache k with
  | some cv => by_cases hd : cv.deleted = true <;> simp [hd]
  | none =>
    cases hs : slookup st.store k with
    | none => rfl
    | some v => exact core_ccache hc hs k'

private theorem core_scan (st : St) (hnd : NoDupKeys st.store) (f : Bytes → Bool) (limit : Int)
    (rev : Bool) (k' : Bytes) :
    C12core st.store (scan st f limit rev).1.cache k' = C12core st.store st.cache k' := by
  unfold scan
  have hl : ∀ e ∈ sortDir (st.store.filter (fun kv => f kv.1)) rev, slookup st.store e.1 = some e.2 := by
    intro e he
    have : e ∈ st.store := by
      unfold sortDir at he
      split at he <;> (rw [mem_isort] at he; exact (List.mem_filter.mp he).1)
    exact (slookup_iff_mem st.store hnd e.1 e.2).mpr this
  exact core_absorb (s := st.store) _ st.cache hl k'

/-- a read changes the overlay only by entries that mirror the persisted data -/
private theorem core_read (st : St) (hnd : NoDupKeys st.store) (op : Op) (hr : C12IsRead op = true)
    (k' : Bytes) : C12core st.store (step st op).cache k' = C12core st.store st.cache k' := by
  cases op with
  | get k => exact core_get st k k'
  | range s e l r => exact core_scan st hnd _ l r k'
  | iterate p l r => exact core_scan st hnd _ l r k'
  | set k v => simp [C12IsRead] at hr
  | del k => simp [C12IsRead] at hr
  | snapshot => simp [C12IsRead] at hr
  | restore id => simp [C12IsRead] at hr
  | deleteSnapshot id => simp [C12IsRead] at hr

/-- the entry `Set k v` leaves, from the staged content under `k` and the persisted value -/
def C12setEntry (o : Option CV) (old : Option Bytes) (v : Bytes) : CV :=
  match o with
  | some cv => { cv with deleted := false, dirty := true, value := v }
  | none =>
    match old with
    | some v0 => { init := some v0, value := v, dirty := true, deleted := false }
    | none => { init := none, value := v, dirty := false, deleted := false }

/-- the entry `Del k` leaves -/
def C12delEntry (o : Option CV) (old : Option Bytes) : Option CV :=
  match o with
  | some cv =>
    match cv.init with
    | none => none
    | some _ => some { cv with deleted := true }
  | none =>
    match old with
    | some v0 => some { init := some v0, value := v0, dirty := false, deleted := true }
    | none => none

private theorem core_of_lookup {s : Store} {c : Cache} {k : Bytes} {cv : CV}
    (hc : clookup c k = some cv) (hne : ∀ v, slookup s k = some v → cv ≠ C12mirror v) :
    C12core s c k = some cv := by
  unfold C12core
  rw [hc]
  cases hs : slookup s k with
  | none => rfl
  | some v => simp [hne v hs]

private theorem core_set (st : St) (k v k' : Bytes) :
    C12core st.store (DiffDB.set st k v).cache k' =
      if k = k' then some (C12setEntry (C12core st.store st.cache k) (slookup st.store k) v)
      else C12core st.store st.cache k' := by
  by_cases hk : k = k'
  · subst hk
    simp only [if_true]
    unfold DiffDB.set
    cases hc : clookup st.cache k with
    | some o =>
      simp only
      have hl : clookup (cset st.cache k v) k =
          some { o with deleted := false, dirty := true, value := v } := by
        unfold cset; rw [hc]; simp
      rw [core_of_lookup hl (by intro v0 _; simp [C12mirror])]
      congr 1
      unfold C12core
      rw [hc]
      cases hs : slookup st.store k with
      | none => rfl
      | some v0 =>
        by_cases hm : o = C12mirror v0
        · subst hm; simp [C12setEntry, C12mirror]
        · simp [hm, C12setEntry]
    | none =>
      simp only
      unfold ensureCache
      cases hs : slookup st.store k with
      | some v0 =>
        simp only
        have hl : clookup (cset (ccache st.cache k v0) k v) k =
            some { init := some v0, value := v, dirty := true, deleted := false } := by
          unfold cset ccache; simp
        rw [core_of_lookup hl (by intro v1 _; simp [C12mirror])]
        simp [C12core, hc, C12setEntry]
      | none =>
        simp only
        have hl : clookup (cadd st.cache k v) k =
            some { init := none, value := v, dirty := false, deleted := false } := by
          unfold cadd; simp
        rw [core_of_lookup hl (by intro v1 h1; rw [hs] at h1; cases h1)]
        simp [C12core, hc, C12setEntry]
  · simp only [hk, if_false]
    have hl : clookup (DiffDB.set st k v).cache k' = clookup st.cache k' := by
      unfold DiffDB.set
      cases hc : clookup st.cache k with
      | some o => simp only; unfold cset; rw [hc]; simp [hk]
      | none =>
        simp only
        unfold ensureCache
        cases hs : slookup st.store k with
        | some v0 => simp only; unfold cset ccache; simp [hk]
        | none => simp only; unfold cadd; simp [hk]
    unfold C12core
    rw [hl]

private theorem core_del (st : St) (k k' : Bytes) :
    C12core st.store (del st k).cache k' =
      if k = k' then C12delEntry (C12core st.store st.cache k) (slookup st.store k)
      else C12core st.store st.cache k' := by
  by_cases hk : k = k'
  · subst hk
    simp only [if_true]
    unfold del
    cases hc : clookup st.cache k with
    | some o =>
      simp only
      unfold cdel
      rw [hc]
      simp only
      cases hi : o.init with
      | none =>
        simp only
        have hcore : C12core st.store st.cache k = some o := by
          apply core_of_lookup hc
          intro v0 _ h0
          rw [h0] at hi
          simp [C12mirror] at hi
        rw [hcore]
        simp [C12core, C12delEntry, hi]
      | some i =>
        simp only
        have hl : clookup (cput st.cache k
            { init := some i, value := o.value, dirty := o.dirty, deleted := true }) k =
            some { init := some i, value := o.value, dirty := o.dirty, deleted := true } := by simp
        rw [core_of_lookup hl (by intro v0 _; simp [C12mirror])]
        unfold C12core
        rw [hc]
        cases hs : slookup st.store k with
        | none => simp [C12delEntry, hi]
        | some v0 =>
          by_cases hm : o = C12mirror v0
          · subst hm
            simp [C12mirror] at hi
            subst hi
            simp [C12delEntry, C12mirror]
          · simp [hm, C12delEntry, hi]
    | none =>
      simp only
      unfold ensureCache
      cases hs : slookup st.store k with
      | some v0 =>
        simp only
        have hl : clookup (cdel (ccache st.cache k v0) k) k =
            some { init := some v0, value := v0, dirty := false, deleted := true } := by
          unfold cdel ccache; simp
        rw [core_of_lookup hl (by intro v1 _; simp [C12mirror])]
        simp [C12core, hc, C12delEntry]
      | none =>
        simp only
        have : cdel st.cache k = st.cache := by unfold cdel; simp [hc]
        rw [this]
        simp [C12core, hc, C12delEntry]
  · simp only [hk, if_false]
    have hl : clookup (del st k).cache k' = clookup st.cache k' := by
      unfold del
      cases hc : clookup st.cache k with
      | some o =>
        simp only
        unfold cdel
        rw [hc]
        simp only
        cases hi : o.init <;> simp [hk]
      | none =>
        simp only
        unfold ensureCache
        cases hs : slookup st.store k with
        | some v0 =>
          simp only
          unfold cdel ccache
          simp [hk]
        | none =>
          simp only
          unfold cdel
          simp [hc]
    unfold C12core
    rw [hl]

/-- the effective value is a function of the staged content and the persisted value -/
private theorem effC_of_core (s : Store) (c : Cache) (k : Bytes) :
    effC s c k = match C12core s c k with
      | some cv => if cv.deleted then none else some cv.value
      | none => slookup s k := by
  unfold effC C12core
  cases hc : clookup c k with
  | none => rfl
  | some cv =>
    simp only
    cases hs : slookup s k with
    | none => rfl
    | some v =>
      simp only
      by_cases hm : cv = C12mirror v
      · subst hm; simp [C12mirror]
      · simp [hm]

private theorem dirty_of_core (s : Store) (c : Cache) (k : Bytes) :
    (∃ cv, clookup c k = some cv ∧ cv.dirty = true) ↔
      (∃ cv, C12core s c k = some cv ∧ cv.dirty = true) := by
  constructor
  · rintro ⟨cv, hc, hd⟩
    refine ⟨cv, core_of_lookup hc ?_, hd⟩
    intro v _ hm
    rw [hm] at hd
    simp [C12mirror] at hd
  · rintro ⟨cv, hc, hd⟩
    refine ⟨cv, ?_, hd⟩
    unfold C12core at hc
    cases hl : clookup c k with
    | none => rw [hl] at hc; cases hc
    | some cv' =>
      rw [hl] at hc
      simp only at hc
      cases hs : slookup s k with
      | none => rw [hs] at hc; simpa using hc
      | some v =>
        rw [hs] at hc
        simp only at hc
        by_cases hm : cv' = C12mirror v
        · simp [hm] at hc
        · simp [hm] at hc; rw [hc]

/-! ### the relation "same staged content" between two staged stores over one database -/

/-- snapshot lists with the same ids and the same staged content -/
def C12SnapsRel (s : Store) : List (Nat × Cache) → List (Nat × Cache) → Prop
  | [], [] => True
  | a :: l, b :: l' => (a.1 = b.1 ∧ ∀ k, C12core s a.2 k = C12core s b.2 k) ∧ C12SnapsRel s l l'
  | [], _ :: _ => False
  | _ :: _, [] => False

/-- two staged stores over the same database whose overlays (current and snapshots) differ only in
entries that mirror the persisted data -/
structure C12SameCore (st st' : St) : Prop where
  store : st'.store = st.store
  cache : ∀ k, C12core st.store st.cache k = C12core st.store st'.cache k
  cnt : st'.snapCount = st.snapCount
  snaps : C12SnapsRel st.store st.snaps st'.snaps

theorem C12_size_sameCore_refl (st : St) : C12SameCore st st := by
  refine ⟨rfl, fun _ => rfl, rfl, ?_⟩
  generalize st.snaps = l
  induction l with
  | nil => trivial
  | cons a r ih => exact ⟨⟨rfl, fun _ => rfl⟩, ih⟩

private theorem snapsRel_find {s : Store} : ∀ (l l' : List (Nat × Cache)), C12SnapsRel s l l' → ∀ id,
    (findSnap l id = none ∧ findSnap l' id = none) ∨
    ∃ c c', findSnap l id = some c ∧ findSnap l' id = some c' ∧ ∀ k, C12core s c k = C12core s c' k
  | [], [], _, _ => Or.inl ⟨rfl, rfl⟩
  | [], _ :: _, h, _ => absurd h (by simp [C12SnapsRel])
  | _ :: _, [], h, _ => absurd h (by simp [C12SnapsRel])
  | (i, c) :: l, (i', c') :: l', h, id => by
    obtain ⟨⟨h1, h2⟩, h3⟩ := h
    simp only at h1 h2
    subst h1
    simp only [findSnap]
    by_cases hi : i = id
    · simp only [hi, if_true]
      exact Or.inr ⟨c, c', rfl, rfl, h2⟩
    · simp only [hi, if_false]
      exact snapsRel_find l l' h3 id

private theorem snapsRel_filter {s : Store} (id : Nat) : ∀ (l l' : List (Nat × Cache)), C12SnapsRel s l l' →
    C12SnapsRel s (l.filter (fun e => e.1 ≠ id)) (l'.filter (fun e => e.1 ≠ id))
  | [], [], _ => by simp [C12SnapsRel]
  | [], _ :: _, h => absurd h (by simp [C12SnapsRel])
  | _ :: _, [], h => absurd h (by simp [C12SnapsRel])
  | (i, c) :: l, (i', c') :: l', h => by
    obtain ⟨⟨h1, h2⟩, h3⟩ := h
    simp only at h1 h2
    subst h1
    have ih := snapsRel_filter id l l' h3
    by_cases hi : i = id
    · simp only [List.filter, hi, ne_eq, not_true_eq_false, decide_false]
      exact ih
    · simp only [List.filter, hi, ne_eq, not_false_eq_true, decide_true]
      exact ⟨⟨rfl, h2⟩, ih⟩

private theorem sameCore_mk {st st' t t' : St} (hs : t.store = st.store) (hs' : t'.store = st'.store)
    (h : C12SameCore st st')
    (hc : ∀ k, C12core st.store t.cache k = C12core st.store t'.cache k)
    (hcnt : t'.snapCount = t.snapCount) (hsn : C12SnapsRel st.store t.snaps t'.snaps) :
    C12SameCore t t' :=
  ⟨by rw [hs, hs', h.store], by rw [hs]; exact hc, hcnt, by rw [hs]; exact hsn⟩

/-- a read on one side only keeps the relation -/
private theorem sameCore_read_left {st st' : St} (h : C12SameCore st st') (hnd : NoDupKeys st.store)
    (op : Op) (hr : C12IsRead op = true) : C12SameCore (step st op) st' := by
  obtain ⟨f1, f2⟩ := read_frame st op hr
  refine sameCore_mk (step_store st op) rfl h (fun k => ?_) (by rw [f2]; exact h.cnt)
    (by rw [f1]; exact h.snaps)
  rw [core_read st hnd op hr k]
  exact h.cache k

/-- the same operation on both sides keeps the relation -/
private theorem sameCore_step {st st' : St} (h : C12SameCore st st') (hnd : NoDupKeys st.store)
    (op : Op) : C12SameCore (step st op) (step st' op) := by
  have hnd' : NoDupKeys st'.store := by rw [h.store]; exact hnd
  by_cases hr : C12IsRead op = true
  · obtain ⟨f1, f2⟩ := read_frame st op hr
    obtain ⟨g1, g2⟩ := read_frame st' op hr
    refine sameCore_mk (step_store st op) (step_store st' op) h (fun k => ?_)
      (by rw [f2, g2]; exact h.cnt) (by rw [f1, g1]; exact h.snaps)
    have := core_read st' hnd' op hr k
    rw [h.store] at this
    rw [core_read st hnd op hr k, this]
    exact h.cache k
  · cases op with
    | get k => simp [C12IsRead] at hr
    | range s e l r => simp [C12IsRead] at hr
    | iterate p l r => simp [C12IsRead] at hr
    | set k v =>
      have e1 : (step st (.set k v)).snaps = st.snaps ∧ (step st (.set k v)).snapCount = st.snapCount := by
        simp only [step]; unfold DiffDB.set; split
        · exact ⟨rfl, rfl⟩
        · split <;> exact ⟨rfl, rfl⟩
      have e2 : (step st' (.set k v)).snaps = st'.snaps ∧ (step st' (.set k v)).snapCount = st'.snapCount := by
        simp only [step]; unfold DiffDB.set; split
        · exact ⟨rfl, rfl⟩
        · split <;> exact ⟨rfl, rfl⟩
      refine sameCore_mk (step_store st _) (step_store st' _) h (fun k' => ?_)
        (by rw [e1.2, e2.2]; exact h.cnt) (by rw [e1.1, e2.1]; exact h.snaps)
      have := core_set st' k v k'
      rw [h.store] at this
      simp only [step]
      rw [core_set st k v k', this, h.cache k, h.cache k']
    | del k =>
      have e1 : (step st (.del k)).snaps = st.snaps ∧ (step st (.del k)).snapCount = st.snapCount := by
        simp only [step]; unfold del; split <;> exact ⟨rfl, rfl⟩
      have e2 : (step st' (.del k)).snaps = st'.snaps ∧ (step st' (.del k)).snapCount = st'.snapCount := by
        simp only [step]; unfold del; split <;> exact ⟨rfl, rfl⟩
      refine sameCore_mk (step_store st _) (step_store st' _) h (fun k' => ?_)
        (by rw [e1.2, e2.2]; exact h.cnt) (by rw [e1.1, e2.1]; exact h.snaps)
      have := core_del st' k k'
      rw [h.store] at this
      simp only [step]
      rw [core_del st k k', this, h.cache k, h.cache k']
    | snapshot =>
      refine sameCore_mk (step_store st _) (step_store st' _) h h.cache ?_ ?_
      · simp only [step, snapshot]; rw [h.cnt]
      · simp only [step, snapshot]
        exact ⟨⟨h.cnt.symm, h.cache⟩, h.snaps⟩
    | restore id =>
      rcases snapsRel_find _ _ h.snaps id with ⟨h1, h2⟩ | ⟨c, c', h1, h2, h3⟩
      · have a1 : step st (.restore id) = st := by simp only [step, restore, h1]
        have a2 : step st' (.restore id) = st' := by simp only [step, restore, h2]
        rw [a1, a2]; exact h
      · refine sameCore_mk (step_store st _) (step_store st' _) h ?_ ?_ ?_
        · simp only [step, restore, h1, h2]; exact h3
        · simp only [step, restore, h1, h2]; exact h.cnt
        · simp only [step, restore, h1, h2]; exact snapsRel_filter id _ _ h.snaps
    | deleteSnapshot id =>
      refine sameCore_mk (step_store st _) (step_store st' _) h h.cache h.cnt ?_
      simp only [step, deleteSnapshot]
      exact snapsRel_filter id _ _ h.snaps

/-- a history with its reads removed -/
def C12dropReads (ops : List Op) : List Op := ops.filter (fun op => !C12IsRead op)

/-- **Forgetting reads.**  A history and the same history without its reads end in staged stores with
the same staged content (current overlay and every snapshot), whatever the reads cached. -/
theorem C12_size_sameCore_dropReads (ops : List Op) : ∀ (st st' : St), C12SameCore st st' →
    NoDupKeys st.store → C12SameCore (run st ops) (run st' (C12dropReads ops)) := by
  induction ops with
  | nil => intro st st' h _; exact h
  | cons op r ih =>
    intro st st' h hnd
    have hnd1 : NoDupKeys (step st op).store := by rw [step_store]; exact hnd
    by_cases hr : C12IsRead op = true
    · have : C12dropReads (op :: r) = C12dropReads r := by simp [C12dropReads, List.filter, hr]
      rw [this]
      exact ih (step st op) st' (sameCore_read_left h hnd op hr) hnd1
    · have : C12dropReads (op :: r) = op :: C12dropReads r := by simp [C12dropReads, List.filter, hr]
      rw [this]
      exact ih (step st op) (step st' op) (sameCore_step h hnd op) hnd1

/-- what two staged stores with the same staged content agree on -/
structure C12Indist (a b : St) : Prop where
  obs : ∀ op, C12obs a op = C12obs b op
  effEq : ∀ k, eff a k = eff b k
  added : ∀ k, k ∈ (commit a).2.added ↔ k ∈ (commit b).2.added
  updated : ∀ k i, (k, i) ∈ (commit a).2.updated ↔ (k, i) ∈ (commit b).2.updated
  deleted : ∀ k i, (k, i) ∈ (commit a).2.deleted ↔ (k, i) ∈ (commit b).2.deleted
  committed : (commit a).1.store.Perm (commit b).1.store

theorem C12_size_sameCore_indist (a b : St) (h : C12SameCore a b) (ha : C12Inv a) (hb : C12Inv b) :
    C12Indist a b := by
  have he : ∀ k, eff a k = eff b k := by
    intro k
    unfold eff
    rw [h.store, effC_of_core, effC_of_core, h.cache k]
  have hsn : ∀ id, (findSnap a.snaps id).isSome = (findSnap b.snaps id).isSome := by
    intro id
    rcases snapsRel_find _ _ h.snaps id with ⟨h1, h2⟩ | ⟨c, c', h1, h2, _⟩ <;> simp [h1, h2]
  refine ⟨obs_congr a b ha hb he hsn h.cnt.symm, he, ?_, ?_, ?_, ?_⟩
  · intro k
    rw [C12_diff_added_iff a ha, C12_diff_added_iff b hb, h.store, he k]
  · intro k i
    rw [C12_diff_updated_iff a ha, C12_diff_updated_iff b hb, h.store, he k,
      dirty_of_core a.store a.cache k, dirty_of_core a.store b.cache k, h.cache k]
  · intro k i
    rw [C12_diff_deleted_iff a ha, C12_diff_deleted_iff b hb, h.store, he k]
  · exact SameMap.perm
      (fun k => (C12_commit_exact a ha k).trans ((he k).trans (C12_commit_exact b hb k).symm))
      (nodup_commit a ha.nodupS) (nodup_commit b hb.nodupS)

/-- **Reads can be inserted anywhere.**  Two histories with the same writes, deletes and snapshot
operations — differing in any number of Get / Range / Iterate calls at any positions — are
indistinguishable: every later operation returns the same, the effective maps agree, `Commit` writes the
same database and returns the same Added / Updated / Deleted lists. -/
theorem C12_size_reads_insertion (st : St) (h : C12Inv st) (ops ops' : List Op)
    (hsame : C12dropReads ops = C12dropReads ops') : C12Indist (run st ops) (run st ops') := by
  have i0 := C12_cache_invariant st h (C12dropReads ops)
  have i1 := C12_cache_invariant st h ops
  have i2 := C12_cache_invariant st h ops'
  have s1 := C12_size_sameCore_dropReads ops st st (C12_size_sameCore_refl st) h.nodupS
  have s2 := C12_size_sameCore_dropReads ops' st st (C12_size_sameCore_refl st) h.nodupS
  rw [← hsame] at s2
  have a := C12_size_sameCore_indist _ _ s1 i1 i0
  have b := C12_size_sameCore_indist _ _ s2 i2 i0
  refine ⟨fun op => (a.obs op).trans (b.obs op).symm, fun k => (a.effEq k).trans (b.effEq k).symm,
    fun k => (a.added k).trans (b.added k).symm, fun k i => (a.updated k i).trans (b.updated k i).symm,
    fun k i => (a.deleted k i).trans (b.deleted k i).symm, a.committed.trans b.committed.symm⟩

private def szOps : List Op := [.set [5] [55], .snapshot, .del [1], .set [2] [20], .restore 0, .set [6] []]
private def szOpsR : List Op :=
  [.iterate [] (-1) true, .set [5] [55], .get [5], .snapshot, .range [0] [9] 2 false, .del [1],
   .set [2] [20], .iterate [1] (-1) false, .restore 0, .get [1], .set [6] [], .iterate [] 0 false]
example : C12dropReads szOpsR = C12dropReads szOps := by rfl
example : (commit (run { store := szS } szOpsR)).2.added = [[6], [5]] ∧
    (commit (run { store := szS } szOps)).2.added = [[6], [5]] ∧
    (run { store := szS } szOpsR).cache.length = 6 ∧ (run { store := szS } szOps).cache.length = 2 := by
  decide

/-! ### releasing overlay entries -/

/-- dropping the overlay entries selected by `p` (a bounded read cache releases entries) -/
def C12release (p : Bytes → CV → Bool) (c : Cache) : Cache := c.filter (fun e => !p e.1 e.2)

private theorem clookup_filter (c : Cache) (hnd : NoDupKeys c) (q : Bytes × CV → Bool) (k : Bytes) :
    clookup (c.filter q) k = match clookup c k with
      | some cv => if q (k, cv) = true then some cv else none
      | none => none := by
  induction c with
  | nil => rfl
  | cons e r ih =>
    obtain ⟨k0, cv0⟩ := e
    unfold NoDupKeys at hnd
    simp only [List.map_cons, List.nodup_cons] at hnd
    have ihr := ih hnd.2
    by_cases hk : k0 = k
    · subst hk
      have hnone : clookup r k0 = none := clookup_none_of_not_mem' r k0 hnd.1
      by_cases hq : q (k0, cv0) = true
      · simp [List.filter, hq, clookup]
      · simp only [List.filter, hq, clookup, if_true]
        rw [ihr, hnone]
        simp
    · by_cases hq : q (k0, cv0) = true
      · simp only [List.filter, hq, clookup, hk, if_false]; exact ihr
      · simp only [List.filter, hq, clookup, hk, if_false]; exact ihr

private theorem clookup_release {c : Cache} (hnd : NoDupKeys c) {p : Bytes → CV → Bool} {k : Bytes} {cv : CV}
    (hl : clookup (C12release p c) k = some cv) : clookup c k = some cv ∧ p k cv = false := by
  unfold C12release at hl
  rw [clookup_filter c hnd] at hl
  cases hc : clookup c k with
  | none => rw [hc] at hl; cases hl
  | some cv' =>
    rw [hc] at hl
    simp only at hl
    by_cases hq : p k cv' = true
    · simp [hq] at hl
    · simp [hq] at hl; subst hl; exact ⟨rfl, by simpa using hq⟩

/-- **What a bounded read cache may release.**  Dropping from the overlay any set of entries that only
mirror the persisted value (`init = value =` the stored value, not dirty, not deleted) — at any time, any
number of them — is unobservable: every operation returns the same afterwards and `Commit` writes the
same database and the same diff. -/
theorem C12_size_release_mirrors (st : St) (h : C12Inv st) (p : Bytes → CV → Bool)
    (hp : ∀ k cv, p k cv = true → ∃ v, slookup st.store k = some v ∧ cv = C12mirror v) :
    C12Inv { st with cache := C12release p st.cache } ∧
      C12Indist st { st with cache := C12release p st.cache } := by
  have hinv : C12Inv { st with cache := C12release p st.cache } := by
    refine ⟨h.nodupS, ⟨nodup_filter _ _ h.cacheOk.nodupC, ?_, ?_, ?_⟩, h.snapsOk⟩
    · intro k cv hl; exact h.cacheOk.initOk k cv (clookup_release h.cacheOk.nodupC hl).1
    · intro k cv hl; exact h.cacheOk.delOk k cv (clookup_release h.cacheOk.nodupC hl).1
    · intro k cv hl; exact h.cacheOk.cleanOk k cv (clookup_release h.cacheOk.nodupC hl).1
  refine ⟨hinv, C12_size_sameCore_indist _ _ ⟨rfl, fun k => ?_, rfl, (C12_size_sameCore_refl st).snaps⟩ h hinv⟩
  simp only
  unfold C12core C12release
  rw [clookup_filter _ h.cacheOk.nodupC]
  cases hc : clookup st.cache k with
  | none => rfl
  | some cv =>
    simp only
    by_cases hq : p k cv = true
    · obtain ⟨v, hs, hm⟩ := hp k cv hq
      subst hm
      simp [hq, hs]
    · simp [hq]

/-- the criterion "no staged change" read as "not dirty and not deleted" -/
def C12cleanEntry : Bytes → CV → Bool := fun _ cv => !cv.dirty && !cv.deleted

/-- **… and what it may not.**  An entry that is neither dirty nor deleted is NOT necessarily a mirror of
the persisted data: a key the database does not hold, staged once, has `init = none`, `dirty = false`.
Releasing by that criterion loses the write: `Get` no longer finds the key and `Commit` does not add it. -/
theorem C12_size_release_clean_loses_writes :
    ∃ st : St, C12Inv st ∧
      (DiffDB.get st [1]).2 = some [5] ∧ (commit st).2.added = [[1]] ∧
      (DiffDB.get { st with cache := C12release C12cleanEntry st.cache } [1]).2 = none ∧
      (commit { st with cache := C12release C12cleanEntry st.cache }).2.added = [] := by
  refine ⟨DiffDB.set { store := [] } [1] [5], ?_, ?_⟩
  · exact (C12_set_refines _ (C12_inv_init [] (by simp [NoDupKeys])) [1] [5]).2
  · decide

example : C12release (fun k cv => decide (slookup szS k = some cv.value) && cv == C12mirror cv.value)
    (run szSt szReads).cache = szSt.cache := by decide

/-! ## 3. persisted keys the history never touches -/

/-- the operation stays away from the keys selected by `u`: point operations use other keys, scans
select other keys only -/
def C12Avoids (u : Bytes → Bool) : Op → Prop
  | .get k => u k = false
  | .set k _ => u k = false
  | .del k => u k = false
  | .range s e _ _ => ∀ k, inRange s e k = true → u k = false
  | .iterate p _ _ => ∀ k, hasPrefix k p = true → u k = false
  | _ => True

/-- two databases that hold the same values outside `u` (inside `u` they may hold anything, any number
of keys) -/
def C12AgreeOff (u : Bytes → Bool) (s s' : Store) : Prop := ∀ k, u k = false → slookup s k = slookup s' k

private theorem filter_sort_agree {u : Bytes → Bool} {s s' : Store} (hs : NoDupKeys s) (hs' : NoDupKeys s')
    (hag : C12AgreeOff u s s') (f : Bytes → Bool) (hf : ∀ k, f k = true → u k = false) (rev : Bool) :
    sortDir (s.filter (fun kv => f kv.1)) rev = sortDir (s'.filter (fun kv => f kv.1)) rev := by
  apply sortDir_eq_of_mem_iff _ _ (nodup_filter _ _ hs) (nodup_filter _ _ hs')
  intro ⟨k, v⟩
  simp only [List.mem_filter]
  rw [← slookup_iff_mem _ hs, ← slookup_iff_mem _ hs']
  constructor
  · rintro ⟨h1, h2⟩; exact ⟨by rw [← hag k (hf k h2)]; exact h1, h2⟩
  · rintro ⟨h1, h2⟩; exact ⟨by rw [hag k (hf k h2)]; exact h1, h2⟩

/-- two staged stores with literally the same overlay, snapshots and counter -/
private structure SameOverlay (a b : St) : Prop where
  cache : b.cache = a.cache
  snaps : b.snaps = a.snaps
  cnt : b.snapCount = a.snapCount

private theorem get_agree {a b : St} (h : SameOverlay a b) (k : Bytes)
    (hk : slookup a.store k = slookup b.store k) :
    (DiffDB.get b k).1.cache = (DiffDB.get a k).1.cache ∧ (DiffDB.get b k).2 = (DiffDB.get a k).2 ∧
      (DiffDB.get b k).1.snaps = (DiffDB.get a k).1.snaps ∧
      (DiffDB.get b k).1.snapCount = (DiffDB.get a k).1.snapCount := by
  unfold DiffDB.get
  rw [h.cache, ← hk]
  cases clookup a.cache k with
  | some cv => by_cases hd : cv.deleted = true <;> simp [hd, h.cache, h.snaps, h.cnt]
  | none => cases slookup a.store k <;> simp [h.cache, h.snaps, h.cnt]

private theorem set_agree {a b : St} (h : SameOverlay a b) (k v : Bytes)
    (hk : slookup a.store k = slookup b.store k) : SameOverlay (DiffDB.set a k v) (DiffDB.set b k v) := by
  unfold DiffDB.set ensureCache
  rw [h.cache, ← hk]
  cases clookup a.cache k with
  | some cv => exact ⟨rfl, h.snaps, h.cnt⟩
  | none => cases slookup a.store k <;> exact ⟨rfl, h.snaps, h.cnt⟩

private theorem del_agree {a b : St} (h : SameOverlay a b) (k : Bytes)
    (hk : slookup a.store k = slookup b.store k) : SameOverlay (del a k) (del b k) := by
  unfold del ensureCache
  rw [h.cache, ← hk]
  cases clookup a.cache k with
  | some cv => exact ⟨rfl, h.snaps, h.cnt⟩
  | none => cases slookup a.store k <;> exact ⟨rfl, h.snaps, h.cnt⟩

private theorem scan_agree {u : Bytes → Bool} {a b : St} (h : SameOverlay a b) (ha : NoDupKeys a.store)
    (hb : NoDupKeys b.store) (hag : C12AgreeOff u a.store b.store) (f : Bytes → Bool)
    (hf : ∀ k, f k = true → u k = false) (limit : Int) (rev : Bool) :
    SameOverlay (scan a f limit rev).1 (scan b f limit rev).1 ∧
      (scan b f limit rev).2 = (scan a f limit rev).2 := by
  unfold scan
  rw [h.cache, filter_sort_agree ha hb hag f hf rev]
  exact ⟨⟨rfl, h.snaps, h.cnt⟩, rfl⟩

private theorem step_agree {u : Bytes → Bool} {a b : St} (h : SameOverlay a b) (ha : NoDupKeys a.store)
    (hb : NoDupKeys b.store) (hag : C12AgreeOff u a.store b.store) (op : Op) (hop : C12Avoids u op) :
    SameOverlay (step a op) (step b op) ∧ C12obs b op = C12obs a op := by
  cases op with
  | get k =>
    obtain ⟨g1, g2, g3, g4⟩ := get_agree h k (hag k hop)
    exact ⟨⟨g1, g3, g4⟩, by simp only [C12obs, g2]⟩
  | set k v => exact ⟨set_agree h k v (hag k hop), rfl⟩
  | del k => exact ⟨del_agree h k (hag k hop), rfl⟩
  | range s e l r =>
    obtain ⟨g1, g2⟩ := scan_agree h ha hb hag (inRange s e) hop l r
    exact ⟨g1, by simp only [C12obs]; unfold range; rw [g2]⟩
  | iterate p l r =>
    obtain ⟨g1, g2⟩ := scan_agree h ha hb hag (fun k => hasPrefix k p) hop l r
    exact ⟨g1, by simp only [C12obs]; unfold iterate; rw [g2]⟩
  | snapshot =>
    refine ⟨⟨h.cache, ?_, ?_⟩, ?_⟩
    · simp only [step, snapshot, h.cache, h.snaps, h.cnt]
    · simp only [step, snapshot, h.cnt]
    · simp only [C12obs, snapshot, h.cnt]
  | restore id =>
    refine ⟨?_, by simp only [C12obs, restore_ok, h.snaps]⟩
    simp only [step, restore, h.snaps]
    cases findSnap a.snaps id with
    | none => exact h
    | some c => exact ⟨rfl, rfl, h.cnt⟩
  | deleteSnapshot id =>
    exact ⟨⟨h.cache, by simp only [step, deleteSnapshot, h.snaps], h.cnt⟩, rfl⟩

private theorem run_agree {u : Bytes → Bool} (ops : List Op) : ∀ {a b : St}, SameOverlay a b →
    NoDupKeys a.store → NoDupKeys b.store → C12AgreeOff u a.store b.store →
    (∀ op ∈ ops, C12Avoids u op) → SameOverlay (run a ops) (run b ops) := by
  induction ops with
  | nil => intro a b h _ _ _ _; exact h
  | cons op r ih =>
    intro a b h ha hb hag hops
    have h1 := (step_agree h ha hb hag op (hops op List.mem_cons_self)).1
    exact ih h1 (by rw [step_store]; exact ha) (by rw [step_store]; exact hb)
      (by rw [step_store, step_store]; exact hag) (fun o ho => hops o (List.mem_cons_of_mem _ ho))

/-- **Unrelated persisted keys.**  Let two databases hold the same values outside a key set `u`; inside
`u` one of them may hold any number of additional keys.  For every history that stays away from `u`
(point operations on other keys, scans whose bounds / prefix select other keys only — e.g. all work in
one module store while another module store holds 10^5 accounts) the two staged stores have literally
the same overlay, snapshots and counter; every further operation away from `u` returns the same;
`Commit` returns the same diff, and the committed databases again agree outside `u`. -/
theorem C12_size_unrelated_keys (u : Bytes → Bool) (s s' : Store) (hs : NoDupKeys s) (hs' : NoDupKeys s')
    (hag : C12AgreeOff u s s') (ops : List Op) (hops : ∀ op ∈ ops, C12Avoids u op) :
    (run { store := s' } ops).cache = (run { store := s } ops).cache ∧
    (run { store := s' } ops).snaps = (run { store := s } ops).snaps ∧
    (run { store := s' } ops).snapCount = (run { store := s } ops).snapCount ∧
    (∀ op, C12Avoids u op → C12obs (run { store := s' } ops) op = C12obs (run { store := s } ops) op) ∧
    (commit (run { store := s' } ops)).2 = (commit (run { store := s } ops)).2 ∧
    C12AgreeOff u (commit (run { store := s } ops)).1.store (commit (run { store := s' } ops)).1.store := by
  have h0 : SameOverlay ({ store := s } : St) { store := s' } := ⟨rfl, rfl, rfl⟩
  have h := run_agree (u := u) ops h0 hs hs' hag hops
  have e1 : (run { store := s } ops).store = s := C12_store_untouched _ ops
  have e2 : (run { store := s' } ops).store = s' := C12_store_untouched _ ops
  have i1 := C12_cache_invariant _ (C12_inv_init s hs) ops
  have i2 := C12_cache_invariant _ (C12_inv_init s' hs') ops
  refine ⟨h.cache, h.snaps, h.cnt, fun op hop => ?_, ?_, fun k hk => ?_⟩
  · exact (step_agree h (by rw [e1]; exact hs) (by rw [e2]; exact hs') (by rw [e1, e2]; exact hag) op hop).2
  · rw [commit_diff, commit_diff, h.cache]
  · rw [C12_commit_exact _ i1 k, C12_commit_exact _ i2 k]
    unfold eff effC
    rw [h.cache, e1, e2, hag k hk]

private def szU : Bytes → Bool := fun k => hasPrefix k [9]
private def szBig : Store := szS ++ [([9, 0], [1]), ([9, 1], [2]), ([9, 2], []), ([9, 3, 3], [4])]
private def szOpsU : List Op :=
  [.set [2] [21], .iterate [1] (-1) false, .snapshot, .del [4], .range [0] [8] 2 true, .restore 0, .set [7] [70]]
example : (commit (run { store := szBig } szOpsU)).2 = (commit (run { store := szS } szOpsU)).2 ∧
    (commit (run { store := szS } szOpsU)).2 = { added := [[7]], updated := [([2], [20])], deleted := [] } ∧
    C12obs (run { store := szBig } szOpsU) (.range [0] [8] (-1) false) =
      .kvs [([1], [10]), ([1, 0], [30]), ([2], [21]), ([4], [40]), ([7], [70])] := by decide
example : C12AgreeOff szU szS szBig := by
  intro k hk
  unfold szBig szS
  simp only [List.cons_append, List.nil_append, slookup]
  repeat' split
  all_goals first | rfl | (rename_i h; subst h; simp [szU, hasPrefix] at hk)

/-! ## 4. a staged key survives any number of reads -/

/-- **A staged write is never lost to reads.**  After `Set k v`, any number of reads of any size later
(scans over the whole database, point reads of other keys, in any view): `Get k` returns `v`, `Commit`
writes `v` under `k`, and when the database did not hold `k` the diff lists it as Added — whether the key
was staged once or many times. -/
theorem C12_size_staged_key_survives_reads (st : St) (h : C12Inv st) (k v : Bytes) (reads : List Op)
    (hr : ∀ op ∈ reads, C12IsRead op = true) :
    (DiffDB.get (run (DiffDB.set st k v) reads) k).2 = some v ∧
    slookup (commit (run (DiffDB.set st k v) reads)).1.store k = some v ∧
    (slookup st.store k = none → k ∈ (commit (run (DiffDB.set st k v) reads)).2.added) := by
  obtain ⟨hset, hinv⟩ := C12_set_refines st h k v
  obtain ⟨p1, p2, _, _, _⟩ := C12_size_reads_are_pure (DiffDB.set st k v) hinv reads hr
  have hinv' := C12_cache_invariant _ hinv reads
  have he : eff (run (DiffDB.set st k v) reads) k = some v := by rw [p1 k, hset k]; simp
  refine ⟨by rw [(C12_get_refines _ hinv' k).1, he], by rw [C12_commit_exact _ hinv' k, he], fun hs => ?_⟩
  rw [C12_diff_added_iff _ hinv', he, p2]
  have : (DiffDB.set st k v).store = st.store := step_store st (.set k v)
  rw [this]
  exact ⟨hs, rfl⟩

example : (DiffDB.get (run (DiffDB.set { store := szS } [3] [33]) szReads) [3]).2 = some [33] ∧
    (commit (run (DiffDB.set { store := szS } [3] [33]) szReads)).2.added = [[3]] := by decide
