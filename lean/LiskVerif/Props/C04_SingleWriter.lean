/-
C04 — the single-writer assumption of the consensus path.

Every C04 theorem (Props/C04*.lean) is stated for an operation LIST run by `Node.run`: the finalized height is
monotone, finalized blocks stay, events are the raises … along `ops.foldl step`.  The real
`Executer.process` / `processValidated` / `deleteBlock` take no lock; they read the stored finalized height and
the BFT heights, call the application, and only then write block + `max(current, maxHeightPrecommited)` with
`Chain.AddBlock`.  The list semantics is the semantics of the node only because ONE goroutine ever runs these
functions.  This file states that assumption about the source and connects it to the list theorems.

Part 1 (tie A, table `Gen/SingleWriter.lean`, regenerated from /repo by tools/writergen on every check run; test
files and `verif`-tagged hook files are not part of a production build and are skipped — the hooks
`VerifProcess` … call `process` directly, that is what they are for).  Theorems `C04_single_writer_*` by
`decide +kernel` on the table:
  * `process` has exactly one site: the call in the `case ctx := <-c.processCh` clause of the loop of
    `Executer.Start`;
  * `processValidated` / `deleteBlock` are called only by `process`, and handed (as method values) to
    `sync.NewSyncer` in `Init`; the synchronisers store them in `processor` / `reverter` and call them only
    from functions reached from `Syncer.Sync`, which only `process` calls: they run inside `process`;
  * `processGenesisBlock` and `PrepareCache` only in `Init` — and the engine calls `Init` before the single
    `go … consensusExec.Start()`;
  * `Chain.AddBlock` only in `processValidated` / `processGenesisBlock`, `Chain.RemoveBlock` only in
    `deleteBlock`;
  * no site is inside a `go` statement, a function literal or a `defer`; the functions from which a writer is
    reachable inside the two packages have exactly the entry points `Executer.Init` and `Executer.Start`;
  * the process queue: made with capacity 200, received from only in the loop, sent to only by
    `onBlockReceived` and `AddInternal`, each send a clause of a `select` with a `default` (cannot block);
    these two functions make no other call than the listed ones (they ENQUEUE, nothing else).
A new direct call of `process` (e.g. "when the queue is full, process the internal block in the caller's
goroutine") changes the table and breaks `C04_single_writer_process_only_in_start_loop`,
`C04_single_writer_entry_points`, `C04_single_writer_closure` and `C04_single_writer_enqueuers_only_enqueue`.

Part 2 (`Model/SingleWriter.lean`): with a single writer every concurrent execution of enqueuing goroutines and
the loop IS an operation list — `C04_single_writer_schedule_is_run` — so the list theorems hold along every
schedule: `C04_single_writer_fin_monotone_any_schedule`.  `C04_single_writer_two_writers_lose_update` shows
that the assumption is needed: with the read and the write of the finalized height of two goroutines
interleaved the stored height decreases (6 → 5), which is what harness pseudo-property C04WRITER observes on a
tree where a second goroutine enters `process`.

Tie B for this file: harness/c04/writer.go (C04WRITER) runs the real `Executer.Start` loop with an application
that blocks inside a block, fills the queue from other goroutines and checks, model-free, that all application
calls come from the loop's goroutine, that the calls of two blocks never overlap, and that the final database
equals the one of a twin node that processed the accepted blocks as a list.
-/
import LiskVerif.Gen.SingleWriter
import LiskVerif.Model.SingleWriter
import LiskVerif.Props.C04

open LiskVerif LiskVerif.Node
open LiskVerif.DiffDB (Store)
open LiskVerif.Gen.SingleWriter
open LiskVerif.SingleWriter

namespace LiskVerif.SingleWriterFacts

/-- (function, expression, kind, used for, context) of the sites of a tracked name -/
def sitesOf (name : String) : List (String × String × String × String × List String) :=
  (sites.filter (·.name == name)).map (fun s => (s.fn, s.expr, s.kind, s.of, s.ctx))

/-- the functions in which a tracked name occurs -/
def fnsOf (name : String) : List String := (sites.filter (·.name == name)).map (·.fn)

def escapes (s : Site) : Bool := s.ctx.contains "go" || s.ctx.contains "funclit" || s.ctx.contains "defer"

/-- functions of the closure that nothing in the two packages refers to: the ways INTO the writers -/
def entryPoints : List String :=
  (closure.filter (fun c => !(sites.any (fun s => s.name == c.2.2)))).map (fun c => c.2.1)

def enqueuerCallees (fn : String) : List (String × List String) :=
  (enqueuerCalls.filter (·.fn == fn)).map (fun c => (c.callee, c.ctx))

/-- exactly one call of `name` on `consensusExec` in the engine; returns (function, position, context) -/
def engineCall (name : String) : List (String × Nat × List String) :=
  (engineCalls.filter (·.name == name)).map (fun c => (c.fn, c.seq, c.ctx))

def initBeforeSingleStart : Bool :=
  match engineCall "Init", engineCall "Start" with
  | [(f, i, ci)], [(g, j, cj)] =>
    f == "Engine.Start" && g == "Engine.Start" && decide (i < j) && ci == [] && cj.contains "go"
  | _, _ => false

end LiskVerif.SingleWriterFacts

open LiskVerif.SingleWriterFacts

/-! ### Part 1: the source -/

/-- `Executer.process` is entered from exactly one place: the `case ctx := <-c.processCh` clause of the `for`
loop of `Executer.Start`. -/
theorem C04_single_writer_process_only_in_start_loop :
    sitesOf "process" =
      [("Executer.Start", "c.process", "call", "", ["for ", "select ctx := <-c.processCh"])] := by
  decide +kernel

/-- `processValidated` is called by `process` (valid block, tie-break, tie-break revert) and handed to the
synchronisers in `Init`; nowhere else. -/
theorem C04_single_writer_processValidated_sites :
    sitesOf "processValidated" =
      [("Executer.Init", "c.processValidated", "value", "arg of sync.NewSyncer", []),
       ("Executer.process", "c.processValidated", "call", "", ["if forkChocie.IsValidBlock()"]),
       ("Executer.process", "c.processValidated", "call", "", ["if forkChocie.IsTieBreak()"]),
       ("Executer.process", "c.processValidated", "call", "", ["if forkChocie.IsTieBreak()", "if err != nil"])] := by
  decide +kernel

/-- `deleteBlock` is called by `process` (tie-break) and handed to the synchronisers in `Init`. -/
theorem C04_single_writer_deleteBlock_sites :
    sitesOf "deleteBlock" =
      [("Executer.Init", "c.deleteBlock", "value", "arg of sync.NewSyncer", []),
       ("Executer.process", "c.deleteBlock", "call", "", ["if forkChocie.IsTieBreak()"])] := by
  decide +kernel

/-- the genesis block is processed and the block cache is loaded only by `Init`, and the engine runs `Init` on
its own goroutine before the one `go … consensusExec.Start()`: no loop exists yet. -/
theorem C04_single_writer_genesis_before_loop :
    fnsOf "processGenesisBlock" = ["Executer.Init"] ∧ fnsOf "PrepareCache" = ["Executer.Init"] ∧
    fnsOf "NewSyncer" = ["Executer.Init"] ∧ initBeforeSingleStart = true := by
  decide +kernel

/-- the loop is started once -/
theorem C04_single_writer_one_loop :
    (engineCall "Start").map (fun c => (c.1, c.2.2)) = [("Engine.Start", ["go", "funclit"])] := by
  decide +kernel

/-- the chain is written only by the three functions the C04 model transcribes -/
theorem C04_single_writer_chain_writes :
    fnsOf "AddBlock" = ["Executer.processValidated", "Executer.processGenesisBlock"] ∧
    fnsOf "RemoveBlock" = ["Executer.deleteBlock"] ∧
    (fnsOf "ClearTempBlocks").eraseDups = ["blockSyncer.Sync", "fastSyncer.Sync"] := by
  decide +kernel

/-- the synchronisers keep the two method values in `processor` / `reverter` (set once, in the literals of
`NewSyncer`, never stored to afterwards) and call them only in their own apply / delete loops … -/
theorem C04_single_writer_syncer_callbacks :
    sitesOf "processor" =
      [("blockSyncer.downloadAndProcess", "s.processor", "call", "", ["range downloader.downloaded"]),
       ("fastSyncer.Sync", "s.processor", "call", "", ["range downloadedBlocks"]),
       ("fastSyncer.restoreBlocks", "s.processor", "call", "", ["range blocks"]),
       ("NewSyncer", "processor", "value", "field blockSyncer.processor", []),
       ("NewSyncer", "processor", "value", "field fastSyncer.processor", [])] := by
  decide +kernel

/-- the same for the delete callback -/
theorem C04_single_writer_syncer_reverter :
    sitesOf "reverter" =
      [("blockSyncer.deleteTillCommonBlock", "s.reverter", "call", "", ["for lastBlockHeight != commonBlock.Height"]),
       ("fastSyncer.deleteTillCommonBlock", "s.reverter", "call", "", ["for lastBlockHeight != commonBlock.Height"]),
       ("NewSyncer", "reverter", "value", "field blockSyncer.reverter", []),
       ("NewSyncer", "reverter", "value", "field fastSyncer.reverter", [])] := by
  decide +kernel

/-- … and these loops are reached only from `Syncer.Sync`, which only `process` calls (different-chain case):
the callbacks run inside `process`, on the loop's goroutine. -/
theorem C04_single_writer_sync_inside_process :
    sitesOf "Sync" =
      [("Executer.process", "c.syncer.Sync", "call", "", ["if forkChocie.IsDifferentChain()"]),
       ("Syncer.Sync", "s.fastSyncer.Sync", "call", "", ["if s.shouldFastSync(ctx)", "for "]),
       ("Syncer.Sync", "s.blockSyncer.Sync", "call", "", ["if s.shouldSync(ctx)", "for "])] ∧
    fnsOf "downloadAndProcess" = ["blockSyncer.Sync"] ∧
    fnsOf "deleteTillCommonBlock" = ["blockSyncer.Sync", "fastSyncer.Sync", "fastSyncer.restoreBlocks"] ∧
    fnsOf "restoreBlocks" = ["fastSyncer.Sync"] := by
  decide +kernel

/-- no site of a writer (or of a function reaching one) is inside a `go` statement, a function literal or a
`defer`: no writer is started on, or can escape to, another goroutine. -/
theorem C04_single_writer_no_goroutine : sites.all (fun s => !escapes s) = true := by
  decide +kernel

/-- the functions from which a writer is reachable inside pkg/consensus and pkg/consensus/sync … -/
theorem C04_single_writer_closure :
    closure.map (fun c => c.2.1) =
      ["Executer.Init", "Executer.Start", "Executer.process", "Executer.processValidated",
       "Executer.processGenesisBlock", "Executer.deleteBlock", "blockSyncer.Sync",
       "blockSyncer.downloadAndProcess", "blockSyncer.deleteTillCommonBlock", "fastSyncer.Sync",
       "fastSyncer.deleteTillCommonBlock", "fastSyncer.restoreBlocks", "NewSyncer", "Syncer.Sync"] ∧
    tracked =
      ["AddBlock", "ClearTempBlocks", "NewSyncer", "PrepareCache", "RemoveBlock", "Sync", "deleteBlock",
       "deleteTillCommonBlock", "downloadAndProcess", "process", "processGenesisBlock", "processValidated",
       "processor", "restoreBlocks", "reverter"] := by
  decide +kernel

/-- … have exactly two entry points: `Init` (genesis, before the loop exists) and the `Start` loop. -/
theorem C04_single_writer_entry_points : entryPoints = ["Executer.Init", "Executer.Start"] := by
  decide +kernel

/-- the process queue: capacity 200; the loop is the only receiver; `onBlockReceived` and `AddInternal` are the
only senders and each send is a clause of a `select` with a `default` clause (it cannot block); there is no
other reference to the channel. -/
theorem C04_single_writer_queue :
    queueOps =
      [⟨"consensus", "NewExecuter", "make", "make(chan *ProcessContext, 200)", some 200, false, []⟩,
       ⟨"consensus", "Executer.Start", "recv", "<-c.processCh", none, false, ["for ", "select ctx := <-c.processCh"]⟩,
       ⟨"consensus", "Executer.onBlockReceived", "send", "c.processCh <- ctx", none, true, ["select c.processCh <- ctx"]⟩,
       ⟨"consensus", "Executer.AddInternal", "send", "c.processCh <- ctx", none, true, ["select c.processCh <- ctx"]⟩] := by
  decide +kernel

/-- `AddInternal` and `onBlockReceived` only ENQUEUE: besides the send they decode the block, publish the
network-block event, build the context and log "queue is full" in the `default` clause — no other call, in
particular none of a tracked name. -/
theorem C04_single_writer_enqueuers_only_enqueue :
    enqueuerCallees "Executer.AddInternal" =
      [("context.Background", []), ("c.logger.Info", ["select default"])] ∧
    enqueuerCallees "Executer.onBlockReceived" =
      [("blockchain.NewBlock", []), ("event.Data", []), ("panic", ["if err != nil"]), ("c.events.Publish", []),
       ("context.Background", []), ("event.PeerID", []), ("c.logger.Info", ["select default"])] ∧
    enqueuerCalls.all (fun c => !(tracked.contains c.name)) = true := by
  decide +kernel

/-! ### Part 2: a single writer makes every schedule a list -/

/-- **Every concurrent execution is an operation list.**  Enqueuing goroutines offer operations in any
interleaving with the loop (queue of any capacity, offers dropped when it is full); the node state reached is
`Node.run` over the operations the loop took, and these are, in order, a sublist of what was offered. -/
theorem C04_single_writer_schedule_is_run (cd : Codecs) (cfg : Cfg) (slot : Slot) (cap : Nat) (s : St)
    (acts : List (Act Op)) :
    ∃ ops, ops.Sublist (offered acts) ∧
      (exec cap (step cd cfg slot) (init s) acts).applied = ops ∧
      (exec cap (step cd cfg slot) (init s) acts).st = run cd cfg slot s ops := by
  refine ⟨(exec cap (step cd cfg slot) (init s) acts).applied, ?_, rfl, ?_⟩
  · have h := exec_sublist cap (step cd cfg slot) acts (init s) [] (by simp [init])
    have h2 : ((exec cap (step cd cfg slot) (init s) acts).applied).Sublist
        ((exec cap (step cd cfg slot) (init s) acts).applied ++ (exec cap (step cd cfg slot) (init s) acts).queue) :=
      List.sublist_append_left _ _
    simpa using h2.trans h
  · exact exec_st cap (step cd cfg slot) s acts (init s) rfl

/-- any invariant of single operations holds along every schedule -/
theorem C04_single_writer_invariant_any_schedule {σ α : Type} (cap : Nat) (f : σ → α → σ) (P : σ → Prop)
    (s : σ) (h0 : P s) (hstep : ∀ t a, P t → P (f t a)) (acts : List (Act α)) :
    P (exec cap f (init s) acts).st := by
  rw [exec_st cap f s acts (init s) rfl]
  generalize (exec cap f (init s) acts).applied = l
  induction l generalizing s with
  | nil => exact h0
  | cons a r ih => exact ih (f s a) (hstep s a h0)

/-- **The finalized height never decreases along any schedule** of enqueuers and the loop, between any two
points of the schedule — `C04_fin_monotone_prefix` transferred.  `hok`: the inputs of the operations the loop
ends up taking satisfy the hypotheses of the list theorem (block execution results well formed, see
Props/C04.lean). -/
theorem C04_single_writer_fin_monotone_any_schedule (cd : Codecs) (cfg : Cfg) (slot : Slot) (base : Store)
    (baseH : Nat) (hbase : BaseOK cd base baseH) (s : St) (c : Chain) (hR : Ref cd base baseH s c) (cap : Nat)
    (a b : List (Act Op))
    (hok : RunOK cd cfg slot base s c (exec cap (step cd cfg slot) (init s) (a ++ b)).applied) :
    ∃ f f', finOf (exec cap (step cd cfg slot) (init s) a).st.db = some f ∧
      finOf (exec cap (step cd cfg slot) (init s) (a ++ b)).st.db = some f' ∧ f ≤ f' := by
  obtain ⟨more, hm⟩ := exec_applied_prefix cap (step cd cfg slot) b (exec cap (step cd cfg slot) (init s) a)
  rw [← exec_append] at hm
  rw [exec_st cap (step cd cfg slot) s a (init s) rfl, exec_st cap (step cd cfg slot) s (a ++ b) (init s) rfl]
  rw [hm] at hok ⊢
  exact C04_fin_monotone_prefix cd cfg slot base baseH hbase s c _ more hR hok

/-- **Two writers lose an update.**  Goroutine 0 (the loop, block X with `maxHeightPrecommited = 5`) reads the
stored finalized height 5; goroutine 1 (a second goroutine inside `process`, block Y with 6) reads 5 and
writes 6; goroutine 0 writes `max 5 5 = 5`: the stored finalized height goes 5, 6, 5.  Run one after the other
(either order) the same halves never decrease it. -/
theorem C04_single_writer_two_writers_lose_update :
    TwoWriters.trace ⟨5, fun _ => 0⟩ [.read 0, .read 1, .write 1 6, .write 0 5] = [5, 5, 6, 5] ∧
    TwoWriters.trace ⟨5, fun _ => 0⟩ [.read 0, .write 0 5, .read 1, .write 1 6] = [5, 5, 5, 6] ∧
    TwoWriters.trace ⟨5, fun _ => 0⟩ [.read 1, .write 1 6, .read 0, .write 0 5] = [5, 6, 6, 6] := by
  decide

/-! ### non-vacuity -/

/-- a schedule on the example node of Props/C04.lean: two goroutines offer the four operations of `ops1` while
the loop takes them with a queue of capacity 2 — one offer is dropped (queue full), the rest is applied in
order. -/
example :
    (exec 2 (step Example.cd Example.cfg Example.slot) (init Example.s0)
      [.offer (Op.restart), .offer (Op.deleteTip true), .offer (Op.restart), .take, .offer (Op.restart), .take, .take, .take]).applied.length = 3 := by
  decide

example : ∃ f f', finOf (exec 200 (step Example.cd Example.cfg Example.slot) (init Example.s0) []).st.db = some f ∧
    finOf (exec 200 (step Example.cd Example.cfg Example.slot) (init Example.s0)
      ([] ++ ((Example.ops1.map Act.offer) ++ [.take, .take, .take, .take]))).st.db = some f' ∧ f ≤ f' :=
  C04_single_writer_fin_monotone_any_schedule _ _ _ _ _ Example.baseOK _ _ Example.ref0 200 [] _
    (by
      have : (exec 200 (step Example.cd Example.cfg Example.slot) (init Example.s0)
          ([] ++ ((Example.ops1.map Act.offer) ++ [.take, .take, .take, .take]))).applied = Example.ops1 := by
        simp [exec, stepAct, init, Example.ops1]
      rw [this]; exact Example.runOK1)
