/-
C01 — what ONE block header may add to the vote store, for every value of its `uint32` fields.

The mechanism of finality safety (properties.jsonl C01: "prevotes only for heights above the generator's
maxHeightGenerated", "precommit only for blocks already prevoted by > 2/3") as a statement about a single
application of `BFT.process` (the transcription of `Module.BeforeTransactionsExecute`), with NO bound
on `maxHeightGenerated` / `maxHeightPrevoted` and the only assumption `height < 2^32`:

* `C01_arith_vote_weight_per_header`: every entry of the window keeps its identity; its prevote weight is
  unchanged or grows by exactly the BFT weight of the header's generator at that height, the latter only
  for heights above the header's `maxHeightGenerated` and only if `maxHeightGenerated < height`; its
  precommit weight is unchanged or grows by exactly that weight, only if the entry already carried a
  prevote quorum and `maxHeightGenerated < height`.
* `C01_arith_max_claim_adds_nothing`: a header claiming `maxHeightGenerated = 2^32-1` (the largest value
  a Byzantine generator can put into the field; accepted by `IsHeaderContradictingChain` again and again)
  adds nothing at all.

The same clause is checked model-free on the real module after every header of every generated chain /
fork-tree branch (harness/bftsim/votes.go, signatures `bft-vote-rule:*`). The arithmetic behind it is
tied to the Go source in `Props/C02_Arith.lean`.
-/
import LiskVerif.Model.BFTU32
import LiskVerif.Lemmas.BFT
import LiskVerif.Props.C02_Arith

open LiskVerif LiskVerif.BFT

/-- the generator `gen` holds BFT weight `w` in the parameters in force at height `x` -/
def C01WeightAt (g : Nat → Option Params) (gen : Bytes) (x w : Nat) : Prop :=
  ∃ p v, g x = some p ∧ findValidator p.validators gen = some v ∧ v.weight = w

/-- what one header (generator `gen`, prevotes from height `lo` on) may do to one entry of the window -/
def C01VoteDelta (g : Nat → Option Params) (gen : Bytes) (lo : Nat) (a b : BlockInfo) : Prop :=
  SameMeta a b ∧
  (b.prevoteWeight = a.prevoteWeight ∨
    (lo ≤ a.height ∧ ∃ w, C01WeightAt g gen a.height w ∧ b.prevoteWeight = a.prevoteWeight + w)) ∧
  (b.precommitWeight = a.precommitWeight ∨
    (PvQ g a ∧ ∃ w, C01WeightAt g gen a.height w ∧ b.precommitWeight = a.precommitWeight + w))

private def PcDelta (g : Nat → Option Params) (gen : Bytes) (a b : BlockInfo) : Prop :=
  SameMeta a b ∧ b.prevoteWeight = a.prevoteWeight ∧
  (b.precommitWeight = a.precommitWeight ∨
    (PvQ g a ∧ ∃ w, C01WeightAt g gen a.height w ∧ b.precommitWeight = a.precommitWeight + w))

private def PvDelta (g : Nat → Option Params) (gen : Bytes) (lo : Nat) (a b : BlockInfo) : Prop :=
  SameMeta a b ∧ b.precommitWeight = a.precommitWeight ∧
  (b.prevoteWeight = a.prevoteWeight ∨
    (lo ≤ a.height ∧ ∃ w, C01WeightAt g gen a.height w ∧ b.prevoteWeight = a.prevoteWeight + w))

private theorem PcDelta.refl (g : Nat → Option Params) (gen : Bytes) (a : BlockInfo) : PcDelta g gen a a :=
  ⟨SameMeta.refl a, rfl, Or.inl rfl⟩
private theorem PvDelta.refl (g : Nat → Option Params) (gen : Bytes) (lo : Nat) (a : BlockInfo) : PvDelta g gen lo a a :=
  ⟨SameMeta.refl a, rfl, Or.inl rfl⟩
private theorem C01VoteDelta.refl (g : Nat → Option Params) (gen : Bytes) (lo : Nat) (a : BlockInfo) :
    C01VoteDelta g gen lo a a := ⟨SameMeta.refl a, Or.inl rfl, Or.inl rfl⟩

private theorem precommitLoop_delta (s : State) (gen : Bytes) (minH : Nat) :
    ∀ (l : List BlockInfo) (done : Bool) (l' : List BlockInfo) (first : Option Nat),
      precommitLoop s gen minH l done = .ok (l', first) → All2 (PcDelta (getParams s) gen) l l'
  | [], done, l', first, h => by
    simp only [precommitLoop] at h
    cases h; trivial
  | b :: rest, done, l', first, h => by
    simp only [precommitLoop] at h
    split at h
    · cases h; exact All2.refl (PcDelta.refl _ _) _
    · split at h
      · cases h
      · rename_i p hp
        split at h
        · rename_i hq
          split at h
          · cases h
          · rename_i v hv
            split at h
            · cases h
            · rename_i rest' first' hrec
              injection h with h; injection h with h1 h2
              subst h1
              refine ⟨⟨SameMeta.refl b, rfl, Or.inr ⟨⟨p, hp, hq⟩, v.weight, ⟨p, v, hp, hv, rfl⟩, rfl⟩⟩, ?_⟩
              exact precommitLoop_delta s gen minH rest true rest' first' hrec
        · split at h
          · cases h
          · rename_i rest' first' hrec
            injection h with h; injection h with h1 h2
            subst h1
            exact ⟨PcDelta.refl _ _ b, precommitLoop_delta s gen minH rest done rest' first' hrec⟩

private theorem prevoteLoop_delta (s : State) (gen : Bytes) (minH : Nat) :
    ∀ (l l' : List BlockInfo), prevoteLoop s gen minH l = .ok l' → All2 (PvDelta (getParams s) gen minH) l l'
  | [], l', h => by
    simp only [prevoteLoop] at h
    cases h; trivial
  | b :: rest, l', h => by
    simp only [prevoteLoop] at h
    split at h
    · cases h; exact All2.refl (PvDelta.refl _ _ _) _
    · rename_i hge
      split at h
      · cases h
      · rename_i p hp
        split at h
        · cases h
        · rename_i v hv
          split at h
          · cases h
          · rename_i rest' hrec
            injection h with h
            subst h
            refine ⟨⟨SameMeta.refl b, rfl, Or.inr ⟨Nat.le_of_not_lt hge, v.weight, ⟨p, v, hp, hv, rfl⟩, rfl⟩⟩, ?_⟩
            exact prevoteLoop_delta s gen minH rest rest' hrec

private theorem delta_comp (g : Nat → Option Params) (gen : Bytes) (lo : Nat) (a b c : BlockInfo)
    (h1 : PcDelta g gen a b) (h2 : PvDelta g gen lo b c) : C01VoteDelta g gen lo a c := by
  obtain ⟨⟨a1, a2, a3, a4⟩, a5, a6⟩ := h1
  obtain ⟨⟨b1, b2, b3, b4⟩, b5, b6⟩ := h2
  refine ⟨⟨a1.trans b1, a2.trans b2, a3.trans b3, a4.trans b4⟩, ?_, ?_⟩
  · rcases b6 with b6 | ⟨hlo, w, hw, b6⟩
    · exact Or.inl (b6.trans a5)
    · refine Or.inr ⟨by rw [a1]; exact hlo, w, by rw [a1]; exact hw, ?_⟩
      rw [b6, a5]
  · rcases a6 with a6 | ⟨hq, w, hw, a6⟩
    · exact Or.inl (b5.trans a6)
    · exact Or.inr ⟨hq, w, hw, b5.trans a6⟩

/-- `updatePrevotesPrecommits`: either nothing changes (the header implies no votes or its generator is not
an active validator), or `maxHeightGenerated < height` and every entry changes by `C01VoteDelta` with the
prevote range starting at `max(maxHeightGenerated+1, minActiveHeight)` -/
private theorem updateVotes_delta {s s' : State} (h : updateVotes s = .ok s') :
    s'.infos = s.infos ∨
    ∃ n rest, s.infos = n :: rest ∧ n.mhg < n.height ∧
      All2 (C01VoteDelta (getParams s) n.gen ((n.mhg + 1) % u32)) s.infos s'.infos := by
  unfold updateVotes at h
  split at h
  · cases h; exact Or.inl rfl
  · rename_i n rest hs
    split at h
    · cases h; exact Or.inl rfl
    · rename_i hg
      split at h
      · cases h; exact Or.inl rfl
      · simp only [] at h
        split at h
        · cases h
        · rename_i infos1 first h1
          split at h
          · cases h
          · rename_i infos2 h2
            cases h
            refine Or.inr ⟨n, rest, hs, Nat.lt_of_not_le hg, ?_⟩
            have hc := All2.comp (delta_comp (getParams s) n.gen _) (precommitLoop_delta _ _ _ _ _ _ _ h1)
              (prevoteLoop_delta _ _ _ _ _ h2)
            refine All2.imp ?_ hc
            intro a b ⟨m, pv, pc⟩
            refine ⟨m, ?_, pc⟩
            rcases pv with pv | ⟨hlo, hw⟩
            · exact Or.inl pv
            · exact Or.inr ⟨Nat.le_trans (Nat.le_max_left _ _) hlo, hw⟩

/-- **the vote weight a single header adds** (`BFT.process` = `Module.BeforeTransactionsExecute`), for every
value of `maxHeightGenerated` / `maxHeightPrevoted` and every height below 2^32: per entry of the window at
most the BFT weight of the header's generator at that height; prevote weight only above the header's
`maxHeightGenerated` and only if `maxHeightGenerated < height`; precommit weight only on entries that
already carried a prevote quorum and only if `maxHeightGenerated < height`. -/
theorem C01_arith_vote_weight_per_header (s s' : State) (h : Header) (hh : h.height < 2 ^ 32)
    (hp : process s h = .ok s') :
    ∃ k, 3 * s.batchSize = k + 1 ∧
      All2 (fun a b => C01VoteDelta (getParams s) h.gen (h.mhg + 1) a b ∧
          ((b.prevoteWeight ≠ a.prevoteWeight ∨ b.precommitWeight ≠ a.precommitWeight) → h.mhg < h.height))
        (newInfo h :: s.infos.take k) s'.infos := by
  unfold process at hp
  simp only [] at hp
  split at hp
  · cases hp
  rename_i hne
  split at hp
  · cases hp
  split at hp
  · cases hp
  rename_i s1 hs1
  split at hp
  · cases hp
  split at hp
  · cases hp
  cases hp
  simp only []
  cases hk : 3 * s.batchSize with
  | zero => simp [insertInfo, hk] at hne
  | succ k =>
    refine ⟨k, rfl, ?_⟩
    have hins : insertInfo s h = newInfo h :: s.infos.take k := by
      simp [insertInfo, hk, newInfo, List.take_succ_cons]
    rcases updateVotes_delta hs1 with hsame | ⟨n, rest, hs, hlt, hall⟩
    · simp only [] at hsame
      rw [hsame, hins]
      refine All2.refl ?_ _
      intro a
      exact ⟨C01VoteDelta.refl _ _ _ a, fun hx => by rcases hx with hx | hx <;> exact absurd rfl hx⟩
    · simp only [] at hs hall
      rw [hins] at hs hall
      have hn : n = newInfo h := ((List.cons.inj hs).1).symm
      subst hn
      have hg' : getParams { s with infos := newInfo h :: List.take k s.infos } = getParams s := getParams_congr rfl
      rw [hg'] at hall
      have hlt' : h.mhg < h.height := hlt
      have hmod : (h.mhg + 1) % u32 = h.mhg + 1 := Nat.mod_eq_of_lt (by simp only [u32]; omega)
      simp only [newInfo] at hall
      rw [hmod] at hall
      exact All2.imp (fun a b hd => ⟨hd, fun _ => hlt'⟩) hall

/-- **a header claiming `maxHeightGenerated = 2^32-1` adds nothing**: for every height (a `uint32`), every
generator and every state the window after `process` is the old window with the new entry in front, all
weights untouched — however often such a header is processed -/
theorem C01_arith_max_claim_adds_nothing (s s' : State) (h : Header) (hh : h.height < 2 ^ 32)
    (hm : h.mhg = 2 ^ 32 - 1) (hp : processU32 s h = .ok s') :
    s'.infos = insertInfo s h ∧ s'.active = s.active :=
  C02_arith_no_votes_for_every_value_u32 s s' h (by omega) hp

/-- non-vacuity of `C01_arith_vote_weight_per_header`: an honest header that does add weight (validator of
weight 2 alone, prevote threshold 2: its second block prevotes both blocks and precommits the first) -/
example : (process
    { batchSize := 1, mhp := 0, mhpc := 0, mhc := 0,
      infos := [{ height := 1, gen := [0x10], mhg := 0, mhp := 0, prevoteWeight := 2 }],
      active := [{ address := [0x10], minActiveHeight := 1, largestHeightPrecommit := 0 }],
      params := [(1, { prevoteThreshold := 2, precommitThreshold := 2, certificateThreshold := 2,
                       validators := [{ address := [0x10], weight := 2 }] })] }
    { height := 2, gen := [0x10], mhg := 1, mhp := 1 }).toOption.map
      (fun s' => (s'.infos.map (·.prevoteWeight), s'.infos.map (·.precommitWeight))) =
    some ([2, 2], [0, 2]) := by decide +kernel
