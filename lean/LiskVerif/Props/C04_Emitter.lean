/-
C04 — "a finalization event is emitted exactly for those raises": what a subscriber of the consensus events
(the generator certifies the range between `Original` and `Next` of every `EventBlockFinalize`) actually
RECEIVES.  `Props/C04*.lean` prove which events `processValidated` publishes; this file proves, about the
model of `pkg/event` (`Model/Emitter.lean`, tied to the code by the pseudo-property EMITTER), that a
subscriber that keeps receiving gets exactly the messages published on its topic after it subscribed, each
once, in publication order — for publication bursts of ANY length (fast sync, block sync and temp-block
restores raise finality hundreds of times in a row) and whatever other subscribers and topics do.
-/
import LiskVerif.Lemmas.Emitter

open LiskVerif LiskVerif.Emitter

/-- the messages a history publishes on a topic, in order -/
def C04Emitter.msgsOn (t : String) : List Op → List Msg
  | [] => []
  | .publish t' m :: r => if t' == t then m :: msgsOn t r else msgsOn t r
  | _ :: r => msgsOn t r

/-- operations that remove nobody: allocation, further subscribers, publications -/
def C04Emitter.keeps : Op → Bool
  | .newChan | .subscribe _ | .publish _ _ => true
  | _ => false

open C04Emitter

private theorem count_one_of_nodup {l : List Chan} (h : l.Nodup) {c : Chan} (hc : c ∈ l) : l.count c = 1 := by
  induction l with
  | nil => cases hc
  | cons x r ih =>
    have hn := List.nodup_cons.mp h
    rcases List.mem_cons.mp hc with rfl | hc'
    · rw [List.count_cons_self, List.count_eq_zero_of_not_mem hn.1]
    · have hne : (x == c) = false := by
        simp; intro e; exact hn.1 (e ▸ hc')
      rw [List.count_cons, ih hn.2 hc']; simp [hne]

private theorem keeps_fresh {o : Op} (h : keeps o = true) : o.fresh = true := by
  cases o <;> simp [keeps, Op.fresh] at *

/-- main lemma: a channel registered (once — all channels are distinct) under topic `t` receives, during any
history of allocations, further subscriptions and publications, exactly the publications on `t`, in order -/
theorem C04_emitter_registered_channel_receives_exactly (s : St) (t : String) (c : Chan) (hi : Inv s)
    (hr : (t, c) ∈ s.subs) (ops : List Op) (hk : ∀ o ∈ ops, keeps o = true) :
    (ops.foldl step s).recvOf c = s.recvOf c ++ msgsOn t ops ∧ (ops.foldl step s).dead = false := by
  induction ops generalizing s with
  | nil => simp [msgsOn, hi.alive]
  | cons o r ih =>
    have hko := hk o (by simp)
    have hi' := inv_step hi o (keeps_fresh hko)
    have hr' : (t, c) ∈ (step s o).subs := by
      unfold step
      simp only [hi.alive, Bool.false_eq_true, if_false]
      cases o with
      | newChan => exact hr
      | subscribe t' => exact List.mem_append_left _ hr
      | publish t' m =>
        have sp := sendAll_spec m (s.chansOf t') s hi.alive (hi.chansOf_open t')
        show (t, c) ∈ (sendAll s m (s.chansOf t')).subs
        rw [sp.2.1]; exact hr
      | on _ _ => simp [keeps] at hko
      | close => simp [keeps] at hko
      | unsubscribeAll _ => simp [keeps] at hko
      | unsubscribe _ _ => simp [keeps] at hko
    have ih' := ih (step s o) hi' hr' (fun x hx => hk x (by simp [hx]))
    rw [List.foldl_cons, ih'.1]
    refine ⟨?_, ih'.2⟩
    cases o with
    | newChan => simp [step, hi.alive, newChan, St.recvOf, msgsOn]
    | subscribe t' => simp [step, hi.alive, subscribe, on, newChan, St.recvOf, msgsOn]
    | publish t' m =>
      have sp := sendAll_spec m (s.chansOf t') s hi.alive (hi.chansOf_open t')
      have hstep : (step s (.publish t' m)).recvOf c = s.recvOf c ++ List.replicate ((s.chansOf t').count c) m := by
        unfold step
        simp only [hi.alive, Bool.false_eq_true, if_false]
        exact sp.2.2.2.2.2 c
      rw [hstep]
      by_cases ht : t' = t
      · subst ht
        have : (s.chansOf t').count c = 1 := count_one_of_nodup (hi.chansOf_nodup t') (mem_chansOf.mpr hr)
        simp [this, msgsOn]
      · have : (s.chansOf t').count c = 0 := by
          apply List.count_eq_zero_of_not_mem
          intro hm
          have e := inj_of_nodup_map hi.nodup (mem_chansOf.mp hm) hr rfl
          exact ht (congrArg Prod.fst e)
        have hne : (t' == t) = false := by simp [ht]
        simp [this, msgsOn, hne]
    | on _ _ => simp [keeps] at hko
    | close => simp [keeps] at hko
    | unsubscribeAll _ => simp [keeps] at hko
    | unsubscribe _ _ => simp [keeps] at hko

/-- every allocated-but-unused channel has an empty log: logs only ever belong to allocated channels -/
private theorem recv_alloc (ops : List Op) (h : ∀ o ∈ ops, o.fresh = true) :
    ∀ d, (run ops).next ≤ d → (run ops).recvOf d = [] := by
  suffices H : ∀ (s : St), Inv s → (∀ d, s.next ≤ d → s.recvOf d = []) → ∀ ops : List Op, (∀ o ∈ ops, o.fresh = true) →
      ∀ d, (ops.foldl step s).next ≤ d → (ops.foldl step s).recvOf d = [] by
    exact H {} inv_init (by intro d _; rfl) ops h
  intro s hi hs ops
  induction ops generalizing s with
  | nil => intro _ d hd; exact hs d hd
  | cons o r ih =>
    intro hf
    have hfo := hf o (by simp)
    have hi' := inv_step hi o hfo
    apply ih (step s o) hi' _ (fun x hx => hf x (by simp [hx]))
    intro d hd
    have hmono : s.next ≤ (step s o).next := by
      unfold step
      simp only [hi.alive, Bool.false_eq_true, if_false]
      cases o with
      | newChan => exact Nat.le_succ _
      | on _ _ => simp [Op.fresh] at hfo
      | subscribe _ => exact Nat.le_succ _
      | publish t m =>
        have sp := sendAll_spec m (s.chansOf t) s hi.alive (hi.chansOf_open t)
        show s.next ≤ (sendAll s m (s.chansOf t)).next
        rw [sp.2.2.2.2.1]; exact Nat.le_refl _
      | close =>
        have sp := closeList_spec (s.subs.map (·.2)) s hi.alive hi.nodup (by
          intro x hx
          obtain ⟨p, hp, rfl⟩ := List.mem_map.mp hx
          exact hi.open_ p hp)
        simp only [closeAll, sp.1, Bool.false_eq_true, if_false]
        show s.next ≤ (closeList s _).next
        rw [sp.2.2.2.2.1]; exact Nat.le_refl _
      | unsubscribeAll t =>
        simp only [unsubscribeAll]
        split
        · exact Nat.le_refl _
        · have sp := closeList_spec (s.chansOf t) s hi.alive (hi.chansOf_nodup t) (hi.chansOf_open t)
          simp only [sp.1, Bool.false_eq_true, if_false]
          show s.next ≤ (closeList s _).next
          rw [sp.2.2.2.2.1]; exact Nat.le_refl _
      | unsubscribe t x =>
        simp only [unsubscribe]
        split
        · exact Nat.le_refl _
        · have hsub : ((s.chansOf t).filter (· == x)).Sublist (s.chansOf t) := List.filter_sublist
          have sp := closeList_spec ((s.chansOf t).filter (· == x)) s hi.alive
            (List.Sublist.nodup hsub (hi.chansOf_nodup t)) (fun y hy => hi.chansOf_open t y (hsub.subset hy))
          simp only [sp.1, Bool.false_eq_true, if_false]
          show s.next ≤ (closeList s _).next
          rw [sp.2.2.2.2.1]; exact Nat.le_refl _
    have hd' : s.next ≤ d := Nat.le_trans hmono hd
    by_cases hp : ∃ t m, o = .publish t m
    · obtain ⟨t, m, rfl⟩ := hp
      have sp := sendAll_spec m (s.chansOf t) s hi.alive (hi.chansOf_open t)
      have hstep : (step s (.publish t m)).recvOf d = s.recvOf d ++ List.replicate ((s.chansOf t).count d) m := by
        unfold step
        simp only [hi.alive, Bool.false_eq_true, if_false]
        exact sp.2.2.2.2.2 d
      rw [hstep, hs d hd']
      have : (s.chansOf t).count d = 0 := by
        apply List.count_eq_zero_of_not_mem
        intro hm
        exact Nat.lt_irrefl _ (Nat.lt_of_lt_of_le (hi.alloc (t, d) (mem_chansOf.mp hm)) hd')
      simp [this]
    · rw [C20_emitter_only_publish_changes_logs_aux s o (fun t m e => hp ⟨t, m, e⟩) d]
      exact hs d hd'
where
  C20_emitter_only_publish_changes_logs_aux (s : St) (o : Op) (h : ∀ t m, o ≠ .publish t m) (d : Chan) :
      (step s o).recvOf d = s.recvOf d := by
    have closeList_recv : ∀ (l : List Chan) (s : St), (closeList s l).recv = s.recv := by
      intro l
      induction l with
      | nil => intro s; rfl
      | cons c r ih =>
        intro s
        simp only [closeList]
        split
        · rfl
        · rw [ih]
    unfold step
    split
    · rfl
    · cases o with
      | newChan => rfl
      | on t c => rfl
      | subscribe t => rfl
      | publish t m => exact absurd rfl (h t m)
      | close =>
        simp only [closeAll, St.recvOf]
        split <;> simp [closeList_recv]
      | unsubscribeAll t =>
        simp only [unsubscribeAll, St.recvOf]
        split
        · rfl
        · split <;> simp [closeList_recv]
      | unsubscribe t c =>
        simp only [unsubscribe, St.recvOf]
        split
        · rfl
        · split <;> simp [closeList_recv]

/-- THE statement for the consensus events: after ANY earlier history of an emitter used with `Subscribe`
only, a new subscriber of topic `t` receives, over any later run of publications (of any length, on any
topics) and further subscriptions, exactly the messages published on `t` after it subscribed — each once,
in publication order; nobody panics -/
theorem C04_emitter_subscriber_receives_every_event_in_order (pre post : List Op) (t : String)
    (hpre : ∀ o ∈ pre, o.fresh = true) (hpost : ∀ o ∈ post, keeps o = true) :
    let c := (run pre).next
    (run (pre ++ [.subscribe t] ++ post)).recvOf c = msgsOn t post ∧
    (run (pre ++ [.subscribe t] ++ post)).dead = false := by
  intro c
  have hi : Inv (run pre) := inv_foldl inv_init pre hpre
  have hi1 : Inv (subscribe (run pre) t).1 := inv_subscribe hi t
  have halive : (run pre).dead = false := hi.alive
  have hstep : step (run pre) (.subscribe t) = (subscribe (run pre) t).1 := by
    unfold step; simp [halive]
  have hrun : run (pre ++ [.subscribe t] ++ post) = post.foldl step (subscribe (run pre) t).1 := by
    have e : run (pre ++ [.subscribe t] ++ post) = post.foldl step (step (run pre) (.subscribe t)) := by
      simp only [run, List.foldl_append, List.foldl_cons, List.foldl_nil]
    rw [e, hstep]
  have hreg : (t, c) ∈ (subscribe (run pre) t).1.subs := by
    show (t, c) ∈ (run pre).subs ++ [(t, (run pre).next)]
    simp [c]
  have main := C04_emitter_registered_channel_receives_exactly (subscribe (run pre) t).1 t c hi1 hreg post hpost
  have hempty : (subscribe (run pre) t).1.recvOf c = [] := by
    show (run pre).recvOf c = []
    exact recv_alloc pre hpre c (Nat.le_refl _)
  rw [hrun]
  refine ⟨?_, main.2⟩
  rw [main.1, hempty]; simp

/-- non-vacuity / the burst case: 200 finalize events published back to back after the subscription all
arrive, in order (kernel evaluation of the model, no appeal to the theorem) -/
example :
    (run ([.subscribe "new", .publish "finalize" 0, .subscribe "finalize"] ++
        (List.range 200).map (fun i => Op.publish "finalize" (i + 1)))).recvOf 1 = (List.range 200).map (· + 1) := by
  decide +kernel
