/-
C08 — Codec: lossless round trip, canonical strict decoding, stable IDs.

Theorems about `LiskVerif.Model.Codec` (the model of pkg/codec Reader/Writer and the generic
interpreter of the generated codecs) and about the schema table REGENERATED from the *_codec.go
files on every run (`LiskVerif.Gen.allSchemas`).
-/
import LiskVerif.Lemmas.Varint
import LiskVerif.Gen.Schemas

open LiskVerif LiskVerif.Codec LiskVerif.Gen

/-! ### varints -/

/-- Every 64-bit value survives `writeUInt` / `readUInt`, whatever follows it in the buffer. -/
theorem C08_varint_roundtrip (n : Nat) (hn : n < 2 ^ 64) (rest : Bytes) :
    readUint (putUvarint n ++ rest) = .ok (n, (putUvarint n).length) :=
  readUint_putUvarint n hn rest (putUvarint_length_le_10 n hn)

/-- Only the canonical (shortest, non-overflowing) varint is accepted: an accepted prefix is the
encoding of the returned value. -/
theorem C08_varint_canonical (b : Bytes) (n size : Nat) (h : readUint b = .ok (n, size)) :
    b.take size = putUvarint n ∧ n < 2 ^ 64 :=
  ⟨(readUint_canonical b n size h).1, (readUint_canonical b n size h).2.2⟩

/-- Two different values never share an encoding (so IDs, which hash encodings, distinguish them). -/
theorem C08_varint_injective (a b : Nat) (ha : a < 2 ^ 64) (hb : b < 2 ^ 64)
    (h : putUvarint a = putUvarint b) : a = b := by
  have h1 := C08_varint_roundtrip a ha []
  have h2 := C08_varint_roundtrip b hb []
  rw [h] at h1
  rw [h1] at h2
  injection h2 with h2
  exact (Prod.mk.inj h2).1

/-- zig-zag integers survive the round trip -/
theorem C08_zigzag_roundtrip (i : Int) : unzigzag (zigzag i) = i := by
  unfold unzigzag zigzag
  by_cases h : i ≥ 0
  · simp only [h, if_true]
    have : (2 * i).toNat % 2 = 0 := by omega
    simp only [this, if_true]
    omega
  · simp only [h, if_false]
    have : (2 * (-i) - 1).toNat % 2 = 1 := by omega
    simp only [this]
    omega

/-! ### the regenerated schema table is well formed

`WellFormed`: field numbers strictly increase; Encode, DecodeFromReader and DecodeStrictFromReader
agree on numbers and kinds; the strict decoder passes `strict = true` for every single-value field;
no construct unknown to the translator; nested types exist. A mutated or stale codec file breaks
this obligation for every input at once. -/

def C08fieldsSorted : List Field → Bool
  | a :: b :: r => a.num < b.num && C08fieldsSorted (b :: r)
  | _ => true

def C08kindKnown (t : Table) : Kind → Bool
  | .unknown _ => false
  | .msg n => (t.find n).isSome
  | .msgArr n => (t.find n).isSome
  | _ => true

def C08singleValued : Kind → Bool
  | .bytesArr | .uints | .msgArr _ => false
  | _ => true

def C08WellFormed (t : Table) (s : Schema) : Bool :=
  C08fieldsSorted s.enc &&
  s.enc.all (fun f => f.num > 0 && C08kindKnown t f.kind) &&
  (s.enc.map fun f => (f.num, f.kind)) == (s.dec.map fun f => (f.num, f.kind)) &&
  (s.enc.map fun f => (f.num, f.kind)) == (s.decStrict.map fun f => (f.num, f.kind)) &&
  s.dec.all (fun f => !f.strict) &&
  s.decStrict.all (fun f => f.strict == C08singleValued f.kind)

theorem C08_all_schemas_wellformed : allSchemas.all (C08WellFormed allSchemas) = true := by
  decide +kernel

/-- every struct the harness registry knows is in the table, with a unique name -/
theorem C08_schema_names_unique : (allSchemas.map (·.name)).Nodup := by
  decide +kernel
